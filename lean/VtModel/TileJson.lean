import VtModel.Json
/-
Model of `versatiles_core/src/tilejson/{mod,value,vector_layer}.rs`:

* `TileJsonValue` (list of strings / string / byte), `TileJsonValues` (a `BTreeMap`, always
  created with `"tilejson" ↦ "3.0.0"`), `VectorLayer(s)`, `TileJSON`;
* `TileJSON::from_object`, `as_object`, `merge`, `limit_bbox`, `limit_min_zoom`,
  `limit_max_zoom`, `update_from_pyramid` (the three values a pyramid contributes —
  `get_geo_bbox`, `get_zoom_min`, `get_zoom_max` — are parameters; they belong to C15).

`BTreeMap`s are sorted association lists (`insertKV`, `lookupKV` of `VtModel.Json`).
`f64` is a parameter `N` with the handful of operations the code applies to it (`TjNum`); the
driver instantiates it with Lean's `Float` (the same IEEE-754 binary64 operations).
-/
namespace VtModel.TileJson
open VtModel.Json

abbrev Key := List Char

/-- the `f64` operations used by the TileJSON code -/
structure TjNum (N : Type) where
  /-- `u8 as f64` -/
  ofByte : Nat → N
  /-- `(0.0..=255.0).contains(n)` then `n as u8` (value.rs:186-187) -/
  toByte? : N → Option Nat
  /-- `n as u8` (saturating, NaN ↦ 0) -/
  asU8 : N → Nat
  /-- `f64::max`, `f64::min` -/
  max : N → N → N
  min : N → N → N

/-- `TileJsonValue` -/
inductive TJValue where
  | list (xs : List (List Char))
  | str (s : List Char)
  | byte (b : Nat)
deriving DecidableEq, Repr

/-- `VectorLayer` -/
structure VectorLayer where
  fields : List (Key × List Char)
  description : Option (List Char)
  minzoom : Option Nat
  maxzoom : Option Nat
deriving DecidableEq, Repr

/-- `TileJSON` -/
structure TileJSON (N : Type) where
  bounds : Option (N × N × N × N)
  center : Option (N × N × Nat)
  values : List (Key × TJValue)
  layers : List (Key × VectorLayer)

def kTilejson : Key := "tilejson".toList
def kBounds : Key := "bounds".toList
def kCenter : Key := "center".toList
def kLayers : Key := "vector_layers".toList
def kMinzoom : Key := "minzoom".toList
def kMaxzoom : Key := "maxzoom".toList
def kId : Key := "id".toList
def kFields : Key := "fields".toList
def kDescription : Key := "description".toList

/-- `TileJSON::default()` -/
def TileJSON.default {N : Type} : TileJSON N :=
  { bounds := none, center := none, values := [(kTilejson, .str "3.0.0".toList)], layers := [] }

section
variable {N : Type} (nu : TjNum N)

/-! ### values (`value.rs`) -/

def asString? : JsonValue N → Option (List Char)
  | .str s => some s
  | _ => none

def asNumber? : JsonValue N → Option N
  | .num n => some n
  | _ => none

/-- `TileJsonValue::try_from(&JsonValue)` -/
def TJValue.ofJson : JsonValue N → Option TJValue
  | .str s => some (.str s)
  | .arr xs => (xs.mapM asString?).map .list
  | .num n => (nu.toByte? n).map .byte
  | _ => none

/-- `as_json_value` -/
def TJValue.toJson : TJValue → JsonValue N
  | .byte b => .num (nu.ofByte b)
  | .list l => .arr (l.map .str)
  | .str s => .str s

def getByte? (vals : List (Key × TJValue)) (k : Key) : Option Nat :=
  match lookupKV k vals with
  | some (.byte b) => some b
  | _ => none

/-! ### vector layers (`vector_layer.rs`) -/

/-- `object.get_string(key)`: `Ok(None)` when absent, `Err` when not a string -/
def getString (o : List (Key × JsonValue N)) (k : Key) : Option (Option (List Char)) :=
  match lookupKV k o with
  | none => some none
  | some v => (asString? v).map some

def getNumber (o : List (Key × JsonValue N)) (k : Key) : Option (Option N) :=
  match lookupKV k o with
  | none => some none
  | some v => (asNumber? v).map some

def fieldsOfJson (o : List (Key × JsonValue N)) : Option (List (Key × List Char)) :=
  match lookupKV kFields o with
  | none => some []
  | some (.obj fs) =>
    (fs.mapM fun (kv : Key × JsonValue N) => (asString? kv.2).map fun s => (kv.1, s)).map mkObj
  | some _ => none

/-- one entry of `VectorLayers::from_json` -/
def layerOfJson (entry : JsonValue N) : Option (Key × VectorLayer) :=
  match entry with
  | .obj o =>
    match getString o kId with
    | some (some id) =>
      (getString o kDescription).bind fun description =>
      (getNumber o kMinzoom).bind fun minzoom =>
      (getNumber o kMaxzoom).bind fun maxzoom =>
      (fieldsOfJson o).map fun fields =>
        (id, { fields := fields, description := description,
               minzoom := minzoom.map nu.asU8, maxzoom := maxzoom.map nu.asU8 })
    | _ => none      -- missing `id` or not a string
  | _ => none

/-- `VectorLayers::from_json` -/
def layersOfJson (v : JsonValue N) : Option (List (Key × VectorLayer)) :=
  match v with
  | .arr xs => (xs.mapM (layerOfJson nu)).map mkObj
  | _ => none

/-- `VectorLayer::as_json_object` + `obj.set("id", …)` -/
def layerToJson (id : Key) (l : VectorLayer) : JsonValue N :=
  let o0 : List (Key × JsonValue N) := insertKV kFields (.obj (mkObj (l.fields.map fun (kv : Key × List Char) => (kv.1, JsonValue.str kv.2)))) []
  let o1 := match l.description with | some d => insertKV kDescription (.str d) o0 | none => o0
  let o2 := match l.minzoom with | some z => insertKV kMinzoom (.num (nu.ofByte z)) o1 | none => o1
  let o3 := match l.maxzoom with | some z => insertKV kMaxzoom (.num (nu.ofByte z)) o2 | none => o2
  .obj (insertKV kId (.str id) o3)

/-- `as_json_value_option` -/
def layersToJson? (ls : List (Key × VectorLayer)) : Option (JsonValue N) :=
  if ls.isEmpty then none else some (.arr (ls.map fun (il : Key × VectorLayer) => layerToJson nu il.1 il.2))

/-! ### `from_object` / `as_object` (`mod.rs:80-135`) -/

def numberVec (v : JsonValue N) : Option (List N) :=
  match v with
  | .arr xs => xs.mapM asNumber?
  | _ => none

def boundsOfJson (v : JsonValue N) : Option (N × N × N × N) :=
  match numberVec v with
  | some [a, b, c, d] => some (a, b, c, d)
  | _ => none

def centerOfJson (v : JsonValue N) : Option (N × N × Nat) :=
  match numberVec v with
  | some [a, b, c] => some (a, b, nu.asU8 c)
  | _ => none

/-- one iteration of the `for (k, v) in object.iter()` loop -/
def fromObjectStep (r : TileJSON N) (kv : Key × JsonValue N) : Option (TileJSON N) :=
  if kv.1 = kBounds then (boundsOfJson kv.2).map fun b => { r with bounds := some b }
  else if kv.1 = kCenter then (centerOfJson nu kv.2).map fun c => { r with center := some c }
  else if kv.1 = kLayers then (layersOfJson nu kv.2).map fun l => { r with layers := l }
  else (TJValue.ofJson nu kv.2).map fun x => { r with values := insertKV kv.1 x r.values }

def foldOpt {α β : Type} (f : α → β → Option α) : α → List β → Option α
  | a, [] => some a
  | a, b :: r => (f a b).bind fun a' => foldOpt f a' r

/-- `TileJSON::from_object` (`none` = `Err`) -/
def fromObject (o : List (Key × JsonValue N)) : Option (TileJSON N) :=
  foldOpt (fromObjectStep nu) TileJSON.default o

def boundsToJson (b : N × N × N × N) : JsonValue N := .arr [.num b.1, .num b.2.1, .num b.2.2.1, .num b.2.2.2]
def centerToJson (c : N × N × Nat) : JsonValue N := .arr [.num c.1, .num c.2.1, .num (nu.ofByte c.2.2)]

def setOptional {V : Type} (k : Key) (v : Option V) (o : List (Key × V)) : List (Key × V) :=
  match v with
  | some x => insertKV k x o
  | none => o

/-- `TileJSON::as_object` -/
def asObject (t : TileJSON N) : List (Key × JsonValue N) :=
  let o0 := t.values.foldl (fun o kv => insertKV kv.1 (TJValue.toJson nu kv.2) o) []
  let o1 := setOptional kBounds (t.bounds.map boundsToJson) o0
  let o2 := setOptional kCenter (t.center.map (centerToJson nu)) o1
  setOptional kLayers (layersToJson? nu t.layers) o2

/-! ### narrowing and merging (`mod.rs:160-330`) -/

/-- `GeoBBox::intersect` -/
def intersectBox (a b : N × N × N × N) : N × N × N × N :=
  (nu.max a.1 b.1, nu.max a.2.1 b.2.1, nu.min a.2.2.1 b.2.2.1, nu.min a.2.2.2 b.2.2.2)

/-- `GeoBBox::extended` -/
def extendBox (a b : N × N × N × N) : N × N × N × N :=
  (nu.min a.1 b.1, nu.min a.2.1 b.2.1, nu.max a.2.2.1 b.2.2.1, nu.max a.2.2.2 b.2.2.2)

def limitBBox (t : TileJSON N) (b : N × N × N × N) : TileJSON N :=
  { t with bounds := some (match t.bounds with | some sb => intersectBox nu sb b | none => b) }

/-- `update_byte(key, f)` -/
def updateByte (vals : List (Key × TJValue)) (k : Key) (f : Option Nat → Nat) : List (Key × TJValue) :=
  insertKV k (.byte (f (getByte? vals k))) vals

def limitMinZoom (t : TileJSON N) (z : Nat) : TileJSON N :=
  { t with values := updateByte t.values kMinzoom fun mz => match mz with | some m => Nat.max m z | none => z }

def limitMaxZoom (t : TileJSON N) (z : Nat) : TileJSON N :=
  { t with values := updateByte t.values kMaxzoom fun mz => match mz with | some m => Nat.min m z | none => z }

/-- `update_from_pyramid` with the pyramid's `get_geo_bbox()`, `get_zoom_min()`, `get_zoom_max()` -/
def updateFromPyramid (t : TileJSON N) (bbox : Option (N × N × N × N)) (zmin zmax : Option Nat) : TileJSON N :=
  let t1 := match bbox with | some b => limitBBox nu t b | none => t
  let t2 := match zmin with | some z => limitMinZoom t1 z | none => t1
  match zmax with | some z => limitMaxZoom t2 z | none => t2

/-- `VectorLayer::merge` -/
def mergeLayer (a b : VectorLayer) : VectorLayer :=
  { fields := b.fields.foldl (fun m kv => insertKV kv.1 kv.2 m) a.fields
    description := match b.description with | some d => some d | none => a.description
    minzoom := match b.minzoom with
      | some o => some (match a.minzoom with | some m => Nat.min m o | none => o)
      | none => a.minzoom
    maxzoom := match b.maxzoom with
      | some o => some (match a.maxzoom with | some m => Nat.max m o | none => o)
      | none => a.maxzoom }

/-- `VectorLayers::merge` -/
def mergeLayers (a b : List (Key × VectorLayer)) : List (Key × VectorLayer) :=
  b.foldl (fun m kv => match lookupKV kv.1 m with
    | some ex => insertKV kv.1 (mergeLayer ex kv.2) m
    | none => insertKV kv.1 kv.2 m) a

/-- `TileJSON::merge` (never fails: every value it inserts comes from a `TileJsonValue`) -/
def merge (s o : TileJSON N) : TileJSON N :=
  let bounds := match o.bounds with
    | some ob => some (match s.bounds with | some sb => extendBox nu sb ob | none => ob)
    | none => s.bounds
  let center := match o.center with | some c => some c | none => s.center
  let v1 := match getByte? o.values kMinzoom with
    | some omin => insertKV kMinzoom (.byte (match getByte? s.values kMinzoom with | some m => Nat.min m omin | none => omin)) s.values
    | none => s.values
  let v2 := match getByte? o.values kMaxzoom with
    | some omax => insertKV kMaxzoom (.byte (match getByte? v1 kMaxzoom with | some m => Nat.max m omax | none => omax)) v1
    | none => v1
  -- (after fix 09996a8a: zoom keys are skipped only when they were merged as bytes above)
  let v3 := o.values.foldl (fun m kv => if (kv.1 = kMinzoom ∨ kv.1 = kMaxzoom) ∧ (getByte? o.values kv.1).isSome then m else insertKV kv.1 kv.2 m) v2
  { bounds := bounds, center := center, values := v3, layers := mergeLayers s.layers o.layers }

/-- `TileSource::build_tile_json` (`versatiles/src/tools/server/sources/tile_source.rs:93-110`):
    clone of the reader's document, `update_from_pyramid`, then `type`, `name`, `format` and the
    `tiles` URL template are set. -/
def served (t : TileJSON N) (bbox : Option (N × N × N × N)) (zmin zmax : Option Nat)
    (typeStr idStr formatStr urlPrefix : List Char) : TileJSON N :=
  let t1 := updateFromPyramid nu t bbox zmin zmax
  let v1 := insertKV "type".toList (.str typeStr) t1.values
  let v2 := insertKV "name".toList (.str idStr) v1
  let v3 := insertKV "format".toList (.str formatStr) v2
  { t1 with values := insertKV "tiles".toList (.list [urlPrefix ++ "{z}/{x}/{y}".toList]) v3 }

end

/-! ### text level: `TileJSON::try_from(&str)` / `as_string` (`mod.rs:138-147, 430-440`) -/

section
variable {N : Type} (nu : TjNum N) (ops : NumOps N)

/-- `as_string` = `self.as_object().stringify()` -/
def toText (t : TileJSON N) : Bytes := stringify ops (.obj (asObject nu t))

/-- `TileJSON::try_from(text)` = `parse_json_str(text)?.to_object()?` then `from_object` -/
def ofText (text : Bytes) : Res (TileJSON N) :=
  match parseBytes ops text with
  | .ok (.obj o) => (match fromObject nu o with | some t => .ok t | none => .err)
  | .ok _ => .err          -- "expected a JSON object"
  | .err => .err
  | .panic s => .panic s
  | .fuel => .fuel

/-- what the tar reader hands out for a stored metadata text (`try_from_blob_or_default` then
    `default.merge(..)`); an unreadable text silently becomes the default document -/
def tarRead (text : Bytes) : TileJSON N :=
  match ofText nu ops text with
  | .ok t => merge nu TileJSON.default t
  | _ => TileJSON.default

/-- what the directory reader hands out: the same, narrowed to the coverage found on disk -/
def directoryRead (text : Bytes) (bbox : Option (N × N × N × N)) (zmin zmax : Option Nat) : TileJSON N :=
  updateFromPyramid nu (tarRead nu ops text) bbox zmin zmax

/-- versatiles / pmtiles readers: `try_from_blob_or_default` of the (decompressed) metadata -/
def blobRead (text : Bytes) : TileJSON N :=
  match ofText nu ops text with
  | .ok t => t
  | _ => TileJSON.default
end

/-! ### driver instantiation: binary64 via `Float` -/

def f (b : UInt64) : Float := Float.ofBits b

def fmax (a b : UInt64) : UInt64 :=
  if (f a).isNaN then b else if (f b).isNaN then a else if f a < f b then b else a
def fmin (a b : UInt64) : UInt64 :=
  if (f a).isNaN then b else if (f b).isNaN then a else if f b < f a then b else a

def floatNum : TjNum UInt64 where
  ofByte := fun n => (Float.ofNat n).toBits
  toByte? := fun b => if 0.0 ≤ f b && f b ≤ 255.0 then some (f b).toUInt8.toNat else none
  asU8 := fun b => (f b).toUInt8.toNat
  max := fmax
  min := fmin

mutual
/-- number texts of a decoded tree → bit patterns (`none` if a text is not a number lexeme) -/
def toBitsTree : JsonValue Bytes → Option (JsonValue UInt64)
  | .null => some .null
  | .bool b => some (.bool b)
  | .num t => (readF64Bits t).map .num
  | .str s => some (.str s)
  | .arr xs => (toBitsItems xs).map .arr
  | .obj kvs => (toBitsMembers kvs).map .obj
def toBitsItems : List (JsonValue Bytes) → Option (List (JsonValue UInt64))
  | [] => some []
  | x :: r => (toBitsTree x).bind fun x' => (toBitsItems r).map fun r' => x' :: r'
def toBitsMembers : List (Key × JsonValue Bytes) → Option (List (Key × JsonValue UInt64))
  | [] => some []
  | (k, x) :: r => (toBitsTree x).bind fun x' => (toBitsMembers r).map fun r' => (k, x') :: r'
end

def decodeDoc (s : String) : Option (TileJSON UInt64) :=
  match (decodeTree s).bind toBitsTree with
  | some (.obj o) => fromObject floatNum o
  | _ => none

def showDoc (t : TileJSON UInt64) : String := showTree hex16 (.obj (asObject floatNum t))

def numArg (s : String) : Option UInt64 := (unhex s).bind readF64Bits

/-- `C17t <tree>` → `ok <tree of as_object(from_object(tree))>` | `err` -/
def handleT (args : List String) : String :=
  match args with
  | [tree] =>
    match (decodeTree tree).bind toBitsTree with
    | some (.obj o) =>
      match fromObject floatNum o with
      | some t => "ok " ++ showDoc t
      | none => "err"
    | _ => "bad-op"
  | _ => "bad-op"

/-- `C17x <hex text>` → `TileJSON::try_from(text)`: `ok <tree of as_object>` | `err` -/
def handleX (args : List String) : String :=
  match args with
  | [h] =>
    match unhex h with
    | none => "bad-op"
    | some bs =>
      match ofText floatNum bitsOps bs with
      | .ok t => "ok " ++ showDoc t
      | .err => "err"
      | .panic _ => "panic"
      | .fuel => "fuel"
  | _ => "bad-op"

/-- `C17u <tree> <w,s,e,n | -> <zmin | -> <zmax | ->` → document after the three `limit_*` calls -/
def handleU (args : List String) : String :=
  match args with
  | [tree, bb, z0, z1] =>
    match decodeDoc tree with
    | none => "err"
    | some t =>
      let bbox : Option (Option (UInt64 × UInt64 × UInt64 × UInt64)) :=
        if bb == "-" then some none else
        match (bb.splitOn ",").mapM numArg with
        | some [a, b, c, d] => some (some (a, b, c, d))
        | _ => none
      let zo (s : String) : Option (Option Nat) := if s == "-" then some none else s.toNat?.map some
      match bbox, zo z0, zo z1 with
      | some bbox, some zmin, some zmax => "ok " ++ showDoc (updateFromPyramid floatNum t bbox zmin zmax)
      | _, _, _ => "bad-op"
  | _ => "bad-op"

/-- `C17m <treeA> <treeB>` → `merge` -/
def handleM (args : List String) : String :=
  match args with
  | [a, b] =>
    match decodeDoc a, decodeDoc b with
    | some x, some y => "ok " ++ showDoc (merge floatNum x y)
    | _, _ => "err"
  | _ => "bad-op"

end VtModel.TileJson
