import VtModel.FmtBytes
import VtModel.BBox
/-!
Model of the `*.versatiles` container (`versatiles_container/src/container/versatiles/**`).

* `Header`     – 66-byte file header (`types/file_header.rs`)
* `BlockDef`   – 33-byte block definition (`types/block_definition.rs`)
* block index  – concatenated block definitions, brotli-compressed (`types/block_index.rs`)
* tile index   – 12-byte entries, brotli-compressed (`types/tile_index.rs`)
* `Reader`     – `VersaTilesReader::open_reader` / `get_tile_data` (`reader.rs:86-230`)
* `write`      – `VersaTilesWriter::write_to_writer` (`writer.rs`): 256-grid partition of every level
                 box, offsets relative to the block, de-duplication of payloads < 1000 bytes, block
                 index last, header rewritten at the end.

All integers are big-endian.  Compression is external: the reader takes an `Inflate`, the writer a
function `enc` (brotli for the indexes); metadata bytes are opaque.
Every Rust panic site is an explicit `.panic` (unchecked `+` / `*` of the dev profile, `assert_eq!`,
`unwrap`); `Err` results are `.err`.
-/
namespace VtModel.Versatiles
open VtModel VtModel.Fmt

/-! ## header -/

/-- "versatiles_v02" -/
def magic : Bytes := [118, 101, 114, 115, 97, 116, 105, 108, 101, 115, 95, 118, 48, 50]

/-- format byte of the header (file_header.rs:88-103 / 157-172) -/
def fmtCode : TileFormat → Nat
  | .bin => 0x00 | .png => 0x10 | .jpg => 0x11 | .webp => 0x12 | .avif => 0x13 | .svg => 0x14
  | .pbf => 0x20 | .geojson => 0x21 | .topojson => 0x22 | .json => 0x23

def fmtOfCode (c : Nat) : Option TileFormat :=
  if c = 0x00 then some .bin else if c = 0x10 then some .png else if c = 0x11 then some .jpg
  else if c = 0x12 then some .webp else if c = 0x13 then some .avif else if c = 0x14 then some .svg
  else if c = 0x20 then some .pbf else if c = 0x21 then some .geojson
  else if c = 0x22 then some .topojson else if c = 0x23 then some .json else none

def compCode : TComp → Nat
  | .none => 0 | .gzip => 1 | .brotli => 2

def compOfCode (c : Nat) : Option TComp :=
  if c = 0 then some .none else if c = 1 then some .gzip else if c = 2 then some .brotli else none

/-- `FileHeader` -/
structure Header where
  fmt : TileFormat
  comp : TComp
  zmin : Nat
  zmax : Nat
  b0 : Int
  b1 : Int
  b2 : Int
  b3 : Int
  metaR : Range
  blocks : Range
deriving Repr, DecidableEq

/-- `FileHeader::to_blob` -/
def encHeader (h : Header) : Bytes :=
  magic ++ (beEnc 1 (fmtCode h.fmt) ++ (beEnc 1 (compCode h.comp) ++ (beEnc 1 h.zmin ++ (beEnc 1 h.zmax ++
    (beEnc 4 (i32ToNat h.b0) ++ (beEnc 4 (i32ToNat h.b1) ++ (beEnc 4 (i32ToNat h.b2) ++ (beEnc 4 (i32ToNat h.b3) ++
    (beEnc 8 h.metaR.off ++ (beEnc 8 h.metaR.len ++ (beEnc 8 h.blocks.off ++ beEnc 8 h.blocks.len)))))))))))

/-- `FileHeader::from_blob` (file_header.rs:141-196): exactly 66 bytes, magic, known codes -/
def decHeader (bs : Bytes) : Outcome Header := do
  ensure (bs.length == 66)
  let (m, r) ← takeN 14 bs
  ensure (m == magic)
  let (f, r) ← readBE 1 r
  let fmt ← match fmtOfCode f with | some x => Outcome.ok x | none => .err
  let (c, r) ← readBE 1 r
  let comp ← match compOfCode c with | some x => Outcome.ok x | none => .err
  let (zmin, r) ← readBE 1 r
  let (zmax, r) ← readBE 1 r
  let (b0, r) ← readI32BE r
  let (b1, r) ← readI32BE r
  let (b2, r) ← readI32BE r
  let (b3, r) ← readI32BE r
  let (mo, r) ← readBE 8 r
  let (ml, r) ← readBE 8 r
  let (bo, r) ← readBE 8 r
  let (bl, _) ← readBE 8 r
  pure ⟨fmt, comp, zmin, zmax, b0, b1, b2, b3, ⟨mo, ml⟩, ⟨bo, bl⟩⟩

/-- `FileHeader::from_reader`: `read_range(0, 66)` then `from_blob` -/
def readHeader (file : Bytes) : Outcome Header := readRange file ⟨0, 66⟩ >>= decHeader

/-! ## block definition -/

/-- `BlockDefinition`: block coordinate, tile coverage inside the block (0..255), byte ranges.
    `global_bbox` is `coverage + 256·(x, y)` in both constructors. -/
structure BlockDef where
  z : Nat
  x : Nat
  y : Nat
  cxmin : Nat
  cymin : Nat
  cxmax : Nat
  cymax : Nat
  tiles : Range
  index : Range
deriving Repr, DecidableEq

namespace BlockDef
def gxmin (b : BlockDef) : Nat := b.cxmin + b.x * 256
def gymin (b : BlockDef) : Nat := b.cymin + b.y * 256
def gxmax (b : BlockDef) : Nat := b.cxmax + b.x * 256
def gymax (b : BlockDef) : Nat := b.cymax + b.y * 256
/-- `get_global_bbox` -/
def global (b : BlockDef) : BBox := ⟨b.z, b.gxmin, b.gymin, b.gxmax, b.gymax⟩
/-- `count_tiles` = tiles of `tiles_coverage` -/
def count (b : BlockDef) : Nat := (b.cxmax + 1 - b.cxmin) * (b.cymax + 1 - b.cymin)
end BlockDef

/-- `BlockDefinition::as_blob` (block_definition.rs:123-145); `ensure!` that the index follows the tiles -/
def encBlockDef (b : BlockDef) : Outcome Bytes :=
  if b.tiles.off + b.tiles.len ≥ U64 then .panic
  else if b.tiles.off + b.tiles.len ≠ b.index.off then .err
  else .ok (beEnc 1 b.z ++ (beEnc 4 b.x ++ (beEnc 4 b.y ++ (beEnc 1 b.cxmin ++ (beEnc 1 b.cymin ++ (beEnc 1 b.cxmax ++
    (beEnc 1 b.cymax ++ (beEnc 8 b.tiles.off ++ (beEnc 8 b.tiles.len ++ beEnc 4 b.index.len)))))))))

/-- `TileBBox::new(level, …)?` as a check (tile_bbox.rs:72-92) -/
def bboxOk (level xmin ymin xmax ymax : Nat) : Bool :=
  level ≤ 31 && xmax ≤ 2 ^ level - 1 && ymax ≤ 2 ^ level - 1 && xmin ≤ xmax && ymin ≤ ymax

/-- `BlockDefinition::from_blob` (block_definition.rs:60-105).  Failure sites: short input, invalid
    coverage box, `offset + tiles_length` overflow, `x * 256 + x_min` … (u32) overflow, invalid global
    box (incl. z > 31) — all `Err` (the arithmetic is checked since /repo aa1bc4ea; it used to panic in
    the dev profile). -/
def decBlockDef (bs : Bytes) : Outcome BlockDef := do
  let (z, r) ← readBE 1 bs
  let (x, r) ← readBE 4 r
  let (y, r) ← readBE 4 r
  let (cxmin, r) ← readBE 1 r
  let (cymin, r) ← readBE 1 r
  let (cxmax, r) ← readBE 1 r
  let (cymax, r) ← readBE 1 r
  ensure (bboxOk (min z 8) cxmin cymin cxmax cymax)
  let (off, r) ← readBE 8 r
  let (tl, r) ← readBE 8 r
  let (il, _) ← readBE 4 r
  ensure (decide (off + tl < U64))
  ensure (decide (cxmin + x * 256 < U32))      -- covers `x * 256` as well
  ensure (decide (cymin + y * 256 < U32))
  ensure (decide (cxmax + x * 256 < U32))
  ensure (decide (cymax + y * 256 < U32))
  ensure (bboxOk z (cxmin + x * 256) (cymin + y * 256) (cxmax + x * 256) (cymax + y * 256))
  pure ⟨z, x, y, cxmin, cymin, cxmax, cymax, ⟨off, tl⟩, ⟨off + tl, il⟩⟩

/-- `BlockDefinition::new(bbox)` (block_definition.rs:29-52): the box of ONE grid cell.  The
    `TileBBox::new(z.min(8), …).unwrap()` panics when the box spans several blocks (or is invalid). -/
def newBlockDef (b : BBox) : Outcome BlockDef :=
  let x := b.xmin / 256
  let y := b.ymin / 256
  if b.xmax < x * 256 || b.ymax < y * 256 then .panic   -- u32 underflow of `bbox.x_max - x * 256`
  else if !bboxOk (min b.level 8) (b.xmin - x * 256) (b.ymin - y * 256) (b.xmax - x * 256) (b.ymax - y * 256) then .panic
  else if b.level > 31 then .panic
  else .ok ⟨b.level, x, y, b.xmin - x * 256, b.ymin - y * 256, b.xmax - x * 256, b.ymax - y * 256, ⟨0, 0⟩, ⟨0, 0⟩⟩

/-! ## block index -/

/-- `BlockIndex::from_blob` (block_index.rs:37-52): records in file order -/
def decBlockDefs : (fuel : Nat) → Bytes → Outcome (List BlockDef)
  | 0, _ => .ok []
  | n + 1, bs =>
    match decBlockDef (bs.take 33) with
    | .ok b =>
      match decBlockDefs n (bs.drop 33) with
      | .ok l => .ok (b :: l)
      | .err => .err
      | .panic => .panic
    | .err => .err
    | .panic => .panic

def decBlockIndex (bs : Bytes) : Outcome (List BlockDef) :=
  if bs.length % 33 ≠ 0 then .err else decBlockDefs (bs.length / 33) bs

/-- the `HashMap<TileCoord3, BlockDefinition>`: a later record with the same coordinate replaces an
    earlier one -/
def getBlock (l : List BlockDef) (x y z : Nat) : Option BlockDef :=
  l.reverse.find? (fun b => b.x == x && b.y == y && b.z == z)

/-- the distinct entries of the hash map (those that `getBlock` can return): a record is dropped
    when a later record has the same block coordinate -/
def liveBlocks : List BlockDef → List BlockDef
  | [] => []
  | b :: rest =>
    if rest.any (fun c => c.x == b.x && c.y == b.y && c.z == b.z) then liveBlocks rest
    else b :: liveBlocks rest

/-- `BlockIndex::as_blob` over a list of blocks (the real order is `HashMap` order) -/
def encBlockIndex : List BlockDef → Outcome Bytes
  | [] => .ok []
  | b :: l =>
    match encBlockDef b with
    | .ok e =>
      match encBlockIndex l with
      | .ok r => .ok (e ++ r)
      | .err => .err
      | .panic => .panic
    | .err => .err
    | .panic => .panic

/-- coverage of one level: bounding box of the global boxes (`get_bbox_pyramid`, `include_bbox`) -/
def coverLevel (l : List BlockDef) (z : Nat) : Option BBox :=
  (l.filter (fun b => b.z == z)).foldl (fun acc b =>
    match acc with
    | none => some b.global
    | some a => some ⟨z, min a.xmin b.gxmin, min a.ymin b.gymin, max a.xmax b.gxmax, max a.ymax b.gymax⟩) none

def cover (l : List BlockDef) : List BBox := (List.range 32).filterMap (coverLevel (liveBlocks l))

/-! ## tile index -/

/-- `TileIndex::as_blob`: `offset u64`, `length as u32` -/
def encTileIndex (l : List Range) : Bytes := (l.map fun r => beEnc 8 r.off ++ beEnc 4 r.len).flatten

def decRanges : (n : Nat) → Bytes → List Range
  | 0, _ => []
  | n + 1, bs => ⟨beDec (bs.take 8), beDec ((bs.drop 8).take 4)⟩ :: decRanges n (bs.drop 12)

/-- `TileIndex::from_blob` (tile_index.rs:38-55) -/
def decTileIndex (bs : Bytes) : Outcome (List Range) :=
  if bs.length % 12 ≠ 0 then .err else .ok (decRanges (bs.length / 12) bs)

/-! ## reader -/

structure Reader where
  file : Bytes
  header : Header
  blocks : List BlockDef
  K : Inflate

/-- `VersaTilesReader::open_reader` (reader.rs:86-125).  The metadata is read and inflated (a failure
    aborts the open) but its JSON content is not modelled (`try_from_blob_or_default` never fails). -/
def openReader (K : Inflate) (file : Bytes) : Outcome Reader := do
  let h ← readHeader file
  if h.metaR.len > 0 then
    let m ← readRange file h.metaR
    let _ ← K.run h.comp m
    pure ()
  let bi ← readRange file h.blocks
  let raw ← K.run .brotli bi
  let blocks ← decBlockIndex raw
  pure ⟨file, h, blocks, K⟩

/-- `add_offset`: saturating `u64` addition per entry (since /repo c1d32dc4; before, an unchecked
    addition that panicked in the dev profile) -/
def addOffset (off : Nat) (l : List Range) : Outcome (List Range) :=
  .ok (l.map fun r => ⟨min (r.off + off) (U64 - 1), r.len⟩)

/-- `get_block_tile_index` (reader.rs:136-154) -/
def blockTileIndex (r : Reader) (b : BlockDef) : Outcome (List Range) := do
  let blob ← readRange r.file b.index
  let raw ← r.K.run .brotli blob
  let idx ← decTileIndex raw
  let idx ← addOffset b.tiles.off idx
  ensure (idx.length == b.count)          -- `ensure!(tile_index.len() == block.count_tiles())` (an `assert_eq!` before c1d32dc4)
  pure idx

/-- position of a tile inside the block's global box (`get_tile_index2`, row-major) -/
def tilePos (b : BlockDef) (x y : Nat) : Nat :=
  (y - b.gymin) * (b.gxmax + 1 - b.gxmin) + (x - b.gxmin)

/-- `get_tile_data` (reader.rs:188-230) -/
def getTile (r : Reader) (x y z : Nat) : Outcome (Option Bytes) :=
  if z > 31 then .err                                  -- `TileCoord3::new(…)?`
  else
    match getBlock r.blocks (x / 256) (y / 256) z with
    | none => .ok none
    | some b =>
      if !(b.global.contains2 x y) then .ok none
      else
        match blockTileIndex r b with
        | .ok idx =>
          match idx[tilePos b x y]? with
          | none => .panic                             -- unreachable after the length check
          | some rg =>
            if rg.len = 0 then .ok none
            else match readRange r.file rg with
              | .ok blob => .ok (some blob)
              | .err => .err
              | .panic => .panic
        | .err => .err
        | .panic => .panic

/-! ## writer -/

/-- the cells of `iter_bbox_grid(256)` for a valid non-empty level box (tile_bbox.rs:654-682): block
    rows outer, block columns inner; each cell is the intersection of the box with one 256-block.
    For a box with `xmax, ymax < 2^31` none of the `u32` sites can overflow and no cell is empty. -/
def grid256 (b : BBox) : List BBox :=
  (List.range' (b.ymin / 256) (b.ymax / 256 + 1 - b.ymin / 256)).flatMap fun by_ =>
    (List.range' (b.xmin / 256) (b.xmax / 256 + 1 - b.xmin / 256)).map fun bx =>
      ⟨b.level, max b.xmin (bx * 256), max b.ymin (by_ * 256), min b.xmax (bx * 256 + 255), min b.ymax (by_ * 256 + 255)⟩

abbrev Tile := (Nat × Nat × Nat) × Bytes     -- ((x, y, z), payload)

/-- state of `write_block`'s `for_each_sync` closure -/
structure BlockState where
  blobs : Bytes                       -- bytes appended since `offset0`
  index : List Range                  -- the tile index (relative offsets)
  seen : List (Bytes × Range)         -- `tile_hash_lookup`
deriving Repr

/-- store the payload of one tile at tile-index position `i` (writer.rs:167-189): payloads shorter
    than 1000 bytes are looked up in / added to `tile_hash_lookup`; everything else is appended -/
def putAt (i : Nat) (s : BlockState) (payload : Bytes) : BlockState :=
  if payload.length < 1000 then
    match s.seen.find? (fun p => p.1 == payload) with
    | some p => { s with index := s.index.set i p.2 }
    | none =>
      let rg : Range := ⟨s.blobs.length, payload.length⟩
      ⟨s.blobs ++ payload, s.index.set i rg, (payload, rg) :: s.seen⟩
  else
    let rg : Range := ⟨s.blobs.length, payload.length⟩
    ⟨s.blobs ++ payload, s.index.set i rg, s.seen⟩

/-- row-major position inside a box (`get_tile_index2`) -/
def boxPos (box : BBox) (x y : Nat) : Nat :=
  (y - box.ymin) * (box.xmax + 1 - box.xmin) + (x - box.xmin)

/-- one tile of the stream (writer.rs:162-190) -/
def putTile (box : BBox) (s : BlockState) (t : Tile) : Outcome BlockState :=
  if !(box.contains2 t.1.1 t.1.2.1) then .panic          -- `get_tile_index2(..).unwrap()`
  else .ok (putAt (boxPos box t.1.1 t.1.2.1) s t.2)

def putTiles (box : BBox) : BlockState → List Tile → Outcome BlockState
  | s, [] => .ok s
  | s, t :: ts =>
    match putTile box s t with
    | .ok s' => putTiles box s' ts
    | .err => .err
    | .panic => .panic

/-- result of `write_block`: the bytes of the block (tile blobs, then the compressed tile index) and
    its definition with absolute ranges -/
structure BlockOut where
  defn : BlockDef
  bytes : Bytes
deriving Repr

/-- `write_block` at file position `pos` (writer.rs:139-203) -/
def writeBlock (enc : Bytes → Bytes) (pos : Nat) (box : BBox) (stream : List Tile) : Outcome BlockOut := do
  let d ← newBlockDef box
  let s ← putTiles box ⟨[], List.replicate box.countTiles ⟨0, 0⟩, []⟩ stream
  let idx := enc (encTileIndex s.index)
  pure ⟨{ d with tiles := ⟨pos, s.blobs.length⟩, index := ⟨pos + s.blobs.length, idx.length⟩ }, s.blobs ++ idx⟩

/-- the block loop of `write_blocks`; a block with `tiles_range.length + index_range.length == 0`
    is skipped -/
def writeBlocks (enc : Bytes → Bytes) (stream : BBox → List Tile) :
    Nat → List BBox → Outcome (List BlockDef × Bytes)
  | _, [] => .ok ([], [])
  | pos, box :: rest =>
    match writeBlock enc pos box (stream box) with
    | .ok o =>
      match writeBlocks enc stream (pos + o.bytes.length) rest with
      | .ok (ds, bs) =>
        if o.defn.tiles.len + o.defn.index.len = 0 then .ok (ds, o.bytes ++ bs)
        else .ok (o.defn :: ds, o.bytes ++ bs)
      | .err => .err
      | .panic => .panic
    | .err => .err
    | .panic => .panic

/-- what the writer takes from the source -/
structure Source where
  fmt : TileFormat
  comp : TComp
  /-- float-derived header fields (`get_geo_bbox() * 1e7 as i32`), opaque -/
  b0 : Int
  b1 : Int
  b2 : Int
  b3 : Int
  /-- stored (already compressed) metadata -/
  metaB : Bytes
  /-- `bbox_pyramid.iter_levels()`: the non-empty level boxes, ascending zoom -/
  levels : List BBox
  /-- `get_bbox_tile_stream` -/
  stream : BBox → List Tile

/-- `VersaTilesWriter::write_to_writer` (writer.rs:43-80): the final file bytes and the block
    definitions in writing order.  `enc` = brotli. -/
def write (enc : Bytes → Bytes) (s : Source) : Outcome (Bytes × List BlockDef) :=
  match s.levels.head?, s.levels.getLast? with
  | some lo, some hi =>
    if lo.level > hi.level then .err
    else
      match writeBlocks enc s.stream (66 + s.metaB.length) (s.levels.flatMap grid256) with
      | .ok (defs, body) =>
        match encBlockIndex defs with
        | .ok bi =>
          let bic := enc bi
          let h : Header := ⟨s.fmt, s.comp, lo.level, hi.level, s.b0, s.b1, s.b2, s.b3,
            ⟨66, s.metaB.length⟩, ⟨66 + s.metaB.length + body.length, bic.length⟩⟩
          .ok (encHeader h ++ (s.metaB ++ (body ++ bic)), defs)
        | .err => .err
        | .panic => .panic
      | .err => .err
      | .panic => .panic
  | _, _ => .err            -- "invalid minzoom"

/-! ## line protocol (see harness/src/formats_protocol.txt) -/

def showRange (r : Range) : String := s!"{r.off}:{r.len}"

def showHeader (h : Header) : String :=
  s!"ok {fmtCode h.fmt} {compCode h.comp} {h.zmin} {h.zmax} {showInt h.b0} {showInt h.b1} {showInt h.b2} {showInt h.b3} {h.metaR.off} {h.metaR.len} {h.blocks.off} {h.blocks.len}"

def showO {α} (f : α → String) : Outcome α → String
  | .ok a => f a
  | .err => "err"
  | .panic => "panic"

def showBlock (sep : String) (b : BlockDef) : String :=
  sep.intercalate [s!"{b.z}", s!"{b.x}", s!"{b.y}", s!"{b.gxmin}", s!"{b.gymin}", s!"{b.gxmax}", s!"{b.gymax}",
    s!"{b.tiles.off}", s!"{b.tiles.len}", s!"{b.index.off}", s!"{b.index.len}"]

def sortBlocks (l : List BlockDef) : List BlockDef :=
  (l.toArray.qsort (fun a b => a.z < b.z || (a.z == b.z && (a.x < b.x || (a.x == b.x && a.y < b.y))))).toList

def showCover (l : List BBox) : String :=
  " ".intercalate (s!"cov {l.length}" :: l.map BBox.render)

def parseRanges (toks : List String) : Option (List Range) :=
  toks.mapM fun t => match t.splitOn ":" with
    | [a, b] => do
      let a ← a.toNat?
      let b ← b.toNat?
      pure (⟨a, b⟩ : Range)
    | _ => none

def parseBox (s : String) : Option BBox :=
  match s.splitOn ":" with
  | [z, r] => match r.splitOn "," with
    | [a, b, c, d] => do
      let z ← z.toNat?
      let a ← a.toNat?
      let b ← b.toNat?
      let c ← c.toNat?
      let d ← d.toNat?
      pure ⟨z, a, b, c, d⟩
    | _ => none
  | _ => none

def parseTiles (toks : List String) : Option (List Tile × List String) := do
  let (gs, rest) ← takeCounted 4 toks
  let ts ← gs.mapM fun g => match g with
    | [z, x, y, h] => do
      let z ← z.toNat?
      let x ← x.toNat?
      let y ← y.toNat?
      let b ← unhex h
      pure (((x, y, z), b) : Tile)
    | _ => none
  pure (ts, rest)

def parseLevels (toks : List String) : Option (List BBox × List String) := do
  let (gs, rest) ← takeCounted 1 toks
  let bs ← gs.mapM fun g => match g with
    | [b] => parseBox b
    | _ => none
  pure (bs, rest)

/-- `MemSource`'s stream for a box: row-major over the box, present tiles only -/
def memStream (tiles : List Tile) (b : BBox) : List Tile :=
  b.iterCoords.filterMap fun (x, y) =>
    (tiles.find? (fun t => t.1 == (x, y, b.level))).map fun t => t

/-- answer of the reader streams -/
def showOpen (fmt comp : String) (cov : List BBox) (look : List String) : String :=
  " ".intercalate (["ok", fmt, comp, showCover cov, "q"] ++ look)

def handleReader (args : List String) : Option String := do
  match args with
  | fileHex :: rest =>
    let file ← unhex fileHex
    let (tab, rest) ← parseTable rest
    let (qs, _) ← parseQueries rest
    match openReader (Inflate.ofTable tab) file with
    | .ok r =>
      let look := qs.map fun (x, y, z) => showLookup (getTile r x y z)
      pure (showOpen r.header.fmt.name r.header.comp.name (cover r.blocks) look)
    | .err => pure "err"
    | .panic => pure "panic"
  | _ => none

def handleWriter (args : List String) : Option String := do
  match args with
  | f :: c :: b0 :: b1 :: b2 :: b3 :: m :: rest =>
    let fmt ← fmtOfCode (← f.toNat?)
    let comp ← compOfCode (← c.toNat?)
    let b0 ← parseInt b0
    let b1 ← parseInt b1
    let b2 ← parseInt b2
    let b3 ← parseInt b3
    let m ← unhex m
    let (levels, rest) ← parseLevels rest
    let (tiles, rest) ← parseTiles rest
    let (tab, _) ← parseTable rest
    let src : Source := ⟨fmt, comp, b0, b1, b2, b3, m, levels, memStream tiles⟩
    match write tab.app src with
    | .ok (file, defs) =>
      let h := file.take 66
      let bo := 66 + m.length + 0
      let _ := bo
      match decHeader h with
      | .ok hd =>
        let mid := (file.drop 66).take (hd.blocks.off - 66)
        let sorted := (defs.toArray.qsort (fun a b => a.z < b.z || (a.z == b.z && (a.y < b.y || (a.y == b.y && a.x < b.x))))).toList
        match encBlockIndex sorted with
        | .ok bi => pure s!"ok {file.length} {hex64 (fnv64 mid)} {hex h} {hex bi}"
        | _ => pure "panic"
      | _ => pure "panic"
    | .err => pure "err"
    | .panic => pure "panic"
  | _ => none

/-- streams `VTH`, `VBD`, `VTI`, `VBI` (codecs) -/
def handleCodec (stream : String) (args : List String) : Option String := do
  match stream, args with
  | "VTH", ["dec", h] =>
    let b ← unhex h
    pure (showO showHeader (readHeader b))
  | "VTH", ["enc", f, c, zmin, zmax, b0, b1, b2, b3, mo, ml, bo, bl] =>
    let fmt ← fmtOfCode (← f.toNat?)
    let comp ← compOfCode (← c.toNat?)
    let hd : Header := ⟨fmt, comp, ← zmin.toNat?, ← zmax.toNat?, ← parseInt b0, ← parseInt b1, ← parseInt b2, ← parseInt b3,
      ⟨← mo.toNat?, ← ml.toNat?⟩, ⟨← bo.toNat?, ← bl.toNat?⟩⟩
    pure (hex (encHeader hd))
  | "VBD", ["dec", h] =>
    let b ← unhex h
    pure (showO (fun d => "ok " ++ showBlock " " d) (decBlockDef b))
  | "VBD", ["enc", z, a, b, c, d, toff, tlen, ilen] =>
    let box : BBox := ⟨← z.toNat?, ← a.toNat?, ← b.toNat?, ← c.toNat?, ← d.toNat?⟩
    if !bboxOk box.level box.xmin box.ymin box.xmax box.ymax then pure "err"
    else
      let toff ← toff.toNat?
      let tlen ← tlen.toNat?
      let ilen ← ilen.toNat?
      match newBlockDef box with
      | .ok d0 =>
        -- `ByteRange::new(off + len, ilen)` is computed by the harness with the same unchecked addition
        if toff + tlen ≥ U64 then pure "panic"
        else pure (showO hex (encBlockDef { d0 with tiles := ⟨toff, tlen⟩, index := ⟨toff + tlen, ilen⟩ }))
      | .err => pure "err"
      | .panic => pure "panic"
  | "VTI", ["dec", h] =>
    let b ← unhex h
    pure (showO (fun l => " ".intercalate (s!"ok {l.length}" :: l.map showRange)) (decTileIndex b))
  | "VTI", "enc" :: n :: rs =>
    let n ← n.toNat?
    let l ← parseRanges rs
    if l.length ≠ n then none else pure (hex (encTileIndex l))
  | "VBI", ["dec", h] =>
    let b ← unhex h
    pure (showO (fun l =>
      let live := sortBlocks (liveBlocks l)
      " ".intercalate (s!"ok {live.length}" :: live.map (showBlock ","))) (decBlockIndex b))
  | _, _ => none

def handle (stream : String) (args : List String) : String :=
  let r := match stream with
    | "C16v" => handleReader args
    | "C01v" => handleWriter args
    | _ => handleCodec stream args
  r.getD "bad-op"

end VtModel.Versatiles
