import VtModel.Prim
/-!
Geometry command streams: model of `VectorTileFeature::to_geometry` and `from_geometry`
(`versatiles_geometry/src/vector_tile/feature.rs:85-300`) with `math/area.rs::area_ring`.

Coordinates are integers (the decoder produces `x as f64` of an `i64` cursor; the encoder rounds its
`f64` input to `i64`): the model works on `Int` and is exact as long as the products of the ring-area
sum stay below 2^53 (|coordinate| < 2^25 in the generated cases).  Panic sites of the dev profile are
explicit: the delta subtractions in the encoder are unchecked `i64` operations; the decoder's cursor
additions are checked since the `fix:` commit named at `addI64`.
-/
namespace VtModel.Geom
open VtModel VtModel.Prim

abbrev Pt := Int × Int

def inI64 (v : Int) : Bool := -(2 : Int) ^ 63 ≤ v && v < (2 : Int) ^ 63

/-- unchecked `i64` arithmetic (the encoder's `x - point0.0`): out of range is a panic in the dev profile -/
def chkI64 (v : Int) : Outcome Int := if inI64 v then .ok v else .panic

/-- `checked_add(..).context(..)?` (the decoder's cursor since `fix:` 64d83845; before, `x += dx` panicked) -/
def addI64 (v : Int) : Outcome Int := if inI64 v then .ok v else .err

structure GState where
  lines : List (List Pt)
  line : List Pt
  x : Int
  y : Int
deriving Repr, DecidableEq

/-- the `for _ in 0..count` loop of a MoveTo (1) / LineTo (2) command -/
def points (cmd : Nat) : Nat → Reader → GState → Outcome (GState × Reader)
  | 0, r, g => .ok (g, r)
  | n + 1, r, g =>
    let g1 : GState := if cmd = 1 ∧ !g.line.isEmpty then { g with lines := g.lines ++ [g.line], line := [] } else g
    match readSVarint r with
    | .ok (dx, r1) =>
      match addI64 (g1.x + dx) with
      | .ok x =>
        match readSVarint r1 with
        | .ok (dy, r2) =>
          match addI64 (g1.y + dy) with
          | .ok y => points cmd n r2 { g1 with x := x, y := y, line := g1.line ++ [(x, y)] }
          | .err => .err
          | .panic => .panic
        | .err => .err
        | .panic => .panic
      | .err => .err
      | .panic => .panic
    | .err => .err
    | .panic => .panic

/-- one command: `value & 7`, `value >> 3` -/
def commandStep (g : GState) (r : Reader) : Outcome (GState × Reader) :=
  match readVarint r with
  | .ok (v, r1) =>
    let cmd := v % 8
    let count := v / 8
    if cmd = 1 ∨ cmd = 2 then points cmd count r1 g
    else if cmd = 7 then
      match g.line with
      | [] => .err
      | p :: _ => .ok ({ g with line := g.line ++ [p] }, r1)
    else .err
  | .err => .err
  | .panic => .panic

/-- the coordinate lists of a command stream -/
def decodeLines (data : Bytes) : Outcome (List (List Pt)) :=
  match whileRem commandStep { lines := [], line := [], x := 0, y := 0 } (Reader.ofBytes data) with
  | .ok g => .ok (if g.line.isEmpty then g.lines else g.lines ++ [g.line])
  | .err => .err
  | .panic => .panic

/-- `area_ring`: Σ (p2.x − p1.x)·(p1.y + p2.y) with p2 the predecessor (cyclically) of p1 -/
def areaAux : Pt → List Pt → Int
  | _, [] => 0
  | p2, p1 :: t => (p2.1 - p1.1) * (p1.2 + p2.2) + areaAux p1 t

def areaRing (ring : List Pt) : Int :=
  match ring.getLast? with
  | some l => areaAux l ring
  | none => 0

inductive Geom where
  | points (l : List Pt)
  | lines (l : List (List Pt))
  | polygons (l : List (List (List Pt)))
deriving Repr, DecidableEq

/-- regrouping of rings into polygons by the sign of their area (feature.rs:160-205) -/
def groupRings : List (List Pt) → List (List Pt) → List (List (List Pt)) → Outcome (List (List (List Pt)))
  | [], cur, acc => .ok (if cur.isEmpty then acc else acc ++ [cur])
  | ring :: t, cur, acc =>
    if ring.length < 4 then .err
    else if ring.head? ≠ ring.getLast? then .err
    else
      let a := areaRing ring
      if a > 0 then groupRings t [ring] (if cur.isEmpty then acc else acc ++ [cur])
      else if a < 0 then (if cur.isEmpty then groupRings t cur acc else groupRings t (cur ++ [ring]) acc)
      else groupRings t cur acc

/-- `to_geometry`: `gtype` 0 unknown, 1 points, 2 lines, 3 polygons -/
def toGeometry (gtype : Nat) (data : Bytes) : Outcome Geom :=
  match decodeLines data with
  | .ok ls =>
    if gtype = 1 then
      if ls.isEmpty then .err
      else if ls.all (fun l => l.length == 1) then .ok (.points (ls.flatMap id)) else .err
    else if gtype = 2 then
      if ls.isEmpty then .err
      else if ls.all (fun l => l.length ≥ 2) then .ok (.lines ls) else .err
    else if gtype = 3 then
      if ls.isEmpty then .err
      else
        match groupRings ls [] [] with
        | .ok ps => .ok (.polygons ps)
        | .err => .err
        | .panic => .panic
    else .err
  | .err => .err
  | .panic => .panic

/-! ### encoder (`from_geometry`) on integer coordinates -/

/-- `write_point`: deltas to the cursor, unchecked `i64` subtraction -/
def writePoint (cur : Pt) (p : Pt) : Outcome (Bytes × Pt) :=
  match chkI64 (p.1 - cur.1), chkI64 (p.2 - cur.2) with
  | .ok dx, .ok dy => .ok (writeSVarint dx ++ writeSVarint dy, p)
  | _, _ => .panic

def writePts : Pt → List Pt → Outcome (Bytes × Pt)
  | cur, [] => .ok ([], cur)
  | cur, p :: t =>
    match writePoint cur p with
    | .ok (b, c1) =>
      match writePts c1 t with
      | .ok (b2, c2) => .ok (b ++ b2, c2)
      | .err => .err
      | .panic => .panic
    | .err => .err
    | .panic => .panic

def encPoints (ps : List Pt) : Outcome Bytes :=
  match writePts (0, 0) ps with
  | .ok (b, _) => .ok (writeVarint (ps.length * 8 + 1) ++ b)
  | .err => .err
  | .panic => .panic

/-- one line string: MoveTo(1) first, LineTo(n−1) rest; empty lines are skipped -/
def encLine (close : Bool) (cur : Pt) (line : List Pt) : Outcome (Bytes × Pt) :=
  match line with
  | [] => .ok ([], cur)
  | first :: rest0 =>
    let rest := if close then rest0.dropLast else rest0
    match writePoint cur first with
    | .ok (b1, c1) =>
      match writePts c1 rest with
      | .ok (b2, c2) =>
        .ok (writeVarint 9 ++ b1 ++ (if rest.isEmpty then [] else writeVarint (rest.length * 8 + 2) ++ b2) ++
             (if close then writeVarint 7 else []), c2)
      | .err => .err
      | .panic => .panic
    | .err => .err
    | .panic => .panic

def encLines (close : Bool) : Pt → List (List Pt) → Outcome Bytes
  | _, [] => .ok []
  | cur, l :: t =>
    if close ∧ l.length < 4 then encLines close cur t else
    match encLine close cur l with
    | .ok (b, c1) =>
      match encLines close c1 t with
      | .ok b2 => .ok (b ++ b2)
      | .err => .err
      | .panic => .panic
    | .err => .err
    | .panic => .panic

/-- `from_geometry`: geometry type and command bytes -/
def fromGeometry : Geom → Outcome (Nat × Bytes)
  | .points ps => match encPoints ps with
    | .ok b => .ok (1, b)
    | .err => .err
    | .panic => .panic
  | .lines ls => match encLines false (0, 0) ls with
    | .ok b => .ok (2, b)
    | .err => .err
    | .panic => .panic
  | .polygons ps => match encLines true (0, 0) (ps.flatMap id) with
    | .ok b => .ok (3, b)
    | .err => .err
    | .panic => .panic

/-! ### line protocol
`C11g d <gtype> <hex>` → `err` | `panic` | dump      (decode)
`C11g e <dump>`        → `err` | `panic` | `<gtype> <hex>`   (encode)
dump: `P x,y;x,y` | `L x,y;x,y/x,y;…` | `G ring/ring|ring/…` (polygons separated by `|`, rings by `/`) -/

def showPt (p : Pt) : String := s!"{p.1},{p.2}"
def showLine (l : List Pt) : String := if l.isEmpty then "-" else ";".intercalate (l.map showPt)

def dumpGeom : Geom → String
  | .points l => "P " ++ showLine l
  | .lines ls => "L " ++ "/".intercalate (ls.map showLine)
  | .polygons ps => "G " ++ "|".intercalate (ps.map (fun p => "/".intercalate (p.map showLine)))

def parsePt (s : String) : Option Pt :=
  match s.splitOn "," with
  | [a, b] => do let x ← a.toInt?; let y ← b.toInt?; pure (x, y)
  | _ => none

def parseLine (s : String) : Option (List Pt) := if s == "" || s == "-" then some [] else (s.splitOn ";").mapM parsePt

def parseGeom (kind body : String) : Option Geom :=
  if kind == "P" then (parseLine body).map .points
  else if kind == "L" then ((body.splitOn "/").mapM parseLine).map .lines
  else if kind == "G" then ((body.splitOn "|").mapM (fun (p : String) => (p.splitOn "/").mapM parseLine)).map .polygons
  else none

def handle (args : List String) : String :=
  match args with
  | ["d", t, h] =>
    match t.toNat?, bytesOfHex h with
    | some t, some b =>
      match toGeometry t b with
      | .ok g => dumpGeom g
      | .err => "err"
      | .panic => "panic"
    | _, _ => "bad-op"
  | ["e", kind, body] =>
    match parseGeom kind body with
    | some g =>
      match fromGeometry g with
      | .ok (t, b) => s!"{t} {hexOfBytes b}"
      | .err => "err"
      | .panic => "panic"
    | none => "bad-op"
  | _ => "bad-op"

end VtModel.Geom
