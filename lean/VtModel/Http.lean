import VtModel.Codec
/-
Model of the decision logic of the HTTP tile endpoint of `versatiles serve`:

* `versatiles/src/tools/server/utils/url.rs`            – `Url::as_vec` (split on '/', drop empty segments)
* `versatiles/src/tools/server/sources/tile_source.rs`  – `TileSource::get_data` (42-92): coordinate parsing,
  `TileCoord3::new` (z ≤ 31), range check, lookup, `tiles.json` / `meta.json`
* `versatiles/src/tools/server/tile_server.rs`          – `serve_tile` (133-166: 200 / 400 / 404),
  `get_encoding` (303-318: substring tests), fast/best goal (150-153), `ok_data` (255-290:
  incompressible rule by MIME, `optimize_compression(..).expect(..)`, `Content-Encoding`)
* `versatiles_core/src/types/tile_format.rs`            – `as_mime_str`
* `versatiles/src/tools/serve.rs:102-113`               – `--override-input-compression` is applied to the
  opened reader FIRST, then `--flip-y` / `--swap-xy` wrap it in a `TilesConvertReader` (which copies the
  reader's parameters when it is built), so the server sees the overridden compression in every mode

NOT modelled: axum/hyper (request parsing, routing, body framing) – exercised by raw HTTP exchanges
in `harness/src/c05.rs`.  Paths and header values are ASCII (what a URI can carry unescaped);
`char::is_numeric` is therefore `isDigit`.

The model describes the code AFTER the F9 repair (`fix:` commits in /repo): an empty part list and
out-of-range coordinates give 404; and after the `ok_data` repair: a stored blob that cannot be decoded when
it has to be gives 500 instead of a panic (`expect`).  Places that could still panic are explicit (`Resp.panic`).
-/
namespace VtModel.Http
open VtModel.Codec

/-! ### strings -/

/-- `haystack.contains(needle)` on character lists -/
def containsSub (needle : List Char) : List Char → Bool
  | [] => needle.isEmpty
  | c :: cs => needle.isPrefixOf (c :: cs) || containsSub needle cs

def tokGzip : List Char := ['g', 'z', 'i', 'p']
def tokBr : List Char := ['b', 'r']

/-- `Url::as_vec` (url.rs:46-52) -/
def asVec (path : String) : List String := (path.splitOn "/").filter (fun s => s != "")

def digitsValue (ds : List Char) : Nat := ds.foldl (fun a c => a * 10 + (c.toNat - 48)) 0

/-- Rust `str::parse::<uN>()`: optional leading `+`, then at least one ASCII digit, nothing else,
    value below `bound` (= 2^N); everything else is `Err`. -/
def parseUnsigned (bound : Nat) (s : String) : Option Nat :=
  let cs := s.toList
  let ds := match cs with
    | '+' :: rest => rest
    | _ => cs
  if ds.isEmpty then none
  else if ds.all Char.isDigit then
    (if digitsValue ds < bound then some (digitsValue ds) else none)
  else none

/-- `parts[2].chars().take_while(|c| c.is_numeric()).collect()` (tile_source.rs:50) -/
def takeNumeric (s : String) : String := String.ofList (s.toList.takeWhile Char.isDigit)

/-! ### source and request -/

/-- `TileFormat::as_mime_str` keyed by `TileFormat::as_str` -/
def mimeOf : String → String
  | "bin" => "application/octet-stream"
  | "png" => "image/png"
  | "jpg" => "image/jpeg"
  | "webp" => "image/webp"
  | "avif" => "image/avif"
  | "svg" => "image/svg+xml"
  | "pbf" => "application/x-protobuf"
  | "geojson" => "application/geo+json"
  | "topojson" => "application/topo+json"
  | "json" => "application/json"
  | _ => "?"

/-- a tile source as the server sees it -/
structure Source where
  comp : Comp                          -- `parameters.tile_compression`
  mime : String                        -- `parameters.tile_format.as_mime_str()`
  flipY : Bool                         -- served with `--flip-y`
  swapXY : Bool := false               -- served with `--swap-xy`
  lookup : Nat → Nat → Nat → Option Bytes   -- reader's `get_tile_data(z, x, y)` for IN-RANGE coordinates
  tilejson : Bytes                     -- what `build_tile_json` produces (opaque here, see C17)

structure Request where
  rest : String                        -- request path after the prefix `/tiles/<id>/`
  accept : Option String               -- value of the first `Accept-Encoding` header, if any
  fast : Bool                          -- server started with `--fast`

/-- `SourceResponse` -/
structure SrcResp where
  blob : Bytes
  comp : Comp
  mime : String

/-- what the part list of a request means (tile_source.rs:43-90):
    `parts.len() >= 3` → the first three parts must parse (`ensure!` ×3, `TileCoord3::new`), else
    only `meta.json` / `tiles.json` are known. -/
inductive PathKind where
  | tile (z x y : Nat)     -- ≥ 3 parts, all three parse, z ≤ 31
  | bad                    -- ≥ 3 parts, not parsable            → `Err` → 400
  | json                   -- < 3 parts, first is `meta.json` / `tiles.json`
  | other                  -- everything else (also: no part at all) → `Ok(None)` → 404
deriving Repr, DecidableEq

def classifyParts : List String → PathKind
  | p0 :: p1 :: p2 :: _ =>
    match parseUnsigned 256 p0, parseUnsigned (2 ^ 32) p1, parseUnsigned (2 ^ 32) (takeNumeric p2) with
    | some z, some x, some y => if z > 31 then .bad else .tile z x y      -- `TileCoord3::new`
    | _, _, _ => .bad                                                     -- the three `ensure!`s
  | p0 :: _ => if p0 == "meta.json" || p0 == "tiles.json" then .json else .other
  | [] => .other                                  -- (F9 repair; was `parts[0]` out of bounds → panic)

def classify (rest : String) : PathKind := classifyParts (asVec rest)

/-- the coordinate a tile request addresses inside the reader, if it is inside the level:
    range check (F9 repair), then `TilesConvertReader::get_tile_data` maps the requested coordinate
    back to the source: `--swap-xy` first, then `--flip-y` (converter.rs:167-182) -/
def addressed (flipY swapXY : Bool) (z x y : Nat) : Option (Nat × Nat × Nat) :=
  if x ≥ 2 ^ z ∨ y ≥ 2 ^ z then none
  else
    let x1 := if swapXY then y else x
    let y1 := if swapXY then x else y
    some (z, x1, if flipY then 2 ^ z - 1 - y1 else y1)

/-- the compression the server assumes for the stored tiles (serve.rs:104-106: the override
    replaces the container's declared compression before anything else looks at it) -/
def effectiveComp (declared : Comp) (override : Option Comp) : Comp := override.getD declared

/-- `TileSource::get_data`.  `err` → 400, `ok none` → 404. -/
def getData (src : Source) (rest : String) : Res (Option SrcResp) :=
  match classify rest with
  | .tile z x y =>
    match addressed src.flipY src.swapXY z x y with
    | none => .ok none
    | some c =>
      match src.lookup c.1 c.2.1 c.2.2 with
      | some b => .ok (some { blob := b, comp := src.comp, mime := src.mime })
      | none => .ok none
  | .bad => .err
  | .json => .ok (some { blob := src.tilejson, comp := .raw, mime := "application/json" })
  | .other => .ok none

/-- `get_encoding` (tile_server.rs:303-318) -/
def getEncoding (accept : Option String) : Target :=
  match accept with
  | none => Target.fromNone
  | some s =>
    let t := Target.fromNone
    let t := if containsSub tokGzip s.toList then t.insert .gzip else t      -- `contains("gzip")`
    if containsSub tokBr s.toList then t.insert .brotli else t               -- `contains("br")`

def isImageMime (m : String) : Bool :=
  m == "image/png" || m == "image/jpeg" || m == "image/webp" || m == "image/avif"

/-- the target after `set_fast_compression` (serve_tile) and `set_incompressible` (ok_data) -/
def targetFor (accept : Option String) (fast : Bool) (mime : String) : Target :=
  let t := getEncoding accept
  let t := if fast then { t with goal := .fast } else t
  if isImageMime mime then { t with goal := .incompressible } else t

inductive Resp where
  | ok (ctype : String) (cenc : Option String) (comp : Comp) (body : Bytes)
  | notFound
  | badRequest
  | serverError                        -- 500: the stored blob cannot be brought into an acceptable encoding
  | panic (site : String)
deriving Repr, DecidableEq

def encToken : Comp → Option String
  | .raw => none
  | .gzip => some "gzip"
  | .brotli => some "br"

/-- `ok_data` -/
def okData (K : Codec) (r : SrcResp) (accept : Option String) (fast : Bool) : Resp :=
  match optimize K r.blob r.comp (targetFor accept fast r.mime) with
  | .ok (b, c) => .ok r.mime (encToken c) c b
  | .err => .serverError              -- (repair; was `.expect("should have optimized compression")` → panic)
  | .panic s => .panic s

/-- `serve_tile` for a request whose path starts with the source's prefix.  An empty `rest` does not
    match the route `/tiles/<id>/{*path}` and falls through to the static handler → 404. -/
def serveTile (K : Codec) (src : Source) (req : Request) : Resp :=
  if req.rest == "" then .notFound
  else match getData src req.rest with
    | .ok (some r) => okData K r req.accept req.fast
    | .ok none => .notFound
    | .err => .badRequest
    | .panic s => .panic s

def Resp.status : Resp → Option Nat
  | .ok .. => some 200
  | .notFound => some 404
  | .badRequest => some 400
  | .serverError => some 500
  | .panic _ => none

/-! ### static routes (`serve_static`, tile_server.rs:170-207; `sources/static_source_{tar,folder}.rs`)

Path handling (prefix, `..`, OS resolution) is C07's subject; here a static source is a function from the
request path to the stored variants of a file, and the subject is the negotiation. -/

/-- the stored variants of one file: plain, `.gz`, `.br` (`FileEntry`) -/
structure StaticEntry where
  un : Option Bytes
  gz : Option Bytes
  br : Option Bytes
  mime : String

inductive StaticKind where
  | tar | folder
deriving DecidableEq, Repr

/-- `TarFile::get_data` (static_source_tar.rs:143-173): a precompressed variant the client accepts
    (brotli first), else the plain file, else whatever exists (brotli first) -/
def tarSelect (e : StaticEntry) (t : Target) : Option (Bytes × Comp) :=
  match (if t.brotli then e.br else none) with
  | some b => some (b, .brotli)
  | none =>
    match (if t.gzip then e.gz else none) with
    | some b => some (b, .gzip)
    | none =>
      match e.un with
      | some b => some (b, .raw)
      | none =>
        match e.br with
        | some b => some (b, .brotli)
        | none =>
          match e.gz with
          | some b => some (b, .gzip)
          | none => none

/-- `Folder::get_data` (static_source_folder.rs:76-84): the plain file, else `<file>.br`, else `<file>.gz`;
    the header is not consulted -/
def folderSelect (e : StaticEntry) : Option (Bytes × Comp) :=
  match e.un with
  | some b => some (b, .raw)
  | none =>
    match e.br with
    | some b => some (b, .brotli)
    | none =>
      match e.gz with
      | some b => some (b, .gzip)
      | none => none

structure StaticSrc where
  kind : StaticKind
  files : String → Option StaticEntry

def StaticSrc.get (s : StaticSrc) (path : String) (t : Target) : Option SrcResp :=
  match s.files path with
  | none => none
  | some e =>
    match (match s.kind with | .tar => tarSelect e t | .folder => folderSelect e) with
    | none => none
    | some (b, c) => some { blob := b, comp := c, mime := e.mime }

/-- the target `serve_static` hands to the sources: `get_encoding` + `--fast` (the MIME rule is applied later,
    inside `ok_data`) -/
def staticTarget (accept : Option String) (fast : Bool) : Target :=
  let t := getEncoding accept
  if fast then { t with goal := .fast } else t

def firstHit (srcs : List StaticSrc) (path : String) (t : Target) : Option SrcResp :=
  match srcs with
  | [] => none
  | s :: rest =>
    match s.get path t with
    | some r => some r
    | none => firstHit rest path t

/-- `serve_static`: a directory URL gets `index.html`, the sources are asked in order, first hit wins -/
def serveStatic (K : Codec) (srcs : List StaticSrc) (path : String) (accept : Option String) (fast : Bool) : Resp :=
  let path := if path.endsWith "/" then path ++ "index.html" else path
  match firstHit srcs path (staticTarget accept fast) with
  | some r => okData K r accept fast
  | none => .notFound

/-! ### line protocol (stream `C05`)

* `C05 req <fast> <flip> <stored comp> <format> <tiles z/x/y,…|-> <accept hex|~> <rest hex>`
     → `200 ct=<mime> ce=<gzip|br|-> ` | `404` | `400` | `panic`
     (`tiles` = coordinates held by the container; header value and path as hex of ASCII bytes)
* `C05 req2 <fast> <flip> <swap> <declared comp> <override comp|-> <format> <tiles> <accept hex|~> <rest hex>`
     → same answers; the stored blobs are valid streams of the EFFECTIVE compression (override, else declared)
* `C05 req3 … <corrupt 0|1>` – as `req2`; with `1` the stored blobs are NOT valid streams of the effective compression
* `C05 static <fast> <tar|folder> <un><gz><br> <mime hex> <accept hex|~>` – one static source holding one file with the
     given variants (0/1 each), all carrying the same content → `200 ct=… ce=…` | `404`
* `C05 opt <comp> <raw><gzip><brotli> <fast|best|inc> <enc|nil|cut> <payload hex>`
     → `err` | `c=<comp> same=<0|1> dec=<hex|err>`   (real `optimize_compression`)
* `C05 enc <accept hex|~>` → `gzip=<0|1> br=<0|1>`   (`get_encoding`, used for the unit-level stream)
-/

def bytesToString (b : Bytes) : String := String.ofList (b.map fun x => Char.ofNat x.toNat)

def parseHexStr (s : String) : Option String := (unhex s).map bytesToString

def parseTiles (s : String) : Option (List (Nat × Nat × Nat)) :=
  if s == "-" then some [] else
    (s.splitOn ",").mapM fun t =>
      match t.splitOn "/" with
      | [z, x, y] => do
        let z ← z.toNat?
        let x ← x.toNat?
        let y ← y.toNat?
        pure (z, x, y)
      | _ => none

def parseGoal : String → Option Goal
  | "fast" => some .fast
  | "best" => some .best
  | "inc" => some .incompressible
  | _ => none

def showResp : Resp → String
  | .ok ct ce _ _ => s!"200 ct={ct} ce={ce.getD "-"}"
  | .notFound => "404"
  | .badRequest => "400"
  | .serverError => "500"
  | .panic _ => "panic"

def handle (args : List String) : String :=
  match args with
  | ["req", fast, flip, comp, fmt, tiles, accept, rest] =>
    let acc : Option (Option String) := if accept == "~" then some none else (parseHexStr accept).map some
    match parseBool fast, parseBool flip, parseComp comp, parseTiles tiles, acc, parseHexStr rest with
    | some fast, some flip, some comp, some tiles, some acc, some rest =>
      let payload : Bytes := [1, 2, 3]
      let src : Source := {
        comp := comp, mime := mimeOf fmt, flipY := flip,
        lookup := fun z x y => if tiles.contains (z, x, y) then some (toy.enc comp payload) else none,
        tilejson := [123, 125] }
      showResp (serveTile toy src { rest := rest, accept := acc, fast := fast })
    | _, _, _, _, _, _ => "bad-op"
  | ["req2", fast, flip, swap, declared, ovr, fmt, tiles, accept, rest] =>
    let acc : Option (Option String) := if accept == "~" then some none else (parseHexStr accept).map some
    let ov : Option (Option Comp) := if ovr == "-" then some none else (parseComp ovr).map some
    match parseBool fast, parseBool flip, parseBool swap, parseComp declared, ov, parseTiles tiles, acc, parseHexStr rest with
    | some fast, some flip, some swap, some declared, some ov, some tiles, some acc, some rest =>
      let payload : Bytes := [1, 2, 3]
      let comp := effectiveComp declared ov
      let src : Source := {
        comp := comp, mime := mimeOf fmt, flipY := flip, swapXY := swap,
        lookup := fun z x y => if tiles.contains (z, x, y) then some (toy.enc comp payload) else none,
        tilejson := [123, 125] }
      showResp (serveTile toy src { rest := rest, accept := acc, fast := fast })
    | _, _, _, _, _, _, _, _ => "bad-op"
  | ["req3", fast, flip, swap, declared, ovr, fmt, tiles, accept, rest, corrupt] =>
    let acc : Option (Option String) := if accept == "~" then some none else (parseHexStr accept).map some
    let ov : Option (Option Comp) := if ovr == "-" then some none else (parseComp ovr).map some
    match parseBool fast, parseBool flip, parseBool swap, parseComp declared, ov, parseTiles tiles, acc, parseHexStr rest, parseBool corrupt with
    | some fast, some flip, some swap, some declared, some ov, some tiles, some acc, some rest, some corrupt =>
      let payload : Bytes := [1, 2, 3]
      let comp := effectiveComp declared ov
      -- an invalid stream: the empty blob (rejected by every non-raw decoder, law `dec_nil`)
      let blob : Bytes := if corrupt then [] else toy.enc comp payload
      let src : Source := {
        comp := comp, mime := mimeOf fmt, flipY := flip, swapXY := swap,
        lookup := fun z x y => if tiles.contains (z, x, y) then some blob else none,
        tilejson := [123, 125] }
      showResp (serveTile toy src { rest := rest, accept := acc, fast := fast })
    | _, _, _, _, _, _, _, _, _ => "bad-op"
  | ["static", fast, kind, bits, mime, accept] =>
    let acc : Option (Option String) := if accept == "~" then some none else (parseHexStr accept).map some
    let k : Option StaticKind := if kind == "tar" then some .tar else if kind == "folder" then some .folder else none
    match parseBool fast, k, bits.toList, parseHexStr mime, acc with
    | some fast, some k, [u, g, b], some mime, some acc =>
      let content : Bytes := [7, 7, 7]
      let e : StaticEntry := {
        un := if u == '1' then some content else none,
        gz := if g == '1' then some (toy.enc .gzip content) else none,
        br := if b == '1' then some (toy.enc .brotli content) else none,
        mime := mime }
      let src : StaticSrc := { kind := k, files := fun p => if p == "/f" then some e else none }
      showResp (serveStatic toy [src] "/f" acc fast)
    | _, _, _, _, _ => "bad-op"
  | ["opt", comp, bits, goal, kind, payload] =>
    match parseComp comp, bits.toList, parseGoal goal, unhex payload with
    | some c, [r, g, b], some goal, some payload =>
      match mkBlob toy kind c payload with
      | none => "bad-op"
      | some blob =>
        let t : Target := { raw := r == '1', gzip := g == '1', brotli := b == '1', goal := goal }
        match optimize toy blob c t with
        | .ok (b', c') => s!"c={c'.name} same={if b' == blob then 1 else 0} dec={showOpt (toy.dec c' b')}"
        | .err => "err"
        | .panic _ => "panic"
    | _, _, _, _ => "bad-op"
  | ["enc", accept] =>
    let acc : Option (Option String) := if accept == "~" then some none else (parseHexStr accept).map some
    match acc with
    | some acc =>
      let t := getEncoding acc
      s!"gzip={if t.gzip then 1 else 0} br={if t.brotli then 1 else 0}"
    | none => "bad-op"
  | _ => "bad-op"

end VtModel.Http
