import VtModel.Source
import VtModel.Geo
import VtModel.BBoxProto
/-!
Model of `versatiles_container/src/container/converter.rs` (`TilesConverterParameters`,
`TilesConvertReader`: coverage, `get_tile_data`, `get_bbox_tile_stream`), of the trait-default
bbox stream (`versatiles_core/src/types/tiles_reader.rs:34-50`), of the way the container
writers walk a reader (`iter_levels` of the advertised pyramid → one bbox stream per level) and of
`get_bbox_pyramid` in `versatiles/src/tools/convert.rs:85-120` (min/max zoom, `--bbox`,
`--bbox-border`).

The tile recompressor is an opaque function `recode : β → Option β` (`none` = codec error:
`Err` on the lookup path (`process_blob(b)?`), panic on the stream path
(`f.run(blob).unwrap()` inside `process_stream`)).
-/
namespace VtModel.Converter
open VtModel

/-! ### the coordinate transform -/

/-- flip: `y ↦ 2^z − 1 − y` (pure part) -/
def flipC (c : Coord) : Coord := (c.1, 2 ^ c.2.2 - 1 - c.2.1, c.2.2)
/-- swap: `x ↔ y` -/
def swapC (c : Coord) : Coord := (c.2.1, c.1, c.2.2)

/-- the transform of the options: flip applied first, then swap -/
def T (f s : Bool) (c : Coord) : Coord :=
  let c1 := if f then flipC c else c
  if s then swapC c1 else c1

/-- its inverse: swap first, then flip -/
def Tinv (f s : Bool) (c : Coord) : Coord :=
  let c1 := if s then swapC c else c
  if f then flipC c1 else c1

/-- `TransformCoord for TileCoord3::flip_y` with its `assert!(max_index >= self.y)`
    (transform_coord.rs:10-14) -/
def flipCode (c : Coord) : Outcome Coord :=
  if 2 ^ c.2.2 - 1 < c.2.1 then .panic else .ok (flipC c)

/-! ### `TilesConverterParameters` / `TilesConvertReader` -/

structure Params (β : Type) where
  bboxPyramid : Option Pyramid
  flipY : Bool
  swapXY : Bool
  /-- the tile recompressor (`TileConverter::new_tile_recompressor`), opaque -/
  recode : β → Option β

/-- `new_from_reader` (converter.rs:111-123): the advertised coverage of the converting reader -/
def newCover {β} (cover : Pyramid) (p : Params β) : Outcome Pyramid :=
  (if p.flipY then Pyramid.flipY cover else .ok cover).bind fun p1 =>
    let p2 := if p.swapXY then Pyramid.swapXY p1 else p1
    match p.bboxPyramid with
    | some q => Pyramid.intersect p2 q
    | none => .ok p2

/-- requested coordinate → source coordinate in `get_tile_data` (converter.rs:167-177, after the
    repair: swap first, then flip) -/
def backCoord {β} (p : Params β) (c : Coord) : Outcome Coord :=
  let c1 := if p.swapXY then swapC c else c
  if p.flipY then flipCode c1 else .ok c1

/-- the same step as it was before commit b3b07ba6 (flip first, then swap): kept for the proved
    counterexample -/
def backCoordOld {β} (p : Params β) (c : Coord) : Outcome Coord :=
  (if p.flipY then flipCode c else .ok c).bind fun c1 =>
    .ok (if p.swapXY then swapC c1 else c1)

/-- `if let Some(b) = blob { blob = Some(tile_recompressor.process_blob(b)?) }` -/
def recodeLookup {β} (r : β → Option β) : Option β → Outcome (Option β)
  | none => .ok none
  | some b => match r b with
    | some b' => .ok (some b')
    | none => .err

/-- `get_tile_data` (converter.rs:167-192).  Since commit 425c2638 a coordinate outside of its
    zoom level (`x` or `y` ≥ `1u64 << z`) is answered with `Ok(None)` before any transformation,
    so the `assert!` of `flip_y` is unreachable from here. -/
def lookup {β} (s : Src β) (p : Params β) (c : Coord) : Outcome (Option β) :=
  if 2 ^ c.2.2 ≤ c.1 ∨ 2 ^ c.2.2 ≤ c.2.1 then .ok none
  else (backCoord p c).bind fun c0 => (s.lookup c0).bind (recodeLookup p.recode)

def lookupOld {β} (s : Src β) (p : Params β) (c : Coord) : Outcome (Option β) :=
  (backCoordOld p c).bind fun c0 => (s.lookup c0).bind (recodeLookup p.recode)

/-- requested box → source box in `get_bbox_tile_stream` (converter.rs:187-193): swap, then flip -/
def backBox {β} (p : Params β) (b : BBox) : Outcome BBox :=
  let b1 := if p.swapXY then b.swapXY else b
  if p.flipY then b1.flipY else .ok b1

/-- the `map_coord` callback (converter.rs:201-209): flip, then swap -/
def fwdCoord {β} (p : Params β) (c : Coord) : Outcome Coord :=
  (if p.flipY then flipCode c else .ok c).bind fun c1 =>
    .ok (if p.swapXY then swapC c1 else c1)

/-- one streamed item: coordinate mapped forward, blob through `process_stream` (`unwrap`) -/
def fwdItem {β} (p : Params β) (e : Coord × β) : Outcome (Coord × β) :=
  (fwdCoord p e.1).bind fun c' =>
    match p.recode e.2 with
    | some v' => .ok (c', v')
    | none => .panic

/-- `get_bbox_tile_stream` (order is not part of the model's claim: `map_blob_parallel` may
    permute) -/
def stream {β} (s : Src β) (p : Params β) (b : BBox) : Outcome (List (Coord × β)) :=
  (backBox p b).bind fun b0 => (s.stream b0).bind fun l => BBox.mapM (fwdItem p) l

/-- the converting reader as a source -/
def convert {β} (s : Src β) (p : Params β) : Outcome (Src β) :=
  (newCover s.cover p).bind fun cov => .ok ⟨lookup s p, stream s p, cov⟩

/-! ### the walk of a writer (the trait-default stream is `VtModel.defaultStream`) -/

/-- what every container writer does with a reader: one bbox stream per non-empty level of the
    advertised pyramid (tar/directory/mbtiles writers; versatiles and pmtiles split each level into
    256-grid cells first, which C15's grid theorem shows to be a partition) -/
def walkSrc {β} (s : Src β) : Outcome (List (Coord × β)) :=
  (BBox.mapM s.stream (Pyramid.iterLevels s.cover)).map List.flatten

/-- `convert_tiles_container`: advertised coverage and the tiles a writer receives -/
def walk {β} (s : Src β) (p : Params β) : Outcome (Pyramid × List (Coord × β)) :=
  (convert s p).bind fun s' => (walkSrc s').map fun l => (s'.cover, l)

/-! ### `get_bbox_pyramid` of `versatiles convert` -/

/-- `TileBBoxPyramid::intersect_geo_bbox` (tile_bbox_pyramid.rs:94-101) with the per-level
    `TileBBox::from_geo` as a parameter; both results are `unwrap`ped -/
def intersectGeoWith (fromGeo : Nat → Outcome BBox) (p : Pyramid) : Outcome Pyramid :=
  BBox.mapM (fun b => match fromGeo b.level with
    | .ok g => (b.intersectBBox g).unwrap
    | _ => .panic) p

/-- `get_bbox_pyramid` (convert.rs:85-120, incl. the `check()?` added by commit 542b6bce).
    `geo = some (checkOk, fromGeo)` when `--bbox` is given. -/
def getBBoxPyramidG (minZoom maxZoom : Option Nat) (geo : Option (Bool × (Nat → Outcome BBox)))
    (border : Option Nat) : Outcome (Option Pyramid) :=
  if minZoom.isNone && maxZoom.isNone && geo.isNone then .ok none
  else
    let p0 := Pyramid.newFull 32
    let p1 := match minZoom with | some z => Pyramid.setZoomMin p0 z | none => p0
    let p2 := match maxZoom with | some z => Pyramid.setZoomMax p1 z | none => p1
    match geo with
    | none => .ok (some p2)
    | some (chk, fromGeo) =>
      if !chk then .err
      else (intersectGeoWith fromGeo p2).bind fun p3 =>
        match border with
        | some b => (Pyramid.addBorder p3 b b b b).map some
        | none => .ok (some p3)

/-- with the `Float` model of `from_geo` (correspondence only) -/
def getBBoxPyramid (minZoom maxZoom : Option Nat) (g : Option Geo.GeoBBox) (border : Option Nat) :
    Outcome (Option Pyramid) :=
  getBBoxPyramidG minZoom maxZoom (g.map fun g => (g.check, fun z => Geo.bboxFromGeo z g)) border

/-! ### in-memory source of the harness (`harness/src/memsrc.rs`): payload = own coordinate -/

def memLookup (tiles : List Coord) (c : Coord) : Outcome (Option Coord) :=
  .ok (if tiles.contains c then some c else none)

def memSrc (tiles : List Coord) (cover : Pyramid) : Src Coord :=
  Src.ofLookup (memLookup tiles) cover

/-! ### line protocol (stream `C06`) -/

def parseCoord (s : String) : Option Coord :=
  match parseNats (s.splitOn ",") with
  | some [x, y, z] => some (x, y, z)
  | _ => none

def parseCoords (s : String) : Option (List Coord) :=
  if s == "-" then some [] else (s.splitOn ";").mapM parseCoord

def parseFlags (s : String) : Option (Bool × Bool) :=
  match s with
  | "00" => some (false, false)
  | "10" => some (true, false)
  | "01" => some (false, true)
  | "11" => some (true, true)
  | _ => none

def parseOptNat (s : String) : Option (Option Nat) :=
  if s == "-" then some none else s.toNat?.map some

def parseOptPyr (s : String) : Option (Option Pyramid) :=
  if s == "-" then some none else (BBoxProto.parsePyr s).map some

def parseGeo (s : String) : Option (Option Geo.GeoBBox) :=
  if s == "-" then some none
  else match (s.splitOn ",").mapM BBoxProto.parseF with
    | some [w, s, e, n] => some (some ⟨w, s, e, n⟩)
    | _ => none

def showCoord (c : Coord) : String := s!"{c.1},{c.2.1},{c.2.2}"

def coordLt (a b : Coord) : Bool :=
  a.2.2 < b.2.2 || (a.2.2 == b.2.2 && (a.1 < b.1 || (a.1 == b.1 && a.2.1 < b.2.1)))

/-- canonical rendering of a tile list: sorted by (z, x, y) of the output coordinate -/
def showTiles (l : List (Coord × Coord)) : String :=
  let l := l.mergeSort fun a b => !coordLt b.1 a.1
  if l.isEmpty then "-" else ";".intercalate (l.map fun e => s!"{showCoord e.1}={showCoord e.2}")

def showO {α} (f : α → String) : Outcome α → String
  | .ok a => f a
  | .err => "err"
  | .panic => "panic"

def mkParams (fs : Bool × Bool) (req : Option Pyramid) : Params Coord := ⟨req, fs.1, fs.2, some⟩

def handle (args : List String) : String :=
  match args with
  | ["pyr", mn, mx, g, bd] =>
    match parseOptNat mn, parseOptNat mx, parseGeo g, parseOptNat bd with
    | some mn, some mx, some g, some bd =>
      showO (fun o => match o with | some p => Pyramid.render p | none => "none") (getBBoxPyramid mn mx g bd)
    | _, _, _, _ => "bad-op"
  | ["cover", fs, req, cov] =>
    match parseFlags fs, parseOptPyr req, BBoxProto.parsePyr cov with
    | some fs, some req, some cov => showO Pyramid.render (newCover cov (mkParams fs req))
    | _, _, _ => "bad-op"
  | ["look", fs, tiles, c] =>
    match parseFlags fs, parseCoords tiles, parseCoord c with
    | some fs, some tiles, some c =>
      showO (fun o => match o with | some v => showCoord v | none => "none")
        (lookup (memSrc tiles []) (mkParams fs none) c)
    | _, _, _ => "bad-op"
  | ["stream", fs, tiles, b] =>
    match parseFlags fs, parseCoords tiles, BBoxProto.parseBox b with
    | some fs, some tiles, some b => showO showTiles (stream (memSrc tiles []) (mkParams fs none) b)
    | _, _, _ => "bad-op"
  | ["rstream", fs, req, cov, tiles, b] =>
    -- stream of a converter restricted by a requested pyramid (the code ignores the restriction
    -- in `get_bbox_tile_stream` just as in `get_tile_data`)
    match parseFlags fs, parseOptPyr req, BBoxProto.parsePyr cov, parseCoords tiles, BBoxProto.parseBox b with
    | some fs, some req, some cov, some tiles, some b =>
      showO showTiles (stream (memSrc tiles cov) (mkParams fs req) b)
    | _, _, _, _, _ => "bad-op"
  | ["fault", fs, req, cov, tiles, victim, probe] =>
    -- a conversion with an active transcode over a source holding undecodable tiles (`victim`,
    -- `*` = every tile: mislabelled source compression): the recompressor fails on them
    match parseFlags fs, parseOptPyr req, BBoxProto.parsePyr cov, parseCoords tiles, parseCoord probe with
    | some fs, some req, some cov, some tiles, some probe =>
      let bad : Coord → Bool :=
        if victim == "*" then fun _ => true
        else match parseCoord victim with
          | some v => fun c => c == v
          | none => fun _ => false
      let p : Params Coord := ⟨req, fs.1, fs.2, fun v => if bad v then none else some v⟩
      let w := showO (fun (r : Pyramid × List (Coord × Coord)) => showTiles r.2) (walk (memSrc tiles cov) p)
      let l := showO (fun (o : Option Coord) => match o with | some v => showCoord v | none => "none")
        (lookup (memSrc tiles cov) p probe)
      s!"walk={w} look={l}"
    | _, _, _, _, _ => "bad-op"
  | ["walk", fs, req, cov, tiles] =>
    match parseFlags fs, parseOptPyr req, BBoxProto.parsePyr cov, parseCoords tiles with
    | some fs, some req, some cov, some tiles =>
      showO (fun r => s!"{Pyramid.render r.1}|{showTiles r.2}") (walk (memSrc tiles cov) (mkParams fs req))
    | _, _, _, _ => "bad-op"
  | _ => "bad-op"

end VtModel.Converter
