import VtModel.Pyramid
import VtModel.Geo
/-!
Further functions of `tile_bbox.rs`, `tile_bbox_pyramid.rs` and `tile_coords.rs` that other parts
of the code base rely on (filters: `intersect_pyramid`; overlay: `include_coord3` +
`get_coord3_by_index`; versatiles block order: `get_sort_index`; PMTiles header:
`get_good_zoom`; MBTiles writer: the zoom of `get_geo_center`; mock reader: `is_valid`).
-/
namespace VtModel.BBoxExtra
open VtModel VtModel.BBox

/-- `TileBBox::include_coord3` (tile_bbox.rs:343): error when the levels differ. -/
def includeCoord3 (b : BBox) (x y z : Nat) : Outcome BBox :=
  if z ≠ b.level then .err else .ok (b.includeCoord x y)

/-- `TileBBox::intersect_pyramid` (tile_bbox.rs:470): `pyramid.get_level_bbox(self.level)` is an
    array index (panic when out of range), then `intersect_bbox`. -/
def intersectPyramid (b : BBox) (p : Pyramid) : Outcome BBox :=
  (Pyramid.getLevel p b.level).bind fun pb => b.intersectBBox pb

/-- `TileBBox::get_coord3_by_index` (tile_bbox.rs:772): as `get_coord2_by_index`, then
    `TileCoord3::new(x, y, level)` (`ensure!(z <= 31)`). -/
def coord3ByIndex (b : BBox) (i : Nat) : Outcome (Nat × Nat × Nat) :=
  (b.coordByIndex i).bind fun c => if b.level ≤ 31 then .ok (c.1, c.2, b.level) else .err

/-- `TileCoord3::is_valid` (tile_coords.rs:141). Note `z > 30` – zoom 31, which `TileCoord3::new`
    accepts, is reported as not valid; the only caller is the mock reader. -/
def isValid (x y z : Nat) : Bool :=
  if z > 30 then false else decide (x < 2 ^ z) && decide (y < 2 ^ z)

/-- `TileCoord3::get_sort_index` (tile_coords.rs:149): `size = 2u64.pow(z)`,
    `offset = (size*size - 1)/3`, `offset + size*y + x` in u64. `size*size` overflows (a panic in
    the dev profile) from `z = 32`; below that nothing overflows for u32 `x`, `y`. -/
def sortIndex (x y z : Nat) : Outcome Nat :=
  if z ≥ 32 then .panic else .ok ((2 ^ z * 2 ^ z - 1) / 3 + 2 ^ z * y + x)

/-- `TileBBoxPyramid::get_good_zoom` (tile_bbox_pyramid.rs:222): the highest level holding more
    than ten tiles. -/
def goodZoom (p : Pyramid) : Option Nat :=
  (p.reverse.find? (fun b => decide (b.countTiles > 10))).map (·.level)

/-- zoom component of `TileBBoxPyramid::get_geo_center` (tile_bbox_pyramid.rs:284):
    `(zoom_min + 2).min(zoom_max)`; `None` for an empty pyramid. -/
def centerZoom (p : Pyramid) : Option Nat :=
  match Pyramid.zoomMax p, Pyramid.zoomMin p with
  | some zmax, some zmin => some (min (zmin + 2) zmax)
  | _, _ => none

/-- `TileBBoxPyramid::from_geo_bbox` (tile_bbox_pyramid.rs:81): every level of
    `zoom_min..=zoom_max` is set to `TileBBox::from_geo(z, bbox).unwrap()`. -/
def fromGeoBBox (zmin zmax : Nat) (g : Geo.GeoBBox) : Outcome Pyramid :=
  (List.range' zmin (zmax + 1 - zmin)).foldl
    (fun acc z => acc.bind fun p => (Geo.bboxFromGeo z g).unwrap.bind fun b => Pyramid.setLevel p b)
    (.ok Pyramid.newEmpty)

end VtModel.BBoxExtra
