/-
Model of the compression layer of versatiles-rs:

* `versatiles_core/src/utils/compression.rs`   – `compress`, `decompress`, `recompress`,
  `TargetCompression`, `CompressionGoal`, `optimize_compression` (lines 176-258: full decision table)
* `versatiles_container/src/container/tile_converter.rs` – `TileConverter` = list of `FnConv` steps,
  `new_tile_recompressor` (59-82), `new_decompressor`, `process_blob`, `process_stream`, `as_string`
* `versatiles_container/src/container/converter.rs` – what `TilesConvertReader` does with the
  compression parameters (declared compression, recompressor, metadata passed through)
* the metadata compression of the five writers.

gzip (`flate2`) and brotli are NOT modelled: they are a parameter `Codec` with the laws the proofs
need (DESIGN §3.4).  The laws are tested on the real crates by `harness/src/c04.rs` on every run.
For the compiled driver a concrete toy codec `toy` (tag byte + self-delimiting body) is used; it is
*proved* to satisfy the laws, so the laws are satisfiable.
-/
namespace VtModel.Codec

abbrev Bytes := List UInt8

/-- `TileCompression` (`Uncompressed`, `Gzip`, `Brotli`) -/
inductive Comp where
  | raw | gzip | brotli
deriving DecidableEq, Repr

/-- failure-aware result: Rust `Ok` / `Err` / panic (`unwrap`, `expect`, index) -/
inductive Res (α : Type) where
  | ok (a : α)
  | err
  | panic (site : String)
deriving Repr, DecidableEq

/-- The external codecs as a parameter.  `enc` is total: `compress_gzip`/`compress_brotli` never
    fail on in-memory input (assumption, exercised by the harness). -/
structure Codec where
  enc : Comp → Bytes → Bytes
  dec : Comp → Bytes → Option Bytes
  enc_raw : ∀ b, enc .raw b = b
  dec_raw : ∀ b, dec .raw b = some b
  /-- round trip -/
  dec_enc : ∀ c b, dec c (enc c b) = some b
  /-- empty input is rejected by both real decoders -/
  dec_nil : ∀ c, c ≠ .raw → dec c [] = none
  /-- strict prefixes of a compressed stream are rejected -/
  dec_prefix : ∀ c b p, c ≠ .raw → p <+: enc c b → p ≠ enc c b → dec c p = none

/-! ### `compress` / `decompress` / `recompress` (compression.rs:260-320) -/

def compress (K : Codec) (b : Bytes) (c : Comp) : Bytes := K.enc c b

def decompress (K : Codec) (b : Bytes) (c : Comp) : Option Bytes := K.dec c b

/-- `recompress`: identity when the compressions agree, else decode then encode. -/
def recompress (K : Codec) (b : Bytes) (src dst : Comp) : Option Bytes :=
  if src = dst then some b else (decompress K b src).map (fun d => compress K d dst)

/-! ### `TileConverter` (tile_converter.rs) -/

/-- `FnConv` -/
inductive Step where
  | unGzip | unBrotli | gzip | brotli
deriving DecidableEq, Repr

/-- `Display` of `FnConv`, lower-cased as in `as_string` -/
def Step.name : Step → String
  | .unGzip => "ungzip"
  | .unBrotli => "unbrotli"
  | .gzip => "gzip"
  | .brotli => "brotli"

/-- `FnConv::run` -/
def Step.run (K : Codec) : Step → Bytes → Option Bytes
  | .unGzip, b => K.dec .gzip b
  | .unBrotli, b => K.dec .brotli b
  | .gzip, b => some (K.enc .gzip b)
  | .brotli, b => some (K.enc .brotli b)

/-- first `match src_comp` of `new_tile_recompressor`; also `new_decompressor` -/
def decompressSteps : Comp → List Step
  | .raw => []
  | .gzip => [.unGzip]
  | .brotli => [.unBrotli]

/-- second `match dst_comp` of `new_tile_recompressor` -/
def compressSteps : Comp → List Step
  | .raw => []
  | .gzip => [.gzip]
  | .brotli => [.brotli]

/-- `TileConverter::new_tile_recompressor(src, dst, force)` (tile_converter.rs:59-82) -/
def newTileRecompressor (src dst : Comp) (force : Bool) : List Step :=
  if force || src != dst then decompressSteps src ++ compressSteps dst else []

def newDecompressor (src : Comp) : List Step := decompressSteps src

/-- `process_blob`: run the steps in order, stop at the first error. -/
def process (K : Codec) : List Step → Bytes → Option Bytes
  | [], b => some b
  | s :: ss, b => (s.run K b).bind (process K ss)

/-- `as_string` -/
def asString (steps : List Step) : String := ",".intercalate (steps.map Step.name)

/-- `process_stream` (tile_converter.rs:108-118): the closure `unwrap`s every step, i.e. a blob
    that cannot be processed is a panic inside the stream task.  Sequential semantics (the order
    of `map_blob_parallel` is the subject of C14). -/
def processStream (K : Codec) (steps : List Step) : List (Nat × Bytes) → Res (List (Nat × Bytes))
  | [] => .ok []
  | (c, b) :: rest =>
    match process K steps b with
    | none => .panic "tile_converter.rs:114 unwrap"
    | some b' =>
      match processStream K steps rest with
      | .ok l => .ok ((c, b') :: l)
      | r => r

/-! ### `TargetCompression`, `optimize_compression` (compression.rs:36-258) -/

inductive Goal where
  | fast | best | incompressible
deriving DecidableEq, Repr

/-- `TargetCompression`: the `EnumSet<TileCompression>` as three flags, plus the goal. -/
structure Target where
  raw : Bool
  gzip : Bool
  brotli : Bool
  goal : Goal
deriving DecidableEq, Repr

def Target.has (t : Target) : Comp → Bool
  | .raw => t.raw
  | .gzip => t.gzip
  | .brotli => t.brotli

def Target.isEmpty (t : Target) : Bool := !t.raw && !t.gzip && !t.brotli

/-- `TargetCompression::from_none()` -/
def Target.fromNone : Target := { raw := true, gzip := false, brotli := false, goal := .best }

def Target.insert (t : Target) : Comp → Target
  | .raw => { t with raw := true }
  | .gzip => { t with gzip := true }
  | .brotli => { t with brotli := true }

/-- `optimize_compression(blob, input_compression, target)`; `err` = `bail!`/`?`. -/
def optimize (K : Codec) (b : Bytes) (c : Comp) (t : Target) : Res (Bytes × Comp) :=
  if t.isEmpty then .err                                   -- :181
  else if !t.has .raw then .err                            -- :185
  else if t.goal != .best && t.has c then .ok (b, c)       -- :193
  else match c with
    | .raw =>                                              -- :198
      if t.goal != .incompressible then
        if t.has .brotli then .ok (K.enc .brotli b, .brotli)
        else if t.has .gzip then .ok (K.enc .gzip b, .gzip)
        else .ok (b, .raw)
      else .ok (b, .raw)
    | .gzip =>                                             -- :211
      if t.goal != .incompressible && t.has .brotli then
        match K.dec .gzip b with
        | none => .err
        | some d => .ok (K.enc .brotli d, .brotli)
      else if t.has .gzip then .ok (b, .gzip)
      else match K.dec .gzip b with
        | none => .err
        | some d => .ok (d, .raw)
    | .brotli =>                                           -- :226
      if t.has .brotli then .ok (b, .brotli)
      else match K.dec .brotli b with
        | none => .err
        | some d =>
          if t.goal != .incompressible && t.has .gzip then .ok (K.enc .gzip d, .gzip)
          else .ok (d, .raw)

/-! ### The converter and the writers, as far as compression is concerned -/

/-- a tile source: declared compression, metadata (TileJSON text as bytes, always uncompressed in
    memory), tiles keyed by an opaque coordinate code -/
structure Reader where
  comp : Comp
  tilejson : Bytes
  tiles : List (Nat × Bytes)

/-- `TilesConverterParameters` restricted to compression: `tile_compression`, `force_recompress` -/
structure ConvParams where
  target : Option Comp
  force : Bool

/-- `new_rp.tile_compression = cp.tile_compression.unwrap_or(rp.tile_compression)` (converter.rs:122) -/
def declared (r : Reader) (p : ConvParams) : Comp := p.target.getD r.comp

/-- the recompressor `TilesConvertReader::new_from_reader` builds (converter.rs:124-128) -/
def convSteps (r : Reader) (p : ConvParams) : List Step :=
  newTileRecompressor r.comp (declared r p) p.force

/-- `TilesConvertReader::get_tile_data`: lookup, then `process_blob(b)?` (converter.rs:176-182).
    `ok none` = no tile. -/
def convLookup (K : Codec) (r : Reader) (p : ConvParams) (c : Nat) : Res (Option Bytes) :=
  match r.tiles.lookup c with
  | none => .ok none
  | some b =>
    match process K (convSteps r p) b with
    | none => .err
    | some b' => .ok (some b')

/-- `TilesConvertReader::get_bbox_tile_stream` for a box that covers all tiles -/
def convStream (K : Codec) (r : Reader) (p : ConvParams) : Res (List (Nat × Bytes)) :=
  processStream K (convSteps r p) r.tiles

/-- target container formats -/
inductive Fmt where
  | versatiles | pmtiles | tar | directory | mbtiles
deriving DecidableEq, Repr

/-- compression applied to the metadata blob by the writer *and* assumed by the matching reader:
    versatiles: declared tile compression (versatiles/writer.rs:84-89); pmtiles: gzip
    (`INTERNAL_COMPRESSION`, pmtiles/writer.rs:72-76); tar/directory: declared compression, file
    `tiles.json<ext>`; mbtiles: text rows, no compression. -/
def metaComp (f : Fmt) (declaredComp : Comp) : Comp :=
  match f with
  | .versatiles => declaredComp
  | .pmtiles => .gzip
  | .tar => declaredComp
  | .directory => declaredComp
  | .mbtiles => .raw

/-- `MBTilesWriter::write_to_path` accepts only uncompressed jpg/png/webp or gzipped pbf
    (mbtiles/writer.rs:66-77); all other writers accept every combination.  `tileFormat` is
    `TileFormat::as_str`. -/
def writerAccepts (f : Fmt) (tileFormat : String) (declaredComp : Comp) : Bool :=
  match f with
  | .mbtiles =>
    (tileFormat == "pbf" && declaredComp == .gzip) ||
    ((tileFormat == "jpg" || tileFormat == "png" || tileFormat == "webp") && declaredComp == .raw)
  | _ => true

/-- what a writer leaves behind, as far as this property is concerned -/
structure Container where
  fmt : Fmt
  comp : Comp                 -- compression the container declares for its tiles
  metaBytes : Bytes           -- stored metadata bytes
  tiles : List (Nat × Bytes)

/-- What the matching reader can see again.  In the versatiles tile index and in a PMTiles
    directory a zero-length byte range means "no tile" (versatiles/reader.rs:222-225
    `tile_range.length == 0 → None`; pmtiles/reader.rs:212,229 `entry.range.length > 0`), so a stored
    blob of length 0 is invisible there; tar, directory and mbtiles keep it. -/
def Container.visible (c : Container) : List (Nat × Bytes) :=
  match c.fmt with
  | .versatiles => c.tiles.filter (fun t => !t.2.isEmpty)
  | .pmtiles => c.tiles.filter (fun t => !t.2.isEmpty)
  | _ => c.tiles

/-- `convert_tiles_container`: converter reader → writer (stream path). -/
def convertContainer (K : Codec) (r : Reader) (p : ConvParams) (f : Fmt) : Res Container :=
  match convStream K r p with
  | .ok ts => .ok { fmt := f, comp := declared r p,
                    metaBytes := K.enc (metaComp f (declared r p)) r.tilejson, tiles := ts }
  | .err => .err
  | .panic s => .panic s

/-- the matching reader's view of the metadata -/
def Container.readMeta (K : Codec) (c : Container) : Option Bytes := K.dec (metaComp c.fmt c.comp) c.metaBytes

/-! ### `VersaTilesWriter::write_block`: appending blobs with de-duplication (versatiles/writer.rs:156-205)

Blobs arrive in stream order and are appended to the file; the tile index of the block records a
(block-relative offset, length) per tile.  A blob SHORTER THAN 1000 BYTES that was already written in
this block is not written again: its index entry reuses the earlier range (`tile_hash_lookup`, a table
that lives for one block only, because its ranges are relative to the block's start). -/

structure BlockOut where
  data : Bytes                          -- what this block appended (offset 0 = block start)
  table : List (Bytes × (Nat × Nat))    -- `tile_hash_lookup`
  ranges : List (Nat × Nat)             -- index entries in stream order

def dedupLimit : Nat := 1000

def writeBlobStep (st : BlockOut) (blob : Bytes) : BlockOut :=
  if blob.length < dedupLimit then
    match st.table.find? (fun e => e.1 == blob) with
    | some e => { st with ranges := st.ranges ++ [e.2] }
    | none =>
      let r := (st.data.length, blob.length)
      { data := st.data ++ blob, table := (blob, r) :: st.table, ranges := st.ranges ++ [r] }
  else
    { st with data := st.data ++ blob, ranges := st.ranges ++ [(st.data.length, blob.length)] }

/-- one block, starting with the table `t0` (`[]` in the real writer) -/
def writeBlockFrom (t0 : List (Bytes × (Nat × Nat))) (blobs : List Bytes) : BlockOut :=
  blobs.foldl writeBlobStep { data := [], table := t0, ranges := [] }

def writeBlock (blobs : List Bytes) : BlockOut := writeBlockFrom [] blobs

/-- `read_range`: what a reader gets for an index entry -/
def readRange (data : Bytes) (r : Nat × Nat) : Bytes := (data.drop r.1).take r.2

/-! ### A concrete codec for the driver (and witness that the laws are satisfiable) -/

def tag : Comp → UInt8
  | .raw => 0
  | .gzip => 0x1f
  | .brotli => 0xb7

/-- self-delimiting body: every payload byte `x` becomes `1, x`; terminator `0` -/
def toyBody : Bytes → Bytes
  | [] => [0]
  | x :: xs => 1 :: x :: toyBody xs

def toyUnbody : Bytes → Option Bytes
  | [] => none
  | [t] => if t = 0 then some [] else none
  | m :: x :: rest => if m = 1 then (toyUnbody rest).map (x :: ·) else none

def toyEnc : Comp → Bytes → Bytes
  | .raw, b => b
  | .gzip, b => tag .gzip :: toyBody b
  | .brotli, b => tag .brotli :: toyBody b

def toyDecTagged (t : UInt8) : Bytes → Option Bytes
  | [] => none
  | h :: rest => if h = t then toyUnbody rest else none

def toyDec : Comp → Bytes → Option Bytes
  | .raw, b => some b
  | .gzip, b => toyDecTagged (tag .gzip) b
  | .brotli, b => toyDecTagged (tag .brotli) b

theorem toyUnbody_body (b : Bytes) : toyUnbody (toyBody b) = some b := by
  induction b with
  | nil => simp [toyBody, toyUnbody]
  | cons x xs ih => simp [toyBody, toyUnbody, ih]

theorem toyUnbody_prefix (b p : Bytes) (hp : p <+: toyBody b) (hne : p ≠ toyBody b) :
    toyUnbody p = none := by
  induction b generalizing p with
  | nil =>
    match p, hp, hne with
    | [], _, _ => simp [toyUnbody]
    | [t], hp, hne =>
      simp only [toyBody] at hp hne
      have := List.IsPrefix.eq_of_length hp (by simp)
      exact absurd this hne
    | _ :: _ :: _, hp, _ =>
      have := hp.length_le
      simp [toyBody] at this
  | cons x xs ih =>
    match p, hp, hne with
    | [], _, _ => simp [toyUnbody]
    | [t], hp, _ =>
      simp only [toyBody] at hp
      obtain ⟨ht, _⟩ := List.cons_prefix_cons.mp hp
      subst ht
      simp [toyUnbody]
    | m :: y :: rest, hp, hne =>
      simp only [toyBody] at hp hne
      obtain ⟨hm, hp1⟩ := List.cons_prefix_cons.mp hp
      obtain ⟨hy, hp2⟩ := List.cons_prefix_cons.mp hp1
      subst hm; subst hy
      have hne' : rest ≠ toyBody xs := by
        intro h; apply hne; rw [h]
      simp [toyUnbody, ih rest hp2 hne']

theorem toyDecTagged_prefix (t : UInt8) (b p : Bytes) (hp : p <+: t :: toyBody b)
    (hne : p ≠ t :: toyBody b) : toyDecTagged t p = none := by
  match p, hp, hne with
  | [], _, _ => rfl
  | h :: rest, hp, hne =>
    obtain ⟨hh, hp1⟩ := List.cons_prefix_cons.mp hp
    subst hh
    have hne' : rest ≠ toyBody b := by
      intro h; apply hne; rw [h]
    simp [toyDecTagged, toyUnbody_prefix b rest hp1 hne']

/-- the driver's codec; all five laws proved -/
def toy : Codec where
  enc := toyEnc
  dec := toyDec
  enc_raw := by intro b; rfl
  dec_raw := by intro b; rfl
  dec_enc := by
    intro c b
    cases c <;> simp [toyEnc, toyDec, toyDecTagged, toyUnbody_body]
  dec_nil := by
    intro c hc
    cases c <;> simp_all [toyDec, toyDecTagged]
  dec_prefix := by
    intro c b p hc hp hne
    cases c with
    | raw => exact absurd rfl hc
    | gzip => exact toyDecTagged_prefix _ b p hp hne
    | brotli => exact toyDecTagged_prefix _ b p hp hne

/-! ### line protocol (stream `C04`)

* `C04 steps <src> <dst> <force>`                 → `steps=<a,b|->`
* `C04 conv <src> <keep|raw|gzip|brotli> <force>` → `declared=<comp> steps=<…>`
* `C04 proc <src> <dst> <force> <enc|nil|cut> <payloadhex>`
      blob = payload encoded with `src` (`enc`), the empty blob (`nil`) or the encoding minus its
      last byte (`cut`);  → `in=<hex|err> r=<ok|err> out=<hex|err|none>`
      (`in` = blob decoded with `src`; `out` = processed blob decoded with `dst`)
* `C04 rec <src> <dst> <enc|nil|cut> <payloadhex>` → same for `recompress`
* `C04 e2e <fmt> <tileformat> <src> <keep|raw|gzip|brotli> <force>` → `declared=<comp>` | `rejected`
* `C04 world <kind> <fmt> <src> <target> <force> <a> <b> <c>` → `declared=<comp>` | `rejected` | `failed`
* `C04 dedup <len>:<id>,<len>:<id>,…` – one block of blobs (`len` copies of byte `id`) → `data=<n> ranges=<off>:<len>,…`
* `C04 rootb <delta>` → `declared=raw` (PMTiles root directory of compressed size 16257 + delta)
* `C04 leaves <src> <keep|raw|gzip|brotli> <force>` → `declared=<comp>` (PMTiles with leaf directories)
-/

def Comp.name : Comp → String
  | .raw => "raw"
  | .gzip => "gzip"
  | .brotli => "brotli"

def parseComp : String → Option Comp
  | "raw" => some .raw
  | "gzip" => some .gzip
  | "brotli" => some .brotli
  | _ => none

def parseBool : String → Option Bool
  | "0" => some false
  | "1" => some true
  | _ => none

def hexDigit (n : Nat) : Char :=
  if n < 10 then Char.ofNat (48 + n) else Char.ofNat (87 + n)

def hex (b : Bytes) : String :=
  if b.isEmpty then "-" else
    String.ofList (b.flatMap fun x => [hexDigit (x.toNat / 16), hexDigit (x.toNat % 16)])

def unhexDigit (c : Char) : Option Nat :=
  if '0' ≤ c ∧ c ≤ '9' then some (c.toNat - 48)
  else if 'a' ≤ c ∧ c ≤ 'f' then some (c.toNat - 87)
  else none

def unhexList : List Char → Option Bytes
  | [] => some []
  | [_] => none
  | a :: b :: rest => do
    let x ← unhexDigit a
    let y ← unhexDigit b
    let r ← unhexList rest
    pure (UInt8.ofNat (x * 16 + y) :: r)

def unhex (s : String) : Option Bytes :=
  if s == "-" then some [] else unhexList s.toList

def parseFmt : String → Option Fmt
  | "versatiles" => some .versatiles
  | "pmtiles" => some .pmtiles
  | "tar" => some .tar
  | "directory" => some .directory
  | "mbtiles" => some .mbtiles
  | _ => none

def showSteps (s : List Step) : String := if s.isEmpty then "-" else asString s

def showOpt : Option Bytes → String
  | some b => hex b
  | none => "err"

/-- the blob a `proc`/`rec`/`opt` case talks about -/
def mkBlob (K : Codec) (kind : String) (c : Comp) (payload : Bytes) : Option Bytes :=
  match kind with
  | "enc" => some (K.enc c payload)
  | "nil" => some []
  | "cut" => some (K.enc c payload).dropLast
  | _ => none

def handle (args : List String) : String :=
  match args with
  | ["steps", s, d, f] =>
    match parseComp s, parseComp d, parseBool f with
    | some s, some d, some f => s!"steps={showSteps (newTileRecompressor s d f)}"
    | _, _, _ => "bad-op"
  | ["conv", s, t, f] =>
    let tgt : Option (Option Comp) := if t == "keep" then some none else (parseComp t).map some
    match parseComp s, tgt, parseBool f with
    | some s, some t, some f =>
      let r : Reader := { comp := s, tilejson := [], tiles := [] }
      let p : ConvParams := { target := t, force := f }
      s!"declared={(declared r p).name} steps={showSteps (convSteps r p)}"
    | _, _, _ => "bad-op"
  | ["e2e", fmt, tf, s, t, f] =>
    let tgt : Option (Option Comp) := if t == "keep" then some none else (parseComp t).map some
    match parseFmt fmt, parseComp s, tgt, parseBool f with
    | some fmt, some s, some t, some f =>
      let r : Reader := { comp := s, tilejson := [], tiles := [] }
      let p : ConvParams := { target := t, force := f }
      if writerAccepts fmt tf (declared r p) then s!"declared={(declared r p).name}" else "rejected"
    | _, _, _, _ => "bad-op"
  | ["world", kind, fmt, s, t, f, _, _, _] =>
    -- conversions of special worlds (options, pre-existing output, extreme zooms, foreign source containers, many
    -- tiles, an undecodable tile): the compression decision is the same; `fault` must fail iff the tile has to be recoded
    let tgt : Option (Option Comp) := if t == "keep" then some none else (parseComp t).map some
    match parseFmt fmt, parseComp s, tgt, parseBool f with
    | some fmt, some s, some t, some f =>
      let r : Reader := { comp := s, tilejson := [], tiles := [] }
      let p : ConvParams := { target := t, force := f }
      if kind == "fault" && !(convSteps r p).isEmpty then "failed"
      else if writerAccepts fmt "pbf" (declared r p) then s!"declared={(declared r p).name}" else "rejected"
    | _, _, _, _ => "bad-op"
  | ["dedup", spec] =>
    let blobs : Option (List Bytes) := (spec.splitOn ",").mapM fun t =>
      match t.splitOn ":" with
      | [l, i] => do
        let l ← l.toNat?
        let i ← i.toNat?
        pure (List.replicate l (UInt8.ofNat i))
      | _ => none
    match blobs with
    | some blobs =>
      let o := writeBlock blobs
      s!"data={o.data.length} ranges={",".intercalate (o.ranges.map fun r => s!"{r.1}:{r.2}")}"
    | none => "bad-op"
  | ["rootb", _] =>
    -- gzip source → uncompressed PMTiles whose root directory sits at the 16257-byte budget ± delta
    "declared=raw"
  | ["leaves", s, t, f] =>
    -- a PMTiles conversion whose directory needs leaf directories: same decision as `e2e pmtiles pbf`
    let tgt : Option (Option Comp) := if t == "keep" then some none else (parseComp t).map some
    match parseComp s, tgt, parseBool f with
    | some s, some t, some f =>
      let r : Reader := { comp := s, tilejson := [], tiles := [] }
      s!"declared={(declared r { target := t, force := f }).name}"
    | _, _, _ => "bad-op"
  | ["proc", s, d, f, kind, payload] =>
    match parseComp s, parseComp d, parseBool f, unhex payload with
    | some s, some d, some f, some payload =>
      match mkBlob toy kind s payload with
      | none => "bad-op"
      | some blob =>
        let inp := toy.dec s blob
        match process toy (newTileRecompressor s d f) blob with
        | none => s!"in={showOpt inp} r=err out=none"
        | some b' => s!"in={showOpt inp} r=ok out={showOpt (toy.dec d b')}"
    | _, _, _, _ => "bad-op"
  | ["rec", s, d, kind, payload] =>
    match parseComp s, parseComp d, unhex payload with
    | some s, some d, some payload =>
      match mkBlob toy kind s payload with
      | none => "bad-op"
      | some blob =>
        let inp := toy.dec s blob
        match recompress toy blob s d with
        | none => s!"in={showOpt inp} r=err out=none"
        | some b' => s!"in={showOpt inp} r=ok out={showOpt (toy.dec d b')}"
    | _, _, _ => "bad-op"
  | _ => "bad-op"

end VtModel.Codec
