import VtModel.FmtBytes
import VtModel.BBox
/-!
Model of the tar and directory containers: the `z/x/y.<fmt>[.<comp>]` naming.

* decimal print / parse (`format!("{}")`, `str::parse::<u8 / u32>`)
* extension tables (`types/tile_format.rs:142-203`, `types/tile_compression.rs:70-109`)
* tar member classification incl. the `./` prefix (`container/tar/reader.rs:36-125`)
* directory walk (`container/directory/reader.rs:96-200`)
* writers' names (`tar/writer.rs:52-56`, `directory/writer.rs:118-121`)

The `tar` crate and the file system are parameters: a container is a list of regular files
`(name, payload)`; the reader returns the payload of the file that won the coordinate.
-/
namespace VtModel.TarDir
open VtModel VtModel.Fmt

/-! ## decimal numbers -/

def digitChar (d : Nat) : Char := Char.ofNat (48 + d)

/-- decimal digits, most significant first (`Display for u32`): no leading zeros, "0" for zero -/
def natToDec (n : Nat) : List Char :=
  if h : n < 10 then [digitChar n]
  else natToDec (n / 10) ++ [digitChar (n % 10)]
termination_by n
decreasing_by omega

def digitVal (c : Char) : Option Nat :=
  if 48 ≤ c.toNat ∧ c.toNat ≤ 57 then some (c.toNat - 48) else none

/-- value of a string of ASCII digits (left fold), `none` on any other character -/
def decDigits : Nat → List Char → Option Nat
  | acc, [] => some acc
  | acc, c :: cs => match digitVal c with
    | some d => decDigits (acc * 10 + d) cs
    | none => none

/-- an optional leading `+` is accepted by `str::parse` for unsigned integers -/
def stripPlus : List Char → List Char
  | '+' :: r => r
  | r => r

/-- `str::parse::<uN>()` with `limit = 2^N`: optional leading `+`, at least one digit, ASCII digits
    only, no overflow -/
def parseUnsigned (limit : Nat) (s : List Char) : Option Nat :=
  let body := stripPlus s
  if body.isEmpty then none
  else match decDigits 0 body with
    | some v => if v < limit then some v else none
    | none => none

def parseU8 := parseUnsigned 256
def parseU32 := parseUnsigned 4294967296

/-! ## extensions -/

/-- `TileFormat::extension()` -/
def fmtExt (f : TileFormat) : List Char := '.' :: f.name.toList

/-- `TileCompression::extension()` -/
def compExt : TComp → List Char
  | .none => []
  | .gzip => ".gz".toList
  | .brotli => ".br".toList

/-- split at the last `.` (`rfind('.')`): `(before, from the dot on)` -/
def splitLastDot : List Char → Option (List Char × List Char)
  | [] => none
  | c :: cs =>
    match splitLastDot cs with
    | some (a, b) => some (c :: a, b)
    | none => if c = '.' then some ([], c :: cs) else none

/-- `TileCompression::from_filename`: returns the compression and the (possibly truncated) name -/
def compFromFilename (s : List Char) : TComp × List Char :=
  match splitLastDot s with
  | some (a, b) =>
    if b = ".gz".toList then (.gzip, a)
    else if b = ".br".toList then (.brotli, a)
    else (.none, s)
  | none => (.none, s)

def lowerAscii (c : Char) : Char := if 'A' ≤ c ∧ c ≤ 'Z' then Char.ofNat (c.toNat + 32) else c

/-- `TileFormat::from_filename` (extension compared in lower case; `.jpeg` = `.jpg`) -/
def fmtFromFilename (s : List Char) : Option (TileFormat × List Char) :=
  match splitLastDot s with
  | some (a, b) =>
    let e := String.ofList (b.map lowerAscii)
    let f : Option TileFormat :=
      if e = ".avif" then some .avif else if e = ".bin" then some .bin
      else if e = ".geojson" then some .geojson else if e = ".jpg" ∨ e = ".jpeg" then some .jpg
      else if e = ".json" then some .json else if e = ".pbf" then some .pbf
      else if e = ".png" then some .png else if e = ".svg" then some .svg
      else if e = ".topojson" then some .topojson else if e = ".webp" then some .webp else none
    f.map (fun f => (f, a))
  | none => none

/-! ## names -/

/-- `format!("{}/{}/{}{}{}", z, x, y, extension_format, extension_compression)` -/
def formatName (z x y : Nat) (f : TileFormat) (c : TComp) : List Char :=
  natToDec z ++ ('/' :: (natToDec x ++ ('/' :: (natToDec y ++ (fmtExt f ++ compExt c)))))

/-- split on `/` -/
def splitSlash : List Char → List (List Char)
  | [] => [[]]
  | c :: cs =>
    match splitSlash cs with
    | [] => [[]]
    | p :: ps => if c = '/' then [] :: p :: ps else (c :: p) :: ps

/-- `Path::iter()` as strings: empty components and interior `.` are dropped, a leading `.` is kept,
    an absolute path starts with the component `/` -/
def pathComponents (name : List Char) : List (List Char) :=
  let parts := splitSlash name
  let abs := name.head? = some '/'
  let nonEmpty := parts.filter (fun p => !p.isEmpty)
  let comps := match nonEmpty with
    | [] => []
    | p :: ps => p :: ps.filter (fun q => q ≠ ['.'])
  if abs then ['/'] :: comps.filter (fun q => q ≠ ['.']) else comps

/-- classification of one regular tar member -/
inductive Member where
  | tile (z x y : Nat) (f : TileFormat) (c : TComp)
  | metaJson (c : TComp)            -- tiles.json / meta.json / metadata.json [.gz|.br]
  | skip                        -- unknown file (warning only)
  | fail                        -- the whole open fails (`?`)
deriving Repr, DecidableEq

/-- the three-component case (tar/reader.rs:57-95) after `./` removal -/
def classifyTile (a b c : List Char) : Member :=
  match parseU8 a with
  | none => .fail
  | some z =>
    match parseU32 b with
    | none => .fail
    | some x =>
      let (comp, n1) := compFromFilename c
      match fmtFromFilename n1 with
      | none => .skip
      | some (f, n2) =>
        match parseU32 n2 with
        | none => .fail
        | some y => if z > 31 then .fail else .tile z x y f comp

def metaNames : List (String × TComp) :=
  [("meta.json", .none), ("tiles.json", .none), ("metadata.json", .none),
   ("meta.json.gz", .gzip), ("tiles.json.gz", .gzip), ("metadata.json.gz", .gzip),
   ("meta.json.br", .brotli), ("tiles.json.br", .brotli), ("metadata.json.br", .brotli)]

/-- `TarTilesReader::open_path`, one entry (tar/reader.rs:36-125) -/
def classifyTar (name : List Char) : Member :=
  match pathComponents name with
  | [] => .skip                 -- empty path: `first()` is `None`, the joined name is "" (no panic since /repo d07b07ff)
  | p :: ps =>
    let comps := if p = ['.'] then ps else p :: ps
    -- `join("/")` then `split('/')`: an absolute path gives extra empty components
    let joined := match comps with
      | [] => []
      | q :: qs => qs.foldl (fun acc r => acc ++ ('/' :: r)) q
    match splitSlash joined with
    | [a, b, c] => classifyTile a b c
    | [a] =>
      match metaNames.find? (fun m => m.1.toList = a) with
      | some m => .metaJson m.2
      | none => .skip
    | _ => .skip

/-- the name parser used in the round-trip theorem: a tar / directory tile name to its parts -/
def parseName (name : List Char) : Option (Nat × Nat × Nat × TileFormat × TComp) :=
  match classifyTar name with
  | .tile z x y f c => some (z, x, y, f, c)
  | _ => none

/-! ## containers as lists of files -/

/-- a regular file: its name (`none` = not valid UTF-8) and payload -/
abbrev File := Option (List Char) × Bytes

structure State where
  fmt : Option TileFormat
  comp : Option TComp
  tiles : List ((Nat × Nat × Nat) × Bytes)     -- later entries win
deriving Repr

/-- add one classified tile (format / compression consistency checks, coordinate inside its level) -/
def addTile (s : State) (z x y : Nat) (f : TileFormat) (c : TComp) (payload : Bytes) : Outcome State :=
  if s.fmt.isSome && s.fmt ≠ some f then .err
  else if s.comp.isSome && s.comp ≠ some c then .err
  -- `ensure!((x as u64) < (1u64 << z) && (y as u64) < (1u64 << z))` (/repo b9f3d83c): a coordinate outside of
  -- its zoom level makes open fail (both outcomes before it are errors as well, so the order is immaterial)
  else if x ≥ 2 ^ z || y ≥ 2 ^ z then .err
  else .ok ⟨some f, some c, ((x, y, z), payload) :: s.tiles⟩

def tarStep (K : Inflate) (s : State) (file : File) : Outcome State :=
  match file.1 with
  | none => .err                                       -- "file name … is not valid UTF-8"
  | some name =>
    match classifyTar name with
    | .tile z x y f c => addTile s z x y f c file.2
    | .metaJson c => match K.run c file.2 with
      | .ok _ => .ok s
      | .err => .err
      | .panic => .panic
    | .skip => .ok s
    | .fail => .err

def foldFiles (step : State → File → Outcome State) : State → List File → Outcome State
  | s, [] => .ok s
  | s, f :: fs => match step s f with
    | .ok s' => foldFiles step s' fs
    | .err => .err
    | .panic => .panic

structure Reader where
  fmt : TileFormat
  comp : TComp
  tiles : List ((Nat × Nat × Nat) × Bytes)

def finish (s : State) : Outcome Reader :=
  match s.tiles, s.fmt, s.comp with
  | [], _, _ => .err                                  -- "no tiles found"
  | t :: ts, some f, some c => .ok ⟨f, c, t :: ts⟩
  | _, _, _ => .err

/-- `TarTilesReader::open_path` on the regular members in archive order -/
def openTar (K : Inflate) (files : List File) : Outcome Reader :=
  match foldFiles (tarStep K) ⟨none, none, []⟩ files with
  | .ok s => finish s
  | .err => .err
  | .panic => .panic

/-- `get_tile_data`: `tile_map.get(coord)` -/
def getTile (r : Reader) (x y z : Nat) : Outcome (Option Bytes) :=
  .ok ((r.tiles.find? (fun t => t.1 == (x, y, z))).map (·.2))

/-- coverage: `include_coord` of every tile -/
def cover (r : Reader) : List BBox :=
  (List.range 32).filterMap fun z =>
    (r.tiles.filter (fun t => t.1.2.2 == z)).foldl (fun acc t =>
      match acc with
      | none => some ⟨z, t.1.1, t.1.2.1, t.1.1, t.1.2.1⟩
      | some (b : BBox) => some ⟨z, min b.xmin t.1.1, min b.ymin t.1.2.1, max b.xmax t.1.1, max b.ymax t.1.2.1⟩) none

/-- one file of a directory tree (directory/reader.rs:96-200): only paths `<u8>/<u32>/<file>` are
    tiles; other names are ignored, except the metadata names at the root -/
def dirStep (K : Inflate) (s : State) (file : File) : Outcome State :=
  match file.1 with
  | none => .ok s                                      -- names that are not valid UTF-8 are skipped
  | some name =>
  match splitSlash name with
  | [a] =>
    match parseU8 a with
    | some _ => .err                                   -- `fs::read_dir` on a regular file
    | none =>
      match metaNames.find? (fun m => m.1.toList = a) with
      | some m => match K.run m.2 file.2 with
        | .ok _ => .ok s
        | .err => .err
        | .panic => .panic
      | none => .ok s
  | [a, b] =>
    match parseU8 a, parseU32 b with
    | some _, some _ => .err                           -- `fs::read_dir` on a regular file
    | _, _ => .ok s
  | [a, b, c] =>
    match parseU8 a with
    | none => .ok s
    | some z =>
      match parseU32 b with
      | none => .ok s
      | some x =>
        let (comp, n1) := compFromFilename c
        match fmtFromFilename n1 with
        | none => .ok s
        | some (f, n2) =>
          match parseU32 n2 with
          | none => .ok s
          | some y =>
            -- checks come before `TileCoord3::new(x, y, z)?`
            match addTile s z x y f comp file.2 with
            | .ok s' => if z > 31 then .err else .ok s'
            | .err => .err
            | .panic => .panic
  | _ => .ok s                                         -- deeper entries are directories inside an x directory: ignored

def sortFiles (l : List File) : List File :=
  l.mergeSort (fun a b => String.ofList (a.1.getD []) ≤ String.ofList (b.1.getD []))

/-- `DirectoryTilesReader::open_path`: the walk order of `read_dir` is unspecified except inside an
    x directory (sorted by file name); the result does not depend on it unless two files claim the
    same coordinate, so the model walks in sorted path order. -/
def openDir (K : Inflate) (files : List File) : Outcome Reader :=
  match foldFiles (dirStep K) ⟨none, none, []⟩ (sortFiles files) with
  | .ok s => finish s
  | .err => .err
  | .panic => .panic

/-! ## writers (names only; payloads are stored verbatim) -/

abbrev Tile := (Nat × Nat × Nat) × Bytes

/-- `TarTilesWriter`: one member per streamed tile, level boxes in ascending zoom.  The writer passes
    `./z/x/y.<fmt>[.<comp>]` to `tar::Builder::append_data`, which drops `.` components when it
    copies the path into the header: the stored member name is `z/x/y.<fmt>[.<comp>]`. -/
def tarNames (f : TileFormat) (c : TComp) (tiles : List Tile) : List (List Char) :=
  tiles.map fun t => formatName t.1.2.2 t.1.1 t.1.2.1 f c

def dirNames (f : TileFormat) (c : TComp) (tiles : List Tile) : List (List Char) :=
  tiles.map fun t => formatName t.1.2.2 t.1.1 t.1.2.1 f c

/-- what the tar / directory writers take from the source -/
structure WSource where
  fmt : TileFormat
  comp : TComp
  /-- `compress(tilejson, tile_compression)`: the stored metadata bytes -/
  metaB : Bytes
  /-- `bbox_pyramid.iter_levels()` -/
  levels : List BBox
  /-- `get_bbox_tile_stream(level box)` -/
  stream : BBox → List Tile

/-- name of the metadata member / file: `tiles.json` + compression extension -/
def metaName (c : TComp) : List Char := "tiles.json".toList ++ compExt c

/-- `TarTilesWriter::write_to_path` (tar/writer.rs:26-73) and `DirectoryTilesWriter::write_to_path`
    (directory/writer.rs:93-132): the metadata file first, then one file per streamed tile, level by
    level.  For tar the list is the archive's regular members in order (names as stored: without
    `./`, see `tarNames`); for a directory it is the set of files created. -/
def writeFiles (s : WSource) : List File :=
  (some (metaName s.comp), s.metaB) ::
    (s.levels.flatMap s.stream).map fun t => (some (formatName t.1.2.2 t.1.1 t.1.2.1 s.fmt s.comp), t.2)

/-! ## line protocol -/

def bytesToChars (b : Bytes) : Option (List Char) := (String.fromUTF8? ⟨b.toArray⟩).map String.toList

def charsToHex (s : List Char) : String := hex (String.ofList s).toUTF8.toList

def showCover (l : List BBox) : String :=
  " ".intercalate (s!"cov {l.length}" :: l.map BBox.render)

def parseFiles (toks : List String) : Option (List File × List String) := do
  let (gs, rest) ← takeCounted 2 toks
  let fs ← gs.mapM fun g => match g with
    | [n, p] => do
      let n ← unhex n
      let p ← unhex p
      pure ((bytesToChars n, p) : File)
    | _ => none
  pure (fs, rest)

def showReader (r : Outcome Reader) (qs : List (Nat × Nat × Nat)) : String :=
  match r with
  | .ok r =>
    let look := qs.map fun (x, y, z) => showLookup (getTile r x y z)
    " ".intercalate (["ok", r.fmt.name, r.comp.name, showCover (cover r), "q"] ++ look)
  | .err => "err"
  | .panic => "panic"

/-- metadata members are opaque in the protocol: their decompression is assumed to succeed -/
def okInflate : Inflate := ⟨some, some⟩

def parseBox (s : String) : Option BBox :=
  match s.splitOn ":" with
  | [z, r] => match r.splitOn "," with
    | [a, b, c, d] => do
      pure ⟨← z.toNat?, ← a.toNat?, ← b.toNat?, ← c.toNat?, ← d.toNat?⟩
    | _ => none
  | _ => none

def parseLevels (toks : List String) : Option (List BBox × List String) := do
  let (gs, rest) ← takeCounted 1 toks
  let bs ← gs.mapM fun g => match g with
    | [b] => parseBox b
    | _ => none
  pure (bs, rest)

def parseTiles (toks : List String) : Option (List Tile × List String) := do
  let (gs, rest) ← takeCounted 4 toks
  let ts ← gs.mapM fun g => match g with
    | [z, x, y, h] => do
      pure (((← x.toNat?, ← y.toNat?, ← z.toNat?), ← unhex h) : Tile)
    | _ => none
  pure (ts, rest)

def memStream (tiles : List Tile) (b : BBox) : List Tile :=
  b.iterCoords.filterMap fun (x, y) => tiles.find? (fun t => t.1 == (x, y, b.level))

def handleNames (tar : Bool) (args : List String) : Option String := do
  match args with
  | f :: c :: rest =>
    let f ← TileFormat.ofName f
    let c ← TComp.ofName c
    let (levels, rest) ← parseLevels rest
    let (tiles, _) ← parseTiles rest
    -- all files the writers create: the metadata file and one file per tile (`writeFiles`)
    let all := (writeFiles ⟨f, c, [], levels, memStream tiles⟩).filterMap (·.1)
    let names := if tar then all else
      (all.map String.ofList).mergeSort (fun a b => a ≤ b) |>.map String.toList
    pure (" ".intercalate (s!"ok {names.length}" :: names.map charsToHex))
  | _ => none

def handle (stream : String) (args : List String) : String :=
  let r : Option String := match stream, args with
    | "NAM", [n] => do
      let n ← unhex n
      pure (match bytesToChars n with
        | none => "err"
        | some name => match classifyTar name with
          | .tile z x y f c =>
            -- one-member archive: the verdict of `addTile` on the empty state (coordinate inside its level)
            match addTile ⟨none, none, []⟩ z x y f c [] with
            | .ok _ => s!"tile {z} {x} {y} {f.name} {c.name}"
            | _ => "err"
          | .metaJson _ => "skip"
          | .skip => "skip"
          | .fail => "err")
    | "C16t", rest => do
      let (fs, rest) ← parseFiles rest
      let (qs, _) ← parseQueries rest
      pure (showReader (openTar okInflate fs) qs)
    | "C16d", rest => do
      let (fs, rest) ← parseFiles rest
      let (qs, _) ← parseQueries rest
      pure (showReader (openDir okInflate fs) qs)
    | "C01t", rest => handleNames true rest
    | "C01d", rest => handleNames false rest
    | _, _ => none
  r.getD "bad-op"

end VtModel.TarDir
