import VtModel.BBox
/-!
Executable `Float` model of the geographic conversions
(`tile_coords.rs:46-70,118-131`, `tile_bbox.rs:153-162,513-524`, `geo_bbox.rs:229-237`).
Used for the correspondence only: the compiled driver uses the same libm as Rust's `f64`.
The theorems about these conversions are stated over ℝ in `VtProofs/GeoReal.lean`.
-/
namespace VtModel.Geo
open VtModel

def PI : Float := 3.141592653589793

structure GeoBBox where
  w : Float
  s : Float
  e : Float
  n : Float

/-- `GeoBBox::check` (NaN fails every comparison) -/
def GeoBBox.check (g : GeoBBox) : Bool :=
  g.w >= -180.0 && g.s >= -90.0 && g.e <= 180.0 && g.n <= 90.0 && g.w <= g.e && g.s <= g.n

def fmin (a b : Float) : Float := if b < a then b else a
def fmax (a b : Float) : Float := if b > a then b else a

/-- `TileCoord2::from_geo` -/
def coordFromGeo (x y : Float) (z : Nat) (roundUp : Bool) : Outcome (Nat × Nat) :=
  if z > 31 then .err
  else if !(x >= -180.0) || !(x <= 180.0) || !(y >= -90.0) || !(y <= 90.0) then .err
  else
    let zoom : Float := Float.ofNat (2 ^ z)
    let x1 := zoom * (x / 360.0 + 0.5)
    let y1 := zoom * (0.5 - 0.5 * Float.log (Float.tan (y * PI / 360.0 + PI / 4.0)) / PI)
    let x2 := if roundUp then Float.floor (x1 - 1e-6) else Float.floor (x1 + 1e-6)
    let y2 := if roundUp then Float.floor (y1 - 1e-6) else Float.floor (y1 + 1e-6)
    .ok ((fmax (fmin x2 (zoom - 1.0)) 0.0).toUInt32.toNat, (fmax (fmin y2 (zoom - 1.0)) 0.0).toUInt32.toNat)

/-- `TileBBox::from_geo` -/
def bboxFromGeo (level : Nat) (g : GeoBBox) : Outcome BBox :=
  if level > 31 then .err
  else if !g.check then .err
  else
    match coordFromGeo g.w g.n level false, coordFromGeo g.e g.s level true with
    | .ok pmin, .ok pmax => BBox.new level pmin.1 pmin.2 (max pmax.1 pmin.1) (max pmax.2 pmin.2)
    | .panic, _ => .panic
    | _, .panic => .panic
    | _, _ => .err

/-- `TileCoord3::as_geo` -/
def coordAsGeo (x y z : Nat) : Float × Float :=
  let zoom : Float := Float.ofNat (2 ^ z)
  ((Float.ofNat x / zoom - 0.5) * 360.0,
   (Float.atan (Float.exp (PI * (1.0 - 2.0 * Float.ofNat y / zoom))) / PI - 0.25) * 360.0)

/-- `TileBBox::as_geo_bbox` (`TileCoord3::new(..).unwrap()` panics only for level > 31;
    `y_max + 1`, `x_max + 1` are unchecked u32 additions) -/
def bboxAsGeo (b : BBox) : Outcome GeoBBox :=
  if b.level > 31 then .panic
  else if b.ymax + 1 ≥ U32 || b.xmax + 1 ≥ U32 then .panic
  else
    let pmin := coordAsGeo b.xmin (b.ymax + 1) b.level
    let pmax := coordAsGeo (b.xmax + 1) b.ymin b.level
    .ok ⟨pmin.1, pmin.2, pmax.1, pmax.2⟩

/-- `from_geo(level, as_geo_bbox(b))` -/
def roundTrip (b : BBox) : Outcome BBox :=
  match bboxAsGeo b with
  | .ok g => bboxFromGeo b.level g
  | .err => .err
  | .panic => .panic

/-- `TileBBoxPyramid::intersect_geo_bbox` (tile_bbox_pyramid.rs:94-101): every level is
    intersected with `from_geo(level, g).unwrap()`; both `unwrap`s turn an error into a panic -/
def pyramidIntersectGeo (p : List BBox) (g : GeoBBox) : Outcome (List BBox) :=
  BBox.mapM (fun pr : BBox × Nat =>
    match (bboxFromGeo pr.2 g).unwrap with
    | .ok gb => (pr.1.intersectBBox gb).unwrap
    | .err => .panic
    | .panic => .panic) p.zipIdx

end VtModel.Geo
