import Std.Data.HashMap
import VtModel.Pipeline
import VtModel.BBoxProto
/-!
Line protocol of streams `C02`, `C08`, `C09` (tile sources and pipelines).

`<stream> <op> <pipe> <env> <args>`

* `env`  sources joined by `!`; one source = `fmt;comp;cover;tiles`, `cover` = non-empty level
         boxes `z:a,b,c,d` joined by `/` (or `-`), `tiles` = `x,y,z,id` joined by `_` (or `-`); optional 5th field kind (harness only), optional 6th
         field = coordinates `x,y,z` joined by `_` whose lookup is `Err` (fault injection).
         A leaf serves its tiles by lookup and the trait's default stream.
* `pipe` reverse polish, tokens joined by `,`: `L<i>` leaf; `D<fmt>[f]` from_debug (format code, `f` = fast); `Z<min>:<max>` filter_zoom (`n` =
         absent, `x…` = not a `u8`); `B<w>:<s>:<e>:<n>` filter_bbox (f64 bit patterns; `x` = not
         four numbers); `O<k>` / `M<k>` overlay / merge of the top `k` pipelines; `U` update.
* `op`   `S` args = boxes joined by `;` → per box the stream sorted by coordinate, joined by `|`
         `G` args = coordinates `x,y,z` joined by `;` → per coordinate the lookup
         `P` → `fmt=… comp=… cover=…`

Payloads are `(feature ids, compression)`: `recompress` keeps the ids and sets the compression,
`merge_tiles` concatenates the ids, update_properties keeps them.
-/
namespace VtModel.PipeProto
open VtModel VtModel.BBox

abbrev Pay := List Nat × Nat

def ops : Ops Pay where
  recode := fun a b p => if a = b then p else (p.1, b)
  decomp := fun _ p => (p.1, 0)
  merge := fun l => (l.flatMap (·.1), 0)
  update := fun _ p => (p.1, 0)
  debug := fun _ _ => ([], 0)      -- debug tiles carry no id feature; their bytes are compared by the oracle

def pyrOfLevels (l : List BBox) : Pyramid :=
  l.foldl (fun p b => if b.level < p.length then p.set b.level b else p) Pyramid.newEmpty

def parseCover (s : String) : Option Pyramid :=
  if s == "-" then some Pyramid.newEmpty
  else ((s.splitOn "/").mapM BBoxProto.parseBox).map pyrOfLevels

def parseTiles (s : String) : Option (Std.HashMap Coord Nat) :=
  if s == "-" then some {}
  else
    (s.splitOn "_").foldlM (fun (m : Std.HashMap Coord Nat) t =>
      match parseNats (t.splitOn ",") with
      | some [x, y, z, i] => some (m.insert (x, y, z) i)
      | _ => none) {}

def parseFails (s : String) : Option (List Coord) :=
  if s == "-" || s == "" then some []
  else (s.splitOn "_").mapM fun t =>
    match parseNats (t.splitOn ",") with
    | some [x, y, z] => some (x, y, z)
    | _ => none

def parseSrc (s : String) : Option (Op Pay) :=
  -- field 5 (the container kind) is read by the harness only; field 6 = coordinates whose lookup
  -- fails with `Err` (fault injection): the leaf then uses the trait's default stream over this lookup
  let fs := s.splitOn ";"
  match fs.take 4 with
  | [f, c, cov, tiles] =>
    match f.toNat?, c.toNat?, parseCover cov, parseTiles tiles, parseFails (fs.getD 5 "-") with
    | some f, some c, some cov, some m, some fails =>
      some ⟨Src.ofLookup (fun co => if fails.contains co then .err else .ok ((m.get? co).map fun i => ([i], c))) cov, f, c⟩
    | _, _, _, _, _ => none
  | _ => none

def parseEnv (s : String) : Option (Array (Op Pay)) :=
  ((s.splitOn "!").mapM parseSrc).map List.toArray

/-- `filter_bbox` argument → per-level boxes (filter_bbox.rs:32-38 after the `check`) -/
def geoLevels (g : Geo.GeoBBox) : Outcome Pyramid :=
  if !g.check then .err
  else BBox.mapM (fun z => (Geo.bboxFromGeo z g).unwrap) Pyramid.levels

def parseZ (s : String) : Option (Option Nat) :=
  if s == "n" then some none
  else if s.startsWith "x" then some (some 999)   -- `x…`: not a `u8` (word, float, negative, empty): rejected like any value ≥ 256
  else s.toNat?.map some

def takeN : Nat → List Pipe → Option (Pipes × List Pipe)
  | 0, st => some (.nil, st)
  | n + 1, p :: st => (takeN n st).map fun (ps, rest) => (.cons p ps, rest)
  | _ + 1, [] => none

def revPipes : Pipes → Pipes → Pipes
  | .nil, acc => acc
  | .cons p ps, acc => revPipes ps (.cons p acc)

def stepTok (st : List Pipe) (tok : String) : Option (List Pipe) :=
  let rest := (tok.drop 1).toString
  match tok.front with
  | 'L' => rest.toNat?.map fun i => Pipe.leaf i :: st
  | 'D' =>
    -- `D<fmt>[f]`; `Dx…` = from_debug with a misspelled / unknown parameter name: the build is an error
    if rest.startsWith "x" then some (Pipe.leaf 1000000000 :: st)
    else (rest.takeWhile Char.isDigit).toString.toNat?.map fun f => Pipe.debug f :: st
  | 'U' => match st with
    -- `Ux…` = update_properties with a misspelled / unknown parameter name: the build is an error
    | p :: st => some ((if rest.startsWith "x" then Pipe.filterBBox .err p else Pipe.update p) :: st)
    | [] => none
  | 'Z' =>
    match rest.splitOn ":", st with
    | [a, b], p :: st =>
      match parseZ a, parseZ b with
      | some a, some b => some (Pipe.filterZoom a b p :: st)
      | _, _ => none
    | _, _ => none
  | 'B' =>
    match st with
    | p :: st =>
      -- `x…`: not four numbers (wrong arity, repeated key, non-numeric entry): rejected
      if rest.startsWith "x" then some (Pipe.filterBBox .err p :: st)
      else
        match (rest.splitOn ":").mapM BBoxProto.parseF with
        | some [w, s, e, n] => some (Pipe.filterBBox (geoLevels ⟨w, s, e, n⟩) p :: st)
        | _ => none
    | [] => none
  | 'O' => rest.toNat?.bind fun k => (takeN k st).map fun (ps, st) => Pipe.overlay (revPipes ps .nil) :: st
  | 'M' => rest.toNat?.bind fun k => (takeN k st).map fun (ps, st) => Pipe.merged (revPipes ps .nil) :: st
  | _ => none

def parsePipe (s : String) : Option Pipe :=
  match (s.splitOn ",").foldlM stepTok [] with
  | some [p] => some p
  | _ => none

def coordLe (a b : Coord × Pay) : Bool :=
  a.1.1 < b.1.1 || (a.1.1 == b.1.1 && (a.1.2.1 < b.1.2.1 || (a.1.2.1 == b.1.2.1 && a.1.2.2 ≤ b.1.2.2)))

def showPay (p : Pay) : String := "+".intercalate (p.1.map toString) ++ "@" ++ toString p.2

def showTiles (l : List (Coord × Pay)) : String :=
  if l.isEmpty then "-"
  else "_".intercalate ((l.mergeSort coordLe).map fun (c, p) => s!"{c.1},{c.2.1},{c.2.2},{showPay p}")

def showCover (p : Pyramid) : String :=
  let l := Pyramid.iterLevels p
  if l.isEmpty then "-" else "/".intercalate (l.map BBox.render)

def parseCoord (s : String) : Option Coord :=
  match parseNats (s.splitOn ",") with
  | some [x, y, z] => some (x, y, z)
  | _ => none

def handle (args : List String) : String :=
  match args with
  | op :: pipe :: env :: rest =>
    match parsePipe pipe, parseEnv env with
    | some p, some env =>
      match build ops (fun i => match env[i]? with | some o => .ok o | none => .err) p with
      | .err => "err"
      | .panic => "panic"
      | .ok o =>
        match op, rest with
        | "P", [] => s!"fmt={o.fmt} comp={o.comp} cover={showCover o.src.cover}"
        | "S", [boxes] =>
          match (boxes.splitOn ";").mapM BBoxProto.parseBox with
          | some bs => "|".intercalate (bs.map fun b => showO showTiles (o.src.stream b))
          | none => "bad-op"
        | "G", [coords] =>
          match (coords.splitOn ";").mapM parseCoord with
          | some cs => "|".intercalate (cs.map fun c =>
              showO (fun (r : Option Pay) => match r with | some p => showPay p | none => "-") (o.src.lookup c))
          | none => "bad-op"
        | _, _ => "bad-op"
    | _, _ => "bad-op"
  | _ => "bad-op"

end VtModel.PipeProto
