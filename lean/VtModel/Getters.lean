import VtModel.FmtBytes
/-!
Decision model of `versatiles_container/src/container/getters.rs`: which reader / writer a file name
is dispatched to (`get_reader`, `write_to_filename`, `get_extension`).  The file system is a
parameter: what exists at the path (`nothing`, a regular `file`, a `dir`ectory).
-/
namespace VtModel.Getters
open VtModel VtModel.Fmt

/-- what exists at `current_dir().join(filename)` -/
inductive Exists where
  | nothing | file | dir
deriving DecidableEq, Repr

/-- the reader / writer chosen; `err` = `bail!` -/
inductive Choice where
  | versatiles | pmtiles | mbtiles | tar | directory | pipeline
  | httpVersatiles | httpPmtiles
  | err
deriving DecidableEq, Repr

/-- part after the last `.` (`rsplit('.').next()`: the whole string when there is no dot) -/
def afterLastDot : List Char → List Char
  | [] => []
  | c :: cs =>
    if cs.contains '.' then afterLastDot cs
    else if c = '.' then cs else c :: afterLastDot cs

/-- `get_extension` (getters.rs:103-109): cut at the first `?`, then take what follows the last `.` -/
def getExtension (name : List Char) : List Char := afterLastDot (name.takeWhile (· ≠ '?'))

def isUrl (name : List Char) : Bool :=
  "http://".toList.isPrefixOf name || "https://".toList.isPrefixOf name

/-- `get_reader` (getters.rs:34-66).  For URLs `Url::parse` is assumed to succeed. -/
def getReader (name : List Char) (e : Exists) : Choice :=
  let ext := String.ofList (getExtension name)
  if isUrl name then
    if ext = "pmtiles" then .httpPmtiles else if ext = "versatiles" then .httpVersatiles else .err
  else
    match e with
    | .nothing => .err
    | .dir => .directory
    | .file =>
      if ext = "mbtiles" then .mbtiles else if ext = "pmtiles" then .pmtiles else if ext = "tar" then .tar
      else if ext = "versatiles" then .versatiles else if ext = "vpl" then .pipeline else .err

/-- `write_to_filename` (getters.rs:79-95): an EXISTING directory selects the directory writer -/
def writeTo (name : List Char) (e : Exists) : Choice :=
  let ext := String.ofList (getExtension name)
  match e with
  | .dir => .directory
  | _ =>
    if ext = "mbtiles" then .mbtiles else if ext = "pmtiles" then .pmtiles else if ext = "tar" then .tar
    else if ext = "versatiles" then .versatiles else .err

def Choice.name : Choice → String
  | .versatiles => "versatiles" | .pmtiles => "pmtiles" | .mbtiles => "mbtiles" | .tar => "tar"
  | .directory => "directory" | .pipeline => "pipeline" | .httpVersatiles => "http-versatiles"
  | .httpPmtiles => "http-pmtiles" | .err => "err"

def parseExists (s : String) : Option Exists :=
  if s = "none" then some .nothing else if s = "file" then some .file else if s = "dir" then some .dir else none

/-- streams `GTR <namehex> <none|file|dir>`, `GTW <namehex> <none|file|dir>`, `GTX <namehex>` -/
def handle (stream : String) (args : List String) : String :=
  let r : Option String := match stream, args with
    | "GTR", [n, e] => do
      let b ← unhex n
      let s ← String.fromUTF8? ⟨b.toArray⟩
      let e ← parseExists e
      pure (getReader s.toList e).name
    | "GTW", [n, e] => do
      let b ← unhex n
      let s ← String.fromUTF8? ⟨b.toArray⟩
      let e ← parseExists e
      pure (writeTo s.toList e).name
    | _, _ => none
  r.getD "bad-op"

end VtModel.Getters
