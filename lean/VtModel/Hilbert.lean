/-
Model of `versatiles_container/src/container/pmtiles/types/tile_id.rs`
(PMTiles Hilbert tile ids: `coord_to_tile_id`, `rotate`, `tile_id_to_coord`).

Two layers:

* LOOP FORM (`coordToTileIdLoop`, `tileIdToCoordLoop`): mirrors the Rust statement by
  statement.  The `i64` variables `tx, ty, s, d, acc` are `Int`; the `u64` variables of the
  decoder (`acc, num_tiles, t`) are `Nat`.  `while` loops are structural recursion on a fuel
  argument that equals the exact number of iterations (documented at each loop); the loop
  condition is still tested, so the fuel never cuts a loop short (proved in
  `VtProofs.Hilbert`: loop form = specification).
* RECURSIVE SPECIFICATION on `Nat` (`base`, `enc`, `dec`, `coordToTileId`, `tileIdToCoord`):
  the Hilbert index of `(x, y)` in a `2^k × 2^k` square, most significant quadrant first,
  for unbounded `k`.

Overflow: for `z ≤ 31` every intermediate value of the Rust code stays far inside
`i64`/`u64` (`|tx|,|ty| < 2^33`, `s*s ≤ 2^60`, `d < 4^31 = 2^62`, `acc ≤ base 32 < 2^63`),
so there is no reachable arithmetic panic; the only fallible `u64` operation that is
modelled explicitly is `tileid - acc` (`.panic` on underflow, proved unreachable).

NOTE (faithfulness): the encoder calls `rotate(s, …)` with the *half* size `s` and does not
reduce `tx, ty` modulo `s` first.  When `rx = 1, ry = 0` we have `tx ≥ s`, so
`s - 1 - tx` is NEGATIVE, and later `tx & s` is evaluated on a negative `i64`
(two's complement).  This is modelled faithfully with `Int` and `hasBit`.
-/
import VtModel.Basic

namespace VtModel.Hilbert

/-! ## Specification -/

/-- number of tiles on all levels below `z`: `Σ_{t<z} 4^t`. -/
def base : Nat → Nat
  | 0 => 0
  | z + 1 => base z + 4 ^ z

/-- quadrant digit `(3*rx) ^ ry` for `rx, ry ∈ {0,1}`:
    (0,0)→0, (0,1)→1, (1,1)→2, (1,0)→3. -/
def quad (rx ry : Nat) : Nat := if rx = 0 then ry else 3 - ry

/-- `rotate` on reduced coordinates `x, y < s`. -/
def rot (s x y rx ry : Nat) : Nat × Nat :=
  if ry = 0 then
    if rx = 1 then (s - 1 - y, s - 1 - x) else (y, x)
  else (x, y)

/-- Hilbert index of `(x, y)` in the `2^k × 2^k` square (only `x % 2^k`, `y % 2^k` matter). -/
def enc : Nat → Nat → Nat → Nat
  | 0, _, _ => 0
  | k + 1, x, y =>
    let s := 2 ^ k
    let rx := x / s % 2
    let ry := y / s % 2
    let p := rot s (x % s) (y % s) rx ry
    quad rx ry * 4 ^ k + enc k p.1 p.2

/-- inverse of `enc k` (only `d % 4^k` matters). -/
def dec : Nat → Nat → Nat × Nat
  | 0, _ => (0, 0)
  | k + 1, d =>
    let s := 2 ^ k
    let q := d / 4 ^ k % 4
    let rx := q / 2
    let ry := (q + rx) % 2
    let p := dec k (d % 4 ^ k)
    let r := rot s p.1 p.2 rx ry
    (r.1 + rx * s, r.2 + ry * s)

def coordToTileId (x y z : Nat) : Nat := base z + enc z x y

/-- first `z' ≥ z` with `id < base (z'+1)`; `fuel` bounds the search (`id + 1` suffices
    because `z ≤ base z`). -/
def findZ (id : Nat) : Nat → Nat → Nat
  | 0, z => z
  | fuel + 1, z => if id < base (z + 1) then z else findZ id fuel (z + 1)

/-- the zoom level of tile id `id`: `base z ≤ id < base (z+1)`. -/
def zoomOf (id : Nat) : Nat := findZ id (id + 1) 0

/-- specification of the decoder for unbounded ids (always `some`). -/
def tileIdToCoord (id : Nat) : Option (Nat × Nat × Nat) :=
  let z := zoomOf id
  let p := dec z (id - base z)
  some (p.1, p.2, z)

/-! ## Loop form (mirrors the Rust) -/

/-- `(v & s) > 0` for an `i64` `v` (two's complement, may be negative) and `s = 2^k`,
    `k < 63`: bit `k` of `v`, i.e. `⌊v / s⌋ mod 2 = 1` (`Int` `/` and `%` are floor
    division / non-negative remainder for positive divisors, which is exactly two's
    complement). -/
def hasBit (v s : Int) : Bool := (v / s) % 2 == 1

/-- tile_id.rs:50-58 `rotate` as a pure function returning the new `(tx, ty)`. -/
def rotate (s tx ty : Int) (rx ry : Nat) : Int × Int :=
  if ry = 0 then
    let p : Int × Int := if rx = 1 then (s - 1 - tx, s - 1 - ty) else (tx, ty)
    (p.2, p.1)   -- swap
  else (tx, ty)

/-- tile_id.rs:30-33 `for t_z in 0..z { acc += 1 << (t_z*2) }`. -/
def accLoop (z : Nat) : Nat :=
  (List.range z).foldl (fun acc t => acc + 1 <<< (t * 2)) 0

/-- tile_id.rs:39-45 `while s > 0 { … s /= 2 }`.  Starting from `s = 2^z / 2` the loop runs
    exactly `z` times (`s = 2^(z-1), …, 2, 1`), so `fuel = z` is exact; the condition
    `s > 0` is still tested. Returns `d`. -/
def encLoop : Nat → Int → Int → Int → Int → Int
  | 0, _, _, _, d => d
  | fuel + 1, s, tx, ty, d =>
    if s > 0 then
      let rx : Nat := if hasBit tx s then 1 else 0
      let ry : Nat := if hasBit ty s then 1 else 0
      let d := d + s * s * (((3 * rx) ^^^ ry : Nat) : Int)
      let p := rotate s tx ty rx ry
      encLoop fuel (s / 2) p.1 p.2 d
    else d

/-- `v as u64` for an `i64` `v`. -/
def i64AsU64 (v : Int) : Nat := (v % 18446744073709551616).toNat

/-- `v as u32` for an `i64` `v`. -/
def i64AsU32 (v : Int) : Nat := (v % 4294967296).toNat

/-- tile_id.rs:20-48 `coord_to_tile_id(x: u32, y: u32, z: u8) -> Result<u64>`. -/
def coordToTileIdLoop (x y z : Nat) : Outcome Nat :=
  if z ≥ 32 then .err
  else
    let n : Nat := 1 <<< z
    if x ≥ n || y ≥ n then .err
    else
      let acc : Int := accLoop z
      let s : Int := (n : Int) / 2
      let d := encLoop z s x y 0
      .ok (i64AsU64 (acc + d))

/-- tile_id.rs:71-83 `while s < n { … t /= 4; s *= 2 }`.  Starting from `s = 1` with
    `n = 2^t_z` the loop runs exactly `t_z` times, so `fuel = t_z` is exact. -/
def decLoop : Nat → Int → Int → Nat → Int → Int → Int × Int
  | 0, _, _, _, tx, ty => (tx, ty)
  | fuel + 1, n, s, t, tx, ty =>
    if s < n then
      let rx := (t / 2) &&& 1
      let ry := (t ^^^ rx) &&& 1
      let p := rotate s tx ty rx ry
      let tx := if rx = 1 then p.1 + s else p.1
      let ty := if ry = 1 then p.2 + s else p.2
      decLoop fuel n (s * 2) (t / 4) tx ty
    else (tx, ty)

/-- `TileCoord3::new` (versatiles_core/src/types/tile_coords.rs:108-111). -/
def tileCoord3New (x y z : Nat) : Outcome (Nat × Nat × Nat) :=
  if z ≤ 31 then .ok (x, y, z) else .err

/-- tile_id.rs:62-88 `for t_z in 0..32 { … }`; `fuel` = remaining iterations,
    falling out of the loop is the final `bail!`. -/
def searchLoop (id : Nat) : Nat → Nat → Nat → Outcome (Nat × Nat × Nat)
  | 0, _, _ => .err
  | fuel + 1, tz, acc =>
    let numTiles := (1 <<< tz) * (1 <<< tz)
    if acc + numTiles > id then
      let n : Int := ((1 <<< tz : Nat) : Int)
      if id < acc then .panic   -- `tileid - acc` underflow (unreachable)
      else
        let t := id - acc
        let p := decLoop tz n 1 t 0 0
        tileCoord3New (i64AsU32 p.1) (i64AsU32 p.2) tz
    else searchLoop id fuel (tz + 1) (acc + numTiles)

/-- tile_id.rs:60-90 `tile_id_to_coord(tileid: u64) -> Result<TileCoord3>` as `(x, y, z)`. -/
def tileIdToCoordLoop (id : Nat) : Outcome (Nat × Nat × Nat) := searchLoop id 32 0 0

/-! ## Line protocol -/

def showId : Outcome Nat → String
  | .ok v => s!"ok {v}"
  | .err => "err"
  | .panic => "panic"

def showCoord : Outcome (Nat × Nat × Nat) → String
  | .ok (x, y, z) => s!"ok {x} {y} {z}"
  | .err => "err"
  | .panic => "panic"

/-- `enc z x y` → `ok <id>` | `err` | `panic`; `dec id` → `ok <x> <y> <z>` | `err` | `panic`
    (both through the LOOP form).  Inputs outside `u8`/`u32`/`u64` cannot be produced by the
    Rust callers; the model answers `err` for them as well. -/
def handle (args : List String) : String :=
  match args with
  | ["enc", z, x, y] =>
    match z.toNat?, x.toNat?, y.toNat? with
    | some z, some x, some y => showId (coordToTileIdLoop x y z)
    | _, _, _ => "bad-op"
  | ["dec", id] =>
    match id.toNat? with
    | some id => showCoord (tileIdToCoordLoop id)
    | none => "bad-op"
  | _ => "bad-op"

/-! ## Known values (tile_id.rs tests) and loop/spec cross-checks -/

example : coordToTileIdLoop 1 1 1 = .ok 3 := by decide
example : coordToTileIdLoop 0 0 0 = .ok 0 := by decide
example : coordToTileIdLoop 2 2 2 = .ok 13 := by decide
example : coordToTileIdLoop 5 3 3 = .ok 73 := by decide
example : coordToTileIdLoop 7 7 3 = .ok 63 := by decide
example : coordToTileIdLoop 1 1 32 = .err := by decide
example : coordToTileIdLoop 1 0 0 = .err := by decide
example : coordToTileId 5 3 3 = 73 := by decide
example : tileIdToCoordLoop 73 = .ok (5, 3, 3) := by decide
example : tileIdToCoord 73 = some (5, 3, 3) := by decide

end VtModel.Hilbert
