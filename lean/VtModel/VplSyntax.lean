import VtModel.Vpl
/-!
# VtModel.VplSyntax — VPL pipelines *as written*: syntax tree + layout, their text and the tree they describe

The objects the C18 theorems quantify over (`VtProps.C18.parse_render`): every whitespace slot of the grammar,
bare / quoted values, raw / escaped characters, scalar / bracketed parameters.  `CNode d` / `CPipe d` are
the written operations / pipelines of nesting depth ≤ `d`.  Executable, so that the driver can render a
written pipeline sent by the harness (`C18 render …`) and the harness can compare the text and the tree
with its own.
-/
namespace VtModel.Vpl

inductive WsChar where
  | sp | tab | cr | nl
deriving Repr, DecidableEq

def WsChar.toChar : WsChar → Char
  | .sp => ' '
  | .tab => '\t'
  | .cr => '\r'
  | .nl => '\n'

/-- possibly empty whitespace -/
abbrev Ws := List WsChar

def Ws.str (w : Ws) : Str := w.map WsChar.toChar

/-- non-empty whitespace -/
structure Ws1 where
  head : WsChar
  tail : Ws

def Ws1.str (w : Ws1) : Str := w.head.toChar :: w.tail.str

inductive Esc where
  | bs | quote | n | t
deriving Repr, DecidableEq

/-- the letter written after the backslash -/
def Esc.letter : Esc → Char
  | .bs => '\\' | .quote => '"' | .n => 'n' | .t => 't'

/-- the character it stands for -/
def Esc.val : Esc → Char
  | .bs => '\\' | .quote => '"' | .n => '\n' | .t => '\t'

/-- one character of a quoted string as written: raw or escaped -/
inductive QChar where
  | raw (c : Char)
  | esc (e : Esc)

def QChar.str : QChar → Str
  | .raw c => [c]
  | .esc e => ['\\', e.letter]

def QChar.val : QChar → Char
  | .raw c => c
  | .esc e => e.val

def qstr (qs : List QChar) : Str := (qs.map QChar.str).flatten

def qval (qs : List QChar) : Str := qs.map QChar.val

inductive CItem where
  | bare (s : Str)
  | quoted (qs : List QChar)

def CItem.str : CItem → Str
  | .bare s => s
  | .quoted qs => '"' :: (qstr qs ++ ['"'])

def CItem.val : CItem → Str
  | .bare s => s
  | .quoted qs => qval qs

inductive CVal where
  | scalar (it : CItem)
  /-- `[` w0 item (wa `,` wb item)* w1 `]`, or `[` w0 w1 `]` -/
  | list (w0 : Ws) (items : Option (CItem × List (Ws × Ws × CItem))) (w1 : Ws)

def chunkItem (x : Ws × Ws × CItem) : Str := x.1.str ++ ',' :: (x.2.1.str ++ x.2.2.str)

def CVal.str : CVal → Str
  | .scalar it => it.str
  | .list w0 none w1 => '[' :: (w0.str ++ (w1.str ++ [']']))
  | .list w0 (some (it, more)) w1 => '[' :: (w0.str ++ (it.str ++ ((more.map chunkItem).flatten ++ (w1.str ++ [']']))))

def CVal.vals : CVal → List Str
  | .scalar it => [it.val]
  | .list _ none _ => []
  | .list _ (some (it, more)) _ => it.val :: more.map (fun x => x.2.2.val)

structure CProp where
  key : Str
  wa : Ws
  wb : Ws
  val : CVal

def CProp.str (p : CProp) : Str := p.key ++ (p.wa.str ++ '=' :: (p.wb.str ++ p.val.str))

def CProp.kv (p : CProp) : Str × List Str := (p.key, p.val.vals)

inductive CSrcs (Pc : Type) where
  /-- `[` w `]` -/
  | empty (w : Ws)
  /-- `[` p (`,` q)* `]` -/
  | some (p : Pc) (more : List Pc)

structure CNodeF (Pc : Type) where
  pre : Ws
  name : Str
  props : List (Ws1 × CProp)
  wS : Ws
  srcs : Option (CSrcs Pc)
  post : Ws

structure CPipeF (N : Type) where
  first : N
  more : List N

section
variable {Pc : Type}

def chunkProp (x : Ws1 × CProp) : Str := x.1.str ++ x.2.str

def chunkPipe (ps : Pc → Str) (p : Pc) : Str := ',' :: ps p

def srcsStr (ps : Pc → Str) : Option (CSrcs Pc) → Str
  | none => []
  | some (.empty w) => '[' :: (w.str ++ [']'])
  | some (.some p more) => '[' :: (ps p ++ ((more.map (chunkPipe ps)).flatten ++ [']']))

def srcsTrees (pt : Pc → Pipeline) : Option (CSrcs Pc) → List Pipeline
  | none => []
  | some (.empty _) => []
  | some (.some p more) => pt p :: more.map pt

/-- what follows the parameters: ws, optional source list, ws -/
def CNodeF.after (ps : Pc → Str) (n : CNodeF Pc) : Str := n.wS.str ++ (srcsStr ps n.srcs ++ n.post.str)

def CNodeF.body (ps : Pc → Str) (n : CNodeF Pc) : Str :=
  n.name ++ ((n.props.map chunkProp).flatten ++ n.after ps)

/-- the operation as written -/
def CNodeF.str (ps : Pc → Str) (n : CNodeF Pc) : Str := n.pre.str ++ n.body ps

/-- the operation it describes: repeated keys append (`mkProps`), nested pipelines in order -/
def CNodeF.tree (pt : Pc → Pipeline) (n : CNodeF Pc) : Node :=
  .mk n.name (mkProps (n.props.map fun x => x.2.kv)) (srcsTrees pt n.srcs)

end

section
variable {N : Type}

def chunkNode (ns : N → Str) (n : N) : Str := '|' :: ns n

/-- the pipeline as written: operations separated by `|` -/
def CPipeF.str (ns : N → Str) (p : CPipeF N) : Str := ns p.first ++ (p.more.map (chunkNode ns)).flatten

def CPipeF.tree (nt : N → Node) (p : CPipeF N) : Pipeline := nt p.first :: p.more.map nt

end

/-- operations as written, nesting depth ≤ `d` -/
@[reducible] def CNode : Nat → Type
  | 0 => CNodeF Empty
  | d + 1 => CNodeF (CPipeF (CNode d))

/-- pipelines as written, nesting depth ≤ `d` -/
abbrev CPipe (d : Nat) : Type := CPipeF (CNode d)

def noStr : Empty → Str := fun e => nomatch e

def noTree : Empty → Pipeline := fun e => nomatch e

def nodeStr : (d : Nat) → CNode d → Str
  | 0 => CNodeF.str noStr
  | d + 1 => CNodeF.str (CPipeF.str (nodeStr d))

def nodeTree : (d : Nat) → CNode d → Node
  | 0 => CNodeF.tree noTree
  | d + 1 => CNodeF.tree (CPipeF.tree (nodeTree d))

/-- text of a pipeline -/
def render (d : Nat) (p : CPipe d) : Str := CPipeF.str (nodeStr d) p

/-- the pipeline the text describes -/
def treeOf (d : Nat) (p : CPipe d) : Pipeline := CPipeF.tree (nodeTree d) p

/-! ## line protocol `C18r <d> <tokens>`: a written pipeline sent by the harness → its text and its tree

tokens are comma separated, prefix order:
`I n node…` pipeline; `N pre name nprops (ws1 key wa wb val)… wS srcs post` operation;
`srcs` = `X` | `E ws` | `P n pipe…`; `val` = `S item` | `L w0 n [item (wa wb item)…] w1`;
`item` = `b hex` | `q chars` (`chars` = `-` or `.`-separated `r<codepoint hex>` / `eb` `eq` `en` `et`);
whitespace = `-` or letters `s t r n`; names hex. -/

abbrev Toks := List String

def decWs (s : String) : Option Ws :=
  if s = "-" then some [] else
  s.toList.mapM fun c =>
    if c = 's' then some WsChar.sp else if c = 't' then some .tab else if c = 'r' then some .cr
    else if c = 'n' then some .nl else none

def decWs1 (s : String) : Option Ws1 :=
  match decWs s with
  | some (c :: t) => some ⟨c, t⟩
  | _ => none

def hexNat (cs : List Char) : Option Nat :=
  cs.foldlM (fun n c => (unhexDigit c).map fun d => 16 * n + d) 0

def decQChar (t : String) : Option QChar :=
  match t.toList with
  | ['e', 'b'] => some (.esc .bs)
  | ['e', 'q'] => some (.esc .quote)
  | ['e', 'n'] => some (.esc .n)
  | ['e', 't'] => some (.esc .t)
  | 'r' :: h => (hexNat h).map fun n => .raw (Char.ofNat n)
  | _ => none

def decQ (s : String) : Option (List QChar) :=
  if s = "-" then some [] else (s.splitOn ".").mapM decQChar

def decItem : Toks → Option (CItem × Toks)
  | "b" :: h :: r => (strOfHex h).map fun s => (.bare s, r)
  | "q" :: q :: r => (decQ q).map fun qs => (.quoted qs, r)
  | _ => none

def decMany {α : Type} (dec : Toks → Option (α × Toks)) : Nat → Toks → Option (List α × Toks)
  | 0, r => some ([], r)
  | n + 1, r =>
    match dec r with
    | none => none
    | some (a, r1) =>
      match decMany dec n r1 with
      | none => none
      | some (as, r2) => some (a :: as, r2)

def decSepItem : Toks → Option ((Ws × Ws × CItem) × Toks)
  | wa :: wb :: r =>
    match decWs wa, decWs wb, decItem r with
    | some a, some b, some (it, r1) => some ((a, b, it), r1)
    | _, _, _ => none
  | _ => none

def decVal : Toks → Option (CVal × Toks)
  | "S" :: r => (decItem r).map fun x => (.scalar x.1, x.2)
  | "L" :: w0 :: n :: r =>
    match decWs w0, n.toNat? with
    | some w0, some 0 =>
      match r with
      | w1 :: r1 => (decWs w1).map fun w1 => (.list w0 none w1, r1)
      | [] => none
    | some w0, some (k + 1) =>
      match decItem r with
      | none => none
      | some (it, r1) =>
        match decMany decSepItem k r1 with
        | some (more, w1 :: r2) => (decWs w1).map fun w1 => (.list w0 (some (it, more)) w1, r2)
        | _ => none
    | _, _ => none
  | _ => none

def decProp : Toks → Option ((Ws1 × CProp) × Toks)
  | w :: key :: wa :: wb :: r =>
    match decWs1 w, strOfHex key, decWs wa, decWs wb, decVal r with
    | some w, some key, some wa, some wb, some (v, r1) => some ((w, ⟨key, wa, wb, v⟩), r1)
    | _, _, _, _, _ => none
  | _ => none

def decSrcs {Pc : Type} (decP : Toks → Option (Pc × Toks)) : Toks → Option (Option (CSrcs Pc) × Toks)
  | "X" :: r => some (none, r)
  | "E" :: w :: r => (decWs w).map fun w => (some (.empty w), r)
  | "P" :: n :: r =>
    match n.toNat? with
    | some (k + 1) =>
      match decMany decP (k + 1) r with
      | some (p :: more, r1) => some (some (.some p more), r1)
      | _ => none
    | _ => none
  | _ => none

def decNodeF {Pc : Type} (decP : Toks → Option (Pc × Toks)) : Toks → Option (CNodeF Pc × Toks)
  | "N" :: pre :: name :: np :: r =>
    match decWs pre, strOfHex name, np.toNat? with
    | some pre, some name, some np =>
      match decMany decProp np r with
      | some (props, wS :: r1) =>
        match decWs wS, decSrcs decP r1 with
        | some wS, some (srcs, post :: r2) =>
          (decWs post).map fun post => (⟨pre, name, props, wS, srcs, post⟩, r2)
        | _, _ => none
      | _ => none
    | _, _, _ => none
  | _ => none

def decPipeF {N : Type} (decN : Toks → Option (N × Toks)) : Toks → Option (CPipeF N × Toks)
  | "I" :: n :: r =>
    match n.toNat? with
    | some (k + 1) =>
      match decMany decN (k + 1) r with
      | some (a :: more, r1) => some (⟨a, more⟩, r1)
      | _ => none
    | _ => none
  | _ => none

def decNode : (d : Nat) → Toks → Option (CNode d × Toks)
  | 0 => decNodeF (fun _ => none)
  | d + 1 => decNodeF (decPipeF (decNode d))

/-- `C18r <d> <tokens>` → `<hex of render d c> <dump of treeOf d c>` -/
def handleRender (args : List String) : String :=
  match args with
  | [d, toks] =>
    match d.toNat? with
    | none => "bad-depth"
    | some d =>
      match decPipeF (decNode d) (toks.splitOn ",") with
      | some (c, []) => hexOfStr (render d c) ++ " " ++ dumpPipeline (treeOf d c)
      | _ => "bad-cst"
  | _ => "bad-op"

end VtModel.Vpl
