import VtModel.Basic
/-!
Byte-level primitives shared by the container-format models (`Versatiles`, `PMTiles`, `TarDir`,
`MBTiles`): byte strings, fixed-width big/little-endian integers, LEB128 varints
(`versatiles_core/src/io/value_reader.rs:60-75`, `value_writer.rs:71-78`), byte ranges
(`types/byte_range.rs`), positional reads (`io/data_reader_blob.rs:71-81`, `types/blob.rs:144-149`),
hex text for the line protocol, FNV-1a, and a finite table standing for the external
(de)compressors.

Readers are *cursor functions* `Bytes → Outcome (α × Bytes)`: the value read and the remaining
bytes; end of input is `.err` (Rust `read_exact` error), never a panic.
-/
namespace VtModel.Fmt

abbrev Bytes := List UInt8

/-! ### Outcome helpers (simp normal forms for the `do` blocks of the decoders) -/

@[simp] theorem ok_bind {α β} (a : α) (f : α → Outcome β) : (Outcome.ok a >>= f) = f a := rfl
@[simp] theorem err_bind {α β} (f : α → Outcome β) : ((Outcome.err : Outcome α) >>= f) = .err := rfl
@[simp] theorem panic_bind {α β} (f : α → Outcome β) : ((Outcome.panic : Outcome α) >>= f) = .panic := rfl
@[simp] theorem pure_eq {α} (a : α) : (pure a : Outcome α) = .ok a := rfl

/-- `ensure!(c)`: `.err` when the condition fails -/
def ensure (c : Bool) : Outcome Unit := if c then .ok () else .err
/-- an unchecked arithmetic / index site of the dev profile: panic when the condition fails -/
def must (c : Bool) : Outcome Unit := if c then .ok () else .panic

@[simp] theorem ensure_true : ensure true = .ok () := rfl
@[simp] theorem ensure_false : ensure false = .err := rfl
@[simp] theorem must_true : must true = .ok () := rfl
@[simp] theorem must_false : must false = .panic := rfl

/-! ### fixed-width integers -/

/-- big-endian encoding of `v` in `n` bytes (`write_u8/u32/u64` of a `ValueWriter<BigEndian>`);
    values are truncated to `n` bytes like Rust's `as u8`/`as u32` casts at the call sites -/
def beEnc : Nat → Nat → Bytes
  | 0, _ => []
  | n + 1, v => beEnc n (v / 256) ++ [UInt8.ofNat (v % 256)]

/-- big-endian value of a byte string -/
def beDec (bs : Bytes) : Nat := bs.foldl (fun acc b => acc * 256 + b.toNat) 0

/-- little-endian encoding of `v` in `n` bytes -/
def leEnc : Nat → Nat → Bytes
  | 0, _ => []
  | n + 1, v => UInt8.ofNat (v % 256) :: leEnc n (v / 256)

/-- little-endian value of a byte string -/
def leDec : Bytes → Nat
  | [] => 0
  | b :: bs => b.toNat + 256 * leDec bs

/-- two's-complement `i32 → u32` -/
def i32ToNat (v : Int) : Nat := (v % 4294967296).toNat
/-- two's-complement `u32 → i32` -/
def natToI32 (n : Nat) : Int := if n < 2147483648 then (n : Int) else (n : Int) - 4294967296

/-- split off `n` bytes; `.err` at end of input (`read_exact`) -/
def takeN (n : Nat) (bs : Bytes) : Outcome (Bytes × Bytes) :=
  if bs.length < n then .err else .ok (bs.take n, bs.drop n)

def readBE (n : Nat) (bs : Bytes) : Outcome (Nat × Bytes) :=
  if bs.length < n then .err else .ok (beDec (bs.take n), bs.drop n)

def readLE (n : Nat) (bs : Bytes) : Outcome (Nat × Bytes) :=
  if bs.length < n then .err else .ok (leDec (bs.take n), bs.drop n)

def readI32BE (bs : Bytes) : Outcome (Int × Bytes) :=
  if bs.length < 4 then .err else .ok (natToI32 (beDec (bs.take 4)), bs.drop 4)

def readI32LE (bs : Bytes) : Outcome (Int × Bytes) :=
  if bs.length < 4 then .err else .ok (natToI32 (leDec (bs.take 4)), bs.drop 4)

/-! ### varint (LEB128, `read_varint` / `write_varint`) -/

/-- `write_varint` (value_writer.rs:71-78); fuel-free: structural on the value via `v / 128 < v` -/
def varintEnc (v : Nat) : Bytes :=
  if h : v < 128 then [UInt8.ofNat v]
  else UInt8.ofNat (v % 128 + 128) :: varintEnc (v / 128)
termination_by v
decreasing_by omega

/-- `read_varint` (value_reader.rs:60-75): at most 10 bytes; `shift` goes 0,7,…,63; a tenth byte with
    the continuation bit set is `bail!("Varint too long")`; bits shifted beyond 64 are lost
    (`<<` on `u64` with `shift < 64` does not panic).  `k` = number of bytes consumed so far. -/
def readVarintAux : (fuel : Nat) → (k : Nat) → (acc : Nat) → Bytes → Outcome (Nat × Bytes)
  | 0, _, _, _ => .err
  | _ + 1, _, _, [] => .err
  | fuel + 1, k, acc, b :: bs =>
    let acc' := acc + ((b.toNat % 128) * 2 ^ (7 * k)) % U64
    if b.toNat < 128 then .ok (acc', bs)
    else readVarintAux fuel (k + 1) acc' bs

def readVarint (bs : Bytes) : Outcome (Nat × Bytes) := readVarintAux 10 0 0 bs

/-- concatenated varints -/
def varintsEnc (vs : List Nat) : Bytes := (vs.map varintEnc).flatten

/-- read `n` varints -/
def readVarints : Nat → Bytes → Outcome (List Nat × Bytes)
  | 0, bs => .ok ([], bs)
  | n + 1, bs =>
    match readVarint bs with
    | .ok (v, r) =>
      match readVarints n r with
      | .ok (vs, r') => .ok (v :: vs, r')
      | .err => .err
      | .panic => .panic
    | .err => .err
    | .panic => .panic

/-! ### byte ranges and positional reads -/

structure Range where
  off : Nat
  len : Nat
deriving Repr, DecidableEq, Inhabited

/-- `DataReaderBlob::read_range` / `Blob::read_range` / `DataReaderFile::read_range`: `offset + length`
    is a checked addition (since /repo 7ce9b171: overflow → error, before that a dev-profile panic);
    a range outside the data is an error -/
def readRange (file : Bytes) (r : Range) : Outcome Bytes :=
  if r.off + r.len ≥ U64 then .err
  else if r.off + r.len > file.length then .err
  else .ok ((file.drop r.off).take r.len)

/-- the plain slice `file[off .. off+len]` (specification level) -/
def slice (file : Bytes) (r : Range) : Bytes := (file.drop r.off).take r.len

/-! ### the external compressors as a finite table -/

/-- association table `key ↦ value` on byte strings; missing keys map to themselves.  In the driver
    it stands for `decompress_brotli` / `decompress_gzip` (or their inverses) on exactly the byte
    strings occurring in a case. -/
abbrev Table := List (Bytes × Bytes)

def Table.app (t : Table) (k : Bytes) : Bytes :=
  match t.find? (fun p => p.1 == k) with
  | some p => p.2
  | none => k


/-! ### tile format / compression enums (`types/tile_format.rs`, `types/tile_compression.rs`) -/

inductive TileFormat where
  | avif | bin | geojson | jpg | json | pbf | png | svg | topojson | webp
deriving DecidableEq, Repr, Inhabited

inductive TComp where
  | none | gzip | brotli
deriving DecidableEq, Repr, Inhabited

/-- `TileFormat::extension()` without the leading dot (also the protocol name) -/
def TileFormat.name : TileFormat → String
  | .avif => "avif" | .bin => "bin" | .geojson => "geojson" | .jpg => "jpg" | .json => "json"
  | .pbf => "pbf" | .png => "png" | .svg => "svg" | .topojson => "topojson" | .webp => "webp"

def TileFormat.all : List TileFormat :=
  [.avif, .bin, .geojson, .jpg, .json, .pbf, .png, .svg, .topojson, .webp]

def TileFormat.ofName (s : String) : Option TileFormat := TileFormat.all.find? (fun f => f.name == s)

/-- `TileCompression::as_str` -/
def TComp.name : TComp → String
  | .none => "none" | .gzip => "gzip" | .brotli => "brotli"

def TComp.ofName (s : String) : Option TComp := [TComp.none, .gzip, .brotli].find? (fun c => c.name == s)

/-- the external decompressor: `decompress(blob, compression)`; `Uncompressed` is the identity -/
structure Inflate where
  gzip : Bytes → Option Bytes
  brotli : Bytes → Option Bytes

def Inflate.run (K : Inflate) : TComp → Bytes → Outcome Bytes
  | .none, b => .ok b
  | .gzip, b => match K.gzip b with | some r => .ok r | none => .err
  | .brotli, b => match K.brotli b with | some r => .ok r | none => .err

/-- table lookup where a missing key means failure (reader streams of the protocol) -/
def Table.get? (t : Table) (k : Bytes) : Option Bytes := (t.find? (fun p => p.1 == k)).map (·.2)

def Inflate.ofTable (t : Table) : Inflate := ⟨t.get?, t.get?⟩

/-! ### text helpers for the line protocol -/

def hexDigit (c : Char) : Option Nat :=
  if '0' ≤ c ∧ c ≤ '9' then some (c.toNat - '0'.toNat)
  else if 'a' ≤ c ∧ c ≤ 'f' then some (c.toNat - 'a'.toNat + 10)
  else if 'A' ≤ c ∧ c ≤ 'F' then some (c.toNat - 'A'.toNat + 10)
  else none

def hexPairs : List Char → Option Bytes
  | [] => some []
  | [_] => none
  | a :: b :: r => do
    let x ← hexDigit a
    let y ← hexDigit b
    let t ← hexPairs r
    pure (UInt8.ofNat (x * 16 + y) :: t)

/-- `-` is the empty string -/
def unhex (s : String) : Option Bytes := if s == "-" then some [] else hexPairs s.toList

def nibble (n : Nat) : Char := if n < 10 then Char.ofNat (48 + n) else Char.ofNat (87 + n)

def hex (bs : Bytes) : String :=
  if bs.isEmpty then "-"
  else String.ofList (bs.flatMap fun b => [nibble (b.toNat / 16), nibble (b.toNat % 16)])

/-- FNV-1a, 64 bit -/
def fnv64 (bs : Bytes) : UInt64 :=
  bs.foldl (fun h b => (h ^^^ b.toUInt64) * 0x100000001b3) 0xcbf29ce484222325

def hex64 (v : UInt64) : String :=
  String.ofList ((List.range 16).map fun i => nibble ((v.toNat / 16 ^ (15 - i)) % 16))

def showInt (i : Int) : String := if i < 0 then s!"-{(-i).toNat}" else s!"{i.toNat}"

def parseInt (s : String) : Option Int :=
  if s.startsWith "-" then (s.drop 1).toNat?.map (fun n => -(n : Int)) else s.toNat?.map (fun n => (n : Int))

/-- parse `a:b:c…` into numbers -/
def parseNatsSep (sep : String) (s : String) : Option (List Nat) := (s.splitOn sep).mapM (·.toNat?)

/-- `n` followed by `n` groups of `k` tokens; returns the groups and the rest -/
def takeGroups (k : Nat) : Nat → List String → Option (List (List String) × List String)
  | 0, r => some ([], r)
  | n + 1, r =>
    if r.length < k then none
    else do
      let (gs, rest) ← takeGroups k n (r.drop k)
      pure (r.take k :: gs, rest)

/-- `<count> item*` with `k` tokens per item -/
def takeCounted (k : Nat) (toks : List String) : Option (List (List String) × List String) :=
  match toks with
  | [] => none
  | c :: r => do
    let n ← c.toNat?
    takeGroups k n r

/-- `<ntab> (<keyhex> <valuehex>)*` -/
def parseTable (toks : List String) : Option (Table × List String) := do
  let (gs, rest) ← takeCounted 2 toks
  let t ← gs.mapM fun g =>
    match g with
    | [k, v] => do
      let k ← unhex k
      let v ← unhex v
      pure (k, v)
    | _ => none
  pure (t, rest)

/-- `<nq> (<z> <x> <y>)*` as `(x, y, z)` triples -/
def parseQueries (toks : List String) : Option (List (Nat × Nat × Nat) × List String) := do
  let (gs, rest) ← takeCounted 3 toks
  let q ← gs.mapM fun g =>
    match g with
    | [z, x, y] => do
      let z ← z.toNat?
      let x ← x.toNat?
      let y ← y.toNat?
      pure (x, y, z)
    | _ => none
  pure (q, rest)

/-- result of one tile lookup in protocol form -/
def showLookup : Outcome (Option Bytes) → String
  | .ok none => "none"
  | .ok (some b) => "=" ++ hex b
  | .err => "err"
  | .panic => "panic"

end VtModel.Fmt
