import VtModel.Basic
import VtModel.Json
import VtModel.TileJson
import VtModel.Prim
import VtModel.Mvt
import VtModel.Vpl
import VtModel.FmtBytes
import VtModel.Versatiles
import VtModel.PMTiles
/-!
# C19 — decoders that the other model files do not cover, allocation traces, verdict protocol

* **Allocation-traced length-prefixed reads** (`versatiles_core/src/io/value_reader.rs:118-140`
  `read_blob` / `read_string`, `value_reader_{slice,blob,file}.rs` `get_sub_reader`,
  `types/blob.rs:144` `Blob::read_range`, `io/data_reader_{blob,file}.rs` `read_range`):
  every function returns, next to its `Outcome`, the list of sizes it asks the allocator for
  (`vec![0; n]`, `Blob::new_sized(n)`, `Blob::from(&slice)`).  Two versions are kept side by side:
  `…Old` = the code before the `fix:` commits 4706f789 / 7ce9b171 (allocate the announced length,
  then `read_exact`; unchecked `start + length`), and the current code (guard first).
* **`format_error` before a22a8569** (`byte_iterator/iterator.rs:54-82`): `formatErrorOld`
  (`String::from_utf8(snapshot).unwrap()`), kept for the proved counterexample; the current
  behaviour is `VtModel.Json.formatError` (always `.err`).
* **CSV reader** (`versatiles_core/src/utils/csv.rs`, `versatiles_pipeline/src/helpers/csv.rs`):
  `csvRows old sep input`; `old = true` is the code before 9978dff5 (`panic!()` after a closing quote).
* **PMTiles directory decoding with its `Vec` growth** (`entries_v3.rs:34-75`): `decDirAllocs`.
* **verdict protocol** `C19 <ep> <hex> [probes]` → `ok` | `err` | `panic` for the entry points that the
  harness (`harness/src/c19.rs`) also runs on the real code.
-/
namespace VtModel.Decoders
open VtModel

abbrev Bytes := List UInt8

/-- a result together with the allocation requests (in bytes) made on the way -/
structure Traced (α : Type) where
  out : Outcome α
  allocs : List Nat

/-! ## length-prefixed reads (value_reader*.rs) -/

/-- `isize::MAX`: `vec![0u8; n]` with `n` above it panics ("capacity overflow") -/
def isizeMax : Nat := 2 ^ 63 - 1

/-- `read_blob(length)` / the byte part of `read_string(length)` BEFORE 4706f789:
    `Blob::new_sized(length)` first, `read_exact` afterwards. -/
def readBytesOld (r : Prim.Reader) (n : Nat) : Traced (Bytes × Prim.Reader) :=
  if n > isizeMax then ⟨.panic, []⟩
  else if n > r.rest.length then ⟨.err, [n]⟩
  else ⟨.ok (r.rest.take n, ⟨r.pos + n, r.rest.drop n⟩), [n]⟩

/-- current code: `ensure!(length <= self.remaining())` before the allocation -/
def readBytes (r : Prim.Reader) (n : Nat) : Traced (Bytes × Prim.Reader) :=
  if n > r.rest.length then ⟨.err, []⟩
  else ⟨.ok (r.rest.take n, ⟨r.pos + n, r.rest.drop n⟩), [n]⟩

def mapOut {α β : Type} (f : α → Outcome β) (t : Traced α) : Traced β :=
  match t.out with
  | .ok a => ⟨f a, t.allocs⟩
  | .err => ⟨.err, t.allocs⟩
  | .panic => ⟨.panic, t.allocs⟩

/-- `read_string`: bytes, then `String::from_utf8(vec)?` (no further allocation: the vector is reused) -/
def readString (old : Bool) (r : Prim.Reader) (n : Nat) : Traced (Bytes × Prim.Reader) :=
  mapOut (fun p => if Prim.utf8Ok p.1 then .ok p else .err) (if old then readBytesOld r n else readBytes r n)

/-- `read_pbf_string` / `read_pbf_blob`: length varint, then the read -/
def readPbfString (old : Bool) (r : Prim.Reader) : Traced (Bytes × Prim.Reader) :=
  match Prim.readVarint r with
  | .ok (n, r') => readString old r' n
  | .err => ⟨.err, []⟩
  | .panic => ⟨.panic, []⟩

def readPbfBlob (old : Bool) (r : Prim.Reader) : Traced (Bytes × Prim.Reader) :=
  match Prim.readVarint r with
  | .ok (n, r') => if old then readBytesOld r' n else readBytes r' n
  | .err => ⟨.err, []⟩
  | .panic => ⟨.panic, []⟩

/-- `get_sub_reader(length)` of `ValueReaderSlice` / `ValueReaderBlob` (no allocation: a sub-slice);
    BEFORE 4706f789 `start + length` was an unchecked `u64` addition -/
def subReaderOld (r : Prim.Reader) (n : Nat) : Traced (Bytes × Prim.Reader) :=
  if r.pos + n ≥ U64 then ⟨.panic, []⟩
  else if n > r.rest.length then ⟨.err, []⟩
  else ⟨.ok (r.rest.take n, ⟨r.pos + n, r.rest.drop n⟩), []⟩

def subReader (r : Prim.Reader) (n : Nat) : Traced (Bytes × Prim.Reader) :=
  if n > r.rest.length then ⟨.err, []⟩
  else ⟨.ok (r.rest.take n, ⟨r.pos + n, r.rest.drop n⟩), []⟩

/-- `get_sub_reader(length)` of `ValueReaderFile`: bounds check, then `vec![0; length]` + `read_exact` -/
def subReaderFile (r : Prim.Reader) (n : Nat) : Traced (Bytes × Prim.Reader) :=
  if n > r.rest.length then ⟨.err, []⟩
  else ⟨.ok (r.rest.take n, ⟨r.pos + n, r.rest.drop n⟩), [n]⟩

/-- the harness entry point `pbfstr`: `read_pbf_string` followed by `read_pbf_blob` -/
def pbfStrBlob (old : Bool) (input : Bytes) : Traced Unit :=
  let t1 := readPbfString old (Prim.Reader.ofBytes input)
  match t1.out with
  | .ok (_, r1) =>
    let t2 := readPbfBlob old r1
    ⟨match t2.out with | .ok _ => .ok () | .err => .err | .panic => .panic, t1.allocs ++ t2.allocs⟩
  | .err => ⟨.err, t1.allocs⟩
  | .panic => ⟨.panic, t1.allocs⟩

/-! ## allocation trace of `VectorTile::from_blob`

The result of the decoder is `VtModel.Mvt.decodeTile` (w-mvt's model, unchanged).  Next to it the
functions below list, for the same control flow, the sizes of the **announced-length allocations**
the code makes on the way: `vec![0u8; length]` in `read_string` (layer name, keys, string values)
and `Blob::new_sized(length)` in `read_blob` (geometry).  Sub-messages are sub-slices (no
allocation).  Growth of the result vectors (`features`, tag ids, tables) is not listed: every pushed
element has consumed at least one input byte and has a constant size. -/

/-- allocations of all iterations of a `while has_remaining` loop whose body is `step` and whose
    per-iteration allocations are `al` (same continuation rule as `Prim.whileRem`) -/
def loopAllocs {σ : Type} (step : σ → Prim.Reader → Outcome (σ × Prim.Reader)) (al : σ → Prim.Reader → List Nat)
    (s : σ) (r : Prim.Reader) : List Nat :=
  if r.rest.isEmpty then [] else
  al s r ++
    (match step s r with
     | .ok (s', r') => if r'.rest.length < r.rest.length then loopAllocs step al s' r' else []
     | .err => []
     | .panic => [])
termination_by r.rest.length

/-- `read_pbf_string` / `read_pbf_blob` after the key: the traced reads of this file -/
def lenPrefixedAllocs (r1 : Prim.Reader) : List Nat := (readPbfBlob false r1).allocs

/-- `GeoValue::read`: only field (1, wire 2) = string value allocates -/
def valueAllocs (_ : Option Mvt.Value) (r : Prim.Reader) : List Nat :=
  match Prim.readPbfKey r with
  | .ok ((1, 2), r1) => lenPrefixedAllocs r1
  | _ => []

/-- `VectorTileFeature::read`: field (4, wire 2) = geometry blob -/
def featureAllocs (_ : Mvt.Feature) (r : Prim.Reader) : List Nat :=
  match Prim.readPbfKey r with
  | .ok ((4, 2), r1) => lenPrefixedAllocs r1
  | _ => []

/-- `VectorTileLayer::read`: name (1), key (3) strings; feature (2) and value (4) sub-messages -/
def layerAllocs (_ : Mvt.LayerSt) (r : Prim.Reader) : List Nat :=
  match Prim.readPbfKey r with
  | .ok ((1, 2), r1) => lenPrefixedAllocs r1
  | .ok ((3, 2), r1) => lenPrefixedAllocs r1
  | .ok ((2, 2), r1) =>
    (match Prim.readPbfSub r1 with
     | .ok (sub, _) => loopAllocs Mvt.featureStep featureAllocs Mvt.Feature.empty (Prim.Reader.ofBytes sub)
     | _ => [])
  | .ok ((4, 2), r1) =>
    (match Prim.readPbfSub r1 with
     | .ok (sub, _) => loopAllocs Mvt.valueStep valueAllocs none (Prim.Reader.ofBytes sub)
     | _ => [])
  | _ => []

/-- `VectorTile::from_blob`: field (3, wire 2) = layer sub-message -/
def tileAllocs (_ : List Mvt.Layer) (r : Prim.Reader) : List Nat :=
  match Prim.readPbfKey r with
  | .ok ((3, 2), r1) =>
    (match Prim.readPbfSub r1 with
     | .ok (sub, _) => loopAllocs Mvt.layerStep layerAllocs Mvt.LayerSt.init (Prim.Reader.ofBytes sub)
     | _ => [])
  | _ => []

/-- all announced-length allocations of `VectorTile::from_blob(input)` -/
def mvtAllocs (input : Bytes) : List Nat := loopAllocs Mvt.tileStep tileAllocs [] (Prim.Reader.ofBytes input)

/-- the same with the reads as they were before 4706f789 (allocate first) — only the top of the
    trace is needed for the counterexample: tile → layer → name string -/
def mvtNameAllocOld (input : Bytes) : List Nat :=
  match Prim.readPbfKey (Prim.Reader.ofBytes input) with
  | .ok ((3, 2), r1) =>
    (match Prim.readPbfSub r1 with
     | .ok (sub, _) =>
       (match Prim.readPbfKey (Prim.Reader.ofBytes sub) with
        | .ok ((1, 2), r2) => (readPbfString true r2).allocs
        | _ => [])
     | _ => [])
  | _ => []

/-! ## positional reads (`Blob::read_range`, `DataReaderBlob::read_range`, `DataReaderFile::read_range`) -/

/-- BEFORE 7ce9b171, `DataReaderBlob` / `Blob`: `offset + length` unchecked, then the bounds test,
    then `Blob::from(&slice)` (allocates `length`) -/
def readRangeBlobOld (file : Bytes) (r : Fmt.Range) : Traced Bytes :=
  if r.off + r.len ≥ U64 then ⟨.panic, []⟩
  else if r.off + r.len > file.length then ⟨.err, []⟩
  else ⟨.ok ((file.drop r.off).take r.len), [r.len]⟩

/-- BEFORE 7ce9b171, `DataReaderFile`: `vec![0; length]` first, `read_exact_at` afterwards -/
def readRangeFileOld (file : Bytes) (r : Fmt.Range) : Traced Bytes :=
  if r.len > isizeMax then ⟨.panic, []⟩
  else if r.off + r.len > file.length then ⟨.err, [r.len]⟩
  else ⟨.ok ((file.drop r.off).take r.len), [r.len]⟩

/-- current code (all three): checked addition and bounds test before the allocation -/
def readRange (file : Bytes) (r : Fmt.Range) : Traced Bytes :=
  if r.off + r.len ≥ U64 then ⟨.err, []⟩
  else if r.off + r.len > file.length then ⟨.err, []⟩
  else ⟨.ok ((file.drop r.off).take r.len), [r.len]⟩

/-! ## `format_error` before a22a8569 -/

/-- `String::from_utf8(debug_snapshot).unwrap()`: panics when the ≤ 15-byte window is not UTF-8
    (`Prim.utf8Ok` = what `String::from_utf8` accepts, structurally recursive so that the
    counterexamples reduce by `decide`) -/
def formatErrorOld {α : Type} (it : Json.Iter) : Json.Res α :=
  if it.debug then
    if Prim.utf8Ok it.snapshot then .err else .panic "iterator.rs:71 String::from_utf8(debug_snapshot).unwrap()"
  else .err

/-- `expect_next_byte` at the end of the input, before a22a8569 (the shortest way into `format_error`) -/
def expectNextOld (it : Json.Iter) : Json.Res (UInt8 × Json.Iter) :=
  match it.rest with
  | [] => formatErrorOld it
  | b :: r => .ok (b, { it with pre := b :: it.pre, rest := r })

/-- the four bytes after `\u`, before a22a8569: `std::str::from_utf8(&hex).unwrap()` -/
def hexOld (h : Bytes) : Json.Res Nat :=
  if !Prim.utf8Ok h then .panic "basics.rs:40 std::str::from_utf8(&hex).unwrap()"
  else match Json.fromStrRadix16 h with
    | some v => .ok v
    | none => .err

/-! ## CSV (`utils/csv.rs`) -/

/-- `parse_quoted_csv_string` after the opening quote: `""` is an escaped quote, a single `"` ends the
    field; end of input inside the field is an error; finally `String::from_utf8` -/
def csvQuoted : Bytes → Bytes → Outcome (Bytes × Bytes)
  | [], _ => .err
  | b :: r, acc =>
    if b == 0x22 then
      match r with
      | c :: r' =>
        if c == 0x22 then csvQuoted r' (acc ++ [0x22])
        else if Prim.utf8Ok acc then .ok (acc, c :: r') else .err
      | [] => if Prim.utf8Ok acc then .ok (acc, []) else .err
    else csvQuoted r (acc ++ [b])

/-- `parse_simple_csv_string`: up to (not including) the separator, `\r`, `\n` or the end -/
def csvSimple (sep : UInt8) : Bytes → Bytes → Bytes × Bytes
  | [], acc => (acc, [])
  | b :: r, acc => if b == sep || b == 0x0d || b == 0x0a then (acc, b :: r) else csvSimple sep r (acc ++ [b])

/-- one field value (`match iter.peek()` in `read_csv_fields`) -/
def csvValue (sep : UInt8) (bs : Bytes) : Outcome (Bytes × Bytes) :=
  match bs with
  | [] => .ok ([], [])
  | b :: r =>
    if b == 0x22 then csvQuoted r []
    else
      let p := csvSimple sep bs []
      if Prim.utf8Ok p.1 then .ok p else .err

/-- what follows a field value (the inner `loop { match iter.consume() … }`) -/
inductive After where
  | sep (rest : Bytes)
  | eol (rest : Bytes)
  | eof
  | bad

def csvAfter (sep : UInt8) : Bytes → After
  | [] => .eof
  | b :: r => if b == 0x0d then csvAfter sep r else if b == 0x0a then .eol r else if b == sep then .sep r else .bad

/-- one call of the `from_fn` closure after `iter.peek()?`: the next record (`none` = iterator ended).
    `old = true`: `Some(_) => panic!()` (csv.rs:85 before 9978dff5); now an error. -/
def csvRecord (old : Bool) (sep : UInt8) : Nat → Bytes → List Bytes → Outcome (Option (List Bytes) × Bytes)
  | 0, _, _ => .err
  | fuel + 1, bs, fields =>
    match csvValue sep bs with
    | .ok (f, rest) =>
      let fields' := fields ++ [f]
      match csvAfter sep rest with
      | .sep r => csvRecord old sep fuel r fields'
      | .eol r => if fields' == [[]] then csvRecord old sep fuel r [] else .ok (some fields', r)
      | .eof => if fields' == [[]] then .ok (none, []) else .ok (some fields', [])
      | .bad => if old then .panic else .err
    | .err => .err
    | .panic => .panic

/-- `read_csv_iter(..)` consumed until the first error (as `helpers/csv.rs` and the harness do):
    all records must have as many fields as the first one; result = number of records -/
def csvLoop (old : Bool) (sep : UInt8) : Nat → Bytes → Option Nat → Nat → Outcome Nat
  | 0, _, _, _ => .err
  | fuel + 1, bs, width, count =>
    if bs.isEmpty then .ok count
    else
      match csvRecord old sep (bs.length + 2) bs [] with
      | .ok (none, _) => .ok count
      | .ok (some fs, rest) =>
        match width with
        | some w => if fs.length != w then .err else csvLoop old sep fuel rest width (count + 1)
        | none => csvLoop old sep fuel rest (some fs.length) (count + 1)
      | .err => .err
      | .panic => .panic

def csvRows (old : Bool) (sep : UInt8) (input : Bytes) : Outcome Nat :=
  csvLoop old sep (input.length + 2) input none 0

/-- `read_csv_file` (helpers/csv.rs:24-26): the header line; BEFORE 9978dff5 `iter.next().unwrap()`
    panicked on a file without any record -/
def csvHeader (old : Bool) (input : Bytes) : Outcome (List Bytes) :=
  if input.isEmpty then (if old then .panic else .err)
  else match csvRecord old 0x2c (input.length + 2) input [] with
    | .ok (some fs, _) => .ok fs
    | .ok (none, _) => if old then .panic else .err
    | .err => .err
    | .panic => .panic

/-! ## PMTiles directory: `Vec` growth of `EntriesV3::from_blob` -/

/-- size of `EntryV3` (u64 id, two u64 of the range, u32 run length, padding) -/
def entrySize : Nat := 32

/-- capacities a `Vec` goes through while `n` elements are pushed one by one (amortised doubling,
    first allocation 4 elements): the requests are `4·s, 8·s, …` up to the first capacity ≥ n -/
def vecGrowth (elem : Nat) : (fuel : Nat) → (cap : Nat) → (n : Nat) → List Nat
  | 0, _, _ => []
  | fuel + 1, cap, n => if n ≤ cap then [] else (2 * cap * elem) :: vecGrowth elem fuel (2 * cap) n

/-- allocation requests of `EntriesV3::from_blob`: only the entries actually read are pushed
    (`entries.push` after each successful `read_varint` of the id column) -/
def decDirAllocs (bs : Bytes) : List Nat :=
  match Fmt.readVarint bs with
  | .ok (n, r) =>
    if n > 10000000000 then []
    else
      -- number of ids that can be read = number of pushes
      let pushed := min n r.length
      if pushed = 0 then [] else (4 * entrySize) :: vecGrowth entrySize pushed 4 pushed
  | _ => []

/-! ## lookups through the block-tile-index cache (`versatiles/reader.rs:137-160, 200-215`)

`get_block_tile_index` is `cache.get(block)` or else load + decode + `ensure!(len == count)` +
`cache.add`; `get_tile_data` then indexes the returned vector unchecked (`*tile_index.get(tile_id)`,
tile_index.rs:105) with `tile_id < count` (the tile lies inside the block's box).  The cache is a
`LimitedCache` (C20); eviction only removes entries, so an association list without eviction carries
the invariant.  `validateFirst = false` is the order "add to the cache, then check" (a regression seeded
against this check): the first lookup still fails, the second one hits the unvalidated entry. -/

abbrev IdxCache := List (Nat × List Fmt.Range)

def IdxCache.find (c : IdxCache) (k : Nat) : Option (List Fmt.Range) :=
  match c with
  | [] => none
  | (k', idx) :: r => if k' == k then some idx else IdxCache.find r k

/-- `get_block_tile_index`; `load k` = read + brotli + `TileIndex::from_blob` + `add_offset` -/
def getIndex (validateFirst : Bool) (load : Nat → Outcome (List Fmt.Range)) (count : Nat → Nat)
    (c : IdxCache) (k : Nat) : Outcome (List Fmt.Range) × IdxCache :=
  match c.find k with
  | some idx => (.ok idx, c)
  | none =>
    match load k with
    | .ok idx =>
      if validateFirst then
        (if idx.length == count k then (.ok idx, (k, idx) :: c) else (.err, c))
      else
        (if idx.length == count k then (.ok idx, (k, idx) :: c) else (.err, (k, idx) :: c))
    | .err => (.err, c)
    | .panic => (.panic, c)

/-- the part of `get_tile_data` after the block was found: position `pos` of the block's index -/
def lookupTile (validateFirst : Bool) (load : Nat → Outcome (List Fmt.Range)) (count : Nat → Nat)
    (c : IdxCache) (k pos : Nat) : Outcome Fmt.Range × IdxCache :=
  match getIndex validateFirst load count c k with
  | (.ok idx, c') =>
    (match idx[pos]? with
     | some r => .ok r
     | none => .panic, c')                      -- `self.index[index]` out of bounds
  | (.err, c') => (.err, c')
  | (.panic, c') => (.panic, c')

/-- a sequence of lookups `(block, position)` on one reader; results in order -/
def lookupSeq (validateFirst : Bool) (load : Nat → Outcome (List Fmt.Range)) (count : Nat → Nat) :
    IdxCache → List (Nat × Nat) → List (Outcome Fmt.Range)
  | _, [] => []
  | c, (k, pos) :: rest =>
    let r := lookupTile validateFirst load count c k pos
    r.1 :: lookupSeq validateFirst load count r.2 rest

/-! ## coverage of a run of tile ids (`pmtiles/reader.rs` `include_run`, since 0189261d)

Within one zoom level `z` the ids are positions `0 ‥ 4^z − 1` on a Hilbert curve.  `include_run`
cuts the positions `pos ‥ pos + rem − 1` into blocks `(p, k)` of `4^k` consecutive positions with
`4^k ∣ p` (aligned) and adds the two corners of the `2^k × 2^k` square such a block covers.
(That an aligned block of the curve is an aligned square is a property of the Hilbert curve; it is
not proved here — C16/C03 compare the resulting coverage with independent decoders.) -/

/-- the `while k < z && pos % 4^(k+1) == 0 && 4^(k+1) <= limit { k += 1 }` loop -/
def blockExpGo (z pos limit : Nat) : Nat → Nat → Nat
  | 0, k => k
  | f + 1, k => if k < z ∧ pos % 4 ^ (k + 1) = 0 ∧ 4 ^ (k + 1) ≤ limit then blockExpGo z pos limit f (k + 1) else k

def blockExp (z pos limit : Nat) : Nat := blockExpGo z pos limit z 0

/-- the blocks `(start, k)` the walk visits for `rem` positions starting at `pos` (inside level `z`) -/
def runBlocks (z : Nat) : Nat → Nat → Nat → List (Nat × Nat)
  | 0, _, _ => []
  | f + 1, pos, rem =>
    if rem = 0 then []
    else
      let k := blockExp z pos rem
      (pos, k) :: runBlocks z f (pos + 4 ^ k) (rem - 4 ^ k)

/-! ## verdict protocol -/

def verdictO {α : Type} : Outcome α → String
  | .ok _ => "ok"
  | .err => "err"
  | .panic => "panic"

def verdictR {α : Type} : Json.Res α → String
  | .ok _ => "ok"
  | .err => "err"
  | .panic _ => "panic"
  | .fuel => "fuel"

/-- `JsonValue::parse_blob`: `std::str::from_utf8(blob)?` then `parse_json_str` -/
def jsonBlob (input : Bytes) : Json.Res (Json.JsonValue UInt64) :=
  if (Json.fromUtf8 input).isNone then .err else Json.parseBytes Json.bitsOps input

/-- `EntriesV3::find_tile` since 662fbb3f: the binary search of `PMTiles.searchLoop`, then
    `tile_id.wrapping_sub(entries[n].tile_id) < run_length` (before that commit the subtraction was
    unchecked and panicked on unsorted directories) -/
def findTile (l : List PMTiles.Entry) (id : Nat) : Outcome (Option PMTiles.Entry) :=
  let es := l.toArray
  match PMTiles.searchLoop es id (es.size + 1) 0 ((es.size : Int) - 1) with
  | .ok (.hit e) => .ok (some e)
  | .ok (.stop n) =>
    if n ≥ 0 then
      match es[n.toNat]? with
      | none => .panic
      | some e =>
        if e.run = 0 then .ok (some e)
        else if (id + U64 - e.id) % U64 < e.run then .ok (some e)
        else .ok none
    else .ok none
  | .err => .err
  | .panic => .panic

/-- `EntriesV3::from_blob` then `find_tile` for every probe id (`panic` if any lookup panics) -/
def pmFind (input : Bytes) (ids : List Nat) : Outcome Unit :=
  match PMTiles.decDir input with
  | .ok es =>
    if ids.any (fun id => match findTile es id with | .panic => true | _ => false) then .panic else .ok ()
  | .err => .err
  | .panic => .panic

/-- `TileJSON::try_from(&Blob)`: UTF-8 check, JSON parser, `to_object` (the document must be an object),
    `TileJSON::from_object` (w-json's `VtModel.TileJson.fromObject`, `none` = `Err`) -/
def tileJsonBlob (input : Bytes) : Json.Res Unit :=
  match jsonBlob input with
  | .ok (.obj o) => if (TileJson.fromObject TileJson.floatNum o).isSome then .ok () else .err
  | .ok _ => .err
  | .err => .err
  | .panic s => .panic s
  | .fuel => .fuel

/-- second decoding stage of a vector tile: `feature.decode_properties(layer)` for every feature of
    every layer (`PropertyManager::decode_tag_ids`: odd tag list, unknown key or value index → `Err`);
    `err` if any of them fails -/
def layerProps (l : Mvt.Layer) : List (Outcome Mvt.Props) := l.features.map fun f => Mvt.decodeTags l.keys l.vals f.tags

def mvtProps (input : Bytes) : Outcome Unit :=
  match Mvt.decodeTile input with
  | .ok t =>
    let rs := t.layers.flatMap layerProps
    if rs.any (fun r => match r with | .panic => true | _ => false) then .panic
    else if rs.any (fun r => match r with | .err => true | _ => false) then .err
    else .ok ()
  | .err => .err
  | .panic => .panic

def vplVerdict (input : Bytes) : String :=
  match String.fromUTF8? (ByteArray.mk input.toArray) with
  | none => "err"
  | some s =>
    match Vpl.parseVpl s.toList with
    | .ok _ => "ok"
    | .err => "err"
    | .oof => "oof"

def handle (args : List String) : String :=
  match args with
  | ep :: h :: rest =>
    match Prim.bytesOfHex h with
    | none => "bad-hex"
    | some bs =>
      match ep with
      | "json" => verdictR (jsonBlob bs)
      | "tilejson" => verdictR (tileJsonBlob bs)
      | "csv" => verdictO (csvRows false 0x2c bs)
      | "mvt" => verdictO (Mvt.decodeTile bs)
      | "mvtprops" => verdictO (mvtProps bs)
      | "pbfstr" => verdictO (pbfStrBlob false bs).out
      | "pmdir" => verdictO (PMTiles.decDir bs)
      | "pmfind" =>
        let ids := match rest with
          | [p] => (p.splitOn ",").filterMap (·.toNat?)
          | _ => []
        verdictO (pmFind bs ids)
      | "pmhdr" => verdictO (PMTiles.decHeader bs)
      | "vtblk" => verdictO (Versatiles.decBlockDef bs)
      | "vtbidx" => verdictO (Versatiles.decBlockIndex bs)
      | "vttidx" => verdictO (Versatiles.decTileIndex bs)
      | "vthdr" => verdictO (Versatiles.readHeader bs)
      | "vpl" => vplVerdict bs
      -- the pre-fix variants, for replaying the historical counterexamples
      | "csv-old" => verdictO (csvRows true 0x2c bs)
      | "pbfstr-old" => verdictO (pbfStrBlob true bs).out
      -- `C19 mvtalloc <hex>` → largest announced-length allocation of the decoder (0 if none)
      | "mvtalloc" => toString ((mvtAllocs bs).foldl max 0)
      | _ => "bad-op"
  | _ => "bad-op"

end VtModel.Decoders
