import VtModel.FmtBytes
import VtModel.BBox
import VtModel.Hilbert
/-!
Model of the PMTiles v3 container (`versatiles_container/src/container/pmtiles/**`).

* `Header`      – 127-byte little-endian header (`types/header_v3.rs`)
* `Entry`, `decDir`/`encDir` – directory (de)serialisation with varints, delta-coded ids and the
                  "0 = follows the previous entry" offset rule (`types/entries_v3.rs:34-75, 258-300`)
* `findTile`    – binary search + run length + leaf fall-through (`entries_v3.rs:103-131`)
* `asDirectory` – root / leaf split (`entries_v3.rs:142-205`)
* `Reader`      – `open_reader`, coverage walk, ≤ 3-level lookup (`reader.rs:80-240`)
* `write`       – `PMTilesWriter::write_to_writer` (`writer.rs:51-118`)

Hilbert tile ids are in `VtModel.Hilbert` (loop form as written + recursive specification).
Compression is external (`Inflate` for the reader, a function `enc` for the writer).
Panic sites of the dev profile are explicit `.panic`.
-/
namespace VtModel.PMTiles
open VtModel VtModel.Fmt

/-! ## header -/

/-- "PMTiles" -/
def magic : Bytes := [80, 77, 84, 105, 108, 101, 115]

/-- `HeaderV3`; `icomp`/`tcomp` are `PMTilesCompression` discriminants (0..4), `ttype` a `PMTilesType`
    discriminant (0..5) -/
structure Header where
  root : Range
  metaR : Range
  leaf : Range
  data : Range
  addressed : Nat
  entries : Nat
  contents : Nat
  clustered : Bool
  icomp : Nat
  tcomp : Nat
  ttype : Nat
  minz : Nat
  maxz : Nat
  minlon : Int
  minlat : Int
  maxlon : Int
  maxlat : Int
  cz : Nat
  clon : Int
  clat : Int
deriving Repr, DecidableEq

/-- `HeaderV3::serialize` -/
def encHeader (h : Header) : Bytes :=
  magic ++ (leEnc 1 3 ++ (leEnc 8 h.root.off ++ (leEnc 8 h.root.len ++ (leEnc 8 h.metaR.off ++ (leEnc 8 h.metaR.len ++
  (leEnc 8 h.leaf.off ++ (leEnc 8 h.leaf.len ++ (leEnc 8 h.data.off ++ (leEnc 8 h.data.len ++
  (leEnc 8 h.addressed ++ (leEnc 8 h.entries ++ (leEnc 8 h.contents ++
  (leEnc 1 (if h.clustered then 1 else 0) ++ (leEnc 1 h.icomp ++ (leEnc 1 h.tcomp ++ (leEnc 1 h.ttype ++
  (leEnc 1 h.minz ++ (leEnc 1 h.maxz ++
  (leEnc 4 (i32ToNat h.minlon) ++ (leEnc 4 (i32ToNat h.minlat) ++ (leEnc 4 (i32ToNat h.maxlon) ++ (leEnc 4 (i32ToNat h.maxlat) ++
  (leEnc 1 h.cz ++ (leEnc 4 (i32ToNat h.clon) ++ leEnc 4 (i32ToNat h.clat)))))))))))))))))))))))))

/-- `HeaderV3::deserialize` (header_v3.rs:103-137) -/
def decHeader (bs : Bytes) : Outcome Header := do
  ensure (bs.length == 127)
  let (m, r) ← takeN 7 bs
  ensure (m == magic)
  let (v, r) ← readLE 1 r
  ensure (v == 3)
  let (ro, r) ← readLE 8 r
  let (rl, r) ← readLE 8 r
  let (mo, r) ← readLE 8 r
  let (ml, r) ← readLE 8 r
  let (lo, r) ← readLE 8 r
  let (ll, r) ← readLE 8 r
  let (d_o, r) ← readLE 8 r
  let (dl, r) ← readLE 8 r
  let (ad, r) ← readLE 8 r
  let (en, r) ← readLE 8 r
  let (co, r) ← readLE 8 r
  let (cl, r) ← readLE 1 r
  let (ic, r) ← readLE 1 r
  ensure (decide (ic ≤ 4))
  let (tc, r) ← readLE 1 r
  ensure (decide (tc ≤ 4))
  let (tt, r) ← readLE 1 r
  ensure (decide (tt ≤ 5))
  let (minz, r) ← readLE 1 r
  let (maxz, r) ← readLE 1 r
  let (a, r) ← readI32LE r
  let (b, r) ← readI32LE r
  let (c, r) ← readI32LE r
  let (d, r) ← readI32LE r
  let (cz, r) ← readLE 1 r
  let (e, r) ← readI32LE r
  let (f, _) ← readI32LE r
  pure ⟨⟨ro, rl⟩, ⟨mo, ml⟩, ⟨lo, ll⟩, ⟨d_o, dl⟩, ad, en, co, cl == 1, ic, tc, tt, minz, maxz, a, b, c, d, cz, e, f⟩

/-- `PMTilesCompression::as_value` -/
def compOfCode (c : Nat) : Outcome TComp :=
  if c = 1 then .ok .none else if c = 2 then .ok .gzip else if c = 3 then .ok .brotli else .err

/-- `PMTilesCompression::from_value` -/
def compCode : TComp → Nat
  | .none => 1 | .gzip => 2 | .brotli => 3

/-- `PMTilesType::as_value` -/
def fmtOfType (t : Nat) : TileFormat :=
  if t = 1 then .pbf else if t = 2 then .png else if t = 3 then .jpg else if t = 4 then .webp
  else if t = 5 then .avif else .bin

/-- `PMTilesType::from_value(..).unwrap_or(UNKNOWN)` -/
def typeCode : TileFormat → Nat
  | .pbf => 1 | .png => 2 | .jpg => 3 | .webp => 4 | .avif => 5 | _ => 0

/-! ## directory -/

/-- `EntryV3` -/
structure Entry where
  id : Nat
  off : Nat
  len : Nat
  run : Nat
deriving Repr, DecidableEq, Inhabited

/-- the id loop of `from_blob`: `last_id.checked_add(diff)` (error on overflow since /repo 6ba9ed01) -/
def readIds : Nat → Nat → Bytes → Outcome (List Nat × Bytes)
  | 0, _, bs => .ok ([], bs)
  | n + 1, last, bs =>
    match readVarint bs with
    | .ok (d, r) =>
      if last + d ≥ U64 then .err
      else match readIds n (last + d) r with
        | .ok (ids, r') => .ok ((last + d) :: ids, r')
        | .err => .err
        | .panic => .panic
    | .err => .err
    | .panic => .panic

/-- one value of the offset column: `tmp == 0` (not first) → previous offset + previous length,
    otherwise `tmp - 1`; both checked (overflow / a leading 0 are errors since /repo 6ba9ed01) -/
def offOf (prev : Option (Nat × Nat)) (t : Nat) : Outcome Nat :=
  match prev, t with
  | some (po, pl), 0 => if po + pl ≥ U64 then .err else .ok (po + pl)
  | none, 0 => .err
  | _, t' + 1 => .ok t'

/-- the offset loop of `from_blob` -/
def readOffsets : (lens : List Nat) → (prev : Option (Nat × Nat)) → Bytes → Outcome (List Nat × Bytes)
  | [], _, bs => .ok ([], bs)
  | l :: ls, prev, bs =>
    match readVarint bs with
    | .ok (t, r) =>
      match offOf prev t with
      | .ok o =>
        match readOffsets ls (some (o, l)) r with
        | .ok (os, r') => .ok (o :: os, r')
        | .err => .err
        | .panic => .panic
      | .err => .err
      | .panic => .panic
    | .err => .err
    | .panic => .panic

def zipEntries : List Nat → List Nat → List Nat → List Nat → List Entry
  | i :: is, r :: rs, l :: ls, o :: os => ⟨i, o, l, r⟩ :: zipEntries is rs ls os
  | _, _, _, _ => []

/-- `EntriesV3::from_blob` (entries_v3.rs:34-75); `run_length = varint as u32` truncates -/
def decDir (bs : Bytes) : Outcome (List Entry) := do
  let (n, r) ← readVarint bs
  ensure (decide (n ≤ 10000000000))
  let (ids, r) ← readIds n 0 r
  let (runs, r) ← readVarints n r
  let (lens, r) ← readVarints n r
  let (offs, _) ← readOffsets lens none r
  pure (zipEntries ids (runs.map (· % U32)) lens offs)

/-- delta column of `serialize_entries`: `entry.tile_id - last_id` (unchecked) -/
def encIds : Nat → List Entry → Outcome Bytes
  | _, [] => .ok []
  | last, e :: es =>
    if e.id < last then .panic
    else match encIds e.id es with
      | .ok r => .ok (varintEnc (e.id - last) ++ r)
      | .err => .err
      | .panic => .panic

/-- one value of the offset column: 0 when the entry follows the previous one, else `offset + 1`
    (both additions unchecked) -/
def offVal (prev : Option Entry) (e : Entry) : Outcome Nat :=
  match prev with
  | some p =>
    if p.off + p.len ≥ U64 then .panic
    else if e.off = p.off + p.len then .ok 0
    else if e.off + 1 ≥ U64 then .panic else .ok (e.off + 1)
  | none => if e.off + 1 ≥ U64 then .panic else .ok (e.off + 1)

/-- offset column of `serialize_entries` -/
def encOffsets : Option Entry → List Entry → Outcome Bytes
  | _, [] => .ok []
  | prev, e :: es =>
    match offVal prev e with
    | .ok v =>
      match encOffsets (some e) es with
      | .ok r => .ok (varintEnc v ++ r)
      | .err => .err
      | .panic => .panic
    | .err => .err
    | .panic => .panic

/-- `EntriesSliceV3::serialize_entries` (entries_v3.rs:258-300) -/
def encDir (es : List Entry) : Outcome Bytes := do
  let ids ← encIds 0 es
  let offs ← encOffsets none es
  pure (varintEnc es.length ++ (ids ++ (varintsEnc (es.map (·.run)) ++ (varintsEnc (es.map (·.len)) ++ offs))))

/-! ## find_tile -/

/-- result of the binary-search loop: an exact hit or the final `n` -/
inductive Search where
  | hit (e : Entry)
  | stop (n : Int)

/-- the `while m <= n` loop (entries_v3.rs:107-116); `fuel` ≥ number of iterations (`len + 1` suffices) -/
def searchLoop (es : Array Entry) (id : Nat) : Nat → Int → Int → Outcome Search
  | 0, _, n => .ok (.stop n)
  | fuel + 1, m, n =>
    if m ≤ n then
      let k := (n + m) / 2
      match es[k.toNat]? with
      | none => .panic                                     -- index out of bounds
      | some e =>
        if k < 0 then .panic
        else if id > e.id then searchLoop es id fuel (k + 1) n
        else if id < e.id then searchLoop es id fuel m (k - 1)
        else .ok (.hit e)
    else .ok (.stop n)

/-- `u64::wrapping_sub` for `a, b < 2^64` -/
def wrappingSub (a b : Nat) : Nat := if b ≤ a then a - b else a + U64 - b

/-- `EntriesV3::find_tile` -/
def findTile (l : List Entry) (id : Nat) : Outcome (Option Entry) :=
  let es := l.toArray
  match searchLoop es id (es.size + 1) 0 ((es.size : Int) - 1) with
  | .ok (.hit e) => .ok (some e)
  | .ok (.stop n) =>
    if n ≥ 0 then
      match es[n.toNat]? with
      | none => .panic
      | some e =>
        if e.run = 0 then .ok (some e)
        -- `tile_id.wrapping_sub(entries[n].tile_id)` (an unchecked `-` before /repo 662fbb3f)
        else if wrappingSub id e.id < e.run then .ok (some e)
        else .ok none
    else .ok none
  | .err => .err
  | .panic => .panic

/-! ## root / leaf split -/

def insertSorted (e : Entry) : List Entry → List Entry
  | [] => [e]
  | x :: xs => if e.id < x.id then e :: x :: xs else x :: insertSorted e xs

/-- stable sort by tile id (`sort_by_cached_key`) -/
def sortEntries (l : List Entry) : List Entry := l.foldr insertSorted []

/-- faster stable sort for the driver; equal to `sortEntries` on the inputs of the protocol
    (merge sort is stable) -/
def sortEntriesFast (l : List Entry) : List Entry := l.mergeSort (fun a b => a.id ≤ b.id)

/-- `build_roots_leaves` (entries_v3.rs:168-201): the root entries and the leaf bytes -/
def buildLeaves (enc : Bytes → Bytes) (leafSize : Nat) : (fuel : Nat) → List Entry → Nat → Outcome (List Entry × Bytes)
  | 0, _, _ => .ok ([], [])
  | fuel + 1, es, pos =>
    match es with
    | [] => .ok ([], [])
    | e :: _ =>
      match encDir (es.take leafSize) with
      | .ok raw =>
        let ser := enc raw
        match buildLeaves enc leafSize fuel (es.drop leafSize) (pos + ser.length) with
        | .ok (roots, bytes) => .ok (⟨e.id, pos, ser.length, 0⟩ :: roots, ser ++ bytes)
        | .err => .err
        | .panic => .panic
      | .err => .err
      | .panic => .panic

def buildRootsLeaves (enc : Bytes → Bytes) (leafSize : Nat) (es : List Entry) : Outcome (Bytes × Bytes) :=
  if leafSize = 0 then .panic            -- the Rust loop would not terminate; unreachable (leaf_size ≥ 4096)
  else
    match buildLeaves enc leafSize (es.length + 1) es 0 with
    | .ok (roots, leaves) =>
      match encDir roots with
      | .ok r => .ok (enc r, leaves)
      | .err => .err
      | .panic => .panic
    | .err => .err
    | .panic => .panic

/-- the `f32` sequence `leaf_size`, `leaf_size * 1.2`, … as `usize` -/
def leafSizes (n : Nat) : Nat → Float32 → List Nat
  | 0, _ => []
  | k + 1, f => f.toUInt64.toNat :: leafSizes n k (f * 1.2)

def initialLeafSize (n : Nat) : Float32 :=
  let a := Float32.ofNat n / 3500
  if a < 4096 then 4096 else a

/-- `EntriesV3::as_directory(target_root_len, compression)` (entries_v3.rs:142-166).  The growth loop
    is bounded by 200 rounds in the model (1.2^200 exceeds every entry count). -/
def asDirectory (enc : Bytes → Bytes) (target : Nat) (l : List Entry) : Outcome (Bytes × Bytes) :=
  let es := sortEntriesFast l
  let small : Outcome (Option Bytes) :=
    if es.length < 16384 then
      match encDir es with
      | .ok raw => let root := enc raw; if root.length ≤ target then .ok (some root) else .ok none
      | .err => .err
      | .panic => .panic
    else .ok none
  match small with
  | .ok (some root) => .ok (root, [])
  | .ok none =>
    let rec go : List Nat → Outcome (Bytes × Bytes)
      | [] => .panic
      | ls :: rest =>
        match buildRootsLeaves enc ls es with
        | .ok (root, leaves) => if root.length ≤ target then .ok (root, leaves) else go rest
        | .err => .err
        | .panic => .panic
    go (leafSizes es.length 200 (initialLeafSize es.length))
  | .err => .err
  | .panic => .panic

/-! ## reader -/

structure Reader where
  file : Bytes
  header : Header
  icomp : TComp
  root : Bytes            -- `root_bytes_uncompressed`
  leaves : Bytes          -- `leaves_bytes`
  K : Inflate
  cover : List BBox

/-- per-level bounding boxes, as 32 optional boxes -/
abbrev Cover := List (Option BBox)

def Cover.empty : Cover := List.replicate 32 none

/-- `bbox_pyramid.include_coord` -/
def Cover.add (c : Cover) (x y z : Nat) : Cover :=
  match c[z]? with
  | none => c
  | some none => c.set z (some ⟨z, x, y, x, y⟩)
  | some (some b) => c.set z (some ⟨z, min b.xmin x, min b.ymin y, max b.xmax x, max b.ymax y⟩)

/-- coverage of one run `[id, id + run_length)` in `parse_directories`.  Specification form: every tile id
    of the run is decoded and included (this was the literal `for i in 0..run_length` loop until /repo
    0189261d; since then `include_run` cuts the run into aligned blocks of 4^k Hilbert ids and includes the two
    corners of each block's square — the same per-level bounding boxes and the same errors: id overflow and
    ids beyond level 31 are `Err`).  The model is evaluated tile by tile, so the driver is only fed runs of
    moderate length. -/
def coverRun (c : Cover) (id : Nat) : Nat → Outcome Cover
  | 0 => .ok c
  | n + 1 =>
    match coverRun c id n with
    | .ok c' =>
      if n + id ≥ U64 then .err                            -- `i.checked_add(entry.tile_id)`
      else match Hilbert.tileIdToCoordLoop (n + id) with
        | .ok (x, y, z) => .ok (c'.add x y z)
        | .err => .err
        | .panic => .panic
    | .err => .err
    | .panic => .panic

mutual
/-- `parse_directories` (reader.rs:127-156): recursion over leaf pointers, `ensure!(depth < 3)`
    (`fuel = 3 - depth`; the recursion was unbounded before /repo 662fbb3f). -/
def coverDir (K : Inflate) (ic : TComp) (leaves : Bytes) : (fuel : Nat) → Cover → Bytes → Outcome Cover
  | 0, _, _ => .err
  | fuel + 1, c, dir =>
    match decDir dir with
    | .ok es => coverEntries K ic leaves fuel c es
    | .err => .err
    | .panic => .panic
def coverEntries (K : Inflate) (ic : TComp) (leaves : Bytes) : (fuel : Nat) → Cover → List Entry → Outcome Cover
  | _, c, [] => .ok c
  | fuel, c, e :: es =>
    let step : Outcome Cover :=
      if e.len > 0 then
        if e.run > 0 then coverRun c e.id e.run
        else
          match readRange leaves ⟨e.off, e.len⟩ with
          | .ok blob =>
            match K.run ic blob with
            | .ok raw => coverDir K ic leaves fuel c raw
            | .err => .err
            | .panic => .panic
          | .err => .err
          | .panic => .panic
      else .ok c
    match step with
    | .ok c' => coverEntries K ic leaves fuel c' es
    | .err => .err
    | .panic => .panic
end

/-- `PMTilesReader::open_reader` (reader.rs:80-117) -/
def openReader (K : Inflate) (file : Bytes) : Outcome Reader := do
  let hb ← readRange file ⟨0, 127⟩
  let h ← decHeader hb
  let ic ← compOfCode h.icomp
  let m ← readRange file h.metaR
  let _ ← K.run ic m
  let rootc ← readRange file h.root
  let root ← K.run ic rootc
  let leaves ← readRange file h.leaf
  let cov ← coverDir K ic leaves 3 Cover.empty root
  let _ ← compOfCode h.tcomp
  pure ⟨file, h, ic, root, leaves, K, cov.filterMap id⟩

/-- the `for _depth in 0..3` loop of `get_tile_data` (reader.rs:196-232) -/
def lookupLoop (r : Reader) (id : Nat) : Nat → Bytes → Outcome (Option Bytes)
  | 0, _ => .err                                          -- `bail!("not found")`
  | depth + 1, dir =>
    match decDir dir with
    | .ok es =>
      match findTile es id with
      | .ok none => .ok none
      | .ok (some e) =>
        if e.len > 0 then
          if e.run > 0 then
            if e.off + r.header.data.off ≥ U64 then .err     -- `offset.checked_add(tile_data.offset)`
            else match readRange r.file ⟨e.off + r.header.data.off, e.len⟩ with
              | .ok b => .ok (some b)
              | .err => .err
              | .panic => .panic
          else
            match readRange r.leaves ⟨e.off, e.len⟩ with
            | .ok blob =>
              match r.K.run r.icomp blob with
              | .ok raw => lookupLoop r id depth raw
              | .err => .err
              | .panic => .panic
            | .err => .err
            | .panic => .panic
        else .ok none
      | .err => .err
      | .panic => .panic
    | .err => .err
    | .panic => .panic

/-- `get_tile_data` -/
def getTile (r : Reader) (x y z : Nat) : Outcome (Option Bytes) :=
  match Hilbert.coordToTileIdLoop x y z with
  | .ok id => lookupLoop r id 3 r.root
  | .err => .err
  | .panic => .panic

/-! ## writer -/

abbrev Tile := (Nat × Nat × Nat) × Bytes

/-- the cells of `iter_bbox_grid(256)` (same as in the versatiles writer) -/
def grid256 (b : BBox) : List BBox :=
  (List.range' (b.ymin / 256) (b.ymax / 256 + 1 - b.ymin / 256)).flatMap fun by_ =>
    (List.range' (b.xmin / 256) (b.xmax / 256 + 1 - b.xmin / 256)).map fun bx =>
      ⟨b.level, max b.xmin (bx * 256), max b.ymin (by_ * 256), min b.xmax (bx * 256 + 255), min b.ymax (by_ * 256 + 255)⟩

/-- tile data section: entries (offsets relative to its start) and bytes, in stream order -/
def putTiles : Nat → List Tile → Outcome (List Entry × Bytes)
  | _, [] => .ok ([], [])
  | pos, t :: ts =>
    match Hilbert.coordToTileIdLoop t.1.1 t.1.2.1 t.1.2.2 with
    | .ok id =>
      match putTiles (pos + t.2.length) ts with
      | .ok (es, bs) => .ok (⟨id, pos, t.2.length, 1⟩ :: es, t.2 ++ bs)
      | .err => .err
      | .panic => .panic
    | _ => .panic                                           -- `get_tile_id().unwrap()`

structure Source where
  fmt : TileFormat
  comp : TComp
  minlon : Int
  minlat : Int
  maxlon : Int
  maxlat : Int
  cz : Nat
  clon : Int
  clat : Int
  /-- stored (gzip) metadata -/
  metaB : Bytes
  levels : List BBox
  stream : BBox → List Tile

/-- overwrite / extend `file` at position `pos` (a `Cursor<Vec<u8>>` / sparse file: gaps are zeros) -/
def writeAt (file : Bytes) (pos : Nat) (b : Bytes) : Bytes :=
  let f := if file.length < pos then file ++ List.replicate (pos - file.length) 0 else file
  f.take pos ++ b ++ f.drop (pos + b.length)

def blockKey (b : BBox) : Nat :=
  match Hilbert.coordToTileIdLoop b.xmin b.ymin b.level with
  | .ok id => id
  | _ => 0

/-- the final header (writer.rs:64, 100-113) -/
def mkHeader (s : Source) (rootLen leavesLen dataLen n : Nat) : Header := {
  root := ⟨127, rootLen⟩, metaR := ⟨16384, s.metaB.length⟩,
  leaf := ⟨16384 + s.metaB.length + dataLen, leavesLen⟩,
  data := ⟨16384 + s.metaB.length, dataLen⟩, addressed := n, entries := n,
  contents := n, clustered := true, icomp := 2, tcomp := compCode s.comp,
  ttype := typeCode s.fmt,
  minz := (s.levels.head?.map (·.level)).getD 0, maxz := (s.levels.getLast?.map (·.level)).getD 14,
  minlon := s.minlon, minlat := s.minlat, maxlon := s.maxlon, maxlat := s.maxlat,
  cz := s.cz, clon := s.clon, clat := s.clat }

/-- `PMTilesWriter::write_to_writer` (writer.rs:51-118); `enc` = gzip (internal compression) -/
def write (enc : Bytes → Bytes) (s : Source) : Outcome Bytes :=
  let blocks := (s.levels.flatMap grid256).mergeSort (fun a b => blockKey a ≤ blockKey b)
  -- `ensure!(!pyramid.is_empty())` (since /repo b8770d83; before, `get_geo_bbox().unwrap()` panicked)
  if s.levels.isEmpty then .err
  else if blocks.any (fun b => match Hilbert.coordToTileIdLoop b.xmin b.ymin b.level with | .ok _ => false | _ => true) then .panic
  else
    let dataStart := 16384 + s.metaB.length
    match putTiles 0 (blocks.flatMap s.stream) with
    | .ok (entries, data) =>
      match asDirectory enc (16384 - 127) entries with
      | .ok (root, leaves) =>
        let dataEnd := dataStart + data.length
        let h := mkHeader s root.length leaves.length data.length entries.length
        let f := writeAt [] 16384 s.metaB
        let f := writeAt f dataStart data
        let f := writeAt f 127 root
        let f := writeAt f dataEnd leaves
        .ok (writeAt f 0 (encHeader h))
      | .err => .err
      | .panic => .panic
    | .err => .err
    | .panic => .panic

/-! ## line protocol (harness/src/formats_protocol.txt) -/

def showEntry (e : Entry) : String := s!"{e.id}:{e.off}:{e.len}:{e.run}"

def parseEntry (s : String) : Option Entry :=
  match s.splitOn ":" with
  | [a, b, c, d] => do
    let a ← a.toNat?
    let b ← b.toNat?
    let c ← c.toNat?
    let d ← d.toNat?
    pure ⟨a, b, c, d⟩
  | _ => none

def parseEntries (toks : List String) : Option (List Entry × List String) := do
  let (gs, rest) ← takeCounted 1 toks
  let es ← gs.mapM fun g => match g with
    | [e] => parseEntry e
    | _ => none
  pure (es, rest)

def showO {α} (f : α → String) : Outcome α → String
  | .ok a => f a
  | .err => "err"
  | .panic => "panic"

def showHeader (h : Header) : String :=
  " ".intercalate (["ok"] ++ [h.root.off, h.root.len, h.metaR.off, h.metaR.len, h.leaf.off, h.leaf.len, h.data.off, h.data.len,
    h.addressed, h.entries, h.contents, (if h.clustered then 1 else 0), h.icomp, h.tcomp, h.ttype, h.minz, h.maxz].map toString
    ++ [showInt h.minlon, showInt h.minlat, showInt h.maxlon, showInt h.maxlat, toString h.cz, showInt h.clon, showInt h.clat])

def parseHeader (t : List String) : Option Header :=
  match t with
  | [ro, rl, mo, ml, lo, ll, d_o, dl, ad, en, co, cl, ic, tc, tt, minz, maxz, a, b, c, d, cz, e, f] => do
    pure ⟨⟨← ro.toNat?, ← rl.toNat?⟩, ⟨← mo.toNat?, ← ml.toNat?⟩, ⟨← lo.toNat?, ← ll.toNat?⟩, ⟨← d_o.toNat?, ← dl.toNat?⟩,
      ← ad.toNat?, ← en.toNat?, ← co.toNat?, (← cl.toNat?) == 1, ← ic.toNat?, ← tc.toNat?, ← tt.toNat?, ← minz.toNat?, ← maxz.toNat?,
      ← parseInt a, ← parseInt b, ← parseInt c, ← parseInt d, ← cz.toNat?, ← parseInt e, ← parseInt f⟩
  | _ => none

def showCover (l : List BBox) : String :=
  " ".intercalate (s!"cov {l.length}" :: l.map BBox.render)

def parseBox (s : String) : Option BBox :=
  match s.splitOn ":" with
  | [z, r] => match r.splitOn "," with
    | [a, b, c, d] => do
      pure ⟨← z.toNat?, ← a.toNat?, ← b.toNat?, ← c.toNat?, ← d.toNat?⟩
    | _ => none
  | _ => none

def parseLevels (toks : List String) : Option (List BBox × List String) := do
  let (gs, rest) ← takeCounted 1 toks
  let bs ← gs.mapM fun g => match g with
    | [b] => parseBox b
    | _ => none
  pure (bs, rest)

def parseTiles (toks : List String) : Option (List Tile × List String) := do
  let (gs, rest) ← takeCounted 4 toks
  let ts ← gs.mapM fun g => match g with
    | [z, x, y, h] => do
      pure (((← x.toNat?, ← y.toNat?, ← z.toNat?), ← unhex h) : Tile)
    | _ => none
  pure (ts, rest)

def memStream (tiles : List Tile) (b : BBox) : List Tile :=
  b.iterCoords.filterMap fun (x, y) => tiles.find? (fun t => t.1 == (x, y, b.level))

def handleReader (args : List String) : Option String := do
  match args with
  | fileHex :: rest =>
    let file ← unhex fileHex
    let (tab, rest) ← parseTable rest
    let (qs, _) ← parseQueries rest
    match openReader (Inflate.ofTable tab) file with
    | .ok r =>
      let look := qs.map fun (x, y, z) => showLookup (getTile r x y z)
      let comp := match compOfCode r.header.tcomp with | .ok c => c.name | _ => "?"
      pure (" ".intercalate (["ok", (fmtOfType r.header.ttype).name, comp, showCover r.cover, "q"] ++ look))
    | .err => pure "err"
    | .panic => pure "panic"
  | _ => none

def handleWriter (args : List String) : Option String := do
  match args with
  | tt :: tc :: a :: b :: c :: d :: cz :: e :: f :: m :: rest =>
    let tt ← tt.toNat?
    let comp ← match compOfCode (← tc.toNat?) with | .ok c => some c | _ => none
    let (levels, rest) ← parseLevels rest
    let (tiles, rest) ← parseTiles rest
    let (tab, _) ← parseTable rest
    let fmt := fmtOfType tt
    let src : Source := ⟨fmt, comp, ← parseInt a, ← parseInt b, ← parseInt c, ← parseInt d, ← cz.toNat?, ← parseInt e, ← parseInt f,
      ← unhex m, levels, memStream tiles⟩
    match write tab.app src with
    | .ok file =>
      -- a tile type the header cannot express is written as UNKNOWN(0); keep the given discriminant
      pure s!"ok {file.length} {hex64 (fnv64 file)} {hex (file.take 127)}"
    | .err => pure "err"
    | .panic => pure "panic"
  | _ => none

def handleCodec (stream : String) (args : List String) : Option String := do
  match stream, args with
  | "PMH", ["dec", h] =>
    let b ← unhex h
    pure (showO showHeader (decHeader b))
  | "PMH", "enc" :: rest =>
    let h ← parseHeader rest
    pure (hex (encHeader h))
  | "PMD", ["dec", h] =>
    let b ← unhex h
    pure (showO (fun l => " ".intercalate (s!"ok {l.length}" :: l.map showEntry)) (decDir b))
  | "PMD", "enc" :: rest =>
    let (es, _) ← parseEntries rest
    pure (showO hex (encDir es))
  | "PMF", id :: rest =>
    let id ← id.toNat?
    let (es, _) ← parseEntries rest
    pure (match findTile es id with
      | .ok (some e) => "some " ++ showEntry e
      | .ok none => "none"
      | .err => "err"
      | .panic => "panic")
  | "PMS", target :: rest =>
    let target ← target.toNat?
    let (es, _) ← parseEntries rest
    pure (showO (fun (p : Bytes × Bytes) => s!"ok {hex p.1} {hex p.2}") (asDirectory id target es))
  | _, _ => none

def handle (stream : String) (args : List String) : String :=
  let r := match stream with
    | "C16p" => handleReader args
    | "C01p" => handleWriter args
    | _ => handleCodec stream args
  r.getD "bad-op"

end VtModel.PMTiles
