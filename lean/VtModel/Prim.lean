import VtModel.Basic
/-!
Byte-level primitives: model of `versatiles_core/src/io/value_reader.rs`,
`value_reader_slice.rs` (`ValueReaderSlice`, the only reader the vector-tile code uses),
`value_writer.rs`, `value_writer_blob.rs`.

* bytes are `List UInt8`;
* a reader (`Cursor<&[u8]>` + `len`) is `Reader = {pos, rest}`: `pos` bytes of the slice are
  consumed, `rest` is what is left (`len = pos + rest.length`); a sub-reader starts at `pos = 0`;
* Rust sites that can panic in the dev profile are explicit `Outcome.panic`s; since the length guards of
  `fix:` 4706f789 (`checked_add` in `get_sub_reader`, `ensure!(length <= remaining)` in `read_string` /
  `read_blob`) the primitives themselves have none left – `VtProps.C19` proves that;
* two's-complement expressions are modelled by their arithmetic meaning
  (`x >> 1` on `u64` = `/ 2`, `x ^ -(b)` with `b ∈ {0,1}` = conditional complement `-x-1`,
  `as i64` = wrap at 2^63, `as u32` = `% 2^32`); the correspondence stream `C11p` runs the real
  functions on boundary values of exactly these expressions.
-/
namespace VtModel.Prim
open VtModel

abbrev Bytes := List UInt8

/-! ### hex (line protocol) -/

def hexDigit (n : Nat) : Char :=
  if n < 10 then Char.ofNat (48 + n) else Char.ofNat (87 + n)

def hexOfBytes (b : Bytes) : String :=
  if b.isEmpty then "-" else
  String.ofList (b.flatMap (fun x => [hexDigit (x.toNat / 16), hexDigit (x.toNat % 16)]))

def hexVal (c : Char) : Option Nat :=
  if '0' ≤ c ∧ c ≤ '9' then some (c.toNat - 48)
  else if 'a' ≤ c ∧ c ≤ 'f' then some (c.toNat - 87)
  else none

def bytesOfHexChars : List Char → Option Bytes
  | [] => some []
  | [_] => none
  | a :: b :: t => do
    let x ← hexVal a
    let y ← hexVal b
    let r ← bytesOfHexChars t
    pure (UInt8.ofNat (x * 16 + y) :: r)

def bytesOfHex (s : String) : Option Bytes :=
  if s == "-" then some [] else bytesOfHexChars s.toList

/-! ### reader -/

structure Reader where
  pos : Nat
  rest : Bytes
deriving Repr, DecidableEq

def Reader.ofBytes (b : Bytes) : Reader := ⟨0, b⟩

/-- `read_u8`: `Err` at the end of the slice. -/
def readU8 (r : Reader) : Outcome (UInt8 × Reader) :=
  match r.rest with
  | [] => .err
  | b :: t => .ok (b, ⟨r.pos + 1, t⟩)

/-- the loop of `read_varint` (value_reader.rs:60-75): `value |= ((byte & 0x7F) as u64) << shift`
    (bits shifted beyond bit 63 are dropped), stop at a byte without continuation bit,
    `shift += 7; if shift >= 70 { bail }`. -/
def readVarintAux : Bytes → (pos value shift : Nat) → Outcome (Nat × Reader)
  | [], _, _, _ => .err
  | b :: t, pos, value, shift =>
    let value' := value ||| (((b.toNat % 128) <<< shift) % U64)
    if b.toNat < 128 then .ok (value', ⟨pos + 1, t⟩)
    else if shift + 7 ≥ 70 then .err
    else readVarintAux t (pos + 1) value' (shift + 7)

def readVarint (r : Reader) : Outcome (Nat × Reader) := readVarintAux r.rest r.pos 0 0

/-- `write_varint` (value_writer.rs:71-78), argument is a `u64`. -/
def writeVarint (n : Nat) : Bytes :=
  if n < 128 then [UInt8.ofNat n] else UInt8.ofNat (n % 128 + 128) :: writeVarint (n / 128)
termination_by n
decreasing_by omega

/-- `v as i64` for a `u64`. -/
def asI64 (v : Nat) : Int := if v < 2 ^ 63 then (v : Int) else (v : Int) - (U64 : Int)

/-- `i as u64` for an `i64`. -/
def asU64 (i : Int) : Nat := if 0 ≤ i then i.toNat else (i + (U64 : Int)).toNat

/-- zig-zag decoding as repaired (`fix:` commit e0a5fcc4):
    `((value >> 1) as i64) ^ -((value & 1) as i64)` on the unsigned value. -/
def zigzagDecode (v : Nat) : Int :=
  if v % 2 = 0 then ((v / 2 : Nat) : Int) else -((v / 2 : Nat) : Int) - 1

/-- zig-zag decoding as it was before the repair (value_reader.rs:76-79 at 7d3a3633):
    `let s = v as i64; (s >> 1) ^ -(s & 1)` – arithmetic shift of the signed value. -/
def zigzagDecodeOld (v : Nat) : Int :=
  let s := asI64 v
  if s % 2 = 0 then s / 2 else -(s / 2) - 1

/-- `write_svarint`: `((value << 1) ^ (value >> 63)) as u64` for an `i64`. -/
def zigzagEncode (i : Int) : Nat :=
  if 0 ≤ i then (2 * i).toNat else (-2 * i - 1).toNat

def readSVarint (r : Reader) : Outcome (Int × Reader) :=
  match readVarint r with
  | .ok (v, r') => .ok (zigzagDecode v, r')
  | .err => .err
  | .panic => .panic

def writeSVarint (i : Int) : Bytes := writeVarint (zigzagEncode i)

/-- `read_pbf_key`: `((value >> 3) as u32, (value & 7) as u8)` -/
def readPbfKey (r : Reader) : Outcome ((Nat × Nat) × Reader) :=
  match readVarint r with
  | .ok (v, r') => .ok (((v / 8) % U32, v % 8), r')
  | .err => .err
  | .panic => .panic

/-- `write_pbf_key(field, wire)`; all callers pass constants with `wire < 8`. -/
def writePbfKey (f w : Nat) : Bytes := writeVarint (f * 8 + w)

/-- `get_sub_reader(length)` (value_reader_slice.rs, after `fix:` 4706f789): `start.checked_add(length)`
    – overflow or an end beyond the slice → `Err`. Returns the sub-slice and the advanced parent
    reader.  (Before that commit the addition was unchecked: a panic in the dev profile, defect F13.) -/
def subReader (r : Reader) (n : Nat) : Outcome (Bytes × Reader) :=
  if r.pos + n ≥ U64 then .err
  else if n > r.rest.length then .err
  else .ok (r.rest.take n, ⟨r.pos + n, r.rest.drop n⟩)

/-- `get_pbf_sub_reader` -/
def readPbfSub (r : Reader) : Outcome (Bytes × Reader) :=
  match readVarint r with
  | .ok (n, r') => subReader r' n
  | .err => .err
  | .panic => .panic

/-- `read_blob(length)` / the byte part of `read_string(length)` (value_reader.rs, after `fix:`
    4706f789): `ensure!(length <= self.remaining())` before anything is allocated, then `read_exact`.
    (Before that commit the announced length was allocated first: capacity-overflow panic or
    allocator abort for huge lengths, defect F13.) -/
def readBytes (r : Reader) (n : Nat) : Outcome (Bytes × Reader) :=
  if n > r.rest.length then .err
  else .ok (r.rest.take n, ⟨r.pos + n, r.rest.drop n⟩)

/-! UTF-8 well-formedness (Unicode 15, table 3-7) – what `String::from_utf8` accepts. -/
def utf8Ok : Bytes → Bool
  | [] => true
  | b0 :: t =>
    let a := b0.toNat
    if a < 0x80 then utf8Ok t
    else if 0xC2 ≤ a ∧ a ≤ 0xDF then
      match t with
      | b1 :: t1 => (0x80 ≤ b1.toNat ∧ b1.toNat ≤ 0xBF) && utf8Ok t1
      | _ => false
    else if 0xE0 ≤ a ∧ a ≤ 0xEF then
      match t with
      | b1 :: b2 :: t2 =>
        let lo := if a = 0xE0 then 0xA0 else 0x80
        let hi := if a = 0xED then 0x9F else 0xBF
        (lo ≤ b1.toNat ∧ b1.toNat ≤ hi) && (0x80 ≤ b2.toNat ∧ b2.toNat ≤ 0xBF) && utf8Ok t2
      | _ => false
    else if 0xF0 ≤ a ∧ a ≤ 0xF4 then
      match t with
      | b1 :: b2 :: b3 :: t3 =>
        let lo := if a = 0xF0 then 0x90 else 0x80
        let hi := if a = 0xF4 then 0x8F else 0xBF
        (lo ≤ b1.toNat ∧ b1.toNat ≤ hi) && (0x80 ≤ b2.toNat ∧ b2.toNat ≤ 0xBF)
          && (0x80 ≤ b3.toNat ∧ b3.toNat ≤ 0xBF) && utf8Ok t3
      | _ => false
    else false

/-- `read_string(length)`: bytes, then `String::from_utf8(vec)?` -/
def readString (r : Reader) (n : Nat) : Outcome (Bytes × Reader) :=
  match readBytes r n with
  | .ok (s, r') => if utf8Ok s then .ok (s, r') else .err
  | .err => .err
  | .panic => .panic

/-- `read_pbf_string` -/
def readPbfString (r : Reader) : Outcome (Bytes × Reader) :=
  match readVarint r with
  | .ok (n, r') => readString r' n
  | .err => .err
  | .panic => .panic

/-- `read_pbf_blob` -/
def readPbfBlob (r : Reader) : Outcome (Bytes × Reader) :=
  match readVarint r with
  | .ok (n, r') => readBytes r' n
  | .err => .err
  | .panic => .panic

/-- `read_f32` / `read_f64`: `read_exact` of 4 / 8 bytes (the payload stays opaque bytes). -/
def readFixed (k : Nat) (r : Reader) : Outcome (Bytes × Reader) :=
  if k > r.rest.length then .err
  else .ok (r.rest.take k, ⟨r.pos + k, r.rest.drop k⟩)

/-! ### generic `while reader.has_remaining() { … }` loop

Every PBF message reader in the code base has this shape.  `step` consumes at least the key
byte; the run-time progress test makes the recursion well-founded without a proof obligation on
`step` (it never fires: `VtProofs.Prim.readVarint_progress`). -/
def whileRem {σ : Type} (step : σ → Reader → Outcome (σ × Reader)) (s : σ) (r : Reader) : Outcome σ :=
  if r.rest.isEmpty then .ok s else
  match step s r with
  | .ok (s', r') =>
    if r'.rest.length < r.rest.length then whileRem step s' r' else .panic
  | .err => .err
  | .panic => .panic
termination_by r.rest.length

/-- body of `read_pbf_packed_uint32`: `while has_remaining { push(read_varint()? as u32) }` -/
def packedStep (acc : List Nat) (r : Reader) : Outcome (List Nat × Reader) :=
  match readVarint r with
  | .ok (v, r') => .ok (acc ++ [v % U32], r')
  | .err => .err
  | .panic => .panic

def readPackedU32 (r : Reader) : Outcome (List Nat × Reader) :=
  match readPbfSub r with
  | .ok (sub, r') =>
    match whileRem packedStep [] (Reader.ofBytes sub) with
    | .ok l => .ok (l, r')
    | .err => .err
    | .panic => .panic
  | .err => .err
  | .panic => .panic

/-! ### writer -/

/-- `write_pbf_blob` / `write_pbf_string`: length varint + bytes -/
def writePbfBlob (b : Bytes) : Bytes := writeVarint b.length ++ b

/-- `write_pbf_packed_uint32` -/
def writePackedU32 (l : List Nat) : Bytes := writePbfBlob (l.flatMap writeVarint)

/-! ### line protocol `C11p <op> <arg>`

* `wv <n>`   → hex of `write_varint(n)`
* `ws <i>`   → hex of `write_svarint(i)`
* `rv <hex>` → `<value> <consumed>` | `err`     (`read_varint`)
* `rs <hex>` → `<value> <consumed>` | `err`     (`read_svarint`)
* `rk <hex>` → `<field> <wire> <consumed>` | `err`
* `ru <hex>` → `1|0`                           (`String::from_utf8` accepts)
-/
def showOutcome {α} (f : α → String) : Outcome α → String
  | .ok a => f a
  | .err => "err"
  | .panic => "panic"

def handlePrim (args : List String) : String :=
  match args with
  | ["wv", n] => match n.toNat? with
    | some n => if n < U64 then hexOfBytes (writeVarint n) else "bad-op"
    | none => "bad-op"
  | ["ws", i] => match i.toInt? with
    | some i => if -(2:Int)^63 ≤ i ∧ i < (2:Int)^63 then hexOfBytes (writeSVarint i) else "bad-op"
    | none => "bad-op"
  | ["rv", h] => match bytesOfHex h with
    | some b => showOutcome (fun (p : Nat × Reader) => s!"{p.1} {p.2.pos}") (readVarint (Reader.ofBytes b))
    | none => "bad-op"
  | ["rs", h] => match bytesOfHex h with
    | some b => showOutcome (fun (p : Int × Reader) => s!"{p.1} {p.2.pos}") (readSVarint (Reader.ofBytes b))
    | none => "bad-op"
  | ["rk", h] => match bytesOfHex h with
    | some b => showOutcome (fun (p : (Nat × Nat) × Reader) => s!"{p.1.1} {p.1.2} {p.2.pos}") (readPbfKey (Reader.ofBytes b))
    | none => "bad-op"
  | ["ru", h] => match bytesOfHex h with
    | some b => if utf8Ok b then "1" else "0"
    | none => "bad-op"
  | _ => "bad-op"

end VtModel.Prim
