import VtModel.StreamReaders
import VtModel.BBoxProto
/-!
Line protocol of streams `C02v` (versatiles reader model fed with the REAL file's block index and
tile indexes, as decoded by the harness's independent decoder) and `C02m` (mbtiles reader model fed
with the rows of the real SQLite table).

`C02v <op> <env> <blocks> <args>`   (`env` is only read by the harness, to rebuild the file)
* `blocks`  joined by `!` (or `-`): `bx,by,z,xmin,ymin,xmax,ymax;off:len_off:len_…` – the block's
            global box and its tile index after `add_offset` (several entries may share one range:
            the writer stores identical small tiles once per block)
* the file content is the identity byte function, so a delivered blob identifies its byte range
* `S` args = boxes `z:a,b,c,d;…` → per box the stream sorted by coordinate as `x,y,z,off,len`
* `G` args = coordinates `x,y,z;…` → per coordinate `off,len` or `-`

`C02m <op> <env> <rows> <args>`: `rows` = `z,col,row,id` joined by `_` (or `-`), blob = `[id]`;
answers as `x,y,z,id` / `id`.
-/
namespace VtModel.ReaderProto
open VtModel VtModel.BBox

def parseEntry (s : String) : Option VEntry :=
  match parseNats (s.splitOn ":") with
  | some [o, l] => some ⟨o, l⟩
  | _ => none

def parseBlock (s : String) : Option VBlock :=
  match s.splitOn ";" with
  | [h, es] =>
    match parseNats (h.splitOn ","), (if es == "-" then some [] else (es.splitOn "_").mapM parseEntry) with
    | some [bx, by_, z, a, b, c, d], some idx => some ⟨bx, by_, z, ⟨z, a, b, c, d⟩, idx⟩
    | _, _ => none
  | _ => none

def parseBlocks (s : String) : Option (List VBlock) :=
  if s == "-" then some [] else (s.splitOn "!").mapM parseBlock

def coordLe {α : Type} (a b : Coord × α) : Bool :=
  a.1.1 < b.1.1 || (a.1.1 == b.1.1 && (a.1.2.1 < b.1.2.1 || (a.1.2.1 == b.1.2.1 && a.1.2.2 ≤ b.1.2.2)))

def showRange (l : List Nat) : String := s!"{l.headD 0},{l.length}"

def showV (l : List (Coord × List Nat)) : String :=
  if l.isEmpty then "-"
  else "_".intercalate ((l.mergeSort coordLe).map fun (c, p) => s!"{c.1},{c.2.1},{c.2.2},{showRange p}")

def parseCoord (s : String) : Option Coord :=
  match parseNats (s.splitOn ",") with
  | some [x, y, z] => some (x, y, z)
  | _ => none

def handleV (args : List String) : String :=
  match args with
  | [op, _env, blocks, rest] =>
    match parseBlocks blocks with
    | some bl =>
      let f : VFile := ⟨bl, fun i => i⟩
      match op with
      | "S" =>
        match (rest.splitOn ";").mapM BBoxProto.parseBox with
        | some bs => "|".intercalate (bs.map fun b => showO showV (vStream f b))
        | none => "bad-op"
      | "G" =>
        match (rest.splitOn ";").mapM parseCoord with
        | some cs => "|".intercalate (cs.map fun c =>
            showO (fun (r : Option (List Nat)) => match r with | some p => showRange p | none => "-") (vLookup f c))
        | none => "bad-op"
      | _ => "bad-op"
    | none => "bad-op"
  | _ => "bad-op"

def parseRow (s : String) : Option MRow :=
  match parseNats (s.splitOn ",") with
  | some [z, c, r, i] => some ⟨z, c, r, [i]⟩
  | _ => none

def showM (l : List (Coord × List Nat)) : String :=
  if l.isEmpty then "-"
  else "_".intercalate ((l.mergeSort coordLe).map fun (c, p) => s!"{c.1},{c.2.1},{c.2.2},{p.headD 0}")

def handleM (args : List String) : String :=
  match args with
  | [op, _env, rows, rest] =>
    match (if rows == "-" then some [] else (rows.splitOn "_").mapM parseRow) with
    | some t =>
      match op with
      | "S" =>
        match (rest.splitOn ";").mapM BBoxProto.parseBox with
        | some bs => "|".intercalate (bs.map fun b => showO showM (mStream t b))
        | none => "bad-op"
      | "G" =>
        match (rest.splitOn ";").mapM parseCoord with
        | some cs => "|".intercalate (cs.map fun c =>
            showO (fun (r : Option (List Nat)) => match r with | some p => toString (p.headD 0) | none => "-") (mLookup t c))
        | none => "bad-op"
      | _ => "bad-op"
    | none => "bad-op"
  | _ => "bad-op"

end VtModel.ReaderProto
