/-
Model of `versatiles_core/src/types/limited_cache.rs` (`LimitedCache<K,V>`).

The Rust type keeps a `HashMap<K,(V,u64)>`, a capacity `max_length` and a counter
`last_index`.  Here the map is an association list (order is irrelevant: every
observable result is a function of the key → (value, stamp) relation, and the
driver never prints the list order).  Keys and values are `Nat`.

`u64` wrap-around of `last_index` (after 2^64 operations) is out of the model.
-/
namespace VtModel.Cache

structure Entry where
  key : Nat
  val : Nat
  stamp : Nat
deriving Repr, DecidableEq

structure Cache where
  cap : Nat            -- `max_length`
  last : Nat           -- `last_index`
  items : List Entry
deriving Repr

def init (cap : Nat) : Cache := { cap := cap, last := 0, items := [] }

def find? (items : List Entry) (k : Nat) : Option Entry :=
  items.find? (fun e => e.key == k)

/-- insertion sort on stamps (mirrors `indices.sort_unstable()`; only the sorted
    multiset matters). -/
def insertSorted (x : Nat) : List Nat → List Nat
  | [] => [x]
  | y :: ys => if x ≤ y then x :: y :: ys else y :: insertSorted x ys

def sortNat : List Nat → List Nat
  | [] => []
  | x :: xs => insertSorted x (sortNat xs)

/-- `indices[(indices.len() - 1) / 2]` – out of bounds (a Rust panic) is `none`. -/
def median? (items : List Entry) : Option Nat :=
  (sortNat (items.map (·.stamp)))[(items.length - 1) / 2]?

/-- `cleanup`: keep entries with stamp > median, resetting their stamp to 0.
    `none` = the index panic on an empty map (unreachable, see `VtProps.C20`). -/
def cleanup? (c : Cache) : Option Cache :=
  match median? c.items with
  | none => none
  | some m =>
    some { c with items := (c.items.filter (fun e => m < e.stamp)).map (fun e => { e with stamp := 0 }) }

/-- `get`: on a hit bump the counter and restamp. -/
def lookup (c : Cache) (k : Nat) : Cache × Option Nat :=
  match find? c.items k with
  | none => (c, none)
  | some e =>
    let last := c.last + 1
    ({ c with last := last,
              items := c.items.map (fun x => if x.key == k then { x with stamp := last } else x) },
     some e.val)

/-- first half of `add`: `if self.cache.len() >= self.max_length { self.cleanup() }` -/
def prepare? (c : Cache) : Option Cache :=
  if c.items.length ≥ c.cap then cleanup? c else some c

/-- second half of `add`: bump counter, `entry(key).or_insert(..)` (an existing entry is *kept*,
    value and stamp unchanged), return the stored value. -/
def put (c1 : Cache) (k v : Nat) : Cache × Nat :=
  match find? c1.items k with
  | some e => ({ c1 with last := c1.last + 1 }, e.val)
  | none => ({ c1 with last := c1.last + 1,
                       items := { key := k, val := v, stamp := c1.last + 1 } :: c1.items }, v)

/-- `add`; `none` = panic inside cleanup. -/
def add? (c : Cache) (k v : Nat) : Option (Cache × Nat) :=
  match prepare? c with
  | none => none
  | some c1 => some (put c1 k v)

/-- `get_or_set key callback`; the callback result is `some v` (Ok) or `none` (Err).
    Result: `none` = panic, `some (c, none)` = error propagated, `some (c, some v)`. -/
def getOrSet? (c : Cache) (k : Nat) (load : Option Nat) : Option (Cache × Option Nat) :=
  match lookup c k with
  | (c1, some v) => some (c1, some v)
  | (c1, none) =>
    match load with
    | none => some (c1, none)
    | some v =>
      match add? c1 k v with
      | none => none
      | some (c2, _) => some (c2, some v)

inductive Op where
  | add (k v : Nat)
  | get (k : Nat)
  | gos (k : Nat) (load : Option Nat)
deriving Repr, DecidableEq

/-- Observable result of an operation. -/
inductive Res where
  | val (v : Nat)      -- add / get hit / get_or_set Ok
  | none               -- get miss
  | err                -- get_or_set loader error
  | panic
deriving Repr, DecidableEq

def step (c : Cache) : Op → Cache × Res
  | .add k v => match add? c k v with
    | some (c', r) => (c', .val r)
    | none => (c, .panic)
  | .get k => match lookup c k with
    | (c', some v) => (c', .val v)
    | (c', none) => (c', .none)
  | .gos k l => match getOrSet? c k l with
    | some (c', some v) => (c', .val v)
    | some (c', none) => (c', .err)
    | none => (c, .panic)

def run (c : Cache) : List Op → Cache × List Res
  | [] => (c, [])
  | op :: ops =>
    let (c1, r) := step c op
    let (c2, rs) := run c1 ops
    (c2, r :: rs)

/-! ### line protocol:  `C20 <cap> <op>,<op>,...`  with ops `a:k:v`, `g:k`, `s:k:v`, `f:k`
    output: `<res>,<res>,...|len=<n>` -/

def parseOp (s : String) : Option Op :=
  match s.splitOn ":" with
  | ["a", k, v] => do let k ← k.toNat?; let v ← v.toNat?; pure (.add k v)
  | ["g", k] => do let k ← k.toNat?; pure (.get k)
  | ["s", k, v] => do let k ← k.toNat?; let v ← v.toNat?; pure (.gos k (some v))
  | ["f", k] => do let k ← k.toNat?; pure (.gos k none)
  | _ => none

def showRes : Res → String
  | .val v => s!"v{v}"
  | .none => "none"
  | .err => "err"
  | .panic => "panic"

def handle (args : List String) : String :=
  match args with
  | [cap, ops] =>
    match cap.toNat? with
    | none => "bad-op"
    | some cap =>
      let opl := if ops == "-" then some [] else (ops.splitOn ",").mapM parseOp
      match opl with
      | none => "bad-op"
      | some opl =>
        let (c, rs) := run (init cap) opl
        ",".intercalate (rs.map showRes) ++ s!"|len={c.items.length}"
  | _ => "bad-op"

/-! ### capacity from the byte budget (`with_maximum_size`, limited_cache.rs:69-82)

`max_length = maximum_size / (size_of::<K>() + size_of::<V>())`; a zero-sized pair is a
division by zero (panic), a budget below one pair is the explicit `panic!`. -/

def capacityOf (bytes per : Nat) : Option Nat :=
  if per = 0 then none
  else if bytes / per < 1 then none else some (bytes / per)

/-- largest number of entries ever held while running `ops`. -/
def maxLen (c : Cache) : List Op → Nat
  | [] => c.items.length
  | op :: ops => Nat.max c.items.length (maxLen (step c op).1 ops)

/-- line protocol `C20b <bytes> <per> <n>`: budget, size of one pair, number of distinct keys
    inserted (`add 0 0 … add (n-1) (n-1)`), answer `cap=<c> maxlen=<m> len=<l>` or `panic`. -/
def handleBudget (args : List String) : String :=
  match args.map String.toNat? with
  | [some bytes, some per, some n] =>
    match capacityOf bytes per with
    | none => "panic"
    | some cap =>
      let ops := (List.range n).map fun i => Op.add i i
      s!"cap={cap} maxlen={maxLen (init cap) ops} len={(run (init cap) ops).1.items.length}"
  | _ => "bad-op"

end VtModel.Cache
