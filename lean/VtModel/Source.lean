import VtModel.Pyramid
/-!
Model of a *tile source* (`versatiles_core/src/types/tiles_reader.rs` `TilesReaderTrait`,
`versatiles_pipeline/src/traits/operation.rs` `OperationTrait`): single-tile lookup, bounding-box
stream and advertised coverage, plus the trait's default stream (tiles_reader.rs:34-50).

Payloads are a type parameter `β` (opaque ids for the combinator laws, byte lists for the
container readers).  Everything that can `Err`/panic in Rust is an `Outcome`.

This file is shared (C02/C08/C09 own it; C03/C06 import it): keep it small and stable.
-/
namespace VtModel

/-- `TileCoord3` as `(x, y, z)` (same order as `BBox.coordFlipY`). -/
abbrev Coord := Nat × Nat × Nat

namespace Coord
@[inline] def x (c : Coord) : Nat := c.1
@[inline] def y (c : Coord) : Nat := c.2.1
@[inline] def z (c : Coord) : Nat := c.2.2
/-- a coordinate that exists in the tile pyramid (`z ≤ 31`, `x, y < 2^z`) -/
def Valid (c : Coord) : Prop := c.2.2 ≤ 31 ∧ c.1 < 2 ^ c.2.2 ∧ c.2.1 < 2 ^ c.2.2
end Coord

namespace BBox
/-- `contains3` on a `Coord` -/
def has (b : BBox) (c : Coord) : Bool := b.contains3 c.1 c.2.1 c.2.2

/-- `iter_coords` with the level attached: row-major `TileCoord3`s.  (itertools'
    `cartesian_product` yields nothing at once when either range is empty; the guard keeps the
    model from walking `2^31` rows of an x-empty box – the list is the same.) -/
def coords3 (b : BBox) : List Coord :=
  if b.isEmpty then [] else b.iterCoords.map fun c => (c.1, c.2, b.level)

/-- boxes as the constructors / `intersect_bbox` / `set_empty` / `include_coord` produce them:
    `level ≤ 31` and the maxima inside the level (minima are unconstrained: all three empty
    encodings `(2^z,2^z,0,0)`, `(1,1,0,0)` and `min > max` are well-formed). -/
def WF (b : BBox) : Prop := b.level ≤ 31 ∧ b.xmax < 2 ^ b.level ∧ b.ymax < 2 ^ b.level
end BBox

namespace Pyramid
/-- 32 levels, entry `z` has level `z` and is a well-formed box -/
def WF (p : Pyramid) : Prop := p.length = 32 ∧ ∀ z (h : z < p.length), p[z].level = z ∧ p[z].WF
/-- `contains_coord` on a `Coord` -/
def has (p : Pyramid) (c : Coord) : Bool := p.containsCoord c.1 c.2.1 c.2.2
end Pyramid

/-- A tile source. -/
structure Src (β : Type) where
  /-- `get_tile_data(coord) -> Result<Option<Blob>>` -/
  lookup : Coord → Outcome (Option β)
  /-- `get_bbox_tile_stream(bbox)` / `get_tile_stream(bbox)`, collected (a panic while the
      stream is built or drained is `.panic`) -/
  stream : BBox → Outcome (List (Coord × β))
  /-- `get_parameters().bbox_pyramid` -/
  cover : Pyramid

/-- `filter_map` over a list with a fallible step: first failure wins -/
def filterMapO {α γ : Type} (f : α → Outcome (Option γ)) : List α → Outcome (List γ)
  | [] => .ok []
  | a :: as =>
    match f a with
    | .ok r =>
      match filterMapO f as with
      | .ok rs => .ok (match r with | some x => x :: rs | none => rs)
      | .err => .err
      | .panic => .panic
    | .err => .err
    | .panic => .panic

/-- one step of the default stream (tiles_reader.rs:39-47):
    `get_tile_data(&coord).await.map(|o| o.map(|blob| (coord, blob))).unwrap_or(None)` –
    an `Err` of the lookup is swallowed, a panic propagates. -/
def pick {β : Type} (lookup : Coord → Outcome (Option β)) (c : Coord) : Outcome (Option (Coord × β)) :=
  match lookup c with
  | .ok (some p) => .ok (some (c, p))
  | .ok none => .ok none
  | .err => .ok none
  | .panic => .panic

/-- the trait's default `get_bbox_tile_stream` (tiles_reader.rs:34-50); `iter_coords` builds
    `TileCoord3::new(x, y, level).unwrap()` which panics for `level > 31` -/
def defaultStream {β : Type} (lookup : Coord → Outcome (Option β)) (b : BBox) : Outcome (List (Coord × β)) :=
  if b.level > 31 ∧ b.coords3 ≠ [] then .panic else filterMapO (pick lookup) b.coords3

/-- a source that uses the default stream -/
def Src.ofLookup {β : Type} (lookup : Coord → Outcome (Option β)) (cover : Pyramid) : Src β :=
  ⟨lookup, defaultStream lookup, cover⟩

/-- what the single-tile lookups deliver inside a box (row-major) -/
def expected {β : Type} (s : Src β) (b : BBox) : List (Coord × β) :=
  b.coords3.filterMap fun c =>
    match s.lookup c with
    | .ok (some p) => some (c, p)
    | _ => none

/-- lookups neither fail nor panic on coordinates that exist -/
def LookupOK {β : Type} (s : Src β) : Prop := ∀ c, Coord.Valid c → ∃ o, s.lookup c = .ok o

/-- **the C02 statement for one source**: for every (well-formed) box – empty in any encoding,
    inside, across or beyond the coverage – the stream finishes, delivers no coordinate twice and
    is, as a multiset, exactly what the lookups inside the box deliver. -/
def StreamOK {β : Type} (s : Src β) : Prop :=
  ∀ b : BBox, b.WF → ∃ l, s.stream b = .ok l ∧ (l.map Prod.fst).Nodup ∧ l.Perm (expected s b)

/-- advertised coverage contains every tile a lookup can return (C03's statement) -/
def Covers {β : Type} (s : Src β) : Prop := ∀ c p, s.lookup c = .ok (some p) → s.cover.has c = true

/-- a well-behaved source: what every combinator needs from its inputs and re-establishes -/
structure Good {β : Type} (s : Src β) : Prop where
  cover_wf : s.cover.WF
  lookup_ok : LookupOK s
  stream_ok : StreamOK s

end VtModel
