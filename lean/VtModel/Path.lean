/-
Model of static file serving (property C07):

* `versatiles/src/tools/server/utils/url.rs`                 (`Url`)
* `versatiles/src/tools/server/sources/static_source_folder.rs` (`Folder::get_data`)
* `versatiles/src/tools/server/sources/static_source_tar.rs`    (`TarFile::from`, `get_data`)
* `versatiles/src/tools/server/sources/static_source.rs`        (`StaticSource::get_data`)
* `versatiles/src/tools/server/tile_server.rs:174-208`          (`serve_static`)

Strings are `List Char` (the server never decodes percent escapes, so a request target is just a
sequence of characters).  A `PathBuf` holding the absolute path string `"/" ++ "/".intercalate segs`
is the list `segs` of *raw* segments (they may be empty, `.` or `..`; nothing is normalised, exactly
like the `OsString` inside a `PathBuf`).  `std::path::Path::components` / `starts_with` and the
operating system's path walk are separate functions over such raw segment lists.

The file system is a finite map from absolute locations (lists of names) to `dir` / `file id`.
Symbolic links are outside the model (assumption of C07).
-/
namespace VtModel.Path

abbrev Str := List Char
/-- raw segments of an absolute path string -/
abbrev Segs := List Str
/-- a location in the file-system tree: names from `/` downwards -/
abbrev Loc := List Str

def sDot : Str := ['.']
def sDotDot : Str := ['.', '.']
def sIndex : Str := ['i', 'n', 'd', 'e', 'x', '.', 'h', 't', 'm', 'l']
def sBr : Str := ['.', 'b', 'r']
def sGz : Str := ['.', 'g', 'z']

/-- `str.split('/')` – always at least one piece. -/
def splitSlash : Str → List Str
  | [] => [[]]
  | c :: cs =>
    if c = '/' then [] :: splitSlash cs
    else match splitSlash cs with
      | [] => [[c]]
      | s :: ss => (c :: s) :: ss

def joinSlash : List Str → Str
  | [] => []
  | [s] => s
  | s :: ss => s ++ '/' :: joinSlash ss

/-! ### `Url` (url.rs) -/

/-- `Url { str }`; every constructor call goes through `Url::new`, so `str` starts with `/`. -/
structure Url where
  str : Str
deriving Repr, DecidableEq

namespace Url
/-- `Url::new` (url.rs:10-17): prepend `/` unless already there. -/
def new (s : Str) : Url :=
  match s with
  | '/' :: _ => ⟨s⟩
  | _ => ⟨'/' :: s⟩
/-- `starts_with` (url.rs:19): plain string prefix. -/
def startsWith (u p : Url) : Bool := p.str.isPrefixOf u.str
/-- `is_dir` (url.rs:23): last character is `/`. -/
def isDir (u : Url) : Bool := u.str.getLast? == some '/'
/-- `join_as_string` / `push` (url.rs:57-67) -/
def push (u : Url) (name : Str) : Url :=
  if u.isDir then ⟨u.str ++ name⟩ else ⟨u.str ++ '/' :: name⟩
/-- `as_dir` (url.rs:27-33) -/
def asDir (u : Url) : Url := if u.isDir then u else Url.new (u.str ++ ['/'])
/-- `strip_prefix` (url.rs:35-39); `none` = `Err`. -/
def stripPrefix (u p : Url) : Option Url :=
  if p.str.isPrefixOf u.str then some (Url.new (u.str.drop p.str.length)) else none
/-- `as_vec` (url.rs:41-47) -/
def asVec (u : Url) : List Str := (splitSlash u.str).filter (· ≠ [])
/-- `&self.str[1..]` -/
def tail (u : Url) : Str := u.str.drop 1
end Url

/-! ### `std::path` (lexical) -/

inductive Comp where
  | cur                 -- `.` or an empty segment: dropped by `components()`, a no-op for the OS
  | parent              -- `..`
  | name (s : Str)
deriving Repr, DecidableEq

def classify (s : Str) : Comp :=
  if s = [] then .cur else if s = sDot then .cur else if s = sDotDot then .parent else .name s

/-- `Path::components()` of an absolute path, after the leading `RootDir`. -/
def comps (p : Segs) : List Comp := (p.map classify).filter (· ≠ .cur)

/-- `Path::starts_with` (component-wise, purely lexical). -/
def lexStartsWith (p base : Segs) : Bool := (comps base).isPrefixOf (comps p)

/-- `path.components().any(|c| c == Component::ParentDir)` -/
def hasParent (p : Segs) : Bool := p.any (fun s => classify s = .parent)

/-- `Url::as_path(base)` = `base.join(&str[1..])` (url.rs:53-55): an absolute right operand
    replaces the base, otherwise the text is appended after a separator. -/
def joinRel (base : Segs) (rel : Str) : Segs :=
  match rel with
  | '/' :: r => splitSlash r
  | _ => base ++ splitSlash rel

/-- `PathBuf::push(name)` for a relative one-segment `name`: a separator is added unless the
    string already ends with `/`. -/
def pushName (p : Segs) (n : Str) : Segs :=
  if p.getLast? = some [] then p.dropLast ++ [n] else p ++ [n]

/-- `format!("{}.br", path.display())`: the text is appended to the path *string*. -/
def appendExt (p : Segs) (ext : Str) : Segs :=
  match p.getLast? with
  | none => [ext]
  | some l => p.dropLast ++ [l ++ ext]

/-! ### file system and OS path resolution -/

inductive Node where
  | dir
  | file (content : Nat)
deriving Repr, DecidableEq

/-- finite map location ↦ node (first entry wins) -/
abbrev FS := List (Loc × Node)

def FS.node (fs : FS) (p : Loc) : Option Node := fs.lookup p
def FS.isDirAt (fs : FS) (p : Loc) : Bool := fs.node p == some .dir

/-- The kernel's path walk without symbolic links: every component is looked up in the current
    *directory* (`ENOTDIR` otherwise); `.` and empty components stay, `..` goes to the parent
    (`/..` = `/`), a name must exist (`ENOENT` otherwise).  `none` = error. -/
def resolve (fs : FS) : Loc → Segs → Option Loc
  | cur, [] => some cur
  | cur, s :: ss =>
    if fs.isDirAt cur then
      match classify s with
      | .cur => resolve fs cur ss
      | .parent => resolve fs cur.dropLast ss
      | .name n => if (fs.node (cur ++ [n])).isSome then resolve fs (cur ++ [n]) ss else none
    else none

/-- `Path::is_dir()` (stat) -/
def statIsDir (fs : FS) (p : Segs) : Bool :=
  match resolve fs [] p with
  | some l => fs.isDirAt l
  | none => false

/-- the `TargetCompression` set derived from the request (`get_encoding`, tile_server.rs:303-317):
    does the client accept brotli / gzip -/
structure Accept where
  br : Bool
  gz : Bool
deriving Repr, DecidableEq

def Accept.none : Accept := ⟨false, false⟩

/-- `haystack.contains(needle)` on strings -/
def hasSub (needle : Str) : Str → Bool
  | [] => needle.isEmpty
  | c :: cs => needle.isPrefixOf (c :: cs) || hasSub needle cs

/-- `get_encoding`: substring tests on the `accept-encoding` value (`none` = header absent) -/
def acceptOf (hdr : Option Str) : Accept :=
  match hdr with
  | Option.none => Accept.none
  | some v => ⟨hasSub ['b', 'r'] v, hasSub ['g', 'z', 'i', 'p'] v⟩

/-- Outcome of the static handler. `panic` = the handler task panics (connection closed without
    a response). -/
inductive Resp where
  | notFound
  | ok (content : Nat)
  | panic
deriving Repr, DecidableEq

/-- `File::open(p)` followed by `read_to_end(..).unwrap()` (static_source_folder.rs:81-92).
    `none` = `open` failed.  Opening a directory succeeds on Linux, reading it fails → `unwrap`
    panics. -/
def openRead (fs : FS) (p : Segs) : Option Resp :=
  match resolve fs [] p with
  | none => none
  | some l =>
    match fs.node l with
    | some (.file c) => some (.ok c)
    | some .dir => some .panic
    | none => none

/-- the tail of `Folder::get_data`: plain file, then `.br`, then `.gz` -/
def openChain (fs : FS) (p : Segs) : Resp :=
  match openRead fs p with
  | some r => r
  | none =>
    match openRead fs (appendExt p sBr) with
    | some r => r
    | none =>
      match openRead fs (appendExt p sGz) with
      | some r => r
      | none => .notFound

/-- `if local_path.is_dir() { local_path.push("index.html") }` -/
def withIndex (fs : FS) (p0 : Segs) : Segs := if statIsDir fs p0 then pushName p0 sIndex else p0

/-- `if !local_path.starts_with(&self.folder) { return None }`, then the three `File::open`s -/
def guardedOpen (fs : FS) (root : Loc) (p1 : Segs) : Resp :=
  if lexStartsWith p1 root then openChain fs p1 else .notFound

/-- `Folder::get_data` **before** the repair (static_source_folder.rs:62-93 at 726acd76):
    join, `index.html` for directories, lexical `starts_with`, open. -/
def folderGetOld (fs : FS) (root : Loc) (url : Url) : Resp :=
  guardedOpen fs root (withIndex fs (joinRel root url.tail))

/-- `Folder::get_data` as it is now (1eee327c): a path with a `ParentDir` component is
    rejected first.  The `_accept` argument is ignored by the code: which file is read never
    depends on the request headers. -/
def folderGet (fs : FS) (root : Loc) (url : Url) (_acc : Accept) : Resp :=
  if hasParent (joinRel root url.tail) then .notFound
  else guardedOpen fs root (withIndex fs (joinRel root url.tail))

/-! ### tar source (static_source_tar.rs) -/

structure TarEntry where
  un : Option Nat
  gz : Option Nat
  br : Option Nat
deriving Repr, DecidableEq

inductive Compr where | un | gz | br
deriving Repr, DecidableEq

abbrev TarMap := List (Str × TarEntry)

def TarEntry.empty : TarEntry := ⟨none, none, none⟩
def TarEntry.set (e : TarEntry) (c : Compr) (v : Nat) : TarEntry :=
  match c with
  | .un => { e with un := some v }
  | .gz => { e with gz := some v }
  | .br => { e with br := some v }

/-- `lookup.entry(name).or_insert_with(..)` + assignment of the slot -/
def tarInsert (m : TarMap) (key : Str) (c : Compr) (v : Nat) : TarMap :=
  match m with
  | [] => [(key, TarEntry.empty.set c v)]
  | (k, e) :: rest => if k = key then (k, e.set c v) :: rest else (k, e) :: tarInsert rest key c v

/-- `Path::extension` / `set_extension("")` on a file name: `(stem, some ext)` when there is a
    dot that is not the first character, `(name, none)` otherwise (`..` has no extension). -/
def splitExt (fn : Str) : Str × Option Str :=
  if fn = sDotDot then (fn, none) else
  let r := fn.reverse
  let extR := r.takeWhile (· ≠ '.')
  let rest := r.drop extR.length          -- starts with the dot, if any
  match rest with
  | [] => (fn, none)                       -- no dot
  | _ :: stemR => if stemR = [] then (fn, none) else (stemR.reverse, some extR.reverse)

/-- the `add` closure (static_source_tar.rs:96-117): components joined by `/`, then every leading
    `.` and `/` character is stripped. -/
def tarKey (cs : List Str) : Str := (joinSlash cs).dropWhile (fun c => c = '.' || c = '/')

/-- components of a relative member path as `Path::iter` yields them below a possible leading
    `.`/`/` (which `tarKey` strips anyway): empty and `.` segments vanish. -/
def memberComps (name : Str) : List Str := (splitSlash name).filter (fun s => s ≠ [] ∧ s ≠ sDot)

/-- where a member is registered: its components without the `.br`/`.gz` extension, and the slot.
    `none` for a path without components. -/
def memberTarget (cs : List Str) : Option (List Str × Compr) :=
  match cs.getLast? with
  | none => none
  | some fn =>
    let se := splitExt fn
    let compr : Compr := if se.2 = some ['b', 'r'] then .br else if se.2 = some ['g', 'z'] then .gz else .un
    some (if compr = .un then cs else cs.dropLast ++ [se.1], compr)

/-- `if filename == "index.html" { add(parent) }; add(path)` (static_source_tar.rs:119-122) -/
def tarAddAt (m : TarMap) (cs : List Str) (compr : Compr) (content : Nat) : TarMap :=
  let m1 := if cs.getLast? = some sIndex then tarInsert m (tarKey cs.dropLast) compr content else m
  tarInsert m1 (tarKey cs) compr content

/-- one archive member (regular file) `name ↦ content` (static_source_tar.rs:64-123).
    Members whose last component is `..` make `file_name().unwrap()` panic; they are outside the
    model (never generated). -/
def tarAddMember (m : TarMap) (name : Str) (content : Nat) : TarMap :=
  match memberTarget (memberComps name) with
  | none => m
  | some (cs, compr) => tarAddAt m cs compr content

def tarBuild (members : List (Str × Nat)) : TarMap :=
  members.foldl (fun m x => tarAddMember m x.1 x.2) []

def firstSome (l : List (Option Nat)) : Resp :=
  match l with
  | [] => .notFound
  | some v :: _ => .ok v
  | Option.none :: rest => firstSome rest

/-- `TarFile::get_data` (static_source_tar.rs:143-172): brotli if accepted and present, gzip if
    accepted and present, then `un`, `br`, `gz`. -/
def tarGet (m : TarMap) (url : Url) (acc : Accept) : Resp :=
  match m.lookup url.tail with
  | Option.none => .notFound
  | some e =>
    firstSome [if acc.br then e.br else Option.none, if acc.gz then e.gz else Option.none, e.un, e.br, e.gz]

/-! ### `StaticSource` and the fallback route -/

inductive Backend where
  | folder (root : Loc)
  | tar (m : TarMap)
deriving Repr

structure Source where
  pfx : Url
  backend : Backend
deriving Repr

def Backend.get (fs : FS) (b : Backend) (url : Url) (acc : Accept) : Resp :=
  match b with
  | .folder root => folderGet fs root url acc
  | .tar m => tarGet m url acc

/-- `StaticSource::get_data` (static_source.rs:39-45); `strip_prefix(..).unwrap()` cannot fail
    after `starts_with`, the `panic` branch is kept explicit. -/
def Source.get (fs : FS) (s : Source) (url : Url) (acc : Accept) : Resp :=
  if url.startsWith s.pfx then
    match url.stripPrefix s.pfx with
    | none => .panic
    | some u => s.backend.get fs u acc
  else .notFound

/-- `uri.path()`: the request target up to `?` / `#` (origin-form targets). -/
def uriPath (target : Str) : Str := target.takeWhile (fun c => c ≠ '?' && c ≠ '#')

def firstHit (fs : FS) (url : Url) (acc : Accept) : List Source → Resp
  | [] => .notFound
  | s :: rest =>
    match s.get fs url acc with
    | .notFound => firstHit fs url acc rest
    | r => r

/-- `serve_static` (tile_server.rs:181-207) -/
def serveStatic (fs : FS) (acc : Accept) (sources : List Source) (target : Str) : Resp :=
  let url := Url.new (uriPath target)
  let url := if url.isDir then url.push sIndex else url
  firstHit fs url acc sources

/-- `add_static_source`: `Url::new(prefix).as_dir()` (serve.rs:118-133, tile_server.rs:66-72) -/
def mkPrefix (p : Str) : Url := (Url.new p).asDir

/-! ### line protocol
`C07 <base> <entries> <sources> <targethex> [<accept-encoding value, hex>]`
* `base`     absolute directory, e.g. `/verif/.run/x/w`
* `entries`  `;`-separated, relative to base: `d:<rel>` | `f:<rel>:<id>`   (`-` = none)
* `sources`  `;`-separated: `F:<prefix>:<rel root>` | `T:<prefix>:<member>=<id>,…`
             (`<prefix>` as on the command line, `-` = none)
* `targethex` request target bytes, lowercase hex
answer: `200 <id>` | `404` | `closed`
-/

def hexVal (c : Char) : Option Nat :=
  if '0' ≤ c ∧ c ≤ '9' then some (c.toNat - '0'.toNat)
  else if 'a' ≤ c ∧ c ≤ 'f' then some (c.toNat - 'a'.toNat + 10)
  else none

def unhex : List Char → Option Str
  | [] => some []
  | [_] => none
  | a :: b :: rest => do
    let x ← hexVal a
    let y ← hexVal b
    let r ← unhex rest
    pure (Char.ofNat (x * 16 + y) :: r)

def relLoc (base : Loc) (rel : Str) : Loc := base ++ (splitSlash rel).filter (· ≠ [])

/-- all non-empty prefixes of a location, plus `/` itself -/
def prefixes (l : Loc) : List Loc := (List.range (l.length + 1)).map (fun n => l.take n)

def splitOnChar (sep : Char) : Str → List Str
  | [] => [[]]
  | c :: cs =>
    if c = sep then [] :: splitOnChar sep cs
    else match splitOnChar sep cs with
      | [] => [[c]]
      | s :: ss => (c :: s) :: ss

/-- `TarFile::from` (static_source_tar.rs:52-59): the dot-separated parts of the archive path are
    visited from the right; `gz` / `br` add a decompression step, `tar` ends the loop, anything else
    is an error (`none`).  The harness wraps its archives as .tar / .tar.gz / .tar.br / .tar.br.gz. -/
inductive Unwrap where | gz | br
deriving Repr, DecidableEq

def tarStepsRev : List Str → Option (List Unwrap)
  | [] => some []
  | p :: rest =>
    if p = ['t', 'a', 'r'] then some []
    else if p = ['g', 'z'] then (tarStepsRev rest).map (Unwrap.gz :: ·)
    else if p = ['b', 'r'] then (tarStepsRev rest).map (Unwrap.br :: ·)
    else none

def tarSteps (path : Str) : Option (List Unwrap) := tarStepsRev (splitOnChar '.' path).reverse

def natOf (s : Str) : Option Nat := (String.ofList s).toNat?

def parseEntry (base : Loc) (e : Str) : Option (Loc × Node) :=
  match splitOnChar ':' e with
  | [['d'], rel] => some (relLoc base rel, .dir)
  | [['f'], rel, id] => (natOf id).map (fun n => (relLoc base rel, .file n))
  | _ => none

def parseMember (s : Str) : Option (Str × Nat) :=
  match splitOnChar '=' s with
  | [name, id] => (natOf id).map (fun n => (name, n))
  | _ => none

def dash (s : Str) : Str := if s = ['-'] then [] else s

def parseSource (base : Loc) (s : Str) : Option Source :=
  match splitOnChar ':' s with
  | [['F'], p, rel] => some ⟨mkPrefix (dash p), .folder (relLoc base rel)⟩
  | [['T'], p, ms] =>
    let items := if ms = ['-'] then some [] else (splitOnChar ',' ms).mapM parseMember
    items.map (fun l => ⟨mkPrefix (dash p), .tar (tarBuild l)⟩)
  | _ => none

def showResp : Resp → String
  | .notFound => "404"
  | .ok c => s!"200 {c}"
  | .panic => "closed"

def handleWith (base entries sources target : String) (hdr : Option String) : String :=
  let baseLoc : Loc := (splitSlash base.toList).filter (· ≠ [])
  let ents := if entries == "-" then some [] else (splitOnChar ';' entries.toList).mapM (parseEntry baseLoc)
  let srcs := (splitOnChar ';' sources.toList).mapM (parseSource baseLoc)
  let acc : Option Accept := match hdr with
    | Option.none => some Accept.none
    | some h => (unhex h.toList).map (fun v => acceptOf (some v))
  match ents, srcs, unhex target.toList, acc with
  | some ents, some srcs, some t, some acc =>
    let fs : FS := ((prefixes baseLoc).map (fun l => (l, Node.dir))) ++ ents
    showResp (serveStatic fs acc srcs t)
  | _, _, _, _ => "bad-op"

/-- a fifth argument is the hex of the `accept-encoding` header value (absent = no header) -/
def handle (args : List String) : String :=
  match args with
  | [base, entries, sources, target] => handleWith base entries sources target Option.none
  | [base, entries, sources, target, hdr] => handleWith base entries sources target (some hdr)
  | _ => "bad-op"

end VtModel.Path
