import VtModel.Source
/-!
Models of the two container readers that implement `get_bbox_tile_stream` themselves instead of
using the trait's default stream:

* `versatiles_container/src/container/versatiles/reader.rs` (`VersaTilesReader`):
  block lookup, per-block tile index, offset-sorted chunk merging, one `read_range` per chunk and
  slicing of the chunk blob;
* `versatiles_container/src/container/mbtiles/reader.rs` (`MBTilesReader`): the two SQL queries
  with the TMS row flip.

`u32`/`u64` are `Nat`; every Rust panic site (`unwrap`, slice/vector index, `assert!`,
`panic!()`, checked arithmetic of the dev profile) is an explicit `Outcome.panic` branch.
I/O (`read_range`, brotli decoding of an index, the SQLite pool) is assumed to succeed.
-/
namespace VtModel

/-! ## versatiles -/

/-- `ByteRange { offset, length }` (`u64` both) -/
structure VEntry where
  off : Nat
  len : Nat
deriving Repr, DecidableEq

/-- `BlockDefinition` (versatiles/types/block_definition.rs): block coordinate `(bx, by_, z)`
    (`get_coord3`), `box` = `get_global_bbox()` (reader.rs:204, :283) and the decoded tile index
    of the block *after* `add_offset(tiles_range.offset)` (reader.rs:145-147), row-major over `box`. -/
structure VBlock where
  bx : Nat
  by_ : Nat
  z : Nat
  box : BBox
  index : List VEntry
deriving Repr

/-- a container file: the block index and the file content as a byte function -/
structure VFile where
  blocks : List VBlock
  bytes : Nat → Nat

/-- `MAX_CHUNK_SIZE` (reader.rs:233) -/
def MAX_CHUNK_SIZE : Nat := 64 * 1024 * 1024
/-- `MAX_CHUNK_GAP` (reader.rs:234) -/
def MAX_CHUNK_GAP : Nat := 32 * 1024

/-- `self.reader.read_range(&ByteRange{off,len})` (reader.rs:228, :350), assumed to succeed -/
def VFile.readRange (f : VFile) (off len : Nat) : List Nat :=
  (List.range len).map fun i => f.bytes (off + i)

/-- `self.block_index.get_block(&coord)` (block_index.rs:119; a `HashMap` keyed by the block
    coordinate): the first block with that key -/
def VFile.getBlock (f : VFile) (bx by_ z : Nat) : Option VBlock :=
  f.blocks.find? fun k => k.bx == bx && k.by_ == by_ && k.z == z

/-- `get_block_tile_index` (reader.rs:137-158): reading/decoding assumed to succeed;
    `ensure!(tile_index.len() as u64 == block.count_tiles(), ..)` – an `Err` since commit c1d32dc4
    (it was an `assert_eq!` before); the lookup propagates it with `?`, the stream `unwrap`s it -/
def VBlock.tileIndexO (k : VBlock) : Outcome (List VEntry) :=
  if k.index.length ≠ k.box.countTiles then .err else .ok k.index

/-- `get_tile_data` (reader.rs:191-229).
    * :193 `TileCoord3::new(x >> 8, y >> 8, z)?` – `Err` for `z > 31`;
    * :196-200 missing block → `Ok(None)`;
    * :210 outside the block's box → `Ok(None)`;
    * :216 `get_tile_index2(..).unwrap()`;
    * :219 `get_block_tile_index(&block).await?` (contains the `assert_eq!`);
    * :220 `*tile_index.get(tile_id)` is `&self.index[index]` (tile_index.rs:104-106): panics when
      out of range;
    * :223 zero length → `Ok(None)`; :228 `read_range`. -/
def vLookup (f : VFile) (c : Coord) : Outcome (Option (List Nat)) :=
  if c.2.2 > 31 then .err
  else
    match f.getBlock (c.1 / 256) (c.2.1 / 256) c.2.2 with
    | none => .ok none
    | some k =>
      if !k.box.contains2 c.1 c.2.1 then .ok none
      else
        match (k.box.tileIndex c.1 c.2.1).unwrap with
        | .ok tileId =>
          match k.tileIndexO with
          | .ok idx =>
            match idx[tileId]? with
            | none => .panic
            | some e => if e.len = 0 then .ok none else .ok (some (f.readRange e.off e.len))
          | .err => .err
          | .panic => .panic
        | _ => .panic

/-- the local `struct Chunk` (reader.rs:236-240): tiles in push order, `range = (off, len)` -/
structure Chunk where
  tiles : List (Coord × VEntry)
  off : Nat
  len : Nat
deriving Repr, DecidableEq

/-- `Chunk::new(start)` (reader.rs:243-248) -/
def Chunk.new (start : Nat) : Chunk := ⟨[], start, 0⟩

/-- `Chunk::push` (reader.rs:249-258): `self.tiles.push(entry)`;
    `if entry.1.offset < self.range.offset { panic!() }`;
    `length = length.max(entry.offset + entry.length - self.range.offset)` (u64 addition checked
    in the dev profile; the subtraction cannot underflow after the test) -/
def Chunk.push (c : Chunk) (e : Coord × VEntry) : Outcome Chunk :=
  if e.2.off < c.off then .panic
  else if e.2.off + e.2.len ≥ U64 then .panic
  else .ok ⟨c.tiles ++ [e], c.off, max c.len (e.2.off + e.2.len - c.off)⟩

/-- Rust's `enumerate()` -/
def enumFrom {α : Type} (n : Nat) : List α → List (Nat × α)
  | [] => []
  | a :: as => (n, a) :: enumFrom (n + 1) as

/-- one element of the index scan (reader.rs:302-303):
    `tiles_bbox_block.get_coord3_by_index(index as u32).unwrap()` (`as u32` truncates;
    `TileCoord3::new` fails for `level > 31`), then the filter
    `tiles_bbox_used.contains3(coord) && range.length > 0` -/
def scanEntry (box used : BBox) (ie : Nat × VEntry) : Outcome (Option (Coord × VEntry)) :=
  match box.coordByIndex (ie.1 % U32) with
  | .ok xy =>
    if box.level > 31 then .panic
    else if used.contains3 xy.1 xy.2 box.level && decide (ie.2.len > 0)
      then .ok (some ((xy.1, xy.2, box.level), ie.2))
      else .ok none
  | _ => .panic

/-- `tile_index.iter().enumerate().map(..).filter(..).collect()` (reader.rs:299-304) -/
def scanIndex (box used : BBox) (idx : List VEntry) : Outcome (List (Coord × VEntry)) :=
  filterMapO (scanEntry box used) (enumFrom 0 idx)

/-- `tile_ranges.sort_by_key(|e| e.1.offset)` (reader.rs:310; a stable merge sort) -/
def sortByOffset (l : List (Coord × VEntry)) : List (Coord × VEntry) :=
  l.mergeSort fun a b => decide (a.2.off ≤ b.2.off)

/-- the merge loop `for entry in tile_ranges { .. }` with the trailing
    `if chunk.len() > 0 { chunks.push(chunk) }` (reader.rs:315-335).  `chunk` is the chunk under
    construction; the result is the vector `chunks` (finished chunks are emitted in order, so
    consing the finished chunk in front of what the rest of the loop produces is the same vector).
    u64 additions of :317, :320, :322 are checked. -/
def mergeLoop (chunk : Chunk) : List (Coord × VEntry) → Outcome (List Chunk)
  | [] => .ok (if chunk.tiles.length > 0 then [chunk] else [])
  | e :: es =>
    if chunk.off + chunk.len ≥ U64 then .panic                       -- :317 chunk_end
    else if e.2.off + e.2.len ≥ U64 then .panic                      -- :320 tile_end
    else if chunk.off + MAX_CHUNK_SIZE ≥ U64 then .panic             -- :322
    else if chunk.off + chunk.len + MAX_CHUNK_GAP ≥ U64 then .panic  -- :322
    else if chunk.off + MAX_CHUNK_SIZE > e.2.off + e.2.len ∧ chunk.off + chunk.len + MAX_CHUNK_GAP > e.2.off then
      match chunk.push e with                                        -- :324
      | .ok c' => mergeLoop c' es
      | _ => .panic
    else
      match (Chunk.new e.2.off).push e with                          -- :327-329
      | .ok c' =>
        match mergeLoop c' es with
        | .ok cs => .ok (chunk :: cs)
        | .err => .err
        | .panic => .panic
      | _ => .panic

/-- :306-335 for the offset-sorted `tile_ranges`: nothing for an empty vector (:306), otherwise the
    first chunk starts at `tile_ranges[0].1.offset` (:313) and the loop runs over all entries -/
def mergeChunks (sorted : List (Coord × VEntry)) : Outcome (List Chunk) :=
  match sorted with
  | [] => .ok []
  | e0 :: es => mergeLoop (Chunk.new e0.2.off) (e0 :: es)

/-- the chunks of one block coordinate (body of the first `then` closure, reader.rs:268-338):
    * :272-276 missing block → no chunks;
    * :287-288 `tiles_bbox_used = bbox ∩ block box`, `.unwrap()`;
    * :291-292 the two `assert_eq!` on the levels;
    * :295 `get_block_tile_index(&block).await.unwrap()`;
    * :299-304 index scan; :310 sort (sorting before or after the emptiness test of :306 is the
      same); :306-335 `mergeChunks`. -/
def blockChunks (f : VFile) (b : BBox) (bc : Coord) : Outcome (List Chunk) :=
  match f.getBlock bc.1 bc.2.1 bc.2.2 with
  | none => .ok []
  | some k =>
    match (b.intersectBBox k.box).unwrap with
    | .ok used =>
      if b.level ≠ k.box.level then .panic
      else if b.level ≠ used.level then .panic
      else
        match k.tileIndexO.unwrap with
        | .ok idx =>
          match scanIndex k.box used idx with
          | .ok ranges => mergeChunks (sortByOffset ranges)
          | _ => .panic
        | _ => .panic
    | _ => .panic

/-- one tile of a chunk (reader.rs:355-365): `start = range.offset - chunk.range.offset` (u64
    subtraction), `end = start + range.length` (u64 addition), `big_blob.get_range(start..end)` is
    `&self.0[range]` (blob.rs:116-118; panics when `end > len`), then
    `assert!(bbox.contains3(&coord))` -/
def sliceTile (b : BBox) (ch : Chunk) (blob : List Nat) (t : Coord × VEntry) : Outcome (Coord × List Nat) :=
  if t.2.off < ch.off then .panic
  else if t.2.off - ch.off + t.2.len ≥ U64 then .panic
  else if t.2.off - ch.off + t.2.len > blob.length then .panic
  else if !b.has t.1 then .panic
  else .ok (t.1, (blob.drop (t.2.off - ch.off)).take t.2.len)

/-- one chunk (second `then` closure, reader.rs:347-369): `read_range(&chunk.range).await.unwrap()`
    (assumed to succeed), then every tile is cut out of the blob -/
def readChunk (f : VFile) (b : BBox) (ch : Chunk) : Outcome (List (Coord × List Nat)) :=
  BBox.mapM (sliceTile b ch (f.readRange ch.off ch.len)) ch.tiles

/-- `get_bbox_tile_stream` (reader.rs:232-374), collected:
    * :264-266 `scale_down(256)`, `iter_coords().collect()` (`TileCoord3::new(..).unwrap()` in
      `iter_coords`, tile_bbox.rs:626, panics for `level > 31` as soon as there is a coordinate);
    * :268-343 chunks of every block coordinate, flattened;
    * :345-372 every chunk read and cut, flattened. -/
def vStream (f : VFile) (b : BBox) : Outcome (List (Coord × List Nat)) :=
  match b.scaleDown 256 with
  | .ok sb =>
    if sb.level > 31 ∧ sb.coords3 ≠ [] then .panic
    else
      match BBox.mapM (blockChunks f b) sb.coords3 with
      | .ok css =>
        match BBox.mapM (readChunk f b) css.flatten with
        | .ok ls => .ok ls.flatten
        | .err => .err
        | .panic => .panic
      | .err => .err
      | .panic => .panic
  | _ => .panic

/-- the versatiles reader as a tile source -/
def versatilesSrc (f : VFile) (cover : Pyramid) : Src (List Nat) := ⟨vLookup f, vStream f, cover⟩

/-! ## mbtiles -/

/-- one row of the `tiles` table: `zoom_level, tile_column, tile_row, tile_data` -/
structure MRow where
  z : Nat
  col : Nat
  row : Nat
  blob : List Nat
deriving Repr, DecidableEq

/-- `get_tile_data` (mbtiles/reader.rs:338-357):
    * :345 `2u32.pow(coord.z as u32) - 1` overflows (dev profile panic) for `z ≥ 32`;
    * :347-349 `max_index.checked_sub(coord.y)`: a row outside of the level → `Ok(None)`
      (this was an unchecked `max_index - coord.y` before commit 425c2638);
    * :350-356 `query_row`: first row with `(tile_column, tile_row, zoom_level) = (x, max - y, z)`;
      no row (or any other error) → `Ok(None)`. -/
def mLookup (t : List MRow) (c : Coord) : Outcome (Option (List Nat)) :=
  if c.2.2 ≥ 32 then .panic
  else if c.2.1 > 2 ^ c.2.2 - 1 then .ok none
  else
    match t.find? fun r => r.col == c.1 && r.row == 2 ^ c.2.2 - 1 - c.2.1 && r.z == c.2.2 with
    | some r => .ok (some r.blob)
    | none => .ok none

/-- the `WHERE` clause of the stream query (mbtiles/reader.rs:380) with the parameters of :387-391 -/
def mSelect (b : BBox) (r : MRow) : Bool :=
  decide (b.xmin ≤ r.col) && decide (r.col ≤ b.xmax) &&
  decide (b.maxv - b.ymax ≤ r.row) && decide (r.row ≤ b.maxv - b.ymin) && r.z == b.level

/-- the row closure (mbtiles/reader.rs:393-402): `max_index - row` is an unchecked u32 subtraction,
    `TileCoord3::new(..).unwrap()` panics for `z > 31` -/
def mRow (b : BBox) (r : MRow) : Outcome (Coord × List Nat) :=
  if r.row > b.maxv then .panic
  else if r.z > 31 then .panic
  else .ok ((r.col, b.maxv - r.row, r.z), r.blob)

/-- `get_bbox_tile_stream` (mbtiles/reader.rs:366-411): :369 empty box → empty stream;
    :373 `max_index = bbox.max` (`2^level - 1`); :389-390 `max_index - bbox.y_max`,
    `max_index - bbox.y_min` are unchecked u32 subtractions; rows in table order. -/
def mStream (t : List MRow) (b : BBox) : Outcome (List (Coord × List Nat)) :=
  if b.isEmpty then .ok []
  else if b.ymax > b.maxv then .panic
  else if b.ymin > b.maxv then .panic
  else BBox.mapM (mRow b) (t.filter (mSelect b))

/-- the mbtiles reader as a tile source -/
def mbtilesSrc (t : List MRow) (cover : Pyramid) : Src (List Nat) := ⟨mLookup t, mStream t, cover⟩

end VtModel
