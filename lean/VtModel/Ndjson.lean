import VtModel.Json
/-
Model of `versatiles_core/src/json/read.rs` (`read_ndjson_iter`, `process_line`) on top of the
JSON parser model:

* `BufRead::lines()`: the input is cut after every `\n`; the `\n` and one `\r` directly before it are
  removed (a last line without `\n` keeps a trailing `\r`); nothing is yielded after a final `\n`;
  a line that is not valid UTF-8 is an `Err` item and reading goes on with the next line;
* `process_line`: lines that are empty after `str::trim` (Unicode `White_Space`) are skipped, every
  other line goes through `JsonValue::parse_str`.
`read_ndjson_stream` evaluates the same function per line on tokio tasks (`buffered` keeps the
order); it is not modelled separately.
-/
namespace VtModel.Ndjson
open VtModel.Json

/-- raw lines as `read_until(b'\n')` delivers them, terminator included -/
def rawLines : Bytes → Bytes → List Bytes
  | cur, [] => if cur.isEmpty then [] else [cur.reverse]
  | cur, b :: r => if b == 0x0a then (b :: cur).reverse :: rawLines [] r else rawLines (b :: cur) r

/-- `Lines::next`: strip `\n`, then one `\r` -/
def stripEol (ln : Bytes) : Bytes :=
  match ln.reverse with
  | 0x0a :: 0x0d :: r => r.reverse
  | 0x0a :: r => r.reverse
  | _ => ln

/-- `char::is_whitespace` (Unicode `White_Space`) -/
def isUnicodeWs (c : Char) : Bool :=
  let v := c.toNat
  (0x09 ≤ v && v ≤ 0x0d) || v == 0x20 || v == 0x85 || v == 0xa0 || v == 0x1680 ||
  (0x2000 ≤ v && v ≤ 0x200a) || v == 0x2028 || v == 0x2029 || v == 0x202f || v == 0x205f || v == 0x3000

/-- `process_line` for one raw line: `none` = skipped -/
def processLine {N : Type} (ops : NumOps N) (raw : Bytes) : Option (Res (JsonValue N)) :=
  match fromUtf8 raw with
  | none => some .err                      -- `io::ErrorKind::InvalidData` from `read_line`
  | some _ =>
    let ln := stripEol raw
    match fromUtf8 ln with
    | none => some .err                    -- unreachable: removing ASCII bytes keeps UTF-8 valid
    | some cs => if cs.all isUnicodeWs then none else some (parseBytes ops ln)

/-- `read_ndjson_iter(reader).collect()` -/
def readNdjson {N : Type} (ops : NumOps N) (input : Bytes) : List (Res (JsonValue N)) :=
  (rawLines [] input).filterMap (processLine ops)

/-- `C17n <hex input>` → results of the items separated by `;` (`-` when there is none) -/
def handleN (args : List String) : String :=
  match args with
  | [h] =>
    match unhex h with
    | none => "bad-op"
    | some bs =>
      let rs := (readNdjson bitsOps bs).map fun r => match r with
        | .ok v => "ok:" ++ showTree hex16 v
        | .err => "err"
        | .panic _ => "panic"
        | .fuel => "fuel"
      if rs.isEmpty then "-" else ";".intercalate rs
  | _ => "bad-op"

end VtModel.Ndjson
