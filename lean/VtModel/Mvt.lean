import VtModel.Prim
import VtModel.Csv
/-!
Mapbox-vector-tile layer of the model: `versatiles_geometry/src/vector_tile/{tile,layer,feature,
value,property_manager,geometry_type}.rs`, `geo/properties.rs` (`GeoProperties` = `BTreeMap`),
`geo/value.rs` (`parse_str`, `Display`), and the two pipeline operations
`versatiles_pipeline/src/operations/transform/vectortiles_update_properties.rs` (`Runner::run`,
building of `properties_map`) and `…/read/from_vectortiles_merged.rs` (`merge_tiles`,
`get_tile_data`).

Conventions
* strings are their UTF-8 bytes; `f32`/`f64` payloads are opaque 4/8-byte strings, equality = equality
  of bits – which is `GeoValue`'s `==` and `Hash` since `fix:` a692f070 (before, `==` was IEEE and
  `VTLPMap::add` merged +0.0 and −0.0 at random);
* `GeoProperties` (a `BTreeMap<String, GeoValue>`) is a key-sorted association list (`Props`);
* `VTLPMap` is its `list`; the `map` field is derived data (first index of every entry – true after
  the `fix:` commit 3b5b02f4 which made the layer reader append instead of de-duplicate);
* `PropertyManager::from_iter` (initial tables of `filter_map_properties`, ordered by frequency) is
  `fromIter`; the frame theorem is stated for an arbitrary table builder `mk` (no content depends on it),
  the driver runs the real one so that the operation's output is compared byte for byte;
* `GeoValue::Null` cannot be produced by the decoder or by `parse_str` and is omitted;
* float parsing / formatting (`str::parse::<f64>`, `f64::to_string`) are external: the case line
  carries their results for the cells / values that need them.
-/
namespace VtModel.Mvt
open VtModel VtModel.Prim

inductive Value where
  | str (s : Bytes)
  | float (bits : Bytes)
  | double (bits : Bytes)
  | int (i : Int)
  | uint (n : Nat)
  | bool (b : Bool)
deriving Repr, DecidableEq

structure Feature where
  id : Option Nat
  tags : List Nat
  gtype : Nat
  geom : Bytes
deriving Repr, DecidableEq

structure Layer where
  extent : Nat
  features : List Feature
  name : Bytes
  keys : List Bytes
  vals : List Value
  version : Nat
deriving Repr, DecidableEq

structure Tile where
  layers : List Layer
deriving Repr, DecidableEq

/-! ### values (`value.rs`) -/

/-- one iteration of `GeoValue::read` (value.rs:19-36); a later field overwrites an earlier one -/
def valueStep (_ : Option Value) (r : Reader) : Outcome (Option Value × Reader) := do
  let (k, r1) ← readPbfKey r
  match k with
  | (1, 2) => do
    let (n, r2) ← readVarint r1
    let (s, r3) ← readString r2 n
    pure (some (.str s), r3)
  | (2, 5) => do let (b, r2) ← readFixed 4 r1; pure (some (.float b), r2)
  | (3, 1) => do let (b, r2) ← readFixed 8 r1; pure (some (.double b), r2)
  | (4, 0) => do let (v, r2) ← readVarint r1; pure (some (.int (asI64 v)), r2)
  | (5, 0) => do let (v, r2) ← readVarint r1; pure (some (.uint v), r2)
  | (6, 0) => do let (i, r2) ← readSVarint r1; pure (some (.int i), r2)
  | (7, 0) => do let (v, r2) ← readVarint r1; pure (some (.bool (v != 0)), r2)
  | _ => .err

def decodeValue (b : Bytes) : Outcome Value := do
  let s ← whileRem valueStep none (Reader.ofBytes b)
  match s with
  | some v => pure v
  | none => .err

/-- `GeoValue::to_blob` (ints are always written as sint64, field 6) -/
def encodeValue : Value → Bytes
  | .str s => writePbfKey 1 2 ++ writePbfBlob s
  | .float b => writePbfKey 2 5 ++ b
  | .double b => writePbfKey 3 1 ++ b
  | .uint n => writePbfKey 5 0 ++ writeVarint n
  | .int i => writePbfKey 6 0 ++ writeSVarint i
  | .bool b => writePbfKey 7 0 ++ writeVarint (if b then 1 else 0)

/-! ### features (`feature.rs:31-83`) -/

/-- `GeomType::from(u64)`: 1,2,3 are kept, everything else is `Unknown = 0` -/
def geomType (v : Nat) : Nat := if 1 ≤ v ∧ v ≤ 3 then v else 0

def featureStep (f : Feature) (r : Reader) : Outcome (Feature × Reader) := do
  let (k, r1) ← readPbfKey r
  match k with
  | (1, 0) => do let (v, r2) ← readVarint r1; pure ({ f with id := some v }, r2)
  | (2, 2) => do let (l, r2) ← readPackedU32 r1; pure ({ f with tags := l }, r2)
  | (3, 0) => do let (v, r2) ← readVarint r1; pure ({ f with gtype := geomType v }, r2)
  | (4, 2) => do let (b, r2) ← readPbfBlob r1; pure ({ f with geom := b }, r2)
  | _ => .err

def Feature.empty : Feature := { id := none, tags := [], gtype := 0, geom := [] }

def decodeFeature (b : Bytes) : Outcome Feature := whileRem featureStep Feature.empty (Reader.ofBytes b)

def encodeFeature (f : Feature) : Bytes :=
  (match f.id with
   | some id => writePbfKey 1 0 ++ writeVarint id
   | none => []) ++
  ((if f.tags.isEmpty then [] else writePbfKey 2 2 ++ writePackedU32 f.tags) ++
  (writePbfKey 3 0 ++ writeVarint f.gtype ++
  (if f.geom.isEmpty then [] else writePbfKey 4 2 ++ writePbfBlob f.geom)))

/-! ### layers (`layer.rs:36-150`) -/

structure LayerSt where
  l : Layer
  named : Bool

def LayerSt.init : LayerSt :=
  { l := { extent := 4096, features := [], name := [], keys := [], vals := [], version := 1 }, named := false }

def layerStep (s : LayerSt) (r : Reader) : Outcome (LayerSt × Reader) := do
  let (k, r1) ← readPbfKey r
  match k with
  | (1, 2) => do
    let (n, r2) ← readPbfString r1
    pure ({ l := { s.l with name := n }, named := true }, r2)
  | (2, 2) => do
    let (sub, r2) ← readPbfSub r1
    let f ← decodeFeature sub
    pure ({ s with l := { s.l with features := s.l.features ++ [f] } }, r2)
  | (3, 2) => do
    let (n, r2) ← readPbfString r1
    pure ({ s with l := { s.l with keys := s.l.keys ++ [n] } }, r2)
  | (4, 2) => do
    let (sub, r2) ← readPbfSub r1
    let v ← decodeValue sub
    pure ({ s with l := { s.l with vals := s.l.vals ++ [v] } }, r2)
  | (5, 0) => do let (v, r2) ← readVarint r1; pure ({ s with l := { s.l with extent := v % U32 } }, r2)
  | (15, 0) => do let (v, r2) ← readVarint r1; pure ({ s with l := { s.l with version := v % U32 } }, r2)
  | _ => .err

def decodeLayer (b : Bytes) : Outcome Layer := do
  let s ← whileRem layerStep LayerSt.init (Reader.ofBytes b)
  if s.named then pure s.l else .err

def encodeLayer (l : Layer) : Bytes :=
  (writePbfKey 1 2 ++ writePbfBlob l.name) ++
  ((l.features.flatMap (fun f => writePbfKey 2 2 ++ writePbfBlob (encodeFeature f))) ++
  ((l.keys.flatMap (fun k => writePbfKey 3 2 ++ writePbfBlob k)) ++
  ((l.vals.flatMap (fun v => writePbfKey 4 2 ++ writePbfBlob (encodeValue v))) ++
  ((if l.extent = 4096 then [] else writePbfKey 5 0 ++ writeVarint l.extent) ++
  (if l.version = 1 then [] else writePbfKey 15 0 ++ writeVarint l.version)))))

/-! ### tiles (`tile.rs`) -/

def tileStep (ls : List Layer) (r : Reader) : Outcome (List Layer × Reader) := do
  let (k, r1) ← readPbfKey r
  match k with
  | (3, 2) => do
    let (sub, r2) ← readPbfSub r1
    let l ← decodeLayer sub
    pure (ls ++ [l], r2)
  | _ => .err

/-- `VectorTile::from_blob` -/
def decodeTile (b : Bytes) : Outcome Tile := do
  let ls ← whileRem tileStep [] (Reader.ofBytes b)
  pure ⟨ls⟩

/-- `VectorTile::to_blob` -/
def encodeTile (t : Tile) : Bytes :=
  t.layers.flatMap (fun l => writePbfKey 3 2 ++ writePbfBlob (encodeLayer l))

/-! ### property tables (`property_manager.rs`) and property maps (`geo/properties.rs`) -/

/-- lexicographic order of byte strings (= `Ord for String`) -/
def bytesLt : Bytes → Bytes → Bool
  | [], [] => false
  | [], _ :: _ => true
  | _ :: _, [] => false
  | a :: as, b :: bs => a.toNat < b.toNat || (a.toNat == b.toNat && bytesLt as bs)

abbrev Props := List (Bytes × Value)

/-- `BTreeMap::insert` on a key-sorted association list -/
def pinsert (k : Bytes) (v : Value) : Props → Props
  | [] => [(k, v)]
  | (k', v') :: t =>
    if k = k' then (k, v) :: t
    else if bytesLt k k' then (k, v) :: (k', v') :: t
    else (k', v') :: pinsert k v t

def plookup (k : Bytes) : Props → Option Value
  | [] => none
  | (k', v) :: t => if k = k' then some v else plookup k t

def premove (k : Bytes) : Props → Props
  | [] => []
  | (k', v) :: t => if k = k' then t else (k', v) :: premove k t

/-- `GeoProperties::update`: insert every pair of `new` -/
def pupdate (p new : Props) : Props := new.foldl (fun acc kv => pinsert kv.1 kv.2 acc) p

/-- `FromIterator` for `GeoProperties` -/
def pfromList (l : List (Bytes × Value)) : Props := pupdate [] l

/-- index of the first occurrence (`VTLPMap.map`) -/
def firstIdx {α} [DecidableEq α] (x : α) : List α → Option Nat
  | [] => none
  | y :: ys => if x = y then some 0 else (firstIdx x ys).map (· + 1)

/-- `VTLPMap::add` (de-duplicating, used when *encoding* tag ids) -/
def tblAdd {α} [DecidableEq α] (l : List α) (x : α) : List α × Nat :=
  match firstIdx x l with
  | some i => (l, i)
  | none => (l ++ [x], l.length)

/-- `PropertyManager::decode_tag_ids` (property_manager.rs:156-169): odd length, unknown key or
    value index → `Err`; pairs are inserted into a `BTreeMap` (a repeated key: last wins). -/
def decodePairs (keys : List Bytes) (vals : List Value) : List Nat → Props → Outcome Props
  | [], acc => .ok acc
  | [_], _ => .err
  | k :: v :: t, acc =>
    match keys[k]?, vals[v]? with
    | some kk, some vv => decodePairs keys vals t (pinsert kk vv acc)
    | _, _ => .err

def decodeTags (keys : List Bytes) (vals : List Value) (tags : List Nat) : Outcome Props :=
  decodePairs keys vals tags []

/-- `PropertyManager::encode_tag_ids` (property_manager.rs:145-154) -/
def encodeTags (keys : List Bytes) (vals : List Value) : Props → List Bytes × List Value × List Nat
  | [] => (keys, vals, [])
  | (k, v) :: t =>
    let (keys1, ki) := tblAdd keys k
    let (vals1, vi) := tblAdd vals v
    let (keys2, vals2, tg) := encodeTags keys1 vals1 t
    (keys2, vals2, ki :: vi :: tg)

/-! ### semantic content -/

structure SemFeature where
  id : Option Nat
  gtype : Nat
  geom : Bytes
  props : Props
deriving Repr, DecidableEq

structure SemLayer where
  name : Bytes
  extent : Nat
  version : Nat
  feats : List SemFeature
deriving Repr, DecidableEq

def semFeature (keys : List Bytes) (vals : List Value) (f : Feature) : Option SemFeature :=
  match decodeTags keys vals f.tags with
  | .ok p => some { id := f.id, gtype := f.gtype, geom := f.geom, props := p }
  | _ => none

def semFeatures (keys : List Bytes) (vals : List Value) : List Feature → Option (List SemFeature)
  | [] => some []
  | f :: t =>
    match semFeature keys vals f, semFeatures keys vals t with
    | some sf, some st => some (sf :: st)
    | _, _ => none

/-- `none` when some feature refers to a table entry that does not exist (not a valid tile) -/
def semLayer (l : Layer) : Option SemLayer :=
  match semFeatures l.keys l.vals l.features with
  | some fs => some { name := l.name, extent := l.extent, version := l.version, feats := fs }
  | none => none

def semTile (t : Tile) : List (Option SemLayer) := t.layers.map semLayer

/-! ### `PropertyManager::from_iter` (property_manager.rs:128-160): the rebuilt tables

Every key / value of the given property sets exactly once, ordered by (number of uses, value) –
`sort_unstable_by(|a, b| a.1.cmp(&b.1).then_with(|| a.0.cmp(&b.0)))` on the entries of the counting
`HashMap` (the comparison is a total order on distinct entries, so the hash order is irrelevant).
`Ord for GeoValue` (geo/value.rs): variant rank String < Float < Double < Int < UInt < Bool, inside a
variant the natural order; floats by `total_cmp` (since `fix:` a692f070). -/

def leNat (b : Bytes) : Nat := b.foldr (fun x acc => x.toNat + 256 * acc) 0

/-- key of `f32::total_cmp` / `f64::total_cmp` on the bit pattern (`bits` = width): negative numbers below
    positive ones, larger magnitude first among the negative -/
def floatKey (bits : Nat) (b : Bytes) : Nat :=
  let v := leNat b
  if v < 2 ^ (bits - 1) then v + 2 ^ (bits - 1) else 2 ^ bits - 1 - v

def valueRank : Value → Nat
  | .str _ => 0
  | .float _ => 1
  | .double _ => 2
  | .int _ => 3
  | .uint _ => 4
  | .bool _ => 5

/-- `a < b` in `Ord for GeoValue` -/
def valueLt : Value → Value → Bool
  | .str a, .str b => bytesLt a b
  | .float a, .float b => floatKey 32 a < floatKey 32 b
  | .double a, .double b => floatKey 64 a < floatKey 64 b
  | .int a, .int b => a < b
  | .uint a, .uint b => a < b
  | .bool a, .bool b => !a && b
  | a, b => valueRank a < valueRank b

/-- `map.entry(x).and_modify(|n| *n += 1).or_insert(0)` on an association list -/
def bump {α} [DecidableEq α] (x : α) : List (α × Nat) → List (α × Nat)
  | [] => [(x, 0)]
  | (y, n) :: t => if x = y then (y, n + 1) :: t else (y, n) :: bump x t

/-- insertion into a list ordered by (count, value) -/
def insertEntry {α} (lt : α → α → Bool) (e : α × Nat) : List (α × Nat) → List (α × Nat)
  | [] => [e]
  | h :: t => if h.2 < e.2 || (h.2 == e.2 && lt h.1 e.1) then h :: insertEntry lt e t else e :: h :: t

/-- `make_lookup`: entries sorted by (count, value), counts dropped -/
def makeLookup {α} (lt : α → α → Bool) (m : List (α × Nat)) : List α :=
  (m.foldr (insertEntry lt) []).map (·.1)

def bumpAll {α} [DecidableEq α] (xs : List α) (m : List (α × Nat)) : List (α × Nat) :=
  xs.foldl (fun m x => bump x m) m

/-- the counting loop over all pairs of all property sets, in order -/
def countKeys (ps : List Props) : List (Bytes × Nat) := bumpAll ((ps.flatMap id).map (·.1)) []

def countVals (ps : List Props) : List (Value × Nat) := bumpAll ((ps.flatMap id).map (·.2)) []

/-- `PropertyManager::from_iter` -/
def fromIter (ps : List Props) : List Bytes × List Value :=
  (makeLookup bytesLt (countKeys ps), makeLookup valueLt (countVals ps))

/-! ### `VectorTileLayer::filter_map_properties` (layer.rs:154-180) -/

/-- first pass: `decode_tag_ids(&feature.tag_ids)` then `filter_fn`; an invalid tag id is an `Err`
    (since `fix:` e60b9a05; before, `.unwrap()` made it a panic) -/
def fmpDecode (keys : List Bytes) (vals : List Value) (f : Props → Option Props) :
    List Feature → Outcome (List (Feature × Props))
  | [] => .ok []
  | ft :: t =>
    match decodeTags keys vals ft.tags with
    | .ok p =>
      match fmpDecode keys vals f t with
      | .ok rest =>
        match f p with
        | some p' => .ok ((ft, p') :: rest)
        | none => .ok rest
      | .err => .err
      | .panic => .panic
    | .err => .err
    | .panic => .panic

/-- third pass: `f.tag_ids = self.encode_tag_ids(p)` in order, tables growing -/
def fmpEncode (keys : List Bytes) (vals : List Value) :
    List (Feature × Props) → List Bytes × List Value × List Feature
  | [] => (keys, vals, [])
  | (ft, p) :: t =>
    let (keys1, vals1, tg) := encodeTags keys vals p
    let (keys2, vals2, fs) := fmpEncode keys1 vals1 t
    (keys2, vals2, { ft with tags := tg } :: fs)

def filterMapProps (mk : List Props → List Bytes × List Value) (f : Props → Option Props) (l : Layer) :
    Outcome Layer :=
  match fmpDecode l.keys l.vals f l.features with
  | .ok fps =>
    let (k0, v0) := mk (fps.map (·.2))
    let (keys, vals, fs) := fmpEncode k0 v0 fps
    .ok { l with features := fs, keys := keys, vals := vals }
  | .err => .err
  | .panic => .panic

/-! ### `vectortiles_update_properties` -/

structure UpdArgs where
  layer : Bytes
  idTiles : Bytes
  idData : Bytes
  replace : Bool
  remove : Bool
  includeId : Bool

/-- `HashMap<String, GeoProperties>` as an association list (first match) -/
abbrev DataMap := List (Bytes × Props)

def dlookup (k : Bytes) : DataMap → Option Props
  | [] => none
  | (k', p) :: t => if k = k' then some p else dlookup k t

/-- `HashMap::insert` (replaces the entry of an equal key) -/
def dinsert (k : Bytes) (p : Props) : DataMap → DataMap
  | [] => [(k, p)]
  | (k', p') :: t => if k = k' then (k, p) :: t else (k', p') :: dinsert k p t

/-- the closure passed to `filter_map_properties` (update_properties.rs:63-83);
    `fmt` = `GeoValue::to_string` -/
def joinFn (a : UpdArgs) (fmt : Value → Bytes) (m : DataMap) (p : Props) : Option Props :=
  match plookup a.idTiles p with
  | none => some p
  | some id =>
    match dlookup (fmt id) m with
    | some np => some (if a.replace then np else pupdate p np)
    | none => if a.remove then none else some p

def mapLayers (g : Layer → Outcome Layer) : List Layer → Outcome (List Layer)
  | [] => .ok []
  | l :: t =>
    match g l with
    | .ok l' =>
      match mapLayers g t with
      | .ok t' => .ok (l' :: t')
      | .err => .err
      | .panic => .panic
    | .err => .err
    | .panic => .panic

/-- the loop over `tile.layers` in `Runner::run` -/
def updateTile (mk : List Props → List Bytes × List Value) (a : UpdArgs) (fmt : Value → Bytes)
    (m : DataMap) (t : Tile) : Outcome Tile :=
  match mapLayers (fun l => if l.name = a.layer then filterMapProps mk (joinFn a fmt m) l else .ok l) t.layers with
  | .ok ls => .ok ⟨ls⟩
  | .err => .err
  | .panic => .panic

/-- `Runner::run` on an uncompressed blob: decode, update, encode -/
def runUpdate (mk : List Props → List Bytes × List Value) (a : UpdArgs) (fmt : Value → Bytes)
    (m : DataMap) (b : Bytes) : Outcome Bytes :=
  match decodeTile b with
  | .ok t =>
    match updateTile mk a fmt m t with
    | .ok t' => .ok (encodeTile t')
    | .err => .err
    | .panic => .panic
  | .err => .err
  | .panic => .panic

/-- building `properties_map` (update_properties.rs:113-131): key = `row[id_field_data].to_string()`
    (missing column → `Err`), the id column is dropped unless `include_id`; later rows replace earlier ones -/
def buildDataMap (a : UpdArgs) (fmt : Value → Bytes) : List Props → DataMap → Outcome DataMap
  | [], m => .ok m
  | row :: t, m =>
    match plookup a.idData row with
    | none => .err
    | some idv =>
      let row' := if a.includeId then row else premove a.idData row
      buildDataMap a fmt t (dinsert (fmt idv) row' m)

/-! ### `from_vectortiles_merged` -/

/-- `VectorTileLayer::add_from_layer` (layer.rs:214-223) -/
def addFeatures (src : Layer) : List Feature → Layer → Outcome Layer
  | [], tgt => .ok tgt
  | ft :: t, tgt =>
    match decodeTags src.keys src.vals ft.tags with
    | .ok p =>
      let (keys, vals, tg) := encodeTags tgt.keys tgt.vals p
      addFeatures src t { tgt with keys := keys, vals := vals, features := tgt.features ++ [{ ft with tags := tg }] }
    | .err => .err
    | .panic => .panic

def addFromLayer (tgt src : Layer) : Outcome Layer := addFeatures src src.features tgt

/-- `layers.get_mut(name)` / `layers.insert(name, layer)`; the map `String → Layer` is an association
    list in order of first insertion; the real map is a `BTreeMap` (since /repo d0cb5799) whose
    iteration order – ascending by name – is applied once at the end, in `mergedTile`. -/
def mergeLayer : List Layer → Layer → Outcome (List Layer)
  | [], nl => .ok [nl]
  | l :: t, nl =>
    if l.name = nl.name then
      match addFromLayer l nl with
      | .ok l' => .ok (l' :: t)
      | .err => .err
      | .panic => .panic
    else
      match mergeLayer t nl with
      | .ok t' => .ok (l :: t')
      | .err => .err
      | .panic => .panic

def mergeLayers : List Layer → List Layer → Outcome (List Layer)
  | acc, [] => .ok acc
  | acc, nl :: t =>
    match mergeLayer acc nl with
    | .ok acc' => mergeLayers acc' t
    | .err => .err
    | .panic => .panic

/-- `merge_tiles` (from_vectortiles_merged.rs:27-41) up to the decoded result -/
def mergeBlobs : List Layer → List Bytes → Outcome (List Layer)
  | acc, [] => .ok acc
  | acc, b :: t =>
    match decodeTile b with
    | .ok tile =>
      match mergeLayers acc tile.layers with
      | .ok acc' => mergeBlobs acc' t
      | .err => .err
      | .panic => .panic
    | .err => .err
    | .panic => .panic

/-- insertion into a list of layers ordered by name -/
def insertByName (l : Layer) : List Layer → List Layer
  | [] => [l]
  | x :: t => if bytesLt x.name l.name then x :: insertByName l t else l :: x :: t

def sortByName : List Layer → List Layer
  | [] => []
  | l :: t => insertByName l (sortByName t)

/-- `get_tile_data` of the merged operation: sources without a tile are skipped; no tile at all →
    `None`; otherwise `merge_tiles` (sources already decompressed).  The layers leave the
    `BTreeMap<String, VectorTileLayer>` (since `fix:` d0cb5799) in ascending order of their names:
    `sortByName` of the accumulated association list (names are distinct there). -/
def mergedTile (srcs : List (Option Bytes)) : Outcome (Option Tile) :=
  match srcs.filterMap id with
  | [] => .ok none
  | blobs =>
    match mergeBlobs [] blobs with
    | .ok ls => .ok (some ⟨sortByName ls⟩)
    | .err => .err
    | .panic => .panic

/-! ### `GeoValue::parse_str` / `Display` (geo/value.rs) -/

def isDigit (b : UInt8) : Bool := 48 ≤ b.toNat && b.toNat ≤ 57

def dropDigits : Bytes → Bytes
  | [] => []
  | b :: t => if isDigit b then dropDigits t else b :: t

/-- `^\-?\d*\.\d+$` (ASCII digits; other Unicode digits are outside the model) -/
def looksDouble (s : Bytes) : Bool :=
  let s1 := match s with
    | b :: t => if b.toNat = 45 then t else s
    | [] => s
  match dropDigits s1 with
  | b :: fp => b.toNat = 46 && !fp.isEmpty && fp.all isDigit
  | [] => false

/-- `^\-\d+$` -/
def looksInt (s : Bytes) : Bool :=
  match s with
  | b :: t => b.toNat = 45 && !t.isEmpty && t.all isDigit
  | [] => false

/-- `^\d+$` -/
def looksUInt (s : Bytes) : Bool := !s.isEmpty && s.all isDigit

def natOfDigits (l : Bytes) : Nat := l.foldl (fun a b => a * 10 + (b.toNat - 48)) 0

def strBytes (s : String) : Bytes := s.toUTF8.toList

/-- `"true"` / `"false"` -/
def trueBytes : Bytes := [116, 114, 117, 101]
def falseBytes : Bytes := [102, 97, 108, 115, 101]

/-- `parse_str` (after `fix:` e2ec8fec); `dbl` = bits of `value.parse::<f64>()` supplied from outside for
    double-looking cells; a digit string outside the `i64` / `u64` range stays a string
    (before that commit `.parse().unwrap()` panicked on it) -/
def parseStr (s : Bytes) (dbl : Option Bytes) : Outcome Value :=
  if s.isEmpty then .ok (.str [])
  else if s = trueBytes then .ok (.bool true)
  else if s = falseBytes then .ok (.bool false)
  else if looksDouble s then
    match dbl with
    | some bits => .ok (.double bits)
    | none => .err   -- protocol error: the harness always supplies the bits
  else if looksInt s then
    let n := natOfDigits (s.drop 1)
    if n ≤ 2 ^ 63 then .ok (.int (-(n : Int))) else .ok (.str s)
  else if looksUInt s then
    let n := natOfDigits s
    if n < U64 then .ok (.uint n) else .ok (.str s)
  else .ok (.str s)

/-- `Display for GeoValue`; floats via the table supplied from outside -/
def fmtValue (tbl : List (Value × Bytes)) : Value → Bytes
  | .str s => s
  | .int i => strBytes (toString i)
  | .uint n => strBytes (toString n)
  | .bool b => strBytes (if b then "true" else "false")
  | v => match tbl.lookup v with
    | some d => d
    | none => strBytes "?float?"

/-! ### canonical dump of the semantic content -/

def dumpValue : Value → String
  | .str s => "s" ++ hexOfBytes s
  | .float b => "f" ++ hexOfBytes b
  | .double b => "d" ++ hexOfBytes b
  | .int i => "i" ++ toString i
  | .uint n => "u" ++ toString n
  | .bool b => if b then "b1" else "b0"

def dumpProps (p : Props) : String :=
  if p.isEmpty then "-" else "&".intercalate (p.map (fun kv => hexOfBytes kv.1 ++ "=" ++ dumpValue kv.2))

def dumpFeature (keys : List Bytes) (vals : List Value) (f : Feature) : String :=
  let id := match f.id with
    | some i => toString i
    | none => "-"
  let props := match decodeTags keys vals f.tags with
    | .ok p => dumpProps p
    | _ => "!"
  s!"{id},{f.gtype},{hexOfBytes f.geom},{props}"

def dumpLayer (l : Layer) : String :=
  s!"{hexOfBytes l.name}:{l.extent}:{l.version}:" ++
    (if l.features.isEmpty then "." else "/".intercalate (l.features.map (dumpFeature l.keys l.vals)))

def dumpLayers (ls : List Layer) : String :=
  if ls.isEmpty then "empty" else "|".intercalate (ls.map dumpLayer)

/-! ### line protocol

`C11d <tilehex>` → `ok <hex of to_blob(from_blob)> <dump of the re-decoded result>` | `err` | `panic`

`C11u <flags rmi> <layer> <idTiles> <idData> <csvhex> <dbl> <fmt> <tilehex>`
  csvhex: the bytes of the data file; dbl: `texthex~bits~display,…` for its double-looking cells or `.`;
  fmt: `f<bits>=<hex>,d<bits>=<hex>` or `.`
  → `builderr` | `ok <hex of the output tile> <dump>` | `err` | `panic`

`C10m <src>,<src>,…` (src = `none` | tilehex) → `none` | `ok <dump, layers in output order>` | `err` | `panic`
-/

def noTables (_ : List Props) : List Bytes × List Value := ([], [])

def handleDecode (args : List String) : String :=
  match args with
  | [h] =>
    match bytesOfHex h with
    | none => "bad-op"
    | some b =>
      match decodeTile b with
      | .ok t =>
        let e := encodeTile t
        match decodeTile e with
        | .ok t2 => s!"ok {hexOfBytes e} {dumpLayers t2.layers}"
        | .err => "ok-then-err"
        | .panic => "ok-then-panic"
      | .err => "err"
      | .panic => "panic"
  | _ => "bad-op"

structure Cell where
  text : Bytes
  dbl : Option (Bytes × Bytes)

def parseCell (s : String) : Option Cell :=
  match s.splitOn "~" with
  | [t] => do let t ← bytesOfHex t; pure ⟨t, none⟩
  | [t, b, d] => do
    let t ← bytesOfHex t
    let b ← bytesOfHex b
    let d ← bytesOfHex d
    pure ⟨t, some (b, d)⟩
  | _ => none

def parseRows (s : String) : Option (List (List Cell)) :=
  if s == "." then some [] else (s.splitOn ";").mapM (fun r => (r.splitOn ",").mapM parseCell)

def parseFmt (s : String) : Option (List (Value × Bytes)) :=
  if s == "." then some [] else
  (s.splitOn ",").mapM (fun e =>
    match e.splitOn "=" with
    | [v, d] => do
      let d ← bytesOfHex d
      match v.toList with
      | 'f' :: bits => do let b ← bytesOfHex (String.ofList bits); pure (Value.float b, d)
      | 'd' :: bits => do let b ← bytesOfHex (String.ofList bits); pure (Value.double b, d)
      | _ => none
    | _ => none)

/-- one CSV row → `GeoProperties::from_iter(header[col], parse_str(cell))`; a row whose number of
    fields differs from the header is an error of `read_csv_iter` -/
def rowProps (header : List Bytes) (cells : List Cell) : Outcome (Props × List (Value × Bytes)) :=
  if cells.length ≠ header.length then .err else
  let rec go : List Bytes → List Cell → Props → List (Value × Bytes) → Outcome (Props × List (Value × Bytes))
    | h :: hs, c :: cs, acc, ft =>
      match parseStr c.text (c.dbl.map (·.1)) with
      | .ok v =>
        let ft' := match c.dbl, v with
          | some (_, d), .double _ => (v, d) :: ft
          | _, _ => ft
        go hs cs (pinsert h v acc) ft'
      | .err => .err
      | .panic => .panic
    | _, _, acc, ft => .ok (acc, ft)
  go header cells [] []

def rowsProps (header : List Bytes) : List (List Cell) → Outcome (List Props × List (Value × Bytes))
  | [] => .ok ([], [])
  | r :: t =>
    match rowProps header r with
    | .ok (p, ft) =>
      match rowsProps header t with
      | .ok (ps, ft2) => .ok (p :: ps, ft ++ ft2)
      | .err => .err
      | .panic => .panic
    | .err => .err
    | .panic => .panic

/-- the double-looking cells of the file with what `str::parse::<f64>` / `f64::to_string` make of them
    (external): `texthex~bits~display,…` or `.` -/
def parseDbl (s : String) : Option (List (Bytes × Bytes × Bytes)) :=
  if s == "." then some [] else
  (s.splitOn ",").mapM (fun e =>
    match e.splitOn "~" with
    | [t, b, d] => do
      let t ← bytesOfHex t
      let b ← bytesOfHex b
      let d ← bytesOfHex d
      pure (t, b, d)
    | _ => none)

/-- `read_csv_file`: lex the file (`VtModel.Csv.table`), header = first record, every further record
    becomes a property set `header[col] ↦ parse_str(cell)` -/
def csvProps (dbl : List (Bytes × Bytes × Bytes)) (csv : Bytes) :
    Outcome (List Props × List (Value × Bytes)) :=
  match VtModel.Csv.table 44 csv with
  | .ok (header, rows) =>
    rowsProps header (rows.map (fun r => r.map (fun t => (⟨t, dbl.lookup t⟩ : Cell))))
  | .err => .err
  | .panic => .panic

/-- the data map of the operation, from the text of the data file -/
def dataMapOfCsv (a : UpdArgs) (fmt0 : List (Value × Bytes)) (dbl : List (Bytes × Bytes × Bytes)) (csv : Bytes) :
    Outcome (DataMap × (Value → Bytes)) :=
  match csvProps dbl csv with
  | .ok (ps, ft) =>
    let f := fmtValue (fmt0 ++ ft)
    match buildDataMap a f ps [] with
    | .ok m => .ok (m, f)
    | .err => .err
    | .panic => .panic
  | .err => .err
  | .panic => .panic

def handleUpdate (args : List String) : String :=
  match args with
  | [flags, layer, idT, idD, csv, dbl, fmt, tile] =>
    let r := do
      let fl ← (match flags.toList with
        | [a, b, c] => some (a == '1', b == '1', c == '1')
        | _ => none)
      let layer ← bytesOfHex layer
      let idT ← bytesOfHex idT
      let idD ← bytesOfHex idD
      let csv ← bytesOfHex csv
      let dbl ← parseDbl dbl
      let fmt ← parseFmt fmt
      let tile ← bytesOfHex tile
      pure (fl, layer, idT, idD, csv, dbl, fmt, tile)
    match r with
    | none => "bad-op"
    | some ((rep, rem, inc), layer, idT, idD, csv, dbl, fmt, tile) =>
      let a : UpdArgs := { layer := layer, idTiles := idT, idData := idD, replace := rep, remove := rem, includeId := inc }
      match dataMapOfCsv a fmt dbl csv with
      | .err => "builderr"
      | .panic => "buildpanic"
      | .ok (m, f) =>
        match runUpdate fromIter a f m tile with
        | .ok out =>
          match decodeTile out with
          | .ok t => "ok " ++ hexOfBytes out ++ " " ++ dumpLayers t.layers
          | _ => "ok-then-fail"
        | .err => "err"
        | .panic => "panic"
  | _ => "bad-op"

def handleMerge (args : List String) : String :=
  match args with
  | [srcs] =>
    let ps := (srcs.splitOn ",").mapM (fun s => if s == "none" then some none else (bytesOfHex s).map some)
    match ps with
    | none => "bad-op"
    | some ps =>
      match mergedTile ps with
      | .ok none => "none"
      | .ok (some t) =>
        match decodeTile (encodeTile t) with
        | .ok t2 => "ok " ++ dumpLayers t2.layers
        | _ => "ok-then-fail"
      | .err => "err"
      | .panic => "panic"
  | _ => "bad-op"

end VtModel.Mvt
