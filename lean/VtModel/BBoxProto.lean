import VtModel.Pyramid
import VtModel.Geo
import VtModel.BBoxExtra
/-! Line protocol for stream `C15` (boxes, pyramids, geo). -/
namespace VtModel.BBoxProto
open VtModel VtModel.BBox

def parseBox (s : String) : Option BBox :=
  match s.splitOn ":" with
  | [l, r] =>
    match l.toNat?, parseNats (r.splitOn ",") with
    | some l, some [a, b, c, d] => some ⟨l, a, b, c, d⟩
    | _, _ => none
  | _ => none

def parsePyr (s : String) : Option Pyramid := (s.splitOn "/").mapM parseBox

def b2s (b : Bool) : String := if b then "1" else "0"

def showPair (c : Nat × Nat) : String := s!"{c.1},{c.2}"

/-- floats travel as the decimal u64 bit pattern -/
def parseF (s : String) : Option Float := s.toNat?.map (fun n => Float.ofBits n.toUInt64)

def handle (args : List String) : String :=
  match args with
  | ["new", l, a, b, c, d] =>
    match parseNats [l, a, b, c, d] with
    | some [l, a, b, c, d] => showO render (BBox.new l a b c d)
    | _ => "bad-op"
  | ["full", l] => match l.toNat? with
    | some l => showO render (newFull l)
    | none => "bad-op"
  | ["empty", l] => match l.toNat? with
    | some l => showO render (newEmpty l)
    | none => "bad-op"
  | ["info", a] => match parseBox a with
    | some a => s!"empty={b2s a.isEmpty} w={a.width} h={a.height} n={a.countTiles}"
    | none => "bad-op"
  | ["isect", a, b] => match parseBox a, parseBox b with
    | some a, some b => showO render (a.intersectBBox b)
    | _, _ => "bad-op"
  | ["incl", a, b] => match parseBox a, parseBox b with
    | some a, some b => showO render (a.includeBBox b)
    | _, _ => "bad-op"
  | ["ovl", a, b] => match parseBox a, parseBox b with
    | some a, some b => showO b2s (a.overlapsBBox b)
    | _, _ => "bad-op"
  | ["has", a, x, y, z] => match parseBox a, parseNats [x, y, z] with
    | some a, some [x, y, z] => s!"{b2s (a.contains2 x y)}{b2s (a.contains3 x y z)}"
    | _, _ => "bad-op"
  | ["inclc", a, x, y] => match parseBox a, parseNats [x, y] with
    | some a, some [x, y] => render (a.includeCoord x y)
    | _, _ => "bad-op"
  | ["border", a, p, q, r, s] => match parseBox a, parseNats [p, q, r, s] with
    | some a, some [p, q, r, s] => showO render (a.addBorder p q r s)
    | _, _ => "bad-op"
  | ["iter", a] => match parseBox a with
    | some a => showCoords a.iterCoords
    | none => "bad-op"
  | ["grid", a, n] => match parseBox a, n.toNat? with
    | some a, some n => showO showBoxes (a.iterBBoxGrid n)
    | _, _ => "bad-op"
  | ["idx", a, x, y] => match parseBox a, parseNats [x, y] with
    | some a, some [x, y] => showO toString (a.tileIndex x y)
    | _, _ => "bad-op"
  | ["cbi", a, i] => match parseBox a, i.toNat? with
    | some a, some i => showO showPair (a.coordByIndex i)
    | _, _ => "bad-op"
  | ["flip", a] => match parseBox a with
    | some a => showO render a.flipY
    | none => "bad-op"
  | ["swap", a] => match parseBox a with
    | some a => render a.swapXY
    | none => "bad-op"
  | ["scale", a, n] => match parseBox a, n.toNat? with
    | some a, some n => showO render (a.scaleDown n)
    | _, _ => "bad-op"
  | ["shift", a, x, y] => match parseBox a, parseNats [x, y] with
    | some a, some [x, y] => render (a.shiftBy x y)
    | _, _ => "bad-op"
  | ["sub", a, x, y] => match parseBox a, parseNats [x, y] with
    | some a, some [x, y] => render (a.subtract x y)
    | _, _ => "bad-op"
  | ["setempty", a] => match parseBox a with
    | some a => render a.setEmpty
    | none => "bad-op"
  | ["cflip", x, y, z] => match parseNats [x, y, z] with
    | some [x, y, z] => showO (fun (c : Nat × Nat × Nat) => s!"{c.1},{c.2.1},{c.2.2}") (coordFlipY x y z)
    | _ => "bad-op"
  -- pyramids
  | ["p_full", z] => match z.toNat? with
    | some z => Pyramid.render (Pyramid.newFull z)
    | none => "bad-op"
  | ["p_empty"] => Pyramid.render Pyramid.newEmpty
  | ["p_isect", p, q] => match parsePyr p, parsePyr q with
    | some p, some q => showO Pyramid.render (Pyramid.intersect p q)
    | _, _ => "bad-op"
  | ["p_inclp", p, q] => match parsePyr p, parsePyr q with
    | some p, some q => showO Pyramid.render (Pyramid.includePyramid p q)
    | _, _ => "bad-op"
  | ["p_inclb", p, b] => match parsePyr p, parseBox b with
    | some p, some b => showO Pyramid.render (Pyramid.includeBBox p b)
    | _, _ => "bad-op"
  | ["p_inclc", p, x, y, z] => match parsePyr p, parseNats [x, y, z] with
    | some p, some [x, y, z] => showO Pyramid.render (Pyramid.includeCoord p x y z)
    | _, _ => "bad-op"
  | ["p_zmin", p, z] => match parsePyr p, z.toNat? with
    | some p, some z => Pyramid.render (Pyramid.setZoomMin p z)
    | _, _ => "bad-op"
  | ["p_zmax", p, z] => match parsePyr p, z.toNat? with
    | some p, some z => Pyramid.render (Pyramid.setZoomMax p z)
    | _, _ => "bad-op"
  | ["p_info", p] => match parsePyr p with
    | some p =>
      let o : Option Nat → String := fun | some n => toString n | none => "-"
      s!"zmin={o (Pyramid.zoomMin p)} zmax={o (Pyramid.zoomMax p)} n={Pyramid.countTiles p} empty={b2s (Pyramid.isEmpty p)} levels={(Pyramid.iterLevels p).length}"
    | none => "bad-op"
  | ["p_has", p, x, y, z] => match parsePyr p, parseNats [x, y, z] with
    | some p, some [x, y, z] => b2s (Pyramid.containsCoord p x y z)
    | _, _ => "bad-op"
  | ["p_ovl", p, b] => match parsePyr p, parseBox b with
    | some p, some b => b2s (Pyramid.overlapsBBox p b)
    | _, _ => "bad-op"
  | ["p_eq", p, q] => match parsePyr p, parsePyr q with
    | some p, some q => b2s (Pyramid.beq p q)
    | _, _ => "bad-op"
  | ["p_flip", p] => match parsePyr p with
    | some p => showO Pyramid.render (Pyramid.flipY p)
    | none => "bad-op"
  | ["p_swap", p] => match parsePyr p with
    | some p => Pyramid.render (Pyramid.swapXY p)
    | none => "bad-op"
  | ["p_border", p, a, b, c, d] => match parsePyr p, parseNats [a, b, c, d] with
    | some p, some [a, b, c, d] => showO Pyramid.render (Pyramid.addBorder p a b c d)
    | _, _ => "bad-op"
  | ["p_geo", p, w, s, e, n] => match parsePyr p, parseF w, parseF s, parseF e, parseF n with
    | some p, some w, some s, some e, some n => showO Pyramid.render (Geo.pyramidIntersectGeo p ⟨w, s, e, n⟩)
    | _, _, _, _, _ => "bad-op"
  -- geo (floats as u64 bit patterns)
  | ["g_from", z, w, s, e, n] => match z.toNat?, parseF w, parseF s, parseF e, parseF n with
    | some z, some w, some s, some e, some n => showO render (Geo.bboxFromGeo z ⟨w, s, e, n⟩)
    | _, _, _, _, _ => "bad-op"
  | ["g_coord", z, x, y, up] => match z.toNat?, parseF x, parseF y with
    | some z, some x, some y => showO showPair (Geo.coordFromGeo x y z (up == "1"))
    | _, _, _ => "bad-op"
  | ["g_rt", a] => match parseBox a with
    | some a => showO render (Geo.roundTrip a)
    | none => "bad-op"
  -- further functions (VtModel.BBoxExtra)
  | ["inc3", a, x, y, z] => match parseBox a, parseNats [x, y, z] with
    | some a, some [x, y, z] => showO render (BBoxExtra.includeCoord3 a x y z)
    | _, _ => "bad-op"
  | ["ipyr", a, p] => match parseBox a, parsePyr p with
    | some a, some p => showO render (BBoxExtra.intersectPyramid a p)
    | _, _ => "bad-op"
  | ["cbi3", a, i] => match parseBox a, i.toNat? with
    | some a, some i => showO (fun (c : Nat × Nat × Nat) => s!"{c.1},{c.2.1},{c.2.2}") (BBoxExtra.coord3ByIndex a i)
    | _, _ => "bad-op"
  | ["valid", x, y, z] => match parseNats [x, y, z] with
    | some [x, y, z] => b2s (BBoxExtra.isValid x y z)
    | _ => "bad-op"
  | ["sidx", x, y, z] => match parseNats [x, y, z] with
    | some [x, y, z] => showO toString (BBoxExtra.sortIndex x y z)
    | _ => "bad-op"
  | ["p_good", p] => match parsePyr p with
    | some p =>
      let o : Option Nat → String := fun | some n => toString n | none => "-"
      s!"good={o (BBoxExtra.goodZoom p)} czoom={o (BBoxExtra.centerZoom p)}"
    | none => "bad-op"
  | ["p_fromgeo", a, b, w, s, e, n] => match parseNats [a, b], parseF w, parseF s, parseF e, parseF n with
    | some [a, b], some w, some s, some e, some n => showO Pyramid.render (BBoxExtra.fromGeoBBox a b ⟨w, s, e, n⟩)
    | _, _, _, _, _ => "bad-op"
  | _ => "bad-op"

end VtModel.BBoxProto
