import VtModel.BBox
/-!
Model of `versatiles_core/src/types/tile_bbox_pyramid.rs` (`TileBBoxPyramid`): an array of 32
`TileBBox`es, one per zoom level, here a `List BBox` (well-formed: length 32, `p[z].level = z`).
-/
namespace VtModel

abbrev Pyramid := List BBox

namespace Pyramid
open BBox

def levels : List Nat := List.range 32

def newEmpty : Pyramid := levels.map fun z => ⟨z, 2 ^ z - 1 + 1, 2 ^ z - 1 + 1, 0, 0⟩

def newFull (maxZoom : Nat) : Pyramid :=
  levels.map fun z => if z ≤ maxZoom then ⟨z, 0, 0, 2 ^ z - 1, 2 ^ z - 1⟩ else ⟨z, 2 ^ z - 1 + 1, 2 ^ z - 1 + 1, 0, 0⟩

/-- apply a per-level fallible update to every level; any `err` is `unwrap`ped to a panic -/
def mapLevels (f : BBox → Outcome BBox) (p : Pyramid) : Outcome Pyramid :=
  BBox.mapM (fun b => (f b).unwrap) p

/-- `get_level_bbox(level)`: array index – out of range panics -/
def getLevel (p : Pyramid) (z : Nat) : Outcome BBox :=
  match p[z]? with
  | some b => .ok b
  | none => .panic

/-- `intersect` -/
def intersect (p q : Pyramid) : Outcome Pyramid :=
  BBox.mapM (fun b => match q[b.level]? with
    | some o => (b.intersectBBox o).unwrap
    | none => .panic) p

/-- update one level by index (panics when out of range, like `self.level_bbox[i]`) -/
def updateLevel (p : Pyramid) (z : Nat) (f : BBox → Outcome BBox) : Outcome Pyramid :=
  match p[z]? with
  | none => .panic
  | some b => match (f b).unwrap with
    | .ok b' => .ok (p.set z b')
    | _ => .panic

/-- `include_coord` -/
def includeCoord (p : Pyramid) (x y z : Nat) : Outcome Pyramid :=
  p.updateLevel z (fun b => .ok (b.includeCoord x y))

/-- `include_bbox` -/
def includeBBox (p : Pyramid) (b : BBox) : Outcome Pyramid :=
  p.updateLevel b.level (fun a => a.includeBBox b)

/-- `iter_levels` -/
def iterLevels (p : Pyramid) : List BBox := p.filter (fun b => !b.isEmpty)

/-- `include_bbox_pyramid` -/
def includePyramid (p q : Pyramid) : Outcome Pyramid :=
  (iterLevels q).foldl (fun acc b => acc.bind (fun a => includeBBox a b)) (.ok p)

/-- `set_level_bbox` -/
def setLevel (p : Pyramid) (b : BBox) : Outcome Pyramid :=
  if b.level < p.length then .ok (p.set b.level b) else .panic

def setZoomMin (p : Pyramid) (zmin : Nat) : Pyramid :=
  p.mapIdx fun i b => if i < zmin then b.setEmpty else b

def setZoomMax (p : Pyramid) (zmax : Nat) : Pyramid :=
  p.mapIdx fun i b => if i > zmax then b.setEmpty else b

def containsCoord (p : Pyramid) (x y z : Nat) : Bool :=
  match p[z]? with
  | some b => b.contains3 x y z
  | none => false

def overlapsBBox (p : Pyramid) (b : BBox) : Bool :=
  match p[b.level]? with
  | some a => match a.overlapsBBox b with
    | .ok r => r
    | _ => false
  | none => false

def zoomMin (p : Pyramid) : Option Nat := (p.find? (fun b => !b.isEmpty)).map (·.level)
def zoomMax (p : Pyramid) : Option Nat := (p.reverse.find? (fun b => !b.isEmpty)).map (·.level)
def countTiles (p : Pyramid) : Nat := (p.map BBox.countTiles).sum
def isEmpty (p : Pyramid) : Bool := p.all (·.isEmpty)

def addBorder (p : Pyramid) (a b c d : Nat) : Outcome Pyramid :=
  BBox.mapM (fun x => x.addBorder a b c d) p

def flipY (p : Pyramid) : Outcome Pyramid := BBox.mapM BBox.flipY p
def swapXY (p : Pyramid) : Pyramid := p.map BBox.swapXY

/-- `PartialEq for TileBBoxPyramid`: empties of any encoding are equal -/
def beq (p q : Pyramid) : Bool :=
  (p.zip q).all fun (a, b) =>
    if a.isEmpty != b.isEmpty then false
    else if a.isEmpty then true
    else a == b

def render (p : Pyramid) : String := "/".intercalate (p.map BBox.render)

end Pyramid
end VtModel
