/-
Model of the JSON layer of versatiles_core:

* `versatiles_core/src/json/types/{value,array,object}.rs` — `JsonValue`; `JsonObject` is a
  `BTreeMap<String, JsonValue>` (keys unique, iterated in byte-lexicographic order).
* `versatiles_core/src/json/stringify.rs` — `stringify`, `escape_json_string`.
* `versatiles_core/src/json/parse.rs` + `versatiles_core/src/byte_iterator/{iterator,basics}.rs`
  — the hand-written recursive-descent parser over a **byte** iterator with a 16-byte debug ring
  buffer used by `format_error`.

The parser is modelled on bytes (`List UInt8`), exactly as the Rust code works; strings inside
`JsonValue` are lists of Unicode scalar values (`List Char`), linked to bytes by UTF-8
(`String.utf8EncodeChar` / `ByteArray.utf8Decode?` of Lean core = `String::from_utf8`).

Panics of the Rust code are explicit (`Res.panic site`).  Up to /repo commit a22a8569 there were
two panic sites on this path (both reported by C19 as F6 and repaired there):
* `iterator.rs:71`  `String::from_utf8(debug_snapshot).unwrap()` in `format_error`
  (the snapshot = the last ≤ 15 consumed bytes may start or end inside a multi-byte character)
  — now `String::from_utf8_lossy`, so `format_error` is a plain error;
* `basics.rs:40`    `std::str::from_utf8(&hex).unwrap()` on the four bytes after `\u`
  — now an "invalid unicode code point" error like any other bad hex text.
The model follows the repaired code: no `Res.panic` is produced any more (`Res.panic` is kept in
the result type so that C19 can state its absence).

Numbers: `f64` formatting / parsing is external code (DESIGN §3.4).  The model is generic in the
number type `N` with two operations (`NumOps`): `show` = `f64::to_string`, `read` =
`str::parse::<f64>` on a lexeme already cut out by `parse_number_as_string`.
The driver instantiates `read` with an exact decimal→binary64 conversion (`decToBits`).

Nesting: since /repo f7196604 arrays/objects nested deeper than 1024 are rejected; the depth is an
explicit argument `d` of the recursive functions.

Recursion: `parseValue`/`parseArray…`/`parseObject…` are mutually structurally recursive on a fuel
argument (result `Res.fuel` when it runs out; `parseBytes` supplies `2·|input| + 4`, shown
sufficient for every `stringify` output in `VtProps.C17`, and checked against the real parser on
every correspondence case).  The byte-level loops are structurally recursive on the input list.
-/
namespace VtModel.Json

abbrev Bytes := List UInt8

/-- Outcome of a partial Rust operation (`Result` + panic) – DESIGN §3.1. -/
inductive Res (α : Type) where
  | ok (a : α)
  | err
  | panic (site : String)
  | fuel
deriving Repr

namespace Res
@[inline] def bind {α β : Type} : Res α → (α → Res β) → Res β
  | .ok a, f => f a
  | .err, _ => .err
  | .panic s, _ => .panic s
  | .fuel, _ => .fuel

@[inline] def map {α β : Type} (f : α → β) : Res α → Res β
  | .ok a => .ok (f a)
  | .err => .err
  | .panic s => .panic s
  | .fuel => .fuel

@[simp] theorem bind_ok {α β : Type} (a : α) (f : α → Res β) : (Res.ok a).bind f = f a := rfl
@[simp] theorem bind_err {α β : Type} (f : α → Res β) : (Res.err : Res α).bind f = .err := rfl
@[simp] theorem bind_panic {α β : Type} (s : String) (f : α → Res β) : (Res.panic s : Res α).bind f = .panic s := rfl
@[simp] theorem bind_fuel {α β : Type} (f : α → Res β) : (Res.fuel : Res α).bind f = .fuel := rfl
@[simp] theorem map_ok {α β : Type} (a : α) (f : α → β) : (Res.ok a).map f = .ok (f a) := rfl
end Res

/-! ### UTF-8 -/

/-- `str::as_bytes` / `char::to_string` -/
def utf8 (cs : List Char) : Bytes := cs.flatMap String.utf8EncodeChar

/-- `String::from_utf8` (strict: no overlong forms, no surrogates, ≤ U+10FFFF) -/
def fromUtf8 (bs : Bytes) : Option (List Char) :=
  (ByteArray.utf8Decode? ⟨bs.toArray⟩).map Array.toList

/-! ### values -/

/-- `JsonValue`.  `obj` holds the `BTreeMap` as its sorted association list (see `WF`). -/
inductive JsonValue (N : Type) where
  | null
  | bool (b : Bool)
  | num (n : N)
  | str (s : List Char)
  | arr (xs : List (JsonValue N))
  | obj (kvs : List (List Char × JsonValue N))

/-- external number formatting/parsing (`f64::to_string`, `str::parse::<f64>`) -/
structure NumOps (N : Type) where
  show_ : N → Bytes
  read : Bytes → Option N

/-! ### stringify (`json/stringify.rs`) -/

def hexDigit (n : Nat) : UInt8 :=
  if n < 10 then (48 + n).toUInt8 else (87 + n).toUInt8

/-- `format!("{:04x}", v)` for `v < 0x10000` -/
def hex4 (v : Nat) : Bytes :=
  [hexDigit (v / 4096 % 16), hexDigit (v / 256 % 16), hexDigit (v / 16 % 16), hexDigit (v % 16)]

/-- `char::is_control` (general category Cc) -/
def isControl (c : Char) : Bool :=
  c.toNat < 0x20 || (0x7f ≤ c.toNat && c.toNat ≤ 0x9f)

/-- one arm of the `match c` in `escape_json_string` (stringify.rs:17-27) -/
def escapeChar (c : Char) : Bytes :=
  if c.toNat = 0x22 then [0x5c, 0x22]
  else if c.toNat = 0x5c then [0x5c, 0x5c]
  else if c.toNat = 0x0a then [0x5c, 0x6e]
  else if c.toNat = 0x0d then [0x5c, 0x72]
  else if c.toNat = 0x09 then [0x5c, 0x74]
  else if c.toNat = 0x08 then [0x5c, 0x62]
  else if c.toNat = 0x0c then [0x5c, 0x66]
  else if isControl c then [0x5c, 0x75] ++ hex4 c.toNat
  else String.utf8EncodeChar c

def escape (cs : List Char) : Bytes := cs.flatMap escapeChar

def quote (cs : List Char) : Bytes := 0x22 :: (escape cs ++ [0x22])

/-- the literals `true`, `false`, `null` -/
def bT : Bytes := [0x74, 0x72, 0x75, 0x65]
def bF : Bytes := [0x66, 0x61, 0x6c, 0x73, 0x65]
def bN : Bytes := [0x6e, 0x75, 0x6c, 0x6c]

mutual
/-- `stringify` (stringify.rs:3-12), `JsonArray::stringify`, `JsonObject::stringify` -/
def stringify {N : Type} (ops : NumOps N) : JsonValue N → Bytes
  | .null => bN
  | .bool true => bT
  | .bool false => bF
  | .num n => ops.show_ n
  | .str s => quote s
  | .arr xs => 0x5b :: (stringifyItems ops xs ++ [0x5d])
  | .obj kvs => 0x7b :: (stringifyMembers ops kvs ++ [0x7d])
/-- `items.join(",")` -/
def stringifyItems {N : Type} (ops : NumOps N) : List (JsonValue N) → Bytes
  | [] => []
  | [x] => stringify ops x
  | x :: y :: r => stringify ops x ++ 0x2c :: stringifyItems ops (y :: r)
def stringifyMembers {N : Type} (ops : NumOps N) : List (List Char × JsonValue N) → Bytes
  | [] => []
  | [(k, v)] => quote k ++ 0x3a :: stringify ops v
  | (k, v) :: y :: r => quote k ++ 0x3a :: (stringify ops v ++ 0x2c :: stringifyMembers ops (y :: r))
end

/-! ### the byte iterator (`byte_iterator/iterator.rs`) -/

/-- `pre` = bytes consumed so far, most recent first; `rest.head?` = `peeked_byte`;
    `position = pre.length + 1`.  `debug` = `is_debug_enabled`. -/
structure Iter where
  pre : Bytes
  rest : Bytes
  debug : Bool := true

def Iter.start (input : Bytes) (debug : Bool := true) : Iter := { pre := [], rest := input, debug := debug }

/-- the bytes `format_error` copies out of the ring buffer: for `position < 16` the first
    `position - 1` slots (= everything consumed), otherwise the 15 slots after `position % 16`
    (= the last 15 consumed bytes).  (iterator.rs:54-69) -/
def Iter.snapshot (it : Iter) : Bytes := (it.pre.take 15).reverse


/-- `format_error(..)` used as `Err(..)`.  Since a22a8569 the snapshot is converted with
    `from_utf8_lossy`: building the message cannot fail, whatever `it.snapshot` holds. -/
def formatError {α : Type} (_it : Iter) : Res α := .err

/-- `u8::is_ascii_whitespace`: space, `\t`, `\n`, form feed, `\r` -/
def isWs (b : UInt8) : Bool := b == 0x20 || b == 0x09 || b == 0x0a || b == 0x0c || b == 0x0d

def skipWsGo : Bytes → Bytes → Bytes × Bytes
  | pre, [] => (pre, [])
  | pre, b :: r => if isWs b then skipWsGo (b :: pre) r else (pre, b :: r)

/-- `skip_whitespace` -/
def skipWs (it : Iter) : Iter :=
  { it with pre := (skipWsGo it.pre it.rest).1, rest := (skipWsGo it.pre it.rest).2 }

/-- `expect_next_byte` -/
def expectNext (it : Iter) : Res (UInt8 × Iter) :=
  match it.rest with
  | [] => formatError it
  | b :: r => .ok (b, { it with pre := b :: it.pre, rest := r })

/-- `parse_tag` (basics.rs:5-13): the mismatching byte has been consumed when the error is built -/
def parseTagGo (dbg : Bool) : Bytes → Bytes → Bytes → Res Iter
  | [], pre, rest => .ok { pre := pre, rest := rest, debug := dbg }
  | _ :: _, pre, [] => formatError { pre := pre, rest := [], debug := dbg }
  | c :: t, pre, b :: r =>
    if b == c then parseTagGo dbg t (b :: pre) r
    else formatError { pre := b :: pre, rest := r, debug := dbg }

def parseTag (it : Iter) (tag : Bytes) : Res Iter := parseTagGo it.debug tag it.pre it.rest

/-! ### strings (`parse_quoted_json_string`, basics.rs:15-62) -/

def hexVal? (b : UInt8) : Option Nat :=
  if 0x30 ≤ b && b ≤ 0x39 then some (b.toNat - 0x30)
  else if 0x61 ≤ b && b ≤ 0x66 then some (b.toNat - 0x61 + 10)
  else if 0x41 ≤ b && b ≤ 0x46 then some (b.toNat - 0x41 + 10)
  else none

def hexFold : Bytes → Nat → Option Nat
  | [], acc => some acc
  | b :: r, acc => match hexVal? b with
    | none => none
    | some d => hexFold r (acc * 16 + d)

/-- `u16::from_str_radix(s, 16)` for a 4-byte `s`: an optional leading `+` is accepted
    (not `-`, the type is unsigned), at least one digit is required. -/
def fromStrRadix16 (s : Bytes) : Option Nat :=
  match s with
  | [] => none
  | b :: r =>
    if b == 0x2b then (if r.isEmpty then none else hexFold r 0)
    else hexFold (b :: r) 0

/-- the simple escapes of basics.rs:27-35 and the catch-all `c => bytes.push(c)` -/
def unescByte (c : UInt8) : UInt8 :=
  if c == 0x62 then 0x08
  else if c == 0x66 then 0x0c
  else if c == 0x6e then 0x0a
  else if c == 0x72 then 0x0d
  else if c == 0x74 then 0x09
  else c

/-- the `loop` of `parse_quoted_json_string` after the opening quote; returns the raw byte
    buffer and the iterator after the closing quote. -/
def strLoop (dbg : Bool) : (rest : Bytes) → (pre acc : Bytes) → Res (Bytes × Iter)
  | [], pre, _ => formatError { pre := pre, rest := [], debug := dbg }
  | b :: r, pre, acc =>
    if b == 0x22 then .ok (acc, { pre := b :: pre, rest := r, debug := dbg })
    else if b == 0x5c then
      match r with
      | [] => formatError { pre := b :: pre, rest := [], debug := dbg }
      | c :: r1 =>
        if c == 0x75 then
          match r1 with
          | h1 :: h2 :: h3 :: h4 :: r2 =>
            let pre' := h4 :: h3 :: h2 :: h1 :: c :: b :: pre
            let it' : Iter := { pre := pre', rest := r2, debug := dbg }
            if (fromUtf8 [h1, h2, h3, h4]).isNone then formatError it'   -- `from_utf8(&hex).ok()` = None
            else match fromStrRadix16 [h1, h2, h3, h4] with
              | none => formatError it'
              | some cp =>
                -- `String::from_utf16(&[cp])` fails exactly for a lone surrogate
                if 0xD800 ≤ cp ∧ cp ≤ 0xDFFF then formatError it'
                else strLoop dbg r2 pre' (acc ++ String.utf8EncodeChar (Char.ofNat cp))
          | short => formatError { pre := short.reverse ++ (c :: b :: pre), rest := [], debug := dbg }
        else strLoop dbg r1 (c :: b :: pre) (acc ++ [unescByte c])
    else strLoop dbg r (b :: pre) (acc ++ [b])

def parseQuotedString (it0 : Iter) : Res (List Char × Iter) :=
  let it := skipWs it0
  (expectNext it).bind fun (b, it1) =>
    if b != 0x22 then formatError it1
    else (strLoop it1.debug it1.rest it1.pre []).bind fun (raw, it2) =>
      match fromUtf8 raw with
      | none => .err            -- `String::from_utf8(bytes).map_err(Error::from)`
      | some s => .ok (s, it2)

/-! ### numbers (`parse_number_as_string`, basics.rs:64-112) -/

def isDigit (b : UInt8) : Bool := 0x30 ≤ b && b ≤ 0x39

def spanDigits : Bytes → Bytes × Bytes
  | [] => ([], [])
  | b :: r => if isDigit b then ((b :: (spanDigits r).1), (spanDigits r).2) else ([], b :: r)

/-- consume `bs` (known to be a prefix of `it.rest`, remainder `r`) -/
def Iter.eat (it : Iter) (bs r : Bytes) : Iter := { it with pre := bs.reverse ++ it.pre, rest := r }

def isSign (b : UInt8) : Bool := b == 0x2b || b == 0x2d

/-- optional sign: returns (sign bytes, iterator after) -/
def lexSign (it : Iter) : Bytes × Iter :=
  match it.rest with
  | b :: r => if isSign b then ([b], it.eat [b] r) else ([], it)
  | [] => ([], it)

def lexDigits (it : Iter) : Bytes × Iter :=
  ((spanDigits it.rest).1, it.eat (spanDigits it.rest).1 (spanDigits it.rest).2)

/-- optional fractional part (basics.rs:81-91) -/
def lexFrac (it2 : Iter) : Res (Bytes × Iter) :=
  match it2.rest with
  | b :: r =>
    if b == 0x2e then
      let it3 := it2.eat [b] r
      let (fs, it4) := lexDigits it3
      if fs.isEmpty then formatError it4   -- "expected digits after decimal point"
      else .ok (b :: fs, it4)
    else .ok ([], it2)
  | [] => .ok ([], it2)

/-- optional exponent part (basics.rs:93-107) -/
def lexExp (it4 : Iter) : Res (Bytes × Iter) :=
  match it4.rest with
  | b :: r =>
    if b == 0x65 || b == 0x45 then
      let it5 := it4.eat [b] r
      let (es, it6) := lexSign it5
      let (xs, it7) := lexDigits it6
      if xs.isEmpty then formatError it7   -- "expected digits after exponent"
      else .ok (b :: (es ++ xs), it7)
    else .ok ([], it4)
  | [] => .ok ([], it4)

def lexNumber (it : Iter) : Res (Bytes × Iter) :=
  let (sg, it1) := lexSign it
  let (ds, it2) := lexDigits it1
  if ds.isEmpty then formatError it2      -- "expected digits in number"
  else
    (lexFrac it2).bind fun (fr, it4) =>
      (lexExp it4).bind fun (ex, it7) => .ok (sg ++ ds ++ fr ++ ex, it7)

/-- `parse_number_as::<f64>` -/
def parseNumber {N : Type} (ops : NumOps N) (it : Iter) : Res (N × Iter) :=
  (lexNumber it).bind fun (lx, it1) =>
    match ops.read lx with
    | none => formatError it1     -- "invalid number"
    | some n => .ok (n, it1)

/-! ### objects as sorted association lists (`BTreeMap<String, JsonValue>`) -/

/-- `Ord for [u8]` (= `Ord for String`): lexicographic on bytes -/
def cmpBytes : Bytes → Bytes → Ordering
  | [], [] => .eq
  | [], _ :: _ => .lt
  | _ :: _, [] => .gt
  | a :: as, b :: bs => if a < b then .lt else if b < a then .gt else cmpBytes as bs

def cmpKey (a b : List Char) : Ordering := cmpBytes (utf8 a) (utf8 b)

/-- `BTreeMap::insert` -/
def insertKV {V : Type} (k : List Char) (v : V) : List (List Char × V) → List (List Char × V)
  | [] => [(k, v)]
  | (k', v') :: r =>
    match cmpKey k k' with
    | .lt => (k, v) :: (k', v') :: r
    | .eq => (k, v) :: r
    | .gt => (k', v') :: insertKV k v r

/-- `BTreeMap::from_iter(list)`: later entries win -/
def mkObj {V : Type} (l : List (List Char × V)) : List (List Char × V) :=
  l.foldl (fun m kv => insertKV kv.1 kv.2 m) []

def lookupKV {V : Type} (k : List Char) : List (List Char × V) → Option V
  | [] => none
  | (k', v) :: r => if cmpKey k k' == .eq then some v else lookupKV k r

/-! ### the recursive parser (`parse.rs`, `parse_array_entries`, `parse_object_entries`) -/

/-- `iter.advance()` when a byte is known to be peeked -/
def Iter.advance (it : Iter) : Iter :=
  match it.rest with
  | [] => it
  | b :: r => { it with pre := b :: it.pre, rest := r }

/-- `if let Some(c) = iter.peek()` -/
def Iter.peekIs (it : Iter) (c : UInt8) : Bool :=
  match it.rest with
  | b :: _ => b == c
  | [] => false

/-- `MAX_NESTING_DEPTH` (iterator.rs, since /repo f7196604) -/
def maxNesting : Nat := 1024

mutual
/-- `parse_json_iter`.  `d` = `ByteIterator::nesting_depth`: the number of arrays/objects the value
    sits in; `enter_nested()` refuses to open another one when `d ≥ 1024` (`leave_nested()` on the
    way out restores `d`, which is why the elements of a container all see the same depth). -/
def parseValue {N : Type} (ops : NumOps N) : Nat → Nat → Iter → Res (JsonValue N × Iter)
  | 0, _, _ => .fuel
  | f + 1, d, it0 =>
    let it := skipWs it0
    match it.rest with
    | [] => formatError it            -- `expect_peeked_byte`
    | b :: _ =>
      if b == 0x5b then (if d ≥ maxNesting then formatError it else parseArray ops f (d + 1) it)
      else if b == 0x7b then (if d ≥ maxNesting then formatError it else parseObject ops f (d + 1) it)
      else if b == 0x22 then (parseQuotedString it).map fun (s, it1) => (.str s, it1)
      else if isDigit b || b == 0x2e || b == 0x2d then (parseNumber ops it).map fun (n, it1) => (.num n, it1)
      else if b == 0x74 then (parseTag it bT).map fun it1 => (.bool true, it1)
      else if b == 0x66 then (parseTag it bF).map fun it1 => (.bool false, it1)
      else if b == 0x6e then (parseTag it bN).map fun it1 => (.null, it1)
      else formatError it             -- "unexpected character"
/-- `parse_array_entries(iter, parse_json_iter)` up to and including the first element -/
def parseArray {N : Type} (ops : NumOps N) : Nat → Nat → Iter → Res (JsonValue N × Iter)
  | 0, _, _ => .fuel
  | f + 1, d, it0 =>
    let it := skipWs it0
    (expectNext it).bind fun (b, it1) =>
      if b != 0x5b then formatError it1
      else
        let it2 := skipWs it1
        if it2.peekIs 0x5d then .ok (.arr [], it2.advance)
        else
          (parseValue ops f d it2).bind fun (v, it3) =>
            (parseArrayRest ops f d it3 [v]).map fun (xs, it4) => (.arr xs, it4)
/-- the `loop` of `parse_array_entries` -/
def parseArrayRest {N : Type} (ops : NumOps N) : Nat → Nat → Iter → List (JsonValue N) → Res (List (JsonValue N) × Iter)
  | 0, _, _, _ => .fuel
  | f + 1, d, it0, acc =>
    let it := skipWs it0
    (expectNext it).bind fun (b, it1) =>
      if b == 0x5d then .ok (acc, it1)
      else if b == 0x2c then
        let it2 := skipWs it1
        (parseValue ops f d it2).bind fun (v, it3) => parseArrayRest ops f d it3 (acc ++ [v])
      else formatError it1
/-- `parse_json_object`: `{`, then the entries loop, then `BTreeMap::from_iter` -/
def parseObject {N : Type} (ops : NumOps N) : Nat → Nat → Iter → Res (JsonValue N × Iter)
  | 0, _, _ => .fuel
  | f + 1, d, it0 =>
    let it := skipWs it0
    (expectNext it).bind fun (b, it1) =>
      if b != 0x7b then formatError it1
      else (parseObjectLoop ops f d it1 []).map fun (kvs, it2) => (.obj (mkObj kvs), it2)
/-- the `loop` of `parse_object_entries` -/
def parseObjectLoop {N : Type} (ops : NumOps N) : Nat → Nat → Iter → List (List Char × JsonValue N) → Res (List (List Char × JsonValue N) × Iter)
  | 0, _, _, _ => .fuel
  | f + 1, d, it0, acc =>
    let it := skipWs it0
    match it.rest with
    | [] => formatError it
    | b :: _ =>
      if b == 0x7d then .ok (acc, it.advance)
      else if b == 0x22 then
        (parseQuotedString it).bind fun (k, it1) =>
          let it2 := skipWs it1
          (expectNext it2).bind fun (c, it3) =>
            if c != 0x3a then formatError it3
            else
              let it4 := skipWs it3
              (parseValue ops f d it4).bind fun (v, it5) =>
                let it6 := skipWs it5
                (expectNext it6).bind fun (d', it7) =>
                  if d' == 0x2c then parseObjectLoop ops f d it7 (acc ++ [(k, v)])
                  else if d' == 0x7d then .ok (acc ++ [(k, v)], it7)
                  else formatError it7
      else formatError it
end

/-- fuel handed to the parser by `parseBytes` -/
def fuelFor (input : Bytes) : Nat := 2 * input.length + 4

/-- `parse_json_str` (trailing text after the value is ignored, as in the Rust code) -/
def parseBytes {N : Type} (ops : NumOps N) (input : Bytes) : Res (JsonValue N) :=
  (parseValue ops (fuelFor input) 0 (Iter.start input)).map (·.1)

/-! ### exact decimal → binary64 (driver instantiation of `str::parse::<f64>`) -/

def digitsVal (ds : Bytes) : Nat := ds.foldl (fun a b => a * 10 + (b.toNat - 0x30)) 0

/-- round-to-nearest-even of `num/den · 2^(-k)` to an integer -/
def scaledRound (num den : Nat) (k : Int) : Nat :=
  let (n, d) := if k ≥ 0 then (num, den * 2 ^ k.toNat) else (num * 2 ^ (-k).toNat, den)
  let q := n / d
  let r := n % d
  if 2 * r > d then q + 1 else if 2 * r < d then q else (if q % 2 == 1 then q + 1 else q)

def scaledFloor (num den : Nat) (k : Int) : Nat :=
  let (n, d) := if k ≥ 0 then (num, den * 2 ^ k.toNat) else (num * 2 ^ (-k).toNat, den)
  n / d

/-- bits of the binary64 nearest to `m · 10^e` (ties to even; overflow → ∞; gradual underflow) -/
def decToBits (neg : Bool) (m : Nat) (e : Int) : UInt64 :=
  let sign : UInt64 := if neg then 0x8000000000000000 else 0
  if m == 0 then sign
  else
    let nd : Int := (toString m).length
    if e + nd > 310 then sign ||| 0x7FF0000000000000
    else if e + nd < -330 then sign
    else
      let (num, den) : Nat × Nat := if e ≥ 0 then (m * 10 ^ e.toNat, 1) else (m, 10 ^ (-e).toNat)
      -- choose k with 2^52 ≤ floor(num/den / 2^k) < 2^53
      let k0 : Int := (num.log2 : Int) - (den.log2 : Int) - 52
      let q0 := scaledFloor num den k0
      let k1 : Int := if q0 ≥ 2 ^ 53 then k0 + 1 else if q0 < 2 ^ 52 then k0 - 1 else k0
      let k : Int := if k1 < -1074 then -1074 else k1
      let q := scaledRound num den k
      -- rounding may carry to 2^53
      let (q, k) : Nat × Int := if q ≥ 2 ^ 53 then (q / 2, k + 1) else (q, k)
      if q < 2 ^ 52 then sign ||| q.toUInt64           -- subnormal (k = -1074)
      else
        let ef : Int := k + 1075
        if ef ≥ 2047 then sign ||| 0x7FF0000000000000
        else sign ||| ((ef.toNat.toUInt64 <<< 52) ||| (q - 2 ^ 52).toUInt64)

/-- split a lexeme accepted by `lexNumber` and convert -/
def readF64Bits (lx : Bytes) : Option UInt64 :=
  let (neg, r) : Bool × Bytes := match lx with
    | b :: r => if b == 0x2d then (true, r) else if b == 0x2b then (false, r) else (false, b :: r)
    | [] => (false, [])
  let ip := (spanDigits r).1
  let r1 := (spanDigits r).2
  let (fp, r2) : Bytes × Bytes := match r1 with
    | b :: t => if b == 0x2e then ((spanDigits t).1, (spanDigits t).2) else ([], r1)
    | [] => ([], [])
  let ex : Option Int := match r2 with
    | [] => some 0
    | b :: t =>
      if b == 0x65 || b == 0x45 then
        match t with
        | s :: u =>
          if s == 0x2d then (if (spanDigits u).2.isEmpty && !u.isEmpty then some (-(digitsVal u : Int)) else none)
          else if s == 0x2b then (if (spanDigits u).2.isEmpty && !u.isEmpty then some (digitsVal u : Int) else none)
          else (if (spanDigits t).2.isEmpty then some (digitsVal t : Int) else none)
        | [] => none
      else none
  match ex with
  | none => none
  | some x =>
    if ip.isEmpty then none
    else some (decToBits neg (digitsVal (ip ++ fp)) (x - fp.length))

/-- driver number semantics for the parse stream: numbers are binary64 bit patterns -/
def bitsOps : NumOps UInt64 := { show_ := fun _ => [], read := readF64Bits }
/-- driver number semantics for the stringify stream: a number is its canonical text -/
def textOps : NumOps Bytes := { show_ := id, read := some }

/-! ### line protocol

Value trees are written in prefix form, tokens separated by `,`:
`N` null, `T`/`F` booleans, `#<payload>` number, `S<hex utf8>` string, `A<n>` followed by n
values, `O<n>` followed by n × (`K<hex utf8>`, value).

* `C17s <tree>`  (numbers: `#<hex of canonical text>`)  →  hex of `stringify`
* `C17p <hex text>` → `ok <tree>` (numbers: `#<16 hex digits of the f64 bits>`) | `err` | `panic`
-/

def byteChar (b : UInt8) : Char := Char.ofNat b.toNat

def hexOfBytes (bs : Bytes) : String :=
  String.ofList (bs.flatMap fun b => [byteChar (hexDigit (b.toNat / 16)), byteChar (hexDigit (b.toNat % 16))])

def unhexGo : List Char → Option Bytes
  | [] => some []
  | [_] => none
  | a :: b :: r =>
    match hexVal? a.toNat.toUInt8, hexVal? b.toNat.toUInt8, unhexGo r with
    | some x, some y, some t => some ((x * 16 + y).toUInt8 :: t)
    | _, _, _ => none

def unhex (s : String) : Option Bytes := if s == "-" then some [] else unhexGo s.toList

def hexOrDash (bs : Bytes) : String := if bs.isEmpty then "-" else hexOfBytes bs

def hex16 (v : UInt64) : String :=
  String.ofList ((List.range 16).map fun i => Char.ofNat (hexDigit (v.toNat / 16 ^ (15 - i) % 16)).toNat)

mutual
def render {N : Type} (num : N → String) : JsonValue N → List String
  | .null => ["N"]
  | .bool true => ["T"]
  | .bool false => ["F"]
  | .num n => ["#" ++ num n]
  | .str s => ["S" ++ hexOfBytes (utf8 s)]
  | .arr xs => s!"A{xs.length}" :: renderItems num xs
  | .obj kvs => s!"O{kvs.length}" :: renderMembers num kvs
def renderItems {N : Type} (num : N → String) : List (JsonValue N) → List String
  | [] => []
  | x :: r => render num x ++ renderItems num r
def renderMembers {N : Type} (num : N → String) : List (List Char × JsonValue N) → List String
  | [] => []
  | (k, v) :: r => ("K" ++ hexOfBytes (utf8 k)) :: (render num v ++ renderMembers num r)
end

def showTree {N : Type} (num : N → String) (v : JsonValue N) : String := ",".intercalate (render num v)

mutual
/-- reads one value in prefix form (numbers carry their canonical text) -/
def decodeVal : Nat → List String → Option (JsonValue Bytes × List String)
  | 0, _ => none
  | _ + 1, [] => none
  | f + 1, t :: ts =>
    match t.toList with
    | ['N'] => some (.null, ts)
    | ['T'] => some (.bool true, ts)
    | ['F'] => some (.bool false, ts)
    | '#' :: h => (unhexGo h).map fun b => (.num b, ts)
    | 'S' :: h => ((unhexGo h).bind fromUtf8).map fun s => (.str s, ts)
    | 'A' :: n => (String.ofList n).toNat?.bind fun n => (decodeItems f n ts).map fun (xs, r) => (.arr xs, r)
    | 'O' :: n => (String.ofList n).toNat?.bind fun n => (decodeMembers f n ts).map fun (xs, r) => (.obj xs, r)
    | _ => none
def decodeItems : Nat → Nat → List String → Option (List (JsonValue Bytes) × List String)
  | 0, _, _ => none
  | _ + 1, 0, ts => some ([], ts)
  | f + 1, n + 1, ts =>
    (decodeVal f ts).bind fun (v, r) => (decodeItems f n r).map fun (xs, r2) => (v :: xs, r2)
def decodeMembers : Nat → Nat → List String → Option (List (List Char × JsonValue Bytes) × List String)
  | 0, _, _ => none
  | _ + 1, 0, ts => some ([], ts)
  | _ + 1, _ + 1, [] => none
  | f + 1, n + 1, t :: ts =>
    match t.toList with
    | 'K' :: h =>
      ((unhexGo h).bind fromUtf8).bind fun k =>
        (decodeVal f ts).bind fun (v, r) => (decodeMembers f n r).map fun (xs, r2) => ((k, v) :: xs, r2)
    | _ => none
end

def decodeTree (s : String) : Option (JsonValue Bytes) :=
  let ts := s.splitOn ","
  match decodeVal (2 * ts.length + 2) ts with
  | some (v, []) => some v
  | _ => none

def showRes {α : Type} (f : α → String) : Res α → String
  | .ok a => "ok " ++ f a
  | .err => "err"
  | .panic _ => "panic"
  | .fuel => "fuel"

def handleS (args : List String) : String :=
  match args with
  | [tree] =>
    match decodeTree tree with
    | none => "bad-op"
    | some v => hexOrDash (stringify textOps v)
  | _ => "bad-op"

def handleP (args : List String) : String :=
  match args with
  | [h] =>
    match unhex h with
    | none => "bad-op"
    | some bs => showRes (showTree hex16) (parseBytes bitsOps bs)
  | _ => "bad-op"

end VtModel.Json
