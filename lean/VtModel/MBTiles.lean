import VtModel.FmtBytes
import VtModel.BBox
/-!
Model of the MBTiles container (`versatiles_container/src/container/mbtiles/{reader,writer}.rs`).

SQLite is a parameter: the `tiles` table is a list of rows `(zoom_level, tile_column, tile_row,
tile_data)` with a unique key `(zoom_level, tile_column, tile_row)`; `MIN`/`MAX`/`WHERE` are list
operations (`NULL` for an empty selection = `none`).  `tile_row` is a TMS row: `2^z - 1 - y`.

The reader models the tree AFTER the repair of defect F10 (a zoom level between the minimum and
maximum zoom that has no rows is skipped instead of failing with "Invalid column type Null").
`openReaderF10` keeps the behaviour before the repair for the record.
-/
namespace VtModel.MBTiles
open VtModel VtModel.Fmt

structure Row where
  z : Nat
  col : Nat
  row : Nat
  data : Bytes
deriving Repr, DecidableEq

abbrev DB := List Row

/-- `SELECT MIN(f) FROM tiles WHERE p` -/
def qmin (db : DB) (p : Row → Bool) (f : Row → Nat) : Option Nat :=
  (db.filter p).foldl (fun acc r => match acc with | none => some (f r) | some a => some (min a (f r))) none

/-- `SELECT MAX(f) FROM tiles WHERE p` -/
def qmax (db : DB) (p : Row → Bool) (f : Row → Nat) : Option Nat :=
  (db.filter p).foldl (fun acc r => match acc with | none => some (f r) | some a => some (max a (f r))) none

/-- the `format` metadata value (reader.rs:125-147): any other value is `panic!` -/
def formatOf (s : String) : Outcome (TileFormat × TComp) :=
  if s = "jpg" then .ok (.jpg, .none) else if s = "pbf" then .ok (.pbf, .gzip)
  else if s = "png" then .ok (.png, .none) else if s = "webp" then .ok (.webp, .none) else .panic

/-- the writer's `format` value (writer.rs:127-137) -/
def formatName : TileFormat → TComp → Outcome String
  | .jpg, .none => .ok "jpg"
  | .pbf, .gzip => .ok "pbf"
  | .png, .none => .ok "png"
  | .webp, .none => .ok "webp"
  | _, _ => .err

/-- one level of `get_bbox_pyramid` (reader.rs:222-273): estimate the row range on three columns,
    then refine; the result is the exact column / row range of the level (TMS rows), clamped.
    `none` = the level has no rows. -/
def levelRange (db : DB) (z : Nat) : Option (Nat × Nat × Nat × Nat) :=
  match qmin db (fun r => r.z == z) (·.col), qmax db (fun r => r.z == z) (·.col) with
  | some x0, some x1 =>
    let xc := (x0 + x1) / 2
    let cols := fun (r : Row) => r.z == z && (r.col == x0 || r.col == xc || r.col == x1)
    match qmin db cols (·.row), qmax db cols (·.row) with
    | some y0e, some y1e =>
      match qmin db (fun r => r.z == z && decide (r.row ≤ y0e)) (·.row),
            qmax db (fun r => r.z == z && decide (r.row ≥ y1e)) (·.row) with
      | some y0, some y1 => some (x0, y0, x1, y1)
      | _, _ => none
    | _, _ => none
  | _, _ => none

/-- level box after clamping and the final `flip_y` of the pyramid -/
def levelBox (z : Nat) (rg : Nat × Nat × Nat × Nat) : BBox :=
  let m := 2 ^ z - 1
  let (x0, y0, x1, y1) := rg
  ⟨z, min x0 m, m - min y1 m, min x1 m, m - min y0 m⟩

structure Reader where
  db : DB
  fmt : TileFormat
  comp : TComp
  cover : List BBox

/-- the zoom loop `for z in z0..=z1`; `skipEmpty = false` is the behaviour before the F10 repair.
    (`max_value` is computed without overflow since /repo commit 2c79ad64; a level above 31 is
    rejected by `TileBBox::new`.) -/
def coverLevels (db : DB) (skipEmpty : Bool) : List Nat → Outcome (List BBox)
  | [] => .ok []
  | z :: zs =>
    match levelRange db z with
    | none =>
      if skipEmpty then coverLevels db skipEmpty zs else .err
    | some rg =>
      if z > 31 then .err
      else match coverLevels db skipEmpty zs with
        | .ok l => .ok (levelBox z rg :: l)
        | .err => .err
        | .panic => .panic

def openWith (skipEmpty : Bool) (format : Option String) (db : DB) : Outcome Reader :=
  match qmin db (fun _ => true) (·.z), qmax db (fun _ => true) (·.z) with
  | some z0, some z1 =>
    match coverLevels db skipEmpty (List.range' z0 (z1 + 1 - z0)) with
    | .ok cov =>
      match format with
      | none => .err                                   -- "does not specify tile format"
      | some f =>
        match formatOf f with
        | .ok (fmt, comp) => .ok ⟨db, fmt, comp, cov⟩
        | .err => .err
        | .panic => .panic
    | .err => .err
    | .panic => .panic
  | _, _ => .err                                        -- empty table: `MIN(zoom_level)` is NULL

/-- `MBTilesReader::open_path` (after the F10 repair) -/
def openReader := openWith true
/-- the same before the repair: a zoom gap fails the open -/
def openReaderF10 := openWith false

/-- `get_tile_data` (reader.rs:313-331): `max_index - coord.y` is an unchecked `u32` subtraction -/
def getTile (r : Reader) (x y z : Nat) : Outcome (Option Bytes) :=
  if z > 31 then .panic                                 -- `2u32.pow(32)` overflows
  else if y > 2 ^ z - 1 then .panic
  else .ok ((r.db.find? (fun t => t.z == z && t.col == x && t.row == 2 ^ z - 1 - y)).map (·.data))

/-- `MBTilesWriter::add_tiles`: one row per streamed tile, TMS row -/
def writeRows (tiles : List ((Nat × Nat × Nat) × Bytes)) : DB :=
  tiles.map fun t => ⟨t.1.2.2, t.1.1, 2 ^ t.1.2.2 - 1 - t.1.2.1, t.2⟩

/-! ## line protocol -/

def showCover (l : List BBox) : String :=
  " ".intercalate (s!"cov {l.length}" :: l.map BBox.render)

def parseRows (toks : List String) : Option (DB × List String) := do
  let (gs, rest) ← takeCounted 4 toks
  let rows ← gs.mapM fun g => match g with
    | [z, c, r, h] => do
      pure (⟨← z.toNat?, ← c.toNat?, ← r.toNat?, ← unhex h⟩ : Row)
    | _ => none
  pure (rows, rest)

def parseBox (s : String) : Option BBox :=
  match s.splitOn ":" with
  | [z, r] => match r.splitOn "," with
    | [a, b, c, d] => do
      pure ⟨← z.toNat?, ← a.toNat?, ← b.toNat?, ← c.toNat?, ← d.toNat?⟩
    | _ => none
  | _ => none

def parseLevels (toks : List String) : Option (List BBox × List String) := do
  let (gs, rest) ← takeCounted 1 toks
  let bs ← gs.mapM fun g => match g with
    | [b] => parseBox b
    | _ => none
  pure (bs, rest)

def memStream (tiles : List ((Nat × Nat × Nat) × Bytes)) (b : BBox) : List ((Nat × Nat × Nat) × Bytes) :=
  b.iterCoords.filterMap fun (x, y) => tiles.find? (fun t => t.1 == (x, y, b.level))

def handle (stream : String) (args : List String) : String :=
  let r : Option String := match stream, args with
    | "C16m", f :: rest => do
      let (db, rest) ← parseRows rest
      let (qs, _) ← parseQueries rest
      pure (match openReader (some f) db with
        | .ok r =>
          let look := qs.map fun (x, y, z) => showLookup (getTile r x y z)
          " ".intercalate (["ok", r.fmt.name, r.comp.name, showCover r.cover, "q"] ++ look)
        | .err => "err"
        | .panic => "panic")
    | "C01m", f :: rest => do
      let (levels, rest) ← parseLevels rest
      let (gs, _) ← takeCounted 4 rest
      let tiles ← gs.mapM fun g => match g with
        | [z, x, y, h] => do
          pure ((← x.toNat?, ← y.toNat?, ← z.toNat?), ← unhex h)
        | _ => none
      let _ := f
      let rows := writeRows (levels.flatMap (memStream tiles))
      let sorted := rows.mergeSort (fun a b => a.z < b.z || (a.z == b.z && (a.col < b.col || (a.col == b.col && a.row ≤ b.row))))
      pure (" ".intercalate (s!"ok {sorted.length}" :: sorted.map fun r => s!"{r.z},{r.col},{r.row},{hex64 (fnv64 r.data)}"))
    | _, _ => none
  r.getD "bad-op"

end VtModel.MBTiles
