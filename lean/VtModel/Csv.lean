import VtModel.Prim
/-!
CSV lexer: model of `versatiles_core/src/utils/csv.rs` (`parse_quoted_csv_string`,
`parse_simple_csv_string`, `read_csv_fields`, `read_csv_iter`) and of the header / row handling of
`versatiles_pipeline/src/helpers/csv.rs::read_csv_file`, over bytes, returning the rows
(`VtModel.Decoders.csvRows`, C19, models the same code for its panic behaviour and only counts rows).

Behaviour mirrored
* a cell is quoted iff its FIRST byte is `"`; inside quotes `""` is one quote, a single `"` ends the cell;
  end of input inside quotes is an error;
* an unquoted cell runs up to (not including) the separator, `\r`, `\n` or the end – nothing is trimmed,
  a `"` after the first byte is an ordinary byte;
* after a cell: any number of `\r` is skipped, then `\n` ends the record, the separator starts the next
  cell, the end of input ends the record, anything else is an error;
* a record that consists of one empty cell is dropped (blank line; also a lone `""`);
* cells must be UTF-8; every record must have as many cells as the first one; the first record is the
  header, a file without records is an error; a byte-order mark is not recognised (it stays in the first
  header cell);
* `read_csv_file` fails when ANY record fails (it collects the errors and bails), so the first error
  decides: `Outcome.err`.
-/
namespace VtModel.Csv
open VtModel VtModel.Prim

def isTerm (sep b : UInt8) : Bool := b == sep || b == 13 || b == 10

/-- `parse_simple_csv_string`: the cell and the unread rest -/
def simpleCell (sep : UInt8) : Bytes → Bytes × Bytes
  | [] => ([], [])
  | b :: r => if isTerm sep b then ([], b :: r) else ((b :: (simpleCell sep r).1), (simpleCell sep r).2)

/-- `parse_quoted_csv_string` after the opening quote; `none` = end of input inside the quotes -/
def quotedCell : Bytes → Option (Bytes × Bytes)
  | [] => none
  | [b] => if b == 34 then some ([], []) else none
  | b :: c :: r =>
    if b == 34 then
      if c == 34 then
        match quotedCell r with
        | some (x, y) => some (34 :: x, y)
        | none => none
      else some ([], c :: r)
    else
      match quotedCell (c :: r) with
      | some (x, y) => some (b :: x, y)
      | none => none

/-- one cell value (`match iter.peek()` in `read_csv_fields`), with the `String::from_utf8` check -/
def cell (sep : UInt8) (s : Bytes) : Outcome (Bytes × Bytes) :=
  match s with
  | [] => .ok ([], [])
  | b :: r =>
    if b == 34 then
      match quotedCell r with
      | some (c, rest) => if utf8Ok c then .ok (c, rest) else .err
      | none => .err
    else
      let p := simpleCell sep (b :: r)
      if utf8Ok p.1 then .ok p else .err

inductive After where
  | sep (rest : Bytes)
  | eol (rest : Bytes)
  | eof
  | bad

/-- the inner `loop { match iter.consume() … }` after a cell -/
def afterCell (sep : UInt8) : Bytes → After
  | [] => .eof
  | b :: r => if b == 13 then afterCell sep r else if b == 10 then .eol r else if b == sep then .sep r else .bad

/-- all records of the input (`read_csv_fields` driven to the end); `fresh` = at the start of a
    `from_fn` call (`iter.peek()?` ends the iterator at the end of the input).  The progress test never
    fires (every cell is followed by a consumed byte unless the input ends). -/
def lexRows (sep : UInt8) (s : Bytes) (fields : List Bytes) (fresh : Bool) (acc : List (List Bytes)) :
    Outcome (List (List Bytes)) :=
  if fresh && s.isEmpty then .ok acc.reverse else
  match cell sep s with
  | .err => .err
  | .panic => .panic
  | .ok (v, r1) =>
    let fields' := fields ++ [v]
    match afterCell sep r1 with
    | .bad => .err
    | .eof => if fields' == [[]] then .ok acc.reverse else .ok (fields' :: acc).reverse
    | .sep r2 => if r2.length < s.length then lexRows sep r2 fields' false acc else .panic
    | .eol r2 =>
      if r2.length < s.length then
        (if fields' == [[]] then lexRows sep r2 [] false acc else lexRows sep r2 [] true (fields' :: acc))
      else .panic
termination_by s.length

/-- `read_csv_iter` + the header handling of `read_csv_file`: header and data rows; every record must
    have the header's number of cells; no record at all is an error -/
def table (sep : UInt8) (input : Bytes) : Outcome (List Bytes × List (List Bytes)) :=
  match lexRows sep input [] true [] with
  | .ok [] => .err
  | .ok (h :: rows) => if rows.all (fun r => r.length == h.length) then .ok (h, rows) else .err
  | .err => .err
  | .panic => .panic

/-! ### canonical rendering (specification side) -/

def needsQuote (sep : UInt8) (c : Bytes) : Bool := c.any (fun b => isTerm sep b || b == 34)

def escape : Bytes → Bytes
  | [] => []
  | b :: t => if b == 34 then 34 :: 34 :: escape t else b :: escape t

def renderCell (sep : UInt8) (c : Bytes) : Bytes :=
  if needsQuote sep c then 34 :: (escape c ++ [34]) else c

def renderRow (sep : UInt8) (eol : Bytes) : List Bytes → Bytes
  | [] => eol
  | [c] => renderCell sep c ++ eol
  | c :: d :: t => renderCell sep c ++ sep :: renderRow sep eol (d :: t)

def render (sep : UInt8) (eol : Bytes) (rows : List (List Bytes)) : Bytes :=
  rows.flatMap (renderRow sep eol)

/-! ### line protocol `C11csv <hex of the file>` → `err` | `panic` | `<header>|<row>|…` with cells as hex joined by `,` -/

def showRow (r : List Bytes) : String := ",".intercalate (r.map hexOfBytes)

def handle (args : List String) : String :=
  match args with
  | [h] =>
    match bytesOfHex h with
    | none => "bad-op"
    | some b =>
      match table 44 b with
      | .ok (hd, rows) => "|".intercalate ((hd :: rows).map showRow)
      | .err => "err"
      | .panic => "panic"
  | _ => "bad-op"

end VtModel.Csv
