import VtModel.Cache
