import VtModel.Cache
import VtModel.Basic
import VtModel.BBox
import VtModel.Pyramid
import VtModel.Geo
import VtModel.BBoxProto
