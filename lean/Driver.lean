import VtModel

/-- One request per line: `<stream> <args…>` → one response line. -/
def dispatch (line : String) : String :=
  match line.trimAscii.toString.splitOn " " with
  | "C20" :: args => VtModel.Cache.handle args
  | "C15" :: args => VtModel.BBoxProto.handle args
  | _ => "bad-stream"

partial def loop (hin : IO.FS.Stream) (hout : IO.FS.Stream) : IO Unit := do
  let line ← hin.getLine
  if line.isEmpty then return ()
  hout.putStrLn (dispatch line)
  loop hin hout

def main : IO Unit := do
  let hin ← IO.getStdin
  let hout ← IO.getStdout
  loop hin hout
  hout.flush
