import VtModel

/-- One request per line: `<stream> <args…>` → one response line. -/
def dispatch (line : String) : String :=
  match line.trimAscii.toString.splitOn " " with
  | "C20" :: args => VtModel.Cache.handle args
  | "C20b" :: args => VtModel.Cache.handleBudget args
  | "C07" :: args => VtModel.Path.handle args
  | "C14" :: args => VtModel.Sched.handle args
  | "C14s" :: args => VtModel.Sched.handleS args
  | "C13" :: args => VtModel.FileOffset.handle args
  | "C12" :: args => VtModel.Crash.handle args
  | "C15" :: args => VtModel.BBoxProto.handle args
  | "C04" :: args => VtModel.Codec.handle args
  | "C17s" :: args => VtModel.Json.handleS args
  | "C17p" :: args => VtModel.Json.handleP args
  | "C17t" :: args => VtModel.TileJson.handleT args
  | "C17u" :: args => VtModel.TileJson.handleU args
  | "C17m" :: args => VtModel.TileJson.handleM args
  | "C17n" :: args => VtModel.Ndjson.handleN args
  | "C17x" :: args => VtModel.TileJson.handleX args
  | "C18" :: args => VtModel.Vpl.handle args
  | "C18r" :: args => VtModel.Vpl.handleRender args
  | "C06" :: args => VtModel.Converter.handle args
  | "C11g" :: args => VtModel.Geom.handle args
  | "C11csv" :: args => VtModel.Csv.handle args
  | "C11p" :: args => VtModel.Prim.handlePrim args
  | "C11d" :: args => VtModel.Mvt.handleDecode args
  | "C11u" :: args => VtModel.Mvt.handleUpdate args
  | "C10m" :: args => VtModel.Mvt.handleMerge args
  | "C02" :: args => VtModel.PipeProto.handle args
  | "C02v" :: args => VtModel.ReaderProto.handleV args
  | "C02m" :: args => VtModel.ReaderProto.handleM args
  | "C08" :: args => VtModel.PipeProto.handle args
  | "C09" :: args => VtModel.PipeProto.handle args
  | "C05" :: args => VtModel.Http.handle args
  | "C19" :: args => VtModel.Decoders.handle args
  | "C03" :: args => VtModel.Coverage.handle args
  | "C03p" :: args => VtModel.PipeProto.handle args
  | s :: args => VtModel.Formats.handle s args   -- container-format streams (C16/C01); answers "bad-stream" itself
  | _ => "bad-stream"

partial def loop (hin : IO.FS.Stream) (hout : IO.FS.Stream) : IO Unit := do
  let line ← hin.getLine
  if line.isEmpty then return ()
  hout.putStrLn (dispatch line)
  loop hin hout

def main : IO Unit := do
  let hin ← IO.getStdin
  let hout ← IO.getStdout
  loop hin hout
  hout.flush
