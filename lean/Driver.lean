import VtModel

/-- One request per line: `<stream> <args…>` → one response line. -/
def dispatch (line : String) : String :=
  match line.trimAscii.toString.splitOn " " with
  | "C20" :: args => VtModel.Cache.handle args
  | "C13" :: args => VtModel.FileOffset.handle args
  | "C15" :: args => VtModel.BBoxProto.handle args
  | "C04" :: args => VtModel.Codec.handle args
  | "C17s" :: args => VtModel.Json.handleS args
  | "C17p" :: args => VtModel.Json.handleP args
  | "C18" :: args => VtModel.Vpl.handle args
  | _ => "bad-stream"

partial def loop (hin : IO.FS.Stream) (hout : IO.FS.Stream) : IO Unit := do
  let line ← hin.getLine
  if line.isEmpty then return ()
  hout.putStrLn (dispatch line)
  loop hin hout

def main : IO Unit := do
  let hin ← IO.getStdin
  let hout ← IO.getStdout
  loop hin hout
  hout.flush
