import VtProofs.Converter
import VtProofs.Source
import VtProofs.ConvOptions
/-!
# C06 — conversion selects and relocates tiles exactly as the options say

Model: `VtModel/Converter.lean` (mirrors `versatiles_container/src/container/converter.rs` after
the repair b3b07ba6, the trait-default stream, the level walk of the container writers and
`get_bbox_pyramid` of `versatiles/src/tools/convert.rs` after 542b6bce).

`T f s` = "flip first, then swap" is the transform of the options, `Tinv f s` its inverse.
All statements hold for every tile source, every payload type, every opaque recompressor and all
four flag pairs; coordinates range over the whole pyramid (`Coord.Valid`: z ≤ 31, x, y < 2^z).
-/
namespace VtProps.C06
open VtModel VtModel.Converter VtProofs.Converter

/-- membership in the requested selection (`None` = everything) -/
def reqHas (q : Option Pyramid) (c : Coord) : Bool :=
  match q with
  | some q => Pyramid.has q c
  | none => true

/-! ## coverage -/

/-- **cover_eq**: building the converting reader never panics on well-formed pyramids and the
    advertised coverage is exactly `T(cover) ∩ requested` (as a set of coordinates). -/
theorem cover_eq {β : Type} (cover : Pyramid) (p : Params β) (hc : cover.WF)
    (hq : ∀ q, p.bboxPyramid = some q → q.WF) :
    ∃ cov, newCover cover p = .ok cov ∧ cov.WF ∧
      ∀ c, Coord.Valid c →
        Pyramid.has cov c = (Pyramid.has cover (Tinv p.flipY p.swapXY c) && reqHas p.bboxPyramid c) := by
  -- step 1: flip
  let p1 : Pyramid := if p.flipY then cover.map flipBox else cover
  have h1 : (if p.flipY then Pyramid.flipY cover else Outcome.ok cover) = .ok p1 := by
    cases hf : p.flipY <;> simp [p1, hf, flipY_ok cover hc]
  have w1 : p1.WF := by
    cases hf : p.flipY <;> simp only [p1, hf, if_true, if_false, Bool.false_eq_true]
    · exact hc
    · exact wf_map cover hc flipBox flip_level flip_wf
  -- step 2: swap
  let p2 : Pyramid := if p.swapXY then Pyramid.swapXY p1 else p1
  have w2 : p2.WF := by
    cases hs : p.swapXY <;> simp only [p2, hs, if_true, if_false, Bool.false_eq_true]
    · exact w1
    · exact wf_map p1 w1 BBox.swapXY swap_level swap_wf
  have m2 : ∀ c, Coord.Valid c → Pyramid.has p2 c = Pyramid.has cover (Tinv p.flipY p.swapXY c) := by
    intro c hv
    cases hf : p.flipY <;> cases hs : p.swapXY <;>
      simp only [p2, p1, hf, hs, Tinv, if_true, if_false, Bool.false_eq_true, Pyramid.swapXY]
    · exact has_swap cover c
    · exact has_flip cover hc c hv
    · rw [has_swap, has_flip cover hc _ (swapC_valid c hv)]
  -- step 3: intersect
  unfold newCover
  rw [h1]
  simp only [Outcome.bind]
  cases hb : p.bboxPyramid with
  | none =>
    refine ⟨p2, rfl, w2, ?_⟩
    intro c hv
    simp [reqHas, m2 c hv]
  | some q =>
    have wq := hq q hb
    refine ⟨_, intersect_ok p2 q w2 wq, ?_, ?_⟩
    · exact wf_map p2 w2 _ (fun b => isect_level b _) (fun b hb => isect_wf b _ hb)
    · intro c hv
      rw [has_isect p2 q w2 wq, m2 c hv]
      rfl

/-- the advertised coverage never contains a coordinate outside the pyramid -/
theorem cover_valid {β : Type} (cover cov : Pyramid) (p : Params β) (hc : cover.WF)
    (hq : ∀ q, p.bboxPyramid = some q → q.WF) (h : newCover cover p = .ok cov) (c : Coord)
    (hm : Pyramid.has cov c = true) : Coord.Valid c := by
  obtain ⟨cov', h', w, _⟩ := cover_eq cover p hc hq
  rw [h] at h'
  cases h'
  exact has_valid cov w c hm

/-! ## lookup -/

/-- the requested coordinate is mapped back with `T⁻¹` (no panic for coordinates of the pyramid) -/
theorem backCoord_eq {β : Type} (p : Params β) (c : Coord) (hv : Coord.Valid c) :
    backCoord p c = .ok (Tinv p.flipY p.swapXY c) := by
  unfold backCoord Tinv
  cases hf : p.flipY <;> cases hs : p.swapXY <;> simp only [if_true, if_false, Bool.false_eq_true]
  · exact flipCode_ok c hv.2.2
  · exact flipCode_ok _ (swapC_valid c hv).2.2

/-- **lookup_spec**: `lookup' c = (src (T⁻¹ c)).map recode` (with the `Err` of a failing
    recompression made explicit), for all four flag pairs. -/
theorem lookup_spec {β : Type} (s : Src β) (p : Params β) (c : Coord) (hv : Coord.Valid c) :
    lookup s p c = (s.lookup (Tinv p.flipY p.swapXY c)).bind (recodeLookup p.recode) := by
  unfold lookup
  rw [if_neg (by have := hv.2.1; have := hv.2.2; omega), backCoord_eq p c hv]
  rfl

/-- a coordinate outside of its zoom level addresses no tile – and never panics (F9) -/
theorem lookup_outside {β : Type} (s : Src β) (p : Params β) (c : Coord)
    (h : 2 ^ c.2.2 ≤ c.1 ∨ 2 ^ c.2.2 ≤ c.2.1) : lookup s p c = .ok none := by
  unfold lookup
  rw [if_pos h]

/-- the converting reader's lookup panics only if the source's lookup does -/
theorem lookup_no_panic {β : Type} (s : Src β) (p : Params β) (c : Coord)
    (hs : ∀ c0, s.lookup c0 ≠ .panic) : lookup s p c ≠ .panic := by
  unfold lookup
  split
  · intro h; cases h
  · rename_i hn
    have hy : (if p.swapXY then swapC c else c).2.1 < 2 ^ (if p.swapXY then swapC c else c).2.2 := by
      cases p.swapXY <;> simp [swapC] <;> omega
    unfold backCoord
    simp only
    have hb : (if p.flipY then flipCode (if p.swapXY then swapC c else c) else .ok (if p.swapXY then swapC c else c))
        = .ok (if p.flipY then flipC (if p.swapXY then swapC c else c) else (if p.swapXY then swapC c else c)) := by
      cases p.flipY
      · rfl
      · simp only [if_true]; exact flipCode_ok _ hy
    rw [hb]
    simp only [Outcome.bind]
    generalize (if p.flipY then flipC (if p.swapXY then swapC c else c) else (if p.swapXY then swapC c else c)) = c0
    have := hs c0
    cases hl : s.lookup c0 with
    | ok o =>
      cases o with
      | none => simp [recodeLookup]
      | some v => simp only [recodeLookup]; cases p.recode v <;> simp
    | err => simp
    | panic => exact absurd hl this

/-- what the property demands of a lookup, as a relation on results -/
theorem lookup_some_iff {β : Type} (s : Src β) (p : Params β) (c : Coord) (hv : Coord.Valid c) (v' : β) :
    lookup s p c = .ok (some v') ↔
      ∃ v, s.lookup (Tinv p.flipY p.swapXY c) = .ok (some v) ∧ p.recode v = some v' := by
  rw [lookup_spec s p c hv]
  cases s.lookup (Tinv p.flipY p.swapXY c) with
  | ok o =>
    cases o with
    | none => simp [Outcome.bind, recodeLookup]
    | some v =>
      simp only [Outcome.bind, recodeLookup]
      cases hr : p.recode v with
      | none => simp [hr]
      | some w =>
        constructor
        · intro h
          refine ⟨v, rfl, ?_⟩
          cases h
          exact hr
        · rintro ⟨v0, h0, h1⟩
          cases h0
          rw [hr] at h1
          cases h1
          rfl
  | err => simp [Outcome.bind]
  | panic => simp [Outcome.bind]

/-- **F1, the code before commit b3b07ba6** (flip, then swap, applied to the *requested*
    coordinate): with both flags set the lookup used `T` instead of `T⁻¹`.  Source with the single
    tile (1,2,3): its image is `T (1,2,3) = (5,1,3)`; the old lookup finds nothing there. -/
theorem lookup_spec_false_before_fix :
    ∃ (s : Src Coord) (p : Params Coord) (c : Coord), Coord.Valid c ∧
      lookupOld s p c ≠ (s.lookup (Tinv p.flipY p.swapXY c)).bind (recodeLookup p.recode) := by
  refine ⟨memSrc [(1, 2, 3)] [], ⟨none, true, true, some⟩, (5, 1, 3), ⟨by decide, by decide, by decide⟩, ?_⟩
  decide

/-- … and found the tile at the wrong place `T⁻¹ (1,2,3) = (2,6,3)` -/
example : lookupOld (memSrc [(1, 2, 3)] []) ⟨none, true, true, some⟩ (2, 6, 3) = .ok (some (1, 2, 3)) := by
  decide
example : lookup (memSrc [(1, 2, 3)] []) ⟨none, true, true, some⟩ (5, 1, 3) = .ok (some (1, 2, 3)) := by
  decide
/-- for the other three flag pairs old and new code agree (`T = T⁻¹`) -/
theorem lookupOld_eq {β : Type} (s : Src β) (p : Params β) (c : Coord) (hv : Coord.Valid c)
    (h : ¬ (p.flipY = true ∧ p.swapXY = true)) : lookupOld s p c = lookup s p c := by
  have hg : ¬ (2 ^ c.2.2 ≤ c.1 ∨ 2 ^ c.2.2 ≤ c.2.1) := by
    have := hv.2.1; have := hv.2.2; omega
  unfold lookupOld lookup
  rw [if_neg hg]
  unfold backCoordOld backCoord
  cases hf : p.flipY <;> cases hs : p.swapXY <;> simp_all [Outcome.bind]
  cases flipCode c <;> rfl

/-! ## stream -/

/-- the requested box is mapped back without panic -/
theorem backBox_ok {β : Type} (p : Params β) (b : BBox) (hb : b.WF) :
    ∃ b0, backBox p b = .ok b0 ∧ b0.WF ∧ b0.level = b.level ∧
      ∀ c : Coord, Coord.Valid c → c.2.2 = b.level →
        b0.contains2 c.1 c.2.1 = b.contains2 (T p.flipY p.swapXY c).1 (T p.flipY p.swapXY c).2.1 := by
  unfold backBox
  cases hf : p.flipY <;> cases hs : p.swapXY <;> simp only [if_true, if_false, Bool.false_eq_true, T]
  · exact ⟨b, rfl, hb, rfl, fun _ _ _ => rfl⟩
  · exact ⟨_, rfl, swap_wf b hb, swap_level b, fun c _ _ => contains2_swap b _ _⟩
  · refine ⟨_, flip_ok b hb, flip_wf b hb, flip_level b, ?_⟩
    intro c hv hz
    rw [contains2_flip b hb _ _ (by rw [← hz]; exact hv.2.2), ← hz]
    rfl
  · refine ⟨_, flip_ok _ (swap_wf b hb), flip_wf _ (swap_wf b hb), by rw [flip_level, swap_level], ?_⟩
    intro c hv hz
    rw [contains2_flip _ (swap_wf b hb) _ _ (by rw [swap_level, ← hz]; exact hv.2.2), contains2_swap,
      swap_level, ← hz]
    rfl

/-- the `map_coord` callback is `T` (no panic on coordinates of the pyramid) -/
theorem fwdCoord_eq {β : Type} (p : Params β) (c : Coord) (hv : Coord.Valid c) :
    fwdCoord p c = .ok (T p.flipY p.swapXY c) := by
  unfold fwdCoord T
  cases hf : p.flipY <;> cases hs : p.swapXY <;>
    simp [Outcome.bind, flipCode_ok c hv.2.2]

/-- every item is relocated with `T` and recoded -/
theorem fwdItem_eq {β : Type} (p : Params β) (e : Coord × β) (hv : Coord.Valid e.1) (v' : β)
    (hr : p.recode e.2 = some v') : fwdItem p e = .ok (T p.flipY p.swapXY e.1, v') := by
  unfold fwdItem
  rw [fwdCoord_eq p e.1 hv]
  simp [Outcome.bind, hr]

/-- **stream_spec (mapping form)**: if the source stream over the back-mapped box delivers `l`
    (coordinates inside the pyramid) and the recompressor accepts every delivered blob, the
    converter's stream delivers exactly `l` with every coordinate moved by `T` and every blob
    recoded, in the same order. -/
theorem stream_map {β : Type} (s : Src β) (p : Params β) (b b0 : BBox) (l : List (Coord × β))
    (rc : β → β) (hb : backBox p b = .ok b0) (hl : s.stream b0 = .ok l)
    (hv : ∀ e ∈ l, Coord.Valid e.1) (hr : ∀ e ∈ l, p.recode e.2 = some (rc e.2)) :
    stream s p b = .ok (l.map fun e => (T p.flipY p.swapXY e.1, rc e.2)) := by
  unfold stream
  rw [hb]
  simp only [Outcome.bind]
  rw [hl]
  simp only
  exact mapM_ok _ _ l (fun e he => fwdItem_eq p e (hv e he) _ (hr e he))

/-- a source stream that is exact on a box: delivers `(c, v)` iff `c` is in the box and the
    lookup has `v` there (this is what C02's `StreamOK` gives, as a membership statement) -/
def StreamExact {β : Type} (s : Src β) (b0 : BBox) (l : List (Coord × β)) : Prop :=
  s.stream b0 = .ok l ∧ (l.map Prod.fst).Nodup ∧
    ∀ c v, (c, v) ∈ l ↔ (Coord.Valid c ∧ c.2.2 = b0.level ∧ b0.contains2 c.1 c.2.1 = true ∧ s.lookup c = .ok (some v))

/-- **stream_spec**: for every well-formed requested box `b` — if the source stream is exact on
    the back-mapped box, then the converter's stream over `b` succeeds, delivers no coordinate twice
    and delivers `(c, v')` exactly when `c ∈ b` and the converter's *lookup* has `v'` at `c`, i.e.
    `stream' b ≈ {(c, recode (src (T⁻¹ c))) | c ∈ b, src (T⁻¹ c) ≠ none}`. -/
theorem stream_spec {β : Type} (s : Src β) (p : Params β) (b : BBox) (hb : b.WF) (rc : β → β)
    (hr : ∀ v, p.recode v = some (rc v))
    (hs : ∀ b0, backBox p b = .ok b0 → ∃ l, StreamExact s b0 l) :
    ∃ l', stream s p b = .ok l' ∧ (l'.map Prod.fst).Nodup ∧
      ∀ c v', (c, v') ∈ l' ↔
        (Coord.Valid c ∧ c.2.2 = b.level ∧ b.contains2 c.1 c.2.1 = true ∧ lookup s p c = .ok (some v')) := by
  obtain ⟨b0, hb0, _, hlev, hmem⟩ := backBox_ok p b hb
  obtain ⟨l, hl, hnd, hex⟩ := hs b0 hb0
  have hv : ∀ e ∈ l, Coord.Valid e.1 := fun e he => ((hex e.1 e.2).1 he).1
  refine ⟨_, stream_map s p b b0 l rc hb0 hl hv (fun e _ => hr e.2), ?_, ?_⟩
  · -- keys stay distinct: `T` is injective on the pyramid
    rw [List.map_map]
    have : (l.map (Prod.fst ∘ fun e : Coord × β => (T p.flipY p.swapXY e.1, rc e.2)))
        = (l.map Prod.fst).map (T p.flipY p.swapXY) := by simp [List.map_map, Function.comp_def]
    rw [this]
    rw [List.Nodup, List.pairwise_map]
    refine List.Pairwise.imp_of_mem ?_ hnd
    intro a a' ha ha' hne hEq
    obtain ⟨e, he, rfl⟩ := List.mem_map.1 ha
    obtain ⟨e', he', rfl⟩ := List.mem_map.1 ha'
    apply hne
    rw [← Tinv_T p.flipY p.swapXY e.1 (hv e he), ← Tinv_T p.flipY p.swapXY e'.1 (hv e' he'), hEq]
  · intro c v'
    rw [List.mem_map]
    constructor
    · rintro ⟨e, he, hE⟩
      obtain ⟨hvalid, hz, hin, hlk⟩ := (hex e.1 e.2).1 he
      have hc : c = T p.flipY p.swapXY e.1 := (Prod.mk.inj hE).1.symm
      have hv' : v' = rc e.2 := (Prod.mk.inj hE).2.symm
      subst hc; subst hv'
      have hTv := T_valid p.flipY p.swapXY e.1 hvalid
      have hTz : (T p.flipY p.swapXY e.1).2.2 = e.1.2.2 := by
        cases p.flipY <;> cases p.swapXY <;> rfl
      refine ⟨hTv, by rw [hTz, hz, hlev], ?_, ?_⟩
      · rw [← hmem e.1 hvalid (by rw [hz, hlev])]; exact hin
      · rw [lookup_some_iff s p _ hTv]
        exact ⟨e.2, by rw [Tinv_T _ _ _ hvalid]; exact hlk, hr e.2⟩
    · rintro ⟨hvalid, hz, hin, hlk⟩
      obtain ⟨v, hsv, hrv⟩ := (lookup_some_iff s p c hvalid v').1 hlk
      have hTi := Tinv_valid p.flipY p.swapXY c hvalid
      have hTz : (Tinv p.flipY p.swapXY c).2.2 = c.2.2 := by
        cases p.flipY <;> cases p.swapXY <;> rfl
      refine ⟨(Tinv p.flipY p.swapXY c, v), ?_, ?_⟩
      · rw [hex]
        refine ⟨hTi, by rw [hTz, hz, hlev], ?_, hsv⟩
        rw [hmem _ hTi (by rw [hTz, hz]), T_Tinv _ _ _ hvalid]
        exact hin
      · rw [T_Tinv _ _ _ hvalid]
        rw [hr v] at hrv
        cases hrv
        rfl

/-! ## stream_spec in the multiset (`Perm`) form of C02 -/

/-- membership in `expected` (C02's reference list) in the vocabulary of `StreamExact` -/
theorem mem_expected' {β : Type} (s : Src β) (b : BBox) (hb : b.WF) (c : Coord) (v : β) :
    (c, v) ∈ expected s b ↔
      (Coord.Valid c ∧ c.2.2 = b.level ∧ b.contains2 c.1 c.2.1 = true ∧ s.lookup c = .ok (some v)) := by
  rw [VtModel.mem_expected]
  simp only
  constructor
  · rintro ⟨h1, h2⟩
    have hm := (VtModel.mem_coords3 b c).1 h1
    exact ⟨VtModel.coords3_valid hb h1, hm.1, (BBox.contains2_iff b _ _).2 hm.2, h2⟩
  · rintro ⟨_, h2, h3, h4⟩
    exact ⟨(VtModel.mem_coords3 b c).2 ⟨h2, (BBox.contains2_iff b _ _).1 h3⟩, h4⟩

/-- C02's `StreamOK` gives exactness on every well-formed box -/
theorem streamOK_exact {β : Type} (s : Src β) (hs : StreamOK s) (b0 : BBox) (hb : b0.WF) :
    ∃ l, StreamExact s b0 l := by
  obtain ⟨l, h1, h2, h3⟩ := hs b0 hb
  refine ⟨l, h1, h2, ?_⟩
  intro c v
  rw [h3.mem_iff, mem_expected' s b0 hb]

/-- **stream_spec, multiset form / `convert_stream_ok`**: the converting reader over a source that
    satisfies C02 (`StreamOK`) satisfies C02 itself – for every well-formed box (inside, across,
    beyond the coverage, any empty encoding) its stream finishes, delivers no coordinate twice and
    is a permutation of what its own lookups deliver inside the box,
    `stream' b ≈ [(c, recode (src (T⁻¹ c))) | c ∈ b, src (T⁻¹ c) ≠ none]`.  All four flag pairs;
    `cov` is whatever coverage is advertised. -/
theorem convert_stream_ok {β : Type} (s : Src β) (p : Params β) (rc : β → β)
    (hr : ∀ v, p.recode v = some (rc v)) (hs : StreamOK s) (cov : Pyramid) :
    StreamOK (⟨lookup s p, stream s p, cov⟩ : Src β) := by
  intro b hb
  obtain ⟨l', h1, h2, h3⟩ := stream_spec s p b hb rc hr (fun b0 hb0 => by
    obtain ⟨b0', hb0', w0, _⟩ := backBox_ok p b hb
    rw [hb0] at hb0'
    cases hb0'
    exact streamOK_exact s hs b0 w0)
  refine ⟨l', h1, h2, ?_⟩
  apply VtModel.perm_of_nodup_mem_iff (VtModel.nodup_of_keys_nodup h2)
    (VtModel.nodup_of_keys_nodup (VtModel.expected_keys_nodup _ b))
  rintro ⟨c, v'⟩
  rw [h3, mem_expected' (⟨lookup s p, stream s p, cov⟩ : Src β) b hb]

/-! ## the conversion: selection theorem -/

/-- all tiles delivered by the level streams of a source whose streams are exact: `(c, v)` is
    delivered iff `c` is in the advertised coverage and the lookup has `v` at `c` -/
theorem walkSrc_mem {β : Type} (s : Src β) (hw : s.cover.WF)
    (hs : ∀ b ∈ s.cover, ∃ l, StreamExact s b l) :
    ∃ out, walkSrc s = .ok out ∧
      ∀ c v, (c, v) ∈ out ↔ (Pyramid.has s.cover c = true ∧ s.lookup c = .ok (some v)) := by
  -- choose the level results
  have hch : ∀ b ∈ Pyramid.iterLevels s.cover, ∃ l, StreamExact s b l :=
    fun b hb => hs b (List.mem_filter.1 hb).1
  -- build the list of results by recursion over the level list
  have key : ∀ (L : List BBox), (∀ b ∈ L, ∃ l, StreamExact s b l) →
      ∃ R : List (List (Coord × β)), BBox.mapM s.stream L = .ok R ∧
        ∀ c v, (c, v) ∈ R.flatten ↔ ∃ b ∈ L, Coord.Valid c ∧ c.2.2 = b.level ∧
          b.contains2 c.1 c.2.1 = true ∧ s.lookup c = .ok (some v) := by
    intro L
    induction L with
    | nil => intro _; exact ⟨[], rfl, by simp⟩
    | cons b bs ih =>
      intro h
      obtain ⟨l, hl, _, hex⟩ := h b (by simp)
      obtain ⟨R, hR, hmem⟩ := ih (fun x hx => h x (by simp [hx]))
      refine ⟨l :: R, by simp [BBox.mapM, hl, hR], ?_⟩
      intro c v
      simp only [List.flatten_cons, List.mem_append, hmem, hex, List.mem_cons, exists_eq_or_imp]
  obtain ⟨R, hR, hmem⟩ := key _ hch
  refine ⟨R.flatten, by simp [walkSrc, hR, Outcome.map, Outcome.bind], ?_⟩
  intro c v
  rw [hmem]
  constructor
  · rintro ⟨b, hb, hvalid, hz, hin, hlk⟩
    refine ⟨?_, hlk⟩
    have hbm := (List.mem_filter.1 hb).1
    obtain ⟨_, _, hget⟩ := wf_mem s.cover hw b hbm
    rw [has_eq, hz, hget]
    simp [hin]
  · rintro ⟨hhas, hlk⟩
    have hvalid := has_valid s.cover hw c hhas
    obtain ⟨b, hb, hl, _⟩ := wf_getElem? s.cover hw c.2.2 (by have := hvalid.1; omega)
    rw [has_eq, hb] at hhas
    simp only [Bool.and_eq_true] at hhas
    refine ⟨b, ?_, hvalid, hl.symm, hhas.2, hlk⟩
    refine List.mem_filter.2 ⟨List.mem_of_getElem? hb, ?_⟩
    have := (contains2_iff b _ _).1 hhas.2
    simp [BBox.isEmpty]
    omega

/-- **Selection theorem.**  A conversion (any writer walking the advertised levels) of a source
    whose coverage is well-formed and contains its tiles (`Covers`, property C03) and whose streams
    are exact (property C02) succeeds, and its output has a tile `(c, v')` **iff** `c` lies in the
    requested selection and the source has a tile `v` at the pre-image `T⁻¹ c` with
    `recode v = v'`.  All four flag pairs, every requested pyramid, every tile set. -/
theorem selection {β : Type} (s : Src β) (p : Params β) (rc : β → β)
    (hr : ∀ v, p.recode v = some (rc v))
    (hw : s.cover.WF) (hq : ∀ q, p.bboxPyramid = some q → q.WF)
    (hcov : Covers s)
    (hs : ∀ b0 : BBox, b0.WF → ∃ l, StreamExact s b0 l) :
    ∃ cov out, walk s p = .ok (cov, out) ∧
      (∀ c v', (c, v') ∈ out ↔
        (Coord.Valid c ∧ reqHas p.bboxPyramid c = true ∧
          ∃ v, s.lookup (Tinv p.flipY p.swapXY c) = .ok (some v) ∧ rc v = v')) ∧
      (∀ c v', (c, v') ∈ out → Pyramid.has cov c = true) := by
  obtain ⟨cov, hc, wcov, hmem⟩ := cover_eq s.cover p hw hq
  -- the converting reader's streams are exact on every level box of its coverage
  have hex : ∀ b ∈ cov, ∃ l, StreamExact (⟨lookup s p, stream s p, cov⟩ : Src β) b l := by
    intro b hb
    have hbw := (wf_mem cov wcov b hb).1
    obtain ⟨l', h1, h2, h3⟩ := stream_spec s p b hbw rc hr (fun b0 hb0 => by
      obtain ⟨b0', hb0', w0, _⟩ := backBox_ok p b hbw
      rw [hb0] at hb0'
      cases hb0'
      exact hs b0 w0)
    exact ⟨l', h1, h2, h3⟩
  obtain ⟨out, hout, hom⟩ := walkSrc_mem (⟨lookup s p, stream s p, cov⟩ : Src β) wcov hex
  refine ⟨cov, out, ?_, ?_, ?_⟩
  · simp [walk, convert, hc, Outcome.bind, hout, Outcome.map]
  · intro c v'
    rw [hom]
    constructor
    · rintro ⟨hhas, hlk⟩
      have hvalid := has_valid cov wcov c hhas
      rw [hmem c hvalid, Bool.and_eq_true] at hhas
      obtain ⟨v, hv, hrv⟩ := (lookup_some_iff s p c hvalid v').1 hlk
      rw [hr v] at hrv
      exact ⟨hvalid, hhas.2, v, hv, by cases hrv; rfl⟩
    · rintro ⟨hvalid, hreq, v, hv, hrv⟩
      refine ⟨?_, (lookup_some_iff s p c hvalid v').2 ⟨v, hv, by rw [hr v, hrv]⟩⟩
      rw [hmem c hvalid, hreq, Bool.and_true]
      exact hcov _ _ hv
  · intro c v' h
    exact ((hom c v').1 h).1

/-! ## lookup = stream = coverage -/

/-- inside the advertised coverage, and for *all four* flag pairs, the three views of the
    converting reader agree: a coordinate of the coverage is streamed with payload `v'` iff the
    lookup returns `v'` there (both equal to the recoded source tile at `T⁻¹ c`). -/
theorem lookup_eq_stream {β : Type} (s : Src β) (p : Params β) (b : BBox) (hb : b.WF) (rc : β → β)
    (hr : ∀ v, p.recode v = some (rc v)) (hs : ∀ b0 : BBox, b0.WF → ∃ l, StreamExact s b0 l)
    (c : Coord) (hv : Coord.Valid c) (hz : c.2.2 = b.level) (hin : b.contains2 c.1 c.2.1 = true) (v' : β) :
    (∃ l', stream s p b = .ok l' ∧ ((c, v') ∈ l' ↔ lookup s p c = .ok (some v'))) := by
  obtain ⟨l', h1, _, h3⟩ := stream_spec s p b hb rc hr (fun b0 hb0 => by
    obtain ⟨b0', hb0', w0, _⟩ := backBox_ok p b hb
    rw [hb0] at hb0'
    cases hb0'
    exact hs b0 w0)
  exact ⟨l', h1, by rw [h3]; simp [hv, hz, hin]⟩

/-! ## C03 for the converting reader (known finding: restricted readers answer outside) -/

/-- without a requested pyramid the converting reader's coverage contains every tile its lookup
    can return (for coordinates of the pyramid) -/
theorem convert_covers_partial {β : Type} (s : Src β) (p : Params β) (hw : s.cover.WF)
    (hnone : p.bboxPyramid = none) (hcov : Covers s) :
    ∃ cov, newCover s.cover p = .ok cov ∧
      ∀ c v', Coord.Valid c → lookup s p c = .ok (some v') → Pyramid.has cov c = true := by
  obtain ⟨cov, hc, _, hmem⟩ := cover_eq s.cover p hw (by rw [hnone]; intro q h; cases h)
  refine ⟨cov, hc, ?_⟩
  intro c v' hvalid hlk
  obtain ⟨v, hv, _⟩ := (lookup_some_iff s p c hvalid v').1 hlk
  rw [hmem c hvalid, hnone]
  simp [reqHas, hcov _ _ hv]

/-- **Counterexample to the full statement** ("lookup agrees with the advertised coverage" for a
    reader restricted by a bbox pyramid): `get_tile_data` does not consult the restricted coverage.
    Source: one tile (0,0,1); requested: only (1,1) at level 1; the advertised coverage is empty at
    (0,0,1) but the lookup returns the tile. -/
theorem convert_covers_fails_restricted :
    ∃ (tiles : List Coord) (cover req cov : Pyramid) (c : Coord),
      Covers (memSrc tiles cover) ∧
      newCover cover (⟨some req, false, false, some⟩ : Params Coord) = .ok cov ∧
      lookup (memSrc tiles cover) ⟨some req, false, false, some⟩ c = .ok (some c) ∧
      Pyramid.has cov c = false := by
  refine ⟨[(0, 0, 1)], (Pyramid.newEmpty.set 1 ⟨1, 0, 0, 0, 0⟩), (Pyramid.newEmpty.set 1 ⟨1, 1, 1, 1, 1⟩), _, (0, 0, 1), ?_, rfl, by decide, by decide⟩
  intro c v h
  simp only [memSrc, Src.ofLookup, memLookup] at h
  split at h
  · rename_i hc
    have : c = (0, 0, 1) := by simpa using hc
    subst this
    decide
  · cases h

/-! ## option handling of `versatiles convert` -/

/-- no option → no restriction -/
theorem options_none (geo : Option (Bool × (Nat → Outcome BBox))) (border : Option Nat)
    (h : geo = none) : getBBoxPyramidG none none geo border = .ok none := by
  subst h; rfl

/-- an invalid `--bbox` (failing `GeoBBox::check`) is an error, never a panic (after 542b6bce) -/
theorem options_invalid_bbox (mn mx : Option Nat) (fromGeo : Nat → Outcome BBox) (border : Option Nat) :
    getBBoxPyramidG mn mx (some (false, fromGeo)) border = .err := by
  unfold getBBoxPyramidG
  cases mn <;> cases mx <;> simp

/-- zoom limits only: level `z` is selected entirely iff `min ≤ z ≤ max` -/
theorem options_zoom (mn mx : Option Nat) (h : mn.isSome ∨ mx.isSome) (c : Coord) (hv : Coord.Valid c) :
    ∃ q, getBBoxPyramidG mn mx none none = .ok (some q) ∧
      (Pyramid.has q c = true ↔ (∀ a, mn = some a → a ≤ c.2.2) ∧ (∀ a, mx = some a → c.2.2 ≤ a)) := by
  obtain ⟨x, y, z⟩ := c
  have hz : z < 32 := by have := hv.1; simp at this; omega
  have hx : x < 2 ^ z := hv.2.1
  have hy : y < 2 ^ z := hv.2.2
  have hlen : (Pyramid.newFull 32).length = 32 := by simp [Pyramid.newFull, Pyramid.levels]
  have hget : ∀ (g : Nat → BBox → BBox), ((Pyramid.newFull 32).mapIdx g)[z]? = some (g z ⟨z, 0, 0, 2 ^ z - 1, 2 ^ z - 1⟩) := by
    intro g
    simp [Pyramid.newFull, Pyramid.levels, List.getElem?_mapIdx, List.getElem?_map, List.getElem?_range hz]
    rw [if_pos (by omega)]
  unfold getBBoxPyramidG
  cases mn with
  | none =>
    cases mx with
    | none => simp at h
    | some b =>
      refine ⟨_, rfl, ?_⟩
      simp only [Pyramid.has, Pyramid.containsCoord, Pyramid.setZoomMax, hget]
      by_cases hb : z > b
      · simp [hb, BBox.setEmpty, BBox.contains3, BBox.contains2]; omega
      · simp [hb, BBox.contains3, BBox.contains2]; omega
  | some a =>
    cases mx with
    | none =>
      refine ⟨_, rfl, ?_⟩
      simp only [Pyramid.has, Pyramid.containsCoord, Pyramid.setZoomMin, hget]
      by_cases ha : z < a
      · simp [ha, BBox.setEmpty, BBox.contains3, BBox.contains2]; omega
      · simp [ha, BBox.contains3, BBox.contains2]; omega
    | some b =>
      refine ⟨_, rfl, ?_⟩
      simp only [Pyramid.has, Pyramid.containsCoord, Pyramid.setZoomMax, Pyramid.setZoomMin,
        List.mapIdx_mapIdx, hget]
      by_cases ha : z < a <;> by_cases hb : z > b <;>
        simp [ha, hb, BBox.setEmpty, BBox.contains3, BBox.contains2] <;> omega

/-- **`--bbox` (+ `--bbox-border`, + zoom limits)**: with a valid box (`check` passed) whose per-level
    tile boxes `g z = TileBBox::from_geo(z, bbox)` are well-formed (C15), the option handling never
    panics (border ≤ 2^32 − 2^31 − 1; the unchecked `x_max + border` of `add_border` overflows `u32`
    beyond that) and selects exactly: level inside the zoom limits ∧ the geo box of the level is not
    empty ∧ the coordinate lies within `border` tiles (Chebyshev distance, clamped to the level) of it. -/
theorem options_geo (mn mx : Option Nat) (fromGeo : Nat → Outcome BBox) (g : Nat → BBox)
    (hg : ∀ z, z < 32 → fromGeo z = .ok (g z) ∧ (g z).level = z ∧ (g z).WF)
    (border : Option Nat) (hbd : ∀ b, border = some b → b + 2 ^ 31 ≤ U32) :
    ∃ q, getBBoxPyramidG mn mx (some (true, fromGeo)) border = .ok (some q) ∧
      ∀ c, Coord.Valid c →
        (Pyramid.has q c = true ↔
          (VtProofs.ConvOptions.zoomOK mn mx c.2.2 ∧ (g c.2.2).isEmpty = false ∧
            (g c.2.2).xmin ≤ c.1 + border.getD 0 ∧ c.1 ≤ (g c.2.2).xmax + border.getD 0 ∧
            (g c.2.2).ymin ≤ c.2.1 + border.getD 0 ∧ c.2.1 ≤ (g c.2.2).ymax + border.getD 0)) := by
  open VtProofs.ConvOptions in
  -- the zoom-limited full pyramid
  have hp2 :
      getBBoxPyramidG mn mx (some (true, fromGeo)) border
        = (intersectGeoWith fromGeo (zoomPyrOf mn mx)).bind fun p3 =>
            match border with
            | some b => (Pyramid.addBorder p3 b b b b).map some
            | none => .ok (some p3) := by
    unfold getBBoxPyramidG zoomPyrOf
    cases mn <;> cases mx <;> rfl
  rw [hp2, zoomPyrOf_eq]
  -- intersect with the geo boxes
  have h3 : intersectGeoWith fromGeo ((List.range 32).map (zoomBox mn mx))
      = .ok ((List.range 32).map fun z => isectBox (zoomBox mn mx z) (g z)) := by
    unfold intersectGeoWith
    rw [mapM_ok _ (fun b => isectBox b (g b.level))]
    · simp [List.map_map, Function.comp_def, zoomBox_level]
    · intro b hb
      obtain ⟨z, hz, rfl⟩ := List.mem_map.1 hb
      have hz' : z < 32 := by simpa using hz
      obtain ⟨hf, hl, _⟩ := hg z hz'
      rw [zoomBox_level, hf]
      simp only
      rw [isect_ok _ _ (by rw [zoomBox_level, hl])]
      rfl
  rw [h3]
  simp only [Outcome.bind]
  -- the border
  have h4 : (match border with
      | some b => (Pyramid.addBorder ((List.range 32).map fun z => isectBox (zoomBox mn mx z) (g z)) b b b b).map some
      | none => Outcome.ok (some ((List.range 32).map fun z => isectBox (zoomBox mn mx z) (g z))))
      = .ok (some ((List.range 32).map (reqBox mn mx g border))) := by
    cases hb : border with
    | none => simp [reqBox]
    | some bd =>
      simp only
      unfold Pyramid.addBorder
      rw [mapM_ok _ (fun b => borderBox b bd)]
      · simp [Outcome.map, Outcome.bind, List.map_map, Function.comp_def, reqBox]
      · intro b hbm
        obtain ⟨z, hz, rfl⟩ := List.mem_map.1 hbm
        have hz' : z < 32 := by simpa using hz
        exact addBorder_ok _ (isect_wf _ _ (zoomBox_wf mn mx z hz')) bd (hbd bd hb)
  rw [h4]
  refine ⟨_, rfl, ?_⟩
  intro c hv
  obtain ⟨x, y, z⟩ := c
  have hz : z < 32 := by have := hv.1; simp at this; omega
  have hx : x < 2 ^ z := hv.2.1
  have hy : y < 2 ^ z := hv.2.2
  unfold Pyramid.has Pyramid.containsCoord
  simp only [List.getElem?_map, List.getElem?_range hz, Option.map_some, BBox.contains3, reqBox_level,
    beq_self_eq_true, Bool.true_and]
  exact reqBox_contains mn mx g border z hz (hg z hz).2 x y hx hy

/-! ## `versatiles serve --flip-y --swap-xy` = `versatiles convert --flip-y --swap-xy` -/

/-- the source a server registers for a container (serve.rs:108-114): wrapped in a converting
    reader with default parameters iff a transform flag is given -/
def serveSrc {β : Type} (f s : Bool) (recode : β → Option β) (src : Src β) : Outcome (Src β) :=
  if f || s then convert src ⟨none, f, s, recode⟩ else .ok src

/-- without a flag the server serves the container itself -/
theorem serve_plain {β : Type} (recode : β → Option β) (src : Src β) :
    serveSrc false false recode src = .ok src := rfl

/-- **the server exposes the coordinate mapping of the conversion**: for a source with a
    well-formed coverage that contains its tiles (C03) and exact streams (C02), a tile endpoint
    lookup at a coordinate `c` of the pyramid answers `v'` exactly when the container produced by
    `versatiles convert` with the same flags (no selection) holds `(c, v')`. -/
theorem serve_matches_convert {β : Type} (f s : Bool) (src : Src β) (recode : β → Option β) (rc : β → β)
    (hr : ∀ v, recode v = some (rc v)) (hw : src.cover.WF) (hcov : Covers src)
    (hs : ∀ b0 : BBox, b0.WF → ∃ l, StreamExact src b0 l) (hfs : (f || s) = true) :
    ∃ served cov out, serveSrc f s recode src = .ok served ∧
      walk src ⟨none, f, s, recode⟩ = .ok (cov, out) ∧
      ∀ c v', Coord.Valid c → (served.lookup c = .ok (some v') ↔ (c, v') ∈ out) := by
  obtain ⟨cov, out, hwalk, hmem, _⟩ := selection src ⟨none, f, s, recode⟩ rc hr hw (by intro q h; cases h) hcov hs
  obtain ⟨cov', hc, _, _⟩ := cover_eq src.cover (⟨none, f, s, recode⟩ : Params β) hw (by intro q h; cases h)
  refine ⟨⟨lookup src ⟨none, f, s, recode⟩, stream src ⟨none, f, s, recode⟩, cov'⟩, cov, out, ?_, hwalk, ?_⟩
  · simp [serveSrc, hfs, convert, hc, Outcome.bind]
  · intro c v' hv
    simp only
    rw [hmem, lookup_some_iff src _ c hv]
    simp only [reqHas, true_and, hv]
    constructor
    · rintro ⟨v, h1, h2⟩
      exact ⟨v, h1, by rw [hr v] at h2; cases h2; rfl⟩
    · rintro ⟨v, h1, h2⟩
      exact ⟨v, h1, by rw [hr v, h2]⟩

/-! ## non-vacuity -/

/-- a source satisfying every hypothesis of `selection`: the in-memory source of the harness with
    an exact default stream (single tile) -/
example : Covers (memSrc [(1, 2, 3)] (Pyramid.newEmpty.set 3 ⟨3, 1, 2, 1, 2⟩)) := by
  intro c v h
  simp only [memSrc, Src.ofLookup, memLookup] at h
  split at h
  · rename_i hc
    have : c = (1, 2, 3) := by simpa using hc
    subst this
    decide
  · cases h

example : Pyramid.WF (Pyramid.newEmpty.set 3 ⟨3, 1, 2, 1, 2⟩) :=
  wf_set _ wf_newEmpty ⟨3, 1, 2, 1, 2⟩ ⟨by decide, by decide, by decide⟩

/-- the full walk of the F1 witness with both flags: the tile arrives at `T (1,2,3) = (5,1,3)` -/
example : walk (memSrc [(1, 2, 3)] (Pyramid.newEmpty.set 3 ⟨3, 1, 2, 1, 2⟩)) ⟨none, true, true, some⟩
    = .ok ((Pyramid.newEmpty.set 3 ⟨3, 5, 1, 5, 1⟩), [((5, 1, 3), (1, 2, 3))]) := by
  decide

end VtProps.C06
