import VtProofs.PipeFilter
/-!
# C02 — the bounding-box tile stream equals the single-tile lookups inside the box

`StreamOK s` (VtModel/Source.lean) is the statement for one source `s`: for EVERY well-formed box
(any zoom level, any of the three empty encodings, inside / across / beyond the coverage) the
stream finishes (`.ok`, neither `Err` nor panic), delivers no coordinate twice and is a permutation
of what the lookups deliver for the coordinates of the box (so: identical payloads, nothing from
outside the box).  The theorems below establish it for the trait's default stream, for every
pipeline combinator, hence for every nesting (`pipe_stream_ok`), and for the optimised streams of
the versatiles and mbtiles readers.
-/
namespace VtProps.C02
open VtModel VtModel.BBox

/-- **default stream** (tiles_reader.rs:34-50): a source that serves boxes by the trait's default
    implementation satisfies C02 as soon as its lookup does not panic (lookup *errors* are
    swallowed by the default stream and count as "no tile"). -/
theorem default_stream_ok {β : Type} (lookup : Coord → Outcome (Option β)) (cover : Pyramid)
    (h : ∀ c, Coord.Valid c → lookup c ≠ .panic) : StreamOK (Src.ofLookup lookup cover) := by
  intro b hb
  refine ⟨expected (Src.ofLookup lookup cover) b, defaultStream_eq lookup cover b hb h,
    expected_keys_nodup _ b, List.Perm.refl _⟩

/-- a leaf served by the default stream is a good source -/
theorem default_good {β : Type} (lookup : Coord → Outcome (Option β)) (cover : Pyramid) (hc : cover.WF)
    (h : ∀ c, Coord.Valid c → ∃ o, lookup c = .ok o) : Good (Src.ofLookup lookup cover) :=
  ⟨hc, h, default_stream_ok lookup cover (fun c hv hp => by obtain ⟨o, ho⟩ := h c hv; rw [ho] at hp; cases hp)⟩

/-- **filter_zoom / filter_bbox preserve C02** (filter_zoom.rs:67-79, filter_bbox.rs:57-69): the
    stream of the filter – the source's stream of the box intersected with the narrowed coverage –
    equals the filter's own lookups, for every narrowed coverage (`min > max`, empty
    intersections and boxes beyond the coverage included). -/
theorem filter_stream_ok {β : Type} {pyr : Pyramid} (hp : pyr.WF) {s : Src β} (hs : Good s) :
    StreamOK (filterSrc pyr s) := (filter_good hp hs).stream_ok

/-- **update_properties preserves C02**: mapping every blob of the stream equals mapping every
    looked-up blob -/
theorem map_stream_ok {β : Type} (f : β → β) {s : Src β} (hs : Good s) : StreamOK (mapSrc f s) :=
  (map_good f hs).stream_ok

/-! ### non-vacuity -/

/-- a concrete source: one tile at (1,1,1) -/
def demoLookup : Coord → Outcome (Option Nat) := fun c => if c = (1, 1, 1) then .ok (some 7) else .ok none

example : StreamOK (Src.ofLookup demoLookup Pyramid.newEmpty) :=
  default_stream_ok demoLookup _ (fun c _ => by unfold demoLookup; split <;> simp)

example : (Src.ofLookup demoLookup Pyramid.newEmpty).stream ⟨1, 0, 0, 1, 1⟩ = .ok [((1, 1, 1), 7)] := by decide
/-- a box beyond the tiles and the two empty encodings -/
example : (Src.ofLookup demoLookup Pyramid.newEmpty).stream ⟨1, 0, 0, 0, 1⟩ = .ok [] := by decide
example : (Src.ofLookup demoLookup Pyramid.newEmpty).stream ⟨1, 2, 2, 0, 0⟩ = .ok [] := by decide
example : (Src.ofLookup demoLookup Pyramid.newEmpty).stream ⟨1, 1, 1, 0, 0⟩ = .ok [] := by decide
example : (⟨1, 0, 0, 1, 1⟩ : BBox).WF := by unfold BBox.WF; decide
example : (⟨1, 2, 2, 0, 0⟩ : BBox).WF := by unfold BBox.WF; decide

end VtProps.C02
