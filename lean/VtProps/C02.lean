import VtProofs.PipeBuild
import VtProofs.StreamReaders
/-!
# C02 — the bounding-box tile stream equals the single-tile lookups inside the box

`StreamOK s` (VtModel/Source.lean) is the statement for one source `s`: for EVERY well-formed box
(any zoom level, any of the three empty encodings, inside / across / beyond the coverage) the
stream finishes (`.ok`, neither `Err` nor panic), delivers no coordinate twice and is a permutation
of what the lookups deliver for the coordinates of the box (so: identical payloads, nothing from
outside the box).  The theorems below establish it for the trait's default stream, for every
pipeline combinator, hence for every nesting (`pipe_stream_ok`), and for the optimised streams of
the versatiles and mbtiles readers.
-/
namespace VtProps.C02
open VtModel VtModel.BBox

/-- **default stream** (tiles_reader.rs:34-50): a source that serves boxes by the trait's default
    implementation satisfies C02 as soon as its lookup does not panic (lookup *errors* are
    swallowed by the default stream and count as "no tile"). -/
theorem default_stream_ok {β : Type} (lookup : Coord → Outcome (Option β)) (cover : Pyramid)
    (h : ∀ c, Coord.Valid c → lookup c ≠ .panic) : StreamOK (Src.ofLookup lookup cover) := by
  intro b hb
  refine ⟨expected (Src.ofLookup lookup cover) b, defaultStream_eq lookup cover b hb h,
    expected_keys_nodup _ b, List.Perm.refl _⟩

/-- **failing lookups** (tiles_reader.rs:45-47 `.unwrap_or(None)`): when `get_tile_data` returns
    `Err` for some coordinates (and panics for none) the default stream is exactly the row-major
    list of the coordinates whose lookup is `Ok(Some _)`: a failed coordinate is dropped, every
    other tile of the box is still delivered, nothing is truncated. -/
theorem default_stream_drops_only_failed_lookups {β : Type} (lookup : Coord → Outcome (Option β)) (cover : Pyramid)
    (h : ∀ c, Coord.Valid c → lookup c ≠ .panic) (b : BBox) (hb : b.WF) :
    ∃ l, (Src.ofLookup lookup cover).stream b = .ok l ∧
      l = b.coords3.filterMap (fun c => match lookup c with | .ok (some p) => some (c, p) | _ => none) ∧
      ∀ c p, (c, p) ∈ l ↔ c ∈ b.coords3 ∧ lookup c = .ok (some p) := by
  refine ⟨expected (Src.ofLookup lookup cover) b, defaultStream_eq lookup cover b hb h, rfl, ?_⟩
  intro c p
  exact mem_expected (Src.ofLookup lookup cover) b (c, p)

/-- a leaf served by the default stream is a good source -/
theorem default_good {β : Type} (lookup : Coord → Outcome (Option β)) (cover : Pyramid) (hc : cover.WF)
    (h : ∀ c, Coord.Valid c → ∃ o, lookup c = .ok o) : Good (Src.ofLookup lookup cover) :=
  ⟨hc, h, default_stream_ok lookup cover (fun c hv hp => by obtain ⟨o, ho⟩ := h c hv; rw [ho] at hp; cases hp)⟩

/-- **filter_zoom / filter_bbox preserve C02** (filter_zoom.rs:67-79, filter_bbox.rs:57-69): the
    stream of the filter – the source's stream of the box intersected with the narrowed coverage –
    equals the filter's own lookups, for every narrowed coverage (`min > max`, empty
    intersections and boxes beyond the coverage included). -/
theorem filter_stream_ok {β : Type} {pyr : Pyramid} (hp : pyr.WF) {s : Src β} (hs : Good s) :
    StreamOK (filterSrc pyr s) := (filter_good hp hs).stream_ok

/-- **update_properties preserves C02**: mapping every blob of the stream equals mapping every
    looked-up blob -/
theorem map_stream_ok {β : Type} (f : β → β) {s : Src β} (hs : Good s) : StreamOK (mapSrc f s) :=
  (map_good f hs).stream_ok

/-- **from_overlayed preserves C02** (from_overlayed.rs:98-140), for ANY list of good sources,
    any declared compression and any opaque recompression: the stream built from 32×32 cells
    (`iter_bbox_grid`), the bounding box of the still empty slots per source and fill-only-empty
    slot updates delivers exactly the overlay's lookups; none of `get_tile_index3(..).unwrap()`,
    `get_coord3_by_index(..).unwrap()`, `tiles[index]` or the grid arithmetic can panic. -/
theorem overlay_stream_ok {β : Type} (ops : Ops β) (out : Nat) {cover : Pyramid} (hc : cover.WF)
    (srcs : List (Op β)) (hs : ∀ o ∈ srcs, Good o.src) : StreamOK (overlaySrc ops out cover srcs) :=
  (overlay_good ops out hc srcs hs).stream_ok

/-- **from_vectortiles_merged preserves C02** (structure; the payload merge is opaque) -/
theorem merge_stream_ok {β : Type} (ops : Ops β) {cover : Pyramid} (hc : cover.WF)
    (srcs : List (Op β)) (hs : ∀ o ∈ srcs, Good o.src) : StreamOK (mergedSrc ops cover srcs) :=
  (merged_good ops hc srcs hs).stream_ok

/-- **every nesting**: whatever pipeline is built from good leaves — any depth, any combination
    of from_container, from_debug, filter_zoom, filter_bbox, from_overlayed, from_vectortiles_merged,
    update_properties (all seven operations the factory registers) —
    the resulting operation satisfies C02 (and its lookups never fail, its coverage is
    well-formed).  Induction over the syntax tree `Pipe`. -/
theorem pipe_stream_ok {β : Type} (ops : Ops β) (env : Nat → Outcome (Op β))
    (henv : ∀ i o, env i = .ok o → Good o.src) (p : Pipe) (hd : p.DebugOK) (o : Op β) (h : build ops env p = .ok o) :
    StreamOK o.src := (build_good ops env henv p hd o h).stream_ok

theorem pipe_good {β : Type} (ops : Ops β) (env : Nat → Outcome (Op β))
    (henv : ∀ i o, env i = .ok o → Good o.src) (p : Pipe) (hd : p.DebugOK) (o : Op β) (h : build ops env p = .ok o) :
    Good o.src := build_good ops env henv p hd o h

/-- **from_debug** (from_debug/mod.rs:99-116): the parallel `from_coord_iter_parallel` stream over
    the box equals the lookups (every coordinate of the pyramid has a tile) -/
theorem debug_stream_ok {β : Type} (ops : Ops β) {fmt : Nat} (hf : debugFmtOK fmt = true) : StreamOK (debugOp ops fmt).src :=
  (debug_good ops hf).stream_ok

/-- **versatiles reader** (versatiles/reader.rs:232-374): the chunked stream — block scan over the
    256-scaled box (missing blocks skipped), index scan filtered by the used box, sort by offset,
    chunk merge (64 MiB / 32 KiB), one read per chunk, slicing — satisfies C02 for every
    well-formed file and every box: beyond the stored blocks, sparse block index, every empty
    encoding. -/
theorem versatiles_stream_ok {f : VFile} (cover : Pyramid) (hf : f.WF) : StreamOK (versatilesSrc f cover) :=
  VtModel.versatiles_stream_ok cover hf

/-- the `panic!()` in `Chunk::push` is dead code: on offset-sorted entries every pushed entry
    starts at or after the chunk start, every tile of a finished chunk lies inside the chunk's
    byte range, and no entry is lost or reordered -/
theorem chunk_push_dead (sorted : List (Coord × VEntry))
    (hs : sorted.Pairwise (fun a b => a.2.off ≤ b.2.off))
    (hb : ∀ e ∈ sorted, e.2.off + e.2.len + MAX_CHUNK_SIZE < U64) :
    ∃ cs, mergeChunks sorted = .ok cs ∧ cs.flatMap Chunk.tiles = sorted ∧
      ∀ c ∈ cs, ∀ t ∈ c.tiles, c.off ≤ t.2.off ∧ t.2.off + t.2.len ≤ c.off + c.len :=
  chunk_push_invariant sorted hs hb

/-- slicing the chunk blob at `e.off − chunk.off` equals reading `e.range` directly -/
theorem slice_is_read (f : VFile) (coff clen eoff elen : Nat) (h1 : coff ≤ eoff) (h2 : eoff + elen ≤ coff + clen) :
    ((f.readRange coff clen).drop (eoff - coff)).take elen = f.readRange eoff elen :=
  slice_eq_read f coff clen eoff elen h1 h2

/-- **mbtiles reader** (mbtiles/reader.rs:366-411): one range query on TMS rows, flipped back -/
theorem mbtiles_stream_ok {t : List MRow} (cover : Pyramid) (ht : MTable.WF t) : StreamOK (mbtilesSrc t cover) :=
  VtModel.mbtiles_stream_ok cover ht

/-- container leaves are good sources, so they can sit under any pipeline -/
theorem versatiles_good {f : VFile} {cover : Pyramid} (hc : cover.WF) (hf : f.WF) : Good (versatilesSrc f cover) :=
  ⟨hc, versatiles_lookup_ok cover hf, VtModel.versatiles_stream_ok cover hf⟩
theorem mbtiles_good {t : List MRow} {cover : Pyramid} (hc : cover.WF) (ht : MTable.WF t) : Good (mbtilesSrc t cover) :=
  ⟨hc, mbtiles_lookup_ok cover ht, VtModel.mbtiles_stream_ok cover ht⟩

/-! ### F2: the code before commit 9cbf1a6d violated the statement -/

/-- `get_bbox_tile_stream` before the fix: a block coordinate of the 256-scaled box that is not in
    the block index hit `panic!("block <…> does not exist")` (reader.rs:274) -/
def blockChunksPre (f : VFile) (b : BBox) (bc : Coord) : Outcome (List Chunk) :=
  match f.getBlock bc.1 bc.2.1 bc.2.2 with
  | none => .panic
  | some _ => blockChunks f b bc

def vStreamPre (f : VFile) (b : BBox) : Outcome (List (Coord × List Nat)) :=
  match b.scaleDown 256 with
  | .ok sb =>
    if sb.level > 31 ∧ sb.coords3 ≠ [] then .panic
    else
      match BBox.mapM (blockChunksPre f b) sb.coords3 with
      | .ok css =>
        match BBox.mapM (readChunk f b) css.flatten with
        | .ok ls => .ok ls.flatten
        | .err => .err
        | .panic => .panic
      | .err => .err
      | .panic => .panic
  | _ => .panic

/-- **proved counterexample (pre-fix)**: on a container without blocks EVERY non-empty box made
    the stream panic, although all lookups answer "no tile"; with the fix the same request
    delivers the empty stream (instance of `versatiles_stream_ok`). -/
theorem f2_panicked_before_fix (bytes : Nat → Nat) (b : BBox) (hl : b.level ≤ 31) (hne : b.isEmpty = false) :
    vStreamPre ⟨[], bytes⟩ b = .panic ∧ vLookup ⟨[], bytes⟩ (b.xmin, b.ymin, b.level) = .ok none := by
  obtain ⟨h1, h2⟩ := (not_isEmpty_iff b).mp hne
  constructor
  · unfold vStreamPre scaleDown
    simp only [show (256 : Nat) ≠ 0 by decide, if_false]
    have hsne : (⟨b.level, b.xmin / 256, b.ymin / 256, b.xmax / 256, b.ymax / 256⟩ : BBox).isEmpty = false := by
      rw [not_isEmpty_iff]
      exact ⟨Nat.div_le_div_right h1, Nat.div_le_div_right h2⟩
    have hmem : ((b.xmin / 256, b.ymin / 256, b.level) : Coord) ∈
        (⟨b.level, b.xmin / 256, b.ymin / 256, b.xmax / 256, b.ymax / 256⟩ : BBox).coords3 := by
      rw [mem_coords3]
      obtain ⟨e1, e2⟩ := (not_isEmpty_iff _).mp hsne
      exact ⟨rfl, Nat.le_refl _, e1, Nat.le_refl _, e2⟩
    rw [if_neg (by intro h; have := h.1; omega)]
    cases hc : (⟨b.level, b.xmin / 256, b.ymin / 256, b.xmax / 256, b.ymax / 256⟩ : BBox).coords3 with
    | nil => rw [hc] at hmem; cases hmem
    | cons c cs =>
      simp only [BBox.mapM, blockChunksPre, VFile.getBlock, List.find?_nil]
  · unfold vLookup
    rw [if_neg (by simp only; omega)]
    simp only [VFile.getBlock, List.find?_nil]

/-- a concrete instance: the level-3 box of an empty container -/
example : vStreamPre ⟨[], fun i => i⟩ ⟨3, 0, 0, 1, 1⟩ = .panic :=
  (f2_panicked_before_fix _ ⟨3, 0, 0, 1, 1⟩ (by decide) (by decide)).1
example : vStream ⟨[], fun i => i⟩ ⟨3, 0, 0, 1, 1⟩ = .ok [] := by decide

/-! ### non-vacuity -/

/-- a concrete source: one tile at (1,1,1) -/
def demoLookup : Coord → Outcome (Option Nat) := fun c => if c = (1, 1, 1) then .ok (some 7) else .ok none

example : StreamOK (Src.ofLookup demoLookup Pyramid.newEmpty) :=
  default_stream_ok demoLookup _ (fun c _ => by unfold demoLookup; split <;> simp)

example : (Src.ofLookup demoLookup Pyramid.newEmpty).stream ⟨1, 0, 0, 1, 1⟩ = .ok [((1, 1, 1), 7)] := by decide
/-- a lookup that fails at (0,1,1): only that coordinate is dropped, the later tile (1,1,1) is delivered -/
def demoFaulty : Coord → Outcome (Option Nat) := fun c =>
  if c = (0, 1, 1) then .err else if c = (0, 0, 1) then .ok (some 5) else if c = (1, 1, 1) then .ok (some 7) else .ok none
example : (Src.ofLookup demoFaulty Pyramid.newEmpty).stream ⟨1, 0, 0, 1, 1⟩ = .ok [((0, 0, 1), 5), ((1, 1, 1), 7)] := by decide
/-- a box beyond the tiles and the two empty encodings -/
example : (Src.ofLookup demoLookup Pyramid.newEmpty).stream ⟨1, 0, 0, 0, 1⟩ = .ok [] := by decide
example : (Src.ofLookup demoLookup Pyramid.newEmpty).stream ⟨1, 2, 2, 0, 0⟩ = .ok [] := by decide
example : (Src.ofLookup demoLookup Pyramid.newEmpty).stream ⟨1, 1, 1, 0, 0⟩ = .ok [] := by decide
example : (⟨1, 0, 0, 1, 1⟩ : BBox).WF := by unfold BBox.WF; decide
example : (⟨1, 2, 2, 0, 0⟩ : BBox).WF := by unfold BBox.WF; decide

end VtProps.C02
