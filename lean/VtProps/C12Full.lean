import VtProps.C12
import VtProps.C01
/-!
# C12 at full strength — composition with the container models (C01 / C16)

`VtProps.C12` shows: every crash state fails the (header-level) open or carries the completed
file's bytes.  Here the statement of the property itself is proved against the container models
of `VtModel.Versatiles` / `VtModel.PMTiles` (the models tied to the code by the C16/C01
correspondence): for every source accepted by the writer model and EVERY crash state `s` of the
writer's operation sequence,

    the reader does not open `s`   ∨   it opens `s` and every lookup returns the source's tile.
-/
namespace VtProps.C12
open VtModel VtModel.Fmt VtModel.Crash

/-- the decompressor of the container models as a `Dec` of the crash model -/
def decOf (K : Inflate) : Dec := fun c b =>
  match c with
  | .none => some b
  | .gzip => K.gzip b
  | .brotli => K.brotli b

/-! ## versatiles -/

theorem index_tail_ok {K : Inflate} {file : Bytes} {rg : Range} {α : Type} {f : List Versatiles.BlockDef → α} {r : α}
    (h : (do
      let bi ← readRange file rg
      let raw ← K.run TComp.brotli bi
      let blocks ← Versatiles.decBlockIndex raw
      pure (f blocks) : Outcome α) = Outcome.ok r) :
    ∃ bi raw, readRange file rg = .ok bi ∧ K.brotli bi = some raw := by
  cases hb : readRange file rg with
  | err => simp [hb] at h
  | panic => simp [hb] at h
  | ok bi =>
    simp only [hb, ok_bind] at h
    cases hk : K.brotli bi with
    | none => simp [Inflate.run, hk] at h
    | some raw => exact ⟨bi, raw, rfl, hk⟩

/-- a successful `open_reader` has read a header and inflated the block index it points to -/
theorem openReader_ok_index {K : Inflate} {file : Bytes} {r : Versatiles.Reader}
    (h : Versatiles.openReader K file = .ok r) :
    ∃ hd bi raw, Versatiles.readHeader file = .ok hd ∧ readRange file hd.blocks = .ok bi ∧ K.brotli bi = some raw := by
  unfold Versatiles.openReader at h
  cases hh : Versatiles.readHeader file with
  | err => simp [hh] at h
  | panic => simp [hh] at h
  | ok hd =>
    simp only [hh, ok_bind] at h
    split at h
    · cases hm : readRange file hd.metaR with
      | err => simp [hm] at h
      | panic => simp [hm] at h
      | ok m =>
        simp only [hm, ok_bind] at h
        cases hk : K.run hd.comp m with
        | err => simp [hk] at h
        | panic => simp [hk] at h
        | ok x =>
          simp only [hk, ok_bind] at h
          obtain ⟨bi, raw, h1, h2⟩ := index_tail_ok h
          exact ⟨hd, bi, raw, rfl, h1, h2⟩
    · obtain ⟨bi, raw, h1, h2⟩ := index_tail_ok h
      exact ⟨hd, bi, raw, rfl, h1, h2⟩

/-- the block-index range of a decoded header is bytes 50..66, big endian -/
theorem readHeader_blocks {file : Bytes} {hd : Versatiles.Header} (h : Versatiles.readHeader file = .ok hd) :
    66 ≤ file.length ∧
    hd.blocks.off = beDec (((file.take 66).drop 50).take 8) ∧
    hd.blocks.len = beDec (((file.take 66).drop 58).take 8) := by
  unfold Versatiles.readHeader readRange at h
  split at h
  · simp at h
  · split at h
    · simp at h
    · rename_i h1 h2
      simp only [ok_bind, List.drop_zero] at h
      have hl : 66 ≤ file.length := by simp at h2; omega
      refine ⟨hl, ?_⟩
      generalize hbs : file.take 66 = bs at h
      have hbl : bs.length = 66 := by rw [← hbs]; simp; omega
      simp [Versatiles.decHeader, ensure, Fmt.takeN, readBE, readI32BE, hbl, List.length_drop, List.drop_eq_nil_iff] at h
      split at h
      · simp only [ok_bind] at h
        split at h
        · split at h
          · cases h; exact ⟨rfl, rfl⟩
          · cases h
        · cases h
      · simp at h

/-- if the block-index step fails, the container model's reader does not open the file -/
theorem not_open_of_indexFails {K : Inflate} {s : Bytes} (h : IndexFails (decOf K) s) :
    ∀ r, Versatiles.openReader K s ≠ .ok r := by
  intro r hr
  obtain ⟨hd, bi, raw, h1, h2, h3⟩ := openReader_ok_index hr
  obtain ⟨hl, ho, hn⟩ := readHeader_blocks h1
  have hs : Crash.slice s 0 66 = some (s.take 66) := by simp [Crash.slice, hl]
  have := h (s.take 66) hs
  rw [← ho, ← hn] at this
  unfold readRange at h2
  split at h2
  · cases h2
  · split at h2
    · cases h2
    · rename_i _ hle
      have hle' : hd.blocks.off + hd.blocks.len ≤ s.length := by omega
      simp only [Outcome.ok.injEq] at h2
      simp [indexStepV, Crash.slice, hle', decOf, h2, h3] at this

/-- the 34 header bytes in front of the two ranges -/
def preOf (h : Versatiles.Header) : Bytes :=
  Versatiles.magic ++ (beEnc 1 (Versatiles.fmtCode h.fmt) ++ (beEnc 1 (Versatiles.compCode h.comp) ++
    (beEnc 1 h.zmin ++ (beEnc 1 h.zmax ++ (beEnc 4 (i32ToNat h.b0) ++ (beEnc 4 (i32ToNat h.b1) ++
    (beEnc 4 (i32ToNat h.b2) ++ beEnc 4 (i32ToNat h.b3))))))))

theorem preOf_length (h : Versatiles.Header) : (preOf h).length = 34 := by
  simp [preOf, Versatiles.magic]

theorem encHeader_eq (h : Versatiles.Header) :
    Versatiles.encHeader h = headerV (preOf h) h.metaR.off h.metaR.len h.blocks.off h.blocks.len := by
  simp [Versatiles.encHeader, headerV, preOf, List.append_assoc]

/-- shape of the file the writer model produces -/
theorem write_shape {enc : Bytes → Bytes} {s : Versatiles.Source} {file : Bytes} {defs : List Versatiles.BlockDef}
    (hw : Versatiles.write enc s = .ok (file, defs)) :
    ∃ (h : Versatiles.Header) (body bi : Bytes),
      h.metaR = ⟨66, s.metaB.length⟩ ∧ h.blocks = ⟨66 + s.metaB.length + body.length, (enc bi).length⟩ ∧
      file = Versatiles.encHeader h ++ (s.metaB ++ (body ++ enc bi)) := by
  unfold Versatiles.write at hw
  split at hw
  · split at hw
    · cases hw
    · split at hw
      · split at hw
        · simp only [Outcome.ok.injEq, Prod.mk.injEq] at hw
          exact ⟨_, _, _, rfl, rfl, hw.1.symm⟩
        · cases hw
        · cases hw
      · cases hw
      · cases hw
  · cases hw

open VtProofs.VersatilesWrite in
/-- **C12 (versatiles), full statement.**  For every source the writer model accepts (hypotheses of
    `VtProps.C01.versatiles_roundtrip`), a brotli that rejects strict prefixes of its own streams, and
    ANY split `mid` of the written body into appended blobs (the real writer appends every tile blob
    and every tile index separately): the operation sequence `opsV` produces the writer model's file,
    and in EVERY crash state (operation prefix + byte cut) the reader model either does not open the
    file, or opens it and returns for every coordinate exactly the source's tile. -/
theorem versatiles_interrupted_write_safe (K : Inflate) (enc : Bytes → Bytes) (s : Versatiles.Source)
    (tiles : Nat × Nat × Nat → Option Bytes) (gs : GoodSource s tiles)
    (hK : ∀ b, K.brotli (enc b) = some b) (hnil : K.brotli [] = none)
    (hprefix : ∀ b p, p <+: enc b → p ≠ enc b → K.brotli p = none)
    (hmeta : s.metaB.length > 0 → ∃ raw, K.run s.comp s.metaB = .ok raw)
    (file : Bytes) (defs : List Versatiles.BlockDef) (hw : Versatiles.write enc s = .ok (file, defs))
    (hsize : file.length < U64) (hidx32 : ∀ d ∈ defs, d.index.len < 2 ^ 32) :
    ∃ (pre body idxC : Bytes), pre.length = 34 ∧ ∀ mid : List Bytes, mid.flatten = body →
      (run (opsV pre s.metaB mid idxC)).file = file ∧
      ∀ i k,
        (∀ r, Versatiles.openReader K (crash (opsV pre s.metaB mid idxC) i k) ≠ .ok r) ∨
        (∃ r, Versatiles.openReader K (crash (opsV pre s.metaB mid idxC) i k) = .ok r ∧
          ∀ x y z, z ≤ 31 → Versatiles.getTile r x y z = .ok (nonEmpty (tiles (x, y, z)))) := by
  obtain ⟨h, body, bi, hm, hb, hfile⟩ := write_shape hw
  refine ⟨preOf h, body, enc bi, preOf_length h, fun mid hmid => ?_⟩
  have hlenfile : file.length = 66 + s.metaB.length + body.length + (enc bi).length := by
    rw [hfile]; simp [VtProofs.Versatiles.length_encHeader]; omega
  have hU : U64 = 256 ^ 8 := by decide
  have hoff : 66 + s.metaB.length + mid.flatten.length < 256 ^ 8 := by rw [hmid, ← hU]; omega
  have hl : (enc bi).length < 256 ^ 8 := by rw [← hU]; omega
  -- the completed file of the operation sequence is the writer model's file
  have hrun : (run (opsV (preOf h) s.metaB mid (enc bi))).file = file := by
    rw [run_opsV _ _ _ _ (preOf_length h), hfile, encHeader_eq, hm, hb, hmid]
    simp [List.append_assoc]
  refine ⟨hrun, fun i k => ?_⟩
  rcases versatiles_crash_index (decOf K) (preOf h) s.metaB mid (enc bi) (preOf_length h) hoff hl
      hnil (hprefix bi) i k with hf | hf
  · exact Or.inl (not_open_of_indexFails hf)
  · right
    rw [hf, hrun]
    obtain ⟨r, hr, _, _, hall⟩ := VtProps.C01.versatiles_roundtrip K enc s tiles gs hK hnil hmeta file defs hw hsize hidx32
    exact ⟨r, hr, hall⟩

end VtProps.C12
