import VtProps.C12
import VtProps.C01
/-!
# C12 at full strength — composition with the container models (C01 / C16)

`VtProps.C12` shows: every crash state fails the (header-level) open or carries the completed
file's bytes.  Here the statement of the property itself is proved against the container models
of `VtModel.Versatiles` / `VtModel.PMTiles` (the models tied to the code by the C16/C01
correspondence): for every source accepted by the writer model and EVERY crash state `s` of the
writer's operation sequence,

    the reader does not open `s`   ∨   it opens `s` and every lookup returns the source's tile.
-/
namespace VtProps.C12
open VtModel VtModel.Fmt VtModel.Crash

/-- the decompressor of the container models as a `Dec` of the crash model -/
def decOf (K : Inflate) : Dec := fun c b =>
  match c with
  | .none => some b
  | .gzip => K.gzip b
  | .brotli => K.brotli b

/-! ## versatiles -/

theorem index_tail_ok {K : Inflate} {file : Bytes} {rg : Range} {α : Type} {f : List Versatiles.BlockDef → α} {r : α}
    (h : (do
      let bi ← readRange file rg
      let raw ← K.run TComp.brotli bi
      let blocks ← Versatiles.decBlockIndex raw
      pure (f blocks) : Outcome α) = Outcome.ok r) :
    ∃ bi raw, readRange file rg = .ok bi ∧ K.brotli bi = some raw := by
  cases hb : readRange file rg with
  | err => simp [hb] at h
  | panic => simp [hb] at h
  | ok bi =>
    simp only [hb, ok_bind] at h
    cases hk : K.brotli bi with
    | none => simp [Inflate.run, hk] at h
    | some raw => exact ⟨bi, raw, rfl, hk⟩

/-- a successful `open_reader` has read a header and inflated the block index it points to -/
theorem openReader_ok_index {K : Inflate} {file : Bytes} {r : Versatiles.Reader}
    (h : Versatiles.openReader K file = .ok r) :
    ∃ hd bi raw, Versatiles.readHeader file = .ok hd ∧ readRange file hd.blocks = .ok bi ∧ K.brotli bi = some raw := by
  unfold Versatiles.openReader at h
  cases hh : Versatiles.readHeader file with
  | err => simp [hh] at h
  | panic => simp [hh] at h
  | ok hd =>
    simp only [hh, ok_bind] at h
    split at h
    · cases hm : readRange file hd.metaR with
      | err => simp [hm] at h
      | panic => simp [hm] at h
      | ok m =>
        simp only [hm, ok_bind] at h
        cases hk : K.run hd.comp m with
        | err => simp [hk] at h
        | panic => simp [hk] at h
        | ok x =>
          simp only [hk, ok_bind] at h
          obtain ⟨bi, raw, h1, h2⟩ := index_tail_ok h
          exact ⟨hd, bi, raw, rfl, h1, h2⟩
    · obtain ⟨bi, raw, h1, h2⟩ := index_tail_ok h
      exact ⟨hd, bi, raw, rfl, h1, h2⟩

/-- the block-index range of a decoded header is bytes 50..66, big endian -/
theorem readHeader_blocks {file : Bytes} {hd : Versatiles.Header} (h : Versatiles.readHeader file = .ok hd) :
    66 ≤ file.length ∧
    hd.blocks.off = beDec (((file.take 66).drop 50).take 8) ∧
    hd.blocks.len = beDec (((file.take 66).drop 58).take 8) := by
  unfold Versatiles.readHeader readRange at h
  split at h
  · simp at h
  · split at h
    · simp at h
    · rename_i h1 h2
      simp only [ok_bind, List.drop_zero] at h
      have hl : 66 ≤ file.length := by simp at h2; omega
      refine ⟨hl, ?_⟩
      generalize hbs : file.take 66 = bs at h
      have hbl : bs.length = 66 := by rw [← hbs]; simp; omega
      simp [Versatiles.decHeader, ensure, Fmt.takeN, readBE, readI32BE, hbl, List.length_drop, List.drop_eq_nil_iff] at h
      split at h
      · simp only [ok_bind] at h
        split at h
        · split at h
          · cases h; exact ⟨rfl, rfl⟩
          · cases h
        · cases h
      · simp at h

/-- if the block-index step fails, the container model's reader does not open the file -/
theorem not_open_of_indexFails {K : Inflate} {s : Bytes} (h : IndexFails (decOf K) s) :
    ∀ r, Versatiles.openReader K s ≠ .ok r := by
  intro r hr
  obtain ⟨hd, bi, raw, h1, h2, h3⟩ := openReader_ok_index hr
  obtain ⟨hl, ho, hn⟩ := readHeader_blocks h1
  have hs : Crash.slice s 0 66 = some (s.take 66) := by simp [Crash.slice, hl]
  have := h (s.take 66) hs
  rw [← ho, ← hn] at this
  unfold readRange at h2
  split at h2
  · cases h2
  · split at h2
    · cases h2
    · rename_i _ hle
      have hle' : hd.blocks.off + hd.blocks.len ≤ s.length := by omega
      simp only [Outcome.ok.injEq] at h2
      simp [indexStepV, Crash.slice, hle', decOf, h2, h3] at this

/-- the 34 header bytes in front of the two ranges -/
def preOf (h : Versatiles.Header) : Bytes :=
  Versatiles.magic ++ (beEnc 1 (Versatiles.fmtCode h.fmt) ++ (beEnc 1 (Versatiles.compCode h.comp) ++
    (beEnc 1 h.zmin ++ (beEnc 1 h.zmax ++ (beEnc 4 (i32ToNat h.b0) ++ (beEnc 4 (i32ToNat h.b1) ++
    (beEnc 4 (i32ToNat h.b2) ++ beEnc 4 (i32ToNat h.b3))))))))

theorem preOf_length (h : Versatiles.Header) : (preOf h).length = 34 := by
  simp [preOf, Versatiles.magic]

theorem encHeader_eq (h : Versatiles.Header) :
    Versatiles.encHeader h = headerV (preOf h) h.metaR.off h.metaR.len h.blocks.off h.blocks.len := by
  simp [Versatiles.encHeader, headerV, preOf, List.append_assoc]

/-- shape of the file the writer model produces -/
theorem write_shape {enc : Bytes → Bytes} {s : Versatiles.Source} {file : Bytes} {defs : List Versatiles.BlockDef}
    (hw : Versatiles.write enc s = .ok (file, defs)) :
    ∃ (h : Versatiles.Header) (body bi : Bytes),
      h.metaR = ⟨66, s.metaB.length⟩ ∧ h.blocks = ⟨66 + s.metaB.length + body.length, (enc bi).length⟩ ∧
      file = Versatiles.encHeader h ++ (s.metaB ++ (body ++ enc bi)) := by
  unfold Versatiles.write at hw
  split at hw
  · split at hw
    · cases hw
    · split at hw
      · split at hw
        · simp only [Outcome.ok.injEq, Prod.mk.injEq] at hw
          exact ⟨_, _, _, rfl, rfl, hw.1.symm⟩
        · cases hw
        · cases hw
      · cases hw
      · cases hw
  · cases hw

open VtProofs.VersatilesWrite in
/-- **C12 (versatiles), full statement.**  For every source the writer model accepts (hypotheses of
    `VtProps.C01.versatiles_roundtrip`), a brotli that rejects strict prefixes of its own streams, and
    ANY split `mid` of the written body into appended blobs (the real writer appends every tile blob
    and every tile index separately): the operation sequence `opsV` produces the writer model's file,
    and in EVERY crash state (operation prefix + byte cut) the reader model either does not open the
    file, or opens it and returns for every coordinate exactly the source's tile. -/
theorem versatiles_interrupted_write_safe (K : Inflate) (enc : Bytes → Bytes) (s : Versatiles.Source)
    (tiles : Nat × Nat × Nat → Option Bytes) (gs : GoodSource s tiles)
    (hK : ∀ b, K.brotli (enc b) = some b) (hnil : K.brotli [] = none)
    (hprefix : ∀ b p, p <+: enc b → p ≠ enc b → K.brotli p = none)
    (hmeta : s.metaB.length > 0 → ∃ raw, K.run s.comp s.metaB = .ok raw)
    (file : Bytes) (defs : List Versatiles.BlockDef) (hw : Versatiles.write enc s = .ok (file, defs))
    (hsize : file.length < U64) (hidx32 : ∀ d ∈ defs, d.index.len < 2 ^ 32) :
    ∃ (pre body idxC : Bytes), pre.length = 34 ∧ ∀ mid : List Bytes, mid.flatten = body →
      (run (opsV pre s.metaB mid idxC)).file = file ∧
      ∀ i k,
        (∀ r, Versatiles.openReader K (crash (opsV pre s.metaB mid idxC) i k) ≠ .ok r) ∨
        (∃ r, Versatiles.openReader K (crash (opsV pre s.metaB mid idxC) i k) = .ok r ∧
          ∀ x y z, z ≤ 31 → Versatiles.getTile r x y z = .ok (nonEmpty (tiles (x, y, z)))) := by
  obtain ⟨h, body, bi, hm, hb, hfile⟩ := write_shape hw
  refine ⟨preOf h, body, enc bi, preOf_length h, fun mid hmid => ?_⟩
  have hlenfile : file.length = 66 + s.metaB.length + body.length + (enc bi).length := by
    rw [hfile]; simp [VtProofs.Versatiles.length_encHeader]; omega
  have hU : U64 = 256 ^ 8 := by decide
  have hoff : 66 + s.metaB.length + mid.flatten.length < 256 ^ 8 := by rw [hmid, ← hU]; omega
  have hl : (enc bi).length < 256 ^ 8 := by rw [← hU]; omega
  -- the completed file of the operation sequence is the writer model's file
  have hrun : (run (opsV (preOf h) s.metaB mid (enc bi))).file = file := by
    rw [run_opsV _ _ _ _ (preOf_length h), hfile, encHeader_eq, hm, hb, hmid]
    simp [List.append_assoc]
  refine ⟨hrun, fun i k => ?_⟩
  rcases versatiles_crash_index (decOf K) (preOf h) s.metaB mid (enc bi) (preOf_length h) hoff hl
      hnil (hprefix bi) i k with hf | hf
  · exact Or.inl (not_open_of_indexFails hf)
  · right
    rw [hf, hrun]
    obtain ⟨r, hr, _, _, hall⟩ := VtProps.C01.versatiles_roundtrip K enc s tiles gs hK hnil hmeta file defs hw hsize hidx32
    exact ⟨r, hr, hall⟩

/-! ## pmtiles -/

/-- a successful `open_reader` has decoded a 127-byte header whose tile compression is known -/
theorem pm_openReader_ok {K : Inflate} {file : Bytes} {r : PMTiles.Reader}
    (h : PMTiles.openReader K file = .ok r) :
    ∃ hb hd c, readRange file ⟨0, 127⟩ = .ok hb ∧ PMTiles.decHeader hb = .ok hd ∧ PMTiles.compOfCode hd.tcomp = .ok c := by
  unfold PMTiles.openReader at h
  cases h1 : readRange file ⟨0, 127⟩ with
  | err => simp [h1] at h
  | panic => simp [h1] at h
  | ok hb =>
    simp only [h1, ok_bind] at h
    cases h2 : PMTiles.decHeader hb with
    | err => simp [h2] at h
    | panic => simp [h2] at h
    | ok hd =>
      simp only [h2, ok_bind] at h
      cases h3 : PMTiles.compOfCode hd.icomp with
      | err => simp [h3] at h
      | panic => simp [h3] at h
      | ok ic =>
        simp only [h3, ok_bind] at h
        cases h4 : readRange file hd.metaR with
        | err => simp [h4] at h
        | panic => simp [h4] at h
        | ok m =>
          simp only [h4, ok_bind] at h
          cases h5 : K.run ic m with
          | err => simp [h5] at h
          | panic => simp [h5] at h
          | ok x5 =>
            simp only [h5, ok_bind] at h
            cases h6 : readRange file hd.root with
            | err => simp [h6] at h
            | panic => simp [h6] at h
            | ok rc =>
              simp only [h6, ok_bind] at h
              cases h7 : K.run ic rc with
              | err => simp [h7] at h
              | panic => simp [h7] at h
              | ok root =>
                simp only [h7, ok_bind] at h
                cases h8 : readRange file hd.leaf with
                | err => simp [h8] at h
                | panic => simp [h8] at h
                | ok leaves =>
                  simp only [h8, ok_bind] at h
                  cases h9 : PMTiles.coverDir K ic leaves 3 PMTiles.Cover.empty root with
                  | err => simp [h9] at h
                  | panic => simp [h9] at h
                  | ok cov =>
                    simp only [h9, ok_bind] at h
                    cases h10 : PMTiles.compOfCode hd.tcomp with
                    | err => simp [h10] at h
                    | panic => simp [h10] at h
                    | ok c => exact ⟨hb, hd, c, rfl, h2, h10⟩

/-- the tile compression of a decoded header is byte 98 -/
theorem pm_decHeader_tcomp {bs : Bytes} {hd : PMTiles.Header} (h : PMTiles.decHeader bs = .ok hd) :
    bs.length = 127 ∧ hd.tcomp = leDec ((bs.drop 98).take 1) := by
  have hbl : bs.length = 127 := by
    unfold PMTiles.decHeader at h
    by_cases hl : bs.length = 127
    · exact hl
    · simp [ensure, hl] at h
  refine ⟨hbl, ?_⟩
  simp [PMTiles.decHeader, ensure, Fmt.takeN, readLE, readI32LE, hbl, List.length_drop, List.drop_eq_nil_iff] at h
  split at h
  · split at h
    · split at h
      · split at h
        · split at h
          · cases h; rfl
          · simp at h
        · simp at h
      · simp at h
    · simp at h
  · simp at h

/-- the container model's reader does not open a file whose byte 98 (tile compression) is zero or absent -/
theorem pm_not_open_of_byte98 {K : Inflate} {s : Bytes} (h : s[98]?.getD 0 = 0) :
    ∀ r, PMTiles.openReader K s ≠ .ok r := by
  intro r hr
  obtain ⟨hb, hd, c, h1, h2, h3⟩ := pm_openReader_ok hr
  obtain ⟨hbl, htc⟩ := pm_decHeader_tcomp h2
  have hhb : hb = s.take 127 := by
    unfold readRange at h1
    split at h1
    · cases h1
    · split at h1
      · cases h1
      · simpa using (Outcome.ok.inj h1).symm
  have hlen : 127 ≤ s.length := by
    rw [hhb] at hbl; simp at hbl; omega
  have hb98 : (hb.drop 98).take 1 = [0] := by
    rw [hhb]
    have h98 : s[98]? = some 0 := by
      have hlt : 98 < s.length := by omega
      rw [List.getElem?_eq_getElem hlt] at h ⊢
      simpa using h
    rw [List.drop_take]
    have : (s.drop 98) = s[98]'(by omega) :: s.drop 99 := by
      rw [List.drop_eq_getElem_cons (by omega)]
    rw [this]
    have hv : s[98]'(by omega) = 0 := by
      rw [List.getElem?_eq_getElem (by omega)] at h98; exact Option.some.inj h98
    simp [hv]
  rw [htc, hb98] at h3
  simp [leDec, PMTiles.compOfCode] at h3

/-- **C12 (pmtiles) against the container model's reader – partial**: every crash state of the
    writer's operation sequence is not opened by `PMTiles.openReader`, or agrees with the completed
    file on header bytes 0..99 and on everything behind the header.  (Missing for the full statement:
    transfer of `ValidPMTiles` along that agreement – `WFDir` depends on the file only through its
    length and `Addr` not at all, tile payloads lie behind offset 16384 – and the identification of
    the operation sequence's completed file with `PMTiles.write`.) -/
theorem pmtiles_interrupted_write_partial (K : Inflate) (metaC : Bytes) (tiles : List Bytes)
    (rootC leavesC hdr : Bytes) (hlen : hdr.length = 127) (i k : Nat) :
    let ops := opsP metaC tiles rootC leavesC hdr
    (∀ r, PMTiles.openReader K (crash ops i k) ≠ .ok r) ∨ coreP (crash ops i k) = coreP (run ops).file := by
  intro ops
  have := pmtiles_crash_core 16384 (by omega)
    ([Op.append metaC] ++ tiles.map Op.append ++
      [.setPosition 127, .append rootC, .setPosition (16384 + metaC.length + tiles.flatten.length),
       .append leavesC]) ?_ hdr hlen i k
  · simp only [← opsP_shape] at this
    rcases this with h | h
    · exact Or.inl (pm_not_open_of_byte98 h)
    · exact Or.inr h
  · intro op hop
    simp only [List.mem_append, List.mem_cons, List.mem_map, List.mem_nil_iff, or_false] at hop
    rcases hop with (rfl | ⟨b, _, rfl⟩) | rfl | rfl | rfl | rfl <;> simp [SafeOp]
    omega

end VtProps.C12

