import VtProofs.Http
/-!
# C05 — the HTTP tile endpoint serves exactly the stored tile under content negotiation

Statement (properties.jsonl): for every tile source and every request
`GET /tiles/<id>/<z>/<x>/<y>[.ext]` with any Accept-Encoding header, the status is 200 exactly when
the source holds a tile at (z,x,y); the body, decoded according to the response's Content-Encoding,
equals the stored tile decoded from the source's compression; Content-Type is the format's media
type; Content-Encoding is absent or an encoding the client listed.  Any other coordinate gives 404
(400 if it cannot be parsed) as a complete response, never a dropped connection.

Theorems about `VtModel.Http` / `VtModel.Codec` for an arbitrary `Codec`, every source, every
request path and header value, both server modes.  The HTTP stack itself (hyper/axum) is not
modelled; it is exercised by the raw-socket correspondence in `harness/src/c05.rs`.
-/
namespace VtProps.C05
open VtModel.Codec VtModel.Http

/-! ### `optimize_compression`: the whole decision table -/

/-- **optimize_sound**: whatever `optimize_compression` returns is an allowed compression and
    carries the same payload — for all 3 inputs × 8 allowed sets × 3 goals and every blob. -/
theorem optimize_sound (K : Codec) (b : Bytes) (c : Comp) (t : Target) (b' : Bytes) (c' : Comp)
    (h : optimize K b c t = .ok (b', c')) : t.has c' = true ∧ K.dec c' b' = K.dec c b := by
  unfold optimize at h
  split at h
  · cases h
  split at h
  · cases h
  rename_i hraw
  have hraw' : t.has .raw = true := by simpa using hraw
  split at h
  · rename_i hk
    simp only [Res.ok.injEq, Prod.mk.injEq] at h
    obtain ⟨rfl, rfl⟩ := h
    simp_all
  cases c <;> simp only at h <;> (repeat' split at h) <;>
    simp only [Res.ok.injEq, Prod.mk.injEq, reduceCtorEq] at h <;>
    (try obtain ⟨rfl, rfl⟩ := h) <;> simp_all [K.dec_enc, K.dec_raw]

theorem optimize_no_panic (K : Codec) (b : Bytes) (c : Comp) (t : Target) (s : String) :
    optimize K b c t ≠ .panic s := by
  unfold optimize
  cases c <;> (repeat' split) <;> simp

/-- with `Uncompressed` allowed (the server always allows it) a valid blob is never refused -/
theorem optimize_ok_of_valid (K : Codec) (b : Bytes) (c : Comp) (t : Target) (p : Bytes)
    (hraw : t.raw = true) (hv : K.dec c b = some p) : ∃ r, optimize K b c t = .ok r := by
  unfold optimize
  have h1 : t.isEmpty = false := by simp [Target.isEmpty, hraw]
  have h2 : t.has .raw = true := hraw
  simp only [h1, h2]
  cases c <;> simp only at hv ⊢ <;> (repeat' split) <;> simp_all

/-- fast mode / incompressible data: an already acceptable representation is passed through untouched -/
theorem optimize_keeps (K : Codec) (b : Bytes) (c : Comp) (t : Target)
    (hraw : t.raw = true) (hg : t.goal ≠ .best) (hc : t.has c = true) :
    optimize K b c t = .ok (b, c) := by
  unfold optimize
  have h1 : t.isEmpty = false := by simp [Target.isEmpty, hraw]
  have h2 : t.has .raw = true := hraw
  simp [h1, h2, hg, hc]

/-- incompressible data (images) is never compressed by the server: the result is the stored
    representation or the decoded payload -/
theorem optimize_incompressible (K : Codec) (b : Bytes) (c : Comp) (t : Target) (b' : Bytes) (c' : Comp)
    (hg : t.goal = .incompressible) (h : optimize K b c t = .ok (b', c')) :
    (b' = b ∧ c' = c) ∨ c' = .raw := by
  unfold optimize at h
  cases c <;> simp only [hg] at h <;> (repeat' split at h) <;>
    simp only [Res.ok.injEq, Prod.mk.injEq, reduceCtorEq] at h <;>
    (try obtain ⟨rfl, rfl⟩ := h) <;> simp_all

/-- best mode: brotli whenever the client accepts it (and the data is compressible) -/
theorem optimize_best_brotli (K : Codec) (b : Bytes) (c : Comp) (t : Target) (p : Bytes)
    (hraw : t.raw = true) (hb : t.brotli = true) (hg : t.goal = .best) (hv : K.dec c b = some p) :
    ∃ b', optimize K b c t = .ok (b', .brotli) := by
  unfold optimize
  have h1 : t.isEmpty = false := by simp [Target.isEmpty, hraw]
  have h2 : t.has .raw = true := hraw
  have h3 : t.has .brotli = true := hb
  cases c <;> simp_all

/-! ### the endpoint -/

/-- every stored tile is a valid stream of the source's declared compression -/
def StoredValid (K : Codec) (src : Source) : Prop :=
  ∀ z x y b, src.lookup z x y = some b → ∃ p, K.dec src.comp b = some p

theorem getData_no_panic (src : Source) (rest s : String) : getData src rest ≠ .panic s := by
  unfold getData
  cases classify rest with
  | tile z x y =>
    simp only
    cases addressed src.flipY src.swapXY z x y with
    | none => simp
    | some c =>
      simp only
      cases src.lookup c.1 c.2.1 c.2.2 <;> simp
  | bad => simp
  | json => simp
  | other => simp

/-- what `get_data` finds, spelled out: a tile request that parses, lies inside its level and is
    held by the source (after `--swap-xy` / `--flip-y`), or one of the two metadata names -/
theorem getData_some_iff (src : Source) (rest : String) (r : SrcResp) :
    getData src rest = .ok (some r) ↔
      (classify rest = .json ∧ r = { blob := src.tilejson, comp := .raw, mime := "application/json" }) ∨
      (∃ z x y c b, classify rest = .tile z x y ∧ addressed src.flipY src.swapXY z x y = some c ∧
          src.lookup c.1 c.2.1 c.2.2 = some b ∧ r = { blob := b, comp := src.comp, mime := src.mime }) := by
  unfold getData
  cases hc : classify rest with
  | tile z x y =>
    simp only [reduceCtorEq, false_and, false_or, PathKind.tile.injEq]
    cases ha : addressed src.flipY src.swapXY z x y with
    | none =>
      simp only [reduceCtorEq, Res.ok.injEq, false_iff, not_exists, not_and]
      intro z1 x1 y1 c b h; obtain ⟨rfl, rfl, rfl⟩ := h
      rw [ha]; simp
    | some c =>
      simp only
      cases hl : src.lookup c.1 c.2.1 c.2.2 with
      | none =>
        simp only [Res.ok.injEq, reduceCtorEq, false_iff, not_exists, not_and]
        intro z1 x1 y1 c1 b h; obtain ⟨rfl, rfl, rfl⟩ := h
        rw [ha]
        intro h2
        cases h2
        rw [hl]; simp
      | some b =>
        simp only [Res.ok.injEq, Option.some.injEq]
        constructor
        · intro h; exact ⟨z, x, y, c, b, ⟨rfl, rfl, rfl⟩, ha, hl, h.symm⟩
        · rintro ⟨z1, x1, y1, c1, b1, ⟨rfl, rfl, rfl⟩, h2, h3, rfl⟩
          rw [ha] at h2
          cases h2
          rw [hl] at h3
          cases h3; rfl
  | bad => simp
  | json =>
    simp only [Res.ok.injEq, Option.some.injEq, true_and, reduceCtorEq, false_and, exists_false,
      or_false]
    exact eq_comm
  | other => simp

/-- the blob handed to `ok_data` is decodable -/
theorem getData_valid (K : Codec) (src : Source) (hv : StoredValid K src) (rest : String) (r : SrcResp)
    (h : getData src rest = .ok (some r)) : ∃ p, K.dec r.comp r.blob = some p := by
  rcases (getData_some_iff src rest r).mp h with ⟨_, rfl⟩ | ⟨z, x, y, c, b, _, _, hl, rfl⟩
  · exact ⟨_, K.dec_raw _⟩
  · exact hv _ _ _ b hl

/-- **no dropped connection**: with valid stored tiles the handler always produces a response -/
theorem serve_no_panic (K : Codec) (src : Source) (hv : StoredValid K src) (req : Request) :
    (serveTile K src req).status ≠ none := by
  unfold serveTile
  split
  · simp [Resp.status]
  · cases hg : getData src req.rest with
    | ok o =>
      cases o with
      | none => simp [Resp.status]
      | some r =>
        obtain ⟨p, hp⟩ := getData_valid K src hv _ r hg
        obtain ⟨res, hres⟩ := optimize_ok_of_valid K r.blob r.comp
          (targetFor req.accept req.fast r.mime) p (targetFor_raw _ _ _) hp
        obtain ⟨b', c'⟩ := res
        simp [okData, hres, Resp.status]
    | err => simp [Resp.status]
    | panic s => exact absurd hg (getData_no_panic src _ s)

/-- **status 200 ⇔ the request addresses something the source holds** -/
theorem status_200_iff (K : Codec) (src : Source) (hv : StoredValid K src) (req : Request) :
    (serveTile K src req).status = some 200 ↔
      req.rest ≠ "" ∧ ∃ r, getData src req.rest = .ok (some r) := by
  unfold serveTile
  by_cases he : req.rest = ""
  · simp [he, Resp.status]
  · have he' : (req.rest == "") = false := by simpa using he
    simp only [he', Bool.false_eq_true, if_false, ne_eq, he, not_false_eq_true, true_and]
    cases hg : getData src req.rest with
    | ok o =>
      cases o with
      | none => simp [Resp.status]
      | some r =>
        obtain ⟨p, hp⟩ := getData_valid K src hv _ r hg
        obtain ⟨res, hres⟩ := optimize_ok_of_valid K r.blob r.comp
          (targetFor req.accept req.fast r.mime) p (targetFor_raw _ _ _) hp
        obtain ⟨b', c'⟩ := res
        simp [okData, hres, Resp.status]
    | err => simp [Resp.status]
    | panic s => exact absurd hg (getData_no_panic src _ s)

/-- **400 ⇔ three or more parts that do not parse as a coordinate** (z > 31 included) -/
theorem status_400_iff (K : Codec) (src : Source) (req : Request) :
    (serveTile K src req).status = some 400 ↔ req.rest ≠ "" ∧ classify req.rest = .bad := by
  unfold serveTile
  by_cases he : req.rest = ""
  · simp [he, Resp.status]
  · have he' : (req.rest == "") = false := by simpa using he
    simp only [he', Bool.false_eq_true, if_false, ne_eq, he, not_false_eq_true, true_and]
    unfold getData
    cases hc : classify req.rest with
    | tile z x y =>
      simp only
      cases addressed src.flipY src.swapXY z x y with
      | none => simp [Resp.status]
      | some c =>
        simp only
        cases src.lookup c.1 c.2.1 c.2.2 with
        | none => simp [Resp.status]
        | some b =>
          simp only [okData]
          split <;> simp [Resp.status]
    | bad => simp [Resp.status]
    | json => simp only [okData]; split <;> simp [Resp.status]
    | other => simp [Resp.status]

/-- the handler ALWAYS answers (no panic outcome), whatever the source holds -/
theorem serve_total (K : Codec) (src : Source) (req : Request) :
    (serveTile K src req).status ≠ none := by
  unfold serveTile
  split
  · simp [Resp.status]
  · cases hg : getData src req.rest with
    | ok o =>
      cases o with
      | none => simp [Resp.status]
      | some r =>
        simp only [okData]
        cases ho : optimize K r.blob r.comp (targetFor req.accept req.fast r.mime) with
        | ok res => simp [Resp.status]
        | err => simp [Resp.status]
        | panic s => exact absurd ho (optimize_no_panic K _ _ _ s)
    | err => simp [Resp.status]
    | panic s => exact absurd hg (getData_no_panic src _ s)

/-- 500 is answered only for a stored blob that is not a valid stream of the source's compression
    (and only when it would have to be decoded) -/
theorem status_500_only_if_undecodable (K : Codec) (src : Source) (req : Request)
    (h : (serveTile K src req).status = some 500) :
    ∃ r, getData src req.rest = .ok (some r) ∧ K.dec r.comp r.blob = none := by
  unfold serveTile at h
  split at h
  · simp [Resp.status] at h
  · cases hg : getData src req.rest with
    | ok o =>
      rw [hg] at h
      cases o with
      | none => simp [Resp.status] at h
      | some r =>
        refine ⟨r, rfl, ?_⟩
        cases hd : K.dec r.comp r.blob with
        | none => rfl
        | some p =>
          obtain ⟨res, hres⟩ := optimize_ok_of_valid K r.blob r.comp
            (targetFor req.accept req.fast r.mime) p (targetFor_raw _ _ _) hd
          simp [okData, hres, Resp.status] at h
    | err => rw [hg] at h; simp [Resp.status] at h
    | panic s => exact absurd hg (getData_no_panic src _ s)

/-- with valid stored tiles everything else is 404: the three statuses are the only outcomes -/
theorem status_trichotomy (K : Codec) (src : Source) (hv : StoredValid K src) (req : Request) :
    (serveTile K src req).status = some 200 ∨ (serveTile K src req).status = some 404 ∨
    (serveTile K src req).status = some 400 := by
  have h := serve_total K src req
  have h5 : (serveTile K src req).status ≠ some 500 := by
    intro h5
    obtain ⟨r, hg, hd⟩ := status_500_only_if_undecodable K src req h5
    obtain ⟨p, hp⟩ := getData_valid K src hv _ r hg
    rw [hd] at hp; cases hp
  cases hs : serveTile K src req <;> simp_all [Resp.status]

/-- coordinates outside the level are never served and never crash: always 404 -/
theorem out_of_range_404 (K : Codec) (src : Source) (req : Request) (z x y : Nat)
    (hc : classify req.rest = .tile z x y) (ho : x ≥ 2 ^ z ∨ y ≥ 2 ^ z) (hne : req.rest ≠ "") :
    serveTile K src req = .notFound := by
  have he' : (req.rest == "") = false := by simpa using hne
  simp [serveTile, he', getData, hc, addressed, ho]

/-- a path without any non-empty segment (`/tiles/<id>//`) is 404 -/
theorem no_parts_404 (K : Codec) (src : Source) (req : Request) (h : asVec req.rest = []) :
    serveTile K src req = .notFound := by
  unfold serveTile
  split
  · rfl
  · simp [getData, classify, h, classifyParts]

/-- `ok_data` on its own: whatever it answers with 200 has the source's media type, a Content-Encoding that
    names the encoding of the body, a body that decodes to what the stored blob decodes to, in an encoding the
    negotiated target allows -/
theorem okData_sound (K : Codec) (r : SrcResp) (accept : Option String) (fast : Bool) (ct : String)
    (ce : Option String) (c : Comp) (body : Bytes) (h : okData K r accept fast = .ok ct ce c body) :
    ct = r.mime ∧ ce = encToken c ∧ K.dec c body = K.dec r.comp r.blob ∧
      (targetFor accept fast r.mime).has c = true := by
  simp only [okData] at h
  cases ho : optimize K r.blob r.comp (targetFor accept fast r.mime) with
  | ok res =>
    obtain ⟨b', c'⟩ := res
    rw [ho] at h
    simp only [Resp.ok.injEq] at h
    obtain ⟨rfl, rfl, rfl, rfl⟩ := h
    obtain ⟨h1, h2⟩ := optimize_sound K _ _ _ _ _ ho
    exact ⟨rfl, rfl, h2, h1⟩
  | err => rw [ho] at h; cases h
  | panic s => rw [ho] at h; cases h

/-- **body / Content-Type / Content-Encoding law** for every 200 response -/
theorem response_sound (K : Codec) (src : Source) (req : Request) (ct : String) (ce : Option String)
    (c : Comp) (body : Bytes) (h : serveTile K src req = .ok ct ce c body) :
    ∃ r, getData src req.rest = .ok (some r) ∧ ct = r.mime ∧ ce = encToken c ∧
      K.dec c body = K.dec r.comp r.blob ∧
      (targetFor req.accept req.fast r.mime).has c = true := by
  unfold serveTile at h
  split at h
  · cases h
  · cases hg : getData src req.rest with
    | ok o =>
      rw [hg] at h
      cases o with
      | none => cases h
      | some r =>
        simp only [okData] at h
        cases ho : optimize K r.blob r.comp (targetFor req.accept req.fast r.mime) with
        | ok res =>
          obtain ⟨b', c'⟩ := res
          rw [ho] at h
          simp only [Resp.ok.injEq] at h
          obtain ⟨rfl, rfl, rfl, rfl⟩ := h
          obtain ⟨h1, h2⟩ := optimize_sound K _ _ _ _ _ ho
          exact ⟨r, rfl, rfl, rfl, h2, h1⟩
        | err => rw [ho] at h; cases h
        | panic s => rw [ho] at h; cases h
    | err => rw [hg] at h; cases h
    | panic s => rw [hg] at h; cases h

/-- for a tile request the 200 response carries the stored tile and the format's media type -/
theorem tile_response (K : Codec) (src : Source) (req : Request) (z x y : Nat)
    (hc : classify req.rest = .tile z x y) (ct : String) (ce : Option String) (c : Comp) (body : Bytes)
    (h : serveTile K src req = .ok ct ce c body) :
    ∃ a stored, addressed src.flipY src.swapXY z x y = some a ∧
      src.lookup a.1 a.2.1 a.2.2 = some stored ∧
      ct = src.mime ∧ ce = encToken c ∧ K.dec c body = K.dec src.comp stored := by
  obtain ⟨r, hg, h1, h2, h3, _⟩ := response_sound K src req ct ce c body h
  rcases (getData_some_iff src _ r).mp hg with ⟨hj, _⟩ | ⟨z1, x1, y1, a, b, hc', ha, hl, rfl⟩
  · rw [hc] at hj; cases hj
  · rw [hc] at hc'
    simp only [PathKind.tile.injEq] at hc'
    obtain ⟨rfl, rfl, rfl⟩ := hc'
    exact ⟨a, b, ha, hl, h1, h2, h3⟩

/-- **a Content-Encoding token is emitted only if that token occurs in the Accept-Encoding value** -/
theorem encoding_listed (K : Codec) (src : Source) (req : Request) (ct tok : String) (c : Comp)
    (body : Bytes) (h : serveTile K src req = .ok ct (some tok) c body) :
    ∃ hv, req.accept = some hv ∧
      ((tok = "gzip" ∧ tokGzip <:+: hv.toList) ∨ (tok = "br" ∧ tokBr <:+: hv.toList)) := by
  obtain ⟨r, _, _, h2, _, h4⟩ := response_sound K src req ct (some tok) c body h
  cases c with
  | raw => simp [encToken] at h2
  | gzip =>
    have hg : (targetFor req.accept req.fast r.mime).gzip = true := h4
    rw [targetFor_gzip] at hg
    obtain ⟨s, hs, hi⟩ := getEncoding_gzip hg
    simp only [encToken, Option.some.injEq] at h2
    exact ⟨s, hs, Or.inl ⟨h2, hi⟩⟩
  | brotli =>
    have hb : (targetFor req.accept req.fast r.mime).brotli = true := h4
    rw [targetFor_brotli] at hb
    obtain ⟨s, hs, hi⟩ := getEncoding_brotli hb
    simp only [encToken, Option.some.injEq] at h2
    exact ⟨s, hs, Or.inr ⟨h2, hi⟩⟩

/-! ### from "occurs as a substring" to "is a listed token"

For header values whose elements are encodings of the property's alphabet (any letter case), with
optional weights, separated by commas/blanks, a substring match is a token match. -/

/-- separators and weight characters of an Accept-Encoding list (`, ; = . q`, blanks, digits) -/
def isSep (c : Char) : Bool :=
  c == ',' || c == ' ' || c == '\t' || c == ';' || c == '=' || c == '.' || c == 'q' || c == 'Q' || c.isDigit

/-- the property's alphabet (plus `*` and the empty run between two separators) -/
def alphabet : List (List Char) :=
  [tokGzip, tokBr, ['d', 'e', 'f', 'l', 'a', 't', 'e'], ['i', 'd', 'e', 'n', 't', 'i', 't', 'y'],
   ['z', 's', 't', 'd'], ['*'], []]

/-- the header is a list over the alphabet, in any letter case -/
def WellFormed (hv : String) : Prop :=
  ∀ r ∈ runs isSep hv.toList, r.map Char.toLower ∈ alphabet

theorem token_of_infix (tokn : List Char) (hsep : ∀ c ∈ tokn, isSep c = false)
    (hlow : tokn.map Char.toLower = tokn)
    (halpha : ∀ a ∈ alphabet, containsSub tokn a = true → a = tokn)
    (hv : String) (hw : WellFormed hv) (hi : tokn <:+: hv.toList) :
    tokn ∈ runs isSep hv.toList := by
  obtain ⟨r, hr, hir⟩ := infix_in_run isSep hv.toList tokn hsep hi
  have hmap : tokn.map Char.toLower <:+: r.map Char.toLower := List.IsInfix.map _ hir
  rw [hlow] at hmap
  have heq := halpha _ (hw r hr) ((containsSub_iff _ _).mpr hmap)
  have hlen : r.length = tokn.length := by
    have := congrArg List.length heq
    simpa using this
  have : tokn = r := List.IsInfix.eq_of_length hir hlen.symm
  rw [this]; exact hr

/-- **encoding_listed, token form**: on well-formed headers the emitted token is one of the
    client's list elements (the server matches lower-case only: an upper-case `GZIP` is ignored,
    which errs on the safe side). -/
theorem encoding_listed_tokens (K : Codec) (src : Source) (req : Request) (ct tok : String) (c : Comp)
    (body : Bytes) (h : serveTile K src req = .ok ct (some tok) c body) :
    ∃ hv, req.accept = some hv ∧ (WellFormed hv →
      ((tok = "gzip" ∧ tokGzip ∈ runs isSep hv.toList) ∨ (tok = "br" ∧ tokBr ∈ runs isSep hv.toList))) := by
  obtain ⟨hv, ha, hor⟩ := encoding_listed K src req ct tok c body h
  refine ⟨hv, ha, fun hw => ?_⟩
  rcases hor with ⟨ht, hi⟩ | ⟨ht, hi⟩
  · exact Or.inl ⟨ht, token_of_infix tokGzip (by decide) (by decide) (by decide) hv hw hi⟩
  · exact Or.inr ⟨ht, token_of_infix tokBr (by decide) (by decide) (by decide) hv hw hi⟩

/-- images are never compressed on the fly -/
theorem image_not_compressed (K : Codec) (src : Source) (req : Request) (z x y : Nat)
    (hc : classify req.rest = .tile z x y) (himg : isImageMime src.mime = true)
    (ct : String) (ce : Option String) (c : Comp) (body : Bytes)
    (h : serveTile K src req = .ok ct ce c body) : c = src.comp ∨ c = .raw := by
  unfold serveTile at h
  split at h
  · cases h
  · cases hg : getData src req.rest with
    | ok o =>
      rw [hg] at h
      cases o with
      | none => cases h
      | some r =>
        have hr : r.comp = src.comp ∧ r.mime = src.mime := by
          rcases (getData_some_iff src _ r).mp hg with ⟨hj, _⟩ | ⟨_, _, _, _, _, _, _, _, rfl⟩
          · rw [hc] at hj; cases hj
          · exact ⟨rfl, rfl⟩
        simp only [okData] at h
        cases ho : optimize K r.blob r.comp (targetFor req.accept req.fast r.mime) with
        | ok res =>
          obtain ⟨b', c'⟩ := res
          rw [ho] at h
          simp only [Resp.ok.injEq] at h
          obtain ⟨_, _, rfl, _⟩ := h
          have hgoal : (targetFor req.accept req.fast r.mime).goal = .incompressible := by
            unfold targetFor
            rw [hr.2, himg]; simp
          rcases optimize_incompressible K _ _ _ _ _ hgoal ho with ⟨_, h2⟩ | h2
          · exact Or.inl (h2.trans hr.1)
          · exact Or.inr h2
        | err => rw [ho] at h; cases h
        | panic s => rw [ho] at h; cases h
    | err => rw [hg] at h; cases h
    | panic s => rw [hg] at h; cases h

/-! ### static routes: precompressed variants and on-the-fly recompression must agree -/

/-- all stored variants of a file carry the same content `p` -/
def Consistent (K : Codec) (e : StaticEntry) (p : Bytes) : Prop :=
  (∀ b, e.un = some b → b = p) ∧ (∀ b, e.gz = some b → K.dec .gzip b = some p) ∧
  (∀ b, e.br = some b → K.dec .brotli b = some p)

theorem tarSelect_content (K : Codec) (e : StaticEntry) (t : Target) (p b : Bytes) (c : Comp)
    (hc : Consistent K e p) (h : tarSelect e t = some (b, c)) : K.dec c b = some p := by
  obtain ⟨h1, h2, h3⟩ := hc
  unfold tarSelect at h
  cases hb1 : (if t.brotli = true then e.br else none) with
  | some x =>
    rw [hb1] at h
    simp only [Option.some.injEq, Prod.mk.injEq] at h
    obtain ⟨rfl, rfl⟩ := h
    have : e.br = some x := by
      split at hb1
      · exact hb1
      · cases hb1
    exact h3 _ this
  | none =>
    rw [hb1] at h
    simp only at h
    cases hg1 : (if t.gzip = true then e.gz else none) with
    | some x =>
      rw [hg1] at h
      simp only [Option.some.injEq, Prod.mk.injEq] at h
      obtain ⟨rfl, rfl⟩ := h
      have : e.gz = some x := by
        split at hg1
        · exact hg1
        · cases hg1
      exact h2 _ this
    | none =>
      rw [hg1] at h
      simp only at h
      cases hu : e.un with
      | some x =>
        rw [hu] at h
        simp only [Option.some.injEq, Prod.mk.injEq] at h
        obtain ⟨rfl, rfl⟩ := h
        rw [K.dec_raw, h1 _ hu]
      | none =>
        rw [hu] at h
        simp only at h
        cases hbr : e.br with
        | some x =>
          rw [hbr] at h
          simp only [Option.some.injEq, Prod.mk.injEq] at h
          obtain ⟨rfl, rfl⟩ := h
          exact h3 _ hbr
        | none =>
          rw [hbr] at h
          simp only at h
          cases hgz : e.gz with
          | some x =>
            rw [hgz] at h
            simp only [Option.some.injEq, Prod.mk.injEq] at h
            obtain ⟨rfl, rfl⟩ := h
            exact h2 _ hgz
          | none => rw [hgz] at h; cases h

theorem folderSelect_content (K : Codec) (e : StaticEntry) (p b : Bytes) (c : Comp)
    (hc : Consistent K e p) (h : folderSelect e = some (b, c)) : K.dec c b = some p := by
  obtain ⟨h1, h2, h3⟩ := hc
  unfold folderSelect at h
  cases hu : e.un with
  | some x =>
    rw [hu] at h
    simp only [Option.some.injEq, Prod.mk.injEq] at h
    obtain ⟨rfl, rfl⟩ := h
    rw [K.dec_raw, h1 _ hu]
  | none =>
    rw [hu] at h
    simp only at h
    cases hbr : e.br with
    | some x =>
      rw [hbr] at h
      simp only [Option.some.injEq, Prod.mk.injEq] at h
      obtain ⟨rfl, rfl⟩ := h
      exact h3 _ hbr
    | none =>
      rw [hbr] at h
      simp only at h
      cases hgz : e.gz with
      | some x =>
        rw [hgz] at h
        simp only [Option.some.injEq, Prod.mk.injEq] at h
        obtain ⟨rfl, rfl⟩ := h
        exact h2 _ hgz
      | none => rw [hgz] at h; cases h

theorem firstHit_some {srcs : List StaticSrc} {path : String} {t : Target} {r : SrcResp}
    (h : firstHit srcs path t = some r) : ∃ s ∈ srcs, s.get path t = some r := by
  induction srcs with
  | nil => simp [firstHit] at h
  | cons s rest ih =>
    simp only [firstHit] at h
    cases hs : s.get path t with
    | some r' => rw [hs] at h; cases h; exact ⟨s, by simp, hs⟩
    | none =>
      rw [hs] at h
      obtain ⟨s', hm, hg⟩ := ih h
      exact ⟨s', by simp [hm], hg⟩

theorem firstHit_none_iff (srcs : List StaticSrc) (path : String) (t : Target) :
    firstHit srcs path t = none ↔ ∀ s ∈ srcs, s.get path t = none := by
  induction srcs with
  | nil => simp [firstHit]
  | cons s rest ih =>
    simp only [firstHit]
    cases hs : s.get path t with
    | some r => simp [hs]
    | none => simp [hs, ih]

/-- the path `serve_static` looks up -/
def staticPath (path : String) : String := if path.endsWith "/" then path ++ "index.html" else path

/-- **static route, body law**: if every stored variant of every file carries that file's content, then whatever
    variant is picked (precompressed or plain) and however it is re-encoded on the fly, the body decodes to the
    content of the requested file; Content-Type is the file's type, Content-Encoding names the body's encoding -/
theorem static_sound (K : Codec) (srcs : List StaticSrc) (content : String → Bytes)
    (hc : ∀ s ∈ srcs, ∀ q e, s.files q = some e → Consistent K e (content q))
    (path : String) (accept : Option String) (fast : Bool) (ct : String) (ce : Option String) (c : Comp)
    (body : Bytes) (h : serveStatic K srcs path accept fast = .ok ct ce c body) :
    K.dec c body = some (content (staticPath path)) ∧ ce = encToken c ∧
      ∃ s ∈ srcs, ∃ e, s.files (staticPath path) = some e ∧ ct = e.mime := by
  unfold serveStatic at h
  change (match firstHit srcs (staticPath path) (staticTarget accept fast) with
    | some r => okData K r accept fast | none => Resp.notFound) = _ at h
  cases hf : firstHit srcs (staticPath path) (staticTarget accept fast) with
  | none => rw [hf] at h; cases h
  | some r =>
    rw [hf] at h
    obtain ⟨h1, h2, h3, _⟩ := okData_sound K r accept fast ct ce c body h
    obtain ⟨s, hs, hg⟩ := firstHit_some hf
    unfold StaticSrc.get at hg
    cases hfile : s.files (staticPath path) with
    | none => rw [hfile] at hg; cases hg
    | some e =>
      rw [hfile] at hg
      have hcons := hc s hs _ e hfile
      simp only at hg
      cases hk : s.kind with
      | tar =>
        rw [hk] at hg
        simp only at hg
        cases hsel : tarSelect e (staticTarget accept fast) with
        | none => rw [hsel] at hg; cases hg
        | some bc =>
          obtain ⟨b, c0⟩ := bc
          rw [hsel] at hg
          simp only [Option.some.injEq] at hg
          subst hg
          have := tarSelect_content K e _ _ b c0 hcons hsel
          exact ⟨by rw [h3]; exact this, h2, s, hs, e, hfile, h1⟩
      | folder =>
        rw [hk] at hg
        simp only at hg
        cases hsel : folderSelect e with
        | none => rw [hsel] at hg; cases hg
        | some bc =>
          obtain ⟨b, c0⟩ := bc
          rw [hsel] at hg
          simp only [Option.some.injEq] at hg
          subst hg
          have := folderSelect_content K e _ b c0 hcons hsel
          exact ⟨by rw [h3]; exact this, h2, s, hs, e, hfile, h1⟩

/-- static route: 404 exactly when no source knows the path (a file with at least one variant is always served
    when its variants are valid) -/
theorem static_404_of_unknown (K : Codec) (srcs : List StaticSrc) (path : String) (accept : Option String)
    (fast : Bool) (h : ∀ s ∈ srcs, s.files (staticPath path) = none) :
    serveStatic K srcs path accept fast = .notFound := by
  unfold serveStatic
  change (match firstHit srcs (staticPath path) (staticTarget accept fast) with
    | some r => okData K r accept fast | none => Resp.notFound) = _
  have : firstHit srcs (staticPath path) (staticTarget accept fast) = none := by
    rw [firstHit_none_iff]
    intro s hs
    simp [StaticSrc.get, h s hs]
  rw [this]

/-- a Content-Encoding token on a static response occurs in the Accept-Encoding value, too -/
theorem static_encoding_listed (K : Codec) (srcs : List StaticSrc) (path : String) (accept : Option String)
    (fast : Bool) (ct tok : String) (c : Comp) (body : Bytes)
    (h : serveStatic K srcs path accept fast = .ok ct (some tok) c body) :
    ∃ hv, accept = some hv ∧
      ((tok = "gzip" ∧ tokGzip <:+: hv.toList) ∨ (tok = "br" ∧ tokBr <:+: hv.toList)) := by
  unfold serveStatic at h
  change (match firstHit srcs (staticPath path) (staticTarget accept fast) with
    | some r => okData K r accept fast | none => Resp.notFound) = _ at h
  cases hf : firstHit srcs (staticPath path) (staticTarget accept fast) with
  | none => rw [hf] at h; cases h
  | some r =>
    rw [hf] at h
    obtain ⟨_, h2, _, h4⟩ := okData_sound K r accept fast ct (some tok) c body h
    cases c with
    | raw => simp [encToken] at h2
    | gzip =>
      have hg : (targetFor accept fast r.mime).gzip = true := h4
      rw [targetFor_gzip] at hg
      obtain ⟨s, hs, hi⟩ := getEncoding_gzip hg
      simp only [encToken, Option.some.injEq] at h2
      exact ⟨s, hs, Or.inl ⟨h2, hi⟩⟩
    | brotli =>
      have hb : (targetFor accept fast r.mime).brotli = true := h4
      rw [targetFor_brotli] at hb
      obtain ⟨s, hs, hi⟩ := getEncoding_brotli hb
      simp only [encToken, Option.some.injEq] at h2
      exact ⟨s, hs, Or.inr ⟨h2, hi⟩⟩

/-- a brotli blob that the client accepts is never touched (precompressed `.br` files are sent as stored) -/
theorem optimize_brotli_kept (K : Codec) (b : Bytes) (t : Target) (hraw : t.raw = true) (hb : t.brotli = true) :
    optimize K b .brotli t = .ok (b, .brotli) := by
  unfold optimize
  have h1 : t.isEmpty = false := by simp [Target.isEmpty, hraw]
  have h2 : t.has .raw = true := hraw
  have h3 : t.has .brotli = true := hb
  simp [h1, h2, h3]

/-! ### non-vacuity -/

/-- a source with valid tiles exists -/
def demoSrc : Source :=
  { comp := .gzip, mime := "application/x-protobuf", flipY := false,
    lookup := fun z x y => if (z, x, y) = (1, 1, 0) then some (toy.enc .gzip [9, 9]) else none,
    tilejson := [123, 125] }

example : StoredValid toy demoSrc := by
  intro z x y b h
  simp only [demoSrc] at h
  split at h
  · cases h; exact ⟨[9, 9], by decide⟩
  · cases h

example : classifyParts ["1", "1", "0.pbf"] = .tile 1 1 0 := by decide
example : classifyParts ["32", "0", "0"] = .bad := by decide
example : classifyParts ["+1", "01", "0abc", "x"] = .tile 1 1 0 := by decide
example : classifyParts ["1", "0", ".png"] = .bad := by decide
example : classifyParts [] = .other := by decide
example : classifyParts ["tiles.json"] = .json := by decide
example : addressed false false 1 0 2 = none := by decide
example : addressed true false 3 7 0 = some (3, 7, 7) := by decide
example : addressed false true 3 7 0 = some (3, 0, 7) := by decide
example : addressed true true 3 6 1 = some (3, 1, 1) := by decide

/-- the transformation the server applies to a request is the inverse of "flip, then swap" (what the
    converter applies to the source's coordinates): a stored tile `(x, y)` is served at
    `T (x, y)` and a request for `T (x, y)` addresses `(x, y)` again -/
theorem addressed_inverse (flipY swapXY : Bool) (z x y : Nat) (hx : x < 2 ^ z) (hy : y < 2 ^ z) :
    let yf := if flipY then 2 ^ z - 1 - y else y
    let sx := if swapXY then yf else x
    let sy := if swapXY then x else yf
    addressed flipY swapXY z sx sy = some (z, x, y) := by
  cases flipY <;> cases swapXY <;> simp [addressed] <;> omega

/-- the override decides what the server assumes, whatever the container declares -/
theorem effectiveComp_override (d o : Comp) : effectiveComp d (some o) = o := rfl
theorem effectiveComp_none (d : Comp) : effectiveComp d none = d := rfl
/-- a well-formed header exists and the token theorem's hypothesis is satisfiable -/
example : (∀ r ∈ runs isSep ['g', 'z', 'i', 'p', ',', ' ', 'B', 'R', ';', 'q', '=', '0', '.', '5'],
      r.map Char.toLower ∈ alphabet) ∧
    tokGzip ∈ runs isSep ['g', 'z', 'i', 'p', ',', ' ', 'B', 'R', ';', 'q', '=', '0', '.', '5'] ∧
    tokBr ∉ runs isSep ['g', 'z', 'i', 'p', ',', ' ', 'B', 'R', ';', 'q', '=', '0', '.', '5'] := by decide
/-- substring ≠ token in general: `"xbry"` contains `br`; such a header is not well-formed -/
example : containsSub tokBr ['x', 'b', 'r', 'y'] = true := by decide

end VtProps.C05
