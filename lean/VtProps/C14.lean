import VtProofs.Sched
/-!
# C14 — parallel stream transformations keep every tile paired with its own result

Theorems about `VtModel.Sched` (the windowed unordered buffer behind `map_blob_parallel`,
`filter_map_blob_parallel`, `from_coord_iter_parallel`, and `for_each_buffered`) for **every**
input stream, every callback `f`, every window `n` and every schedule (= every run of the
transition system, i.e. every order in which the in-flight tasks finish and every interleaving of
starts and finishes).
-/
namespace VtProps.C14
open VtModel.Sched

/-- **C14 (pairing)**: whatever the completion order, when the stream is exhausted the output is
    a permutation of `input.filterMap (fun (c, a) => (f a).map (c, ·))`: exactly one output per
    retained input, each with the coordinate of the input it was computed from. -/
theorem pairing (f : Nat → Option Nat) (n : Nat) (xs : List Item) (s : St)
    (hr : Reach f n (St.init xs) s) (ht : s.terminal) :
    s.out.Perm (xs.filterMap (expect1 f)) := by
  have h := reach_content hr
  obtain ⟨hp, hi⟩ := ht
  simpa [content, St.init, hp, hi] using h

/-- no loss, no duplicate: every pair occurs in the output exactly as often as the input demands -/
theorem counts (f : Nat → Option Nat) (n : Nat) (xs : List Item) (s : St)
    (hr : Reach f n (St.init xs) s) (ht : s.terminal) (p : Nat × Nat) :
    s.out.count p = (xs.filterMap (expect1 f)).count p :=
  (pairing f n xs s hr ht).count_eq p

/-- no re-pairing: every output `(c, r)` stems from an input `(c, a)` with `f a = some r` -/
theorem no_repairing (f : Nat → Option Nat) (n : Nat) (xs : List Item) (s : St)
    (hr : Reach f n (St.init xs) s) (ht : s.terminal) :
    ∀ p ∈ s.out, ∃ a, (p.1, a) ∈ xs ∧ f a = some p.2 := by
  intro p hp
  have hm := (pairing f n xs s hr ht).mem_iff.mp hp
  obtain ⟨x, hx, he⟩ := List.mem_filterMap.mp hm
  obtain ⟨c, a⟩ := x
  unfold expect1 at he
  cases hf : f a with
  | none => simp [hf] at he
  | some r =>
    simp only [hf, Option.map_some, Option.some.injEq] at he
    subst he
    exact ⟨a, hx, hf⟩

/-- `map_blob_parallel` (a total callback): as many outputs as inputs -/
theorem map_length (f : Nat → Option Nat) (hf : ∀ a, (f a).isSome) (n : Nat) (xs : List Item) (s : St)
    (hr : Reach f n (St.init xs) s) (ht : s.terminal) : s.out.length = xs.length := by
  rw [(pairing f n xs s hr ht).length_eq]
  clear hr ht
  induction xs with
  | nil => rfl
  | cons x xs ih =>
    have := hf x.2
    cases h : f x.2 with
    | none => simp [h] at this
    | some r =>
      rw [filterMap_cons_toList]
      simp only [expect1, h, Option.map_some, Option.toList_some, List.length_append,
        List.length_cons, List.length_nil, ih]
      omega

/-- even an *unfinished* run never shows a wrong pair or a surplus copy: the delivered part is a
    sub-multiset of what the input demands -/
theorem prefix_sound (f : Nat → Option Nat) (n : Nat) (xs : List Item) (s : St)
    (hr : Reach f n (St.init xs) s) (p : Nat × Nat) :
    s.out.count p ≤ (xs.filterMap (expect1 f)).count p := by
  have h := (reach_content hr).count_eq p
  simp only [content, St.init, List.flatMap_nil, List.nil_append, List.count_append] at h
  omega

/-- **progress**: with a window of at least one task a non-terminal state always has a transition -/
theorem progress (f : Nat → Option Nat) (n : Nat) (hn : 1 ≤ n) (s : St) (h : ¬ s.terminal) :
    ∃ t, Step f n s t := by
  obtain ⟨pend, infl, out⟩ := s
  cases infl with
  | cons t ts => exact ⟨_, Step.finish pend (t :: ts) out 0 (by simp)⟩
  | nil =>
    cases pend with
    | nil => exact absurd ⟨rfl, rfl⟩ h
    | cons x rest =>
      obtain ⟨c, a⟩ := x
      exact ⟨_, Step.start c a rest [] out (by simp only [List.length_nil]; omega)⟩

/-- **termination measure**: `2·|pending| + |inflight|` strictly decreases with every step -/
theorem step_measure (f : Nat → Option Nat) (n : Nat) (s t : St) (h : Step f n s t) :
    t.measure < s.measure := by
  cases h with
  | start c a rest infl out _ => simp [St.measure]; omega
  | finish pend infl out i hi => simp [St.measure, List.length_eraseIdx, hi]; omega

/-- there is no infinite run -/
theorem step_wf (f : Nat → Option Nat) (n : Nat) : WellFounded (fun t s => Step f n s t) :=
  Subrelation.wf (fun {t s} (h : Step f n s t) => step_measure f n s t h) (measure St.measure).wf

/-- every run can be completed, and every completion satisfies the pairing law -/
theorem completes (f : Nat → Option Nat) (n : Nat) (hn : 1 ≤ n) (s : St) :
    ∃ t, Reach f n s t ∧ t.terminal := by
  induction s using (step_wf f n).induction with
  | _ s ih =>
    by_cases ht : s.terminal
    · exact ⟨s, Reach.refl s, ht⟩
    · obtain ⟨t, hst⟩ := progress f n hn s ht
      obtain ⟨u, htu, hu⟩ := ih t hst
      exact ⟨u, reach_trans (Reach.step (Reach.refl s) hst) htu, hu⟩

/-- the window is respected: never more than `n` tasks in flight -/
theorem window_respected (f : Nat → Option Nat) (n : Nat) (xs : List Item) (s : St)
    (hr : Reach f n (St.init xs) s) : s.inflight.length ≤ n := by
  induction hr with
  | refl => simp [St.init]
  | step _ hs ih =>
    cases hs with
    | start c a rest infl out hlt => simp; omega
    | finish pend infl out i hi => simp [List.length_eraseIdx, hi] at ih ⊢; omega

/-- the executable scheduler used for the correspondence check (eager refill, completion order
    given by a choice list) is one run of the transition system – so its final output obeys the
    pairing law for every choice list it accepts -/
theorem runChoices_pairing (f : Nat → Option Nat) (n : Nat) (xs : List Item) (cs : List Nat) (x : XSt)
    (h : runChoices f n (XSt.init xs) cs = some x) (ht : x.st.terminal) :
    x.st.out.Perm (xs.filterMap (expect1 f)) :=
  pairing f n xs x.st (runChoices_reach f n cs _ _ h) ht

/-! ## callbacks that panic (fault class: fail loudly, never lose silently) -/

/-- **never silent**: if the callback panics on some input, no run can end normally – every
    terminal state has `failed = true` (the panic reached the consumer).  This is what
    `from_coord_iter_parallel` violated before 17fee433 (the `JoinError` was mapped to `None`). -/
theorem panic_never_silent (f : Nat → Option (Option Nat)) (n : Nat) (xs : List Item) (s : PSt)
    (hr : PReach f n (PSt.init xs) s) (ht : s.terminal) (hp : ∃ x ∈ xs, f x.2 = none) :
    s.failed = true := by
  cases hf : s.failed with
  | true => rfl
  | false =>
    exfalso
    have h := preach_owed hr hf
    obtain ⟨h1, h2⟩ := ht
    obtain ⟨x, hx, hfx⟩ := hp
    simp only [owedPanics, h1, h2, PSt.init, List.filter_nil, List.length_nil, Nat.add_zero] at h
    have hm : x ∈ xs.filter (fun x => (f x.2).isNone) := by
      simp [List.mem_filter, hx, hfx]
    have : 0 < (xs.filter (fun x => (f x.2).isNone)).length := List.length_pos_of_mem hm
    omega

/-- a run that ended without failure delivered exactly the demanded pairs -/
theorem panic_free_pairing (f : Nat → Option (Option Nat)) (n : Nat) (xs : List Item) (s : PSt)
    (hr : PReach f n (PSt.init xs) s) (ht : s.terminal) :
    s.out.Perm (xs.filterMap (pexpect1 f)) := by
  have h := preach_content hr
  obtain ⟨hp, hi⟩ := ht
  simpa [pcontent, PSt.init, hp, hi] using h

/-- also a failed (aborted) run has delivered only correct pairs, none twice -/
theorem panic_prefix_sound (f : Nat → Option (Option Nat)) (n : Nat) (xs : List Item) (s : PSt)
    (hr : PReach f n (PSt.init xs) s) (p : Nat × Nat) :
    s.out.count p ≤ (xs.filterMap (pexpect1 f)).count p := by
  have h := (preach_content hr).count_eq p
  simp only [pcontent, PSt.init, List.flatMap_nil, List.nil_append, List.count_append] at h
  omega

/-! ## composition and the sequential combinators -/

theorem filterMap_expect_comp (f g : Nat → Option Nat) (xs : List Item) :
    (xs.filterMap (expect1 f)).filterMap (expect1 g) = xs.filterMap (expect1 (fun a => (f a).bind g)) := by
  rw [List.filterMap_filterMap]
  congr 1
  funext x
  obtain ⟨c, a⟩ := x
  simp only [expect1]
  cases f a <;> simp [expect1]

/-- **a stream mapped twice** (`.map_blob_parallel(f)` then `.filter_map_blob_parallel(g)`, any two
    windows, any two schedules): the result is the pairing law of the composed callback -/
theorem double_map_pairing (f g : Nat → Option Nat) (n m : Nat) (xs : List Item) (s1 s2 : St)
    (h1 : Reach f n (St.init xs) s1) (t1 : s1.terminal)
    (h2 : Reach g m (St.init s1.out) s2) (t2 : s2.terminal) :
    s2.out.Perm (xs.filterMap (expect1 (fun a => (f a).bind g))) := by
  have p1 := pairing f n xs s1 h1 t1
  have p2 := pairing g m s1.out s2 h2 t2
  rw [← filterMap_expect_comp]
  exact p2.trans (p1.filterMap _)

/-- `map_coord` behind a parallel operator: every result keeps its blob, coordinates are mapped -/
theorem map_coord_after_parallel (f : Nat → Option Nat) (g : Nat → Nat) (n : Nat) (xs : List Item) (s : St)
    (hr : Reach f n (St.init xs) s) (ht : s.terminal) :
    (mapCoord g s.out).Perm (mapCoord g (xs.filterMap (expect1 f))) :=
  (pairing f n xs s hr ht).map _

/-- `from_coord_vec_async`: exactly the items the callback returns, each from its own coordinate -/
theorem vec_async_sound (g : Nat → Option (Nat × Nat)) (cs : List Nat) (p : Nat × Nat) :
    p ∈ seqFilterMap g cs ↔ ∃ c ∈ cs, g c = some p := by
  simp [seqFilterMap, List.mem_filterMap]

theorem vec_async_length (g : Nat → Option (Nat × Nat)) (cs : List Nat) :
    (seqFilterMap g cs).length ≤ cs.length := List.length_filterMap_le _ _

/-- `from_stream_iter`: every item of every sub-stream exactly once -/
theorem flatten_count (xss : List (List (Nat × Nat))) (p : Nat × Nat) :
    (flattenStreams xss).count p = (xss.map (·.count p)).sum := by
  simp [flattenStreams, List.count_flatten]

/-- `drain_and_count` behind a parallel operator counts the retained inputs -/
theorem drain_count_after_parallel (f : Nat → Option Nat) (n : Nat) (xs : List Item) (s : St)
    (hr : Reach f n (St.init xs) s) (ht : s.terminal) :
    drainCount s.out = (xs.filterMap (expect1 f)).length :=
  (pairing f n xs s hr ht).length_eq

/-! ## `for_each_buffered` -/

/-- the chunks concatenate to the stream: every item is seen once, in order -/
theorem chunks_flatten {α : Type} (k : Nat) (xs : List α) : (chunks k xs).flatten = xs := by
  simpa [chunks] using chunksAux_flatten k xs []

/-- each chunk is non-empty and not larger than `k` (`k ≥ 1`) -/
theorem chunks_sizes {α : Type} (k : Nat) (hk : 1 ≤ k) (xs : List α) :
    ∀ ch ∈ chunks k xs, 1 ≤ ch.length ∧ ch.length ≤ k :=
  chunksAux_sizes k hk xs [] (by simp only [List.length_nil]; omega)

/-- each chunk except the last has exactly `k` items -/
theorem chunks_full_except_last {α : Type} (k : Nat) (hk : 1 ≤ k) (xs : List α) :
    ∀ ch ∈ (chunks k xs).dropLast, ch.length = k :=
  chunksAux_full k xs [] (by simp only [List.length_nil]; omega)

/-- `buffer_size = 0` degenerates to singletons (as the code does) -/
theorem chunks_zero {α : Type} (xs : List α) : ∀ ch ∈ chunks 0 xs, ch.length = 1 :=
  chunks0_singletons xs

/-- a buffered consumer behind a parallel operator sees exactly the demanded multiset -/
theorem buffered_pairing (f : Nat → Option Nat) (n k : Nat) (xs : List Item) (s : St)
    (hr : Reach f n (St.init xs) s) (ht : s.terminal) :
    (chunks k s.out).flatten.Perm (xs.filterMap (expect1 f)) := by
  rw [chunks_flatten]; exact pairing f n xs s hr ht

/-! ## non-vacuity -/

/-- three items, window 2, completion order 1,0,2: the output is reordered, pairs intact
    (item 1 yields a one-byte blob, item 0 an empty blob – both are retained) -/
example : (runChoices (fOf "fmap") 2 (XSt.init [(10, 1), (11, 2), (12, 3)]) [1, 0, 2]).map (·.st.out)
    = some [(11, 3), (10, 0), (12, 1017)] := by decide
/-- item 2 is not in flight before one of the first two has finished (window 2) -/
example : (runChoices (fOf "map") 2 (XSt.init [(10, 1), (11, 2), (12, 3)]) [2, 0, 1]).isNone = true := by decide
example : chunks 2 [1, 2, 3, 4, 5] = [[1, 2], [3, 4], [5]] := by decide
example : chunks 0 [1, 2] = [[1], [2]] := by decide

end VtProps.C14
