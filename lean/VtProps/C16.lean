import VtProofs.Versatiles
import VtProofs.PMTiles
import VtProofs.PMFind
import VtProofs.Hilbert
import VtProofs.VersatilesRead
import VtProofs.PMTilesRead
import VtProofs.TarRead
import VtProofs.MBTilesCover
import VtProofs.PMTilesCover
/-!
# C16 — readers accept every container that is valid by the published format layouts

Theorems about the model readers (`VtModel.Versatiles`, `VtModel.PMTiles`, `VtModel.Hilbert`,
`VtModel.TarDir`, `VtModel.MBTiles`).  Helper lemmas live in `VtProofs/`.
-/
namespace VtProps.C16
open VtModel VtModel.Fmt

/-! ## PMTiles: Hilbert tile ids (the Rust loops, all zoom levels) -/

/-- `tile_id_to_coord (coord_to_tile_id c) = c` for every valid coordinate at every zoom level 0..31,
    for the loop forms exactly as written on `i64` (bridge to the recursive specification proved in
    `VtProofs.Hilbert`). -/
theorem hilbert_inverse {x y z : Nat} (hz : z < 32) (hx : x < 2 ^ z) (hy : y < 2 ^ z) :
    (Hilbert.coordToTileIdLoop x y z).bind Hilbert.tileIdToCoordLoop = .ok (x, y, z) :=
  VtProofs.Hilbert.loop_roundtrip hz hx hy

/-- the other direction: whatever `tile_id_to_coord` returns maps back to the id -/
theorem hilbert_inverse_rev {id x y z : Nat} (h : Hilbert.tileIdToCoordLoop id = .ok (x, y, z)) :
    Hilbert.coordToTileIdLoop x y z = .ok id :=
  VtProofs.Hilbert.loop_roundtrip' h

/-- the loop equals the recursive specification (which is unbounded in `z`) -/
theorem hilbert_loop_is_spec {x y z : Nat} (hz : z < 32) (hx : x < 2 ^ z) (hy : y < 2 ^ z) :
    Hilbert.coordToTileIdLoop x y z = .ok (Hilbert.coordToTileId x y z) :=
  VtProofs.Hilbert.coordToTileIdLoop_eq hz hx hy

/-- recursive specification: inverse for ALL zoom levels -/
theorem hilbert_spec_inverse {x y z : Nat} (hx : x < 2 ^ z) (hy : y < 2 ^ z) :
    Hilbert.tileIdToCoord (Hilbert.coordToTileId x y z) = some (x, y, z) :=
  VtProofs.Hilbert.tileIdToCoord_coordToTileId hx hy

/-- ids are unique across coordinates and zoom levels -/
theorem hilbert_injective {x y z x' y' z' : Nat} (hx : x < 2 ^ z) (hy : y < 2 ^ z)
    (hx' : x' < 2 ^ z') (hy' : y' < 2 ^ z')
    (h : Hilbert.coordToTileId x y z = Hilbert.coordToTileId x' y' z') : (x, y, z) = (x', y', z') :=
  VtProofs.Hilbert.coordToTileId_injective hx hy hx' hy' h

/-- ids of one level fill exactly `[base z, base (z+1))` -/
theorem hilbert_level_range {x y z : Nat} (_hx : x < 2 ^ z) (_hy : y < 2 ^ z) :
    Hilbert.base z ≤ Hilbert.coordToTileId x y z ∧ Hilbert.coordToTileId x y z < Hilbert.base (z + 1) := by
  have := VtProofs.Hilbert.enc_lt' z x y
  unfold Hilbert.coordToTileId
  rw [VtProofs.Hilbert.base_succ]
  omega

/-! ## PMTiles: directory search -/

/-- **find_tile_spec**: on any directory with strictly increasing tile ids, if `e = l[k]` is the last
    entry that starts at or before `id`, `find_tile` returns `e` exactly when `id` is its first id, `e`
    is a leaf pointer (`run_length = 0`) or `id ∈ [e.id, e.id + run_length)`, and `None` otherwise.
    No panic (index, `tile_id - entry.tile_id`). -/
theorem find_tile_spec (l : List PMTiles.Entry) (hs : l.Pairwise (fun a b => a.id < b.id)) (id : Nat)
    (k : Nat) (hk : k < l.length) (hle : (l[k]'hk).id ≤ id)
    (hnext : ∀ (j : Nat) (hj : j < l.length), k < j → id < (l[j]'hj).id) :
    PMTiles.findTile l id =
      .ok (if (l[k]'hk).id = id ∨ (l[k]'hk).run = 0 ∨ id - (l[k]'hk).id < (l[k]'hk).run then some (l[k]'hk) else none) :=
  VtProofs.PMFind.findTile_spec l hs id k hk hle hnext

/-- … and `None` when every entry starts after `id` -/
theorem find_tile_before_first (l : List PMTiles.Entry) (hs : l.Pairwise (fun a b => a.id < b.id)) (id : Nat)
    (hall : ∀ (j : Nat) (hj : j < l.length), id < (l[j]'hj).id) : PMTiles.findTile l id = .ok none :=
  VtProofs.PMFind.findTile_none l hs id hall

/-- run lengths: a tile entry whose run covers `id` is found, provided the next entry starts after it -/
theorem find_tile_run (l : List PMTiles.Entry) (hs : l.Pairwise (fun a b => a.id < b.id)) (id : Nat)
    (k : Nat) (hk : k < l.length) (h1 : (l[k]'hk).id ≤ id) (h2 : id < (l[k]'hk).id + (l[k]'hk).run)
    (hnext : ∀ (j : Nat) (hj : j < l.length), k < j → id < (l[j]'hj).id) :
    PMTiles.findTile l id = .ok (some (l[k]'hk)) := by
  rw [find_tile_spec l hs id k hk h1 hnext]
  have : id - (l[k]'hk).id < (l[k]'hk).run := by omega
  simp [this]

/-! ## decoders accept what a conforming encoder writes -/

/-- PMTiles directory: `from_blob (serialize es) = es` -/
theorem pmtiles_directory_decodes (es : List PMTiles.Entry) (hok : ∀ e ∈ es, VtProofs.PMTiles.EntryOk e)
    (hn : es.length ≤ 10000000000) (b : Bytes) (h : PMTiles.encDir es = .ok b) : PMTiles.decDir b = .ok es :=
  VtProofs.PMTiles.decDir_encDir es hok hn b h

/-- PMTiles header -/
theorem pmtiles_header_decodes (h : PMTiles.Header) (ok : VtProofs.PMTiles.HeaderOk h) :
    PMTiles.decHeader (PMTiles.encHeader h) = .ok h :=
  VtProofs.PMTiles.decHeader_encHeader h ok

/-- versatiles header, read from the start of any file -/
theorem versatiles_header_decodes (h : Versatiles.Header) (ok : VtProofs.Versatiles.HeaderOk h) (rest : Bytes) :
    Versatiles.readHeader (Versatiles.encHeader h ++ rest) = .ok h :=
  VtProofs.Versatiles.readHeader_file h ok rest

/-- versatiles block definition (partial blocks included: any coverage inside the block) -/
theorem versatiles_block_decodes (b : Versatiles.BlockDef) (ok : VtProofs.Versatiles.BlockOk b) (e rest : Bytes)
    (he : Versatiles.encBlockDef b = .ok e) : Versatiles.decBlockDef (e ++ rest) = .ok b :=
  VtProofs.Versatiles.decBlockDef_enc b ok e rest he

/-- versatiles block index (any list of blocks, in any order: sparse indexes included) -/
theorem versatiles_block_index_decodes (l : List Versatiles.BlockDef) (hok : ∀ b ∈ l, VtProofs.Versatiles.BlockOk b)
    (e : Bytes) (he : Versatiles.encBlockIndex l = .ok e) : Versatiles.decBlockIndex e = .ok l :=
  VtProofs.Versatiles.decBlockIndex_enc l hok e he

/-- versatiles tile index -/
theorem versatiles_tile_index_decodes (l : List Range) (h : ∀ r ∈ l, r.off < 256 ^ 8 ∧ r.len < 256 ^ 4) :
    Versatiles.decTileIndex (Versatiles.encTileIndex l) = .ok l :=
  VtProofs.Versatiles.decTileIndex_enc l h

/-! ## versatiles: completeness of the reader against the published layout -/

/-- **C16 (versatiles)**: any file that is valid by the relational description of the v02 layout
    (`VtProofs.VersatilesRead.ValidVersatiles`: header, optional metadata, brotli block index with one
    33-byte record per block coordinate — sparse, in any order —, per block a brotli tile index with
    `(col_max-col_min+1)·(row_max-row_min+1)` row-major 12-byte entries relative to the block offset —
    partial blocks, shared offsets, gaps, empty entries allowed) for the tile map `m` is opened
    without failure, declares the encoded format and compression, and EVERY lookup (`z ≤ 31`) returns
    exactly `m`: the stored payload for stored tiles, `None` otherwise; never `Err`, never a panic. -/
theorem versatiles_reader_complete {K : Inflate} {file : Bytes} {fmt : TileFormat} {comp : TComp}
    {m : Nat × Nat × Nat → Option Bytes}
    (v : VtProofs.VersatilesRead.ValidVersatiles K file fmt comp m) :
    ∃ r, Versatiles.openReader K file = .ok r ∧ r.header.fmt = fmt ∧ r.header.comp = comp ∧
      ∀ x y z, z ≤ 31 → Versatiles.getTile r x y z = .ok (m (x, y, z)) :=
  VtProofs.VersatilesRead.versatiles_complete v

/-! ## PMTiles: completeness of the reader against the published directory layout -/

/-- **C16 (PMTiles)**: any file that is valid by the relational description of the v3 layout
    (`VtProofs.PMTilesRead.ValidPMTiles`: header; metadata, root and leaf directories readable and
    inflatable; a directory tree of height ≤ 2 with strictly increasing ids, run lengths ending before
    the next entry, leaf pointers `run_length = 0` to sub-trees covering `[id, next id)`, tile data
    inside the file; shared offsets are unrestricted) for the map `m` is opened — including the
    coverage walk over every run — and every lookup of a valid coordinate returns exactly `m`. -/
theorem pmtiles_reader_complete {K : Inflate} {file : Bytes} {fmt : TileFormat} {comp : TComp}
    {m : Nat × Nat × Nat → Option Bytes} (v : VtProofs.PMTilesRead.ValidPMTiles K file fmt comp m) :
    ∃ r, PMTiles.openReader K file = .ok r ∧ PMTiles.fmtOfType r.header.ttype = fmt ∧
      PMTiles.compOfCode r.header.tcomp = .ok comp ∧
      ∀ x y z, z ≤ 31 → x < 2 ^ z → y < 2 ^ z → PMTiles.getTile r x y z = .ok (m (x, y, z)) :=
  VtProofs.PMTilesRead.pmtiles_complete v

/-- every addressed non-empty tile is returned (any height `d`, fuel `d + 1`) -/
theorem pmtiles_lookup_found (r : PMTiles.Reader) (C : VtProofs.PMTilesRead.Ctx) (rc : VtProofs.PMTilesRead.RC r C)
    (d lo hi : Nat) (raw : Bytes) (i : Nat) (t : PMTiles.Entry)
    (hwf : VtProofs.PMTilesRead.WFDir C d lo hi raw) (ha : VtProofs.PMTilesRead.Addr C d raw i t) (hl : t.len > 0) :
    PMTiles.lookupLoop r i (d + 1) raw = .ok (some (slice C.file ⟨t.off + C.dataOff, t.len⟩)) :=
  VtProofs.PMTilesRead.lookup_found r C rc d lo hi raw i t hwf ha hl

/-- nothing else is returned -/
theorem pmtiles_lookup_absent (r : PMTiles.Reader) (C : VtProofs.PMTilesRead.Ctx) (rc : VtProofs.PMTilesRead.RC r C)
    (d lo hi : Nat) (raw : Bytes) (i : Nat) (hwf : VtProofs.PMTilesRead.WFDir C d lo hi raw)
    (hno : ∀ t, VtProofs.PMTilesRead.Addr C d raw i t → t.len = 0) :
    PMTiles.lookupLoop r i (d + 1) raw = .ok none :=
  VtProofs.PMTilesRead.lookup_absent r C rc d lo hi raw i hwf hno

/-! ## tar and MBTiles -/

/-- **C16 (tar)**: an archive whose tile members are named `z/x/y.<fmt>[.<comp>]` with or without the
    `./` prefix (any mixture, any order; one format, one compression, pairwise different coordinates)
    is opened, declares that format and compression, returns each member's payload and `None` for
    every other coordinate -/
theorem tar_reader_complete (K : Inflate) (f : TileFormat) (c : TComp) (ts : List VtProofs.TarRead.TileFile)
    (hne : ts ≠ []) (hok : ∀ t ∈ ts, t.ok) (hnd : (ts.map fun t => (t.x, t.y, t.z)).Nodup) :
    ∃ r, TarDir.openTar K (ts.map (VtProofs.TarRead.TileFile.file f c)) = .ok r ∧ r.fmt = f ∧ r.comp = c ∧
      (∀ t ∈ ts, TarDir.getTile r t.x t.y t.z = .ok (some t.payload)) ∧
      (∀ x y z, (∀ t ∈ ts, (t.x, t.y, t.z) ≠ (x, y, z)) → TarDir.getTile r x y z = .ok none) :=
  VtProofs.TarRead.tar_complete K f c ts hne hok hnd

/-- **C16 (mbtiles)**: zoom gaps do not fail the open (the model of the tree after the repair of F10;
    `VtModel.MBTiles.openReaderF10` keeps the old behaviour, see the `example` in `VtProofs.TarRead`) -/
theorem mbtiles_opens_with_zoom_gaps (db : MBTiles.DB) (hne : db ≠ []) (hz : ∀ r ∈ db, r.z ≤ 31)
    (f : String) (hf : f = "jpg" ∨ f = "pbf" ∨ f = "png" ∨ f = "webp") :
    ∃ r, MBTiles.openReader (some f) db = .ok r ∧ r.db = db :=
  VtProofs.TarRead.mbtiles_opens_with_gaps db hne hz f hf

/-- **C16 (directory)**: a tree of files `z/x/y.<fmt>[.<comp>]` is opened and every lookup returns the
    file's content, `None` elsewhere -/
theorem directory_reader_complete (K : Inflate) (f : TileFormat) (c : TComp) (ts : List VtProofs.TarRead.TileFile)
    (hne : ts ≠ []) (hok : ∀ t ∈ ts, t.ok) (hnd : (ts.map fun t => (t.x, t.y, t.z)).Nodup) :
    ∃ r, TarDir.openDir K (ts.map (VtProofs.TarRead.dirFile f c)) = .ok r ∧ r.fmt = f ∧ r.comp = c ∧
      (∀ t ∈ ts, TarDir.getTile r t.x t.y t.z = .ok (some t.payload)) ∧
      (∀ x y z, (∀ t ∈ ts, (t.x, t.y, t.z) ≠ (x, y, z)) → TarDir.getTile r x y z = .ok none) :=
  VtProofs.TarRead.dir_complete K f c ts hne hok hnd

/-! ## advertised coverage contains every returnable tile -/

/-- versatiles: every stored tile lies inside the advertised box of its level -/
theorem versatiles_cover_contains {K : Inflate} {file : Bytes} {fmt : TileFormat} {comp : TComp}
    {m : Nat × Nat × Nat → Option Bytes} (v : VtProofs.VersatilesRead.ValidVersatiles K file fmt comp m) :
    ∃ r, Versatiles.openReader K file = .ok r ∧
      ∀ x y z blob, z ≤ 31 → m (x, y, z) = some blob →
        ∃ box ∈ Versatiles.cover r.blocks, box.level = z ∧ box.contains2 x y = true :=
  VtProofs.VersatilesRead.cover_contains v

/-- tar / directory: every tile the reader holds lies inside the advertised box of its level -/
theorem tardir_cover_contains (r : TarDir.Reader) (t : (Nat × Nat × Nat) × Bytes) (ht : t ∈ r.tiles)
    (hz : t.1.2.2 ≤ 31) : ∃ box ∈ TarDir.cover r, box.level = t.1.2.2 ∧ box.contains2 t.1.1 t.1.2.1 = true :=
  VtProofs.TarRead.cover_contains r t ht hz

/-- PMTiles: the coverage walk over all runs and leaf directories yields level boxes that contain every
    tile of a valid file -/
theorem pmtiles_cover_contains {K : Inflate} {file : Bytes} {fmt : TileFormat} {comp : TComp}
    {m : Nat × Nat × Nat → Option Bytes} (v : VtProofs.PMTilesRead.ValidPMTiles K file fmt comp m) :
    ∃ r, PMTiles.openReader K file = .ok r ∧
      ∀ x y z blob, z ≤ 31 → x < 2 ^ z → y < 2 ^ z → m (x, y, z) = some blob →
        ∃ box ∈ r.cover, box.level = z ∧ box.contains2 x y = true :=
  VtProofs.PMTilesCover.cover_contains v

/-- mbtiles: the reader's "estimate the row range on three columns, then refine" queries return the EXACT
    column and row range of every level that has rows (bounds that are attained) -/
theorem mbtiles_level_range_exact (db : MBTiles.DB) (z : Nat) (hne : ∃ r ∈ db, r.z = z) :
    ∃ x0 y0 x1 y1, MBTiles.levelRange db z = some (x0, y0, x1, y1) ∧
      (∀ r ∈ db, r.z = z → x0 ≤ r.col ∧ r.col ≤ x1 ∧ y0 ≤ r.row ∧ r.row ≤ y1) ∧
      (∃ r ∈ db, r.z = z ∧ r.col = x0) ∧ (∃ r ∈ db, r.z = z ∧ r.col = x1) ∧
      (∃ r ∈ db, r.z = z ∧ r.row = y0) ∧ (∃ r ∈ db, r.z = z ∧ r.row = y1) :=
  VtProofs.MBTilesCover.levelRange_exact db z hne

/-- mbtiles: every stored tile lies inside the advertised (y-flipped) box of its level -/
theorem mbtiles_cover_contains (f : Option String) (db : MBTiles.DB) (r : MBTiles.Reader)
    (h : MBTiles.openReader f db = .ok r) (row : MBTiles.Row) (hrow : row ∈ db)
    (hc : row.col < 2 ^ row.z) (hr : row.row < 2 ^ row.z) :
    ∃ box ∈ r.cover, box.level = row.z ∧ box.contains2 row.col (2 ^ row.z - 1 - row.row) = true :=
  VtProofs.MBTilesCover.cover_contains f db r h row hrow hc hr

/-! ## non-vacuity -/

example : (Hilbert.coordToTileIdLoop 5 3 3).bind Hilbert.tileIdToCoordLoop = .ok (5, 3, 3) :=
  hilbert_inverse (by decide) (by decide) (by decide)

example : PMTiles.findTile [⟨1, 100, 100, 0⟩, ⟨5, 200, 100, 3⟩, ⟨9, 300, 100, 1⟩] 7 = .ok (some ⟨5, 200, 100, 3⟩) := by
  decide

example : PMTiles.findTile [⟨1, 100, 100, 1⟩, ⟨5, 200, 100, 3⟩, ⟨9, 300, 100, 1⟩] 8 = .ok none := by
  decide

end VtProps.C16
