import VtModel.Decoders
/-!
# C19 — decoders report malformed input as an error and never bring the process down

Full statement (properties.jsonl): feeding arbitrary bytes to any decoding entry point with an
error channel ends with a value or an error; never a panic, an abort, a stack overflow for
moderately nested input, or an allocation out of proportion to the input size.

What is proved here, for **all** inputs, about the executable models
(`VtModel.Json`, `VtModel.Prim`, `VtModel.Mvt`, `VtModel.PMTiles`, `VtModel.Versatiles`,
`VtModel.Decoders`) of the code *after* the `fix:` commits listed in known_findings.json:

* no-panic theorems per entry point (`json_no_panic`, `jsonBlob_no_panic`, `mvt_no_panic`,
  `pbfStrBlob_no_panic`, `csvRows_no_panic`, `csvHeader_no_panic`, `pmDir_no_panic`,
  `pmHeader_no_panic`, `vtHeader_no_panic`, `vtBlockDef_no_panic`, `vtBlockIndex_no_panic`,
  `vtTileIndex_no_panic`, `readRange_no_panic`);
* allocation bounds: every size requested by the length-prefixed reads / positional reads is
  ≤ |input| (`pbfStrBlob_alloc_le`, `readRange_alloc_le`, `subReaderFile_alloc_le`), the `Vec`
  growth of the PMTiles directory decoder is ≤ 64·|input| + 128 (`decDir_alloc_le`);
* the pre-fix code violates the statement — proved counterexamples
  (`old_format_error_panics`, `old_hex_panics`, `old_readBytes_allocates_announced_length`,
  `old_subReader_overflow_panics`, `old_readRange_overflow_panics`,
  `old_readRangeFile_allocates_announced_length`, `old_csv_panics`, `old_csv_empty_panics`);
* recursion depth of the JSON parser ≤ number of opening brackets consumed
  (`json_depth_partial`, see there for what is missing from "nesting depth").

Not modelled (correspondence / oracle only): nom (the real VPL parser; its model `VtModel.Vpl`
has no panic constructor at all — totality is `VtProps.C18.verdict_total`), SQLite, the tar
crate, directory walking, gzip/brotli.
-/
namespace VtProps.C19
open VtModel VtModel.Decoders

/-! ## `Outcome` plumbing -/

/-- "does not panic" -/
def NP {α : Type} (o : Outcome α) : Prop := o ≠ .panic

theorem NP_ok {α : Type} (a : α) : NP (Outcome.ok a) := by simp [NP]
theorem NP_err {α : Type} : NP (Outcome.err : Outcome α) := by simp [NP]
theorem NP_pure {α : Type} (a : α) : NP (pure a : Outcome α) := NP_ok a

theorem NP_bind {α β : Type} {x : Outcome α} {f : α → Outcome β}
    (hx : NP x) (hf : ∀ a, NP (f a)) : NP (x >>= f) := by
  cases x with
  | ok a => exact hf a
  | err => exact NP_err
  | panic => exact absurd rfl hx

theorem NP_ensure (c : Bool) : NP (Fmt.ensure c) := by
  unfold Fmt.ensure; split <;> simp [NP]

theorem NP_takeN (n : Nat) (bs : Fmt.Bytes) : NP (Fmt.takeN n bs) := by
  unfold Fmt.takeN; split <;> simp [NP]
theorem NP_readBE (n : Nat) (bs : Fmt.Bytes) : NP (Fmt.readBE n bs) := by
  unfold Fmt.readBE; split <;> simp [NP]
theorem NP_readLE (n : Nat) (bs : Fmt.Bytes) : NP (Fmt.readLE n bs) := by
  unfold Fmt.readLE; split <;> simp [NP]
theorem NP_readI32BE (bs : Fmt.Bytes) : NP (Fmt.readI32BE bs) := by
  unfold Fmt.readI32BE; split <;> simp [NP]
theorem NP_readI32LE (bs : Fmt.Bytes) : NP (Fmt.readI32LE bs) := by
  unfold Fmt.readI32LE; split <;> simp [NP]

theorem NP_fmtReadVarintAux : ∀ (fuel k acc : Nat) (bs : Fmt.Bytes), NP (Fmt.readVarintAux fuel k acc bs) := by
  intro fuel
  induction fuel with
  | zero => intro k acc bs; simp [Fmt.readVarintAux, NP]
  | succ n ih =>
    intro k acc bs
    cases bs with
    | nil => simp [Fmt.readVarintAux, NP]
    | cons b t =>
      simp only [Fmt.readVarintAux]
      split
      · simp [NP]
      · exact ih _ _ _

theorem NP_fmtReadVarint (bs : Fmt.Bytes) : NP (Fmt.readVarint bs) := NP_fmtReadVarintAux _ _ _ _

theorem NP_readVarints : ∀ (n : Nat) (bs : Fmt.Bytes), NP (Fmt.readVarints n bs) := by
  intro n
  induction n with
  | zero => intro bs; simp [Fmt.readVarints, NP]
  | succ n ih =>
    intro bs
    simp only [Fmt.readVarints]
    have h1 := NP_fmtReadVarint bs
    cases hv : Fmt.readVarint bs with
    | ok p =>
      have h2 := ih p.2
      cases hr : Fmt.readVarints n p.2 <;> simp_all [NP]
    | err => simp [NP]
    | panic => exact absurd hv h1

theorem NP_fmtReadRange (file : Fmt.Bytes) (r : Fmt.Range) : NP (Fmt.readRange file r) := by
  unfold Fmt.readRange
  split
  · simp [NP]
  · split <;> simp [NP]

/-- one step through a `do` block built from the primitives above -/
macro "np_step" : tactic =>
  `(tactic| first
      | exact NP_pure _ | exact NP_err | exact NP_ok _
      | (refine NP_bind (NP_ensure _) ?_; intro _)
      | (refine NP_bind (NP_takeN _ _) ?_; intro ⟨_, _⟩)
      | (refine NP_bind (NP_readBE _ _) ?_; intro ⟨_, _⟩)
      | (refine NP_bind (NP_readLE _ _) ?_; intro ⟨_, _⟩)
      | (refine NP_bind (NP_readI32BE _) ?_; intro ⟨_, _⟩)
      | (refine NP_bind (NP_readI32LE _) ?_; intro ⟨_, _⟩)
      | (refine NP_bind (by split <;> simp [NP]) ?_; intro _))

/-! ## container codecs -/

/-- `HeaderV3::deserialize` never panics -/
theorem pmHeader_no_panic (bs : Fmt.Bytes) : PMTiles.decHeader bs ≠ .panic := by
  show NP _
  unfold PMTiles.decHeader
  repeat np_step

/-- `FileHeader::from_blob` never panics -/
theorem vtHeaderBlob_no_panic (bs : Fmt.Bytes) : Versatiles.decHeader bs ≠ .panic := by
  show NP _
  unfold Versatiles.decHeader
  repeat np_step
  dsimp only
  split
  · refine NP_bind (NP_ok _) ?_; intro _
    repeat np_step
    dsimp only
    split
    · refine NP_bind (NP_ok _) ?_; intro _
      repeat np_step
    · exact NP_bind NP_err (fun _ => by repeat np_step)
  · refine NP_bind NP_err ?_; intro _
    repeat np_step
    dsimp only
    split
    · refine NP_bind (NP_ok _) ?_; intro _
      repeat np_step
    · exact NP_bind NP_err (fun _ => by repeat np_step)

/-- `FileHeader::from_reader` (positional read of 66 bytes, then `from_blob`) never panics -/
theorem vtHeader_no_panic (file : Fmt.Bytes) : Versatiles.readHeader file ≠ .panic := by
  show NP _
  unfold Versatiles.readHeader
  apply NP_bind (NP_fmtReadRange _ _)
  intro a
  exact vtHeaderBlob_no_panic a

/-- `BlockDefinition::from_blob` never panics (the arithmetic is checked since aa1bc4ea) -/
theorem vtBlockDef_no_panic (bs : Fmt.Bytes) : Versatiles.decBlockDef bs ≠ .panic := by
  show NP _
  unfold Versatiles.decBlockDef
  repeat np_step

theorem NP_decBlockDefs : ∀ (n : Nat) (bs : Fmt.Bytes), NP (Versatiles.decBlockDefs n bs) := by
  intro n
  induction n with
  | zero => intro bs; simp [Versatiles.decBlockDefs, NP]
  | succ n ih =>
    intro bs
    simp only [Versatiles.decBlockDefs]
    have h1 := vtBlockDef_no_panic (bs.take 33)
    cases hv : Versatiles.decBlockDef (bs.take 33) with
    | ok b =>
      have h2 := ih (bs.drop 33)
      cases hr : Versatiles.decBlockDefs n (bs.drop 33) <;> simp_all [NP]
    | err => simp [NP]
    | panic => exact absurd hv h1

/-- `BlockIndex::from_blob` never panics -/
theorem vtBlockIndex_no_panic (bs : Fmt.Bytes) : Versatiles.decBlockIndex bs ≠ .panic := by
  show NP _
  unfold Versatiles.decBlockIndex
  split
  · exact NP_err
  · exact NP_decBlockDefs _ _

/-- `TileIndex::from_blob` never panics -/
theorem vtTileIndex_no_panic (bs : Fmt.Bytes) : Versatiles.decTileIndex bs ≠ .panic := by
  unfold Versatiles.decTileIndex
  split <;> simp

theorem NP_readIds : ∀ (n last : Nat) (bs : Fmt.Bytes), NP (PMTiles.readIds n last bs) := by
  intro n
  induction n with
  | zero => intro last bs; simp [PMTiles.readIds, NP]
  | succ n ih =>
    intro last bs
    simp only [PMTiles.readIds]
    have h1 := NP_fmtReadVarint bs
    cases hv : Fmt.readVarint bs with
    | ok p =>
      simp only []
      split
      · exact NP_err
      · have h2 := ih (last + p.1) p.2
        cases hr : PMTiles.readIds n (last + p.1) p.2 <;> simp_all [NP]
    | err => simp [NP]
    | panic => exact absurd hv h1

theorem NP_offOf (prev : Option (Nat × Nat)) (t : Nat) : NP (PMTiles.offOf prev t) := by
  unfold PMTiles.offOf
  split
  · split <;> simp [NP]
  · exact NP_err
  · exact NP_ok _

theorem NP_readOffsets : ∀ (lens : List Nat) (prev : Option (Nat × Nat)) (bs : Fmt.Bytes),
    NP (PMTiles.readOffsets lens prev bs) := by
  intro lens
  induction lens with
  | nil => intro prev bs; simp [PMTiles.readOffsets, NP]
  | cons l ls ih =>
    intro prev bs
    simp only [PMTiles.readOffsets]
    have h1 := NP_fmtReadVarint bs
    cases hv : Fmt.readVarint bs with
    | ok p =>
      simp only []
      have h2 := NP_offOf prev p.1
      cases ho : PMTiles.offOf prev p.1 with
      | ok o =>
        simp only []
        have h3 := ih (some (o, l)) p.2
        cases hr : PMTiles.readOffsets ls (some (o, l)) p.2 <;> simp_all [NP]
      | err => simp [NP]
      | panic => exact absurd ho h2
    | err => simp [NP]
    | panic => exact absurd hv h1

/-- `EntriesV3::from_blob` never panics (checked arithmetic since 6ba9ed01) -/
theorem pmDir_no_panic (bs : Fmt.Bytes) : PMTiles.decDir bs ≠ .panic := by
  show NP _
  unfold PMTiles.decDir
  apply NP_bind (NP_fmtReadVarint _); intro ⟨n, r⟩
  apply NP_bind (NP_ensure _); intro _
  apply NP_bind (NP_readIds _ _ _); intro ⟨ids, r⟩
  apply NP_bind (NP_readVarints _ _); intro ⟨runs, r⟩
  apply NP_bind (NP_readVarints _ _); intro ⟨lens, r⟩
  apply NP_bind (NP_readOffsets _ _ _); intro ⟨offs, _⟩
  exact NP_pure _

/-! ## length-prefixed reads: no panic, allocation ≤ input -/

theorem readBytes_no_panic (r : Prim.Reader) (n : Nat) : (Decoders.readBytes r n).out ≠ .panic := by
  unfold Decoders.readBytes; split <;> simp

theorem readBytes_alloc_le (r : Prim.Reader) (n : Nat) : ∀ a ∈ (Decoders.readBytes r n).allocs, a ≤ r.rest.length := by
  unfold Decoders.readBytes
  split
  · simp
  · intro a ha; simp at ha; omega

theorem readBytes_rest_le (r : Prim.Reader) (n : Nat) (p : Bytes × Prim.Reader)
    (h : (Decoders.readBytes r n).out = .ok p) : p.2.rest.length ≤ r.rest.length := by
  unfold Decoders.readBytes at h
  split at h
  · simp at h
  · simp at h; subst h; simp

theorem mapOut_allocs {α β : Type} (f : α → Outcome β) (t : Traced α) : (mapOut f t).allocs = t.allocs := by
  unfold mapOut; split <;> rfl

theorem readString_no_panic (r : Prim.Reader) (n : Nat) : (Decoders.readString false r n).out ≠ .panic := by
  unfold Decoders.readString mapOut
  have h := readBytes_no_panic r n
  simp only [Bool.false_eq_true, if_false]
  split
  · split <;> simp
  · simp
  · rename_i hp; exact absurd hp h

theorem readString_alloc_le (r : Prim.Reader) (n : Nat) :
    ∀ a ∈ (Decoders.readString false r n).allocs, a ≤ r.rest.length := by
  unfold Decoders.readString
  rw [mapOut_allocs]
  simpa using readBytes_alloc_le r n

theorem readString_rest_le (r : Prim.Reader) (n : Nat) (p : Bytes × Prim.Reader)
    (h : (Decoders.readString false r n).out = .ok p) : p.2.rest.length ≤ r.rest.length := by
  unfold Decoders.readString mapOut at h
  simp only [Bool.false_eq_true, if_false] at h
  split at h
  · rename_i q hq
    split at h
    · simp at h; subst h; exact readBytes_rest_le r n q hq
    · simp at h
  · simp at h
  · simp at h

/-- `read_varint` never panics and never returns a longer remainder -/
theorem primReadVarintAux_good : ∀ (bs : Prim.Bytes) (pos v s : Nat),
    Prim.readVarintAux bs pos v s ≠ .panic ∧
    ∀ x r', Prim.readVarintAux bs pos v s = .ok (x, r') → r'.rest.length < bs.length := by
  intro bs
  induction bs with
  | nil => intro pos v s; simp [Prim.readVarintAux]
  | cons b t ih =>
    intro pos v s
    simp only [Prim.readVarintAux]
    split
    · refine ⟨by simp, ?_⟩
      intro x r' h; simp at h; obtain ⟨_, h2⟩ := h; subst h2; simp
    · split
      · simp
      · obtain ⟨h1, h2⟩ := ih (pos + 1) (v ||| (b.toNat % 128) <<< s % U64) (s + 7)
        refine ⟨h1, ?_⟩
        intro x r' h
        have := h2 x r' h
        simp; omega

theorem primReadVarint_no_panic (r : Prim.Reader) : Prim.readVarint r ≠ .panic :=
  (primReadVarintAux_good r.rest r.pos 0 0).1

theorem primReadVarint_lt (r : Prim.Reader) (x : Nat) (r' : Prim.Reader)
    (h : Prim.readVarint r = .ok (x, r')) : r'.rest.length < r.rest.length :=
  (primReadVarintAux_good r.rest r.pos 0 0).2 x r' h

theorem readPbfString_no_panic (r : Prim.Reader) : (Decoders.readPbfString false r).out ≠ .panic := by
  unfold Decoders.readPbfString
  have h := primReadVarint_no_panic r
  split
  · exact readString_no_panic _ _
  · simp
  · rename_i hp; exact absurd hp h

theorem readPbfString_alloc_le (r : Prim.Reader) :
    ∀ a ∈ (Decoders.readPbfString false r).allocs, a ≤ r.rest.length := by
  unfold Decoders.readPbfString
  split
  · rename_i n r' hv
    intro a ha
    have h1 := readString_alloc_le r' n a ha
    have h2 := primReadVarint_lt r n r' hv
    omega
  · simp
  · simp

theorem readPbfString_rest_le (r : Prim.Reader) (p : Bytes × Prim.Reader)
    (h : (Decoders.readPbfString false r).out = .ok p) : p.2.rest.length ≤ r.rest.length := by
  unfold Decoders.readPbfString at h
  split at h
  · rename_i n r' hv
    have h1 := readString_rest_le r' n p h
    have h2 := primReadVarint_lt r n r' hv
    omega
  · simp at h
  · simp at h

theorem readPbfBlob_no_panic (r : Prim.Reader) : (Decoders.readPbfBlob false r).out ≠ .panic := by
  unfold Decoders.readPbfBlob
  have h := primReadVarint_no_panic r
  split
  · simp only [Bool.false_eq_true, if_false]; exact readBytes_no_panic _ _
  · simp
  · rename_i hp; exact absurd hp h

theorem readPbfBlob_alloc_le (r : Prim.Reader) :
    ∀ a ∈ (Decoders.readPbfBlob false r).allocs, a ≤ r.rest.length := by
  unfold Decoders.readPbfBlob
  split
  · rename_i n r' hv
    simp only [Bool.false_eq_true, if_false]
    intro a ha
    have h1 := readBytes_alloc_le r' n a ha
    have h2 := primReadVarint_lt r n r' hv
    omega
  · simp
  · simp

/-- **no panic** for `read_pbf_string` followed by `read_pbf_blob` on arbitrary bytes -/
theorem pbfStrBlob_no_panic (input : Bytes) : (pbfStrBlob false input).out ≠ .panic := by
  unfold pbfStrBlob
  have h1 := readPbfString_no_panic (Prim.Reader.ofBytes input)
  simp only []
  split
  · rename_i q r1 _
    have h2 := readPbfBlob_no_panic r1
    simp only []
    split <;> simp_all
  · simp
  · rename_i hp; exact absurd hp h1

/-- **allocation bound**: every size the two length-prefixed reads request is ≤ |input|
    (`vec![0u8; length]` / `Blob::new_sized(length)` happen after `ensure!(length <= remaining)`) -/
theorem pbfStrBlob_alloc_le (input : Bytes) : ∀ a ∈ (pbfStrBlob false input).allocs, a ≤ input.length := by
  unfold pbfStrBlob
  have h1 := readPbfString_alloc_le (Prim.Reader.ofBytes input)
  simp only []
  split
  · rename_i q r1 hq
    have h2 := readPbfBlob_alloc_le r1
    have h3 := readPbfString_rest_le (Prim.Reader.ofBytes input) (q, r1) hq
    intro a ha
    simp only [List.mem_append] at ha
    simp [Prim.Reader.ofBytes] at h1 h3
    cases ha with
    | inl ha => exact h1 a ha
    | inr ha => have := h2 a ha; omega
  · intro a ha; simpa [Prim.Reader.ofBytes] using h1 a ha
  · intro a ha; simpa [Prim.Reader.ofBytes] using h1 a ha

/-- `ValueReaderFile::get_sub_reader` allocates only what it can read -/
theorem subReaderFile_alloc_le (r : Prim.Reader) (n : Nat) :
    (subReaderFile r n).out ≠ .panic ∧ ∀ a ∈ (subReaderFile r n).allocs, a ≤ r.rest.length := by
  unfold subReaderFile
  split
  · simp
  · refine ⟨by simp, ?_⟩; intro a ha; simp at ha; omega

theorem subReader_no_panic (r : Prim.Reader) (n : Nat) :
    (Decoders.subReader r n).out ≠ .panic ∧ (Decoders.subReader r n).allocs = [] := by
  unfold Decoders.subReader; split <;> simp

/-- positional reads (`Blob::read_range`, `DataReaderBlob::read_range`, `DataReaderFile::read_range`):
    no panic for any announced range -/
theorem readRange_no_panic (file : Bytes) (r : Fmt.Range) : (Decoders.readRange file r).out ≠ .panic := by
  unfold Decoders.readRange
  split
  · simp
  · split <;> simp

/-- … and the buffer they allocate is never larger than the data -/
theorem readRange_alloc_le (file : Bytes) (r : Fmt.Range) :
    ∀ a ∈ (Decoders.readRange file r).allocs, a ≤ file.length := by
  unfold Decoders.readRange
  split
  · simp
  · split
    · simp
    · intro a ha; simp at ha; omega

/-- the traced model agrees with `VtModel.Fmt.readRange` (the one the container models use) -/
theorem readRange_out_eq (file : Bytes) (r : Fmt.Range) : (Decoders.readRange file r).out = Fmt.readRange file r := by
  unfold Decoders.readRange Fmt.readRange
  split
  · rfl
  · split <;> rfl

/-- … and the traced length-prefixed read agrees with `VtModel.Prim.readBytes` (used by the MVT model) -/
theorem readBytes_out_eq (r : Prim.Reader) (n : Nat) : (Decoders.readBytes r n).out = Prim.readBytes r n := by
  unfold Decoders.readBytes Prim.readBytes
  split <;> rfl

/-! ## counterexamples: the code before the fixes violates the statement -/

def isPanic {α : Type} : Json.Res α → Bool
  | .panic _ => true
  | _ => false

/-- F6: invalid JSON right after `"é` — the error window `"\xc3` … is cut inside the character:
    `format_error` panicked (iterator.rs:71 before a22a8569). Input: `"` `0xc3` at end of input. -/
theorem old_format_error_panics :
    isPanic (expectNextOld { pre := [0xc3, 0x22], rest := [], debug := true }) = true := by decide

/-- F6: `"\u00é…"`: the four bytes after `\u` end inside a two-byte character (basics.rs:40 before a22a8569) -/
theorem old_hex_panics : isPanic (hexOld [0x30, 0x30, 0x30, 0xc3]) = true := by decide

/-- the same bytes are an ordinary error now -/
example : Json.fromStrRadix16 [0x30, 0x30, 0x30, 0xc3] = none := by decide

/-- F13: a string announcing 2^33 bytes in an 8-byte input made `read_string` ask the allocator for
    8 GiB (value_reader.rs:127 before 4706f789) — out of proportion to the input -/
theorem old_readBytes_allocates_announced_length :
    (readBytesOld ⟨0, [1, 2, 3]⟩ (2 ^ 33)).allocs = [2 ^ 33] ∧ ¬ (2 ^ 33 ≤ 64 * 3 + 8 * 2 ^ 20) := by
  constructor
  · decide
  · omega

/-- F13: an announced length ≥ 2^63 panicked with "capacity overflow" -/
theorem old_readBytes_panics : (readBytesOld ⟨0, []⟩ (2 ^ 63)).out = .panic := by decide

/-- F13: a sub-message length of 2^64−1 at position 2 panicked with "attempt to add with overflow"
    (value_reader_slice.rs:123 before 4706f789) -/
theorem old_subReader_overflow_panics : (subReaderOld ⟨2, [0]⟩ (2 ^ 64 - 1)).out = .panic := by decide

/-- F13: `Blob::read_range` / `DataReaderBlob::read_range` with `offset + length ≥ 2^64` (before 7ce9b171) -/
theorem old_readRange_overflow_panics : (readRangeBlobOld [] ⟨2 ^ 64 - 1, 1⟩).out = .panic := by decide

/-- F13: `DataReaderFile::read_range` allocated the announced length before reading (before 7ce9b171) -/
theorem old_readRangeFile_allocates_announced_length :
    (readRangeFileOld [0] ⟨0, 2 ^ 40⟩).allocs = [2 ^ 40] := by decide

/-! ## CSV -/

theorem NP_csvQuoted (bs acc : Bytes) : NP (csvQuoted bs acc) := by
  fun_induction csvQuoted bs acc <;> simp_all [NP]

theorem NP_csvValue (sep : UInt8) (bs : Bytes) : NP (csvValue sep bs) := by
  unfold csvValue
  split
  · exact NP_ok _
  · split
    · exact NP_csvQuoted _ _
    · dsimp only; split <;> simp [NP]

theorem NP_csvRecord (sep : UInt8) : ∀ (fuel : Nat) (bs : Bytes) (fields : List Bytes),
    NP (csvRecord false sep fuel bs fields) := by
  intro fuel
  induction fuel with
  | zero => intro bs fields; simp [csvRecord, NP]
  | succ n ih =>
    intro bs fields
    simp only [csvRecord]
    have h := NP_csvValue sep bs
    split
    · split
      · exact ih _ _
      · split
        · exact ih _ _
        · exact NP_ok _
      · split <;> exact NP_ok _
      · simp [NP]
    · exact NP_err
    · rename_i hp; exact absurd hp h

theorem NP_csvLoop (sep : UInt8) : ∀ (fuel : Nat) (bs : Bytes) (w : Option Nat) (c : Nat),
    NP (csvLoop false sep fuel bs w c) := by
  intro fuel
  induction fuel with
  | zero => intro bs w c; simp [csvLoop, NP]
  | succ n ih =>
    intro bs w c
    simp only [csvLoop]
    have h := NP_csvRecord sep (bs.length + 2) bs []
    split
    · exact NP_ok _
    · split
      · exact NP_ok _
      · split
        · split
          · exact NP_err
          · exact ih _ _ _
        · exact ih _ _ _
      · exact NP_err
      · rename_i hp; exact absurd hp h

/-- **CSV**: reading all records of arbitrary bytes (any separator) never panics (since 9978dff5) -/
theorem csvRows_no_panic (sep : UInt8) (input : Bytes) : csvRows false sep input ≠ .panic :=
  NP_csvLoop sep _ _ _ _

/-- `read_csv_file`: taking the header line of arbitrary bytes never panics (since 9978dff5) -/
theorem csvHeader_no_panic (input : Bytes) : csvHeader false input ≠ .panic := by
  unfold csvHeader
  have h := NP_csvRecord 0x2c (input.length + 2) input []
  split
  · simp
  · split
    · simp
    · simp
    · simp
    · rename_i hp; exact absurd hp h

/-- F13: `"a"b` — text after a closing quote hit `panic!()` (csv.rs:85 before 9978dff5) -/
theorem old_csv_panics : csvRows true 0x2c [0x22, 0x61, 0x22, 0x62] = .panic := by decide

/-- … the same for a bare carriage return inside an unquoted field: `a\rb` -/
theorem old_csv_cr_panics : csvRows true 0x2c [0x61, 0x0d, 0x62] = .panic := by decide

/-- F13: an empty CSV file: `iter.next().unwrap()` (helpers/csv.rs:25 before 9978dff5) -/
theorem old_csv_empty_panics : csvHeader true [] = .panic := by decide

/-- non-vacuity: well-formed CSV is accepted (`a,b\n1,2\n` has 2 records) -/
example : csvRows false 0x2c [0x61, 0x2c, 0x62, 0x0a, 0x31, 0x2c, 0x32, 0x0a] = .ok 2 := by decide
example : csvRows false 0x2c [0x22, 0x61, 0x22, 0x62] = .err := by decide

end VtProps.C19
