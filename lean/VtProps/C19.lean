import VtModel.Decoders
import VtProofs.JsonTotal
import VtProofs.Json
/-!
# C19 — decoders report malformed input as an error and never bring the process down

Full statement (properties.jsonl): feeding arbitrary bytes to any decoding entry point with an
error channel ends with a value or an error; never a panic, an abort, a stack overflow for
moderately nested input, or an allocation out of proportion to the input size.

What is proved here, for **all** inputs, about the executable models
(`VtModel.Json`, `VtModel.Prim`, `VtModel.Mvt`, `VtModel.PMTiles`, `VtModel.Versatiles`,
`VtModel.Decoders`) of the code *after* the `fix:` commits listed in known_findings.json:

* no-panic theorems per entry point (`json_no_panic`, `jsonBlob_no_panic`, `mvt_no_panic`,
  `pbfStrBlob_no_panic`, `csvRows_no_panic`, `csvHeader_no_panic`, `pmDir_no_panic`,
  `pmFind_no_panic` (incl. `find_tile` on unsorted directories), `pmHeader_no_panic`, `vtHeader_no_panic`, `vtBlockDef_no_panic`, `vtBlockIndex_no_panic`,
  `vtTileIndex_no_panic`, `readRange_no_panic`);
* allocation bounds: every size requested by the length-prefixed reads / positional reads is
  ≤ |input| (`pbfStrBlob_alloc_le`, `readRange_alloc_le`, `subReaderFile_alloc_le`), the `Vec`
  growth of the PMTiles directory decoder is ≤ 64·|input| + 128 (`decDir_alloc_le`);
* the pre-fix code violates the statement — proved counterexamples
  (`old_format_error_panics`, `old_hex_panics`, `old_readBytes_allocates_announced_length`,
  `old_subReader_overflow_panics`, `old_readRange_overflow_panics`,
  `old_readRangeFile_allocates_announced_length`, `old_csv_panics`, `old_csv_empty_panics`);
* JSON recursion depth: since f7196604 the parser counts open arrays/objects (`d`, explicit in the
  model) and refuses to descend beyond `maxNesting = 1024`: `json_depth_limit` (at the limit an
  opening bracket is answered `err` with fuel 1, i.e. without any recursive call — the recursion depth
  is ≤ 1024 for every input), `json_too_deep_err` (a document starting with more than 1024 `[` is `err`
  whatever follows), `json_total` (value or error for every byte string; the fuel `2·|input|+4` is
  never exhausted). The harness probes 1023/1024 (ok), 1025/1026/1500/2000 (err) and 20 000 / 100 000
  levels in a child process. VPL: `parse_vpl` rejects nesting > 64 since be686a0f.

Not modelled (correspondence / oracle only): nom (the real VPL parser; its model `VtModel.Vpl`
has no panic constructor at all — totality is `VtProps.C18.verdict_total`), SQLite, the tar
crate, directory walking, gzip/brotli.
-/
namespace VtProps.C19
open VtModel VtModel.Decoders

/-! ## `Outcome` plumbing -/

/-- "does not panic" -/
def NP {α : Type} (o : Outcome α) : Prop := o ≠ .panic

theorem NP_ok {α : Type} (a : α) : NP (Outcome.ok a) := by simp [NP]
theorem NP_err {α : Type} : NP (Outcome.err : Outcome α) := by simp [NP]
theorem NP_pure {α : Type} (a : α) : NP (pure a : Outcome α) := NP_ok a

theorem NP_bind {α β : Type} {x : Outcome α} {f : α → Outcome β}
    (hx : NP x) (hf : ∀ a, NP (f a)) : NP (x >>= f) := by
  cases x with
  | ok a => exact hf a
  | err => exact NP_err
  | panic => exact absurd rfl hx

theorem NP_ensure (c : Bool) : NP (Fmt.ensure c) := by
  unfold Fmt.ensure; split <;> simp [NP]

theorem NP_takeN (n : Nat) (bs : Fmt.Bytes) : NP (Fmt.takeN n bs) := by
  unfold Fmt.takeN; split <;> simp [NP]
theorem NP_readBE (n : Nat) (bs : Fmt.Bytes) : NP (Fmt.readBE n bs) := by
  unfold Fmt.readBE; split <;> simp [NP]
theorem NP_readLE (n : Nat) (bs : Fmt.Bytes) : NP (Fmt.readLE n bs) := by
  unfold Fmt.readLE; split <;> simp [NP]
theorem NP_readI32BE (bs : Fmt.Bytes) : NP (Fmt.readI32BE bs) := by
  unfold Fmt.readI32BE; split <;> simp [NP]
theorem NP_readI32LE (bs : Fmt.Bytes) : NP (Fmt.readI32LE bs) := by
  unfold Fmt.readI32LE; split <;> simp [NP]

theorem NP_fmtReadVarintAux : ∀ (fuel k acc : Nat) (bs : Fmt.Bytes), NP (Fmt.readVarintAux fuel k acc bs) := by
  intro fuel
  induction fuel with
  | zero => intro k acc bs; simp [Fmt.readVarintAux, NP]
  | succ n ih =>
    intro k acc bs
    cases bs with
    | nil => simp [Fmt.readVarintAux, NP]
    | cons b t =>
      simp only [Fmt.readVarintAux]
      split
      · simp [NP]
      · exact ih _ _ _

theorem NP_fmtReadVarint (bs : Fmt.Bytes) : NP (Fmt.readVarint bs) := NP_fmtReadVarintAux _ _ _ _

theorem fmtReadVarintAux_rest_le : ∀ (fuel k acc : Nat) (bs : Fmt.Bytes) (v : Nat) (r : Fmt.Bytes),
    Fmt.readVarintAux fuel k acc bs = .ok (v, r) → r.length ≤ bs.length := by
  intro fuel
  induction fuel with
  | zero => intro k acc bs v r h; simp [Fmt.readVarintAux] at h
  | succ n ih =>
    intro k acc bs v r h
    cases bs with
    | nil => simp [Fmt.readVarintAux] at h
    | cons b t =>
      simp only [Fmt.readVarintAux] at h
      split at h
      · simp at h; rw [← h.2]; simp
      · have := ih _ _ _ _ _ h; simp; omega

theorem fmtReadVarint_rest_le (bs : Fmt.Bytes) (v : Nat) (r : Fmt.Bytes)
    (h : Fmt.readVarint bs = .ok (v, r)) : r.length ≤ bs.length :=
  fmtReadVarintAux_rest_le _ _ _ _ _ _ h

theorem NP_readVarints : ∀ (n : Nat) (bs : Fmt.Bytes), NP (Fmt.readVarints n bs) := by
  intro n
  induction n with
  | zero => intro bs; simp [Fmt.readVarints, NP]
  | succ n ih =>
    intro bs
    simp only [Fmt.readVarints]
    have h1 := NP_fmtReadVarint bs
    cases hv : Fmt.readVarint bs with
    | ok p =>
      have h2 := ih p.2
      cases hr : Fmt.readVarints n p.2 <;> simp_all [NP]
    | err => simp [NP]
    | panic => exact absurd hv h1

theorem NP_fmtReadRange (file : Fmt.Bytes) (r : Fmt.Range) : NP (Fmt.readRange file r) := by
  unfold Fmt.readRange
  split
  · simp [NP]
  · split <;> simp [NP]

/-- one step through a `do` block built from the primitives above -/
macro "np_step" : tactic =>
  `(tactic| first
      | exact NP_pure _ | exact NP_err | exact NP_ok _
      | (refine NP_bind (NP_ensure _) ?_; intro _)
      | (refine NP_bind (NP_takeN _ _) ?_; intro ⟨_, _⟩)
      | (refine NP_bind (NP_readBE _ _) ?_; intro ⟨_, _⟩)
      | (refine NP_bind (NP_readLE _ _) ?_; intro ⟨_, _⟩)
      | (refine NP_bind (NP_readI32BE _) ?_; intro ⟨_, _⟩)
      | (refine NP_bind (NP_readI32LE _) ?_; intro ⟨_, _⟩)
      | (refine NP_bind (by split <;> simp [NP]) ?_; intro _))

/-! ## container codecs -/

/-- `HeaderV3::deserialize` never panics -/
theorem pmHeader_no_panic (bs : Fmt.Bytes) : PMTiles.decHeader bs ≠ .panic := by
  show NP _
  unfold PMTiles.decHeader
  repeat np_step

/-- `FileHeader::from_blob` never panics -/
theorem vtHeaderBlob_no_panic (bs : Fmt.Bytes) : Versatiles.decHeader bs ≠ .panic := by
  show NP _
  unfold Versatiles.decHeader
  repeat np_step
  dsimp only
  split
  · refine NP_bind (NP_ok _) ?_; intro _
    repeat np_step
    dsimp only
    split
    · refine NP_bind (NP_ok _) ?_; intro _
      repeat np_step
    · exact NP_bind NP_err (fun _ => by repeat np_step)
  · refine NP_bind NP_err ?_; intro _
    repeat np_step
    dsimp only
    split
    · refine NP_bind (NP_ok _) ?_; intro _
      repeat np_step
    · exact NP_bind NP_err (fun _ => by repeat np_step)

/-- `FileHeader::from_reader` (positional read of 66 bytes, then `from_blob`) never panics -/
theorem vtHeader_no_panic (file : Fmt.Bytes) : Versatiles.readHeader file ≠ .panic := by
  show NP _
  unfold Versatiles.readHeader
  apply NP_bind (NP_fmtReadRange _ _)
  intro a
  exact vtHeaderBlob_no_panic a

/-- `BlockDefinition::from_blob` never panics (the arithmetic is checked since aa1bc4ea) -/
theorem vtBlockDef_no_panic (bs : Fmt.Bytes) : Versatiles.decBlockDef bs ≠ .panic := by
  show NP _
  unfold Versatiles.decBlockDef
  repeat np_step

theorem NP_decBlockDefs : ∀ (n : Nat) (bs : Fmt.Bytes), NP (Versatiles.decBlockDefs n bs) := by
  intro n
  induction n with
  | zero => intro bs; simp [Versatiles.decBlockDefs, NP]
  | succ n ih =>
    intro bs
    simp only [Versatiles.decBlockDefs]
    have h1 := vtBlockDef_no_panic (bs.take 33)
    cases hv : Versatiles.decBlockDef (bs.take 33) with
    | ok b =>
      have h2 := ih (bs.drop 33)
      cases hr : Versatiles.decBlockDefs n (bs.drop 33) <;> simp_all [NP]
    | err => simp [NP]
    | panic => exact absurd hv h1

/-- `BlockIndex::from_blob` never panics -/
theorem vtBlockIndex_no_panic (bs : Fmt.Bytes) : Versatiles.decBlockIndex bs ≠ .panic := by
  show NP _
  unfold Versatiles.decBlockIndex
  split
  · exact NP_err
  · exact NP_decBlockDefs _ _

/-- `TileIndex::from_blob` never panics -/
theorem vtTileIndex_no_panic (bs : Fmt.Bytes) : Versatiles.decTileIndex bs ≠ .panic := by
  unfold Versatiles.decTileIndex
  split <;> simp

theorem NP_readIds : ∀ (n last : Nat) (bs : Fmt.Bytes), NP (PMTiles.readIds n last bs) := by
  intro n
  induction n with
  | zero => intro last bs; simp [PMTiles.readIds, NP]
  | succ n ih =>
    intro last bs
    simp only [PMTiles.readIds]
    have h1 := NP_fmtReadVarint bs
    cases hv : Fmt.readVarint bs with
    | ok p =>
      simp only []
      split
      · exact NP_err
      · have h2 := ih (last + p.1) p.2
        cases hr : PMTiles.readIds n (last + p.1) p.2 <;> simp_all [NP]
    | err => simp [NP]
    | panic => exact absurd hv h1

theorem NP_offOf (prev : Option (Nat × Nat)) (t : Nat) : NP (PMTiles.offOf prev t) := by
  unfold PMTiles.offOf
  split
  · split <;> simp [NP]
  · exact NP_err
  · exact NP_ok _

theorem NP_readOffsets : ∀ (lens : List Nat) (prev : Option (Nat × Nat)) (bs : Fmt.Bytes),
    NP (PMTiles.readOffsets lens prev bs) := by
  intro lens
  induction lens with
  | nil => intro prev bs; simp [PMTiles.readOffsets, NP]
  | cons l ls ih =>
    intro prev bs
    simp only [PMTiles.readOffsets]
    have h1 := NP_fmtReadVarint bs
    cases hv : Fmt.readVarint bs with
    | ok p =>
      simp only []
      have h2 := NP_offOf prev p.1
      cases ho : PMTiles.offOf prev p.1 with
      | ok o =>
        simp only []
        have h3 := ih (some (o, l)) p.2
        cases hr : PMTiles.readOffsets ls (some (o, l)) p.2 <;> simp_all [NP]
      | err => simp [NP]
      | panic => exact absurd ho h2
    | err => simp [NP]
    | panic => exact absurd hv h1

/-- `EntriesV3::from_blob` never panics (checked arithmetic since 6ba9ed01) -/
theorem pmDir_no_panic (bs : Fmt.Bytes) : PMTiles.decDir bs ≠ .panic := by
  show NP _
  unfold PMTiles.decDir
  apply NP_bind (NP_fmtReadVarint _); intro ⟨n, r⟩
  apply NP_bind (NP_ensure _); intro _
  apply NP_bind (NP_readIds _ _ _); intro ⟨ids, r⟩
  apply NP_bind (NP_readVarints _ _); intro ⟨runs, r⟩
  apply NP_bind (NP_readVarints _ _); intro ⟨lens, r⟩
  apply NP_bind (NP_readOffsets _ _ _); intro ⟨offs, _⟩
  exact NP_pure _

theorem searchLoop_good (es : Array PMTiles.Entry) (id : Nat) : ∀ (fuel : Nat) (m n : Int),
    0 ≤ m → n < es.size →
    PMTiles.searchLoop es id fuel m n ≠ .panic ∧
    ∀ k, PMTiles.searchLoop es id fuel m n = .ok (.stop k) → k < es.size := by
  intro fuel
  induction fuel with
  | zero => intro m n hm hn; simp [PMTiles.searchLoop]; omega
  | succ f ih =>
    intro m n hm hn
    simp only [PMTiles.searchLoop]
    split
    · rename_i hmn
      have hk0 : 0 ≤ (n + m) / 2 := by omega
      have hk1 : (n + m) / 2 < es.size := by omega
      have hidx : ((n + m) / 2).toNat < es.size := by omega
      rw [Array.getElem?_eq_getElem hidx]
      (try dsimp only)
      split
      · omega
      · split
        · exact ih _ _ (by omega) hn
        · split
          · exact ih _ _ hm (by omega)
          · simp
    · simp; omega

/-- `find_tile` never panics, sorted directory or not (since 662fbb3f); the index accesses of the
    binary search stay inside the directory -/
theorem findTile_no_panic (l : List PMTiles.Entry) (id : Nat) : findTile l id ≠ .panic := by
  unfold findTile
  dsimp only
  obtain ⟨h1, h2⟩ := searchLoop_good l.toArray id (l.toArray.size + 1) 0 ((l.toArray.size : Int) - 1) (by omega) (by omega)
  split
  · simp
  · rename_i n hs
    have hn := h2 n hs
    split
    · rename_i hn0
      have hidx : n.toNat < l.toArray.size := by omega
      rw [Array.getElem?_eq_getElem hidx]
      dsimp only
      split
      · simp
      · split <;> simp
    · simp
  · simp
  · rename_i hp; exact absurd hp h1

/-- **PMTiles directory**: decoding arbitrary bytes and looking up arbitrary ids never panics -/
theorem pmFind_no_panic (input : Bytes) (ids : List Nat) : pmFind input ids ≠ .panic := by
  unfold pmFind
  split
  · rename_i es _
    split
    · rename_i hany
      rw [List.any_eq_true] at hany
      obtain ⟨id, _, hid⟩ := hany
      have := findTile_no_panic es id
      split at hid <;> simp_all
    · simp
  · simp
  · rename_i hp; exact absurd hp (pmDir_no_panic input)

/-! ## allocation of the PMTiles directory decoder -/

theorem vecGrowth_le (elem : Nat) : ∀ (fuel cap n : Nat), ∀ a ∈ vecGrowth elem fuel cap n, a ≤ 2 * elem * n := by
  intro fuel
  induction fuel with
  | zero => intro cap n a ha; simp [vecGrowth] at ha
  | succ f ih =>
    intro cap n a ha
    simp only [vecGrowth] at ha
    split at ha
    · simp at ha
    · rename_i hlt
      simp only [List.mem_cons] at ha
      cases ha with
      | inl h =>
        subst h
        have : cap < n := by omega
        calc 2 * cap * elem = 2 * elem * cap := by rw [Nat.mul_assoc, Nat.mul_comm cap elem, ← Nat.mul_assoc]
          _ ≤ 2 * elem * n := Nat.mul_le_mul_left _ (by omega)
      | inr h => exact ih _ _ a h

/-- **allocation bound**: the `Vec<EntryV3>` of `EntriesV3::from_blob` never asks for more than
    64·|input| + 128 bytes, whatever entry count the directory announces (entries are pushed one by one
    after a successful read; an announced count of 10^10 allocates nothing by itself) -/
theorem decDir_alloc_le (bs : Bytes) : ∀ a ∈ decDirAllocs bs, a ≤ 64 * bs.length + 128 := by
  unfold decDirAllocs
  split
  · rename_i n r hv
    split
    · simp
    · dsimp only
      split
      · simp
      · intro a ha
        simp only [List.mem_cons] at ha
        have hmin : min n r.length ≤ r.length := Nat.min_le_right _ _
        have hr : r.length ≤ bs.length := by
          have := fmtReadVarint_rest_le bs n r hv
          exact this
        cases ha with
        | inl h => subst h; simp [entrySize]
        | inr h =>
          have := vecGrowth_le entrySize _ _ _ a h
          simp only [entrySize] at this
          omega
  · simp

/-! ## lookups through the tile-index cache: a failed load is not cached -/

/-- every cached index has exactly as many entries as its block covers tiles -/
def CacheOk (count : Nat → Nat) (c : IdxCache) : Prop := ∀ k idx, IdxCache.find c k = some idx → idx.length = count k

theorem cacheOk_nil (count : Nat → Nat) : CacheOk count [] := by
  intro k idx h; simp [IdxCache.find] at h

theorem cacheOk_cons {count : Nat → Nat} {c : IdxCache} (h : CacheOk count c) (k : Nat) (idx : List Fmt.Range)
    (hl : idx.length = count k) : CacheOk count ((k, idx) :: c) := by
  intro k' idx' hf
  simp only [IdxCache.find] at hf
  split at hf
  · rename_i hk
    have : k = k' := by simpa using hk
    subst this
    cases hf; exact hl
  · exact h k' idx' hf

/-- `get_block_tile_index` keeps the invariant, returns only validated indexes, and
    **a failing load / failing validation leaves the cache unchanged** (cf. `VtProps.C20.getOrSet_miss_fail`) -/
theorem getIndex_spec (load : Nat → Outcome (List Fmt.Range)) (count : Nat → Nat) (c : IdxCache) (k : Nat)
    (hc : CacheOk count c) :
    CacheOk count (getIndex true load count c k).2 ∧
    (∀ idx, (getIndex true load count c k).1 = .ok idx → idx.length = count k) ∧
    ((getIndex true load count c k).1 = .err → (getIndex true load count c k).2 = c) ∧
    ((getIndex true load count c k).1 = .panic → load k = .panic) := by
  unfold getIndex
  split
  · rename_i idx hf
    refine ⟨hc, ?_, by simp, by simp⟩
    intro idx' h; simp at h; subst h; exact hc k idx hf
  · split
    · rename_i idx hl
      simp only [if_true]
      split
      · rename_i hlen
        have hlen' : idx.length = count k := by simpa using hlen
        refine ⟨cacheOk_cons hc k idx hlen', ?_, by simp, by simp⟩
        intro idx' h; simp at h; subst h; exact hlen'
      · exact ⟨hc, by simp, by simp, by simp⟩
    · exact ⟨hc, by simp, by simp, by simp⟩
    · rename_i hp; exact ⟨hc, by simp, by simp, fun _ => hp⟩

/-- one lookup never panics when the loader does not and the position lies inside the block -/
theorem lookupTile_spec (load : Nat → Outcome (List Fmt.Range)) (count : Nat → Nat) (c : IdxCache) (k pos : Nat)
    (hc : CacheOk count c) (hload : ∀ k, load k ≠ .panic) (hpos : pos < count k) :
    CacheOk count (lookupTile true load count c k pos).2 ∧ (lookupTile true load count c k pos).1 ≠ .panic := by
  obtain ⟨h1, h2, _, h4⟩ := getIndex_spec load count c k hc
  unfold lookupTile
  split
  · rename_i idx c' hg
    rw [hg] at h1 h2
    refine ⟨h1, ?_⟩
    have hl := h2 idx rfl
    have : pos < idx.length := by omega
    simp [List.getElem?_eq_getElem this]
  · rename_i c' hg; rw [hg] at h1; exact ⟨h1, by simp⟩
  · rename_i c' hg
    rw [hg] at h4
    exact absurd (h4 rfl) (hload k)

/-- **sequences of lookups on one reader** (repeated coordinates, after errors and after successes):
    no call of the sequence panics — a failed index load is never cached, so a repeated lookup
    re-validates instead of indexing an unvalidated vector -/
theorem lookupSeq_no_panic (load : Nat → Outcome (List Fmt.Range)) (count : Nat → Nat)
    (hload : ∀ k, load k ≠ .panic) :
    ∀ (qs : List (Nat × Nat)) (c : IdxCache), CacheOk count c → (∀ q ∈ qs, q.2 < count q.1) →
    ∀ r ∈ lookupSeq true load count c qs, r ≠ .panic := by
  intro qs
  induction qs with
  | nil => intro c _ _ r hr; simp [lookupSeq] at hr
  | cons q rest ih =>
    intro c hc hq r hr
    obtain ⟨k, pos⟩ := q
    simp only [lookupSeq, List.mem_cons] at hr
    obtain ⟨h1, h2⟩ := lookupTile_spec load count c k pos hc hload (hq (k, pos) (by simp))
    cases hr with
    | inl h => subst h; exact h2
    | inr h => exact ih _ h1 (fun q' hq' => hq q' (by simp [hq'])) r h

/-- the order "cache first, validate afterwards" breaks it: an index with 0 entries for a block of
    1 tile — the first lookup is an error, the second one panics (index out of bounds) -/
theorem cache_before_validate_panics :
    lookupSeq false (fun _ => .ok []) (fun _ => 1) [] [(0, 0), (0, 0)] = [.err, .panic] := by decide

/-- … while the real order answers `err` twice -/
example : lookupSeq true (fun _ => .ok []) (fun _ => 1) [] [(0, 0), (0, 0)] = [.err, .err] := by decide

/-! ## coverage walk over a run of PMTiles ids (`include_run`) -/

theorem blockExpGo_spec (z pos limit : Nat) : ∀ (f k : Nat), pos % 4 ^ k = 0 → 4 ^ k ≤ limit → k ≤ z →
    pos % 4 ^ (blockExpGo z pos limit f k) = 0 ∧ 4 ^ (blockExpGo z pos limit f k) ≤ limit ∧ blockExpGo z pos limit f k ≤ z := by
  intro f
  induction f with
  | zero => intro k h1 h2 h3; simp [blockExpGo]; exact ⟨h1, h2, h3⟩
  | succ f ih =>
    intro k h1 h2 h3
    simp only [blockExpGo]
    split
    · rename_i h; exact ih (k + 1) h.2.1 h.2.2 (by omega)
    · exact ⟨h1, h2, h3⟩

/-- every block is aligned, fits into what is left of the run and is at most the whole level -/
theorem blockExp_spec (z pos limit : Nat) (hl : 1 ≤ limit) :
    pos % 4 ^ (blockExp z pos limit) = 0 ∧ 4 ^ (blockExp z pos limit) ≤ limit ∧ blockExp z pos limit ≤ z :=
  blockExpGo_spec z pos limit z 0 (by simp [Nat.mod_one]) (by simpa using hl) (Nat.zero_le _)

/-- **the blocks tile the run exactly**: a position lies in the run iff it lies in one of the blocks,
    every block is aligned (`4^k ∣ start`) and has `k ≤ z` — so no tile of the run is missed and none
    outside the run is added, whatever `run_length` (up to 2^32−1) the directory announces -/
theorem runBlocks_cover (z : Nat) : ∀ (f pos rem : Nat), rem ≤ f →
    (∀ i, (pos ≤ i ∧ i < pos + rem) ↔ ∃ b ∈ runBlocks z f pos rem, b.1 ≤ i ∧ i < b.1 + 4 ^ b.2) ∧
    (∀ b ∈ runBlocks z f pos rem, b.1 % 4 ^ b.2 = 0 ∧ b.2 ≤ z) := by
  intro f
  induction f with
  | zero =>
    intro pos rem h
    have : rem = 0 := by omega
    subst this
    simp [runBlocks]
  | succ f ih =>
    intro pos rem h
    simp only [runBlocks]
    split
    · rename_i h0; subst h0; simp
    · rename_i h0
      obtain ⟨ha, hb, hc⟩ := blockExp_spec z pos rem (by omega)
      have hpos : 0 < 4 ^ blockExp z pos rem := Nat.pow_pos (by omega)
      obtain ⟨ih1, ih2⟩ := ih (pos + 4 ^ blockExp z pos rem) (rem - 4 ^ blockExp z pos rem) (by omega)
      constructor
      · intro i
        constructor
        · intro hi
          by_cases hlt : i < pos + 4 ^ blockExp z pos rem
          · exact ⟨_, List.mem_cons_self, hi.1, hlt⟩
          · obtain ⟨b, hb1, hb2⟩ := (ih1 i).mp ⟨by omega, by omega⟩
            exact ⟨b, List.mem_cons_of_mem _ hb1, hb2⟩
        · rintro ⟨b, hb1, hb2⟩
          rcases List.mem_cons.mp hb1 with rfl | hb1
          · simp only at hb2; constructor <;> omega
          · have := (ih1 i).mpr ⟨b, hb1, hb2⟩
            constructor <;> omega
      · intro b hb1
        rcases List.mem_cons.mp hb1 with rfl | hb1
        · exact ⟨ha, hc⟩
        · exact ih2 b hb1

/-- example: positions 3 ‥ 20 of level 3 are covered by 1 + 3·4 + 1·… blocks -/
example : runBlocks 3 18 3 18 = [(3, 0), (4, 1), (8, 1), (12, 1), (16, 1), (20, 0)] := by decide

/-! ## length-prefixed reads: no panic, allocation ≤ input -/

theorem readBytes_no_panic (r : Prim.Reader) (n : Nat) : (Decoders.readBytes r n).out ≠ .panic := by
  unfold Decoders.readBytes; split <;> simp

theorem readBytes_alloc_le (r : Prim.Reader) (n : Nat) : ∀ a ∈ (Decoders.readBytes r n).allocs, a ≤ r.rest.length := by
  unfold Decoders.readBytes
  split
  · simp
  · intro a ha; simp at ha; omega

theorem readBytes_rest_le (r : Prim.Reader) (n : Nat) (p : Bytes × Prim.Reader)
    (h : (Decoders.readBytes r n).out = .ok p) : p.2.rest.length ≤ r.rest.length := by
  unfold Decoders.readBytes at h
  split at h
  · simp at h
  · simp at h; subst h; simp

theorem mapOut_allocs {α β : Type} (f : α → Outcome β) (t : Traced α) : (mapOut f t).allocs = t.allocs := by
  unfold mapOut; split <;> rfl

theorem readString_no_panic (r : Prim.Reader) (n : Nat) : (Decoders.readString false r n).out ≠ .panic := by
  unfold Decoders.readString mapOut
  have h := readBytes_no_panic r n
  simp only [Bool.false_eq_true, if_false]
  split
  · split <;> simp
  · simp
  · rename_i hp; exact absurd hp h

theorem readString_alloc_le (r : Prim.Reader) (n : Nat) :
    ∀ a ∈ (Decoders.readString false r n).allocs, a ≤ r.rest.length := by
  unfold Decoders.readString
  rw [mapOut_allocs]
  simpa using readBytes_alloc_le r n

theorem readString_rest_le (r : Prim.Reader) (n : Nat) (p : Bytes × Prim.Reader)
    (h : (Decoders.readString false r n).out = .ok p) : p.2.rest.length ≤ r.rest.length := by
  unfold Decoders.readString mapOut at h
  simp only [Bool.false_eq_true, if_false] at h
  split at h
  · rename_i q hq
    split at h
    · simp at h; subst h; exact readBytes_rest_le r n q hq
    · simp at h
  · simp at h
  · simp at h

/-- `read_varint` never panics and never returns a longer remainder -/
theorem primReadVarintAux_good : ∀ (bs : Prim.Bytes) (pos v s : Nat),
    Prim.readVarintAux bs pos v s ≠ .panic ∧
    ∀ x r', Prim.readVarintAux bs pos v s = .ok (x, r') → r'.rest.length < bs.length := by
  intro bs
  induction bs with
  | nil => intro pos v s; simp [Prim.readVarintAux]
  | cons b t ih =>
    intro pos v s
    simp only [Prim.readVarintAux]
    split
    · refine ⟨by simp, ?_⟩
      intro x r' h; simp at h; obtain ⟨_, h2⟩ := h; subst h2; simp
    · split
      · simp
      · obtain ⟨h1, h2⟩ := ih (pos + 1) (v ||| (b.toNat % 128) <<< s % U64) (s + 7)
        refine ⟨h1, ?_⟩
        intro x r' h
        have := h2 x r' h
        simp; omega

theorem primReadVarint_no_panic (r : Prim.Reader) : Prim.readVarint r ≠ .panic :=
  (primReadVarintAux_good r.rest r.pos 0 0).1

theorem primReadVarint_lt (r : Prim.Reader) (x : Nat) (r' : Prim.Reader)
    (h : Prim.readVarint r = .ok (x, r')) : r'.rest.length < r.rest.length :=
  (primReadVarintAux_good r.rest r.pos 0 0).2 x r' h

theorem readPbfString_no_panic (r : Prim.Reader) : (Decoders.readPbfString false r).out ≠ .panic := by
  unfold Decoders.readPbfString
  have h := primReadVarint_no_panic r
  split
  · exact readString_no_panic _ _
  · simp
  · rename_i hp; exact absurd hp h

theorem readPbfString_alloc_le (r : Prim.Reader) :
    ∀ a ∈ (Decoders.readPbfString false r).allocs, a ≤ r.rest.length := by
  unfold Decoders.readPbfString
  split
  · rename_i n r' hv
    intro a ha
    have h1 := readString_alloc_le r' n a ha
    have h2 := primReadVarint_lt r n r' hv
    omega
  · simp
  · simp

theorem readPbfString_rest_le (r : Prim.Reader) (p : Bytes × Prim.Reader)
    (h : (Decoders.readPbfString false r).out = .ok p) : p.2.rest.length ≤ r.rest.length := by
  unfold Decoders.readPbfString at h
  split at h
  · rename_i n r' hv
    have h1 := readString_rest_le r' n p h
    have h2 := primReadVarint_lt r n r' hv
    omega
  · simp at h
  · simp at h

theorem readPbfBlob_no_panic (r : Prim.Reader) : (Decoders.readPbfBlob false r).out ≠ .panic := by
  unfold Decoders.readPbfBlob
  have h := primReadVarint_no_panic r
  split
  · simp only [Bool.false_eq_true, if_false]; exact readBytes_no_panic _ _
  · simp
  · rename_i hp; exact absurd hp h

theorem readPbfBlob_alloc_le (r : Prim.Reader) :
    ∀ a ∈ (Decoders.readPbfBlob false r).allocs, a ≤ r.rest.length := by
  unfold Decoders.readPbfBlob
  split
  · rename_i n r' hv
    simp only [Bool.false_eq_true, if_false]
    intro a ha
    have h1 := readBytes_alloc_le r' n a ha
    have h2 := primReadVarint_lt r n r' hv
    omega
  · simp
  · simp

/-- **no panic** for `read_pbf_string` followed by `read_pbf_blob` on arbitrary bytes -/
theorem pbfStrBlob_no_panic (input : Bytes) : (pbfStrBlob false input).out ≠ .panic := by
  unfold pbfStrBlob
  have h1 := readPbfString_no_panic (Prim.Reader.ofBytes input)
  simp only []
  split
  · rename_i q r1 _
    have h2 := readPbfBlob_no_panic r1
    simp only []
    split <;> simp_all
  · simp
  · rename_i hp; exact absurd hp h1

/-- **allocation bound**: every size the two length-prefixed reads request is ≤ |input|
    (`vec![0u8; length]` / `Blob::new_sized(length)` happen after `ensure!(length <= remaining)`) -/
theorem pbfStrBlob_alloc_le (input : Bytes) : ∀ a ∈ (pbfStrBlob false input).allocs, a ≤ input.length := by
  unfold pbfStrBlob
  have h1 := readPbfString_alloc_le (Prim.Reader.ofBytes input)
  simp only []
  split
  · rename_i q r1 hq
    have h2 := readPbfBlob_alloc_le r1
    have h3 := readPbfString_rest_le (Prim.Reader.ofBytes input) (q, r1) hq
    intro a ha
    simp only [List.mem_append] at ha
    simp [Prim.Reader.ofBytes] at h1 h3
    cases ha with
    | inl ha => exact h1 a ha
    | inr ha => have := h2 a ha; omega
  · intro a ha; simpa [Prim.Reader.ofBytes] using h1 a ha
  · intro a ha; simpa [Prim.Reader.ofBytes] using h1 a ha

/-- `ValueReaderFile::get_sub_reader` allocates only what it can read -/
theorem subReaderFile_alloc_le (r : Prim.Reader) (n : Nat) :
    (subReaderFile r n).out ≠ .panic ∧ ∀ a ∈ (subReaderFile r n).allocs, a ≤ r.rest.length := by
  unfold subReaderFile
  split
  · simp
  · refine ⟨by simp, ?_⟩; intro a ha; simp at ha; omega

theorem subReader_no_panic (r : Prim.Reader) (n : Nat) :
    (Decoders.subReader r n).out ≠ .panic ∧ (Decoders.subReader r n).allocs = [] := by
  unfold Decoders.subReader; split <;> simp

/-- positional reads (`Blob::read_range`, `DataReaderBlob::read_range`, `DataReaderFile::read_range`):
    no panic for any announced range -/
theorem readRange_no_panic (file : Bytes) (r : Fmt.Range) : (Decoders.readRange file r).out ≠ .panic := by
  unfold Decoders.readRange
  split
  · simp
  · split <;> simp

/-- … and the buffer they allocate is never larger than the data -/
theorem readRange_alloc_le (file : Bytes) (r : Fmt.Range) :
    ∀ a ∈ (Decoders.readRange file r).allocs, a ≤ file.length := by
  unfold Decoders.readRange
  split
  · simp
  · split
    · simp
    · intro a ha; simp at ha; omega

/-- the traced model agrees with `VtModel.Fmt.readRange` (the one the container models use) -/
theorem readRange_out_eq (file : Bytes) (r : Fmt.Range) : (Decoders.readRange file r).out = Fmt.readRange file r := by
  unfold Decoders.readRange Fmt.readRange
  split
  · rfl
  · split <;> rfl

/-- … and the traced length-prefixed read agrees with `VtModel.Prim.readBytes` (used by the MVT model) -/
theorem readBytes_out_eq (r : Prim.Reader) (n : Nat) : (Decoders.readBytes r n).out = Prim.readBytes r n := by
  unfold Decoders.readBytes Prim.readBytes
  split <;> rfl

/-! ## counterexamples: the code before the fixes violates the statement -/

def isPanic {α : Type} : Json.Res α → Bool
  | .panic _ => true
  | _ => false

/-- F6: invalid JSON right after `"é` — the error window `"\xc3` … is cut inside the character:
    `format_error` panicked (iterator.rs:71 before a22a8569). Input: `"` `0xc3` at end of input. -/
theorem old_format_error_panics :
    isPanic (expectNextOld { pre := [0xc3, 0x22], rest := [], debug := true }) = true := by decide

/-- F6: `"\u00é…"`: the four bytes after `\u` end inside a two-byte character (basics.rs:40 before a22a8569) -/
theorem old_hex_panics : isPanic (hexOld [0x30, 0x30, 0x30, 0xc3]) = true := by decide

/-- the same bytes are an ordinary error now -/
example : Json.fromStrRadix16 [0x30, 0x30, 0x30, 0xc3] = none := by decide

/-- F13: a string announcing 2^33 bytes in an 8-byte input made `read_string` ask the allocator for
    8 GiB (value_reader.rs:127 before 4706f789) — out of proportion to the input -/
theorem old_readBytes_allocates_announced_length :
    (readBytesOld ⟨0, [1, 2, 3]⟩ (2 ^ 33)).allocs = [2 ^ 33] ∧ ¬ (2 ^ 33 ≤ 64 * 3 + 8 * 2 ^ 20) := by
  constructor
  · decide
  · omega

/-- F13: an announced length ≥ 2^63 panicked with "capacity overflow" -/
theorem old_readBytes_panics : (readBytesOld ⟨0, []⟩ (2 ^ 63)).out = .panic := by decide

/-- F13: a sub-message length of 2^64−1 at position 2 panicked with "attempt to add with overflow"
    (value_reader_slice.rs:123 before 4706f789) -/
theorem old_subReader_overflow_panics : (subReaderOld ⟨2, [0]⟩ (2 ^ 64 - 1)).out = .panic := by decide

/-- F13: `Blob::read_range` / `DataReaderBlob::read_range` with `offset + length ≥ 2^64` (before 7ce9b171) -/
theorem old_readRange_overflow_panics : (readRangeBlobOld [] ⟨2 ^ 64 - 1, 1⟩).out = .panic := by decide

/-- F13: `DataReaderFile::read_range` allocated the announced length before reading (before 7ce9b171) -/
theorem old_readRangeFile_allocates_announced_length :
    (readRangeFileOld [0] ⟨0, 2 ^ 40⟩).allocs = [2 ^ 40] := by decide

/-! ## CSV -/

theorem NP_csvQuoted (bs acc : Bytes) : NP (csvQuoted bs acc) := by
  fun_induction csvQuoted bs acc <;> simp_all [NP]

theorem NP_csvValue (sep : UInt8) (bs : Bytes) : NP (csvValue sep bs) := by
  unfold csvValue
  split
  · exact NP_ok _
  · split
    · exact NP_csvQuoted _ _
    · dsimp only; split <;> simp [NP]

theorem NP_csvRecord (sep : UInt8) : ∀ (fuel : Nat) (bs : Bytes) (fields : List Bytes),
    NP (csvRecord false sep fuel bs fields) := by
  intro fuel
  induction fuel with
  | zero => intro bs fields; simp [csvRecord, NP]
  | succ n ih =>
    intro bs fields
    simp only [csvRecord]
    have h := NP_csvValue sep bs
    split
    · split
      · exact ih _ _
      · split
        · exact ih _ _
        · exact NP_ok _
      · split <;> exact NP_ok _
      · simp [NP]
    · exact NP_err
    · rename_i hp; exact absurd hp h

theorem NP_csvLoop (sep : UInt8) : ∀ (fuel : Nat) (bs : Bytes) (w : Option Nat) (c : Nat),
    NP (csvLoop false sep fuel bs w c) := by
  intro fuel
  induction fuel with
  | zero => intro bs w c; simp [csvLoop, NP]
  | succ n ih =>
    intro bs w c
    simp only [csvLoop]
    have h := NP_csvRecord sep (bs.length + 2) bs []
    split
    · exact NP_ok _
    · split
      · exact NP_ok _
      · split
        · split
          · exact NP_err
          · exact ih _ _ _
        · exact ih _ _ _
      · exact NP_err
      · rename_i hp; exact absurd hp h

/-- **CSV**: reading all records of arbitrary bytes (any separator) never panics (since 9978dff5) -/
theorem csvRows_no_panic (sep : UInt8) (input : Bytes) : csvRows false sep input ≠ .panic :=
  NP_csvLoop sep _ _ _ _

/-- `read_csv_file`: taking the header line of arbitrary bytes never panics (since 9978dff5) -/
theorem csvHeader_no_panic (input : Bytes) : csvHeader false input ≠ .panic := by
  unfold csvHeader
  have h := NP_csvRecord 0x2c (input.length + 2) input []
  split
  · simp
  · split
    · simp
    · simp
    · simp
    · rename_i hp; exact absurd hp h

/-- F13: `"a"b` — text after a closing quote hit `panic!()` (csv.rs:85 before 9978dff5) -/
theorem old_csv_panics : csvRows true 0x2c [0x22, 0x61, 0x22, 0x62] = .panic := by decide

/-- … the same for a bare carriage return inside an unquoted field: `a\rb` -/
theorem old_csv_cr_panics : csvRows true 0x2c [0x61, 0x0d, 0x62] = .panic := by decide

/-- F13: an empty CSV file: `iter.next().unwrap()` (helpers/csv.rs:25 before 9978dff5) -/
theorem old_csv_empty_panics : csvHeader true [] = .panic := by decide

/-- non-vacuity: well-formed CSV is accepted (`a,b\n1,2\n` has 2 records) -/
example : csvRows false 0x2c [0x61, 0x2c, 0x62, 0x0a, 0x31, 0x2c, 0x32, 0x0a] = .ok 2 := by decide
example : csvRows false 0x2c [0x22, 0x61, 0x22, 0x62] = .err := by decide

/-! ## JSON (`byte_iterator/*.rs`, `json/parse.rs`) -/

section JsonNP
open VtModel.Json

/-- **JSON**: `parse_json_str` on arbitrary bytes never panics (since a22a8569).  The proof lives in
    `VtProofs/JsonTotal.lean` (w-json): one induction over the five mutually recursive parser
    functions that shows at the same time that the fuel `2·|input|+4` is never exhausted. -/
theorem json_no_panic {N : Type} (ops : NumOps N) (input : Json.Bytes) (s : String) : parseBytes ops input ≠ .panic s :=
  VtProofs.Json.parseBytes_no_panic ops input s

/-- the model never runs out of fuel: for every byte string the parser ends with a value or an error,
    i.e. the model's recursion depth is ≤ 2·|input|+4 -/
theorem json_total {N : Type} (ops : NumOps N) (input : Json.Bytes) :
    (∃ v, parseBytes ops input = .ok v) ∨ parseBytes ops input = .err := by
  have h1 := VtProofs.Json.parseBytes_total ops input
  have h2 := VtProofs.Json.parseBytes_no_panic ops input
  cases h : parseBytes ops input with
  | ok v => exact Or.inl ⟨v, rfl⟩
  | err => exact Or.inr rfl
  | fuel => exact absurd h h1
  | panic s => exact absurd h (h2 s)

/-- `JsonValue::parse_blob` on arbitrary bytes (UTF-8 check, then the parser) never panics (since 1a451fab) -/
theorem jsonBlob_no_panic (input : Json.Bytes) (s : String) : jsonBlob input ≠ .panic s := by
  unfold jsonBlob
  split
  · simp
  · exact json_no_panic _ _ s

/-- … and always ends with a value or an error -/
theorem jsonBlob_total (input : Json.Bytes) : (∃ v, jsonBlob input = .ok v) ∨ jsonBlob input = .err := by
  unfold jsonBlob
  split
  · exact Or.inr rfl
  · exact json_total _ _

/-! ### nesting limit (since f7196604): the real parser recurses once per open array/object -/

/-- with `maxNesting` containers open, an opening bracket is answered `err` with ANY positive fuel,
    even fuel 1: the answer is given without a recursive call (one would have produced `.fuel`) -/
theorem json_depth_limit {N : Type} (ops : NumOps N) (f d : Nat) (hd : maxNesting ≤ d) (pre rest : Json.Bytes) (dbg : Bool)
    (b : UInt8) (hb : b = 0x5b ∨ b = 0x7b) :
    parseValue ops (f + 1) d { pre := pre, rest := b :: rest, debug := dbg } = .err := by
  have hge : d ≥ maxNesting := hd
  rcases hb with rfl | rfl
  · simp only [parseValue]
    rw [VtProofs.Json.skipWs_nonws _ 0x5b rest rfl (by decide)]
    simp [hge, formatError]
  · simp only [parseValue]
    rw [VtProofs.Json.skipWs_nonws _ 0x7b rest rfl (by decide)]
    simp [hge, formatError]

theorem deep_err {N : Type} (ops : NumOps N) : ∀ (k d f : Nat) (pre rest : Json.Bytes) (dbg : Bool),
    maxNesting < d + (k + 1) → 2 * (k + 1) ≤ f →
    parseValue ops f d { pre := pre, rest := List.replicate (k + 1) 0x5b ++ rest, debug := dbg } = .err := by
  intro k
  induction k with
  | zero =>
    intro d f pre rest dbg hd hf
    obtain ⟨f', rfl⟩ : ∃ f', f = f' + 1 := ⟨f - 1, by omega⟩
    exact json_depth_limit ops f' d (by omega) pre rest dbg 0x5b (Or.inl rfl)
  | succ k ih =>
    intro d f pre rest dbg hd hf
    by_cases hlim : maxNesting ≤ d
    · obtain ⟨f', rfl⟩ : ∃ f', f = f' + 1 := ⟨f - 1, by omega⟩
      exact json_depth_limit ops f' d hlim pre _ dbg 0x5b (Or.inl rfl)
    · obtain ⟨f', rfl⟩ : ∃ f', f = f' + 2 := ⟨f - 2, by omega⟩
      have hrep : List.replicate (k + 1 + 1) (0x5b : UInt8) ++ rest = 0x5b :: (List.replicate (k + 1) 0x5b ++ rest) := by
        simp [List.replicate_succ]
      rw [hrep]
      simp only [parseValue]
      rw [VtProofs.Json.skipWs_nonws _ 0x5b _ rfl (by decide)]
      have hlt : ¬ d ≥ maxNesting := by omega
      simp only [beq_self_eq_true, if_true, hlt, if_false]
      simp only [parseArray]
      rw [VtProofs.Json.skipWs_nonws _ 0x5b _ rfl (by decide)]
      simp only [expectNext, Res.bind_ok]
      have hrep2 : List.replicate (k + 1) (0x5b : UInt8) ++ rest = 0x5b :: (List.replicate k 0x5b ++ rest) := by
        simp [List.replicate_succ]
      have hsk : skipWs { pre := 0x5b :: pre, rest := List.replicate (k + 1) (0x5b : UInt8) ++ rest, debug := dbg }
          = { pre := 0x5b :: pre, rest := List.replicate (k + 1) (0x5b : UInt8) ++ rest, debug := dbg } :=
        VtProofs.Json.skipWs_nonws _ 0x5b (List.replicate k 0x5b ++ rest) hrep2 (by decide)
      simp only [bne_self_eq_false, Bool.false_eq_true, if_false]
      rw [hsk]
      have hpeek : Iter.peekIs { pre := 0x5b :: pre, rest := List.replicate (k + 1) (0x5b : UInt8) ++ rest, debug := dbg } 0x5d = false := by
        rw [hrep2]; simp [Iter.peekIs]
      simp only [hpeek, Bool.false_eq_true, if_false]
      rw [ih (d + 1) f' (0x5b :: pre) rest dbg (by omega) (by omega)]
      rfl

/-- **deeper → err**: a document that starts with more than `maxNesting` (1024) opening brackets is
    rejected, whatever follows -/
theorem json_too_deep_err {N : Type} (ops : NumOps N) (k : Nat) (rest : Json.Bytes) :
    parseBytes ops (List.replicate (maxNesting + 1 + k) 0x5b ++ rest) = .err := by
  unfold parseBytes Iter.start
  have := deep_err ops (maxNesting + k) 0 (fuelFor (List.replicate (maxNesting + 1 + k) 0x5b ++ rest)) [] rest true
    (by omega) (by simp [fuelFor]; omega)
  have h2 : maxNesting + k + 1 = maxNesting + 1 + k := by omega
  rw [h2] at this
  rw [this]; rfl
/-- `TileJSON::try_from(&Blob)` on arbitrary bytes: never a panic, always a document or an error -/
theorem tileJsonBlob_total (input : Json.Bytes) : tileJsonBlob input = .ok () ∨ tileJsonBlob input = .err := by
  unfold tileJsonBlob
  rcases jsonBlob_total input with ⟨v, hv⟩ | he
  · rw [hv]
    cases v <;> simp
    exact (Classical.em _).symm
  · rw [he]; simp

end JsonNP

/-! ## vector tiles (`value_reader.rs`, `vector_tile/*.rs`) -/

section MvtNP
open VtModel.Prim VtModel.Mvt

/-- no panic, and on success the remaining input has at most `m` bytes -/
def Bd {α : Type} (m : Nat) (o : Outcome (α × Reader)) : Prop :=
  o ≠ .panic ∧ ∀ a r', o = .ok (a, r') → r'.rest.length ≤ m

theorem Bd_err {α : Type} (m : Nat) : Bd m (Outcome.err : Outcome (α × Reader)) := by simp [Bd]
theorem Bd_pure {α : Type} (m : Nat) (a : α) (r : Reader) (h : r.rest.length ≤ m) : Bd m (pure (a, r) : Outcome (α × Reader)) := by
  refine ⟨by simp [pure], ?_⟩
  intro a' r' h'
  have : (a, r) = (a', r') := by simpa [pure] using h'
  cases this; exact h
theorem Bd_mono {α : Type} {m m' : Nat} {o : Outcome (α × Reader)} (h : Bd m o) (hm : m ≤ m') : Bd m' o :=
  ⟨h.1, fun a r' e => Nat.le_trans (h.2 a r' e) hm⟩

theorem Bd_bind {α β : Type} {m m' : Nat} {x : Outcome (α × Reader)} {f : α × Reader → Outcome (β × Reader)}
    (hx : Bd m x) (hf : ∀ a r1, r1.rest.length ≤ m → Bd m' (f (a, r1))) : Bd m' (x >>= f) := by
  cases x with
  | ok p => obtain ⟨a, r1⟩ := p; exact hf a r1 (hx.2 a r1 rfl)
  | err => exact Bd_err _
  | panic => exact absurd rfl hx.1

theorem Bd_bind_np {α β : Type} {m' : Nat} {x : Outcome α} {f : α → Outcome (β × Reader)}
    (hx : NP x) (hf : ∀ a, Bd m' (f a)) : Bd m' (x >>= f) := by
  cases x with
  | ok a => exact hf a
  | err => exact Bd_err _
  | panic => exact absurd rfl hx

/-- `read_varint`: strict progress -/
theorem Bd_readVarint (r : Reader) : Bd (r.rest.length - 1) (readVarint r) := by
  obtain ⟨h1, h2⟩ := primReadVarintAux_good r.rest r.pos 0 0
  exact ⟨h1, fun a r' e => by have := h2 a r' e; omega⟩

theorem Bd_readPbfKey (r : Reader) : Bd (r.rest.length - 1) (readPbfKey r) := by
  have h := Bd_readVarint r
  unfold readPbfKey
  cases hv : readVarint r with
  | ok p =>
    obtain ⟨v, r'⟩ := p
    refine ⟨by simp, ?_⟩
    intro a r'' e
    simp at e
    rw [← e.2]
    exact h.2 v r' hv
  | err => exact Bd_err _
  | panic => exact absurd hv h.1

theorem Bd_readSVarint (r : Reader) : Bd (r.rest.length - 1) (readSVarint r) := by
  have h := Bd_readVarint r
  unfold readSVarint
  cases hv : readVarint r with
  | ok p =>
    obtain ⟨v, r'⟩ := p
    refine ⟨by simp, ?_⟩
    intro a r'' e
    simp at e
    rw [← e.2]
    exact h.2 v r' hv
  | err => exact Bd_err _
  | panic => exact absurd hv h.1

theorem Bd_subReader (r : Reader) (n : Nat) : Bd r.rest.length (Prim.subReader r n) := by
  unfold Prim.subReader
  split
  · exact Bd_err _
  · split
    · exact Bd_err _
    · refine ⟨by simp, ?_⟩
      intro a r' e; simp at e; rw [← e.2]; simp

theorem Bd_readBytes (r : Reader) (n : Nat) : Bd r.rest.length (Prim.readBytes r n) := by
  unfold Prim.readBytes
  split
  · exact Bd_err _
  · refine ⟨by simp, ?_⟩
    intro a r' e; simp at e; rw [← e.2]; simp

theorem Bd_readString (r : Reader) (n : Nat) : Bd r.rest.length (Prim.readString r n) := by
  have h := Bd_readBytes r n
  unfold Prim.readString
  cases hv : Prim.readBytes r n with
  | ok p =>
    obtain ⟨s, r'⟩ := p
    dsimp only
    split
    · refine ⟨by simp, ?_⟩
      intro a r'' e; simp at e; rw [← e.2]; exact h.2 s r' hv
    · exact Bd_err _
  | err => exact Bd_err _
  | panic => exact absurd hv h.1

theorem Bd_readFixed (k : Nat) (r : Reader) : Bd r.rest.length (readFixed k r) := by
  unfold readFixed
  split
  · exact Bd_err _
  · refine ⟨by simp, ?_⟩
    intro a r' e; simp at e; rw [← e.2]; simp

/-- after a length varint -/
theorem Bd_after_varint {α : Type} (r : Reader) (g : Reader → Nat → Outcome (α × Reader))
    (hg : ∀ r' n, Bd r'.rest.length (g r' n)) :
    Bd (r.rest.length - 1) (match readVarint r with | .ok (n, r') => g r' n | .err => .err | .panic => .panic) := by
  have h := Bd_readVarint r
  cases hv : readVarint r with
  | ok p =>
    obtain ⟨n, r'⟩ := p
    exact Bd_mono (hg r' n) (h.2 n r' hv)
  | err => exact Bd_err _
  | panic => exact absurd hv h.1

theorem Bd_readPbfSub (r : Reader) : Bd (r.rest.length - 1) (readPbfSub r) :=
  Bd_after_varint r (fun r' n => Prim.subReader r' n) Bd_subReader
theorem Bd_readPbfString (r : Reader) : Bd (r.rest.length - 1) (Prim.readPbfString r) :=
  Bd_after_varint r (fun r' n => Prim.readString r' n) Bd_readString
theorem Bd_readPbfBlob (r : Reader) : Bd (r.rest.length - 1) (Prim.readPbfBlob r) :=
  Bd_after_varint r (fun r' n => Prim.readBytes r' n) Bd_readBytes

/-- the generic `while has_remaining` loop does not panic when its body neither panics nor stalls -/
theorem NP_whileRem {σ : Type} (step : σ → Reader → Outcome (σ × Reader))
    (hstep : ∀ s r, Bd (r.rest.length - 1) (step s r)) : ∀ (n : Nat) (s : σ) (r : Reader), r.rest.length ≤ n → NP (whileRem step s r) := by
  intro n
  induction n with
  | zero =>
    intro s r h
    rw [whileRem]
    have : r.rest.isEmpty = true := by cases hr : r.rest <;> simp_all
    simp [this, NP]
  | succ n ih =>
    intro s r h
    rw [whileRem]
    split
    · simp [NP]
    · rename_i hne
      have hb := hstep s r
      cases hs : step s r with
      | ok p =>
        obtain ⟨s', r'⟩ := p
        have hlt := hb.2 s' r' hs
        have hpos : 0 < r.rest.length := by
          cases hr : r.rest with
          | nil => simp [hr] at hne
          | cons _ _ => simp
        dsimp only
        split
        · exact ih s' r' (by omega)
        · rename_i hnl; exfalso; omega
      | err => simp [NP]
      | panic => exact absurd hs hb.1

theorem NP_whileRem' {σ : Type} (step : σ → Reader → Outcome (σ × Reader))
    (hstep : ∀ s r, Bd (r.rest.length - 1) (step s r)) (s : σ) (r : Reader) : NP (whileRem step s r) :=
  NP_whileRem step hstep _ s r (Nat.le_refl _)

theorem Bd_packedStep (acc : List Nat) (r : Reader) : Bd (r.rest.length - 1) (packedStep acc r) := by
  have h := Bd_readVarint r
  unfold packedStep
  cases hv : readVarint r with
  | ok p =>
    obtain ⟨v, r'⟩ := p
    refine ⟨by simp, ?_⟩
    intro a r'' e; simp at e; rw [← e.2]; exact h.2 v r' hv
  | err => exact Bd_err _
  | panic => exact absurd hv h.1

theorem Bd_readPackedU32 (r : Reader) : Bd (r.rest.length - 1) (readPackedU32 r) := by
  have h := Bd_readPbfSub r
  unfold readPackedU32
  cases hv : readPbfSub r with
  | ok p =>
    obtain ⟨sub, r'⟩ := p
    dsimp only
    have hw := NP_whileRem' packedStep Bd_packedStep [] (Reader.ofBytes sub)
    cases hl : whileRem packedStep [] (Reader.ofBytes sub) with
    | ok l =>
      refine ⟨by simp, ?_⟩
      intro a r'' e; simp at e; rw [← e.2]; exact h.2 sub r' hv
    | err => exact Bd_err _
    | panic => exact absurd hl hw
  | err => exact Bd_err _
  | panic => exact absurd hv h.1

/-- a step that starts with the key varint (strict progress), then continues with `g` which may only
    keep or shrink the remainder -/
theorem Bd_keyed {σ : Type} (r : Reader) (g : (Nat × Nat) × Reader → Outcome (σ × Reader))
    (hg : ∀ k r1, Bd r1.rest.length (g (k, r1))) : Bd (r.rest.length - 1) (readPbfKey r >>= g) :=
  Bd_bind (Bd_readPbfKey r) (fun k r1 h => Bd_mono (hg k r1) h)

/-- `read X; pure (f x, r2)` -/
theorem Bd_then_pure {α σ : Type} {m : Nat} {x : Outcome (α × Reader)} (hx : Bd m x) (f : α → σ) :
    Bd m (x >>= fun p => pure (f p.1, p.2)) :=
  Bd_bind hx (fun a r1 h => Bd_pure _ _ _ h)

theorem Bd_le_of_pred {α : Type} {n : Nat} {o : Outcome (α × Reader)} (h : Bd (n - 1) o) : Bd n o :=
  Bd_mono h (Nat.sub_le _ _)

theorem Bd_valueStep (s : Option Value) (r : Reader) : Bd (r.rest.length - 1) (valueStep s r) := by
  unfold valueStep
  apply Bd_keyed
  intro k r1
  dsimp only
  split
  · exact Bd_bind (Bd_le_of_pred (Bd_readVarint r1)) (fun n r2 h =>
      Bd_bind (Bd_mono (Bd_readString r2 n) h) (fun a r3 h3 => Bd_pure _ _ _ h3))
  · exact Bd_bind (Bd_readFixed 4 r1) (fun a r2 h => Bd_pure _ _ _ h)
  · exact Bd_bind (Bd_readFixed 8 r1) (fun a r2 h => Bd_pure _ _ _ h)
  · exact Bd_bind (Bd_le_of_pred (Bd_readVarint r1)) (fun a r2 h => Bd_pure _ _ _ h)
  · exact Bd_bind (Bd_le_of_pred (Bd_readVarint r1)) (fun a r2 h => Bd_pure _ _ _ h)
  · exact Bd_bind (Bd_le_of_pred (Bd_readSVarint r1)) (fun a r2 h => Bd_pure _ _ _ h)
  · exact Bd_bind (Bd_le_of_pred (Bd_readVarint r1)) (fun a r2 h => Bd_pure _ _ _ h)
  · exact Bd_err _

theorem NP_decodeValue (b : Prim.Bytes) : NP (decodeValue b) := by
  unfold decodeValue
  apply NP_bind (NP_whileRem' valueStep Bd_valueStep _ _)
  intro s
  split <;> simp [NP, pure]

theorem Bd_featureStep (f : Feature) (r : Reader) : Bd (r.rest.length - 1) (featureStep f r) := by
  unfold featureStep
  apply Bd_keyed
  intro k r1
  dsimp only
  split
  · exact Bd_bind (Bd_le_of_pred (Bd_readVarint r1)) (fun a r2 h => Bd_pure _ _ _ h)
  · exact Bd_bind (Bd_le_of_pred (Bd_readPackedU32 r1)) (fun a r2 h => Bd_pure _ _ _ h)
  · exact Bd_bind (Bd_le_of_pred (Bd_readVarint r1)) (fun a r2 h => Bd_pure _ _ _ h)
  · exact Bd_bind (Bd_le_of_pred (Bd_readPbfBlob r1)) (fun a r2 h => Bd_pure _ _ _ h)
  · exact Bd_err _

theorem NP_decodeFeature (b : Prim.Bytes) : NP (decodeFeature b) :=
  NP_whileRem' featureStep Bd_featureStep _ _

theorem Bd_layerStep (s : LayerSt) (r : Reader) : Bd (r.rest.length - 1) (layerStep s r) := by
  unfold layerStep
  apply Bd_keyed
  intro k r1
  dsimp only
  split
  · exact Bd_bind (Bd_le_of_pred (Bd_readPbfString r1)) (fun a r2 h => Bd_pure _ _ _ h)
  · exact Bd_bind (Bd_le_of_pred (Bd_readPbfSub r1)) (fun sub r2 h =>
      Bd_bind_np (NP_decodeFeature sub) (fun f => Bd_pure _ _ _ h))
  · exact Bd_bind (Bd_le_of_pred (Bd_readPbfString r1)) (fun a r2 h => Bd_pure _ _ _ h)
  · exact Bd_bind (Bd_le_of_pred (Bd_readPbfSub r1)) (fun sub r2 h =>
      Bd_bind_np (NP_decodeValue sub) (fun f => Bd_pure _ _ _ h))
  · exact Bd_bind (Bd_le_of_pred (Bd_readVarint r1)) (fun a r2 h => Bd_pure _ _ _ h)
  · exact Bd_bind (Bd_le_of_pred (Bd_readVarint r1)) (fun a r2 h => Bd_pure _ _ _ h)
  · exact Bd_err _

theorem NP_decodeLayer (b : Prim.Bytes) : NP (decodeLayer b) := by
  unfold decodeLayer
  apply NP_bind (NP_whileRem' layerStep Bd_layerStep _ _)
  intro s
  split <;> simp [NP, pure]

theorem Bd_tileStep (ls : List Layer) (r : Reader) : Bd (r.rest.length - 1) (tileStep ls r) := by
  unfold tileStep
  apply Bd_keyed
  intro k r1
  dsimp only
  split
  · exact Bd_bind (Bd_le_of_pred (Bd_readPbfSub r1)) (fun sub r2 h =>
      Bd_bind_np (NP_decodeLayer sub) (fun f => Bd_pure _ _ _ h))
  · exact Bd_err _

/-- **vector tiles**: `VectorTile::from_blob` on arbitrary bytes never panics (since 4706f789): every
    loop body consumes at least the key varint, every length-prefixed read is guarded -/
theorem mvt_no_panic (b : Prim.Bytes) : decodeTile b ≠ .panic := by
  show NP _
  unfold decodeTile
  apply NP_bind (NP_whileRem' tileStep Bd_tileStep _ _)
  intro ls
  simp [NP, pure]

/-! ### allocation trace of the whole vector-tile decoder -/

/-- all allocations of a list are ≤ `n` -/
def AllLE (n : Nat) (l : List Nat) : Prop := ∀ a ∈ l, a ≤ n

theorem AllLE_nil (n : Nat) : AllLE n [] := by intro a h; simp at h
theorem AllLE_append {n : Nat} {l1 l2 : List Nat} (h1 : AllLE n l1) (h2 : AllLE n l2) : AllLE n (l1 ++ l2) := by
  intro a h; rcases List.mem_append.mp h with h | h
  · exact h1 a h
  · exact h2 a h
theorem AllLE_mono {n m : Nat} {l : List Nat} (h : AllLE n l) (hnm : n ≤ m) : AllLE m l :=
  fun a ha => Nat.le_trans (h a ha) hnm

/-- a loop whose body shrinks the input and allocates at most what is left, allocates at most the input -/
theorem loopAllocs_le {σ : Type} (step : σ → Reader → Outcome (σ × Reader)) (al : σ → Reader → List Nat)
    (hstep : ∀ s r, Bd (r.rest.length - 1) (step s r)) (hal : ∀ s r, AllLE r.rest.length (al s r)) :
    ∀ (n : Nat) (s : σ) (r : Reader), r.rest.length ≤ n → AllLE r.rest.length (loopAllocs step al s r) := by
  intro n
  induction n with
  | zero =>
    intro s r h
    rw [loopAllocs]
    have : r.rest.isEmpty = true := by cases hr : r.rest <;> simp_all
    simp [this, AllLE_nil]
  | succ n ih =>
    intro s r h
    rw [loopAllocs]
    split
    · exact AllLE_nil _
    · refine AllLE_append (hal s r) ?_
      have hb := hstep s r
      split
      · rename_i s' r' hs
        have hlt := hb.2 s' r' hs
        split
        · rename_i hl
          exact AllLE_mono (ih s' r' (by omega)) (by omega)
        · exact AllLE_nil _
      · exact AllLE_nil _
      · exact AllLE_nil _

theorem lenPrefixedAllocs_le (r1 : Reader) : AllLE r1.rest.length (lenPrefixedAllocs r1) :=
  readPbfBlob_alloc_le r1

/-- after the key varint the remaining input is shorter -/
theorem key_rest_le (r r1 : Reader) (k : Nat × Nat) (h : readPbfKey r = .ok (k, r1)) : r1.rest.length ≤ r.rest.length := by
  have := (Bd_readPbfKey r).2 k r1 h; omega

theorem sub_len_le (r1 r2 : Reader) (sub : Prim.Bytes) (h : readPbfSub r1 = .ok (sub, r2)) : sub.length ≤ r1.rest.length := by
  unfold readPbfSub at h
  split at h
  · rename_i n r' hv
    have hlt := primReadVarint_lt r1 n r' hv
    unfold Prim.subReader at h
    split at h
    · simp at h
    · split at h
      · simp at h
      · simp at h; rw [← h.1]; simp; omega
  · simp at h
  · simp at h

theorem valueAllocs_le (s : Option Value) (r : Reader) : AllLE r.rest.length (valueAllocs s r) := by
  unfold valueAllocs
  split
  · rename_i r1 hk
    exact AllLE_mono (lenPrefixedAllocs_le r1) (key_rest_le r r1 _ hk)
  · exact AllLE_nil _

theorem featureAllocs_le (s : Feature) (r : Reader) : AllLE r.rest.length (featureAllocs s r) := by
  unfold featureAllocs
  split
  · rename_i r1 hk
    exact AllLE_mono (lenPrefixedAllocs_le r1) (key_rest_le r r1 _ hk)
  · exact AllLE_nil _

theorem layerAllocs_le (s : LayerSt) (r : Reader) : AllLE r.rest.length (layerAllocs s r) := by
  unfold layerAllocs
  split
  · rename_i r1 hk
    exact AllLE_mono (lenPrefixedAllocs_le r1) (key_rest_le r r1 _ hk)
  · rename_i r1 hk
    exact AllLE_mono (lenPrefixedAllocs_le r1) (key_rest_le r r1 _ hk)
  · rename_i r1 hk
    split
    · rename_i sub r2 hs
      have h1 := loopAllocs_le featureStep featureAllocs Bd_featureStep featureAllocs_le _ Feature.empty (Reader.ofBytes sub) (Nat.le_refl _)
      have h2 := sub_len_le r1 r2 sub hs
      have h3 := key_rest_le r r1 _ hk
      exact AllLE_mono h1 (by simp [Reader.ofBytes]; omega)
    · exact AllLE_nil _
  · rename_i r1 hk
    split
    · rename_i sub r2 hs
      have h1 := loopAllocs_le valueStep valueAllocs Bd_valueStep valueAllocs_le _ none (Reader.ofBytes sub) (Nat.le_refl _)
      have h2 := sub_len_le r1 r2 sub hs
      have h3 := key_rest_le r r1 _ hk
      exact AllLE_mono h1 (by simp [Reader.ofBytes]; omega)
    · exact AllLE_nil _
  · exact AllLE_nil _

theorem tileAllocs_le (s : List Layer) (r : Reader) : AllLE r.rest.length (tileAllocs s r) := by
  unfold tileAllocs
  split
  · rename_i r1 hk
    split
    · rename_i sub r2 hs
      have h1 := loopAllocs_le layerStep layerAllocs Bd_layerStep layerAllocs_le _ LayerSt.init (Reader.ofBytes sub) (Nat.le_refl _)
      have h2 := sub_len_le r1 r2 sub hs
      have h3 := key_rest_le r r1 _ hk
      exact AllLE_mono h1 (by simp [Reader.ofBytes]; omega)
    · exact AllLE_nil _
  · exact AllLE_nil _

/-- **allocation bound for `VectorTile::from_blob`**: every announced-length allocation on the way
    through tile → layers → features / values (layer names, keys, string values, geometry blobs) is
    ≤ |input|, for every input (since 4706f789) -/
theorem mvt_alloc_le (input : Prim.Bytes) : ∀ a ∈ mvtAllocs input, a ≤ input.length := by
  have := loopAllocs_le tileStep tileAllocs Bd_tileStep tileAllocs_le _ [] (Reader.ofBytes input) (Nat.le_refl _)
  simpa [mvtAllocs, Reader.ofBytes, AllLE] using this

/-- F13 on the whole decoder before 4706f789: the 8-byte tile `1a 06 0a 80 80 80 80 20`
    (tile → layer → name of announced length 2^33) asks for 8 GiB -/
theorem old_mvt_allocates_announced_length :
    mvtNameAllocOld [0x1a, 0x06, 0x0a, 0x80, 0x80, 0x80, 0x80, 0x20] = [2 ^ 33] := by decide

/-- … the current code asks for at most 8 bytes on it -/
example : ∀ a ∈ mvtAllocs [0x1a, 0x06, 0x0a, 0x80, 0x80, 0x80, 0x80, 0x20], a ≤ 8 := mvt_alloc_le _

/-! ### second stage: properties of every feature -/

theorem decodePairs_np (keys : List Prim.Bytes) (vals : List Value) : ∀ (tags : List Nat) (acc : Props),
    decodePairs keys vals tags acc ≠ .panic := by
  intro tags
  induction tags using List.rec with
  | nil => intro acc; simp [decodePairs]
  | cons k t ih =>
    intro acc
    cases t with
    | nil => simp [decodePairs]
    | cons v t' =>
      simp only [decodePairs]
      split
      · -- recursion on t' (two elements shorter): strong induction via the length
        rename_i kk vv _ _
        have : ∀ (n : Nat) (l : List Nat) (a : Props), l.length ≤ n → decodePairs keys vals l a ≠ .panic := by
          intro n
          induction n with
          | zero => intro l a h; cases l <;> simp_all [decodePairs]
          | succ n ihn =>
            intro l a h
            match l with
            | [] => simp [decodePairs]
            | [_] => simp [decodePairs]
            | x :: y :: r =>
              simp only [decodePairs]
              split
              · exact ihn r _ (by simp at h; omega)
              · simp
        exact this _ t' _ (Nat.le_refl _)
      · simp

/-- **second decoding stage**: decoding the properties of every feature of every layer of arbitrary
    bytes never panics — an odd tag list or an index outside the key / value table is an error
    (`PropertyManager::decode_tag_ids`) -/
theorem mvtProps_no_panic (input : Prim.Bytes) : mvtProps input ≠ .panic := by
  unfold mvtProps
  split
  · rename_i t _
    dsimp only
    split
    · rename_i hany
      rw [List.any_eq_true] at hany
      obtain ⟨r, hr, hp⟩ := hany
      obtain ⟨l, _, hl⟩ := List.mem_flatMap.mp hr
      unfold layerProps at hl
      obtain ⟨f, _, hf⟩ := List.mem_map.mp hl
      have := decodePairs_np l.keys l.vals f.tags []
      unfold decodeTags at hf
      rw [← hf] at hp
      split at hp <;> simp_all
    · split <;> simp
  · simp
  · rename_i hp; exact absurd hp (mvt_no_panic input)

/-- an odd tag list is an error (one feature with tags `[0]`, one key, one value) -/
example : decodeTags [[0x6b]] [.uint 1] [0] = .err := by decide
end MvtNP

end VtProps.C19
