import VtProofs.VplLex
/-!
# C18 — every well-formed pipeline text parses to the pipeline it describes

Property theorems about `VtModel.Vpl` (model of `versatiles_pipeline/src/vpl/parser.rs`, `vpl_node.rs`,
the `VPLDecode` derive and `factory.rs`).  Helper lemmas: `VtProofs/Vpl*.lean`.
-/
namespace VtProps.C18
open VtModel.Vpl

/-! ## lexical layer -/

/-- **`parseString (escape s) = s`** inside quotes for *every* string (the empty one included — this is
    the statement that was false before fix d8507268, see `empty_string_needs_opt`). -/
theorem quoted_escape_roundtrip (s rest : Str) :
    parseQuoted ('"' :: (escape s ++ '"' :: rest)) = .ok rest s := parseQuoted_escape s rest

/-- the bare `escaped_transform` reads every non-empty escaped string back … -/
theorem string_escape_roundtrip (s rest : Str) (hs : s ≠ []) :
    parseString (escape s ++ '"' :: rest) = .ok ('"' :: rest) s := parseString_escape s rest hs

/-- … and reports an error on an empty body: `parse_quoted_string` must make the body optional. -/
theorem empty_string_needs_opt (rest : Str) : parseString ('"' :: rest) = .error := parseString_empty_body rest

/-- any mixture of raw and escaped characters (`\n` written raw or as `\` `n`, …) -/
theorem quoted_any_layout (qs : List QChar) (hq : ∀ q ∈ qs, q.WF) (rest : Str) :
    parseQuoted ('"' :: (qstr qs ++ '"' :: rest)) = .ok rest (qval qs) := parseQuoted_ok qs hq rest

theorem bare_value (s : Str) (hs : IsBare s) (rest : Str) (hr : NW rest) :
    parseUnquoted (s ++ rest) = .ok rest s := parseUnquoted_ok hs hr

theorem identifier (s : Str) (hs : IsIdent s) (rest : Str) (hr : NoHead isIdentRest rest) :
    parseIdent (s ++ rest) = .ok rest s := parseIdent_ok hs hr

/-- rejection: bad escape -/
theorem bad_escape_rejected (qs : List QChar) (hq : ∀ q ∈ qs, q.WF) (e : Char) (he : unesc e = none) (r : Str) :
    parseQuoted ('"' :: (qstr qs ++ '\\' :: e :: r)) = .failure := parseQuoted_bad_escape qs hq e he r

/-- rejection: missing closing quote -/
theorem unterminated_string_rejected (qs : List QChar) (hq : ∀ q ∈ qs, q.WF) :
    parseQuoted ('"' :: qstr qs) = .failure := parseQuoted_unterminated qs hq

end VtProps.C18
