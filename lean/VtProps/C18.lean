import VtProofs.VplTyped
import VtProofs.VplTotal
import VtProofs.VplDepth
import VtProofs.VplProps
import VtProofs.VplCanon
import VtProofs.VplTypes
/-!
# C18 — every well-formed pipeline text parses to the pipeline it describes

Property theorems about `VtModel.Vpl` (model of `versatiles_pipeline/src/vpl/parser.rs`, `vpl_node.rs`,
the `VPLDecode` derive and `factory.rs`).  Helper lemmas: `VtProofs/Vpl{Lex,Value,Tree,Typed}.lean`.

"Pipeline text in the documented syntax" = `render d c` for a written pipeline `c : CPipe d`
(`VtProofs/VplTree.lean`): a syntax tree of nesting depth ≤ `d` together with its layout — every
whitespace slot of the grammar (spaces, tabs, CR, LF), bare or quoted values, raw or escaped characters
inside quotes, scalar or bracketed parameters, repeated keys, empty lists, empty source brackets.
`treeOf d c` is the pipeline it describes (`mkProps` merges repeated keys the way the `BTreeMap` of the
code does: values append in order).  `WF d c` only says that names/keys are identifiers, bare values
are made of `[A-Za-z0-9._-]`, raw characters inside quotes are neither `\` nor `"`.
-/
namespace VtProps.C18
open VtModel.Vpl

/-! ## the main statement -/

/-- **C18 (positive part)**: for every nesting depth, every syntax tree and every layout, the text parses
    to exactly the operations, parameters and nested pipelines it describes. By induction over the depth;
    covers every interaction of lists followed by sources, repeated keys, escapes inside nested pipelines. -/
theorem parse_render (d : Nat) (c : CPipe d) (h : WF d c) (hd : bracketDepth (render d c) ≤ maxNesting) :
    parseVpl (render d c) = .ok (treeOf d c) :=
  parseVpl_render d c h hd

/-- the recursive parser itself needs no bound: the hypothesis `hd` above is only the lexical nesting guard
    that `parse_vpl` applies first since fix be686a0f (at most 64 `[` open outside quotes, value lists
    included), stated on the text exactly as the code computes it -/
theorem parse_render_core (d : Nat) (c : CPipe d) (h : WF d c) : parseVplCore (render d c) = .ok (treeOf d c) :=
  parseVplCore_render d c h

/-- texts nested deeper than the guard allows are rejected with an error — whatever they contain (before
    fix be686a0f about 8000 nested `[` exhausted the native stack of the real parser: finding F16) -/
theorem too_deep_rejected (s : Str) (h : maxNesting < bracketDepth s) : parseVpl s = .err :=
  parseVpl_too_deep s h

/-- the same below any amount of spare recursion fuel, in front of any continuation `,…` / `]…` / end:
    the form used inside source lists -/
theorem parse_render_prefix (d f : Nat) (c : CPipe d) (h : WF d c) (hf : depthOf d c + 2 ≤ f) (tail : Str)
    (ht : StopP tail) : parsePipeline f (render d c ++ tail) = .ok tail (treeOf d c) :=
  pipe_fam_ge d f c h hf tail ht

/-! ## the same over plain syntax trees and layout policies -/

/-- **every syntax tree can be written**: for every well-formed syntax tree `t` (names/keys identifiers, no
    empty pipeline; parameters in text order, keys may repeat), every layout policy `L` and every level `d`
    bounding its nesting there is a written pipeline whose tree is `t` in normal form — the family
    `CPipe d` the main theorem quantifies over misses no syntax tree -/
theorem every_tree_can_be_written (L : Layout) (d : Nat) (t : List Node) (ht : AstWF t) (hd : depthNodes t ≤ d) :
    ∃ c, canonPipe L d t = some c ∧ WF d c ∧ treeOf d c = normNodes t := canonPipe_ok L d t ht hd

/-- **C18 (positive part) over plain syntax trees**: the text of every well-formed syntax tree under every
    layout policy parses to the pipeline the tree describes (guard hypothesis on the text as in `parse_render`) -/
theorem parse_syntax_tree (L : Layout) (t : List Node) (ht : AstWF t)
    (hg : bracketDepth (renderAst L t) ≤ maxNesting) : parseVpl (renderAst L t) = .ok (normNodes t) :=
  parse_ast L t ht hg

/-! ## the nesting limit (fix be686a0f) in terms of the tree -/

/-- what `bracket_depth` computes on the text of a written pipeline is exactly the bracket height of the
    tree (`heightOf`: a source list counts 1 + its content, a value list `k=[…]` counts 1, quoted strings
    count nothing whatever brackets, quotes and backslashes they contain) -/
theorem guard_is_tree_height (d : Nat) (c : CPipe d) (h : WF d c) : bracketDepth (render d c) = heightOf d c :=
  bracketDepth_render d c h

/-- **C18 (positive part, depth hypothesis explicit)**: every written pipeline whose brackets nest at most
    64 deep parses to the pipeline it describes -/
theorem parse_render_depth (d : Nat) (c : CPipe d) (h : WF d c) (hd : heightOf d c ≤ 64) :
    parseVpl (render d c) = .ok (treeOf d c) :=
  parseVpl_render d c h (by rw [bracketDepth_render d c h]; exact hd)

/-- the scanner of the guard tracks quotes and escapes exactly like the lexer: a complete quoted string is
    neutral for it, for every well-formed body (`"C:\\"`, `"\""`, `"[[["`, `""`, …) -/
theorem quoted_string_neutral_for_guard (qs : List QChar) (hq : ∀ q ∈ qs, q.WF) :
    Bal ('"' :: (qstr qs ++ ['"'])) 0 := Bal.quoted qs hq

/-- **beyond the limit: an error behind every lexical prefix and in front of every continuation**: `pre` is
    any text the scanner comes back from (plain characters and complete quoted strings in any order) -/
theorem too_deep_tree_rejected (d : Nat) (c : CPipe d) (h : WF d c) (hd : 64 < heightOf d c) (pre post : Str)
    (hpre : Bal pre 0) : parseVpl (pre ++ (render d c ++ post)) = .err := by
  apply parseVpl_too_deep
  rw [bracketDepth_prefix hpre]
  have := bracketDepth_le_append (render d c) post
  rw [bracketDepth_render d c h] at this
  exact Nat.lt_of_lt_of_le hd this

/-- the same for brackets that are never closed: `pre name[name[name[… post` with more than 64 names -/
theorem deep_opens_rejected (names : List Str) (hn : ∀ n ∈ names, ∀ ch ∈ n, plainChar ch) (hk : 64 < names.length)
    (pre post : Str) (hpre : Bal pre 0) : parseVpl (pre ++ (opens names ++ post)) = .err := by
  apply parseVpl_too_deep
  rw [bracketDepth_prefix hpre]
  have := bracketDepth_le_append (opens names) post
  rw [bracketDepth_opens names hn] at this
  exact Nat.lt_of_lt_of_le hk this

/-- **sequential brackets do not add up** (the "counter confusion" class): any number of balanced pieces one
    after the other — sibling sources, list-valued parameters, `[ ]` after `[ ]` — has the depth of the deepest
    piece; in particular `n` times `[]` has depth ≤ 1 for every `n`, and quoted strings count nothing -/
theorem sequential_brackets_do_not_add_up {X : Type} (chunk : X → Str) (f : X → Nat) (xs : List X)
    (h : ∀ x ∈ xs, Bal (chunk x) (f x)) : bracketDepth ((xs.map chunk).flatten) = listMax f xs :=
  bracketDepth_sequence chunk f xs h

theorem many_empty_lists_are_flat (n : Nat) :
    bracketDepth (((List.replicate n ()).map fun _ => ['[', ']']).flatten) ≤ 1 :=
  bracketDepth_sequence_le (fun _ => ['[', ']']) (fun _ => 1) _ 1 (fun _ _ => Bal.emptyBrackets) (fun _ _ => Nat.le_refl _)

/-- one operation (`parse_node`) against any correct parser for the nested pipelines -/
theorem parse_node {Pc : Type} (pp : P Pipeline) (ps : Pc → Str) (pt : Pc → Pipeline) (wf : Pc → Prop)
    (hpp : PipeOK pp ps pt wf) (herr : PipeErr pp) (n : CNodeF Pc) (hn : n.WF wf) (tail : Str) (ht : Stop tail) :
    parseNode pp (n.str ps ++ tail) = .ok tail (n.tree pt) :=
  node_ok pp ps pt wf hpp herr n hn _ tail ht rfl

/-! ## lexical layer -/

/-- **`parseString (escape s) = s`** inside quotes for *every* string (the empty one included — this is
    the statement that was false before fix d8507268, see `empty_string_needs_opt`). -/
theorem quoted_escape_roundtrip (s rest : Str) :
    parseQuoted ('"' :: (escape s ++ '"' :: rest)) = .ok rest s := parseQuoted_escape s rest

/-- the bare `escaped_transform` reads every non-empty escaped string back … -/
theorem string_escape_roundtrip (s rest : Str) (hs : s ≠ []) :
    parseString (escape s ++ '"' :: rest) = .ok ('"' :: rest) s := parseString_escape s rest hs

/-- … and reports an error on an empty body: `parse_quoted_string` must make the body optional. -/
theorem empty_string_needs_opt (rest : Str) : parseString ('"' :: rest) = .error := parseString_empty_body rest

/-- any mixture of raw and escaped characters (`\n` written raw or as `\` `n`, …) -/
theorem quoted_any_layout (qs : List QChar) (hq : ∀ q ∈ qs, q.WF) (rest : Str) :
    parseQuoted ('"' :: (qstr qs ++ '"' :: rest)) = .ok rest (qval qs) := parseQuoted_ok qs hq rest

theorem bare_value (s : Str) (hs : IsBare s) (rest : Str) (hr : NW rest) :
    parseUnquoted (s ++ rest) = .ok rest s := parseUnquoted_ok hs hr

theorem identifier (s : Str) (hs : IsIdent s) (rest : Str) (hr : NoHead isIdentRest rest) :
    parseIdent (s ++ rest) = .ok rest s := parseIdent_ok hs hr

/-- `parse_value` on bare / quoted / bracketed values with any inner whitespace -/
theorem value (v : CVal) (h : v.WF) (rest : Str) (hr : NW rest) : parseValue (v.str ++ rest) = .ok rest v.vals :=
  parseValue_ok v h rest hr

/-- `parse_property`: `key = value` -/
theorem property (p : CProp) (h : p.WF) (rest : Str) (hr : NW rest) : parseProperty (p.str ++ rest) = .ok rest p.kv :=
  parseProperty_ok p h rest hr

/-! ## text outside the syntax is rejected -/

/-- bad escape -/
theorem bad_escape_rejected (qs : List QChar) (hq : ∀ q ∈ qs, q.WF) (e : Char) (he : unesc e = none) (r : Str) :
    parseQuoted ('"' :: (qstr qs ++ '\\' :: e :: r)) = .failure := parseQuoted_bad_escape qs hq e he r

/-- missing closing quote -/
theorem unterminated_string_rejected (qs : List QChar) (hq : ∀ q ∈ qs, q.WF) :
    parseQuoted ('"' :: qstr qs) = .failure := parseQuoted_unterminated qs hq

/-- missing `=` (whole text): `name <ws> word` not followed by `=` is rejected whatever follows -/
theorem missing_eq_rejected {name k : Str} (hn : IsIdent name) (hk : IsIdent k) (w : Ws1) {r : Str}
    (hr : NoHead isIdentRest r) (hne : ∀ t, dropWs r ≠ '=' :: t) :
    parseVpl (name ++ (w.str ++ (k ++ r))) = .err := parseVpl_missing_eq hn hk w hr hne

/-- unbalanced brackets, one too many (whole text): a complete pipeline followed by `]…` or `,…` is rejected -/
theorem trailing_bracket_rejected (d : Nat) (c : CPipe d) (h : WF d c) (ch : Char) (t : Str)
    (hc : stopPChar ch = true) : parseVpl (render d c ++ ch :: t) = .err := parseVpl_trailing d c h ch t hc

/-- unbalanced brackets, one too few: a source list still open at the end of the text is a hard failure -/
theorem unclosed_sources_rejected {Pc : Type} (pp : P Pipeline) (ps : Pc → Str) (pt : Pc → Pipeline) (wf : Pc → Prop)
    (hpp : PipeOK pp ps pt wf) (p : Pc) (more : List Pc) (hp : wf p) (hm : ∀ q ∈ more, wf q) :
    parseSources pp ('[' :: (ps p ++ (more.map (chunkPipe ps)).flatten)) = .failure :=
  parseSources_unclosed pp ps pt wf hpp p more hp hm

/-- unbalanced brackets, one too few (whole text): `name[ p₁, p₂, …` with the source list still open at the
    end of the text is rejected, for all written pipelines `pᵢ` of every depth and layout -/
theorem missing_bracket_rejected {name : Str} (hn : IsIdent name) (d : Nat) (p : CPipe d) (more : List (CPipe d))
    (hp : WF d p) (hm : ∀ q ∈ more, WF d q) :
    parseVpl (name ++ '[' :: (render d p ++ (more.map (chunkPipe (render d))).flatten)) = .err :=
  parseVpl_unclosed hn d p more hp hm

/-! ## unknown operations, missing and mistyped parameters are rejected -/

theorem unknown_read_operation_rejected (name : Str) (props : List (Str × List Str)) (sources : List (List Node))
    (rest : List Node) (h : findOp true name = none) : buildPipeline (.mk name props sources :: rest) = none :=
  build_unknown_read name props sources rest h

theorem unknown_transform_operation_rejected (fmt name : Str) (props : List (Str × List Str))
    (sources : List (List Node)) (rest : List Node) (h : findOp false name = none) :
    buildTail fmt (.mk name props sources :: rest) = none := build_unknown_transform fmt name props sources rest h

theorem missing_required_rejected (props : List (Str × List Str)) (f : Str) (h : lookupProp props f = none) :
    fieldOk props f .strReq = false ∧ fieldOk props f .u8Req = false ∧ fieldOk props f .f64x4Req = false :=
  fieldOk_missing_required props f h

theorem mistyped_number_rejected (props : List (Str × List Str)) (f v : Str)
    (h : lookupProp props f = some [v]) (hv : parseUnsigned 255 v = none) :
    fieldOk props f .u8Opt = false ∧ fieldOk props f .u8Req = false := fieldOk_bad_u8 props f v h hv

/-- holds since fix 399e7529; before it every unknown word was silently `false` -/
theorem mistyped_bool_rejected (props : List (Str × List Str)) (f v : Str) (h : lookupProp props f = some [v])
    (hw : ∀ w ∈ ["1", "true", "yes", "ok", "0", "false", "no"], lower (trimWs v) ≠ w.toList) :
    fieldOk props f .bool = false := fieldOk_bad_bool props f v h hw

theorem mistyped_array_rejected (props : List (Str × List Str)) (f : Str) (vs : List Str)
    (h : lookupProp props f = some vs) (hb : vs.length ≠ 4 ∨ vs.all floatOk = false) :
    fieldOk props f .f64x4Req = false ∧ fieldOk props f .f64x4Opt = false := fieldOk_bad_array props f vs h hb

theorem multi_valued_scalar_rejected (props : List (Str × List Str)) (f : Str) (vs : List Str)
    (h : lookupProp props f = some vs) (hl : vs.length ≠ 1) :
    fieldOk props f .strReq = false ∧ fieldOk props f .strOpt = false ∧ fieldOk props f .bool = false ∧
    fieldOk props f .u8Req = false ∧ fieldOk props f .u8Opt = false ∧ fieldOk props f .u32Opt = false ∧
    fieldOk props f .f32Opt = false := fieldOk_not_single props f vs h hl

/-- a field that does not decode, or (since fix 0e93cdd6) a parameter the operation does not declare,
    fails the operation … -/
theorem bad_field_fails_operation (props : List (Str × List Str)) (fields : List (Str × PTy)) (f : Str) (ty : PTy)
    (hm : (f, ty) ∈ fields) (h : fieldOk props f ty = false) : decodeOk props fields = false :=
  decodeOk_field props fields f ty hm h

theorem unknown_parameter_fails_operation (props : List (Str × List Str)) (fields : List (Str × PTy)) (k : Str)
    (vs : List Str) (hk : (k, vs) ∈ props) (hn : ∀ f ∈ fields, f.1 ≠ k) : decodeOk props fields = false :=
  decodeOk_unknown_key props fields k vs hk hn

/-- … and with it the whole pipeline -/
theorem bad_parameters_fail_pipeline (name : Str) (props : List (Str × List Str)) (sources : List (List Node))
    (rest : List Node) (o : OpSig) (h : findOp true name = some o) (hd : decodeOk props o.fields = false) :
    buildPipeline (.mk name props sources :: rest) = none := build_read_decode name props sources rest o h hd

theorem bad_parameters_fail_transform (fmt name : Str) (props : List (Str × List Str)) (sources : List (List Node))
    (rest : List Node) (o : OpSig) (h : findOp false name = some o) (hd : decodeOk props o.fields = false) :
    buildTail fmt (.mk name props sources :: rest) = none := build_tran_decode fmt name props sources rest o h hd

/-! ## the typed getters, type by type: `decode (show v) = v`, out of range ⇒ error, absent ⇒ None / default -/

theorem u8_value_roundtrip (f : Str) (n : Nat) (h : n ≤ 255) : getUnsigned 255 [(f, [decimal n])] f = .val n :=
  u8_roundtrip f n h
/-- no narrowing: `256`, `257`, … are errors, not `0`, `1`, … -/
theorem u8_above_max_rejected (f : Str) (n : Nat) (h : 255 < n) : getUnsigned 255 [(f, [decimal n])] f = .err :=
  u8_out_of_range f n h
theorem u32_value_roundtrip (f : Str) (n : Nat) (h : n ≤ 4294967295) :
    getUnsigned 4294967295 [(f, [decimal n])] f = .val n := u32_roundtrip f n h
theorem u32_above_max_rejected (f : Str) (n : Nat) (h : 4294967295 < n) :
    getUnsigned 4294967295 [(f, [decimal n])] f = .err := u32_out_of_range f n h
theorem negative_unsigned_rejected (max : Nat) (t : Str) : parseUnsigned max ('-' :: t) = none :=
  unsigned_minus_rejected max t
theorem bool_value_roundtrip (f : Str) (b : Bool) : getBool [(f, [showBool b])] f = .val b := bool_roundtrip f b
theorem bool_absent_is_false (props : List (Str × List Str)) (f : Str) (h : lookupProp props f = none) :
    getBool props f = .val false := bool_default props f h
theorem string_value_roundtrip (f v : Str) : getProperty [(f, [v])] f = .val v := string_roundtrip f v
theorem optional_absent_is_none (props : List (Str × List Str)) (f : Str) (h : lookupProp props f = none) :
    getProperty props f = .absent ∧ getUnsigned 255 props f = .absent ∧ getUnsigned 4294967295 props f = .absent ∧
    getFloat props f = .absent ∧ getArray4 props f = .absent ∧ required (getProperty props f) = .err :=
  optional_absent props f h
/-- floats: whole numbers written in decimal are accepted with exactly that value (f64 rounding of other
    decimals is outside the model; the harness compares whole values below 2^24 exactly) -/
theorem float_whole_numbers (n : Nat) : floatOk (decimal n) = true ∧ decimalParts (decimal n) = some (false, n, 0) :=
  float_accepts_integers n
theorem array4_value_roundtrip (f : Str) (a b c d : Nat) :
    getArray4 [(f, [decimal a, decimal b, decimal c, decimal d])] f = .val [decimal a, decimal b, decimal c, decimal d] :=
  array4_roundtrip f a b c d
theorem array4_other_lengths_rejected (f : Str) (vs : List Str) (h : vs.length ≠ 4) : getArray4 [(f, vs)] f = .err :=
  array4_wrong_length f vs h

/-! ## the registered operations, geographic boxes, file names -/

/-- every operation of the table (= the documentation of the registered factories, compared on every run by
    the `C18 docs` stream) is found under its name in its position — read or transform — and not in the other -/
theorem operation_table_consistent :
    ∀ o ∈ opTable, findOp o.read o.name = some o ∧ findOp (!o.read) o.name = none := findOp_table

/-- `filter_bbox`: four numbers, or nothing is built; numbers that fail `GeoBBox::check` (reversed, out of
    range, inf, nan) fail the pipeline -/
theorem bbox_needs_four (vs : List Str) (h : bboxOk vs = true) : vs.length = 4 := bboxOk_length vs h
theorem bad_bbox_fails_pipeline (fmt : Str) (props : List (Str × List Str)) (sources : List (List Node))
    (rest : List Node) (h : bboxOk ((lookupProp props "bbox".toList).getD []) = false) :
    buildTail fmt (.mk "filter_bbox".toList props sources :: rest) = none := build_bad_bbox fmt props sources rest h

/-- `from_container filename=…`: "relative to the path of the VPL file" — an absolute name stands for itself,
    a relative one goes behind the directory, and the name is resolved once (fix 2ce988ce; resolving twice, as
    the code did, differs for every relative directory: `file_name_resolved_twice_differs`) -/
theorem absolute_file_name (dir t : Str) : readerPath dir ('/' :: t) = '/' :: t := pathJoin_absolute dir t
theorem relative_file_name (dir name : Str) (hn : ∀ t, name ≠ '/' :: t) (hd : dir ≠ []) (hs : dir.getLast? ≠ some '/') :
    readerPath dir name = dir ++ '/' :: name := pathJoin_relative dir name hn hd hs
theorem file_name_resolved_twice_differs :
    pathJoin "rel".toList (pathJoin "rel".toList "x".toList) ≠ pathJoin "rel".toList "x".toList := double_join_differs

example : bboxOk ["10".toList, "20".toList, "5".toList, "30".toList] = false := by decide
example : bboxOk ["-180".toList, "-90".toList, "180.0".toList, "9e1".toList] = true := by decide
example : bboxOk ["0".toList, "0".toList, "nan".toList, "1".toList] = false := by decide

/-! ## the parameter map (`BTreeMap<String, Vec<String>>` of `parse_node`) -/

/-- the keys of the map come out strictly ascending, each once (BTreeMap iteration order) -/
theorem props_sorted (l : List (Str × List Str)) : Sorted (mkProps l) := mkProps_sorted l

/-- **repeated keys append in text order**: looking a key up gives all the values written for it, in the order
    of the text (`valsOf`), and nothing for keys that were not written -/
theorem props_repeated_keys_append (l : List (Str × List Str)) (k : Str) :
    lookupProp (mkProps l) k = if hasKey k l then some (valsOf k l) else none := lookup_mkProps l k

/-- the map does not depend on how parameters of different keys are interleaved in the text -/
theorem props_order_independent (l1 l2 : List (Str × List Str))
    (h : ∀ k, hasKey k l1 = hasKey k l2 ∧ valsOf k l1 = valsOf k l2) : mkProps l1 = mkProps l2 :=
  mkProps_order_independent l1 l2 h

/-- for a written operation: the parsed operation carries, under each key, the values of all its `key=…`
    parameters in text order -/
theorem node_parameters {Pc : Type} (pt : Pc → Pipeline) (n : CNodeF Pc) (k : Str) :
    (match n.tree pt with | .mk _ props _ => lookupProp props k) =
      if hasKey k (n.props.map fun x => x.2.kv) then some (valsOf k (n.props.map fun x => x.2.kv)) else none :=
  lookup_mkProps _ k

/-! ## the order of the operations that are built -/

/-- `VPLPipeline::split`: the head and the other operations **in text order** (a `swap_remove(0)` instead of
    `remove(0)` would hand `[t3, t1, t2]` to the factory) -/
theorem split_keeps_order (n : Node) (ns : List Node) : splitPipeline (n :: ns) = some (n, ns) := rfl

/-- for every written pipeline: what `build_pipeline` receives is the first operation of the text and the
    remaining operations of the text, in the order of the text -/
theorem split_of_render (d : Nat) (c : CPipe d) :
    splitPipeline (treeOf d c) = some (nodeTree d c.first, c.more.map (nodeTree d)) := rfl

/-- the built operation nests the transform stages in text order: `r | t1 | t2` is `t2(t1(r))`, so its
    description shows `t2`, then `t1`, then the read operation with its sources -/
theorem stages_nest_in_text_order (r t1 t2 : Node) :
    markersPipeline [r, t1, t2] = markerOf t2 ++ (markerOf t1 ++ markersRead r) := by
  simp [markersPipeline]

/-! ## totality of the model (the statement C19 relies on for the VPL entry point) -/

/-- for **every** text the verdict of the parser model is a pipeline or an error: the recursion fuel
    (text length + 1) never runs out, there is no third outcome and nothing that could panic -/
theorem verdict_total (s : Str) : (∃ p, parseVpl s = .ok p) ∨ parseVpl s = .err := by
  have h := parseVpl_ne_oof s
  cases hv : parseVpl s with
  | ok p => exact Or.inl ⟨p, rfl⟩
  | err => exact Or.inr rfl
  | oof => rw [hv] at h; exact h.elim

/-! ## non-vacuity: a concrete written pipeline, its text, its well-formedness

`a\tk="x y" k=[1 , "\""][ b|c,d ]`  -/

def sp : Ws := [.sp]
def leaf (pre : Ws) (name : String) (post : Ws) : CNode 0 :=
  { pre := pre, name := name.toList, props := [], wS := [], srcs := none, post := post }

def exNode : CNode 1 :=
  { pre := [], name := "a".toList,
    props := [ (⟨.tab, []⟩, ⟨"k".toList, [], [], .scalar (.quoted [.raw 'x', .raw ' ', .raw 'y'])⟩),
               (⟨.sp, []⟩, ⟨"k".toList, [], [], .list [] (some (.bare "1".toList, [(sp, sp, .quoted [.esc .quote])])) []⟩) ],
    wS := [],
    srcs := some (.some ⟨leaf sp "b" [], [leaf [] "c" []]⟩ [⟨leaf [] "d" sp, []⟩]),
    post := [] }
def exPipe : CPipe 1 := ⟨exNode, []⟩

/-- the worked example passes the nesting guard: one level of brackets -/
example : bracketDepth (render 1 exPipe) = 1 := by decide
example : heightOf 1 exPipe = 1 := by decide

example : render 1 exPipe = "a\tk=\"x y\" k=[1 , \"\\\"\"][ b|c,d ]".toList := by decide

example : WF 1 exPipe := by
  refine ⟨⟨⟨'a', [], rfl, rfl, by simp⟩, ?_, ?_⟩, by simp [exPipe]⟩
  · intro x hx
    simp only [exPipe, exNode, List.mem_cons, List.not_mem_nil, or_false] at hx
    rcases hx with rfl | rfl
    · refine ⟨⟨'k', [], rfl, rfl, by simp⟩, ?_⟩
      intro q hq
      simp only [List.mem_cons, List.not_mem_nil, or_false] at hq
      rcases hq with rfl | rfl | rfl <;> exact ⟨by decide, by decide⟩
    · refine ⟨⟨'k', [], rfl, rfl, by simp⟩, ⟨by decide, by decide⟩, ?_⟩
      intro x hx
      simp only [List.mem_cons, List.not_mem_nil, or_false] at hx
      subst hx
      intro q hq
      simp only [List.mem_cons, List.not_mem_nil, or_false] at hq
      subst hq; trivial
  · have hl : ∀ (pre post : Ws) (c : Char), nodeWF 0 (leaf pre (String.singleton c) post) ↔ isAlpha c = true := by
      intro pre post c
      constructor
      · rintro ⟨⟨c', t, e, hc, _⟩, _⟩
        have : (String.singleton c).toList = [c] := by simp
        simp only [leaf, this, List.cons.injEq] at e
        rw [e.1]; exact hc
      · intro hc
        refine ⟨⟨c, [], by simp [leaf], hc, by simp⟩, by simp [leaf], trivial⟩
    refine ⟨⟨(hl _ _ 'b').2 rfl, ?_⟩, ?_⟩
    · intro n hn
      simp only [List.mem_cons, List.not_mem_nil, or_false] at hn
      subst hn; exact (hl _ _ 'c').2 rfl
    · intro q hq
      simp only [List.mem_cons, List.not_mem_nil, or_false] at hq
      subst hq
      exact ⟨(hl _ _ 'd').2 rfl, by simp⟩

/-- the pipeline the worked example describes: the repeated key `k` collects `x y`, `1`, `"` in order -/
example : treeOf 1 exPipe =
    [Node.mk "a".toList [("k".toList, ["x y".toList, "1".toList, "\"".toList])]
      [[.mk "b".toList [] [], .mk "c".toList [] []], [.mk "d".toList [] []]]] := by rfl

/-- a syntax tree under a layout policy (single spaces, bare where possible), and its text -/
def exLayout : Layout :=
  { pre := [], post := [], sep := ⟨.sp, []⟩, wa := [], wb := [], l0 := [], la := [], lb := [.sp], l1 := [],
    wS := [.sp], wEmpty := [], quoteAll := false, bracketSingle := false, emptyBrackets := false,
    escNl := true, escTab := true }
def exAst : List Node :=
  [.mk "a".toList [("k".toList, ["x y".toList]), ("n".toList, ["1".toList, "2".toList])] [[.mk "b".toList [] []]],
   .mk "c".toList [] []]
example : renderAst exLayout exAst = "a k=\"x y\" n=[1, 2] [b ]|c ".toList := by decide

/-! ## concrete verdicts evaluated by the kernel (small texts; larger ones run in the compiled driver) -/

def isErr : Verdict → Bool | .err => true | _ => false
def isOk : Verdict → Bool | .ok _ => true | _ => false

example : isErr (parseVpl "a k".toList) = true := by decide
example : isErr (parseVpl "a [b".toList) = true := by decide
/-- `key=""` — rejected before fix d8507268 — is a pipeline -/
example : isOk (parseVpl "a k=\"\"".toList) = true := by decide
/-- `fast=banana` — silently `false` before fix 399e7529 — is an error, `fast=yes` is fine -/
example : fieldOk [("fast".toList, ["banana".toList])] "fast".toList .bool = false := by decide
example : (buildPipeline [.mk "from_debug".toList
    [("fast".toList, ["banana".toList]), ("format".toList, ["pbf".toList])] []]).isSome = false := by decide
example : (buildPipeline [.mk "from_debug".toList
    [("fast".toList, ["yes".toList]), ("format".toList, ["pbf".toList])] []]).isSome = true := by decide

end VtProps.C18
