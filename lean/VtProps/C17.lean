import VtProofs.JsonGrammar
import VtProofs.JsonTotal
import VtProofs.Ndjson
import VtProofs.TileJsonText
/-!
# C17 — JSON round trips and containers hand back the TileJSON they were given

Property theorems about `VtModel.Json` (model of `versatiles_core/src/json/**` and
`byte_iterator/**`) and `VtModel.TileJson`.  Helper lemmas live in `VtProofs/Json*.lean`.
-/
namespace VtProps.C17
open VtModel.Json VtProofs.Json

/-- `parse_quoted_json_string` applied to `"` + escaped text + `"` -/
def unescape (bs : Bytes) : Res (List Char) :=
  (parseQuotedString (Iter.start (0x22 :: (bs ++ [0x22])))).map (·.1)

/-- **C17a**: `unescape (escape s) = s` for every string of Unicode scalar values (`Char` is
    exactly the type of scalar values: surrogates are excluded by its validity proof). -/
theorem unescape_escape (s : List Char) : unescape (escape s) = .ok s := by
  unfold unescape Iter.start
  have := parseQuotedString_quote s [] [] true
  simp only [quote, List.append_nil] at this
  rw [this]; rfl

/-- the same inside any context: the string parser consumes exactly the quoted text and leaves
    the iterator in front of whatever follows. -/
theorem parse_quoted (s : List Char) (pre tail : Bytes) (dbg : Bool) :
    parseQuotedString { pre := pre, rest := quote s ++ tail, debug := dbg }
      = .ok (s, { pre := (quote s).reverse ++ pre, rest := tail, debug := dbg }) :=
  parseQuotedString_quote s pre tail dbg

/-- `String::from_utf8(s.into_bytes()) = Ok(s)` (core's verified UTF-8 decoder) -/
theorem utf8_roundtrip (s : List Char) : fromUtf8 (utf8 s) = some s := fromUtf8_utf8 s

/-! ### values -/

variable {N : Type}

/-- **C17b (in context)**: wherever a `stringify` output stands in the input — followed by nothing,
    `,`, `]` or `}` — `parse_json_iter` returns exactly the value and stops right behind it.
    `WF v`: object keys strictly increasing at every level (what a `BTreeMap` holds);
    `NumLaws`: `parse(to_string(x)) = x` and `to_string(x)` has the shape `-?(0|[1-9]d*)(.d+)?`
    (the external f64 law, tested on the real f64 in every run). -/
theorem parse_stringify_in_context (ops : NumOps N) (laws : NumLaws ops) (v : JsonValue N) (hv : WF v)
    (pre tail : Bytes) (dbg : Bool) (ht : Stop tail) (fuel d : Nat) (hf : need v ≤ fuel)
    (hd : d + depth v ≤ maxNesting) :
    parseValue ops fuel d { pre := pre, rest := stringify ops v ++ tail, debug := dbg }
      = .ok (v, { pre := (stringify ops v).reverse ++ pre, rest := tail, debug := dbg }) :=
  parseValue_stringify ops laws v fuel d pre tail dbg ht hf hv hd

/-- **C17b**: `parse_json_str(stringify(v)) = Ok(v)` for every value tree whose arrays/objects are
    nested at most 1024 deep (the limit `MAX_NESTING_DEPTH` that /repo f7196604 introduced so that the
    recursive parser cannot overflow the stack; deeper documents are rejected by design, see
    `nesting_limit`) — any strings, any numbers satisfying the f64 law.  In particular the fuel that
    `parseBytes` hands to the recursive functions is always sufficient. -/
theorem parse_stringify (ops : NumOps N) (laws : NumLaws ops) (v : JsonValue N) (hv : WF v)
    (hd : depth v ≤ maxNesting) :
    parseBytes ops (stringify ops v) = .ok v := by
  unfold parseBytes Iter.start
  have hf : need v ≤ fuelFor (stringify ops v) := by
    have := need_le ops v
    unfold fuelFor; omega
  have := parseValue_stringify ops laws v (fuelFor (stringify ops v)) 0 [] [] true
    (by intro b r e; cases e) hf hv (by omega)
  simp only [List.append_nil] at this
  rw [this]; rfl

/-- the nesting limit: with 1024 containers already open, a further `[` or `{` is an error,
    whatever follows (`enter_nested`) -/
theorem nesting_limit (ops : NumOps N) (f d : Nat) (hd : maxNesting ≤ d) (pre rest : Bytes) (dbg : Bool)
    (b : UInt8) (hb : b = 0x5b ∨ b = 0x7b) :
    parseValue ops (f + 1) d { pre := pre, rest := b :: rest, debug := dbg } = .err := by
  have hge : d ≥ maxNesting := hd
  rcases hb with rfl | rfl
  · simp only [parseValue]
    rw [skipWs_nonws _ 0x5b rest rfl (by decide)]
    simp [hge, formatError]
  · simp only [parseValue]
    rw [skipWs_nonws _ 0x7b rest rfl (by decide)]
    simp [hge, formatError]

/-- **C17c**: every `stringify` output is a JSON text in the sense of RFC 8259 (grammar of §2–§7
    as inductive predicates in `VtProofs/JsonGrammar.lean`), hence accepted by any conforming
    parser. -/
theorem stringify_in_rfc8259 (ops : NumOps N) (laws : NumLaws ops) (v : JsonValue N) :
    RfcText (stringify ops v) := by
  have := RfcText.mk [] _ [] rfcWs_nil (stringify_rfc ops laws v) rfcWs_nil
  simpa using this

/-- escaped strings stay inside the RFC string grammar (control characters, quotes and
    backslashes never appear raw) -/
theorem escape_in_rfc8259 (s : List Char) : RfcString (quote s) := quote_rfc s

/-- what `BTreeMap::from_iter` builds from entries that are already strictly sorted is the list itself -/
theorem object_from_sorted {V : Type} (kvs : List (List Char × V)) (h : SortedKeys kvs) : mkObj kvs = kvs :=
  mkObj_sorted kvs h

/-! ### totality on arbitrary input -/

/-- **C17h**: the parser model is total on EVERY byte string, not only on `stringify` output:
    `parseBytes` never reports "out of fuel" (fuel `2·|input| + 4`; every recursive call is paid for
    by a consumed structural byte) and never a panic — each input is answered `ok v` or `err`. -/
theorem parse_total (ops : NumOps N) (input : Bytes) :
    (∃ v, parseBytes ops input = .ok v) ∨ parseBytes ops input = .err := by
  have h1 := parseBytes_total ops input
  cases h : parseBytes ops input with
  | ok v => exact Or.inl ⟨v, rfl⟩
  | err => exact Or.inr rfl
  | panic s => exact absurd h (parseBytes_no_panic ops input s)
  | fuel => exact absurd h h1

/-- fuel bound in the recursive form (any iterator state): `2·|rest| + 3` suffices for a value and
    a successful parse never leaves more input than it was given -/
theorem parseValue_total (ops : NumOps N) (it : Iter) (f d : Nat) (hf : 2 * it.rest.length + 3 ≤ f) :
    Good it.rest.length (parseValue ops f d it) := (total_aux ops f).1 d it hf

/-! ### NDJSON reader (`json/read.rs`) -/

/-- the reader handles every line on its own: items of `line ++ "\n" ++ rest` = item of `line`
    (none if blank) followed by the items of `rest` -/
theorem ndjson_per_line (ops : NumOps N) (a rest : Bytes) (h : ∀ b ∈ a, b ≠ 0x0a) :
    VtModel.Ndjson.readNdjson ops (a ++ 0x0a :: rest)
      = (VtModel.Ndjson.processLine ops (a ++ [0x0a])).toList ++ VtModel.Ndjson.readNdjson ops rest :=
  VtProofs.Ndjson.readNdjson_split ops a rest h

/-- every item is a value or an error, for every byte string (no panic, no exhausted fuel) -/
theorem ndjson_ok_or_err (ops : NumOps N) (input : Bytes) :
    ∀ r ∈ VtModel.Ndjson.readNdjson ops input, (∃ v, r = .ok v) ∨ r = .err :=
  VtProofs.Ndjson.readNdjson_ok_or_err ops input

/-! ### non-vacuity -/

/-- a (tiny) number type satisfying the laws: `false ↦ "-0"`, `true ↦ "12.5"` -/
def demoOps : NumOps Bool where
  show_ := fun b => if b then [0x31, 0x32, 0x2e, 0x35] else [0x2d, 0x30]
  read := fun lx => if lx = [0x31, 0x32, 0x2e, 0x35] then some true else if lx = [0x2d, 0x30] then some false else none

theorem demoLaws : NumLaws demoOps where
  read_show := by intro n; cases n <;> simp [demoOps]
  lex := by
    intro n
    cases n
    · have := NumLex.mk true [0x30] [] false (by simp) (by intro b hb; simp at hb; subst hb; decide) (Or.inl rfl) (by simp)
      simpa [demoOps] using this
    · have := NumLex.mk false [0x31, 0x32] [0x35] true (by simp)
        (by intro b hb; simp at hb; rcases hb with rfl | rfl <;> decide)
        (Or.inr (by intro d r e; simp at e; rw [← e.1]; decide))
        (by intro _; exact ⟨by simp, by intro b hb; simp at hb; subst hb; decide⟩)
      simpa [demoOps] using this

def demoValue : JsonValue Bool :=
  .obj [(['a'], .arr [.num true, .null, .str ['"', '\\', '\n', 'é', '😊', Char.ofNat 0x85]]), (['b', '"'], .obj []), (['é'], .num false)]

example : WF demoValue := by
  simp only [demoValue, WF, WFL, WFM, SortedKeys, and_true, List.pairwise_cons, List.Pairwise.nil]
  decide

example : parseBytes demoOps (stringify demoOps demoValue) = .ok demoValue :=
  parse_stringify demoOps demoLaws demoValue (by
    simp only [demoValue, WF, WFL, WFM, SortedKeys, and_true, List.pairwise_cons, List.Pairwise.nil]
    decide) (by simp [demoValue, depth, depthL, depthM, maxNesting])

/-! ### TileJSON: `update_from_pyramid` only narrows -/

section tilejson
open VtModel.TileJson VtProofs.TileJson
variable {M : Type} (nu : TjNum M)

/-- the document fields that `update_from_pyramid` must not touch -/
theorem update_frame (t : TileJSON M) (bbox : Option (M × M × M × M)) (zmin zmax : Option Nat) :
    (updateFromPyramid nu t bbox zmin zmax).center = t.center ∧
    (updateFromPyramid nu t bbox zmin zmax).layers = t.layers ∧
    ∀ k : Key, k ≠ kMinzoom → k ≠ kMaxzoom →
      lookupKV k (updateFromPyramid nu t bbox zmin zmax).values = lookupKV k t.values := by
  cases bbox <;> cases zmin <;> cases zmax <;>
    (refine ⟨rfl, rfl, ?_⟩
     intro k h1 h2
     simp [updateFromPyramid, limitBBox, limitMinZoom, limitMaxZoom,
       lookup_updateByte_other _ _ _ h1, lookup_updateByte_other _ _ _ h2])

/-- **C17e (bounds)**: `bounds' = bounds ∩ b` (`b` alone when the document had none; untouched
    when the pyramid is empty). -/
theorem update_bounds (t : TileJSON M) (bbox : Option (M × M × M × M)) (zmin zmax : Option Nat) :
    (updateFromPyramid nu t bbox zmin zmax).bounds =
      match bbox, t.bounds with
      | some b, some sb => some (intersectBox nu sb b)
      | some b, none => some b
      | none, old => old := by
  cases bbox <;> cases zmin <;> cases zmax <;> cases hb : t.bounds <;>
    simp [updateFromPyramid, limitBBox, limitMinZoom, limitMaxZoom, hb]

/-- **C17e (minzoom)**: `minzoom' = max(minzoom, z)` (`z` when absent or not a byte) -/
theorem update_minzoom (t : TileJSON M) (bbox : Option (M × M × M × M)) (z : Nat) (zmax : Option Nat) :
    getByte? (updateFromPyramid nu t bbox (some z) zmax).values kMinzoom =
      some (match getByte? t.values kMinzoom with | some m => Nat.max m z | none => z) := by
  cases bbox <;> cases zmax <;>
    simp only [updateFromPyramid, limitBBox, limitMinZoom, limitMaxZoom]
  all_goals first
    | exact getByte_updateByte_same _ _ _
    | (simp only [getByte?, lookup_updateByte_other _ _ _ kMin_ne_kMax]
       exact getByte_updateByte_same _ _ _)

/-- **C17e (maxzoom)**: `maxzoom' = min(maxzoom, z)` -/
theorem update_maxzoom (t : TileJSON M) (bbox : Option (M × M × M × M)) (zmin : Option Nat) (z : Nat) :
    getByte? (updateFromPyramid nu t bbox zmin (some z)).values kMaxzoom =
      some (match getByte? t.values kMaxzoom with | some m => Nat.min m z | none => z) := by
  cases bbox <;> cases zmin <;>
    simp only [updateFromPyramid, limitBBox, limitMinZoom, limitMaxZoom]
  all_goals first
    | exact getByte_updateByte_same _ _ _
    | (rw [getByte_updateByte_same]
       simp only [getByte?, lookup_updateByte_other _ _ _ kMin_ne_kMax.symm]
       rfl)
    | (rw [getByte_updateByte_same]
       simp only [getByte?, lookup_updateByte_other _ _ _ kMin_ne_kMax.symm])

/-- the zoom range never grows: `minzoom ≤ minzoom'`, `z ≤ minzoom'`, `maxzoom' ≤ maxzoom`, `maxzoom' ≤ z` -/
theorem update_zoom_narrows (t : TileJSON M) (bbox : Option (M × M × M × M)) (z0 z1 : Nat) :
    (∃ m', getByte? (updateFromPyramid nu t bbox (some z0) (some z1)).values kMinzoom = some m' ∧ z0 ≤ m' ∧
        ∀ m, getByte? t.values kMinzoom = some m → m ≤ m') ∧
    (∃ m', getByte? (updateFromPyramid nu t bbox (some z0) (some z1)).values kMaxzoom = some m' ∧ m' ≤ z1 ∧
        ∀ m, getByte? t.values kMaxzoom = some m → m' ≤ m) := by
  refine ⟨⟨_, update_minzoom nu t bbox z0 (some z1), ?_, ?_⟩, ⟨_, update_maxzoom nu t bbox (some z0) z1, ?_, ?_⟩⟩
  · cases getByte? t.values kMinzoom <;> simp [Nat.le_max_right]
  · intro m hm; simp [hm, Nat.le_max_left]
  · cases getByte? t.values kMaxzoom <;> simp [Nat.min_le_right]
  · intro m hm; simp [hm, Nat.min_le_left]

/-- order laws of `f64::max` / `f64::min` on non-NaN values -/
structure OrdLaws (le : M → M → Prop) : Prop where
  le_max_left : ∀ a b, le a (nu.max a b)
  le_max_right : ∀ a b, le b (nu.max a b)
  min_le_left : ∀ a b, le (nu.min a b) a
  min_le_right : ∀ a b, le (nu.min a b) b

/-- the intersection lies inside both boxes: lower edges not below, upper edges not above -/
theorem intersect_inside (le : M → M → Prop) (h : OrdLaws nu le) (a b : M × M × M × M) :
    let r := intersectBox nu a b
    (le a.1 r.1 ∧ le a.2.1 r.2.1 ∧ le r.2.2.1 a.2.2.1 ∧ le r.2.2.2 a.2.2.2) ∧
    (le b.1 r.1 ∧ le b.2.1 r.2.1 ∧ le r.2.2.1 b.2.2.1 ∧ le r.2.2.2 b.2.2.2) := by
  simp only [intersectBox]
  exact ⟨⟨h.le_max_left _ _, h.le_max_left _ _, h.min_le_left _ _, h.min_le_left _ _⟩,
         ⟨h.le_max_right _ _, h.le_max_right _ _, h.min_le_right _ _, h.min_le_right _ _⟩⟩

/-- non-vacuity of `OrdLaws`: integers -/
example : OrdLaws (M := Int) { ofByte := fun n => n, toByte? := fun _ => none, asU8 := fun _ => 0, max := max, min := min } (· ≤ ·) :=
  ⟨Int.le_max_left, Int.le_max_right, Int.min_le_left, Int.min_le_right⟩

/-! ### TileJSON ↔ JSON object -/

/-- string / list / byte values survive `as_json_value` → `TileJsonValue::try_from` -/
theorem tilejson_value_roundtrip (laws : TjLaws nu) (x : TJValue) (h : TJValue.WF x) :
    TJValue.ofJson nu (TJValue.toJson nu x) = some x := value_roundtrip nu laws x h

theorem tilejson_bounds_roundtrip (b : M × M × M × M) : boundsOfJson (boundsToJson b) = some b :=
  bounds_roundtrip b

theorem tilejson_center_roundtrip (laws : TjLaws nu) (c : M × M × Nat) (h : c.2.2 < 256) :
    centerOfJson nu (centerToJson nu c) = some c := center_roundtrip nu laws c h

/-- **C17d (partial)** — full statement: `fromObject (asObject t) = some t` for every well-formed
    `TileJSON` (sorted maps, bytes < 256, `tilejson` key present, no generic value under the keys
    `bounds`/`center`/`vector_layers`).  Proved here for all documents without the three typed
    fields (arbitrarily many string/list/byte values under arbitrary other keys) and, separately,
    for each typed field's own conversion (`tilejson_bounds_roundtrip`, `tilejson_center_roundtrip`).
    Missing for the full statement: commuting the three typed insertions of `as_object` past the
    generic ones in the `from_object` loop, and the nested object built per vector layer.  The full
    statement is exercised on the real code by the oracle `tj-object-roundtrip` and against the
    model by stream `C17t` on every run. -/
theorem fromObject_asObject_partial (laws : TjLaws nu) (A B : List (Key × TJValue)) (w : TJValue)
    (hs : SortedKeys (A ++ (kTilejson, w) :: B))
    (hk : ∀ p ∈ A ++ (kTilejson, w) :: B, ¬ Typed p.1)
    (hw : ∀ p ∈ A ++ (kTilejson, w) :: B, TJValue.WF p.2) :
    let t : TileJSON M := { bounds := none, center := none, values := A ++ (kTilejson, w) :: B, layers := [] }
    fromObject nu (asObject nu t) = some t :=
  fromObject_asObject_values nu laws A B w hs hk hw

/-- **C17d**: `from_object(as_object(t)) = Ok(t)` for EVERY well-formed TileJSON document
    (`DocWF`: the maps are strictly sorted as `BTreeMap`s are, `values` holds the key `tilejson`
    as every Rust `TileJsonValues` does, no generic value sits under `bounds`/`center`/
    `vector_layers`, bytes and zooms are `u8`): any combination of bounds, center, vector layers
    (any number of layers, each with any fields/description/minzoom/maxzoom) and string / list /
    byte values. -/
theorem fromObject_asObject (laws : TjLaws nu) (t : TileJSON M) (h : DocWF t) :
    fromObject nu (asObject nu t) = some t := fromObject_asObject_full nu laws t h

/-- one vector layer survives `as_json_object` + `id` → `VectorLayers::from_json` -/
theorem tilejson_layer_roundtrip (laws : TjLaws nu) (id : Key) (l : VectorLayer) (hw : LayerWF l) :
    layerOfJson nu (layerToJson nu id l) = some (id, l) := layer_roundtrip nu laws id l hw

/-- non-vacuity: a number type satisfying `TjLaws`, and a document satisfying the hypotheses -/
def natNum : TjNum Nat :=
  { ofByte := id, toByte? := fun n => if n ≤ 255 then some n else none, asU8 := fun n => if n ≤ 255 then n else 255, max := Nat.max, min := Nat.min }

theorem natLaws : TjLaws natNum where
  byte_rt := by intro b h; simp [natNum]; omega
  u8_rt := by intro b h; simp [natNum]; omega

example :
    let vals : List (Key × TJValue) :=
      [("maxzoom".toList, .byte 14), ("name".toList, .str "a\"b".toList)] ++ (kTilejson, .str "3.0.0".toList) :: [("tiles".toList, .list ["x".toList])]
    fromObject natNum (asObject natNum { bounds := none, center := none, values := vals, layers := [] })
      = some { bounds := none, center := none, values := vals, layers := [] } := by
  intro vals
  refine fromObject_asObject_partial natNum natLaws _ _ _ ?_ ?_ ?_
  · simp only [SortedKeys, List.cons_append, List.nil_append, List.pairwise_cons, List.Pairwise.nil]; decide
  · intro p hp; simp at hp; rcases hp with rfl | rfl | rfl | rfl <;> (simp only [Typed]; decide)
  · intro p hp; simp at hp; rcases hp with rfl | rfl | rfl | rfl <;> simp [TJValue.WF]

/-- non-vacuity of `DocWF` with every typed field present -/
def demoDoc : TileJSON Nat :=
  { bounds := some (1, 2, 3, 4), center := some (5, 6, 7),
    values := [("maxzoom".toList, .byte 14), (kTilejson, .str "3.0.0".toList), ("tiles".toList, .list ["x".toList])],
    layers := [("a".toList, { fields := [("f".toList, "String".toList)], description := some "d".toList, minzoom := some 0, maxzoom := none }),
               ("b".toList, { fields := [], description := none, minzoom := none, maxzoom := some 14 })] }

theorem demoDoc_wf : DocWF demoDoc where
  sorted := by simp only [demoDoc, SortedKeys, List.pairwise_cons, List.Pairwise.nil]; decide
  hasTilejson := ⟨.str "3.0.0".toList, by simp [demoDoc]⟩
  untyped := by intro p hp; simp [demoDoc] at hp; rcases hp with rfl | rfl | rfl <;> (simp only [Typed]; decide)
  bytes := by intro p hp; simp [demoDoc] at hp; rcases hp with rfl | rfl | rfl <;> simp [TJValue.WF]
  zoom := by intro c hc; simp [demoDoc] at hc; subst hc; decide
  layersSorted := by simp only [demoDoc, SortedKeys, List.pairwise_cons, List.Pairwise.nil]; decide
  layersWF := by
    intro p hp; simp [demoDoc] at hp
    rcases hp with rfl | rfl <;> (refine ⟨?_, ?_, ?_⟩ <;> simp [SortedKeys])

example : fromObject natNum (asObject natNum demoDoc) = some demoDoc :=
  fromObject_asObject natNum natLaws demoDoc demoDoc_wf

/-! ### `merge` (what the tar and directory readers apply to the stored document) -/

/-- **C17g**: `TileJSON::default().merge(t) = t` for every well-formed document — the tar and
    directory readers, which build their metadata this way, hand back exactly what was stored
    (the directory reader then narrows it, see `update_*`).  Includes the repaired case of
    /repo 09996a8a (a `minzoom`/`maxzoom` that is not a byte). -/
theorem merge_default (t : TileJSON M) (h : DocWF t) : merge nu TileJSON.default t = t :=
  merge_default_full nu t h

/-- center: `other` overrides when present -/
theorem merge_center (s o : TileJSON M) :
    (merge nu s o).center = match o.center with | some c => some c | none => s.center := rfl

/-- bounds: the union box (`GeoBBox::extended`), or whichever side has one -/
theorem merge_bounds (s o : TileJSON M) :
    (merge nu s o).bounds = match o.bounds, s.bounds with
      | some ob, some sb => some (extendBox nu sb ob)
      | some ob, none => some ob
      | none, sb => sb := by
  cases ho : o.bounds <;> cases hs : s.bounds <;> simp [merge, ho, hs]

/-- every key other than `minzoom`/`maxzoom`: `other` overrides, otherwise `self` is kept -/
theorem merge_other_keys (s o : TileJSON M) (ho : SortedKeys o.values) (k : Key)
    (h1 : k ≠ kMinzoom) (h2 : k ≠ kMaxzoom) :
    lookupKV k (merge nu s o).values =
      match lookupKV k o.values with
      | some v => some v
      | none => lookupKV k s.values := merge_values_other nu s o ho k h1 h2

/-- zoom range of a merge is the union: `minzoom = min`, `maxzoom = max` -/
theorem merge_zoom (s o : TileJSON M) (ho : SortedKeys o.values) :
    (∀ b, lookupKV kMinzoom o.values = some (.byte b) →
      lookupKV kMinzoom (merge nu s o).values =
        some (.byte (match getByte? s.values kMinzoom with | some m => Nat.min m b | none => b))) ∧
    (∀ b, lookupKV kMaxzoom o.values = some (.byte b) →
      lookupKV kMaxzoom (merge nu s o).values =
        some (.byte (match getByte? s.values kMaxzoom with | some m => Nat.max m b | none => b))) :=
  ⟨fun b hb => merge_minzoom nu s o ho b hb, fun b hb => merge_maxzoom nu s o ho b hb⟩

/-- the repaired behaviour (09996a8a): a value of `other` that is not a byte overrides, also under
    the keys `minzoom` / `maxzoom` (before the fix these two were dropped) -/
theorem merge_nonbyte_overrides (s o : TileJSON M) (ho : SortedKeys o.values) (k : Key) (v : TJValue)
    (hv : lookupKV k o.values = some v) (hnb : ∀ b, v ≠ .byte b) :
    lookupKV k (merge nu s o).values = some v := merge_zoom_nonbyte nu s o ho k v hv hnb

/-- vector layers of a merge: a layer only in `other` is taken over, a layer in both is merged field
    by field (`VectorLayer::merge`), a layer only in `self` stays -/
theorem merge_layers (s o : TileJSON M) (ho : SortedKeys o.layers) (k : Key) :
    lookupKV k (merge nu s o).layers =
      match lookupKV k o.layers, lookupKV k s.layers with
      | some lb, some la => some (mergeLayer la lb)
      | some lb, none => some lb
      | none, x => x := lookup_mergeLayers s.layers o.layers ho k

/-- `merge` keeps the value map a sorted map -/
theorem merge_sorted (s o : TileJSON M) (hs : SortedKeys s.values) : SortedKeys (merge nu s o).values :=
  merge_values_sorted nu s o hs

/-! ### the container path: text written by the writers → document handed out by the readers -/

section text
variable (ops : NumOps M)

/-- the object `as_object` builds is a well-formed JSON value (sorted keys on every level) at most
    four levels deep — for ANY document; hence `as_string` output always parses back -/
theorem asObject_wellformed (t : TileJSON M) : WF (.obj (asObject nu t)) ∧ depth (.obj (asObject nu t)) ≤ 4 :=
  ok_asObject nu t

/-- **C17i**: `TileJSON::try_from(t.as_string()) = Ok(t)` for every well-formed document: the whole
    text path `stringify ∘ as_object` / `from_object ∘ parse_json_str` (numbers under the f64 laws) -/
theorem tilejson_text_roundtrip (nlaws : NumLaws ops) (tlaws : TjLaws nu) (t : TileJSON M) (h : DocWF t) :
    ofText nu ops (toText nu ops t) = .ok t := ofText_toText_full nu ops nlaws tlaws t h

/-- versatiles / pmtiles readers (`try_from_blob_or_default` on the stored text) return the stored
    document (compression of the blob is outside the model: the codec round trip is C04's) -/
theorem blob_reader_returns_stored (nlaws : NumLaws ops) (tlaws : TjLaws nu) (t : TileJSON M) (h : DocWF t) :
    blobRead nu ops (toText nu ops t) = t := by
  simp [blobRead, ofText_toText_full nu ops nlaws tlaws t h]

/-- tar reader (`default.merge(try_from_blob_or_default(text))`) returns the stored document -/
theorem tar_reader_returns_stored (nlaws : NumLaws ops) (tlaws : TjLaws nu) (t : TileJSON M) (h : DocWF t) :
    tarRead nu ops (toText nu ops t) = t := by
  simp [tarRead, ofText_toText_full nu ops nlaws tlaws t h, merge_default_full nu t h]

/-- directory reader: the stored document, narrowed to the coverage found on disk (and nothing else:
    see `update_frame`, `update_bounds`, `update_minzoom`, `update_maxzoom`) -/
theorem directory_reader_narrows (nlaws : NumLaws ops) (tlaws : TjLaws nu) (t : TileJSON M) (h : DocWF t)
    (bbox : Option (M × M × M × M)) (zmin zmax : Option Nat) :
    directoryRead nu ops (toText nu ops t) bbox zmin zmax = updateFromPyramid nu t bbox zmin zmax := by
  simp [directoryRead, tar_reader_returns_stored nu ops nlaws tlaws t h]

end text

/-! ### served `tiles.json` = stored metadata + `tiles` template + narrowed bounds/zoom -/

/-- **C17f**: the document served for a source carries the `tiles` URL template, `name`, `type`,
    `format`; its bounds are the stored bounds intersected with the coverage; centre and vector
    layers are the stored ones; every other key except `minzoom`/`maxzoom` has its stored value. -/
theorem served_document (t : TileJSON M) (bbox : Option (M × M × M × M)) (zmin zmax : Option Nat)
    (ty id fmt pre : List Char) :
    let s := served nu t bbox zmin zmax ty id fmt pre
    lookupKV "tiles".toList s.values = some (.list [pre ++ "{z}/{x}/{y}".toList]) ∧
    lookupKV "name".toList s.values = some (.str id) ∧
    lookupKV "type".toList s.values = some (.str ty) ∧
    lookupKV "format".toList s.values = some (.str fmt) ∧
    s.bounds = (updateFromPyramid nu t bbox zmin zmax).bounds ∧
    s.center = t.center ∧ s.layers = t.layers ∧
    ∀ k : Key, k ≠ "tiles".toList → k ≠ "name".toList → k ≠ "type".toList → k ≠ "format".toList →
      lookupKV k s.values = lookupKV k (updateFromPyramid nu t bbox zmin zmax).values := by
  have hf := update_frame nu t bbox zmin zmax
  refine ⟨?_, ?_, ?_, ?_, rfl, hf.1, hf.2.1, ?_⟩
  · simp [served, lookup_insert_same]
  · simp only [served]
    rw [lookup_insert_other _ _ (by decide), lookup_insert_other _ _ (by decide), lookup_insert_same]
  · simp only [served]
    rw [lookup_insert_other _ _ (by decide), lookup_insert_other _ _ (by decide),
      lookup_insert_other _ _ (by decide), lookup_insert_same]
  · simp only [served]
    rw [lookup_insert_other _ _ (by decide), lookup_insert_same]
  · intro k h1 h2 h3 h4
    simp only [served]
    rw [lookup_insert_other _ _ h1, lookup_insert_other _ _ h4, lookup_insert_other _ _ h2,
      lookup_insert_other _ _ h3]

end tilejson

end VtProps.C17
