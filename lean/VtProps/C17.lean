import VtProofs.Json
/-!
# C17 — JSON round trips and containers hand back the TileJSON they were given

Property theorems about `VtModel.Json` (model of `versatiles_core/src/json/**` and
`byte_iterator/**`) and `VtModel.TileJson`.  Helper lemmas live in `VtProofs/Json*.lean`.
-/
namespace VtProps.C17
open VtModel.Json VtProofs.Json

/-- `parse_quoted_json_string` applied to `"` + escaped text + `"` -/
def unescape (bs : Bytes) : Res (List Char) :=
  (parseQuotedString (Iter.start (0x22 :: (bs ++ [0x22])))).map (·.1)

/-- **C17a**: `unescape (escape s) = s` for every string of Unicode scalar values (`Char` is
    exactly the type of scalar values: surrogates are excluded by its validity proof). -/
theorem unescape_escape (s : List Char) : unescape (escape s) = .ok s := by
  unfold unescape Iter.start
  have := parseQuotedString_quote s [] [] true
  simp only [quote, List.append_nil] at this
  rw [this]; rfl

/-- the same inside any context: the string parser consumes exactly the quoted text and leaves
    the iterator in front of whatever follows. -/
theorem parse_quoted (s : List Char) (pre tail : Bytes) (dbg : Bool) :
    parseQuotedString { pre := pre, rest := quote s ++ tail, debug := dbg }
      = .ok (s, { pre := (quote s).reverse ++ pre, rest := tail, debug := dbg }) :=
  parseQuotedString_quote s pre tail dbg

/-- `String::from_utf8(s.into_bytes()) = Ok(s)` (core's verified UTF-8 decoder) -/
theorem utf8_roundtrip (s : List Char) : fromUtf8 (utf8 s) = some s := fromUtf8_utf8 s

end VtProps.C17
