import VtProofs.JsonGrammar
/-!
# C17 — JSON round trips and containers hand back the TileJSON they were given

Property theorems about `VtModel.Json` (model of `versatiles_core/src/json/**` and
`byte_iterator/**`) and `VtModel.TileJson`.  Helper lemmas live in `VtProofs/Json*.lean`.
-/
namespace VtProps.C17
open VtModel.Json VtProofs.Json

/-- `parse_quoted_json_string` applied to `"` + escaped text + `"` -/
def unescape (bs : Bytes) : Res (List Char) :=
  (parseQuotedString (Iter.start (0x22 :: (bs ++ [0x22])))).map (·.1)

/-- **C17a**: `unescape (escape s) = s` for every string of Unicode scalar values (`Char` is
    exactly the type of scalar values: surrogates are excluded by its validity proof). -/
theorem unescape_escape (s : List Char) : unescape (escape s) = .ok s := by
  unfold unescape Iter.start
  have := parseQuotedString_quote s [] [] true
  simp only [quote, List.append_nil] at this
  rw [this]; rfl

/-- the same inside any context: the string parser consumes exactly the quoted text and leaves
    the iterator in front of whatever follows. -/
theorem parse_quoted (s : List Char) (pre tail : Bytes) (dbg : Bool) :
    parseQuotedString { pre := pre, rest := quote s ++ tail, debug := dbg }
      = .ok (s, { pre := (quote s).reverse ++ pre, rest := tail, debug := dbg }) :=
  parseQuotedString_quote s pre tail dbg

/-- `String::from_utf8(s.into_bytes()) = Ok(s)` (core's verified UTF-8 decoder) -/
theorem utf8_roundtrip (s : List Char) : fromUtf8 (utf8 s) = some s := fromUtf8_utf8 s

/-! ### values -/

variable {N : Type}

/-- **C17b (in context)**: wherever a `stringify` output stands in the input — followed by nothing,
    `,`, `]` or `}` — `parse_json_iter` returns exactly the value and stops right behind it.
    `WF v`: object keys strictly increasing at every level (what a `BTreeMap` holds);
    `NumLaws`: `parse(to_string(x)) = x` and `to_string(x)` has the shape `-?(0|[1-9]d*)(.d+)?`
    (the external f64 law, tested on the real f64 in every run). -/
theorem parse_stringify_in_context (ops : NumOps N) (laws : NumLaws ops) (v : JsonValue N) (hv : WF v)
    (pre tail : Bytes) (dbg : Bool) (ht : Stop tail) (fuel : Nat) (hf : need v ≤ fuel) :
    parseValue ops fuel { pre := pre, rest := stringify ops v ++ tail, debug := dbg }
      = .ok (v, { pre := (stringify ops v).reverse ++ pre, rest := tail, debug := dbg }) :=
  parseValue_stringify ops laws v fuel pre tail dbg ht hf hv

/-- **C17b**: `parse_json_str(stringify(v)) = Ok(v)` for every value tree (any depth, any
    strings, any numbers satisfying the f64 law).  In particular the fuel that `parseBytes` hands
    to the recursive functions is always sufficient and no panic site is reached. -/
theorem parse_stringify (ops : NumOps N) (laws : NumLaws ops) (v : JsonValue N) (hv : WF v) :
    parseBytes ops (stringify ops v) = .ok v := by
  unfold parseBytes Iter.start
  have hf : need v ≤ fuelFor (stringify ops v) := by
    have := need_le ops v
    unfold fuelFor; omega
  have := parseValue_stringify ops laws v (fuelFor (stringify ops v)) [] [] true
    (by intro b r e; cases e) hf hv
  simp only [List.append_nil] at this
  rw [this]; rfl

/-- **C17c**: every `stringify` output is a JSON text in the sense of RFC 8259 (grammar of §2–§7
    as inductive predicates in `VtProofs/JsonGrammar.lean`), hence accepted by any conforming
    parser. -/
theorem stringify_in_rfc8259 (ops : NumOps N) (laws : NumLaws ops) (v : JsonValue N) :
    RfcText (stringify ops v) := by
  have := RfcText.mk [] _ [] rfcWs_nil (stringify_rfc ops laws v) rfcWs_nil
  simpa using this

/-- escaped strings stay inside the RFC string grammar (control characters, quotes and
    backslashes never appear raw) -/
theorem escape_in_rfc8259 (s : List Char) : RfcString (quote s) := quote_rfc s

/-- what `BTreeMap::from_iter` builds from entries that are already strictly sorted is the list itself -/
theorem object_from_sorted {V : Type} (kvs : List (List Char × V)) (h : SortedKeys kvs) : mkObj kvs = kvs :=
  mkObj_sorted kvs h

/-! ### non-vacuity -/

/-- a (tiny) number type satisfying the laws: `false ↦ "-0"`, `true ↦ "12.5"` -/
def demoOps : NumOps Bool where
  show_ := fun b => if b then [0x31, 0x32, 0x2e, 0x35] else [0x2d, 0x30]
  read := fun lx => if lx = [0x31, 0x32, 0x2e, 0x35] then some true else if lx = [0x2d, 0x30] then some false else none

theorem demoLaws : NumLaws demoOps where
  read_show := by intro n; cases n <;> simp [demoOps]
  lex := by
    intro n
    cases n
    · have := NumLex.mk true [0x30] [] false (by simp) (by intro b hb; simp at hb; subst hb; decide) (Or.inl rfl) (by simp)
      simpa [demoOps] using this
    · have := NumLex.mk false [0x31, 0x32] [0x35] true (by simp)
        (by intro b hb; simp at hb; rcases hb with rfl | rfl <;> decide)
        (Or.inr (by intro d r e; simp at e; rw [← e.1]; decide))
        (by intro _; exact ⟨by simp, by intro b hb; simp at hb; subst hb; decide⟩)
      simpa [demoOps] using this

def demoValue : JsonValue Bool :=
  .obj [(['a'], .arr [.num true, .null, .str ['"', '\\', '\n', 'é', '😊', Char.ofNat 0x85]]), (['b', '"'], .obj []), (['é'], .num false)]

example : WF demoValue := by
  simp only [demoValue, WF, WFL, WFM, SortedKeys, and_true, List.pairwise_cons, List.Pairwise.nil]
  decide

example : parseBytes demoOps (stringify demoOps demoValue) = .ok demoValue :=
  parse_stringify demoOps demoLaws demoValue (by
    simp only [demoValue, WF, WFL, WFM, SortedKeys, and_true, List.pairwise_cons, List.Pairwise.nil]
    decide)

end VtProps.C17
