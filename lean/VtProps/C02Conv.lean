import VtProps.C02
import VtProps.C06
/-!
# C02, continued — the converting reader (`TilesConvertReader`) inside the closure

`VtProps.C02.pipe_stream_ok` closes C02 under every pipeline operation; `VtProps.C06.convert_stream_ok`
shows that the converting reader (flip / swap / restriction / recompression, converter.rs) keeps
`StreamOK`.  This module joins the two: a converting reader over a *good* source is a good source
again (`convert_good`), so `versatiles convert` / `versatiles serve` with `--flip-y`, `--swap-xy`,
a bbox / zoom restriction and a transcoding on top of ANY pipeline of any depth over good leaves
satisfies C02 (`pipe_under_convert_stream_ok`), and converters may be stacked
(`convert_convert_stream_ok`).  Before this module the converting reader was tied to C02 only by
the correspondence oracle.
-/
namespace VtProps.C02
open VtModel VtModel.BBox VtModel.Converter VtProofs.Converter

/-- the converting reader's lookup neither fails nor panics on coordinates of the pyramid when the
    source's lookup does not and the recompressor is total -/
theorem convert_lookup_ok {β : Type} (s : Src β) (p : Params β) (rc : β → β)
    (hr : ∀ v, p.recode v = some (rc v)) (hs : LookupOK s) (cov : Pyramid) :
    LookupOK (⟨Converter.lookup s p, Converter.stream s p, cov⟩ : Src β) := by
  intro c hv
  show ∃ o, Converter.lookup s p c = .ok o
  rw [VtProps.C06.lookup_spec s p c hv]
  obtain ⟨o, ho⟩ := hs _ (Tinv_valid p.flipY p.swapXY c hv)
  rw [ho]
  cases o with
  | none => exact ⟨none, rfl⟩
  | some v => exact ⟨some (rc v), by simp [Outcome.bind, recodeLookup, hr v]⟩

/-- **convert_good**: the converting reader over a good source, with a total recompressor and a
    well-formed restriction pyramid, is built (`convert` is `.ok`) and is a good source: its
    advertised coverage is well-formed, its lookups never fail, and it satisfies C02. -/
theorem convert_good {β : Type} (s : Src β) (p : Params β) (rc : β → β)
    (hr : ∀ v, p.recode v = some (rc v)) (hq : ∀ q, p.bboxPyramid = some q → q.WF) (hs : Good s) :
    ∃ s', convert s p = .ok s' ∧ Good s' := by
  obtain ⟨cov, hc, w, _⟩ := VtProps.C06.cover_eq s.cover p hs.cover_wf hq
  refine ⟨⟨Converter.lookup s p, Converter.stream s p, cov⟩, ?_, ⟨w, ?_, ?_⟩⟩
  · unfold convert
    rw [hc]
    rfl
  · exact convert_lookup_ok s p rc hr hs.lookup_ok cov
  · exact VtProps.C06.convert_stream_ok s p rc hr hs.stream_ok cov

/-- **a converter on top of any pipeline**: whatever pipeline is built from good leaves, and
    whatever flip / swap / restriction / total recompression the converting reader applies on top
    of it, the result satisfies C02. -/
theorem pipe_under_convert_stream_ok {β : Type} (ops : Ops β) (env : Nat → Outcome (Op β))
    (henv : ∀ i o, env i = .ok o → Good o.src) (pl : Pipe) (hd : pl.DebugOK) (o : Op β)
    (h : build ops env pl = .ok o) (p : Params β) (rc : β → β)
    (hr : ∀ v, p.recode v = some (rc v)) (hq : ∀ q, p.bboxPyramid = some q → q.WF) :
    ∃ s', convert o.src p = .ok s' ∧ StreamOK s' := by
  obtain ⟨s', h1, h2⟩ := convert_good o.src p rc hr hq (build_good ops env henv pl hd o h)
  exact ⟨s', h1, h2.stream_ok⟩

/-- **stacked converters** (`versatiles serve` over a `.vpl` whose leaf is itself a converted
    container, or convert ∘ convert): still C02. -/
theorem convert_convert_stream_ok {β : Type} (s : Src β) (p1 p2 : Params β) (rc1 rc2 : β → β)
    (hr1 : ∀ v, p1.recode v = some (rc1 v)) (hr2 : ∀ v, p2.recode v = some (rc2 v))
    (hq1 : ∀ q, p1.bboxPyramid = some q → q.WF) (hq2 : ∀ q, p2.bboxPyramid = some q → q.WF)
    (hs : Good s) :
    ∃ s1 s2, convert s p1 = .ok s1 ∧ convert s1 p2 = .ok s2 ∧ StreamOK s2 := by
  obtain ⟨s1, h1, g1⟩ := convert_good s p1 rc1 hr1 hq1 hs
  obtain ⟨s2, h2, g2⟩ := convert_good s1 p2 rc2 hr2 hq2 g1
  exact ⟨s1, s2, h1, h2, g2.stream_ok⟩

/-- a converting reader over a container leaf that uses the default stream -/
theorem convert_default_leaf_stream_ok {β : Type} (lookup : Coord → Outcome (Option β)) (cover : Pyramid)
    (hc : cover.WF) (h : ∀ c, Coord.Valid c → ∃ o, lookup c = .ok o) (p : Params β) (rc : β → β)
    (hr : ∀ v, p.recode v = some (rc v)) (hq : ∀ q, p.bboxPyramid = some q → q.WF) :
    ∃ s', convert (Src.ofLookup lookup cover) p = .ok s' ∧ StreamOK s' := by
  obtain ⟨s', h1, h2⟩ := convert_good _ p rc hr hq (default_good lookup cover hc h)
  exact ⟨s', h1, h2.stream_ok⟩

/-- the leaves of a pipeline as converting readers over good sources: leaf `i` is
    `TilesConvertReader(leaf i, pin i)` declared with format `fmt i` and compression `comp i` -/
def convLeaves {β : Type} (leaf : Nat → Src β) (pin : Nat → Params β) (fmt comp : Nat → Nat) :
    Nat → Outcome (Op β) :=
  fun i => (convert (leaf i) (pin i)).map fun s => ⟨s, fmt i, comp i⟩

/-- every leaf of `convLeaves` that opens is a good source -/
theorem convLeaves_good {β : Type} (leaf : Nat → Src β) (pin : Nat → Params β) (fmt comp : Nat → Nat)
    (rc : Nat → β → β) (hr : ∀ i v, (pin i).recode v = some (rc i v))
    (hq : ∀ i q, (pin i).bboxPyramid = some q → q.WF) (hleaf : ∀ i, Good (leaf i)) :
    ∀ i o, convLeaves leaf pin fmt comp i = .ok o → Good o.src := by
  intro i o h
  obtain ⟨s', h1, g⟩ := convert_good (leaf i) (pin i) (rc i) (hr i) (hq i) (hleaf i)
  unfold convLeaves at h
  rw [h1] at h
  simp only [Outcome.map, Outcome.bind] at h
  cases h
  exact g

/-- **convert ∘ pipeline ∘ convert**: a pipeline of any depth whose leaves are converting readers
    (each with its own flip / swap / restriction / total recompressor) over good sources, with one
    more converting reader on top (what `versatiles convert --flip-y …` / `serve` do with a `.vpl`
    whose `from_container` leaves are themselves converted), satisfies C02. -/
theorem convert_pipe_convert_stream_ok {β : Type} (ops : Ops β) (leaf : Nat → Src β)
    (pin : Nat → Params β) (fmt comp : Nat → Nat) (rc : Nat → β → β)
    (hr : ∀ i v, (pin i).recode v = some (rc i v))
    (hq : ∀ i q, (pin i).bboxPyramid = some q → q.WF) (hleaf : ∀ i, Good (leaf i))
    (pl : Pipe) (hd : pl.DebugOK) (o : Op β)
    (h : build ops (convLeaves leaf pin fmt comp) pl = .ok o)
    (p : Params β) (rc' : β → β) (hr' : ∀ v, p.recode v = some (rc' v))
    (hq' : ∀ q, p.bboxPyramid = some q → q.WF) :
    StreamOK o.src ∧ ∃ s', convert o.src p = .ok s' ∧ StreamOK s' := by
  have henv := convLeaves_good leaf pin fmt comp rc hr hq hleaf
  exact ⟨pipe_stream_ok ops _ henv pl hd o h,
    pipe_under_convert_stream_ok ops _ henv pl hd o h p rc' hr' hq'⟩

/-! ### non-vacuity: a flipped + swapped reader over the one-tile demo source -/

def demoParams : Params Nat := ⟨none, true, true, some⟩

example : ∃ s', convert (Src.ofLookup demoLookup Pyramid.newEmpty) demoParams = .ok s' ∧ StreamOK s' :=
  convert_default_leaf_stream_ok demoLookup _ VtProofs.Converter.wf_newEmpty
    (fun c _ => by unfold demoLookup; split <;> exact ⟨_, rfl⟩) demoParams id (fun _ => rfl)
    (fun q h => by cases h)

/-- the hypotheses of `convert_pipe_convert_stream_ok` are satisfiable: the pipeline `from_container`
    over a converted demo leaf builds -/
example (ops : Ops Nat) : ∃ o, build ops (convLeaves (fun _ => Src.ofLookup demoLookup Pyramid.newEmpty)
    (fun _ => demoParams) (fun _ => 0) (fun _ => 0)) (.leaf 0) = .ok o := by
  obtain ⟨s', h1, _⟩ := convert_good (Src.ofLookup demoLookup Pyramid.newEmpty) demoParams id (fun _ => rfl)
    (fun q h => by cases h) (default_good demoLookup _ VtProofs.Converter.wf_newEmpty
      (fun c _ => by unfold demoLookup; split <;> exact ⟨_, rfl⟩))
  refine ⟨⟨s', 0, 0⟩, ?_⟩
  simp only [build, convLeaves, h1, Outcome.map, Outcome.bind]

end VtProps.C02
