import VtProofs.Path
/-!
# C07 — static file serving never leaves the configured root

Theorems about `VtModel.Path` (model of `Url`, `Folder::get_data`, `TarFile`, `StaticSource`,
`serve_static`) for **all** request targets (arbitrary character sequences, hence all sequences
of normal, `.`, `..`, empty, percent-encoded, backslash … segments), all file systems without
symbolic links, all roots, all URL prefixes and all lists of sources.

Full statement (property C07): a `200` answer carries the content of a file located inside the
configured directory (or of a member of the configured archive); a target that resolves to
something outside yields `404`.

Before commit 1eee327c the statement was false of the code (`old_guard_unsound`): the only guard
was the lexical `Path::starts_with`.
-/
namespace VtProps.C07
open VtModel.Path

/-! ## the defect (code before the repair) -/

/-- `/` ⊃ `r/` (the configured root) and `/s`, a file **outside** the root -/
def fsEx : FS := [([], .dir), ([['r']], .dir), ([['s']], .file 7)]

theorem rootOk_ex : RootOk fsEx [['r']] := by
  intro q hq
  have hq' : q <+: [] ++ [['r']] := hq
  rcases List.prefix_concat_iff.mp hq' with h | h
  · subst h; rfl
  · have : q = [] := List.prefix_nil.mp h
    subst this; rfl

/-- **Counterexample (F8)**: with the lexical `starts_with` guard alone, `GET /../s` is answered
    with the content of `/s`, and no file inside the root `/r` has that content. -/
theorem old_guard_unsound :
    RootNames [['r']] ∧ RootOk fsEx [['r']] ∧
    folderGetOld fsEx [['r']] (Url.new ['/', '.', '.', '/', 's']) = .ok 7 ∧
    ¬ ∃ l, [['r']] <+: l ∧ fsEx.node l = some (.file 7) := by
  refine ⟨by intro s hs; simp at hs; subst hs; decide, rootOk_ex, by decide, ?_⟩
  rintro ⟨l, ⟨t, rfl⟩, h⟩
  cases t with
  | nil => revert h; decide
  | cons x xs => simp [fsEx, FS.node, List.lookup] at h

/-- the same request through the whole handler (prefix `/`, one folder source) -/
theorem old_guard_unsound_served :
    (let url := Url.new (uriPath ['/', '.', '.', '/', 's'])
     folderGetOld fsEx [['r']] ((url.stripPrefix (mkPrefix [])).getD url)) = .ok 7 := by decide

/-- … and is refused by the repaired code -/
example : serveStatic fsEx Accept.none [⟨mkPrefix [], .folder [['r']]⟩] ['/', '.', '.', '/', 's'] = .notFound := by decide

/-! ## folder source -/

/-- **C07 (folder)**: whatever `Folder::get_data` returns is the content of a file strictly
    inside the root – for every URL string and every symlink-free file system in which the root
    is a directory. -/
theorem folder_confined (fs : FS) (root : Loc) (url : Url) (acc : Accept) (c : Nat)
    (hn : RootNames root) (hr : RootOk fs root) (h : folderGet fs root url acc = .ok c) :
    ∃ l, root <+: l ∧ l ≠ root ∧ fs.node l = some (.file c) := by
  unfold folderGet at h
  split at h
  · cases h
  · rename_i hp
    have hp' : hasParent (joinRel root url.tail) = false := by simpa using hp
    have hp1 := withIndex_hasParent fs _ hp'
    unfold guardedOpen at h
    split at h
    · rename_i hlex
      obtain ⟨l, hl, hnode⟩ := openChain_confined hn hr hp1 hlex h
      refine ⟨l, hl, ?_, hnode⟩
      intro e
      rw [e, hr root (List.prefix_refl _)] at hnode
      cases hnode
    · cases h

/-- a URL with a `..` segment anywhere is answered `404` by the folder source -/
theorem dotdot_segment_404 (fs : FS) (root : Loc) (url : Url) (acc : Accept)
    (h : sDotDot ∈ splitSlash url.tail) : folderGet fs root url acc = .notFound := by
  have hp : hasParent (joinRel root url.tail) = true := by
    unfold joinRel
    split
    · rename_i r heq
      rw [heq] at h
      have : sDotDot ∈ splitSlash r := by
        simp only [splitSlash, if_true] at h
        rcases List.mem_cons.mp h with h | h
        · cases h
        · exact h
      simp only [hasParent, List.any_eq_true]
      exact ⟨sDotDot, this, by decide⟩
    · simp only [hasParent, List.any_eq_true]
      exact ⟨sDotDot, by simp [h], by decide⟩
  unfold folderGet
  simp [hp]

/-- **C07 (404 half)**: if the operating system resolves the joined path to a location that is
    not inside the root, the folder source never answers with content. -/
theorem outside_never_served (fs : FS) (root : Loc) (url : Url) (acc : Accept) (l : Loc)
    (hn : RootNames root) (hr : RootOk fs root)
    (hres : resolve fs [] (joinRel root url.tail) = some l) (hout : ¬ root <+: l) :
    ∀ c, folderGet fs root url acc ≠ .ok c := by
  intro c h
  unfold folderGet at h
  split at h
  · cases h
  · rename_i hp
    have hp' : hasParent (joinRel root url.tail) = false := by simpa using hp
    have hl := resolve_noParent fs _ [] l hp' hres
    rw [List.nil_append] at hl
    have hp1 := withIndex_hasParent fs _ hp'
    unfold guardedOpen at h
    split at h
    · rename_i hlex
      have hpre := lex_prefix hn hp1 hlex
      by_cases hdir : statIsDir fs (joinRel root url.tail) = true
      · -- directory: `index.html` was pushed
        have hw : withIndex fs (joinRel root url.tail) = pushName (joinRel root url.tail) sIndex := by
          simp [withIndex, hdir]
        rw [hw] at hpre hp1 h
        rw [pushName_names, ← hl] at hpre
        rcases List.prefix_concat_iff.mp hpre with e | e
        · have hnm : names (pushName (joinRel root url.tail) sIndex) = root := by
            rw [pushName_names, ← hl]; exact e.symm
          rw [openChain_of_openRead (openRead_root hr hp1 hnm)] at h
          cases h
        · exact hout e
      · have hw : withIndex fs (joinRel root url.tail) = joinRel root url.tail := by
          simp [withIndex, hdir]
        rw [hw, ← hl] at hpre
        exact hout hpre
    · cases h

/-! ## the only panic of the handler -/

theorem openRead_panic {fs : FS} {q : Segs} (h : openRead fs q = some .panic) :
    ∃ l, resolve fs [] q = some l ∧ fs.node l = some .dir := by
  unfold openRead at h
  split at h
  · cases h
  · rename_i l hl
    split at h
    · cases h
    · rename_i hn; exact ⟨l, hl, hn⟩
    · cases h

theorem openChain_panic {fs : FS} {p : Segs} (h : openChain fs p = .panic) :
    openRead fs p = some .panic ∨
    (openRead fs p = none ∧ (openRead fs (appendExt p sBr) = some .panic ∨
                             openRead fs (appendExt p sGz) = some .panic)) := by
  unfold openChain at h
  split at h
  · rename_i r hr; subst h; left; exact hr
  · rename_i h0
    right; refine ⟨h0, ?_⟩
    split at h
    · rename_i r hr; subst h; left; exact hr
    · split at h
      · rename_i r hr; subst h; right; exact hr
      · cases h

/-- The handler task panics (connection closed without a response) only when one of the three
    `File::open` candidates is a *directory* – e.g. a directory named `index.html` – and that
    directory lies inside the root (or is the root): nothing outside is touched. -/
theorem folder_panic_inside (fs : FS) (root : Loc) (url : Url) (acc : Accept)
    (hn : RootNames root) (hr : RootOk fs root) (h : folderGet fs root url acc = .panic) :
    ∃ l, root <+: l ∧ fs.node l = some .dir := by
  unfold folderGet at h
  split at h
  · cases h
  · rename_i hp
    have hp' : hasParent (joinRel root url.tail) = false := by simpa using hp
    have hp1 := withIndex_hasParent fs _ hp'
    unfold guardedOpen at h
    split at h
    · rename_i hlex
      have hpre := lex_prefix hn hp1 hlex
      have key : ∀ q, hasParent q = false → root <+: names q → openRead fs q = some .panic →
          ∃ l, root <+: l ∧ fs.node l = some .dir := by
        intro q hq hqp ho
        obtain ⟨l, hl, hnode⟩ := openRead_panic ho
        have := resolve_noParent fs q [] l hq hl
        rw [List.nil_append] at this
        exact ⟨l, this ▸ hqp, hnode⟩
      rcases openChain_panic h with h1 | ⟨h0, h1 | h1⟩
      · exact key _ hp1 hpre h1
      · by_cases hne : names (withIndex fs (joinRel root url.tail)) = root
        · exact ⟨root, List.prefix_refl _, hr root (List.prefix_refl _)⟩
        · exact key _ (appendExt_hasParent _ sBr (by decide) hp1)
            (appendExt_prefix _ sBr root (by decide) hp1 hpre hne) h1
      · by_cases hne : names (withIndex fs (joinRel root url.tail)) = root
        · exact ⟨root, List.prefix_refl _, hr root (List.prefix_refl _)⟩
        · exact key _ (appendExt_hasParent _ sGz (by decide) hp1)
            (appendExt_prefix _ sGz root (by decide) hp1 hpre hne) h1
    · cases h

/-- the observed instance: `GET /weird` with a directory `weird/index.html` -/
example : serveStatic (fs := [([], .dir), ([['r']], .dir), ([['r'], ['w']], .dir), ([['r'], ['w'], sIndex], .dir)]) Accept.none
    [⟨mkPrefix [], .folder [['r']]⟩] ['/', 'w'] = .panic := by decide

/-! ## percent-encoded segments are ordinary names -/

/-- a segment containing `%` (the server never decodes escapes) is an ordinary name: neither
    `Path::components` nor the OS treats it as `.` / `..`. -/
theorem percent_segment_is_name (s : Str) (h : '%' ∈ s) : classify s = .name s := by
  unfold classify
  have h1 : s ≠ [] := by intro e; subst e; simp at h
  have h2 : s ≠ sDot := by intro e; subst e; revert h; decide
  have h3 : s ≠ sDotDot := by intro e; subst e; revert h; decide
  simp [h1, h2, h3]

/-- likewise a segment containing a backslash -/
theorem backslash_segment_is_name (s : Str) (h : '\\' ∈ s) : classify s = .name s := by
  unfold classify
  have h1 : s ≠ [] := by intro e; subst e; simp at h
  have h2 : s ≠ sDot := by intro e; subst e; revert h; decide
  have h3 : s ≠ sDotDot := by intro e; subst e; revert h; decide
  simp [h1, h2, h3]

example : classify ['%', '2', 'e', '%', '2', 'e'] = .name ['%', '2', 'e', '%', '2', 'e'] := by decide
example : classify ['.', '.', '%', '2', 'f'] = .name ['.', '.', '%', '2', 'f'] := by decide

/-! ## tar source -/

/-- **C07 (tar)**: `get_data` returns only values stored in the map … -/
theorem tar_only_map_values (m : TarMap) (url : Url) (acc : Accept) (c : Nat) (h : tarGet m url acc = .ok c) :
    TarVal m c := tarGet_val h

/-- … and the map built at start-up holds only contents of archive members. -/
theorem tar_only_members (ms : List (Str × Nat)) (url : Url) (acc : Accept) (c : Nat)
    (h : tarGet (tarBuild ms) url acc = .ok c) : ∃ x ∈ ms, x.2 = c := by
  have hv := tarGet_val h
  rcases tarBuild_val_aux ms [] c hv with h | ⟨k, e, hm, _⟩
  · exact h
  · cases hm

/-! ## `StaticSource` (URL prefix) and the fallback route -/

/-- what a `200` of a back end may carry -/
def Within (fs : FS) : Backend → Nat → Prop
  | .folder root, c => ∃ l, root <+: l ∧ l ≠ root ∧ fs.node l = some (.file c)
  | .tar m, c => TarVal m c

/-- start-up conditions: a folder root is a canonical existing directory -/
def BackendOk (fs : FS) : Backend → Prop
  | .folder root => RootNames root ∧ RootOk fs root
  | .tar _ => True

theorem backend_confined (fs : FS) (b : Backend) (url : Url) (acc : Accept) (c : Nat)
    (hb : BackendOk fs b) (h : b.get fs url acc = .ok c) : Within fs b c := by
  cases b with
  | folder root => exact folder_confined fs root url acc c hb.1 hb.2 h
  | tar m => exact tarGet_val h

/-- `strip_prefix(..).unwrap()` after `starts_with` cannot panic -/
theorem strip_after_starts (u p : Url) (h : u.startsWith p = true) : (u.stripPrefix p).isSome = true := by
  unfold Url.startsWith at h
  simp [Url.stripPrefix, h]

/-- every URL prefix: stripping it hands *some* URL to the back end, whose answer is confined -/
theorem source_confined (fs : FS) (s : Source) (url : Url) (acc : Accept) (c : Nat)
    (hb : BackendOk fs s.backend) (h : s.get fs url acc = .ok c) : Within fs s.backend c := by
  unfold Source.get at h
  split at h
  · split at h
    · cases h
    · exact backend_confined fs _ _ acc c hb h
  · cases h

theorem firstHit_confined (fs : FS) (url : Url) (acc : Accept) : ∀ (srcs : List Source) (c : Nat),
    (∀ s ∈ srcs, BackendOk fs s.backend) → firstHit fs url acc srcs = .ok c →
    ∃ s ∈ srcs, Within fs s.backend c := by
  intro srcs
  induction srcs with
  | nil => intro c _ h; cases h
  | cons s rest ih =>
    intro c hb h
    unfold firstHit at h
    split at h
    · obtain ⟨s', hs', hw⟩ := ih c (fun t ht => hb t (by simp [ht])) h
      exact ⟨s', by simp [hs'], hw⟩
    · exact ⟨s, by simp, source_confined fs s url acc c (hb s (by simp)) h⟩

/-- **C07**: for every request target, every list of static sources (folder or tar, any URL
    prefixes) – a `200` carries the content of a file strictly inside one configured folder or a
    value of one configured archive map. -/
theorem serve_confined (fs : FS) (acc : Accept) (srcs : List Source) (target : Str) (c : Nat)
    (hb : ∀ s ∈ srcs, BackendOk fs s.backend) (h : serveStatic fs acc srcs target = .ok c) :
    ∃ s ∈ srcs, Within fs s.backend c := by
  unfold serveStatic at h
  exact firstHit_confined fs _ acc srcs c hb h

/-- `Url::new` always yields a string starting with `/` (so `&str[1..]` is in bounds) -/
theorem url_new_slash (s : Str) : ∃ t, (Url.new s).str = '/' :: t := by
  unfold Url.new
  split
  · rename_i t; exact ⟨t, rfl⟩
  · exact ⟨s, rfl⟩

/-! ## start-up and hand-over facts -/

theorem isDir_new_slash (s : Str) : (Url.new (s ++ ['/'])).isDir = true := by
  have h1 : (s ++ ['/']).getLast? = some '/' := by simp
  have h2 : ('/' :: (s ++ ['/'])).getLast? = some '/' := by
    exact (List.getLast?_concat (l := '/' :: s) (a := '/'))
  unfold Url.new
  split
  · simp [Url.isDir, h1]
  · simp only [Url.isDir, h2]; rfl

/-- `add_static_source` always hands a directory URL to `StaticSource::new`, so its
    `ensure!(prefix.is_dir())` cannot fail – whatever prefix text the command line gives -/
theorem mkPrefix_isDir (p : Str) : (mkPrefix p).isDir = true := by
  unfold mkPrefix Url.asDir
  split
  · assumption
  · exact isDir_new_slash _

example : tarSteps ['a', '.', 't', 'a', 'r', '.', 'b', 'r', '.', 'g', 'z'] = some [.gz, .br] := by decide
example : tarSteps ['/', 'x', '.', 'y', '/', 'a', '.', 't', 'a', 'r'] = some [] := by decide
example : tarSteps ['a', '.', 't', 'g', 'z'] = none := by decide

/-! ## non-vacuity -/

def fsOk : FS :=
  [([], .dir), ([['r']], .dir), ([['r'], ['a']], .file 1), ([['r'], ['d']], .dir),
   ([['r'], ['d'], sIndex], .file 2), ([['r'], ['b', '.', 'b', 'r']], .file 3), ([['s']], .file 7)]

example : serveStatic fsOk Accept.none [⟨mkPrefix [], .folder [['r']]⟩] ['/', 'a'] = .ok 1 := by decide
example : serveStatic fsOk Accept.none [⟨mkPrefix [], .folder [['r']]⟩] ['/', 'd'] = .ok 2 := by decide
example : serveStatic fsOk Accept.none [⟨mkPrefix [], .folder [['r']]⟩] ['/', 'd', '/'] = .ok 2 := by decide
example : serveStatic fsOk Accept.none [⟨mkPrefix [], .folder [['r']]⟩] ['/', 'b'] = .ok 3 := by decide
example : serveStatic fsOk Accept.none [⟨mkPrefix ['p'], .folder [['r']]⟩] ['/', 'p', '/', '/', 'a'] = .ok 1 := by decide
example : serveStatic fsOk Accept.none [⟨mkPrefix [], .folder [['r']]⟩] ['/', 'd', '/', '.', '.', '/', 'a'] = .notFound := by decide
example : serveStatic fsOk Accept.none [⟨mkPrefix [], .folder [['r']]⟩] ['/', '/', '/', 's'] = .notFound := by decide
example : serveStatic fsOk Accept.none [⟨mkPrefix [], .folder [['r']]⟩] ['/', '/', '/', 'r', '/', 'a'] = .ok 1 := by decide
example : serveStatic fsOk Accept.none [⟨mkPrefix [], .tar (tarBuild [(['x', '/'] ++ sIndex, 5)])⟩] ['/', 'x'] = .ok 5 := by decide
/-- a tar member stored as plain and as `.br`: the accepted encoding decides which copy is sent -/
example : serveStatic fsOk ⟨true, false⟩ [⟨mkPrefix [], .tar (tarBuild [(['a'], 5), (['a', '.', 'b', 'r'], 6)])⟩] ['/', 'a'] = .ok 6 := by decide
example : serveStatic fsOk Accept.none [⟨mkPrefix [], .tar (tarBuild [(['a'], 5), (['a', '.', 'b', 'r'], 6)])⟩] ['/', 'a'] = .ok 5 := by decide
/-- the folder source ignores the accepted encodings -/
example : serveStatic fsOk ⟨true, true⟩ [⟨mkPrefix [], .folder [['r']]⟩] ['/', '.', '.', '/', 's'] = .notFound := by decide
example : RootOk fsEx [['r']] := rootOk_ex

end VtProps.C07
