import VtModel.TarDir
/-!
# C12 (scope note, proved): tar archives and tile directories have no completion marker

The property is stated for `.versatiles` and `.pmtiles`.  For the other file-based targets the
container model (`VtModel.TarDir`: a container is the list of its regular members / files, written
metadata first, then one member per tile) shows why it cannot hold: a crash at a member boundary
leaves a member prefix, every member prefix of a readable container that still holds a tile is a
readable container, and it lacks the tiles that were not written yet.
-/
namespace VtProps.C12
open VtModel VtModel.TarDir

/-- reading a member prefix of a readable member list does not fail -/
theorem foldFiles_take_ok (step : State → File → Outcome State) :
    ∀ (fs : List File) (s s' : State), foldFiles step s fs = .ok s' →
      ∀ k, ∃ s'', foldFiles step s (fs.take k) = .ok s'' := by
  intro fs
  induction fs with
  | nil => intro s s' _ k; exact ⟨s, by simp [foldFiles]⟩
  | cons f fs ih =>
    intro s s' h k
    cases k with
    | zero => exact ⟨s, by simp [foldFiles]⟩
    | succ k =>
      simp only [foldFiles] at h
      cases hs : step s f with
      | err => simp [hs] at h
      | panic => simp [hs] at h
      | ok s1 =>
        simp only [hs] at h
        obtain ⟨s'', h''⟩ := ih s1 s' h k
        exact ⟨s'', by simp [List.take_succ_cons, foldFiles, hs, h'']⟩

/-- **every member prefix of a readable tar archive is readable** (or holds no tile yet): the reader
    has nothing to tell a completed archive from one whose writer stopped at a member boundary –
    the harness observes such prefixes opening with fewer tiles (`extra.observation_tar_prefixes`).
    The same holds for `openDir` up to its sorting of the file list. -/
theorem tar_member_prefix_readable (K : Fmt.Inflate) (files : List File) (r : Reader)
    (h : openTar K files = .ok r) (k : Nat) :
    (∃ r', openTar K (files.take k) = .ok r') ∨ openTar K (files.take k) = .err := by
  unfold openTar at h ⊢
  cases hf : foldFiles (tarStep K) ⟨none, none, []⟩ files with
  | err => simp [hf] at h
  | panic => simp [hf] at h
  | ok s' =>
    obtain ⟨s'', h''⟩ := foldFiles_take_ok (tarStep K) files _ s' hf k
    rw [h'']
    simp only
    unfold finish
    split
    · exact Or.inr rfl
    · exact Or.inl ⟨_, rfl⟩
    · exact Or.inr rfl

end VtProps.C12
