import VtProofs.GeoReal
/-!
# C15 (geographic part) — theorems over ℝ

`fromGeoR` / `asGeoR` are `TileBBox::from_geo` / `TileBBox::as_geo_bbox` read over the real
numbers (same formulas, same 1e-6 guard, same clamping, including the repaired `max(p_max, p_min)`).
What is proved here is the *design* of the conversion; the `f64` implementation is tied to the
executable `Float` model by the correspondence check, and its deviation from ℝ is measured
(known finding F15: zoom ≥ 29).
-/
noncomputable section
namespace VtProps.C15Geo
open VtProofs.GeoReal

/-- geographic box `(west, south, east, north)` -/
structure GeoR where
  w : ℝ
  s : ℝ
  e : ℝ
  n : ℝ

/-- `GeoBBox::check` -/
def GeoR.Valid (g : GeoR) : Prop :=
  -180 ≤ g.w ∧ -90 ≤ g.s ∧ g.e ≤ 180 ∧ g.n ≤ 90 ∧ g.w ≤ g.e ∧ g.s ≤ g.n

/-- integer tile box `(xmin, ymin, xmax, ymax)` -/
structure TBox where
  xmin : ℤ
  ymin : ℤ
  xmax : ℤ
  ymax : ℤ

/-- `TileBBox::as_geo_bbox` at `Z = 2^z` -/
def asGeoR (Z : ℕ) (b : TBox) : GeoR :=
  ⟨lonOf Z b.xmin, latOf Z (b.ymax + 1), lonOf Z (b.xmax + 1), latOf Z b.ymin⟩

/-- `TileBBox::from_geo` at `Z = 2^z` (after the repair: `max(p_max, p_min)`) -/
def fromGeoR (Z : ℕ) (g : GeoR) : TBox :=
  let x0 := roundDown (xOf Z g.w) Z
  let y0 := roundDown (yOf Z g.n) Z
  ⟨x0, y0, max (roundUp (xOf Z g.e) Z) x0, max (roundUp (yOf Z g.s) Z) y0⟩

/-- **round trip**: converting any valid non-empty tile box to geographic bounds gives a valid
    geographic box, and converting that back returns the same tile box — at every zoom level. -/
theorem geo_roundtrip (z : ℕ) (b : TBox)
    (hx0 : 0 ≤ b.xmin) (hx : b.xmin ≤ b.xmax) (hx1 : b.xmax ≤ (2 ^ z : ℕ) - 1)
    (hy0 : 0 ≤ b.ymin) (hy : b.ymin ≤ b.ymax) (hy1 : b.ymax ≤ (2 ^ z : ℕ) - 1) :
    (asGeoR (2 ^ z) b).Valid ∧ fromGeoR (2 ^ z) (asGeoR (2 ^ z) b) = b := by
  have hZpos : (0 : ℝ) < ((2 ^ z : ℕ) : ℝ) := by positivity
  have hZne : ((2 ^ z : ℕ) : ℝ) ≠ 0 := ne_of_gt hZpos
  have hZ1 : 1 ≤ 2 ^ z := Nat.one_le_two_pow
  constructor
  · unfold GeoR.Valid asGeoR
    simp only
    have c0 : (0 : ℝ) ≤ (b.xmin : ℝ) := by exact_mod_cast hx0
    have c1 : (b.xmin : ℝ) ≤ ((2 ^ z : ℕ) : ℝ) := by
      have : b.xmin ≤ ((2 ^ z : ℕ) : ℤ) := by omega
      exact_mod_cast this
    have c2 : (0 : ℝ) ≤ (b.xmax : ℝ) + 1 := by
      have : (0 : ℤ) ≤ b.xmax + 1 := by omega
      exact_mod_cast this
    have c3 : (b.xmax : ℝ) + 1 ≤ ((2 ^ z : ℕ) : ℝ) := by
      have : b.xmax + 1 ≤ ((2 ^ z : ℕ) : ℤ) := by omega
      exact_mod_cast this
    refine ⟨(lonOf_range hZpos c0 c1).1, (latOf_range _ _).1.le, (lonOf_range hZpos c2 c3).2,
      (latOf_range _ _).2.le, ?_, ?_⟩
    · -- west ≤ east
      unfold lonOf
      have : (b.xmin : ℝ) ≤ (b.xmax : ℝ) + 1 := by
        have : b.xmin ≤ b.xmax + 1 := by omega
        exact_mod_cast this
      have := div_le_div_of_nonneg_right this hZpos.le
      linarith
    · -- south ≤ north
      apply latOf_antitone hZpos
      have : b.ymin ≤ b.ymax + 1 := by omega
      exact_mod_cast this
  · unfold fromGeoR asGeoR
    simp only
    rw [xOf_lonOf hZne, xOf_lonOf hZne, yOf_latOf hZne, yOf_latOf hZne]
    have e1 : roundDown (b.xmin : ℝ) (2 ^ z) = b.xmin := roundDown_int _ _ hx0 (by omega)
    have e2 : roundDown (b.ymin : ℝ) (2 ^ z) = b.ymin := roundDown_int _ _ hy0 (by omega)
    have e3 : roundUp ((b.xmax : ℝ) + 1) (2 ^ z) = b.xmax := roundUp_int_succ _ _ (by omega) hx1
    have e4 : roundUp ((b.ymax : ℝ) + 1) (2 ^ z) = b.ymax := roundUp_int_succ _ _ (by omega) hy1
    rw [e1, e2, e3, e4, max_eq_left hx, max_eq_left hy]

/-- **coverage**: every valid geographic box, however small, maps to a non-empty tile box inside
    the level, whose columns/rows cover the box's (clamped) Mercator position up to the 1e-6 tile
    guard. Latitudes beyond the Mercator limit have positions outside `[0, 2^z]` and clamp to the
    first/last row. -/
theorem geo_cover (z : ℕ) (g : GeoR) (_hv : g.Valid) :
    let t := fromGeoR (2 ^ z) g
    let Z : ℝ := ((2 ^ z : ℕ) : ℝ)
    -- non-empty, inside the level
    (0 ≤ t.xmin ∧ t.xmin ≤ t.xmax ∧ t.xmax ≤ (2 ^ z : ℕ) - 1 ∧ 0 ≤ t.ymin ∧ t.ymin ≤ t.ymax ∧ t.ymax ≤ (2 ^ z : ℕ) - 1) ∧
    -- covers west/east and north/south edges up to the guard
    ((t.xmin : ℝ) ≤ max (xOf Z g.w) 0 + guard ∧ min (xOf Z g.e) Z ≤ (t.xmax : ℝ) + 1 + guard ∧
     (t.ymin : ℝ) ≤ max (yOf Z g.n) 0 + guard ∧ min (yOf Z g.s) Z ≤ (t.ymax : ℝ) + 1 + guard) := by
  have hZ1 : 1 ≤ 2 ^ z := Nat.one_le_two_pow
  have hZi : (1 : ℤ) ≤ ((2 ^ z : ℕ) : ℤ) := by exact_mod_cast hZ1
  intro t Z
  have rd : ∀ v : ℝ, 0 ≤ roundDown v (2 ^ z) ∧ roundDown v (2 ^ z) ≤ ((2 ^ z : ℕ) : ℤ) - 1 := by
    intro v; unfold roundDown; omega
  have ru : ∀ v : ℝ, 0 ≤ roundUp v (2 ^ z) ∧ roundUp v (2 ^ z) ≤ ((2 ^ z : ℕ) : ℤ) - 1 := by
    intro v; unfold roundUp; omega
  refine ⟨⟨(rd _).1, le_max_right _ _, max_le (ru _).2 (rd _).2, (rd _).1, le_max_right _ _, max_le (ru _).2 (rd _).2⟩, ?_⟩
  refine ⟨roundDown_le _ _ hZ1, ?_, roundDown_le _ _ hZ1, ?_⟩
  · have h1 := le_roundUp (xOf Z g.e) (2 ^ z) hZ1
    have h2 : ((roundUp (xOf Z g.e) (2 ^ z) : ℤ) : ℝ) ≤ ((t.xmax : ℤ) : ℝ) := by
      exact_mod_cast le_max_left _ _
    linarith
  · have h1 := le_roundUp (yOf Z g.s) (2 ^ z) hZ1
    have h2 : ((roundUp (yOf Z g.s) (2 ^ z) : ℤ) : ℝ) ≤ ((t.ymax : ℤ) : ℝ) := by
      exact_mod_cast le_max_left _ _
    linarith

/-- the unrepaired conversion (`xmax := roundUp …` without the `max`) gave `xmax < xmin` for the
    valid zero-area box `(0,0,0,0)` at zoom 1 — the defect F3 that was fixed in /repo. -/
theorem unrepaired_from_geo_was_empty :
    roundUp (xOf ((2 ^ 1 : ℕ) : ℝ) 0) (2 ^ 1) < roundDown (xOf ((2 ^ 1 : ℕ) : ℝ) 0) (2 ^ 1) := by
  have hx : xOf ((2 ^ 1 : ℕ) : ℝ) 0 = 1 := by unfold xOf; norm_num
  rw [hx]
  have h1 : roundDown (1 : ℝ) (2 ^ 1) = 1 := by
    have := roundDown_int 1 (2 ^ 1) (by norm_num) (by norm_num); simpa using this
  have h2 : roundUp (1 : ℝ) (2 ^ 1) = 0 := by
    have := roundUp_int_succ 0 (2 ^ 1) (by norm_num) (by norm_num); simpa using this
  rw [h1, h2]; norm_num

/-! non-vacuity -/
example : (⟨-10, -5, 10, 5⟩ : GeoR).Valid := by unfold GeoR.Valid; norm_num
example : (0 : ℤ) ≤ 3 ∧ (3 : ℤ) ≤ 5 ∧ (5 : ℤ) ≤ (2 ^ 3 : ℕ) - 1 := by norm_num

end VtProps.C15Geo
