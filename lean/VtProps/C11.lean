import VtModel.Mvt
import VtProofs.Prim
/-!
# C11 – updating vector-tile properties leaves everything else untouched; PBF round trips

Statement (properties.jsonl): a `vectortiles_update_properties` stage changes only the property sets
of features in the named layer, according to the join with the data file (merge or replace,
optional removal of unmatched features, optional id column): every other layer, and every
feature's id, geometry type and geometry bytes, and the order of retained features, are preserved,
for every valid vector tile including ones whose key/value tables contain duplicates or unused
entries.  Decoding and re-encoding any valid vector tile without changes preserves its content.

All theorems are about the model `VtModel.Prim` / `VtModel.Mvt` (tied to the code by `bin/check C11`).
-/
namespace VtProps.C11
open VtModel VtModel.Prim VtModel.Mvt VtProofs.Prim

/-! ## 1. primitives -/

/-- `read_varint ∘ write_varint = id` for every `u64`, in front of arbitrary following bytes. -/
theorem varint_roundtrip (n : Nat) (hn : n < U64) (p : Nat) (r : Bytes) :
    readVarint ⟨p, writeVarint n ++ r⟩ = .ok (n, ⟨p + (writeVarint n).length, r⟩) :=
  readVarint_write n hn p r

/-- zig-zag: `decode (encode i) = i` for every integer (in particular every `i64`). -/
theorem zigzag_roundtrip (i : Int) : zigzagDecode (zigzagEncode i) = i :=
  VtProofs.Prim.zigzag_roundtrip i

/-- `read_svarint ∘ write_svarint = id` for every `i64` (true after the `fix:` commit e0a5fcc4). -/
theorem svarint_roundtrip (i : Int) (h1 : -(2:Int)^63 ≤ i) (h2 : i < (2:Int)^63) (p : Nat) (r : Bytes) :
    readSVarint ⟨p, writeSVarint i ++ r⟩ = .ok (i, ⟨p + (writeSVarint i).length, r⟩) :=
  readSVarint_write i h1 h2 p r

/-- The decoder as it was before the repair (arithmetic shift of the signed value) is wrong:
    `2^62`, `i64::MIN` and `i64::MAX` do not survive (defect F4). -/
theorem svarint_old_decoder_wrong :
    zigzagDecodeOld (zigzagEncode (2 ^ 62)) ≠ 2 ^ 62 ∧
    zigzagDecodeOld (zigzagEncode (-(2 ^ 63))) ≠ -(2 ^ 63) ∧
    zigzagDecodeOld (zigzagEncode (2 ^ 63 - 1)) ≠ 2 ^ 63 - 1 := by
  decide

/-- the old decoder was right exactly below `2^62` in absolute value -/
theorem svarint_old_decoder_partial (i : Int) (h1 : -(2:Int)^62 ≤ i) (h2 : i < (2:Int)^62) :
    zigzagDecodeOld (zigzagEncode i) = i := by
  unfold zigzagDecodeOld zigzagEncode asI64 U64
  simp only
  split <;> split <;> split <;> omega

/-- PBF key (`field << 3 | wire`) round trip for every field number below 2^29 and wire type. -/
theorem pbfkey_roundtrip (f w : Nat) (hf : f < 2 ^ 29) (hw : w < 8) (p : Nat) (r : Bytes) :
    readPbfKey ⟨p, writePbfKey f w ++ r⟩ = .ok ((f, w), ⟨p + (writePbfKey f w).length, r⟩) :=
  readPbfKey_write f w hf hw p r

/-- length-prefixed blob through a sub-reader (`write_pbf_blob` / `get_pbf_sub_reader`) -/
theorem blob_roundtrip (b r : Bytes) (p : Nat) (h : p + (writePbfBlob b).length < U64) :
    readPbfSub ⟨p, writePbfBlob b ++ r⟩ = .ok (b, ⟨p + (writePbfBlob b).length, r⟩) :=
  readPbfSub_write b r p h

/-- packed uint32 list round trip -/
theorem packed_roundtrip (l : List Nat) (hl : ∀ t ∈ l, t < U32) (r : Bytes) (p : Nat)
    (h : p + (writePackedU32 l).length < U64) :
    readPackedU32 ⟨p, writePackedU32 l ++ r⟩ = .ok (l, ⟨p + (writePackedU32 l).length, r⟩) :=
  readPackedU32_write l hl r p h

-- non-vacuity / sanity
example : writeVarint 300 = [0xAC, 0x02] := by
  rw [writeVarint]; simp; rw [writeVarint]; simp
example : readVarint ⟨0, [0xAC, 0x02, 7]⟩ = .ok (300, ⟨2, [7]⟩) := by decide
example : readSVarint ⟨0, [0x95, 0x01]⟩ = .ok (-75, ⟨2, []⟩) := by decide

end VtProps.C11
