import VtModel.Mvt
import VtProofs.Prim
import VtProofs.MvtTables
import VtProofs.MvtOps
import VtProofs.MvtCodec
import VtProofs.MvtShape
import VtProofs.MvtFromIter
import VtProofs.Csv
import VtProofs.Geom
/-!
# C11 – updating vector-tile properties leaves everything else untouched; PBF round trips

Statement (properties.jsonl): a `vectortiles_update_properties` stage changes only the property sets
of features in the named layer, according to the join with the data file (merge or replace,
optional removal of unmatched features, optional id column): every other layer, and every
feature's id, geometry type and geometry bytes, and the order of retained features, are preserved,
for every valid vector tile including ones whose key/value tables contain duplicates or unused
entries.  Decoding and re-encoding any valid vector tile without changes preserves its content.

All theorems are about the model `VtModel.Prim` / `VtModel.Mvt` (tied to the code by `bin/check C11`).
-/
namespace VtProps.C11
open VtModel VtModel.Prim VtModel.Mvt VtProofs.Prim VtProofs.MvtTables VtProofs.MvtOps VtProofs.MvtCodec VtProofs.MvtShape VtProofs.MvtFromIter

/-! ## 1. primitives -/

/-- `read_varint ∘ write_varint = id` for every `u64`, in front of arbitrary following bytes. -/
theorem varint_roundtrip (n : Nat) (hn : n < U64) (p : Nat) (r : Bytes) :
    readVarint ⟨p, writeVarint n ++ r⟩ = .ok (n, ⟨p + (writeVarint n).length, r⟩) :=
  readVarint_write n hn p r

/-- zig-zag: `decode (encode i) = i` for every integer (in particular every `i64`). -/
theorem zigzag_roundtrip (i : Int) : zigzagDecode (zigzagEncode i) = i :=
  VtProofs.Prim.zigzag_roundtrip i

/-- `read_svarint ∘ write_svarint = id` for every `i64` (true after the `fix:` commit e0a5fcc4). -/
theorem svarint_roundtrip (i : Int) (h1 : -(2:Int)^63 ≤ i) (h2 : i < (2:Int)^63) (p : Nat) (r : Bytes) :
    readSVarint ⟨p, writeSVarint i ++ r⟩ = .ok (i, ⟨p + (writeSVarint i).length, r⟩) :=
  readSVarint_write i h1 h2 p r

/-- The decoder as it was before the repair (arithmetic shift of the signed value) is wrong:
    `2^62`, `i64::MIN` and `i64::MAX` do not survive (defect F4). -/
theorem svarint_old_decoder_wrong :
    zigzagDecodeOld (zigzagEncode (2 ^ 62)) ≠ 2 ^ 62 ∧
    zigzagDecodeOld (zigzagEncode (-(2 ^ 63))) ≠ -(2 ^ 63) ∧
    zigzagDecodeOld (zigzagEncode (2 ^ 63 - 1)) ≠ 2 ^ 63 - 1 := by
  decide

/-- the old decoder was right exactly below `2^62` in absolute value -/
theorem svarint_old_decoder_partial (i : Int) (h1 : -(2:Int)^62 ≤ i) (h2 : i < (2:Int)^62) :
    zigzagDecodeOld (zigzagEncode i) = i := by
  unfold zigzagDecodeOld zigzagEncode asI64 U64
  simp only
  split <;> split <;> split <;> omega

/-- PBF key (`field << 3 | wire`) round trip for every field number below 2^29 and wire type. -/
theorem pbfkey_roundtrip (f w : Nat) (hf : f < 2 ^ 29) (hw : w < 8) (p : Nat) (r : Bytes) :
    readPbfKey ⟨p, writePbfKey f w ++ r⟩ = .ok ((f, w), ⟨p + (writePbfKey f w).length, r⟩) :=
  readPbfKey_write f w hf hw p r

/-- length-prefixed blob through a sub-reader (`write_pbf_blob` / `get_pbf_sub_reader`) -/
theorem blob_roundtrip (b r : Bytes) (p : Nat) (h : p + (writePbfBlob b).length < U64) :
    readPbfSub ⟨p, writePbfBlob b ++ r⟩ = .ok (b, ⟨p + (writePbfBlob b).length, r⟩) :=
  readPbfSub_write b r p h

/-- packed uint32 list round trip -/
theorem packed_roundtrip (l : List Nat) (hl : ∀ t ∈ l, t < U32) (r : Bytes) (p : Nat)
    (h : p + (writePackedU32 l).length < U64) :
    readPackedU32 ⟨p, writePackedU32 l ++ r⟩ = .ok (l, ⟨p + (writePackedU32 l).length, r⟩) :=
  readPackedU32_write l hl r p h

-- non-vacuity / sanity
example : writeVarint 300 = [0xAC, 0x02] := by
  rw [writeVarint]; simp; rw [writeVarint]; simp
example : readVarint ⟨0, [0xAC, 0x02, 7]⟩ = .ok (300, ⟨2, [7]⟩) := by decide
example : readSVarint ⟨0, [0x95, 0x01]⟩ = .ok (-75, ⟨2, []⟩) := by decide

/-! ## 2. property tables

`Sorted p` is the representation invariant of a `BTreeMap` (keys strictly increasing); every
property set the code handles is one (`decodeTags_sorted`, `join_sorted`). -/

/-- Re-indexing: writing a property set into *any* key/value tables (`encode_tag_ids`, which appends
    missing entries and re-uses the first occurrence of present ones – duplicates and unused entries
    allowed) and reading the tags back from the grown tables gives the property set back. -/
theorem tags_roundtrip (p : Props) (hs : Sorted p) (keys : List Bytes) (vals : List Value) :
    decodeTags (encodeTags keys vals p).1 (encodeTags keys vals p).2.1 (encodeTags keys vals p).2.2 = .ok p :=
  decodeTags_encodeTags p hs keys vals

/-- tags written earlier keep their meaning when later features append to the tables -/
theorem tags_stable (keys ek : List Bytes) (vals ev : List Value) (tags : List Nat) (p : Props)
    (h : decodeTags keys vals tags = .ok p) : decodeTags (keys ++ ek) (vals ++ ev) tags = .ok p :=
  decodePairs_extend keys ek vals ev tags [] p h

/-- whatever `decode_tag_ids` returns is a well-formed map -/
theorem decoded_props_sorted (keys : List Bytes) (vals : List Value) (tags : List Nat) (p : Props)
    (h : decodeTags keys vals tags = .ok p) : Sorted p :=
  decodeTags_sorted keys vals tags p h

/-! ## 3. the join -/

/-- every property set stored in the data map is a well-formed map (they are `BTreeMap`s built by
    `GeoProperties::from_iter`) -/
def DataSorted (m : DataMap) : Prop := ∀ k p, dlookup k m = some p → Sorted p

/-- a feature without the id field is kept unchanged -/
theorem join_no_id (a : UpdArgs) (fmt : Value → Bytes) (m : DataMap) (p : Props)
    (h : plookup a.idTiles p = none) : joinFn a fmt m p = some p := by
  simp [joinFn, h]

/-- matched, `replace_properties`: the new properties are exactly the data row -/
theorem join_replace (a : UpdArgs) (fmt : Value → Bytes) (m : DataMap) (p np : Props) (id : Value)
    (h : plookup a.idTiles p = some id) (hm : dlookup (fmt id) m = some np) (hr : a.replace = true) :
    joinFn a fmt m p = some np := by
  simp [joinFn, h, hm, hr]

/-- matched, merge: the old properties with every pair of the data row inserted (row wins) -/
theorem join_merge (a : UpdArgs) (fmt : Value → Bytes) (m : DataMap) (p np : Props) (id : Value)
    (h : plookup a.idTiles p = some id) (hm : dlookup (fmt id) m = some np) (hr : a.replace = false) :
    joinFn a fmt m p = some (pupdate p np) := by
  simp [joinFn, h, hm, hr]

/-- unmatched features are removed iff `remove_non_matching`, and otherwise kept unchanged -/
theorem join_unmatched (a : UpdArgs) (fmt : Value → Bytes) (m : DataMap) (p : Props) (id : Value)
    (h : plookup a.idTiles p = some id) (hm : dlookup (fmt id) m = none) :
    (joinFn a fmt m p = none ↔ a.remove = true) ∧ (a.remove = false → joinFn a fmt m p = some p) := by
  cases hr : a.remove <;> simp [joinFn, h, hm, hr]

/-- a feature is dropped only for that reason -/
theorem join_none_iff (a : UpdArgs) (fmt : Value → Bytes) (m : DataMap) (p : Props) :
    joinFn a fmt m p = none ↔
      ∃ id, plookup a.idTiles p = some id ∧ dlookup (fmt id) m = none ∧ a.remove = true := by
  unfold joinFn
  cases h : plookup a.idTiles p with
  | none => simp
  | some id =>
    cases hm : dlookup (fmt id) m with
    | none => cases hr : a.remove <;> simp [hm]
    | some np => simp [hm]

theorem join_sorted (a : UpdArgs) (fmt : Value → Bytes) (m : DataMap) (hm : DataSorted m) (p p' : Props)
    (hs : Sorted p) (h : joinFn a fmt m p = some p') : Sorted p' := by
  unfold joinFn at h
  cases hid : plookup a.idTiles p with
  | none => simp [hid] at h; subst h; exact hs
  | some id =>
    simp only [hid] at h
    cases hl : dlookup (fmt id) m with
    | none =>
      simp only [hl] at h
      split at h
      · simp at h
      · simp at h; subst h; exact hs
    | some np =>
      simp only [hl] at h
      have hnp : Sorted np := hm _ _ hl
      split at h
      · simp at h; subst h; exact hnp
      · simp at h; subst h; exact pupdate_sorted np p hs

/-! ## 4. frame theorem -/

theorem mapLayers_spec (g : Layer → Outcome Layer) : ∀ (ls ls' : List Layer), mapLayers g ls = .ok ls' →
    ls'.length = ls.length ∧ ∀ (i : Nat) (l : Layer), ls[i]? = some l → ∃ l', ls'[i]? = some l' ∧ g l = .ok l' := by
  intro ls
  induction ls with
  | nil => intro ls' h; simp [mapLayers] at h; subst h; simp
  | cons x t ih =>
    intro ls' h
    simp only [mapLayers] at h
    cases hx : g x with
    | err => simp [hx] at h
    | panic => simp [hx] at h
    | ok x' =>
      simp only [hx] at h
      cases ht : mapLayers g t with
      | err => simp [ht] at h
      | panic => simp [ht] at h
      | ok t' =>
        simp only [ht, Outcome.ok.injEq] at h
        subst h
        obtain ⟨hl, hi⟩ := ih t' ht
        refine ⟨by simp [hl], ?_⟩
        intro i l hil
        cases i with
        | zero => simp at hil; subst hil; exact ⟨x', by simp, hx⟩
        | succ j => simpa using hi j l (by simpa using hil)

/-- **C11 (frame).**  If the update of a tile succeeds then, position by position:
    * a layer with another name is returned *unchanged* (same tables, same tags, same bytes);
    * the named layer keeps name, extent and version; its features are the old ones in the old order,
      each with the same id, geometry type and geometry bytes, a feature being absent exactly when the
      join says so (`join_none_iff`), and the property set of a retained feature is
      `joinFn` of its old property set (`join_no_id`, `join_replace`, `join_merge`, `join_unmatched`);
    for every valid tile, whatever duplicates / unused entries its tables hold, and for every way
    `PropertyManager::from_iter` may pre-fill the new tables (`mk`). -/
theorem update_frame (mk : List Props → List Bytes × List Value) (a : UpdArgs) (fmt : Value → Bytes)
    (m : DataMap) (hm : DataSorted m) (t t' : Tile) (h : updateTile mk a fmt m t = .ok t') :
    t'.layers.length = t.layers.length ∧
    ∀ (i : Nat) (l : Layer), t.layers[i]? = some l → ∃ l', t'.layers[i]? = some l' ∧
      (l.name ≠ a.layer → l' = l) ∧
      (l.name = a.layer →
        l'.name = l.name ∧ l'.extent = l.extent ∧ l'.version = l.version ∧
        ∃ sfs, semFeatures l.keys l.vals l.features = some sfs ∧
          semFeatures l'.keys l'.vals l'.features =
            some (sfs.filterMap (fun sf => (joinFn a fmt m sf.props).map (fun p => { sf with props := p })))) := by
  unfold updateTile at h
  cases hml : mapLayers (fun l => if l.name = a.layer then filterMapProps mk (joinFn a fmt m) l else .ok l) t.layers with
  | err => simp [hml] at h
  | panic => simp [hml] at h
  | ok ls =>
    simp only [hml, Outcome.ok.injEq] at h
    subst h
    obtain ⟨hlen, hi⟩ := mapLayers_spec _ _ _ hml
    refine ⟨hlen, ?_⟩
    intro i l hil
    obtain ⟨l', hl', hg⟩ := hi i l hil
    refine ⟨l', hl', ?_, ?_⟩
    · intro hne
      simp [hne] at hg
      exact hg.symm
    · intro he
      simp only [he, if_true] at hg
      have := filterMapProps_frame mk (joinFn a fmt m) (fun p p' hs hj => join_sorted a fmt m hm p p' hs hj) l l' hg
      rw [he] at this ⊢
      exact this

theorem decodePairs_no_panic (keys : List Bytes) (vals : List Value) :
    ∀ (tags : List Nat) (acc : Props), decodePairs keys vals tags acc ≠ .panic := by
  intro tags acc
  induction tags, acc using decodePairs.induct keys vals with
  | case1 acc => simp [decodePairs]
  | case2 _ acc => simp [decodePairs]
  | case3 k v t acc kk vv hv hk ih => simpa [decodePairs, hk, hv] using ih
  | case4 k v t acc hno =>
    simp only [decodePairs]
    first | simp | (split <;> simp)

/-- the update never panics (since `fix:` e60b9a05 a tag id outside the tables is an `Err`): whatever the
    decoded tile, the data and the flags, the result is a tile or an error -/
theorem update_never_panics (mk : List Props → List Bytes × List Value) (a : UpdArgs) (fmt : Value → Bytes)
    (m : DataMap) (t : Tile) : updateTile mk a fmt m t ≠ .panic := by
  have hf : ∀ (keys : List Bytes) (vals : List Value) (f : Props → Option Props) (fs : List Feature),
      fmpDecode keys vals f fs ≠ .panic := by
    intro keys vals f fs
    induction fs with
    | nil => simp [fmpDecode]
    | cons x xs ih =>
      simp only [fmpDecode]
      cases hd : decodeTags keys vals x.tags with
      | ok p =>
        simp only
        cases hr : fmpDecode keys vals f xs with
        | ok rest => cases f p <;> simp
        | err => simp
        | panic => exact absurd hr ih
      | err => simp
      | panic => exact absurd hd (decodePairs_no_panic keys vals x.tags [])
  have hl : ∀ l : Layer, (if l.name = a.layer then filterMapProps mk (joinFn a fmt m) l else .ok l) ≠ .panic := by
    intro l
    split
    · unfold filterMapProps
      cases hd : fmpDecode l.keys l.vals (joinFn a fmt m) l.features with
      | ok fps => simp
      | err => simp
      | panic => exact absurd hd (hf _ _ _ _)
    · simp
  have hm' : ∀ ls : List Layer, mapLayers (fun l => if l.name = a.layer then filterMapProps mk (joinFn a fmt m) l else .ok l) ls ≠ .panic := by
    intro ls
    induction ls with
    | nil => simp [mapLayers]
    | cons x xs ih =>
      simp only [mapLayers]
      cases hx : (if x.name = a.layer then filterMapProps mk (joinFn a fmt m) x else Outcome.ok x) with
      | ok x' =>
        simp only
        cases hxs : mapLayers (fun l => if l.name = a.layer then filterMapProps mk (joinFn a fmt m) l else .ok l) xs with
        | ok r => simp
        | err => simp
        | panic => exact absurd hxs ih
      | err => simp
      | panic => exact absurd hx (hl x)
  unfold updateTile
  cases hq : mapLayers (fun l => if l.name = a.layer then filterMapProps mk (joinFn a fmt m) l else .ok l) t.layers with
  | ok r => simp
  | err => simp
  | panic => exact absurd hq (hm' _)

-- non-vacuity: a one-feature layer, id "a1" matched, merge
example :
    let l : Layer := { extent := 4096, features := [{ id := some 7, tags := [0, 0], gtype := 1, geom := [9, 2, 2] }],
                       name := [114], keys := [[105, 100]], vals := [.str [97, 49]], version := 2 }
    let a : UpdArgs := { layer := [114], idTiles := [105, 100], idData := [105, 100], replace := false, remove := true, includeId := false }
    let m : DataMap := [([97, 49], [([110], .uint 5)])]
    (updateTile fromIter a (fmtValue []) m ⟨[l]⟩).map (fun t => t.layers.map dumpLayer)
      = .ok ["72:4096:2:7,1,090202,6964=s6131&6e=u5"] := by
  decide

/-! ## 5. decode ∘ encode

`ValueOk` / `FeatureOk` / `LayerOk` / `TileOk` describe what the decoder can produce: UTF-8 strings,
4/8-byte float payloads, `i64`/`u64`/`u32` ranges, geometry type ≤ 3, and an encoding shorter than
2^64 bytes (the `u64` cursor arithmetic of the sub-readers).  Tables may contain duplicates and
unused entries; nothing is re-ordered or de-duplicated. -/

/-- `GeoValue::read (to_blob v) = v` for strings, float/double payloads, every `i64`, every `u64`, bools -/
theorem value_roundtrip (v : Value) (hv : ValueOk v) : decodeValue (encodeValue v) = .ok v :=
  decodeValue_encodeValue v hv

theorem feature_roundtrip (f : Feature) (hf : FeatureOk f) : decodeFeature (encodeFeature f) = .ok f :=
  decodeFeature_encodeFeature f hf

theorem layer_roundtrip (l : Layer) (hl : LayerOk l) : decodeLayer (encodeLayer l) = .ok l :=
  decodeLayer_encodeLayer l hl

/-- **C11 (round trip).** `from_blob (to_blob t) = t` – the whole structure, hence its content. -/
theorem tile_roundtrip (t : Tile) (ht : TileOk t) : decodeTile (encodeTile t) = .ok t :=
  decodeTile_encodeTile t ht

/-- … in particular the semantic content is preserved -/
theorem tile_roundtrip_sem (t : Tile) (ht : TileOk t) :
    (decodeTile (encodeTile t)).map semTile = .ok (semTile t) := by
  rw [tile_roundtrip t ht]; rfl

/-- whatever `from_blob` returns is a tile that `to_blob` / `from_blob` reproduce exactly: strings are
    UTF-8, float payloads have 4 / 8 bytes, integers are in range, tag ids are `u32`, geometry types
    ≤ 3, extent / version are `u32` (`decodeTile_shape`, an invariant of the four reader loops). The only
    remaining premise is that the re-encoded tile is shorter than 2^64 bytes. -/
theorem decoded_tile_ok (b : Bytes) (t : Tile) (h : decodeTile b = .ok t) (hl : (encodeTile t).length < U64) :
    TileOk t :=
  decodeTile_ok b t h hl

/-- **C11 (second sentence, full strength).** For EVERY byte string the decoder accepts – tiles of any
    encoder, any field order, duplicate / unused table entries, non-minimal varints, int64 or sint64
    values – decoding, re-encoding and decoding again gives exactly what the first decoding gave
    (structure, hence content).  Premise: the re-encoded tile is shorter than 2^64 bytes, which holds
    for anything that fits a 64-bit address space.  (That the first decoding reads the tile as the MVT
    specification says is the subject of the correspondence with the independent decoder.) -/
theorem reencode_stable (b : Bytes) (t : Tile) (h : decodeTile b = .ok t) (hl : (encodeTile t).length < U64) :
    decodeTile (encodeTile t) = decodeTile b := by
  rw [h]; exact tile_roundtrip t (decoded_tile_ok b t h hl)

/-- … and re-encoding is idempotent on bytes: a second decode / encode cycle reproduces the bytes of the first -/
theorem reencode_idempotent (b : Bytes) (t : Tile) (h : decodeTile b = .ok t) (hl : (encodeTile t).length < U64) :
    (decodeTile (encodeTile t)).map encodeTile = .ok (encodeTile t) := by
  rw [reencode_stable b t h hl, h]; rfl

example : TileOk ⟨[]⟩ := by simp [TileOk, encodeTile, U64]
example : ValueOk (.uint 5) ∧ ValueOk (.int (-(2:Int)^63)) ∧ ValueOk (.str [97]) := by
  refine ⟨by simp [ValueOk, U64], by simp [ValueOk], ?_⟩
  simp [ValueOk, U64]; decide

/-! ## 6. the rebuilt tables (`PropertyManager::from_iter`) -/

/-- After `filter_map_properties` the named layer's key and value tables are exactly what
    `from_iter` builds from the retained features' new property sets: every used key / value once
    (no duplicates, no unused entries – whatever the input tables looked like), in the
    (frequency, value) order; re-encoding the features appends nothing. -/
theorem rebuilt_tables (f : Props → Option Props) (l l' : Layer) (h : filterMapProps fromIter f l = .ok l') :
    ∃ fps, fmpDecode l.keys l.vals f l.features = .ok fps ∧
      l'.keys = (fromIter (fps.map (·.2))).1 ∧ l'.vals = (fromIter (fps.map (·.2))).2 ∧
      l'.keys.Nodup ∧ l'.vals.Nodup ∧
      (∀ k, k ∈ l'.keys ↔ ∃ fp ∈ fps, ∃ v, (k, v) ∈ fp.2) ∧
      (∀ v, v ∈ l'.vals ↔ ∃ fp ∈ fps, ∃ k, (k, v) ∈ fp.2) := by
  unfold filterMapProps at h
  cases hd : fmpDecode l.keys l.vals f l.features with
  | err => simp [hd] at h
  | panic => simp [hd] at h
  | ok fps =>
    simp only [hd, Outcome.ok.injEq] at h
    have hk := fromIter_keys (fps.map (·.2))
    have hv := fromIter_vals (fps.map (·.2))
    have hmem : ∀ fp ∈ fps, ∀ kv ∈ fp.2, kv.1 ∈ (fromIter (fps.map (·.2))).1 ∧ kv.2 ∈ (fromIter (fps.map (·.2))).2 := by
      intro fp hfp kv hkv
      constructor
      · exact (hk.2 kv.1).mpr ⟨fp.2, List.mem_map_of_mem hfp, kv.2, hkv⟩
      · exact (hv.2 kv.2).mpr ⟨fp.2, List.mem_map_of_mem hfp, kv.1, hkv⟩
    obtain ⟨h1, h2⟩ := fmpEncode_no_growth fps _ _ hmem
    subst h
    refine ⟨fps, rfl, h1, h2, ?_, ?_, ?_, ?_⟩
    · simp only; rw [h1]; exact hk.1
    · simp only; rw [h2]; exact hv.1
    · intro k
      simp only; rw [h1, hk.2 k]
      constructor
      · rintro ⟨p, hp, v, hkv⟩
        obtain ⟨fp, hfp, rfl⟩ := List.mem_map.mp hp
        exact ⟨fp, hfp, v, hkv⟩
      · rintro ⟨fp, hfp, v, hkv⟩
        exact ⟨fp.2, List.mem_map_of_mem hfp, v, hkv⟩
    · intro v
      simp only; rw [h2, hv.2 v]
      constructor
      · rintro ⟨p, hp, k, hkv⟩
        obtain ⟨fp, hfp, rfl⟩ := List.mem_map.mp hp
        exact ⟨fp, hfp, k, hkv⟩
      · rintro ⟨fp, hfp, k, hkv⟩
        exact ⟨fp.2, List.mem_map_of_mem hfp, k, hkv⟩

/-- `from_iter` lists every key of the given property sets exactly once (and likewise every value) -/
theorem fromIter_tables (ps : List Props) :
    (fromIter ps).1.Nodup ∧ (fromIter ps).2.Nodup ∧
    (∀ k, k ∈ (fromIter ps).1 ↔ ∃ p ∈ ps, ∃ v, (k, v) ∈ p) ∧
    (∀ v, v ∈ (fromIter ps).2 ↔ ∃ p ∈ ps, ∃ k, (k, v) ∈ p) :=
  ⟨(fromIter_keys ps).1, (fromIter_vals ps).1, (fromIter_keys ps).2, (fromIter_vals ps).2⟩

-- the (count, value) order: "b" is used twice, "a" and "c" once → a, c, b; values by variant rank then value
example : fromIter [[([97], .uint 1), ([98], .str [120])], [([98], .str [120]), ([99], .int (-1))]]
    = ([[97], [99], [98]], [.int (-1), .uint 1, .str [120]]) := by decide

/-! ## 7. the data file (`utils/csv.rs`, `helpers/csv.rs`) -/

section csv
open VtModel.Csv VtProofs.Csv

/-- **CSV round trip.** Any table whose records are non-empty, not a lone empty cell (that is a blank
    line for this lexer) and UTF-8, written canonically – cells quoted exactly when they contain the
    separator, a quote, CR or LF; LF or CRLF line ends – is read back cell for cell. -/
theorem csv_roundtrip (sep : UInt8) (hs : SepOk sep) (eol : Bytes) (he : EolOk eol)
    (rows : List (List Bytes)) (hok : RowsOk rows) :
    lexRows sep (render sep eol rows) [] true [] = .ok rows := by
  simpa using lexRows_render sep hs eol he rows [] hok

/-- header + data rows of a rendered rectangular table -/
theorem csv_table_roundtrip (sep : UInt8) (hs : SepOk sep) (eol : Bytes) (he : EolOk eol)
    (h : List Bytes) (rows : List (List Bytes)) (hok : RowsOk (h :: rows))
    (hw : ∀ r ∈ rows, r.length = h.length) :
    table sep (render sep eol (h :: rows)) = .ok (h, rows) := by
  unfold table
  rw [csv_roundtrip sep hs eol he (h :: rows) hok]
  have : rows.all (fun r => r.length == h.length) = true := by
    simp only [List.all_eq_true, beq_iff_eq]; exact hw
  simp [this]

/-- line-ending independence: the LF and the CRLF rendering of a table give the same rows -/
theorem csv_eol_independent (sep : UInt8) (hs : SepOk sep) (rows : List (List Bytes)) (hok : RowsOk rows) :
    lexRows sep (render sep [10] rows) [] true [] = lexRows sep (render sep [13, 10] rows) [] true [] := by
  rw [csv_roundtrip sep hs [10] (Or.inl rfl) rows hok, csv_roundtrip sep hs [13, 10] (Or.inr rfl) rows hok]

/-- cells are never trimmed or altered outside quotes: an unquoted cell is every byte up to the next
    separator / CR / LF (or the end), blanks, tabs, NBSP and inner quotes included -/
theorem csv_unquoted_verbatim (sep : UInt8) (c t : Bytes) (hc : ∀ b ∈ c, isTerm sep b = false)
    (ht : t = [] ∨ ∃ b r, t = b :: r ∧ isTerm sep b = true) : simpleCell sep (c ++ t) = (c, t) :=
  simpleCell_append sep c t hc ht

/-- … and a quoted cell is every byte between the quotes with `""` read as one quote -/
theorem csv_quoted_verbatim (c t : Bytes) (ht : ∀ b r, t = b :: r → (b == 34) = false) :
    quotedCell (escape c ++ 34 :: t) = some (c, t) :=
  quotedCell_escape c t ht

end csv

/-! ### which data row a feature id selects

The join key of a data row is `parse_str(cell).to_string()`, the key of a feature is
`value.to_string()`; the row of a feature is `dlookup` of that text in the map built by
`buildDataMap` (later rows replace earlier ones). -/

/-- a cell of ASCII digits (in `u64` range) selects by its numeric value: leading zeros vanish, so `01`
    and `1` are the same key, and it is the key of the feature ids `UInt 1`, `Int 1`, and the string `"1"` -/
theorem key_of_digits (s : Bytes) (h1 : s.isEmpty = false) (h2 : s ≠ trueBytes) (h3 : s ≠ falseBytes)
    (h4 : looksDouble s = false) (h5 : looksInt s = false) (h6 : looksUInt s = true) (h7 : natOfDigits s < U64)
    (tbl : List (Value × Bytes)) :
    (parseStr s none).map (fmtValue tbl) = .ok (strBytes (toString (natOfDigits s))) := by
  simp [parseStr, h1, h2, h3, h4, h5, h6, h7, Outcome.map, Outcome.bind, fmtValue]

/-- any other text (not empty, not `true`/`false`, not number-shaped) is its own key, byte for byte –
    `"0 "`, `" 0"`, `"1e5"`, `"+1"` are strings and only match a feature whose id prints exactly so -/
theorem key_of_text (s : Bytes) (h1 : s.isEmpty = false) (h2 : s ≠ trueBytes) (h3 : s ≠ falseBytes)
    (h4 : looksDouble s = false) (h5 : looksInt s = false) (h6 : looksUInt s = false)
    (tbl : List (Value × Bytes)) :
    (parseStr s none).map (fmtValue tbl) = .ok s := by
  simp [parseStr, h1, h2, h3, h4, h5, h6, Outcome.map, Outcome.bind, fmtValue]

-- `01` is the number 1, `0 ` stays the text `0 `, `-03` is -3 (bytes spelled out)
example : parseStr [48, 49] none = .ok (.uint 1) := by decide
example : parseStr [48, 32] none = .ok (.str [48, 32]) := by decide
example : parseStr [45, 48, 51] none = .ok (.int (-3)) := by decide
example : VtProofs.Csv.SepOk 44 := ⟨by decide, by decide, by decide⟩

/-! ## 8. geometry command streams (`to_geometry` / `from_geometry`)

Not part of what the two operations touch (they keep the geometry bytes), but part of the anchored
`feature.rs`: the decoder reads back what the encoder writes, and never panics on a malformed
stream.  `PtOk` = coordinates inside `i64`; deltas are whatever the encoder's (unchecked) subtraction
produced without panicking – in particular every `i32` coordinate pair, whose deltas fit 33 bits. -/

section geometry
open VtModel.Geom VtProofs.Geom

theorem geom_points_roundtrip (ps : List Pt) (hne : ps ≠ []) (hok : ∀ p ∈ ps, PtOk p)
    (hlen : ps.length * 8 + 1 < U64) (t : Nat) (b : Bytes) (he : fromGeometry (.points ps) = .ok (t, b)) :
    toGeometry t b = .ok (.points ps) :=
  points_roundtrip ps hne hok hlen t b he

theorem geom_lines_roundtrip (ls : List (List Pt)) (hne : ls ≠ []) (hok : ∀ l ∈ ls, LineOk l)
    (t : Nat) (b : Bytes) (he : fromGeometry (.lines ls) = .ok (t, b)) :
    toGeometry t b = .ok (.lines ls) :=
  lines_roundtrip ls hne hok t b he

/-- polygons = outer ring (positive `area_ring`) followed by inner rings (negative), rings closed, ≥ 4 points -/
theorem geom_polygons_roundtrip (ps : List (List (List Pt))) (hne : ps ≠ []) (hok : ∀ p ∈ ps, PolygonOk p)
    (t : Nat) (b : Bytes) (he : fromGeometry (.polygons ps) = .ok (t, b)) :
    toGeometry t b = .ok (.polygons ps) :=
  polygons_roundtrip ps hne hok t b he

/-- malformed command streams (count 0, count beyond the data, unknown command id, truncation,
    ClosePath without a point, cursor beyond `i64`) give `Err` or a geometry – never a panic -/
theorem geom_decode_never_panics (t : Nat) (b : Bytes) : toGeometry t b ≠ .panic :=
  toGeometry_no_panic t b

/-- the encoder's ClosePath is the integer 7 (count 0), MVT 2.1 wants 15 (count 1): known finding
    `closepath-count-0`; the round trip above holds because the own decoder ignores the count -/
theorem closepath_count_zero : writeVarint 7 = [7] ∧ (7 : Nat) / 8 = 0 ∧ (15 : Nat) / 8 = 1 ∧ (15 : Nat) % 8 = 7 :=
  VtProofs.Geom.closepath_count_zero

/-- every pair of `i32` coordinates is encodable from every `i32` cursor: the delta fits `i64` -/
theorem i32_points_encodable (cur p : Pt)
    (hc : -(2:Int)^31 ≤ cur.1 ∧ cur.1 < (2:Int)^31 ∧ -(2:Int)^31 ≤ cur.2 ∧ cur.2 < (2:Int)^31)
    (hp : -(2:Int)^31 ≤ p.1 ∧ p.1 < (2:Int)^31 ∧ -(2:Int)^31 ≤ p.2 ∧ p.2 < (2:Int)^31) :
    ∃ b, writePoint cur p = .ok (b, p) ∧ PtOk p := by
  have h1 : inI64 (p.1 - cur.1) = true := by rw [inI64_iff]; omega
  have h2 : inI64 (p.2 - cur.2) = true := by rw [inI64_iff]; omega
  refine ⟨writeSVarint (p.1 - cur.1) ++ writeSVarint (p.2 - cur.2), ?_, ?_⟩
  · simp [writePoint, chkI64, h1, h2]
  · exact ⟨by rw [inI64_iff]; omega, by rw [inI64_iff]; omega⟩

end geometry

end VtProps.C11
