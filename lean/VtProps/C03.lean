import VtProofs.Coverage
import VtModel.Pipeline
import VtProps.C06
import VtProofs.PipeCovers
import VtProofs.VersatilesRead
/-!
# C03 — the advertised coverage pyramid contains every tile a source can return

Models: `VtModel/Coverage.lean` (coverage computation of the pmtiles / tar / directory readers as
a fold of `include_coord`; mbtiles and versatiles through `VtModel.MBTiles` / the block grid),
`VtModel/MBTiles.lean` (`levelRange`: the MIN/MAX estimate-then-refine queries, owned by C16),
`VtModel/Pipeline.lean` (filters, overlay, merge, blob map) and `VtModel/Converter.lean`.
-/
namespace VtProps.C03
open VtModel VtModel.Coverage VtProofs.Coverage VtProofs.Converter

/-! ## (a), (e) tile-derived formats: the fold of `include_coord` is the exact bounding box -/

/-- **bbox_of_fold**: for every list of stored coordinates (any order, duplicates allowed, any
    shape, any levels 0..31 incl. the border coordinates `0` and `2^z − 1`), folding `include_coord`
    from `new_empty` never fails and yields a well-formed pyramid whose level `z` box is *exactly*
    the bounding box of the coordinates stored at level `z` (empty when there are none — zoom gaps). -/
theorem bbox_of_fold (cs : List Coord) (hv : ∀ c ∈ cs, Coord.Valid c) :
    ∃ p, coverOfCoords cs = .ok p ∧ p.WF ∧ ∀ z b, p[z]? = some b → IsBoundingBox b cs z := by
  obtain ⟨p, hp, hw, hbb⟩ := fold_inv cs Pyramid.newEmpty [] inv_init hv
  refine ⟨p, hp, hw, ?_⟩
  intro z b hb
  exact bb_congr b _ cs z (by intro c; simp) (hbb z b hb)

/-- the C03 statement for these formats: every stored coordinate lies in the advertised pyramid -/
theorem fold_covers (cs : List Coord) (hv : ∀ c ∈ cs, Coord.Valid c) :
    ∃ p, coverOfCoords cs = .ok p ∧ ∀ c ∈ cs, Pyramid.has p c = true := by
  obtain ⟨p, hp, hw, hbb⟩ := bbox_of_fold cs hv
  refine ⟨p, hp, ?_⟩
  intro c hc
  obtain ⟨b, hb, hl, _⟩ := wf_getElem? p hw c.2.2 (by have := (hv c hc).1; omega)
  rw [has_eq, hb]
  simp [hl, (hbb _ b hb).1 c hc rfl]

/-- nothing else is advertised: a level without stored tiles is empty, and a coordinate of the
    advertised pyramid lies between stored extremes on both axes -/
theorem fold_tight (cs : List Coord) (hv : ∀ c ∈ cs, Coord.Valid c) :
    ∃ p, coverOfCoords cs = .ok p ∧ ∀ c, Pyramid.has p c = true →
      (∃ a ∈ cs, a.2.2 = c.2.2 ∧ a.1 ≤ c.1) ∧ (∃ a ∈ cs, a.2.2 = c.2.2 ∧ c.1 ≤ a.1) ∧
      (∃ a ∈ cs, a.2.2 = c.2.2 ∧ a.2.1 ≤ c.2.1) ∧ (∃ a ∈ cs, a.2.2 = c.2.2 ∧ c.2.1 ≤ a.2.1) := by
  obtain ⟨p, hp, hw, hbb⟩ := bbox_of_fold cs hv
  refine ⟨p, hp, ?_⟩
  intro c hc
  have hvalid := has_valid p hw c hc
  obtain ⟨b, hb, hl, _⟩ := wf_getElem? p hw c.2.2 (by have := hvalid.1; omega)
  rw [has_eq, hb] at hc
  simp only [Bool.and_eq_true] at hc
  have hin := (contains2_iff b _ _).1 hc.2
  obtain ⟨_, h2, h3⟩ := hbb _ b hb
  by_cases hex : ∃ d ∈ cs, d.2.2 = c.2.2
  · obtain ⟨⟨a1, m1, z1, e1⟩, ⟨a2, m2, z2, e2⟩, ⟨a3, m3, z3, e3⟩, ⟨a4, m4, z4, e4⟩⟩ := h2 hex
    exact ⟨⟨a1, m1, z1, by omega⟩, ⟨a2, m2, z2, by omega⟩, ⟨a3, m3, z3, by omega⟩, ⟨a4, m4, z4, by omega⟩⟩
  · have he := h3 hex
    rw [isEmpty_iff] at he
    omega

/-- **PMTiles entries with run lengths** (`calc_bbox_pyramid`, reader.rs:135-150): the walk
    `for entry … for i in 0..run_length` is the `include_coord` fold over *every* tile id addressed
    by the entries, hence (by `bbox_of_fold`) the advertised level boxes are exactly the bounding
    boxes of all tiles of all runs – not of the runs' end points (a Hilbert run leaves the box
    spanned by its first and last tile; a run may also cross a zoom boundary). -/
theorem runs_cover_exact (runs : List (Nat × Nat)) (g : Nat → Coord)
    (hg : ∀ id ∈ expandRuns runs, id < U64 ∧ Hilbert.tileIdToCoordLoop id = .ok (g id))
    (hv : ∀ id ∈ expandRuns runs, Coord.Valid (g id)) :
    ∃ p, coverOfRuns runs = .ok p ∧ p.WF ∧
      ∀ z b, p[z]? = some b → IsBoundingBox b ((expandRuns runs).map g) z := by
  rw [coverOfRuns_eq_fold runs g hg]
  apply bbox_of_fold
  intro c hc
  obtain ⟨id, hid, rfl⟩ := List.mem_map.1 hc
  exact hv id hid

/-- the end points are not enough: the run `(5, 4)` addresses the zoom-2 tiles (0,0), (1,0), (1,1),
    (0,1); its first and last tile span only column 0, the walk must advertise columns 0..1 -/
example : coverOfRuns [(5, 4)] = coverOfCoords [(0, 0, 2), (1, 0, 2), (1, 1, 2), (0, 1, 2)] := by decide
example : coverOfRuns [(5, 4)] ≠ coverOfCoords [(0, 0, 2), (0, 1, 2)] := by decide

/-! ## (b) MBTiles: the estimate-then-refine row range is exact for every tile set -/

open VtModel.MBTiles in
/-- **mbtiles_bounds_exact**: for *every* table (non-rectangular tile sets whose extreme rows avoid
    the three sampled columns included) with at least one row at level `z`, the four numbers of
    `get_bbox_pyramid` — MIN/MAX column, and the row range estimated on the columns
    `x0, (x0+x1)/2, x1` and refined by `MIN(row | row ≤ y0')` / `MAX(row | row ≥ y1')` — are the exact
    minima / maxima over all rows of the level: each bounds every row and is attained by a row. -/
theorem mbtiles_bounds_exact (db : DB) (z : Nat) (h : ∃ r ∈ db, r.z = z) :
    ∃ x0 y0 x1 y1, levelRange db z = some (x0, y0, x1, y1) ∧
      (∀ r ∈ db, r.z = z → x0 ≤ r.col ∧ r.col ≤ x1 ∧ y0 ≤ r.row ∧ r.row ≤ y1) ∧
      (∃ r ∈ db, r.z = z ∧ r.col = x0) ∧ (∃ r ∈ db, r.z = z ∧ r.col = x1) ∧
      (∃ r ∈ db, r.z = z ∧ r.row = y0) ∧ (∃ r ∈ db, r.z = z ∧ r.row = y1) := by
  obtain ⟨r0, hr0, hz0⟩ := h
  have hsel : ∃ r ∈ db, (fun r : Row => r.z == z) r = true := ⟨r0, hr0, by simp [hz0]⟩
  obtain ⟨x0, hx0⟩ := qmin_exists db (fun r => r.z == z) (·.col) hsel
  obtain ⟨x1, hx1⟩ := qmax_exists db (fun r => r.z == z) (·.col) hsel
  obtain ⟨⟨rx0, hrx0, hpx0, ex0⟩, lx0⟩ := qmin_some db _ _ x0 hx0
  obtain ⟨⟨rx1, hrx1, hpx1, ex1⟩, lx1⟩ := qmax_some db _ _ x1 hx1
  -- the estimate: rows of the three sampled columns (column x0 is stored, so not NULL)
  let cols := fun (r : Row) => r.z == z && (r.col == x0 || r.col == (x0 + x1) / 2 || r.col == x1)
  have hcols : ∃ r ∈ db, cols r = true := ⟨rx0, hrx0, by simp [cols, ex0]; simpa using hpx0⟩
  obtain ⟨y0e, hy0e⟩ := qmin_exists db cols (·.row) hcols
  obtain ⟨y1e, hy1e⟩ := qmax_exists db cols (·.row) hcols
  obtain ⟨⟨ry0e, hry0e, hpy0e, ey0e⟩, _⟩ := qmin_some db _ _ y0e hy0e
  obtain ⟨⟨ry1e, hry1e, hpy1e, ey1e⟩, _⟩ := qmax_some db _ _ y1e hy1e
  have hzy0e : ry0e.z = z := by simp [cols] at hpy0e; exact hpy0e.1
  have hzy1e : ry1e.z = z := by simp [cols] at hpy1e; exact hpy1e.1
  -- the refinement: the estimate is attained by a stored row, so the refined selection is not empty
  have hlow : ∃ r ∈ db, (fun r : Row => r.z == z && decide (r.row ≤ y0e)) r = true :=
    ⟨ry0e, hry0e, by simp [hzy0e, ey0e]⟩
  have hhigh : ∃ r ∈ db, (fun r : Row => r.z == z && decide (r.row ≥ y1e)) r = true :=
    ⟨ry1e, hry1e, by simp [hzy1e, ey1e]⟩
  obtain ⟨y0, hy0⟩ := qmin_exists db _ (·.row) hlow
  obtain ⟨y1, hy1⟩ := qmax_exists db _ (·.row) hhigh
  obtain ⟨⟨ry0, hry0, hpy0, ey0⟩, ly0⟩ := qmin_some db _ _ y0 hy0
  obtain ⟨⟨ry1, hry1, hpy1, ey1⟩, ly1⟩ := qmax_some db _ _ y1 hy1
  have hy0le : y0 ≤ y0e := by
    have := ly0 ry0e hry0e (by simp [hzy0e, ey0e]); omega
  have hy1ge : y1e ≤ y1 := by
    have := ly1 ry1e hry1e (by simp [hzy1e, ey1e]); omega
  refine ⟨x0, y0, x1, y1, ?_, ?_, ?_, ?_, ?_, ?_⟩
  · simp only [levelRange, hx0, hx1]
    show (match qmin db cols (·.row), qmax db cols (·.row) with
      | some y0e, some y1e =>
        match qmin db (fun r => r.z == z && decide (r.row ≤ y0e)) (·.row),
              qmax db (fun r => r.z == z && decide (r.row ≥ y1e)) (·.row) with
        | some y0, some y1 => some (x0, y0, x1, y1)
        | _, _ => none
      | _, _ => none) = some (x0, y0, x1, y1)
    rw [hy0e, hy1e]
    simp only
    rw [hy0, hy1]
  · intro r hr hz
    have hp : (r.z == z) = true := by simp [hz]
    refine ⟨lx0 r hr hp, lx1 r hr hp, ?_, ?_⟩
    · -- a row below the estimate is in the refined selection, a row above it is above y0 anyway
      by_cases hc : r.row ≤ y0e
      · exact ly0 r hr (by simp [hz, hc])
      · omega
    · by_cases hc : r.row ≥ y1e
      · exact ly1 r hr (by simp [hz, hc])
      · omega
  · exact ⟨rx0, hrx0, by simpa using hpx0, ex0⟩
  · exact ⟨rx1, hrx1, by simpa using hpx1, ex1⟩
  · refine ⟨ry0, hry0, ?_, ey0⟩
    simp at hpy0; exact hpy0.1
  · refine ⟨ry1, hry1, ?_, ey1⟩
    simp at hpy1; exact hpy1.1

open VtModel.MBTiles in
/-- a level without rows yields no box (zoom gaps are skipped since /repo 425c2638) -/
theorem mbtiles_gap (db : DB) (z : Nat) (h : ¬ ∃ r ∈ db, r.z = z) : levelRange db z = none := by
  have : qmin db (fun r => r.z == z) (·.col) = none := by
    rw [qmin_none]
    intro r hr
    simp only [beq_eq_false_iff_ne, ne_eq]
    intro hz; exact h ⟨r, hr, hz⟩
  simp [levelRange, this]

open VtModel.MBTiles in
/-- **then the y flip**: for tiles inside the level (TMS row `2^z−1−y`), the box advertised for
    level `z` is the exact bounding box of the stored tiles in XYZ coordinates. -/
theorem mbtiles_level_exact (tiles : List ((Nat × Nat × Nat) × Fmt.Bytes)) (z : Nat)
    (hv : ∀ t ∈ tiles, t.1.2.2 = z → t.1.1 < 2 ^ z ∧ t.1.2.1 < 2 ^ z)
    (h : ∃ t ∈ tiles, t.1.2.2 = z) :
    ∃ rg, levelRange (writeRows tiles) z = some rg ∧
      IsBoundingBox (levelBox z rg) (tiles.map Prod.fst) z := by
  have hrow : ∀ r, r ∈ writeRows tiles ↔ ∃ t ∈ tiles, r = ⟨t.1.2.2, t.1.1, 2 ^ t.1.2.2 - 1 - t.1.2.1, t.2⟩ := by
    intro r; simp [writeRows, eq_comm]
  obtain ⟨t0, ht0, hz0⟩ := h
  obtain ⟨x0, y0, x1, y1, hrg, hb, ⟨r1, m1, z1, e1⟩, ⟨r2, m2, z2, e2⟩, ⟨r3, m3, z3, e3⟩, ⟨r4, m4, z4, e4⟩⟩ :=
    mbtiles_bounds_exact (writeRows tiles) z ⟨_, (hrow _).2 ⟨t0, ht0, rfl⟩, hz0⟩
  refine ⟨_, hrg, ?_⟩
  obtain ⟨t1, ht1, rfl⟩ := (hrow r1).1 m1
  obtain ⟨t2, ht2, rfl⟩ := (hrow r2).1 m2
  obtain ⟨t3, ht3, rfl⟩ := (hrow r3).1 m3
  obtain ⟨t4, ht4, rfl⟩ := (hrow r4).1 m4
  simp only at z1 z2 z3 z4 e1 e2 e3 e4
  have v1 := hv t1 ht1 z1
  have v2 := hv t2 ht2 z2
  have v3 := hv t3 ht3 z3
  have v4 := hv t4 ht4 z4
  have hp : 0 < 2 ^ z := Nat.two_pow_pos z
  rw [z3] at e3; rw [z4] at e4
  refine ⟨?_, ?_, ?_⟩
  · intro c hc hz
    obtain ⟨t, ht, rfl⟩ := List.mem_map.1 hc
    have hbt := hb _ ((hrow _).2 ⟨t, ht, rfl⟩) hz
    have vt := hv t ht hz
    simp only at hbt
    rw [hz] at hbt
    rw [contains2_iff]
    simp only [levelBox]
    omega
  · intro _
    refine ⟨⟨t1.1, List.mem_map.2 ⟨t1, ht1, rfl⟩, z1, ?_⟩, ⟨t2.1, List.mem_map.2 ⟨t2, ht2, rfl⟩, z2, ?_⟩,
      ⟨t4.1, List.mem_map.2 ⟨t4, ht4, rfl⟩, z4, ?_⟩, ⟨t3.1, List.mem_map.2 ⟨t3, ht3, rfl⟩, z3, ?_⟩⟩
    · simp only [levelBox]; omega
    · simp only [levelBox]; omega
    · simp only [levelBox]; omega
    · simp only [levelBox]; omega
  · intro hno
    exact absurd ⟨t0.1, List.mem_map.2 ⟨t0, ht0, rfl⟩, hz0⟩ hno

/-! ## (c) versatiles: block boxes -/

/-- the pyramid assembled by `BlockIndex::get_bbox_pyramid` (`include_bbox` of every block's global
    box, in any order) contains every coordinate of every block box -/
theorem versatiles_blocks_covered (blocks : List BBox) (hb : ∀ b ∈ blocks, b.WF) :
    ∃ r, coverOfBlocks blocks = .ok r ∧ r.WF ∧
      ∀ b ∈ blocks, ∀ c : Coord, c.2.2 = b.level → b.contains2 c.1 c.2.1 = true → Pyramid.has r c = true := by
  obtain ⟨r, hr, hw⟩ := includeFold_ok blocks hb Pyramid.newEmpty wf_newEmpty
  refine ⟨r, hr, hw, ?_⟩
  intro b hbm c hz hin
  exact VtProofs.PipeCovers.includeFold_has blocks hb Pyramid.newEmpty r wf_newEmpty hr c (Or.inr ⟨b, hbm, hz, hin⟩)

/-- every tile the versatiles reader returns (`get_tile_data`, reader.rs:188-230, C16's model) lies in
    the global box of a block of the index at the tile's level – together with
    `versatiles_blocks_covered`: inside the advertised pyramid -/
theorem versatiles_tile_in_block (r : Versatiles.Reader) (x y z : Nat) (blob : Fmt.Bytes)
    (h : Versatiles.getTile r x y z = .ok (some blob)) :
    ∃ b ∈ r.blocks, b.z = z ∧ b.global.contains2 x y = true := by
  unfold Versatiles.getTile at h
  split at h
  · cases h
  · split at h
    · cases h
    · rename_i b hb
      split at h
      · cases h
      · rename_i hc
        have hgb := VtProofs.VersatilesRead.getBlock_some hb
        exact ⟨b, hgb.1, hgb.2.2.2, by simpa using hc⟩

/-! ## (d) pipelines: `lookup c = some _ → c ∈ cover` is preserved by every combinator -/

/-- filters (`filter_zoom`, `filter_bbox`): the lookup is guarded by the narrowed coverage, so the
    statement holds whatever the inner source does -/
theorem filter_covers {β : Type} (pyr : Pyramid) (s : Src β) : Covers (filterSrc pyr s) := by
  intro c p h
  simp only [filterSrc] at h ⊢
  split at h
  · assumption
  · cases h

/-- per-tile blob maps (`vectortiles_update_properties`) keep coordinates and coverage -/
theorem map_covers {β : Type} (f : β → β) (s : Src β) (hs : Covers s) : Covers (mapSrc f s) := by
  intro c p h
  simp only [mapSrc] at h ⊢
  cases hl : s.lookup c with
  | ok o =>
    cases o with
    | none => rw [hl] at h; cases h
    | some v => exact hs c v hl
  | err => rw [hl] at h; cases h
  | panic => rw [hl] at h; cases h

/-- overlay: a tile comes from some source; if the advertised pyramid contains every source's
    pyramid (it is their `include_bbox_pyramid` union) it contains the tile -/
theorem overlay_covers {β : Type} (ops : Ops β) (out : Nat) (cover : Pyramid) (srcs : List (Op β))
    (hs : ∀ o ∈ srcs, Covers o.src)
    (hu : ∀ o ∈ srcs, ∀ c, Pyramid.has o.src.cover c = true → Pyramid.has cover c = true) :
    Covers (overlaySrc ops out cover srcs) := by
  intro c p h
  simp only [overlaySrc] at h ⊢
  induction srcs with
  | nil => simp [overlayLookup] at h
  | cons o os ih =>
    simp only [overlayLookup] at h
    cases hl : o.src.lookup c with
    | ok r =>
      cases r with
      | some v => exact hu o (by simp) c (hs o (by simp) c v hl)
      | none =>
        rw [hl] at h
        exact ih (fun x hx => hs x (by simp [hx])) (fun x hx => hu x (by simp [hx])) h
    | err => rw [hl] at h; cases h
    | panic => rw [hl] at h; cases h

/-- merge: a merged tile exists only where at least one source has a tile -/
theorem merged_covers {β : Type} (ops : Ops β) (cover : Pyramid) (srcs : List (Op β))
    (hs : ∀ o ∈ srcs, Covers o.src)
    (hu : ∀ o ∈ srcs, ∀ c, Pyramid.has o.src.cover c = true → Pyramid.has cover c = true) :
    Covers (mergedSrc ops cover srcs) := by
  intro c p h
  simp only [mergedSrc, mergedLookup] at h ⊢
  -- a non-empty blob list means some source answered
  have key : ∀ (l : List (Op β)) (bl : List β), (∀ o ∈ l, Covers o.src) →
      (∀ o ∈ l, ∀ c, Pyramid.has o.src.cover c = true → Pyramid.has cover c = true) →
      mergedBlobs ops l c = .ok bl → bl ≠ [] → Pyramid.has cover c = true := by
    intro l
    induction l with
    | nil => intro bl _ _ hb hne; simp [mergedBlobs] at hb; subst hb; exact absurd rfl hne
    | cons o os ih =>
      intro bl hs' hu' hb hne
      simp only [mergedBlobs] at hb
      cases hl : o.src.lookup c with
      | ok r =>
        rw [hl] at hb
        cases hm : mergedBlobs ops os c with
        | ok rest =>
          rw [hm] at hb
          cases r with
          | some v => exact hu' o (by simp) c (hs' o (by simp) c v hl)
          | none =>
            simp only [Outcome.ok.injEq] at hb
            subst hb
            exact ih rest (fun x hx => hs' x (by simp [hx])) (fun x hx => hu' x (by simp [hx])) hm hne
        | err => rw [hm] at hb; cases hb
        | panic => rw [hm] at hb; cases hb
      | err => rw [hl] at hb; cases hb
      | panic => rw [hl] at hb; cases hb
  cases hm : mergedBlobs ops srcs c with
  | ok bl =>
    cases bl with
    | nil => rw [hm] at h; cases h
    | cons b bs => exact key srcs (b :: bs) hs hu hm (by simp)
  | err => rw [hm] at h; cases h
  | panic => rw [hm] at h; cases h

/-- the union pyramid of overlay / merge (`include_bbox_pyramid` of every source) really contains
    every source pyramid – this discharges the hypothesis `hu` of `overlay_covers` / `merged_covers` -/
theorem union_contains {β : Type} (srcs : List (Op β)) (hs : ∀ o ∈ srcs, o.src.cover.WF)
    (first r : Pyramid) (hf : first.WF) (h : unionCover first srcs = .ok r) (o : Op β) (ho : o ∈ srcs)
    (c : Coord) (hc : Pyramid.has o.src.cover c = true) : Pyramid.has r c = true :=
  VtProofs.PipeCovers.unionCover_has srcs hs first r hf h c (Or.inr ⟨o, ho, hc⟩)

/-- **every nesting**: by induction over the pipeline syntax (`from_container` leaves,
    `filter_zoom`, `filter_bbox`, `from_overlayed`, `from_vectortiles_merged`,
    `vectortiles_update_properties`, `from_debug`, nested arbitrarily; coordinates of the pyramid –
    `from_debug` also answers `x ≥ 2^z`, which no pyramid contains): if every leaf source is good (C02) and
    covers its tiles, then every pipeline that builds covers its tiles – whatever a lookup of the
    built operation returns lies inside the pyramid it advertises. -/
theorem pipe_covers {β : Type} (ops : Ops β) (env : Nat → Outcome (Op β))
    (henv : ∀ i o, env i = .ok o → Good o.src ∧ VtProofs.PipeCovers.CoversV o.src)
    (p : Pipe) (hd : p.DebugOK) (o : Op β) (h : build ops env p = .ok o) :
    ∀ c v, Coord.Valid c → o.src.lookup c = .ok (some v) → Pyramid.has o.src.cover c = true :=
  (VtProofs.PipeCovers.build_gc ops env henv p hd o h).2

/-- converter without a requested pyramid (`versatiles serve` with `--flip-y` or `--swap-xy`): see
    `VtProps.C06.convert_covers_partial`; with a requested pyramid the statement is *false* on the
    current tree (`VtProps.C06.convert_covers_fails_restricted`, known finding). -/
theorem convert_covers {β : Type} (s : Src β) (p : Converter.Params β) (hw : s.cover.WF)
    (hnone : p.bboxPyramid = none) (hcov : Covers s) :
    ∃ cov, Converter.newCover s.cover p = .ok cov ∧
      ∀ c v', Coord.Valid c → Converter.lookup s p c = .ok (some v') → Pyramid.has cov c = true :=
  VtProps.C06.convert_covers_partial s p hw hnone hcov

/-! ## non-vacuity -/

/-- an irregular set: extreme rows 0 and 9 only in columns 1 and 7; the sampled columns 0, 4, 8
    hold rows 4..5 — the refinement is what finds the true range -/
example : MBTiles.levelRange (MBTiles.writeRows
    [((0, 4, 4), []), ((4, 5, 4), []), ((8, 4, 4), []), ((1, 0, 4), []), ((7, 9, 4), [])]) 4
    = some (0, 6, 8, 15) := by decide

example : coverOfCoords [(1, 2, 3), (5, 1, 3), (0, 0, 0)] =
    .ok ((Pyramid.newEmpty.set 3 ⟨3, 1, 1, 5, 2⟩).set 0 ⟨0, 0, 0, 0, 0⟩) := by decide

end VtProps.C03
