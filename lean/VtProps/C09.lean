import VtProofs.PipeBuild
/-!
# C09 — zoom and bounding-box filters pass exactly the tiles inside the filter

Both filters are `filterSrc pyr s` (filter_zoom.rs:67-79 and filter_bbox.rs:57-69 are the same
code) over a narrowed coverage `pyr`: `zoomPyr cover min max` (`set_zoom_min`/`set_zoom_max`,
filter_zoom.rs:34-46) respectively `geoPyr cover q` (`intersect_geo_bbox`, filter_bbox.rs:32-38,
with `q` the per-level tile boxes `TileBBox::from_geo(z, bbox)`; the `Float` computation of `q`
stays outside the proofs).

NOTE on the statement: the code guards the lookup with the *narrowed coverage of the source*
(`source coverage ∩ filter`), not with the filter alone.  "Returns the source's tile exactly when
the coordinate is inside the filter" therefore needs the source's advertised coverage to contain
every tile it can return (`Covers s`, property C03).  The theorems below make this explicit.
-/
namespace VtProps.C09
open VtModel VtModel.BBox

/-! ### coverage after `set_zoom_min` / `set_zoom_max` -/

theorem setEmpty_has (b : BBox) (c : Coord) : b.setEmpty.has c = false := by
  cases h : b.setEmpty.has c
  · rfl
  · exact absurd ((contains3_iff _ _ _ _).mp h).2 (setEmpty_mem b _ _)

theorem has_setZoomMin (p : Pyramid) (m : Nat) (c : Coord) :
    (p.setZoomMin m).has c = (decide (m ≤ c.2.2) && p.has c) := by
  unfold Pyramid.has Pyramid.containsCoord Pyramid.setZoomMin
  rw [List.getElem?_mapIdx]
  cases hp : p[c.2.2]? with
  | none => simp
  | some b =>
    simp only [Option.map_some]
    by_cases hm : c.2.2 < m
    · rw [if_pos hm]
      have := setEmpty_has b c
      unfold BBox.has at this
      rw [this]
      simp [Nat.not_le.mpr hm]
    · rw [if_neg hm]
      simp [Nat.not_lt.mp hm]

theorem has_setZoomMax (p : Pyramid) (m : Nat) (c : Coord) :
    (p.setZoomMax m).has c = (decide (c.2.2 ≤ m) && p.has c) := by
  unfold Pyramid.has Pyramid.containsCoord Pyramid.setZoomMax
  rw [List.getElem?_mapIdx]
  cases hp : p[c.2.2]? with
  | none => simp
  | some b =>
    simp only [Option.map_some]
    by_cases hm : c.2.2 > m
    · rw [if_pos hm]
      have := setEmpty_has b c
      unfold BBox.has at this
      rw [this]
      simp [Nat.not_le.mpr hm]
    · rw [if_neg hm]
      simp [Nat.not_lt.mp hm]

/-- inside the retained zoom range? (`none` = no bound) -/
def inZoom (zmin zmax : Option Nat) (z : Nat) : Bool :=
  (match zmin with | some m => decide (m ≤ z) | none => true) &&
  (match zmax with | some m => decide (z ≤ m) | none => true)

theorem has_zoomPyr (p : Pyramid) (zmin zmax : Option Nat) (c : Coord) :
    (zoomPyr p zmin zmax).has c = (inZoom zmin zmax c.2.2 && p.has c) := by
  unfold zoomPyr inZoom
  cases zmin <;> cases zmax <;> simp only [has_setZoomMin, has_setZoomMax, Bool.true_and, Bool.and_true]
  · rw [← Bool.and_assoc, Bool.and_comm (decide _) (decide _)]

/-- **filter_zoom, as the code is**: the lookup is the source's lookup inside
    `zoom range ∩ source coverage`, nothing otherwise -/
theorem filter_zoom_lookup {β : Type} (s : Src β) (zmin zmax : Option Nat) (c : Coord) :
    (filterSrc (zoomPyr s.cover zmin zmax) s).lookup c =
      if inZoom zmin zmax c.2.2 && s.cover.has c then s.lookup c else .ok none := by
  rw [filter_lookup_eq, has_zoomPyr]

/-- **filter_zoom**: for a source whose coverage contains its tiles, the filtered lookup is the
    source's tile, unchanged, exactly when `min ≤ z ≤ max`, and nothing otherwise — for every
    `min`/`max`, in particular `min > max` (nothing passes) and bounds beyond the source's range. -/
theorem filter_zoom_exact {β : Type} {s : Src β} (hl : LookupOK s) (hc : Covers s) (zmin zmax : Option Nat)
    {c : Coord} (hv : Coord.Valid c) :
    (filterSrc (zoomPyr s.cover zmin zmax) s).lookup c =
      if inZoom zmin zmax c.2.2 then s.lookup c else .ok none := by
  rw [filter_zoom_lookup]
  by_cases hz : inZoom zmin zmax c.2.2 = true
  · rw [hz, Bool.true_and, if_pos rfl]
    by_cases hh : s.cover.has c = true
    · rw [if_pos hh]
    · rw [if_neg hh]
      obtain ⟨o, ho⟩ := hl c hv
      rw [ho]
      cases o with
      | none => rfl
      | some p => exact absurd (hc c p ho) hh
  · have : inZoom zmin zmax c.2.2 = false := by cases h : inZoom zmin zmax c.2.2 <;> simp_all
    rw [this, Bool.false_and]

/-- `min > max` retains nothing -/
theorem filter_zoom_min_gt_max {β : Type} (s : Src β) {a b : Nat} (h : b < a) (c : Coord) :
    (filterSrc (zoomPyr s.cover (some a) (some b)) s).lookup c = .ok none := by
  rw [filter_zoom_lookup]
  have : inZoom (some a) (some b) c.2.2 = false := by
    unfold inZoom
    simp only [Bool.and_eq_false_iff, decide_eq_false_iff_not]
    omega
  rw [this, Bool.false_and]
  rfl

/-! ### filter_bbox -/

theorem has_intersect {p q r : Pyramid} (hp : p.WF) (hq : q.WF) (h : Pyramid.intersect p q = .ok r) {c : Coord}
    (hv : c.2.2 ≤ 31) : r.has c = (p.has c && q.has c) := by
  unfold Pyramid.intersect at h
  obtain ⟨hlen, hi⟩ := mapM_index _ _ _ h
  have hzp : c.2.2 < p.length := by rw [hp.1]; omega
  have hzr : c.2.2 < r.length := by rw [hlen]; exact hzp
  have hzq : c.2.2 < q.length := by rw [hq.1]; omega
  have hstep := hi c.2.2 hzp hzr
  have hpl := (hp.2 c.2.2 hzp).1
  have hql := (hq.2 c.2.2 hzq).1
  have hqget : q[p[c.2.2].level]? = some q[c.2.2] := by
    rw [hpl]; exact List.getElem?_eq_getElem hzq
  rw [hqget] at hstep
  simp only at hstep
  cases hio : p[c.2.2].intersectBBox q[c.2.2] with
  | err => rw [hio] at hstep; simp only [Outcome.unwrap] at hstep; cases hstep
  | panic => rw [hio] at hstep; simp only [Outcome.unwrap] at hstep; cases hstep
  | ok x =>
    rw [hio] at hstep
    simp only [Outcome.unwrap] at hstep
    have hx : x = r[c.2.2] := Outcome.ok.inj hstep
    have hmem := mem_intersect hio c.1 c.2.1
    have hrl : r[c.2.2].level = c.2.2 := by rw [← hx, intersect_level hio]; exact hpl
    have e1 : r.has c = true ↔ mem r[c.2.2] c.1 c.2.1 :=
      pyr_has_iff (List.getElem?_eq_getElem hzr) hrl
    have e2 : p.has c = true ↔ mem p[c.2.2] c.1 c.2.1 := pyr_has_iff (List.getElem?_eq_getElem hzp) hpl
    have e3 : q.has c = true ↔ mem q[c.2.2] c.1 c.2.1 := pyr_has_iff (List.getElem?_eq_getElem hzq) hql
    rw [← hx] at e1
    cases h1 : r.has c <;> cases h2 : p.has c <;> cases h3 : q.has c <;> simp_all

/-- **filter_bbox, as the code is**: the lookup is the source's lookup inside
    `per-level box of the geographic bbox ∩ source coverage`, nothing otherwise -/
theorem filter_bbox_lookup {β : Type} {s : Src β} (hs : s.cover.WF) {q pyr : Pyramid} (hq : q.WF)
    (h : geoPyr s.cover q = .ok pyr) {c : Coord} (hv : c.2.2 ≤ 31) :
    (filterSrc pyr s).lookup c = if q.has c && s.cover.has c then s.lookup c else .ok none := by
  rw [filter_lookup_eq, has_intersect hs hq h hv, Bool.and_comm]

/-- **filter_bbox**: for a source whose coverage contains its tiles, the filtered lookup is the
    source's tile, unchanged, exactly when the coordinate lies in the tile box the geographic
    bbox maps to at that zoom, and nothing otherwise. -/
theorem filter_bbox_exact {β : Type} {s : Src β} (hg : Good s) (hc : Covers s) {q pyr : Pyramid} (hq : q.WF)
    (h : geoPyr s.cover q = .ok pyr) {c : Coord} (hv : Coord.Valid c) :
    (filterSrc pyr s).lookup c = if q.has c then s.lookup c else .ok none := by
  rw [filter_bbox_lookup hg.cover_wf hq h hv.1]
  by_cases hz : q.has c = true
  · rw [hz, Bool.true_and, if_pos rfl]
    by_cases hh : s.cover.has c = true
    · rw [if_pos hh]
    · rw [if_neg hh]
      obtain ⟨o, ho⟩ := hg.lookup_ok c hv
      rw [ho]
      cases o with
      | none => rfl
      | some p => exact absurd (hc c p ho) hh
  · have : q.has c = false := by cases h : q.has c <;> simp_all
    rw [this, Bool.false_and]

/-! ### chains = intersection; streams; tiles unchanged -/

/-- **chains behave as the intersection** (any two filter stages, zoom or bbox): the lookup of the
    outer stage over the inner stage is the source's lookup inside both narrowed coverages -/
theorem filter_chain {β : Type} (p1 p2 : Pyramid) (s : Src β) (c : Coord) :
    (filterSrc p2 (filterSrc p1 s)).lookup c = if p2.has c && p1.has c then s.lookup c else .ok none := by
  rw [filter_lookup_eq, filter_lookup_eq]
  cases p2.has c <;> cases p1.has c <;> rfl

/-- the filtered source still advertises a coverage that contains its tiles (so filters chain) -/
theorem filter_covers {β : Type} (pyr : Pyramid) (s : Src β) : Covers (filterSrc pyr s) := by
  intro c p h
  rw [filter_lookup_eq] at h
  by_cases hh : pyr.has c = true
  · exact hh
  · rw [if_neg hh] at h; cases h

/-- the filter's stream agrees with the filter's lookups (C02), for every box: in particular the
    emptied box that results from `box ∩ narrowed coverage` is passed on without failure -/
theorem filter_stream {β : Type} {pyr : Pyramid} (hp : pyr.WF) {s : Src β} (hs : Good s) : StreamOK (filterSrc pyr s) :=
  (filter_good hp hs).stream_ok

/-- a tile that passes is the source's tile, unchanged -/
theorem filter_unchanged {β : Type} (pyr : Pyramid) (s : Src β) (c : Coord) (p : β)
    (h : (filterSrc pyr s).lookup c = .ok (some p)) : s.lookup c = .ok (some p) := by
  rw [filter_lookup_eq] at h
  by_cases hh : pyr.has c = true
  · rw [if_pos hh] at h; exact h
  · rw [if_neg hh] at h; cases h

/-! ### invalid arguments are errors when the pipeline is built, never panics -/

/-- a `filter_zoom` argument that is not a `u8` is an error -/
theorem zoom_arg_error {β : Type} (o : Op β) (zmin zmax : Option Nat) (h : zmin.getD 0 ≥ 256 ∨ zmax.getD 0 ≥ 256) :
    buildZoom zmin zmax o = .err := by
  unfold buildZoom
  rw [if_pos h]

/-- a `filter_bbox` argument rejected by `GeoBBox::check` (reversed, out of range, NaN) is an error -/
theorem bbox_arg_error {β : Type} (o : Op β) : buildBBox .err o = .err := rfl

/-- **building never panics**: for every nesting of operations over good leaves, every `min`/`max`
    and every bbox argument that is either rejected or mapped to well-formed per-level boxes, the
    build returns `Ok` or `Err`. -/
theorem build_never_panics {β : Type} (ops : Ops β) (env : Nat → Outcome (Op β))
    (henv : ∀ i o, env i = .ok o → Good o.src) (hnp : ∀ i, env i ≠ .panic) (p : Pipe) (ha : p.ArgsOK) (hd : p.DebugOK) :
    build ops env p ≠ .panic := build_no_panic ops env henv hnp p ha hd

/-- an invalid argument anywhere below makes the whole build an error (`?` propagation), shown
    for the stage itself -/
theorem build_filter_err {β : Type} (ops : Ops β) (env : Nat → Outcome (Op β)) (p : Pipe) (o : Op β)
    (h : build ops env p = .ok o) : build ops env (.filterBBox .err p) = .err := by
  simp only [build, h]
  rfl

/-! ### F3b: the code before commit e8420ef5 violated the statement -/

/-- `filter_bbox` before the fix: the argument went unchecked into `intersect_geo_bbox`, whose
    `TileBBox::from_geo(z, bbox).unwrap()` (tile_bbox_pyramid.rs:97) panics exactly for the boxes
    `GeoBBox::check` rejects (reversed, out of range, NaN) -/
def buildBBoxPre {β : Type} (q : Outcome Pyramid) (o : Op β) : Outcome (Op β) :=
  match q with
  | .err => .panic
  | r => buildBBox r o

/-- **proved counterexample (pre-fix)**: an invalid bbox made the build panic for every source;
    now it is an error -/
theorem f3b_panicked_before_fix {β : Type} (o : Op β) : buildBBoxPre .err o = .panic ∧ buildBBox .err o = .err :=
  ⟨rfl, rfl⟩

/-! ### non-vacuity -/

example : inZoom (some 3) (some 2) 2 = false := by decide
example : inZoom (some 1) none 5 = true := by decide
example : (Pipe.filterBBox .err (.filterZoom (some 9) (some 3) (.leaf 0))).ArgsOK := by
  simp [Pipe.ArgsOK]
theorem newEmpty_wf : Pyramid.WF Pyramid.newEmpty := by
  have hlen : Pyramid.newEmpty.length = 32 := by decide
  refine ⟨hlen, ?_⟩
  intro z hz
  have hz' : z < 32 := by rw [hlen] at hz; exact hz
  have hget : Pyramid.newEmpty[z]? = some ⟨z, 2 ^ z - 1 + 1, 2 ^ z - 1 + 1, 0, 0⟩ := by
    unfold Pyramid.newEmpty Pyramid.levels
    rw [List.getElem?_map, List.getElem?_range hz']
    rfl
  have : Pyramid.newEmpty[z] = ⟨z, 2 ^ z - 1 + 1, 2 ^ z - 1 + 1, 0, 0⟩ := by
    have h2 := List.getElem?_eq_getElem hz
    rw [hget] at h2
    exact (Option.some.inj h2).symm
  have key : ∀ b : BBox, b = ⟨z, 2 ^ z - 1 + 1, 2 ^ z - 1 + 1, 0, 0⟩ → b.level = z ∧ b.WF := by
    intro b hb
    subst hb
    exact ⟨rfl, by show z ≤ 31; omega, Nat.two_pow_pos _, Nat.two_pow_pos _⟩
  exact key _ this

end VtProps.C09
