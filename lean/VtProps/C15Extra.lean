import VtModel.BBoxExtra
import VtProps.C15
/-!
# C15, further functions of the box / pyramid / coordinate types

`include_coord3`, `intersect_pyramid`, `get_coord3_by_index`, `get_sort_index`, `get_good_zoom`,
the zoom of `get_geo_center`, `is_valid` (model: `VtModel/BBoxExtra.lean`). They are what the
filters, the overlay operation, the versatiles block order and the PMTiles / MBTiles headers use.
-/
namespace VtProps.C15Extra
open VtModel VtModel.BBox VtModel.BBoxExtra VtModel.Pyramid

/-- `include_coord3`: defined exactly for a coordinate of the box's level, then `include_coord`. -/
theorem include_coord3 (b : BBox) (x y z : Nat) :
    (z = b.level → includeCoord3 b x y z = .ok (b.includeCoord x y)) ∧
    (z ≠ b.level → includeCoord3 b x y z = .err) := by
  unfold includeCoord3
  constructor <;> intro h <;> simp [h]

/-- `intersect_pyramid` = intersection of the box with the pyramid's set at the box's level. -/
theorem intersect_pyramid_is_set_intersection (b : BBox) (p : Pyramid) (hp : WF p) (hl : b.level < 32) :
    ∃ r, intersectPyramid b p = .ok r ∧ r.level = b.level ∧
      ∀ x y, mem r x y ↔ (mem b x y ∧ memP p x y b.level) := by
  have hlen : b.level < p.length := by rw [hp.1]; exact hl
  have hget : p[b.level]? = some (p[b.level]'hlen) := List.getElem?_eq_getElem hlen
  have hlev : (p[b.level]'hlen).level = b.level := hp.2 _ hlen
  obtain ⟨c, hc⟩ := (intersect_ok_iff b (p[b.level]'hlen)).mpr hlev.symm
  refine ⟨c, ?_, ?_, ?_⟩
  · simp [intersectPyramid, Pyramid.getLevel, hget, Outcome.bind, hc]
  · unfold intersectBBox at hc
    split at hc
    · cases hc
    · split at hc <;> cases hc <;> rfl
  · intro x y
    rw [mem_intersect hc x y]
    unfold memP
    constructor
    · intro ⟨h1, h2⟩; exact ⟨h1, _, hget, h2⟩
    · intro ⟨h1, b', hb', h2⟩
      rw [hget] at hb'; cases hb'; exact ⟨h1, h2⟩

/-- outside the array (`level ≥ 32` cannot be built, but the model says what would happen):
    the array index panics. -/
theorem intersect_pyramid_out_of_range (b : BBox) (p : Pyramid) (h : p.length ≤ b.level) :
    intersectPyramid b p = .panic := by
  simp [intersectPyramid, Pyramid.getLevel, List.getElem?_eq_none h, Outcome.bind]

/-- `get_coord3_by_index` and `get_tile_index3` are mutually inverse on the box. -/
theorem coord3_index_inverse (b : BBox) (hl : b.level ≤ 31) (hx : b.xmax < U32) (hy : b.ymax < U32) :
    (∀ i, i < b.countTiles → ∃ x y, coord3ByIndex b i = .ok (x, y, b.level) ∧ mem b x y ∧
        b.tileIndex3 x y b.level = .ok i) ∧
    (∀ i, ¬ i < b.countTiles → coord3ByIndex b i = .err) := by
  constructor
  · intro i hi
    obtain ⟨c, h1, h2⟩ := (VtProps.C15.index_coord_inverse b hx hy).2 i hi
    refine ⟨c.1, c.2, ?_, ?_, ?_⟩
    · simp [coord3ByIndex, h1, Outcome.bind, hl]
    · by_cases hm : mem b c.1 c.2
      · exact hm
      · have := (VtProps.C15.index_of_coord b c.1 c.2).2 hm
        rw [this] at h2; cases h2
    · simp [tileIndex3, h2]
  · intro i hi
    have := (VtProps.C15.coord_of_index b hx hy i).2 hi
    simp [coord3ByIndex, this, Outcome.bind]

/-! ### `get_sort_index`: level-major, then row-major, without gaps -/

/-- number of tiles in all levels below `z` -/
def below (z : Nat) : Nat := (2 ^ z * 2 ^ z - 1) / 3

theorem four_pow (z : Nat) : ∃ k, 2 ^ z * 2 ^ z = 3 * k + 1 := by
  induction z with
  | zero => exact ⟨0, by simp⟩
  | succ n ih =>
    obtain ⟨k, hk⟩ := ih
    refine ⟨4 * k + 1, ?_⟩
    have : 2 ^ (n + 1) * 2 ^ (n + 1) = 4 * (2 ^ n * 2 ^ n) := by
      rw [Nat.pow_succ, Nat.mul_mul_mul_comm, Nat.mul_comm]
    omega

theorem below_succ (z : Nat) : below (z + 1) = below z + 2 ^ z * 2 ^ z := by
  unfold below
  obtain ⟨k, hk⟩ := four_pow z
  have : 2 ^ (z + 1) * 2 ^ (z + 1) = 4 * (2 ^ z * 2 ^ z) := by
    rw [Nat.pow_succ, Nat.mul_mul_mul_comm, Nat.mul_comm]
  rw [this, hk]
  omega

theorem below_mono {a b : Nat} (h : a ≤ b) : below a ≤ below b := by
  induction h with
  | refl => exact Nat.le_refl _
  | step _ ih => rw [below_succ]; omega

/-- a coordinate that exists in its level -/
def Valid (x y z : Nat) : Prop := z ≤ 31 ∧ x < 2 ^ z ∧ y < 2 ^ z

theorem lex_lt {s x1 y1 x2 y2 : Nat} (h1 : x1 < s) (h2 : x2 < s) :
    s * y1 + x1 < s * y2 + x2 ↔ (y1 < y2 ∨ (y1 = y2 ∧ x1 < x2)) := by
  constructor
  · intro h
    by_cases hy : y1 < y2
    · exact Or.inl hy
    · by_cases he : y1 = y2
      · subst he; right; exact ⟨rfl, by omega⟩
      · exfalso
        have hgt : y2 + 1 ≤ y1 := by omega
        have : s * (y2 + 1) ≤ s * y1 := Nat.mul_le_mul_left s hgt
        rw [Nat.mul_add] at this; omega
  · intro h
    rcases h with hy | ⟨he, hx⟩
    · have : s * (y1 + 1) ≤ s * y2 := Nat.mul_le_mul_left s hy
      rw [Nat.mul_add] at this; omega
    · subst he; omega

/-- A valid coordinate's sort index lies in its level's slot `[below z, below (z+1))`: the
    levels follow each other without overlap and without gaps. -/
theorem sort_index_slot (x y z : Nat) (h : Valid x y z) :
    ∃ i, sortIndex x y z = .ok i ∧ below z ≤ i ∧ i < below (z + 1) ∧ i = below z + (2 ^ z * y + x) := by
  obtain ⟨hz, hx, hy⟩ := h
  refine ⟨below z + (2 ^ z * y + x), ?_, by omega, ?_, rfl⟩
  · unfold sortIndex below
    have : ¬ z ≥ 32 := by omega
    simp [this, Nat.add_assoc]
  · rw [below_succ]
    have : 2 ^ z * (y + 1) ≤ 2 ^ z * 2 ^ z := Nat.mul_le_mul_left _ hy
    rw [Nat.mul_add] at this
    omega

/-- **Order.** `get_sort_index` orders valid coordinates by level, then row, then column; in
    particular it is injective on them. -/
theorem sort_index_order (x1 y1 z1 x2 y2 z2 : Nat) (h1 : Valid x1 y1 z1) (h2 : Valid x2 y2 z2) :
    ∃ i1 i2, sortIndex x1 y1 z1 = .ok i1 ∧ sortIndex x2 y2 z2 = .ok i2 ∧
      (i1 < i2 ↔ (z1 < z2 ∨ (z1 = z2 ∧ (y1 < y2 ∨ (y1 = y2 ∧ x1 < x2))))) := by
  obtain ⟨i1, e1, lo1, hi1, v1⟩ := sort_index_slot x1 y1 z1 h1
  obtain ⟨i2, e2, lo2, hi2, v2⟩ := sort_index_slot x2 y2 z2 h2
  refine ⟨i1, i2, e1, e2, ?_⟩
  by_cases hz : z1 < z2
  · have := below_mono (show z1 + 1 ≤ z2 from hz)
    constructor
    · intro _; exact Or.inl hz
    · intro _; omega
  · by_cases he : z1 = z2
    · subst he
      have hl := lex_lt (s := 2 ^ z1) (y1 := y1) (y2 := y2) h1.2.1 h2.2.1
      constructor
      · intro h; right; exact ⟨rfl, hl.mp (by omega)⟩
      · intro h
        rcases h with h | ⟨_, h⟩
        · omega
        · have := hl.mpr h; omega
    · have hgt : z2 + 1 ≤ z1 := by omega
      have := below_mono hgt
      constructor
      · intro _; omega
      · intro h; rcases h with h | ⟨h, _⟩ <;> omega

theorem sort_index_injective (x1 y1 z1 x2 y2 z2 : Nat) (h1 : Valid x1 y1 z1) (h2 : Valid x2 y2 z2)
    (h : sortIndex x1 y1 z1 = sortIndex x2 y2 z2) : x1 = x2 ∧ y1 = y2 ∧ z1 = z2 := by
  obtain ⟨i1, i2, e1, e2, ho⟩ := sort_index_order x1 y1 z1 x2 y2 z2 h1 h2
  obtain ⟨j2, j1, f2, f1, ho'⟩ := sort_index_order x2 y2 z2 x1 y1 z1 h2 h1
  rw [e1, e2] at h
  have hi : i1 = i2 := by cases h; rfl
  rw [e1] at f1; rw [e2] at f2
  cases f1; cases f2
  subst hi
  have n1 : ¬ (z1 < z2 ∨ (z1 = z2 ∧ (y1 < y2 ∨ (y1 = y2 ∧ x1 < x2)))) := fun hh => Nat.lt_irrefl _ (ho.mpr hh)
  have n2 : ¬ (z2 < z1 ∨ (z2 = z1 ∧ (y2 < y1 ∨ (y2 = y1 ∧ x2 < x1)))) := fun hh => Nat.lt_irrefl _ (ho'.mpr hh)
  omega

/-- the u64 arithmetic cannot overflow on any `TileCoord3` that `new` accepts (z ≤ 31, u32 x/y) -/
theorem sort_index_no_overflow (x y z : Nat) (hz : z ≤ 31) (hx : x < U32) (hy : y < U32) :
    ∃ i, sortIndex x y z = .ok i ∧ i < U64 := by
  have hnz : ¬ z ≥ 32 := by omega
  refine ⟨(2 ^ z * 2 ^ z - 1) / 3 + 2 ^ z * y + x, by simp [sortIndex, hnz], ?_⟩
  have hp : 2 ^ z ≤ 2 ^ 31 := Nat.pow_le_pow_right (by omega) hz
  have h1 : 2 ^ z * 2 ^ z ≤ 2 ^ 31 * 2 ^ 31 := Nat.mul_le_mul hp hp
  have h2 : 2 ^ z * y ≤ 2 ^ 31 * y := Nat.mul_le_mul_right y hp
  have h3 : (2 ^ z * 2 ^ z - 1) / 3 ≤ 2 ^ z * 2 ^ z := Nat.le_trans (Nat.div_le_self _ _) (Nat.sub_le _ _)
  unfold U32 at hx hy; unfold U64
  omega

theorem sort_index_panics_from_32 (x y z : Nat) (hz : 32 ≤ z) : sortIndex x y z = .panic := by
  simp [sortIndex, hz]

/-- `is_valid` — and the quirk: zoom 31 is never "valid". -/
theorem is_valid_iff (x y z : Nat) : isValid x y z = true ↔ (z ≤ 30 ∧ x < 2 ^ z ∧ y < 2 ^ z) := by
  unfold isValid
  by_cases h : z > 30
  · simp [h]; omega
  · simp [h]; omega

example : isValid 0 0 31 = false ∧ Valid 0 0 31 := ⟨by decide, by unfold Valid; decide⟩

/-! ### `get_good_zoom` and the centre zoom -/

/-- `get_good_zoom`: the last level of the list with more than ten tiles; `None` iff no level has. -/
theorem good_zoom_spec (p : Pyramid) :
    (∀ z, goodZoom p = some z → ∃ pre b post, p = pre ++ b :: post ∧ b.level = z ∧ 10 < b.countTiles ∧
        ∀ a ∈ post, a.countTiles ≤ 10) ∧
    (goodZoom p = none ↔ ∀ b ∈ p, b.countTiles ≤ 10) := by
  constructor
  · intro z h
    unfold goodZoom at h
    cases hf : p.reverse.find? (fun b => decide (b.countTiles > 10)) with
    | none => simp [hf] at h
    | some b =>
      simp only [hf, Option.map_some, Option.some.injEq] at h
      obtain ⟨hb, as, bs, hsplit, hall⟩ := List.find?_eq_some_iff_append.mp hf
      refine ⟨bs.reverse, b, as.reverse, ?_, h, by simpa using hb, ?_⟩
      · have := congrArg List.reverse hsplit
        simpa using this
      · intro a ha
        have := hall a (List.mem_reverse.mp ha)
        simpa using this
  · unfold goodZoom
    rw [Option.map_eq_none_iff, List.find?_eq_none]
    constructor
    · intro h b hb; have := h b (List.mem_reverse.mpr hb); simpa using this
    · intro h b hb; have := h b (List.mem_reverse.mp hb); simpa using this

/-- for a well-formed pyramid: the level found is `z` itself and every higher level is small -/
theorem good_zoom_is_highest (p : Pyramid) (hp : WF p) (z : Nat) (h : goodZoom p = some z) :
    (∃ b, p[z]? = some b ∧ 10 < b.countTiles) ∧
    ∀ z' b', z < z' → p[z']? = some b' → b'.countTiles ≤ 10 := by
  obtain ⟨pre, b, post, hsplit, hlev, hcnt, hpost⟩ := (good_zoom_spec p).1 z h
  have hidx : p[pre.length]? = some b := by rw [hsplit]; simp
  have hz : pre.length = z := by rw [← hlev]; exact (wf_level hp hidx).symm
  constructor
  · exact ⟨b, by rw [← hz]; exact hidx, hcnt⟩
  · intro z' b' hlt hb'
    rw [hsplit] at hb'
    have hge : pre.length + 1 ≤ z' := by omega
    rw [List.getElem?_append_right (by omega)] at hb'
    have : z' - pre.length = (z' - pre.length - 1) + 1 := by omega
    rw [this, List.getElem?_cons_succ] at hb'
    exact hpost b' (List.mem_of_getElem? hb')

/-- the zoom of the centre is `min (zoom_min + 2) zoom_max`, defined exactly for non-empty pyramids -/
theorem center_zoom_spec (p : Pyramid) :
    (centerZoom p = none ↔ (Pyramid.zoomMin p = none ∨ Pyramid.zoomMax p = none)) ∧
    (∀ c, centerZoom p = some c → ∃ zmin zmax, Pyramid.zoomMin p = some zmin ∧ Pyramid.zoomMax p = some zmax ∧
        c = min (zmin + 2) zmax) := by
  unfold centerZoom
  cases h1 : Pyramid.zoomMax p <;> cases h2 : Pyramid.zoomMin p <;> simp

/-- non-vacuity: a real pyramid -/
example : goodZoom (Pyramid.newFull 5) = some 5 ∧ centerZoom (Pyramid.newFull 5) = some 2 ∧
    goodZoom (Pyramid.newFull 1) = none ∧ goodZoom Pyramid.newEmpty = none ∧ centerZoom Pyramid.newEmpty = none := by
  decide

example : sortIndex 3 2 3 = .ok (21 + 8 * 2 + 3) ∧ sortIndex 0 0 31 = .ok 1537228672809129301 := by decide

/-! ### `from_geo_bbox` -/

theorem new_level {l a b c d : Nat} {bx : BBox} (h : BBox.new l a b c d = .ok bx) : bx.level = l ∧ l ≤ 31 := by
  unfold BBox.new at h
  repeat' split at h
  all_goals first | (cases h; exact ⟨rfl, by omega⟩) | cases h

theorem bboxFromGeo_level {z : Nat} {g : Geo.GeoBBox} {b : BBox} (h : Geo.bboxFromGeo z g = .ok b) :
    b.level = z ∧ z ≤ 31 := by
  unfold Geo.bboxFromGeo at h
  split at h
  · cases h
  · split at h
    · cases h
    · split at h
      · exact new_level h
      all_goals cases h

/-- one step of the loop in `from_geo_bbox` -/
def stepG (g : Geo.GeoBBox) (acc : Outcome Pyramid) (z : Nat) : Outcome Pyramid :=
  acc.bind fun p => (Geo.bboxFromGeo z g).unwrap.bind fun b => Pyramid.setLevel p b

theorem fromGeoBBox_eq (zmin zmax : Nat) (g : Geo.GeoBBox) :
    fromGeoBBox zmin zmax g = (List.range' zmin (zmax + 1 - zmin)).foldl (stepG g) (.ok Pyramid.newEmpty) := rfl

theorem foldl_not_ok (g : Geo.GeoBBox) (l : List Nat) (a : Outcome Pyramid) (h : ∀ p, a ≠ .ok p) :
    ∀ p, l.foldl (stepG g) a ≠ .ok p := by
  induction l generalizing a with
  | nil => simpa using h
  | cons z l ih =>
    simp only [List.foldl_cons]
    apply ih
    intro p
    cases a with
    | ok q => exact absurd rfl (h q)
    | err => simp [stepG, Outcome.bind]
    | panic => simp [stepG, Outcome.bind]

theorem step_ok {g : Geo.GeoBBox} {p0 p1 : Pyramid} {z : Nat} (h : stepG g (.ok p0) z = .ok p1) :
    ∃ b, Geo.bboxFromGeo z g = .ok b ∧ z < p0.length ∧ p1 = p0.set z b := by
  unfold stepG at h
  simp only [Outcome.bind] at h
  cases hb : Geo.bboxFromGeo z g with
  | ok b =>
    rw [hb] at h
    simp only [Outcome.unwrap, Pyramid.setLevel] at h
    have hl := (bboxFromGeo_level hb).1
    split at h
    · rename_i hlt
      cases h
      exact ⟨b, rfl, by omega, by rw [hl]⟩
    · cases h
  | err => rw [hb] at h; simp [Outcome.unwrap] at h
  | panic => rw [hb] at h; simp [Outcome.unwrap] at h

theorem foldl_spec (g : Geo.GeoBBox) (l : List Nat) (p0 p : Pyramid) (hw : WF p0) (hn : l.Nodup)
    (h : l.foldl (stepG g) (.ok p0) = .ok p) :
    WF p ∧ (∀ z ∈ l, ∃ b, Geo.bboxFromGeo z g = .ok b ∧ p[z]? = some b) ∧ (∀ z, z ∉ l → p[z]? = p0[z]?) := by
  induction l generalizing p0 with
  | nil =>
    simp only [List.foldl_nil] at h
    cases h
    exact ⟨hw, by simp, by simp⟩
  | cons z l ih =>
    simp only [List.foldl_cons] at h
    cases h1 : stepG g (.ok p0) z with
    | ok p1 =>
      rw [h1] at h
      obtain ⟨b, hb, hlt, rfl⟩ := step_ok h1
      have hbl := (bboxFromGeo_level hb).1
      have hw1 : WF (p0.set z b) := by
        refine ⟨by rw [List.length_set]; exact hw.1, ?_⟩
        intro z' hz'
        rw [List.length_set] at hz'
        by_cases he : z = z'
        · subst he; simp [hbl]
        · rw [List.getElem_set_ne he]; exact hw.2 z' hz'
      have hn' := List.nodup_cons.mp hn
      obtain ⟨hwp, hin, hout⟩ := ih (p0.set z b) hw1 hn'.2 h
      refine ⟨hwp, ?_, ?_⟩
      · intro z' hz'
        rcases List.mem_cons.mp hz' with rfl | hz'
        · refine ⟨b, hb, ?_⟩
          rw [hout _ hn'.1]
          simp [hlt]
        · exact hin z' hz'
      · intro z' hz'
        have hne : z ≠ z' := fun he => hz' (by rw [he]; exact List.mem_cons_self)
        have hnl : z' ∉ l := fun hm => hz' (List.mem_cons_of_mem _ hm)
        rw [hout z' hnl, List.getElem?_set_ne hne]
    | err => rw [h1] at h; exact absurd h (foldl_not_ok g l _ (by simp) p)
    | panic => rw [h1] at h; exact absurd h (foldl_not_ok g l _ (by simp) p)

/-- **`from_geo_bbox`**: inside `zoom_min..=zoom_max` every level is `from_geo(level, bbox)`, every
    other level is empty; any level the geo box cannot be projected at (level > 31, invalid box)
    makes the whole call panic (`unwrap`), it never returns a partial pyramid. -/
theorem from_geo_bbox_spec (zmin zmax : Nat) (g : Geo.GeoBBox) (p : Pyramid)
    (h : fromGeoBBox zmin zmax g = .ok p) :
    WF p ∧
    (∀ z, zmin ≤ z → z ≤ zmax → ∃ b, Geo.bboxFromGeo z g = .ok b ∧ p[z]? = some b) ∧
    (∀ z, ¬ (zmin ≤ z ∧ z ≤ zmax) → p[z]? = Pyramid.newEmpty[z]?) := by
  rw [fromGeoBBox_eq] at h
  obtain ⟨hw, hin, hout⟩ := foldl_spec g _ _ p wf_newEmpty (List.nodup_range' (step := 1)) h
  refine ⟨hw, ?_, ?_⟩
  · intro z h1 h2
    apply hin
    rw [List.mem_range'_1]; omega
  · intro z hz
    apply hout
    rw [List.mem_range'_1]; omega

theorem from_geo_bbox_never_err (zmin zmax : Nat) (g : Geo.GeoBBox) : fromGeoBBox zmin zmax g ≠ .err := by
  rw [fromGeoBBox_eq]
  generalize List.range' zmin (zmax + 1 - zmin) = l
  suffices ∀ a : Outcome Pyramid, a ≠ .err → l.foldl (stepG g) a ≠ .err from this _ (by simp)
  induction l with
  | nil => intro a ha; simpa using ha
  | cons z l ih =>
    intro a ha
    simp only [List.foldl_cons]
    apply ih
    cases a with
    | err => exact absurd rfl ha
    | panic => simp [stepG, Outcome.bind]
    | ok q =>
      simp only [stepG, Outcome.bind]
      cases Geo.bboxFromGeo z g with
      | ok b => simp only [Outcome.unwrap, Pyramid.setLevel]; split <;> simp
      | err => simp [Outcome.unwrap]
      | panic => simp [Outcome.unwrap]


/-! ### `intersect_geo_bbox` -/

theorem mapM_index' {α γ : Type} (f : α → Outcome γ) : ∀ (l : List α) (r : List γ), BBox.mapM f l = .ok r →
    r.length = l.length ∧ ∀ i (h1 : i < l.length) (h2 : i < r.length), f l[i] = .ok r[i] := by
  intro l
  induction l with
  | nil =>
    intro r h
    simp only [BBox.mapM] at h
    cases h
    exact ⟨rfl, fun i h1 => absurd h1 (Nat.not_lt_zero _)⟩
  | cons a as ih =>
    intro r h
    simp only [BBox.mapM] at h
    split at h
    · rename_i b hb
      split at h
      · rename_i bs hbs
        cases h
        obtain ⟨hl, hi⟩ := ih bs hbs
        refine ⟨by simp [hl], ?_⟩
        intro i h1 h2
        cases i with
        | zero => simpa using hb
        | succ j =>
          simp only [List.getElem_cons_succ]
          exact hi j (by simpa using h1) (by simpa using h2)
      · cases h
      · cases h
    · cases h
    · cases h

/-- the per-level function of `intersect_geo_bbox` -/
def geoCell (g : Geo.GeoBBox) (pr : BBox × Nat) : Outcome BBox :=
  match (Geo.bboxFromGeo pr.2 g).unwrap with
  | .ok gb => (pr.1.intersectBBox gb).unwrap
  | .err => .panic
  | .panic => .panic

theorem pyramidIntersectGeo_eq (p : Pyramid) (g : Geo.GeoBBox) :
    Geo.pyramidIntersectGeo p g = BBox.mapM (geoCell g) p.zipIdx := rfl

theorem geoCell_ok {g : Geo.GeoBBox} {a c : BBox} {z : Nat} (h : geoCell g (a, z) = .ok c) :
    ∃ gb, Geo.bboxFromGeo z g = .ok gb ∧ a.intersectBBox gb = .ok c := by
  unfold geoCell at h
  simp only at h
  cases hb : Geo.bboxFromGeo z g with
  | ok gb =>
    rw [hb] at h
    simp only [Outcome.unwrap] at h
    cases hi : a.intersectBBox gb with
    | ok c' => rw [hi] at h; simp at h; exact ⟨gb, rfl, by rw [← h]; exact hi⟩
    | err => rw [hi] at h; simp at h
    | panic => rw [hi] at h; simp at h
  | err => rw [hb] at h; simp [Outcome.unwrap] at h
  | panic => rw [hb] at h; simp [Outcome.unwrap] at h

/-- **`intersect_geo_bbox`**: every level becomes the set intersection of the level's box with
    `from_geo(level, bbox)`; if the geo box cannot be projected at some level of the array the
    call panics, it never returns an error or a partially clipped pyramid. -/
theorem intersect_geo_bbox_spec (p r : Pyramid) (g : Geo.GeoBBox)
    (h : Geo.pyramidIntersectGeo p g = .ok r) :
    r.length = p.length ∧
    ∀ z (hz : z < p.length), ∃ gb c, Geo.bboxFromGeo z g = .ok gb ∧ (p[z]'hz).intersectBBox gb = .ok c ∧
      r[z]? = some c ∧ ∀ x y, mem c x y ↔ (mem (p[z]'hz) x y ∧ mem gb x y) := by
  rw [pyramidIntersectGeo_eq] at h
  obtain ⟨hl, hi⟩ := mapM_index' _ _ _ h
  rw [List.length_zipIdx] at hl
  refine ⟨hl, ?_⟩
  intro z hz
  have h1 : z < p.zipIdx.length := by rw [List.length_zipIdx]; exact hz
  have h2 : z < r.length := by omega
  have := hi z h1 h2
  rw [List.getElem_zipIdx] at this
  simp only [Nat.zero_add] at this
  obtain ⟨gb, hgb, hc⟩ := geoCell_ok this
  exact ⟨gb, r[z], hgb, hc, List.getElem?_eq_getElem h2, fun x y => mem_intersect hc x y⟩

theorem intersect_geo_bbox_never_err (p : Pyramid) (g : Geo.GeoBBox) : Geo.pyramidIntersectGeo p g ≠ .err := by
  rw [pyramidIntersectGeo_eq]
  generalize p.zipIdx = l
  induction l with
  | nil => simp [BBox.mapM]
  | cons a l ih =>
    simp only [BBox.mapM]
    have hc : geoCell g a ≠ .err := by
      unfold geoCell
      cases Geo.bboxFromGeo a.2 g with
      | ok gb =>
        simp only [Outcome.unwrap]
        cases a.1.intersectBBox gb <;> simp
      | err => simp [Outcome.unwrap]
      | panic => simp [Outcome.unwrap]
    cases h1 : geoCell g a with
    | ok b =>
      simp only
      cases h2 : BBox.mapM (geoCell g) l with
      | ok bs => simp
      | err => exact absurd h2 ih
      | panic => simp
    | err => exact absurd h1 hc
    | panic => simp


end VtProps.C15Extra
