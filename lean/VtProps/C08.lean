import VtProofs.PipeBuild
/-!
# C08 — overlay returns the tile of the first listed source that has one

`overlaySrc ops out cover srcs` is the model of `from_overlayed` (from_overlayed.rs); `firstHit`
is the specification of its lookup.  All theorems hold for ANY list of sources (the build demands
at least two), any coverages, zoom ranges and compressions.
-/
namespace VtProps.C08
open VtModel VtModel.BBox

/-- **lookup = first source that has the tile**, re-encoded from that source's compression to the
    declared one (`recompress(blob, source compression, overlay compression)`); absent iff no
    source has one.  (`firstHit` walks the list in order and stops at the first `Some`.) -/
theorem overlay_lookup {β : Type} (ops : Ops β) (out : Nat) (cover : Pyramid) (srcs : List (Op β))
    (hs : ∀ o ∈ srcs, LookupOK o.src) {c : Coord} (hc : Coord.Valid c) :
    (overlaySrc ops out cover srcs).lookup c = .ok (firstHit ops out srcs c) :=
  overlayLookup_eq ops out srcs hs hc

/-- `firstHit` spelled out: the result is `some q` iff the list splits as `before ++ o :: after`
    where no source of `before` has the tile, `o` has the tile `p`, and `q` is `p` re-encoded -/
theorem firstHit_some_iff {β : Type} (ops : Ops β) (out : Nat) (srcs : List (Op β))
    (hs : ∀ o ∈ srcs, LookupOK o.src) {c : Coord} (hc : Coord.Valid c) (q : β) :
    firstHit ops out srcs c = some q ↔
      ∃ before o after p, srcs = before ++ o :: after ∧ (∀ o' ∈ before, o'.src.lookup c = .ok none) ∧
        o.src.lookup c = .ok (some p) ∧ q = ops.recode o.comp out p := by
  induction srcs with
  | nil =>
    constructor
    · intro h; cases h
    · rintro ⟨before, o, after, p, h, _⟩
      cases before <;> cases h
  | cons o os ih =>
    obtain ⟨r, hr⟩ := hs o (by simp) c hc
    have ih' := ih (fun o' h => hs o' (by simp [h]))
    unfold firstHit
    rw [hr]
    cases r with
    | some p =>
      simp only
      constructor
      · intro h
        exact ⟨[], o, os, p, rfl, fun _ h => absurd h List.not_mem_nil, hr, (Option.some.inj h).symm⟩
      · rintro ⟨before, o', after, p', h1, h2, h3, h4⟩
        cases before with
        | nil =>
          simp only [List.nil_append, List.cons.injEq] at h1
          obtain ⟨rfl, _⟩ := h1
          rw [hr] at h3
          have := Option.some.inj (Outcome.ok.inj h3)
          rw [h4, this]
        | cons b bs =>
          simp only [List.cons_append, List.cons.injEq] at h1
          obtain ⟨rfl, _⟩ := h1
          have := h2 o (by simp)
          rw [hr] at this
          cases this
    | none =>
      simp only
      rw [ih']
      constructor
      · rintro ⟨before, o', after, p, h1, h2, h3, h4⟩
        refine ⟨o :: before, o', after, p, by rw [h1]; rfl, ?_, h3, h4⟩
        intro x hx
        rcases List.mem_cons.mp hx with rfl | hx'
        · exact hr
        · exact h2 x hx'
      · rintro ⟨before, o', after, p, h1, h2, h3, h4⟩
        cases before with
        | nil =>
          simp only [List.nil_append, List.cons.injEq] at h1
          obtain ⟨rfl, _⟩ := h1
          rw [hr] at h3
          cases h3
        | cons b bs =>
          simp only [List.cons_append, List.cons.injEq] at h1
          obtain ⟨rfl, h1'⟩ := h1
          exact ⟨bs, o', after, p, h1', fun x hx => h2 x (by simp [hx]), h3, h4⟩

/-- absent iff no source has a tile there -/
theorem firstHit_none_iff {β : Type} (ops : Ops β) (out : Nat) (srcs : List (Op β))
    (hs : ∀ o ∈ srcs, LookupOK o.src) {c : Coord} (hc : Coord.Valid c) :
    firstHit ops out srcs c = none ↔ ∀ o ∈ srcs, o.src.lookup c = .ok none := by
  induction srcs with
  | nil => simp [firstHit]
  | cons o os ih =>
    obtain ⟨r, hr⟩ := hs o (by simp) c hc
    have ih' := ih (fun o' h => hs o' (by simp [h]))
    unfold firstHit
    rw [hr]
    cases r with
    | some p =>
      simp only
      constructor
      · intro h; cases h
      · intro h
        have := h o (by simp)
        rw [hr] at this
        cases this
    | none =>
      simp only
      rw [ih']
      constructor
      · intro h x hx
        rcases List.mem_cons.mp hx with rfl | hx'
        · exact hr
        · exact h x hx'
      · intro h x hx
        exact h x (by simp [hx])

/-- **streams agree with lookups** (C02 for the overlay), without failure, for sources of any
    coverage: the stream asks every source only for boxes inside the requested box, possibly far
    outside that source's own coverage -/
theorem overlay_stream_agrees {β : Type} (ops : Ops β) (out : Nat) {cover : Pyramid} (hc : cover.WF)
    (srcs : List (Op β)) (hs : ∀ o ∈ srcs, Good o.src) : StreamOK (overlaySrc ops out cover srcs) :=
  (overlay_good ops out hc srcs hs).stream_ok

/-! ### declared compression -/

theorem overlayComp_zero {β : Type} (srcs : List (Op β)) : overlayComp 0 srcs = 0 := by
  unfold overlayComp
  induction srcs with
  | nil => rfl
  | cons o os ih =>
    simp only [List.foldl_cons]
    split <;> exact ih

/-- **declared compression = the common compression, or uncompressed (0)** -/
theorem overlayComp_spec {β : Type} (first : Nat) (srcs : List (Op β)) :
    overlayComp first srcs = if srcs.all (fun o => o.comp == first) then first else 0 := by
  induction srcs with
  | nil => rfl
  | cons o os ih =>
    unfold overlayComp at ih ⊢
    simp only [List.foldl_cons, List.all_cons]
    by_cases h : o.comp = first
    · rw [if_neg (by simpa using h)]
      rw [ih]
      simp [h]
    · rw [if_pos h]
      have := overlayComp_zero os
      unfold overlayComp at this
      rw [this]
      simp [h]

/-! ### advertised coverage = union of the sources' coverages -/

theorem pyr_has_set {p : Pyramid} {z : Nat} (hz : z < p.length) (b : BBox) (c : Coord) :
    Pyramid.has (p.set z b) c = if c.2.2 = z then b.contains3 c.1 c.2.1 c.2.2 else p.has c := by
  unfold Pyramid.has Pyramid.containsCoord
  rw [List.getElem?_set]
  by_cases h : z = c.2.2
  · subst h
    simp [hz]
  · rw [if_neg h, if_neg (fun e => h e.symm)]

theorem includeBBox_has {p r : Pyramid} (hp : p.WF) {b : BBox} (hb : b.WF) (h : Pyramid.includeBBox p b = .ok r) (c : Coord) :
    (p.has c = true ∨ b.has c = true) → r.has c = true := by
  obtain ⟨a, h1, h2, h3⟩ := pyr_get hp hb.1
  unfold Pyramid.includeBBox Pyramid.updateLevel at h
  rw [h1] at h
  simp only at h
  cases hab : a.includeBBox b with
  | err => rw [hab] at h; simp only [Outcome.unwrap] at h; cases h
  | panic => rw [hab] at h; simp only [Outcome.unwrap] at h; cases h
  | ok x =>
    rw [hab] at h
    simp only [Outcome.unwrap] at h
    cases h
    have hlt : b.level < p.length := by rw [hp.1]; have := hb.1; omega
    rw [pyr_has_set hlt]
    have hxl : x.level = b.level := by rw [(includeBBox_wf h3 hb hab).1, h2]
    intro hor
    by_cases hz : c.2.2 = b.level
    · rw [if_pos hz, contains3_iff]
      refine ⟨by rw [hxl]; exact hz, ?_⟩
      apply include_contains (wf_inRange h3) (wf_inRange hb) hab
      rcases hor with hp' | hb'
      · left
        exact (pyr_has_iff (by rw [hz]; exact h1) (by rw [hz]; exact h2)).mp hp'
      · right
        exact ((contains3_iff _ _ _ _).mp hb').2
    · rw [if_neg hz]
      rcases hor with hp' | hb'
      · exact hp'
      · exact absurd ((contains3_iff _ _ _ _).mp hb').1 hz

theorem includeFold_has (l : List BBox) (hl : ∀ b ∈ l, b.WF) :
    ∀ (p r : Pyramid), p.WF →
      l.foldl (fun (acc : Outcome Pyramid) b => acc.bind (fun a => Pyramid.includeBBox a b)) (Outcome.ok p) = Outcome.ok r →
      ∀ c, (p.has c = true ∨ ∃ b ∈ l, b.has c = true) → r.has c = true := by
  induction l with
  | nil =>
    intro p r _ h c hor
    cases h
    rcases hor with h | ⟨b, hb, _⟩
    · exact h
    · exact absurd hb List.not_mem_nil
  | cons b bs ih =>
    intro p r hp h c hor
    obtain ⟨r1, h1, h2⟩ := pyrIncludeBBox_ok hp (hl b (by simp))
    simp only [List.foldl_cons, Outcome.bind, h1] at h
    apply ih (fun x hx => hl x (by simp [hx])) r1 r h2 h c
    rcases hor with hp' | ⟨b', hb', hc'⟩
    · exact Or.inl (includeBBox_has hp (hl b (by simp)) h1 c (Or.inl hp'))
    · rcases List.mem_cons.mp hb' with rfl | hb''
      · exact Or.inl (includeBBox_has hp (hl b' (by simp)) h1 c (Or.inr hc'))
      · exact Or.inr ⟨b', hb'', hc'⟩

theorem includePyramid_has {p q r : Pyramid} (hp : p.WF) (hq : q.WF) (h : Pyramid.includePyramid p q = .ok r) (c : Coord) :
    (p.has c = true ∨ q.has c = true) → r.has c = true := by
  unfold Pyramid.includePyramid Pyramid.iterLevels at h
  have hl : ∀ b ∈ q.filter (fun b => !b.isEmpty), b.WF := by
    intro b hb
    obtain ⟨i, hi, rfl⟩ := List.getElem_of_mem (List.mem_filter.mp hb).1
    exact (hq.2 i hi).2
  intro hor
  apply includeFold_has _ hl p r hp h c
  rcases hor with h1 | h2
  · exact Or.inl h1
  · right
    unfold Pyramid.has Pyramid.containsCoord at h2
    cases hg : q[c.2.2]? with
    | none => rw [hg] at h2; cases h2
    | some b =>
      rw [hg] at h2
      simp only at h2
      refine ⟨b, List.mem_filter.mpr ⟨List.mem_of_getElem? hg, ?_⟩, h2⟩
      have hm := ((contains3_iff _ _ _ _).mp h2).2
      cases he : b.isEmpty
      · rfl
      · exact absurd hm ((isEmpty_iff b).mp he _ _)

/-- **coverage = union**: the advertised coverage contains the coverage of every source -/
theorem overlay_cover_contains {β : Type} (srcs : List (Op β)) (hs : ∀ o ∈ srcs, o.src.cover.WF) :
    ∀ (first cover : Pyramid), first.WF → unionCover first srcs = .ok cover →
      ∀ c, (first.has c = true ∨ ∃ o ∈ srcs, o.src.cover.has c = true) → cover.has c = true := by
  unfold unionCover
  induction srcs with
  | nil =>
    intro first cover _ h c hor
    cases h
    rcases hor with h | ⟨o, ho, _⟩
    · exact h
    · exact absurd ho List.not_mem_nil
  | cons o os ih =>
    intro first cover hf h c hor
    obtain ⟨r1, h1, h2⟩ := includePyramid_ok hf (hs o (by simp))
    simp only [List.foldl_cons, Outcome.bind, h1] at h
    apply ih (fun x hx => hs x (by simp [hx])) r1 cover h2 h c
    rcases hor with hp' | ⟨o', ho', hc'⟩
    · exact Or.inl (includePyramid_has hf (hs o (by simp)) h1 c (Or.inl hp'))
    · rcases List.mem_cons.mp ho' with rfl | ho''
      · exact Or.inl (includePyramid_has hf (hs o' (by simp)) h1 c (Or.inr hc'))
      · exact Or.inr ⟨o', ho'', hc'⟩

/-! #### …and it is the least such coverage -/

theorem includeBBox_least {p r Q : Pyramid} (hp : p.WF) (hQ : Q.WF) {b : BBox} (hb : b.WF)
    (h : Pyramid.includeBBox p b = .ok r)
    (h1 : ∀ c, p.has c = true → Q.has c = true) (h2 : ∀ c, b.has c = true → Q.has c = true) (c : Coord) :
    r.has c = true → Q.has c = true := by
  obtain ⟨a, ha1, ha2, ha3⟩ := pyr_get hp hb.1
  obtain ⟨d, hd1, hd2, _⟩ := pyr_get hQ hb.1
  unfold Pyramid.includeBBox Pyramid.updateLevel at h
  rw [ha1] at h
  simp only at h
  cases hab : a.includeBBox b with
  | err => rw [hab] at h; simp only [Outcome.unwrap] at h; cases h
  | panic => rw [hab] at h; simp only [Outcome.unwrap] at h; cases h
  | ok x =>
    rw [hab] at h
    simp only [Outcome.unwrap] at h
    cases h
    have hlt : b.level < p.length := by rw [hp.1]; have := hb.1; omega
    rw [pyr_has_set hlt]
    by_cases hz : c.2.2 = b.level
    · rw [if_pos hz, contains3_iff]
      rintro ⟨_, hm⟩
      have hdm : mem d c.1 c.2.1 := by
        apply include_least (wf_inRange ha3) (wf_inRange hb) hab d _ c.1 c.2.1 hm
        intro x y hor
        have hq : Q.has (x, y, b.level) = true := by
          rcases hor with hma | hmb
          · exact h1 (x, y, b.level) ((pyr_has_iff (c := (x, y, b.level)) ha1 ha2).mpr hma)
          · exact h2 (x, y, b.level) ((contains3_iff _ _ _ _).mpr ⟨rfl, hmb⟩)
        exact (pyr_has_iff (c := (x, y, b.level)) hd1 hd2).mp hq
      exact (pyr_has_iff (by rw [hz]; exact hd1) (by rw [hz]; exact hd2)).mpr hdm
    · rw [if_neg hz]
      exact h1 c

theorem includeFold_least (Q : Pyramid) (hQ : Q.WF) (l : List BBox) (hl : ∀ b ∈ l, b.WF) :
    ∀ (p r : Pyramid), p.WF →
      l.foldl (fun (acc : Outcome Pyramid) b => acc.bind (fun a => Pyramid.includeBBox a b)) (Outcome.ok p) = Outcome.ok r →
      (∀ c, p.has c = true → Q.has c = true) → (∀ b ∈ l, ∀ c, b.has c = true → Q.has c = true) →
      ∀ c, r.has c = true → Q.has c = true := by
  induction l with
  | nil =>
    intro p r _ h h1 _ c hc
    cases h
    exact h1 c hc
  | cons b bs ih =>
    intro p r hp h h1 h2 c hc
    obtain ⟨r1, e1, e2⟩ := pyrIncludeBBox_ok hp (hl b (by simp))
    simp only [List.foldl_cons, Outcome.bind, e1] at h
    exact ih (fun x hx => hl x (by simp [hx])) r1 r e2 h
      (fun c' => includeBBox_least hp hQ (hl b (by simp)) e1 h1 (h2 b (by simp)) c')
      (fun b' hb' => h2 b' (by simp [hb'])) c hc

theorem includePyramid_least {p q r Q : Pyramid} (hp : p.WF) (hq : q.WF) (hQ : Q.WF)
    (h : Pyramid.includePyramid p q = .ok r)
    (h1 : ∀ c, p.has c = true → Q.has c = true) (h2 : ∀ c, q.has c = true → Q.has c = true) (c : Coord) :
    r.has c = true → Q.has c = true := by
  unfold Pyramid.includePyramid Pyramid.iterLevels at h
  have hl : ∀ b ∈ q.filter (fun b => !b.isEmpty), b.WF := by
    intro b hb
    obtain ⟨i, hi, rfl⟩ := List.getElem_of_mem (List.mem_filter.mp hb).1
    exact (hq.2 i hi).2
  apply includeFold_least Q hQ _ hl p r hp h h1 _ c
  intro b hb c' hc'
  obtain ⟨i, hi, rfl⟩ := List.getElem_of_mem (List.mem_filter.mp hb).1
  apply h2
  obtain ⟨hz, hm⟩ := (contains3_iff _ _ _ _).mp hc'
  have hlev := (hq.2 i hi).1
  exact (pyr_has_iff (c := c') (lb := q[i]) (by rw [hz, hlev]; exact List.getElem?_eq_getElem hi) (by rw [hz])).mpr hm

/-- **coverage = union, least upper bound**: every well-formed pyramid `Q` that contains the
    coverage of every source (and the starting coverage, which is the first source's) contains the
    advertised coverage of the overlay – together with `overlay_cover_contains` the advertised
    coverage is exactly the per-level bounding union. -/
theorem overlay_cover_least {β : Type} (srcs : List (Op β)) (hs : ∀ o ∈ srcs, o.src.cover.WF) (Q : Pyramid) (hQ : Q.WF) :
    ∀ (first cover : Pyramid), first.WF → unionCover first srcs = .ok cover →
      (∀ c, first.has c = true → Q.has c = true) →
      (∀ o ∈ srcs, ∀ c, o.src.cover.has c = true → Q.has c = true) →
      ∀ c, cover.has c = true → Q.has c = true := by
  unfold unionCover
  induction srcs with
  | nil =>
    intro first cover _ h h1 _ c hc
    cases h
    exact h1 c hc
  | cons o os ih =>
    intro first cover hf h h1 h2 c hc
    obtain ⟨r1, e1, e2⟩ := includePyramid_ok hf (hs o (by simp))
    simp only [List.foldl_cons, Outcome.bind, e1] at h
    exact ih (fun x hx => hs x (by simp [hx])) r1 cover e2 h
      (fun c' => includePyramid_least hf (hs o (by simp)) hQ e1 h1 (h2 o (by simp)) c')
      (fun o' ho' => h2 o' (by simp [ho'])) c hc

/-- …and therefore contains every tile the overlay can return, if the sources' coverages contain
    theirs (C03 for the overlay) -/
theorem overlay_covers {β : Type} (ops : Ops β) (out : Nat) (srcs : List (Op β))
    (hs : ∀ o ∈ srcs, Good o.src) (hcv : ∀ o ∈ srcs, Covers o.src) (first cover : Pyramid) (hf : first.WF)
    (hu : unionCover first srcs = .ok cover) {c : Coord} (hc : Coord.Valid c) (q : β)
    (h : (overlaySrc ops out cover srcs).lookup c = .ok (some q)) : cover.has c = true := by
  rw [overlay_lookup ops out cover srcs (fun o ho => (hs o ho).lookup_ok) hc] at h
  have h' := Outcome.ok.inj h
  obtain ⟨before, o, after, p, h1, _, h3, _⟩ :=
    (firstHit_some_iff ops out srcs (fun o ho => (hs o ho).lookup_ok) hc q).mp h'
  have ho : o ∈ srcs := by rw [h1]; simp
  exact overlay_cover_contains srcs (fun o ho => (hs o ho).cover_wf) first cover hf hu c
    (Or.inr ⟨o, ho, hcv o ho c p h3⟩)

/-! ### the built operation -/

/-- what `from_overlayed` builds: at least two sources of one format; the declared compression is
    the common one or uncompressed; the coverage is the union; the operation is a good source
    (lookups never fail, streams agree with lookups) — no failure for differing coverages, zoom
    ranges or compressions -/
theorem build_overlay {β : Type} (ops : Ops β) (srcs : List (Op β)) (o : Op β)
    (hs : ∀ s ∈ srcs, Good s.src) (h : buildOverlay ops srcs = .ok o) :
    2 ≤ srcs.length ∧ Good o.src ∧
      ∃ first rest, srcs = first :: rest ∧
        o.comp = (if srcs.all (fun s => s.comp == first.comp) then first.comp else 0) ∧
        o.fmt = first.fmt ∧ (∀ s ∈ srcs, s.fmt = first.fmt) ∧
        unionCover first.src.cover srcs = .ok o.src.cover ∧
        o.src = overlaySrc ops o.comp o.src.cover srcs := by
  have hg := buildOverlay_good hs h
  unfold buildOverlay at h
  split at h
  · cases h
  · cases h
  · rename_i first rest hne
    have hlen : 2 ≤ (first :: rest).length := by
      cases rest with
      | nil => exact absurd rfl hne
      | cons _ _ => simp
    split at h
    · cases h
    · rename_i hf
      split at h
      · rename_i cover hc
        cases h
        refine ⟨hlen, hg, first, rest, rfl, overlayComp_spec _ _, rfl, ?_, hc, rfl⟩
        intro s hs'
        have hall : ∀ x ∈ first :: rest, x.fmt = first.fmt := by simpa using hf
        exact hall s hs'
      · cases h

/-- fewer than two sources: an error, not a panic -/
theorem build_overlay_too_few {β : Type} (ops : Ops β) (s : Op β) :
    buildOverlay ops ([] : List (Op β)) = .err ∧ buildOverlay ops [s] = .err := ⟨rfl, rfl⟩

/-- nesting inside filters (and anything else) is an instance of the pipeline theorem -/
theorem overlay_nested {β : Type} (ops : Ops β) (env : Nat → Outcome (Op β))
    (henv : ∀ i o, env i = .ok o → Good o.src) (p : Pipe) (hd : p.DebugOK) (o : Op β) (h : build ops env p = .ok o) :
    Good o.src := build_good ops env henv p hd o h

/-! ### non-vacuity -/

def demoA : Op Nat := ⟨Src.ofLookup (fun c => if c = (0, 0, 1) then .ok (some 10) else .ok none) Pyramid.newEmpty, 1, 1⟩
def demoB : Op Nat := ⟨Src.ofLookup (fun c => if c.2.2 = 1 then .ok (some 20) else .ok none) Pyramid.newEmpty, 1, 2⟩
def demoOps : Ops Nat := ⟨fun a b p => p * 100 + a * 10 + b, fun _ p => p, fun l => l.sum, fun _ p => p, fun _ c => c.1⟩

example : firstHit demoOps 0 [demoA, demoB] (0, 0, 1) = some 1010 := by decide
example : firstHit demoOps 0 [demoA, demoB] (1, 0, 1) = some 2020 := by decide
example : firstHit demoOps 0 [demoA, demoB] (0, 0, 2) = none := by decide
example : overlayComp 1 [demoA, demoB] = 0 := by decide
example : overlayComp 1 [demoA, demoA] = 1 := by decide

end VtProps.C08
