import VtModel.Memo
/-!
# C13 (addendum) — a shared memo cell in front of a loader
Theorems about `VtModel.Memo`; imported by `VtProps.C13`.
-/

/-! ### a shared memo cell: check-then-act is not isolated (class of seeded regression C13-4) -/

namespace VtProps.C13.Memo
open VtModel.Memo

/-- the cell only ever holds a value that belongs to its key -/
def Cons (dir : Nat → Nat) (cell : Option (Nat × Nat)) : Prop := ∀ k v, cell = some (k, v) → v = dir k

/-- every caller is untouched, or finished with the right value -/
def Good (dir : Nat → Nat) (keys : Nat → Nat) (σ : State) : Prop :=
  Cons dir σ.cell ∧ ∀ c, (σ.cs c).key = keys c ∧
    (((σ.cs c).pc = 0 ∧ (σ.cs c).res = none) ∨ ((σ.cs c).pc = 2 ∧ (σ.cs c).res = some (dir (keys c))))

theorem act_cons {dir : Nat → Nat} {cell : Option (Nat × Nat)} (h : Cons dir cell) (key : Nat) :
    Cons dir (act dir cell key (isHit cell key)).1 ∧ (act dir cell key (isHit cell key)).2 = some (dir key) := by
  unfold act
  cases hc : cell with
  | none => simp [isHit, Cons]
  | some p =>
    obtain ⟨k, v⟩ := p
    by_cases hk : k = key
    · subst hk
      have hv : v = dir k := h k v hc
      simp only [isHit, beq_self_eq_true, if_true, Option.map_some]
      exact ⟨by rw [← hc]; exact h, by rw [hv]⟩
    · have : (k == key) = false := by simp [hk]
      simp only [isHit, this]
      refine ⟨?_, rfl⟩
      intro k' v' he
      simp at he
      obtain ⟨rfl, rfl⟩ := he
      rfl

theorem step_good {dir : Nat → Nat} {keys : Nat → Nat} {σ : State} (h : Good dir keys σ) (c : Nat) :
    Good dir keys (step dir true c σ) := by
  obtain ⟨hc, hs⟩ := h
  unfold step
  rcases (hs c).2 with ⟨hp, _⟩ | ⟨hp, _⟩
  · simp only [hp, if_true]
    obtain ⟨h1, h2⟩ := act_cons hc (σ.cs c).key
    refine ⟨h1, fun x => ?_⟩
    by_cases hx : x = c
    · subst hx
      simp only [if_true]
      exact ⟨(hs x).1, Or.inr ⟨by trivial, by rw [h2, (hs x).1]⟩⟩
    · simp only [hx, if_false]; exact hs x
  · simp only [hp]
    exact ⟨hc, hs⟩

theorem exec_good {dir : Nat → Nat} {keys : Nat → Nat} {σ : State} (h : Good dir keys σ) (sched : List Nat) :
    Good dir keys (exec dir true σ sched) := by
  unfold exec
  induction sched generalizing σ with
  | nil => exact h
  | cons x xs ih => exact ih (step_good h x)

/-- **check and fetch in ONE critical section**: for every number of callers, all keys, every
    consistent start cell and EVERY schedule, a caller that has finished returns `dir key` –
    what it returns alone. -/
theorem memo_atomic_safe (dir : Nat → Nat) (keys : Nat → Nat) (cell : Option (Nat × Nat)) (hcell : Cons dir cell)
    (sched : List Nat) (c : Nat) (hdone : ((exec dir true (init cell keys) sched).cs c).pc = 2) :
    ((exec dir true (init cell keys) sched).cs c).res = some (dir (keys c)) := by
  have hg : Good dir keys (exec dir true (init cell keys) sched) :=
    exec_good ⟨hcell, fun c => ⟨rfl, Or.inl ⟨rfl, rfl⟩⟩⟩ sched
  rcases (hg.2 c).2 with ⟨hp, _⟩ | ⟨_, hr⟩
  · rw [hp] at hdone; cases hdone
  · exact hr

/-- **check and fetch in two critical sections** (the seeded `last_leaf` fast path): for all
    keys `k1 ≠ k2` there is a schedule of two callers – A checks (hit), B checks (miss) and stores
    its directory, A fetches – in which A returns B's directory. -/
theorem memo_check_then_act_race (dir : Nat → Nat) (k1 k2 : Nat) (hne : k1 ≠ k2) :
    let σ := exec dir false (init (some (k1, dir k1)) (fun c => if c = 0 then k1 else k2)) [0, 1, 1, 0]
    (σ.cs 0).pc = 2 ∧ (σ.cs 0).res = some (dir k2) ∧ (σ.cs 1).res = some (dir k2) := by
  have h : (k1 == k2) = false := by simp [hne]
  simp [exec, step, init, act, isHit, h]

/-- alone, the two-step lookup is exact -/
theorem memo_sequential (dir : Nat → Nat) (k k0 : Nat) :
    ((exec dir false (init (some (k0, dir k0)) (fun _ => k)) [0, 0]).cs 0).res = some (dir k) := by
  by_cases h : k0 = k
  · subst h; simp [exec, step, init, act, isHit]
  · have : (k0 == k) = false := by simp [h]
    simp [exec, step, init, act, isHit, this]

end VtProps.C13.Memo
