import VtProofs.Codec
import VtProofs.Dedup
/-!
# C04 — recompression changes only the encoding, never the payload

Statement (properties.jsonl): converting a container to another tile compression, or forcing
recompression, yields an output in which every tile, decoded with the compression the output
declares, is byte-identical to the source tile decoded with the compression the source declares;
the container metadata survives in the same way; for every pair of source and target compression
and whether or not recompression is forced.

All theorems are for an ARBITRARY `Codec` satisfying the laws of `VtModel.Codec.Codec` (gzip and
brotli are parameters), every blob (valid or not), all 3 × 3 × 2 configurations, every tile list.
-/
namespace VtProps.C04
open VtModel.Codec

/-! ### blob path -/

/-- **C04 core.**  For every configuration and EVERY blob: decoding the processed blob with the
    target compression gives exactly what decoding the input with the source compression gives
    (`none` on both sides for an invalid input: an error, never silent garbage). -/
theorem recompressor_sound (K : Codec) (src dst : Comp) (force : Bool) (b : Bytes) :
    (process K (newTileRecompressor src dst force) b).bind (K.dec dst) = K.dec src b := by
  unfold newTileRecompressor
  split
  · rw [process_full]
    cases K.dec src b with
    | none => simp
    | some d => simp [K.dec_enc]
  · rename_i h
    have hsd : src = dst := by
      cases src <;> cases dst <;> simp_all
    subst hsd
    simp [process]

/-- valid input ⇒ the pipeline succeeds and the payload is preserved -/
theorem recompressor_valid (K : Codec) (src dst : Comp) (force : Bool) (b payload : Bytes)
    (h : K.dec src b = some payload) :
    ∃ b', process K (newTileRecompressor src dst force) b = some b' ∧ K.dec dst b' = some payload := by
  have hs := recompressor_sound K src dst force b
  rw [h] at hs
  cases hp : process K (newTileRecompressor src dst force) b with
  | none => rw [hp] at hs; simp at hs
  | some b' => rw [hp] at hs; exact ⟨b', rfl, by simpa using hs⟩

/-- invalid input and a non-empty pipeline ⇒ `process_blob` fails (it never invents a payload) -/
theorem recompressor_rejects (K : Codec) (src dst : Comp) (force : Bool) (b : Bytes)
    (h : K.dec src b = none) (hne : newTileRecompressor src dst force ≠ []) :
    process K (newTileRecompressor src dst force) b = none := by
  unfold newTileRecompressor at hne ⊢
  split
  · rw [process_full, h]; rfl
  · rename_i hc; simp [hc] at hne

/-- When is the pipeline empty?  Exactly when nothing is asked for (`¬force ∧ src = dst`) **or**
    both compressions are `Uncompressed` (then forcing has nothing to do).  DESIGN §6 stated
    `steps = [] ↔ ¬force ∧ src = dst`; that is false of the code for `force ∧ raw → raw`
    (`raw_raw_forced_is_empty` below) and harmless: there is no encoding to redo. -/
theorem steps_nil_iff (src dst : Comp) (force : Bool) :
    newTileRecompressor src dst force = [] ↔ (force = false ∧ src = dst) ∨ (src = .raw ∧ dst = .raw) := by
  cases src <;> cases dst <;> cases force <;> simp [newTileRecompressor, decompressSteps, compressSteps]

theorem raw_raw_forced_is_empty : newTileRecompressor .raw .raw true = [] := by decide

/-- an empty pipeline returns the blob itself (byte-identical tiles when nothing is to be done) -/
theorem steps_nil_identity (K : Codec) (steps : List Step) (h : steps = []) (b : Bytes) :
    process K steps b = some b := by
  subst h; rfl

/-- forcing really re-encodes whenever there is an encoding: the output is the canonical encoding
    of the payload, whatever valid representation came in -/
theorem forced_is_canonical (K : Codec) (src dst : Comp) (b payload : Bytes)
    (h : K.dec src b = some payload) :
    process K (newTileRecompressor src dst true) b = some (K.enc dst payload) := by
  simp [newTileRecompressor, process_full, h]

/-- `utils::recompress` obeys the same law -/
theorem recompress_sound (K : Codec) (src dst : Comp) (b : Bytes) :
    (recompress K b src dst).bind (K.dec dst) = K.dec src b := by
  unfold recompress decompress compress
  split
  · rename_i h; subst h; simp
  · cases K.dec src b with
    | none => simp
    | some d => simp [K.dec_enc]

/-- without forcing, the step pipeline *is* `recompress` -/
theorem process_eq_recompress (K : Codec) (src dst : Comp) (b : Bytes) :
    process K (newTileRecompressor src dst false) b = recompress K b src dst := by
  unfold newTileRecompressor recompress decompress compress
  by_cases h : src = dst
  · subst h; simp [process]
  · have : (false || src != dst) = true := by simp [h]
    rw [if_pos this, if_neg h, process_full]

/-! ### stream path -/

/-- the blob path applied to one stream item -/
def itemPath (K : Codec) (steps : List Step) (t : Nat × Bytes) : Option (Nat × Bytes) :=
  (process K steps t.2).map (fun b' => (t.1, b'))

/-- **stream path = map of the blob path**; the only difference is that a failing blob is a panic
    (`unwrap` in the closure) instead of an error. -/
theorem stream_eq_map (K : Codec) (steps : List Step) (tiles : List (Nat × Bytes)) :
    processStream K steps tiles =
      match tiles.mapM (itemPath K steps) with
      | some l => .ok l
      | none => .panic "tile_converter.rs:114 unwrap" := by
  induction tiles with
  | nil => simp [processStream]
  | cons t rest ih =>
    obtain ⟨c, b⟩ := t
    simp only [processStream, List.mapM_cons, itemPath]
    cases hp : process K steps b with
    | none => simp
    | some b' =>
      simp only [Option.map_some, Option.bind_eq_bind, Option.bind_some]
      rw [ih]
      cases rest.mapM (itemPath K steps) <;> simp

/-- a stream that comes out has the same coordinates in the same order, and every blob decodes
    (with the target compression) to what the input blob decodes to (with the source compression) -/
theorem stream_decoded (K : Codec) (src dst : Comp) (force : Bool) (tiles out : List (Nat × Bytes))
    (h : processStream K (newTileRecompressor src dst force) tiles = .ok out) :
    out.map (fun t => (t.1, K.dec dst t.2)) = tiles.map (fun t => (t.1, K.dec src t.2)) := by
  induction tiles generalizing out with
  | nil => simp [processStream] at h; subst h; rfl
  | cons t rest ih =>
    obtain ⟨c, b⟩ := t
    simp only [processStream] at h
    cases hp : process K (newTileRecompressor src dst force) b with
    | none => rw [hp] at h; simp at h
    | some b' =>
      rw [hp] at h
      cases hr : processStream K (newTileRecompressor src dst force) rest with
      | ok l =>
        rw [hr] at h
        simp only [Res.ok.injEq] at h
        subst h
        have hs := recompressor_sound K src dst force b
        rw [hp] at hs
        simp only [List.map_cons, ih l hr]
        congr 1
        simpa using hs
      | err => rw [hr] at h; simp at h
      | panic s => rw [hr] at h; simp at h

/-- valid tiles never make the stream panic -/
theorem stream_no_panic (K : Codec) (src dst : Comp) (force : Bool) (tiles : List (Nat × Bytes))
    (hv : ∀ t ∈ tiles, (K.dec src t.2).isSome) :
    ∃ out, processStream K (newTileRecompressor src dst force) tiles = .ok out := by
  induction tiles with
  | nil => exact ⟨[], rfl⟩
  | cons t rest ih =>
    obtain ⟨c, b⟩ := t
    have hb := hv (c, b) (by simp)
    obtain ⟨payload, hpay⟩ := Option.isSome_iff_exists.mp hb
    obtain ⟨b', hb', _⟩ := recompressor_valid K src dst force b payload hpay
    obtain ⟨l, hl⟩ := ih (fun t ht => hv t (by simp [ht]))
    exact ⟨(c, b') :: l, by simp [processStream, hb', hl]⟩

/-! ### converter + writer: the whole conversion -/

/-- declared output compression: the requested one, else the source's -/
theorem declared_spec (r : Reader) (p : ConvParams) :
    declared r p = match p.target with | some c => c | none => r.comp := by
  unfold declared; cases p.target <;> rfl

/-- "keep" without force touches nothing -/
theorem keep_is_identity (r : Reader) : convSteps r { target := none, force := false } = [] := by
  simp [convSteps, declared, newTileRecompressor]

/-- single-tile lookups through the converter -/
theorem convLookup_sound (K : Codec) (r : Reader) (p : ConvParams) (c : Nat) :
    (convLookup K r p c = .ok none ↔ r.tiles.lookup c = none) ∧
    (∀ b', convLookup K r p c = .ok (some b') →
        ∃ b, r.tiles.lookup c = some b ∧ K.dec (declared r p) b' = K.dec r.comp b) ∧
    (∀ b payload, r.tiles.lookup c = some b → K.dec r.comp b = some payload →
        ∃ b', convLookup K r p c = .ok (some b') ∧ K.dec (declared r p) b' = some payload) := by
  unfold convLookup convSteps
  cases hl : r.tiles.lookup c with
  | none => simp
  | some b =>
    have hs := recompressor_sound K r.comp (declared r p) p.force b
    cases hp : process K (newTileRecompressor r.comp (declared r p) p.force) b with
    | none =>
      rw [hp] at hs
      simp only [Option.bind_none] at hs
      simp only [hp]
      simp
      intro b1 payload hb1 hpay
      subst hb1
      rw [hpay] at hs
      cases hs
    | some b' =>
      rw [hp] at hs
      simp only [Option.bind_some] at hs
      simp only [hp]
      simp [hs]
      intro b1 payload hb1 hpay
      subst hb1
      exact hpay

/-- **C04 end to end.**  Whatever container comes out of `convert_tiles_container`:
    it declares the requested compression, its tiles carry the same coordinates and decode — with
    the declared compression — to exactly what the source tiles decode to with the source's
    compression, and the metadata read back equals the source metadata.
    For every codec, source compression, target ∈ {keep, raw, gzip, brotli}, force flag, format. -/
theorem convert_sound (K : Codec) (r : Reader) (p : ConvParams) (f : Fmt) (c : Container)
    (h : convertContainer K r p f = .ok c) :
    c.comp = declared r p ∧
    c.tiles.map (fun t => (t.1, K.dec c.comp t.2)) = r.tiles.map (fun t => (t.1, K.dec r.comp t.2)) ∧
    c.readMeta K = some r.tilejson := by
  unfold convertContainer convStream convSteps at h
  cases hs : processStream K (newTileRecompressor r.comp (declared r p) p.force) r.tiles with
  | ok ts =>
    rw [hs] at h
    simp only [Res.ok.injEq] at h
    subst h
    exact ⟨rfl, stream_decoded K _ _ _ _ _ hs, by simp [Container.readMeta, K.dec_enc]⟩
  | err => rw [hs] at h; simp at h
  | panic s => rw [hs] at h; simp at h

/-- a source whose tiles are all valid under its declared compression always converts -/
theorem convert_no_panic (K : Codec) (r : Reader) (p : ConvParams) (f : Fmt)
    (hv : ∀ t ∈ r.tiles, (K.dec r.comp t.2).isSome) :
    ∃ c, convertContainer K r p f = .ok c := by
  obtain ⟨out, ho⟩ := stream_no_panic K r.comp (declared r p) p.force r.tiles hv
  refine ⟨{ fmt := f, comp := declared r p,
             metaBytes := K.enc (metaComp f (declared r p)) r.tilejson, tiles := out }, ?_⟩
  simp [convertContainer, convStream, convSteps, ho]

/-! ### reading the container back: zero-length blobs

The full statement "every source tile can be read back" is FALSE of the code for one corner:
a tile whose payload has length 0, written uncompressed into a versatiles or pmtiles container,
is stored as a zero-length range, which both readers treat as "no tile".
`readback_complete_partial` is the statement with that corner excluded (note how the law
"compressed streams are never empty" makes every compressed target safe);
`empty_tile_dropped` is the proved counterexample of the full statement. -/

/-- formats in which a zero-length range means "absent" -/
def zeroMeansAbsent : Fmt → Bool
  | .versatiles => true
  | .pmtiles => true
  | _ => false

theorem readback_complete_partial (K : Codec) (r : Reader) (p : ConvParams) (f : Fmt) (c : Container)
    (h : convertContainer K r p f = .ok c) (t : Nat × Bytes) (ht : t ∈ r.tiles) (payload : Bytes)
    (hpay : K.dec r.comp t.2 = some payload)
    (hcorner : payload ≠ [] ∨ declared r p ≠ .raw ∨ zeroMeansAbsent f = false) :
    ∃ b', (t.1, b') ∈ c.visible ∧ K.dec c.comp b' = some payload := by
  obtain ⟨hc, hmap, _⟩ := convert_sound K r p f c h
  have hf : c.fmt = f := by
    unfold convertContainer at h
    cases hs : convStream K r p with
    | ok ts => rw [hs] at h; simp only [Res.ok.injEq] at h; subst h; rfl
    | err => rw [hs] at h; simp at h
    | panic s => rw [hs] at h; simp at h
  have hmem : (t.1, K.dec r.comp t.2) ∈ r.tiles.map (fun t => (t.1, K.dec r.comp t.2)) :=
    List.mem_map.mpr ⟨t, ht, rfl⟩
  rw [← hmap] at hmem
  obtain ⟨t', ht', heq⟩ := List.mem_map.mp hmem
  simp only [Prod.mk.injEq] at heq
  obtain ⟨h1, h2⟩ := heq
  rw [hpay] at h2
  refine ⟨t'.2, ?_, h2⟩
  have hne : zeroMeansAbsent f = true → t'.2 ≠ [] := by
    intro hz hnil
    rw [hnil] at h2
    by_cases hraw : c.comp = .raw
    · rw [hraw, K.dec_raw] at h2
      have hp : payload = [] := (Option.some.inj h2).symm
      rcases hcorner with h | h | h
      · exact h hp
      · exact h (hc ▸ hraw)
      · rw [hz] at h; cases h
    · rw [K.dec_nil _ hraw] at h2; cases h2
  have ht'' : (t.1, t'.2) = t' := by rw [← h1]
  unfold Container.visible
  rw [hf, ht'']
  cases f with
  | versatiles => exact List.mem_filter.mpr ⟨ht', by simpa using hne rfl⟩
  | pmtiles => exact List.mem_filter.mpr ⟨ht', by simpa using hne rfl⟩
  | tar => exact ht'
  | directory => exact ht'
  | mbtiles => exact ht'

/-- counterexample of the unrestricted statement: an empty (valid!) payload converted to an
    uncompressed versatiles container cannot be read back -/
theorem empty_tile_dropped :
    ∃ c, convertContainer toy { comp := .gzip, tilejson := [], tiles := [(7, toy.enc .gzip [])] }
        { target := some .raw, force := false } .versatiles = .ok c ∧ c.visible = [] := by
  refine ⟨_, rfl, ?_⟩
  decide

/-- the metadata law on its own: every format's metadata encoding round-trips -/
theorem meta_roundtrip (K : Codec) (f : Fmt) (d : Comp) (m : Bytes) :
    K.dec (metaComp f d) (K.enc (metaComp f d) m) = some m := K.dec_enc _ _

/-! ### the versatiles block writer (de-duplication below 1000 bytes) is lossless -/

theorem inv_init : Inv { data := [], table := [], ranges := [] } [] where
  table_ok := by intro e he; simp at he
  ranges_in := by intro r hr; simp at hr
  ranges_ok := rfl

/-- **every index entry of a block reads back exactly the blob that was handed to the writer**, for every list of
    blobs (any repetitions, any sizes around the 1000-byte limit) -/
theorem writeBlock_lossless (blobs : List Bytes) :
    (writeBlock blobs).ranges.map (readRange (writeBlock blobs).data) = blobs := by
  have h0 := inv_init
  have := (foldl_inv blobs h0).ranges_ok
  simpa [writeBlock, writeBlockFrom] using this

/-- all index entries lie inside the block's blob area -/
theorem writeBlock_in_bounds (blobs : List Bytes) :
    ∀ r ∈ (writeBlock blobs).ranges, r.1 + r.2 ≤ (writeBlock blobs).data.length := by
  have h0 := inv_init
  have := (foldl_inv blobs h0).ranges_in
  simpa [writeBlock, writeBlockFrom] using this

/-- a block placed anywhere in the file: the reader adds the block's offset to the relative range -/
theorem block_in_file (pre post : Bytes) (blobs : List Bytes) (i : Nat) (h : i < blobs.length) :
    ∃ r, (writeBlock blobs).ranges[i]? = some r ∧
      readRange (pre ++ (writeBlock blobs).data ++ post) (pre.length + r.1, r.2) = blobs[i] := by
  have hl := writeBlock_lossless blobs
  have hlen : (writeBlock blobs).ranges.length = blobs.length := by
    have := congrArg List.length hl; simpa using this
  have hi : i < (writeBlock blobs).ranges.length := by omega
  refine ⟨(writeBlock blobs).ranges[i], by simp [hi], ?_⟩
  have hb := writeBlock_in_bounds blobs _ (List.getElem_mem hi)
  have hr : readRange (writeBlock blobs).data (writeBlock blobs).ranges[i] = blobs[i] := by
    have := congrArg (fun l => l[i]?) hl
    simp only [List.getElem?_map, hi, List.getElem?_eq_getElem, h, Option.map_some, Option.some.injEq] at this
    exact this
  rw [← hr]
  unfold readRange
  simp only [List.append_assoc]
  rw [List.drop_append, List.drop_eq_nil_of_le (by omega : pre.length ≤ pre.length + _)]
  simp only [List.nil_append, Nat.add_sub_cancel_left]
  have h1 : ((writeBlock blobs).ranges[i]).1 ≤ (writeBlock blobs).data.length := by omega
  rw [List.drop_append_of_le_length h1]
  have h2 : ((writeBlock blobs).ranges[i]).2 ≤ ((writeBlock blobs).data.drop ((writeBlock blobs).ranges[i]).1).length := by
    simp; omega
  rw [List.take_append_of_le_length h2]

/-- why the table must not outlive its block (seeded regression C04-5): a second block that starts with the first
    block's table records a range that points at other bytes of ITS OWN data -/
theorem shared_table_breaks :
    let b1 : List Bytes := [[9, 9, 9], [1, 2]]
    let b2 : List Bytes := [[5, 5, 5, 5, 5], [1, 2]]
    let o := writeBlockFrom (writeBlock b1).table b2
    o.ranges.map (readRange o.data) ≠ b2 := by decide

/-! ### non-vacuity: a codec exists, a valid non-trivial conversion exists -/

example : (toy.dec .gzip (toy.enc .gzip [1, 2, 3])).isSome := by decide
example : process toy (newTileRecompressor .gzip .brotli false) (toy.enc .gzip [7, 0, 1]) =
    some (toy.enc .brotli [7, 0, 1]) := by decide
example : newTileRecompressor .gzip .gzip true = [.unGzip, .gzip] := by decide
example : newTileRecompressor .brotli .raw false = [.unBrotli] := by decide
example : ∃ c, convertContainer toy
    { comp := .gzip, tilejson := [123, 125], tiles := [(0, toy.enc .gzip [1]), (5, toy.enc .gzip [])] }
    { target := some .brotli, force := false } .pmtiles = .ok c :=
  convert_no_panic toy _ _ _ (by decide)
/-- an invalid blob (empty, declared gzip) is rejected, not passed on -/
example : process toy (newTileRecompressor .gzip .raw false) [] = none := by decide

end VtProps.C04
