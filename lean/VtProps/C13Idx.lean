import VtModel.Decoders
/-!
# C13 (addendum) — the versatiles reader's tile-index cache in its `get` + validate + `add` form

`VersaTilesReader::get_block_tile_index` (`versatiles/reader.rs:137-160`) is one critical section
under the async mutex: `cache.get(block)`, else load + decode + `ensure!(len == count)` +
`cache.add`.  `VtModel.Decoders.getIndex true` is that section (model of w-c19).  Concurrent callers
are serialised by the mutex in SOME order, and between two sections the `LimitedCache` may evict
any entries.  Theorem: whatever the order and whatever is evicted in between, every section
returns `expected k` – the answer of a reader with an empty cache, i.e. the sequential answer.
-/
namespace VtProps.C13.Idx
open VtModel VtModel.Decoders

/-- what a lookup of block `k` answers on a fresh reader -/
def expected (load : Nat → Outcome (List Fmt.Range)) (count : Nat → Nat) (k : Nat) : Outcome (List Fmt.Range) :=
  match load k with
  | .ok idx => if idx.length == count k then .ok idx else .err
  | .err => .err
  | .panic => .panic

/-- the cache holds only validated results of the loader -/
def Transp (load : Nat → Outcome (List Fmt.Range)) (count : Nat → Nat) (c : IdxCache) : Prop :=
  ∀ k idx, c.find k = some idx → load k = .ok idx ∧ idx.length = count k

/-- an eviction only removes entries -/
def Evicts (ev : IdxCache → IdxCache) : Prop := ∀ c k idx, (ev c).find k = some idx → c.find k = some idx

theorem getIndex_transparent (load : Nat → Outcome (List Fmt.Range)) (count : Nat → Nat) (c : IdxCache) (k : Nat)
    (hc : Transp load count c) :
    (getIndex true load count c k).1 = expected load count k ∧ Transp load count (getIndex true load count c k).2 := by
  unfold getIndex expected
  cases hf : c.find k with
  | some idx =>
    obtain ⟨h1, h2⟩ := hc k idx hf
    simp [h1, h2, hc]
  | none =>
    cases hl : load k with
    | err => exact ⟨rfl, hc⟩
    | panic => exact ⟨rfl, hc⟩
    | ok idx =>
      simp only [if_true]
      by_cases hlen : idx.length = count k
      · have hb : (idx.length == count k) = true := by simpa using hlen
        simp only [hb, if_true]
        refine ⟨by trivial, ?_⟩
        intro k' idx' hf'
        simp only [IdxCache.find] at hf'
        split at hf'
        · rename_i hk
          have : k = k' := by simpa using hk
          subst this
          cases hf'; exact ⟨hl, hlen⟩
        · exact hc k' idx' hf'
      · have hb : (idx.length == count k) = false := by simpa using hlen
        simp only [hb]
        exact ⟨rfl, hc⟩

/-- the sections in mutex order, with an arbitrary eviction after each -/
def sections (load : Nat → Outcome (List Fmt.Range)) (count : Nat → Nat) (ev : IdxCache → IdxCache) :
    IdxCache → List Nat → List (Outcome (List Fmt.Range))
  | _, [] => []
  | c, k :: rest =>
    let r := getIndex true load count c k
    r.1 :: sections load count ev (ev r.2) rest

theorem sections_from (load : Nat → Outcome (List Fmt.Range)) (count : Nat → Nat) (ev : IdxCache → IdxCache)
    (hev : Evicts ev) (c : IdxCache) (hc : Transp load count c) (keys : List Nat) :
    sections load count ev c keys = keys.map (expected load count) := by
  induction keys generalizing c with
  | nil => rfl
  | cons k ks ih =>
    obtain ⟨h1, h2⟩ := getIndex_transparent load count c k hc
    simp only [sections, List.map_cons, h1]
    congr 1
    exact ih _ (fun k' idx' hf => h2 k' idx' (hev _ k' idx' hf))

/-- **C13, tile-index cache (`get` + validate + `add`)**: for every loader, every serialisation
    `keys` of the critical sections of any number of concurrent callers and every eviction policy,
    each section returns what a fresh reader returns for its block – the sequential answer;
    in particular the answers do not depend on the order. -/
theorem index_cache_sections_sequential (load : Nat → Outcome (List Fmt.Range)) (count : Nat → Nat)
    (ev : IdxCache → IdxCache) (hev : Evicts ev) (keys : List Nat) :
    sections load count ev [] keys = keys.map (expected load count) :=
  sections_from load count ev hev [] (by intro k idx h; simp [IdxCache.find] at h) keys

/-- a single section on an empty cache is `expected` (so `expected` IS the sequential answer) -/
theorem expected_is_fresh (load : Nat → Outcome (List Fmt.Range)) (count : Nat → Nat) (k : Nat) :
    (getIndex true load count [] k).1 = expected load count k :=
  (getIndex_transparent load count [] k (by intro k idx h; simp [IdxCache.find] at h)).1

end VtProps.C13.Idx
