import VtModel.Mvt
import VtProofs.Prim
import VtProofs.MvtTables
import VtProofs.MvtOps
/-!
# C10 – merging vector tiles concatenates the features of equally named layers

Statement (properties.jsonl): for a `from_vectortiles_merged` pipeline, the output tile at a
coordinate exists exactly when at least one source has a tile there, contains one layer per distinct
layer name occurring in the source tiles, and each layer holds the features of that layer from all
sources in source order, each with its original id, geometry and property set; the output is
declared and delivered uncompressed.

Model: `VtModel.Mvt.mergedTile` (= `get_tile_data` of the operation on already decompressed source
blobs; `None` for a source without the tile).
-/
namespace VtProps.C10
open VtModel VtModel.Prim VtModel.Mvt VtProofs.MvtTables VtProofs.MvtOps

/-- The merged output is absent exactly when no source has a tile (and a present output is never
    produced from nothing). -/
theorem merge_exists (srcs : List (Option Bytes)) :
    mergedTile srcs = .ok none ↔ ∀ s ∈ srcs, s = none := by
  unfold mergedTile
  constructor
  · intro h
    split at h
    · rename_i hnil
      intro s hs
      cases s with
      | none => rfl
      | some b =>
        have := List.filterMap_eq_nil_iff.mp hnil (some b) hs
        simp at this
    · split at h <;> simp at h
  · intro h
    have : srcs.filterMap id = [] := by
      apply List.filterMap_eq_nil_iff.mpr
      intro s hs
      rw [h s hs]; rfl
    simp [this]

/-- if some source has a tile the operation answers with a tile, an error or a panic – never "no tile" -/
theorem merge_exists_some (srcs : List (Option Bytes)) (b : Bytes) (hb : some b ∈ srcs) :
    mergedTile srcs ≠ .ok none := by
  intro h
  have := (merge_exists srcs).mp h (some b) hb
  simp at this

example : mergedTile [none, none] = .ok none := by decide

/-! ## layers and features of the merged tile -/

def names (ls : List Layer) : List Bytes := ls.map (·.name)

/-- semantic features of a layer (`none`: some tag points outside the tables – not a valid layer) -/
def semF (l : Layer) : Option (List SemFeature) := semFeatures l.keys l.vals l.features

/-- specification: the features of a list of layers, concatenated in order -/
def concatSem : List Layer → Option (List SemFeature)
  | [] => some []
  | l :: t =>
    match semF l, concatSem t with
    | some a, some b => some (a ++ b)
    | _, _ => none

/-- the incoming layers called `n`, in source order -/
def sel (n : Bytes) (ins : List Layer) : List Layer := ins.filter (fun l => l.name = n)

theorem concatSem_append (a b : List Layer) (x y : List SemFeature) (ha : concatSem a = some x)
    (hb : concatSem b = some y) : concatSem (a ++ b) = some (x ++ y) := by
  induction a generalizing x with
  | nil => simp [concatSem] at ha; subst ha; simpa using hb
  | cons l t ih =>
    simp only [concatSem, List.cons_append] at ha ⊢
    cases h1 : semF l with
    | none => simp [h1] at ha
    | some s =>
      cases h2 : concatSem t with
      | none => simp [h1, h2] at ha
      | some r =>
        simp [h1, h2] at ha
        subst ha
        rw [ih r h2]
        simp

/-- **`add_from_layer`**: the target keeps its header and its own features (with their property sets),
    followed by the source layer's features in order, each with its id, geometry type, geometry bytes
    and property set – although the two layers use different key/value tables. -/
theorem addFromLayer_features (tgt src tgt' : Layer) (old : List SemFeature) (hold : semF tgt = some old)
    (h : addFromLayer tgt src = .ok tgt') :
    tgt'.name = tgt.name ∧ tgt'.extent = tgt.extent ∧ tgt'.version = tgt.version ∧
    ∃ new, semF src = some new ∧ semF tgt' = some (old ++ new) :=
  addFeatures_sem src src.features tgt tgt' old hold h

/-- what `layers.get_mut(name)` / `insert` do to the list of layers -/
theorem mergeLayer_cases : ∀ (acc acc' : List Layer) (nl : Layer), mergeLayer acc nl = .ok acc' →
    (nl.name ∉ names acc ∧ acc' = acc ++ [nl]) ∨
    (∃ pre l post l', acc = pre ++ l :: post ∧ l.name = nl.name ∧ (∀ x ∈ pre, x.name ≠ nl.name) ∧
      addFromLayer l nl = .ok l' ∧ acc' = pre ++ l' :: post) := by
  intro acc
  induction acc with
  | nil => intro acc' nl h; simp [mergeLayer] at h; subst h; left; simp [names]
  | cons x t ih =>
    intro acc' nl h
    simp only [mergeLayer] at h
    split at h
    · rename_i hx
      cases ha : addFromLayer x nl with
      | err => simp [ha] at h
      | panic => simp [ha] at h
      | ok x' =>
        simp [ha] at h
        subst h
        right
        exact ⟨[], x, t, x', by simp, hx, by simp, ha, by simp⟩
    · rename_i hx
      cases hm : mergeLayer t nl with
      | err => simp [hm] at h
      | panic => simp [hm] at h
      | ok t' =>
        simp [hm] at h
        subst h
        rcases ih t' nl hm with ⟨hn, he⟩ | ⟨pre, l, post, l', he, hl, hpre, ha, he'⟩
        · left
          refine ⟨?_, by simp [he]⟩
          simp only [names, List.map_cons, List.mem_cons, not_or]
          exact ⟨fun e => hx e.symm, hn⟩
        · right
          refine ⟨x :: pre, l, post, l', by simp [he], hl, ?_, ha, by simp [he']⟩
          intro y hy
          simp at hy
          rcases hy with e | e
          · subst e; exact hx
          · exact hpre y e

/-- invariant of the accumulated layers w.r.t. the layers merged so far -/
def Inv (acc pre : List Layer) : Prop :=
  (names acc).Nodup ∧ (∀ n, n ∈ names acc ↔ n ∈ names pre) ∧
  ∀ l ∈ acc, ∃ s, semF l = some s ∧ concatSem (sel l.name pre) = some s

theorem sel_append_ne (n : Bytes) (pre : List Layer) (nl : Layer) (h : nl.name ≠ n) :
    sel n (pre ++ [nl]) = sel n pre := by
  simp [sel, List.filter_append, h]

theorem sel_append_eq (pre : List Layer) (nl : Layer) :
    sel nl.name (pre ++ [nl]) = sel nl.name pre ++ [nl] := by
  simp [sel, List.filter_append]

theorem sel_nil_of_not_mem (n : Bytes) (pre : List Layer) (h : n ∉ names pre) : sel n pre = [] := by
  simp only [sel, List.filter_eq_nil_iff]
  intro l hl
  simp only [decide_eq_true_eq]
  intro e
  exact h (by simp only [names, List.mem_map]; exact ⟨l, hl, e⟩)

theorem inv_step (acc pre acc' : List Layer) (nl : Layer) (hinv : Inv acc pre)
    (hv : ∃ s, semF nl = some s) (h : mergeLayer acc nl = .ok acc') : Inv acc' (pre ++ [nl]) := by
  obtain ⟨hnd, hmem, hsem⟩ := hinv
  obtain ⟨snl, hsnl⟩ := hv
  rcases mergeLayer_cases acc acc' nl h with ⟨hn, he⟩ | ⟨p1, l, p2, l', he, hl, hpre, ha, he'⟩
  · subst he
    refine ⟨?_, ?_, ?_⟩
    · simp only [names, List.map_append, List.map_cons, List.map_nil]
      rw [List.nodup_append]
      refine ⟨hnd, by simp, ?_⟩
      intro a ha b hb
      simp at hb
      subst hb
      intro e
      subst e
      exact hn ha
    · intro n
      simp only [names, List.map_append, List.map_cons, List.map_nil, List.mem_append, List.mem_singleton]
      have := hmem n
      simp only [names] at this
      rw [this]
    · intro x hx
      simp only [List.mem_append, List.mem_singleton] at hx
      rcases hx with hx | hx
      · obtain ⟨s, h1, h2⟩ := hsem x hx
        have hne : nl.name ≠ x.name := by
          intro e
          apply hn
          rw [e]
          simp only [names, List.mem_map]
          exact ⟨x, hx, rfl⟩
        exact ⟨s, h1, by rw [sel_append_ne _ _ _ hne]; exact h2⟩
      · subst hx
        have hnp : x.name ∉ names pre := fun hc => hn ((hmem _).mpr hc)
        refine ⟨snl, hsnl, ?_⟩
        rw [sel_append_eq, sel_nil_of_not_mem _ _ hnp]
        simp [concatSem, hsnl]
  · subst he he'
    have hlmem : l ∈ p1 ++ l :: p2 := by simp
    obtain ⟨sl, hsl1, hsl2⟩ := hsem l hlmem
    obtain ⟨hn', _, _, new, hnew, hres⟩ := addFromLayer_features l nl l' sl hsl1 ha
    have hnew' : new = snl := by rw [hsnl] at hnew; exact (Option.some.inj hnew).symm
    subst hnew'
    have hnames : names (p1 ++ l' :: p2) = names (p1 ++ l :: p2) := by
      simp [names, hn']
    refine ⟨by rw [hnames]; exact hnd, ?_, ?_⟩
    · intro n
      rw [hnames]
      have h1 := hmem n
      have hnl : nl.name ∈ names (p1 ++ l :: p2) := by simp [names, hl]
      have h3 : n ∈ names (pre ++ [nl]) ↔ n ∈ names pre ∨ n = nl.name := by simp [names]
      rw [h3, ← h1]
      constructor
      · intro hh; exact Or.inl hh
      · intro hh
        rcases hh with hh | hh
        · exact hh
        · subst hh; exact hnl
    · intro x hx
      -- every other layer has a different name (names are distinct)
      have hother : ∀ y, y ∈ p1 ∨ y ∈ p2 → y.name ≠ nl.name := by
        intro y hy
        rcases hy with hy | hy
        · exact hpre y hy
        · intro e
          have hnd' := hnd
          simp only [names, List.map_append, List.map_cons] at hnd'
          rw [List.nodup_append] at hnd'
          obtain ⟨_, h2, _⟩ := hnd'
          rw [List.nodup_cons] at h2
          apply h2.1
          rw [hl, ← e]
          simp only [List.mem_map]
          exact ⟨y, hy, rfl⟩
      simp only [List.mem_append, List.mem_cons] at hx
      rcases hx with hx | hx | hx
      · obtain ⟨s, h1, h2⟩ := hsem x (by simp [hx])
        exact ⟨s, h1, by rw [sel_append_ne _ _ _ (fun e => hother x (Or.inl hx) e.symm)]; exact h2⟩
      · subst hx
        refine ⟨sl ++ new, hres, ?_⟩
        rw [hn', hl, sel_append_eq]
        rw [hl] at hsl2
        exact concatSem_append _ _ _ _ hsl2 (by simp [concatSem, hsnl])
      · obtain ⟨s, h1, h2⟩ := hsem x (by simp [hx])
        exact ⟨s, h1, by rw [sel_append_ne _ _ _ (fun e => hother x (Or.inr hx) e.symm)]; exact h2⟩

theorem inv_mergeLayers : ∀ (ins acc pre acc' : List Layer), Inv acc pre →
    (∀ l ∈ ins, ∃ s, semF l = some s) → mergeLayers acc ins = .ok acc' → Inv acc' (pre ++ ins) := by
  intro ins
  induction ins with
  | nil => intro acc pre acc' hinv _ h; simp [mergeLayers] at h; subst h; simpa using hinv
  | cons nl t ih =>
    intro acc pre acc' hinv hv h
    simp only [mergeLayers] at h
    cases hm : mergeLayer acc nl with
    | err => simp [hm] at h
    | panic => simp [hm] at h
    | ok acc1 =>
      simp only [hm] at h
      have h1 := inv_step acc pre acc1 nl hinv (hv nl (by simp)) hm
      have := ih acc1 (pre ++ [nl]) acc' h1 (fun l hl => hv l (by simp [hl])) h
      simpa using this

/-- **C10 (layers and features).**  Merging the layers `ins` (the layers of all source tiles, in
    source order) into an empty map succeeds only with a result that has
    * exactly one layer per distinct layer name occurring in the inputs, and
    * in each layer the features of all equally named input layers, concatenated in source order,
      each with its original id, geometry type, geometry bytes and property set
    (for inputs whose tags are valid, whatever their key/value tables look like). -/
theorem merge_layers_features (ins out : List Layer) (hv : ∀ l ∈ ins, ∃ s, semF l = some s)
    (h : mergeLayers [] ins = .ok out) :
    (names out).Nodup ∧ (∀ n, n ∈ names out ↔ n ∈ names ins) ∧
    ∀ l ∈ out, ∃ s, semF l = some s ∧ concatSem (sel l.name ins) = some s := by
  have hinv0 : Inv [] [] := ⟨by simp [names], by simp [names], by simp⟩
  have := inv_mergeLayers ins [] [] out hinv0 hv h
  simp only [List.nil_append] at this
  exact this

example :
    let l1 : Layer := { extent := 4096, features := [{ id := some 1, tags := [0, 0], gtype := 1, geom := [9] }],
                        name := [114], keys := [[107]], vals := [.uint 5], version := 1 }
    let l2 : Layer := { extent := 512, features := [{ id := none, tags := [1, 1], gtype := 2, geom := [] }],
                        name := [114], keys := [[120], [107]], vals := [.bool true, .int 5], version := 2 }
    (mergeLayers [] [l1, l2]).map (fun ls => ls.map dumpLayer) = .ok ["72:4096:1:1,1,09,6b=u5/-,2,-,6b=i5"] := by
  decide

/-! ## output order: ascending by layer name (the `BTreeMap` of `merge_tiles`) -/

theorem insertByName_perm (l : Layer) : ∀ (ls : List Layer), (insertByName l ls).Perm (l :: ls) := by
  intro ls
  induction ls with
  | nil => exact List.Perm.refl _
  | cons x t ih =>
    simp only [insertByName]
    split
    · exact (List.Perm.cons x ih).trans (List.Perm.swap l x t)
    · exact List.Perm.refl _

theorem sortByName_perm : ∀ (ls : List Layer), (sortByName ls).Perm ls := by
  intro ls
  induction ls with
  | nil => exact List.Perm.refl _
  | cons x t ih =>
    simp only [sortByName]
    exact (insertByName_perm x _).trans (List.Perm.cons x ih)

/-- no later layer has a smaller name -/
def NameSorted (ls : List Layer) : Prop := ls.Pairwise (fun a b => bytesLt b.name a.name = false)

theorem insertByName_sorted (l : Layer) : ∀ (ls : List Layer), NameSorted ls → NameSorted (insertByName l ls) := by
  intro ls
  induction ls with
  | nil => intro _; simp [insertByName, NameSorted]
  | cons x t ih =>
    intro hs
    unfold NameSorted at hs
    rw [List.pairwise_cons] at hs
    obtain ⟨hx, ht⟩ := hs
    simp only [insertByName]
    split
    · rename_i hlt
      unfold NameSorted
      rw [List.pairwise_cons]
      refine ⟨?_, ih ht⟩
      intro y hy
      rcases (List.mem_cons.mp ((insertByName_perm l t).subset hy)) with e | e
      · subst e; exact bytesLt_asymm _ _ hlt
      · exact hx y e
    · rename_i hnlt
      have hnlt' : bytesLt x.name l.name = false := by simpa using hnlt
      unfold NameSorted
      rw [List.pairwise_cons, List.pairwise_cons]
      refine ⟨?_, hx, ht⟩
      intro y hy
      rcases List.mem_cons.mp hy with e | e
      · subst e; exact hnlt'
      · -- y after x: if y < l then y < x, contradiction
        cases hyl : bytesLt y.name l.name with
        | false => rfl
        | true =>
          have hyx : bytesLt y.name x.name = true := by
            by_cases hxl : x.name = l.name
            · rw [hxl]; exact hyl
            · exact bytesLt_trans _ _ _ hyl (bytesLt_total _ _ hxl hnlt')
          rw [hx y e] at hyx
          exact absurd hyx (by simp)

theorem sortByName_sorted : ∀ (ls : List Layer), NameSorted (sortByName ls) := by
  intro ls
  induction ls with
  | nil => simp [sortByName, NameSorted]
  | cons x t ih => exact insertByName_sorted x _ ih

/-- with distinct names the sorted list is strictly increasing by name -/
theorem sorted_strict (ls : List Layer) (hs : NameSorted ls) (hnd : (names ls).Nodup) :
    (names ls).Pairwise (fun a b => bytesLt a b = true) := by
  induction ls with
  | nil => simp [names]
  | cons x t ih =>
    unfold NameSorted at hs
    rw [List.pairwise_cons] at hs
    simp only [names, List.map_cons, List.nodup_cons] at hnd ⊢
    rw [List.pairwise_cons]
    refine ⟨?_, ih hs.2 hnd.2⟩
    intro n hn
    obtain ⟨y, hy, rfl⟩ := List.mem_map.mp hn
    have hne : x.name ≠ y.name := by
      intro e
      exact hnd.1 (List.mem_map.mpr ⟨y, hy, e.symm⟩)
    cases h : bytesLt x.name y.name with
    | true => rfl
    | false =>
      have := bytesLt_total _ _ hne h
      rw [hs.1 y hy] at this
      exact absurd this (by simp)

/-! ## from source blobs to the merged tile -/

/-- all source blobs decoded, in source order -/
def decodeAll : List Bytes → Outcome (List Tile)
  | [] => .ok []
  | b :: t =>
    match decodeTile b with
    | .ok x =>
      match decodeAll t with
      | .ok xs => .ok (x :: xs)
      | .err => .err
      | .panic => .panic
    | .err => .err
    | .panic => .panic

theorem mergeLayers_append : ∀ (a : List Layer) (acc b out : List Layer),
    mergeLayers acc (a ++ b) = .ok out ↔ ∃ mid, mergeLayers acc a = .ok mid ∧ mergeLayers mid b = .ok out := by
  intro a
  induction a with
  | nil => intro acc b out; simp [mergeLayers]
  | cons x t ih =>
    intro acc b out
    simp only [List.cons_append, mergeLayers]
    cases hm : mergeLayer acc x with
    | ok acc1 => simp only; exact ih acc1 b out
    | err => simp
    | panic => simp

theorem mergeBlobs_layers : ∀ (blobs : List Bytes) (acc out : List Layer), mergeBlobs acc blobs = .ok out →
    ∃ ts, decodeAll blobs = .ok ts ∧ mergeLayers acc (ts.flatMap (·.layers)) = .ok out := by
  intro blobs
  induction blobs with
  | nil => intro acc out h; simp [mergeBlobs] at h; subst h; exact ⟨[], rfl, by simp [mergeLayers]⟩
  | cons b t ih =>
    intro acc out h
    simp only [mergeBlobs] at h
    cases hd : decodeTile b with
    | err => simp [hd] at h
    | panic => simp [hd] at h
    | ok tile =>
      simp only [hd] at h
      cases hm : mergeLayers acc tile.layers with
      | err => simp [hm] at h
      | panic => simp [hm] at h
      | ok acc1 =>
        simp only [hm] at h
        obtain ⟨ts, h1, h2⟩ := ih acc1 out h
        refine ⟨tile :: ts, by simp [decodeAll, hd, h1], ?_⟩
        simp only [List.flatMap_cons]
        exact (mergeLayers_append _ _ _ _).mpr ⟨acc1, hm, h2⟩

/-- **C10.**  Whenever the merged operation delivers a tile, all present source blobs decode, and
    with `ins` = their layers in source order: the output layers are in strictly ascending order of
    their names (so: one layer per name), the names are exactly the names occurring in `ins`, and each
    output layer holds the concatenation, in source order, of the features of the equally named input
    layers with id, geometry type, geometry bytes and property set preserved (sources whose tags are
    valid). -/
theorem merged_tile_spec (srcs : List (Option Bytes)) (t : Tile) (h : mergedTile srcs = .ok (some t)) :
    ∃ ts, decodeAll (srcs.filterMap id) = .ok ts ∧
      ((∀ l ∈ ts.flatMap (·.layers), ∃ s, semF l = some s) →
        (names t.layers).Pairwise (fun a b => bytesLt a b = true) ∧
        (∀ n, n ∈ names t.layers ↔ n ∈ names (ts.flatMap (·.layers))) ∧
        ∀ l ∈ t.layers, ∃ s, semF l = some s ∧ concatSem (sel l.name (ts.flatMap (·.layers))) = some s) := by
  unfold mergedTile at h
  split at h
  · simp at h
  · cases hm : mergeBlobs [] (List.filterMap id srcs) with
    | err => simp [hm] at h
    | panic => simp [hm] at h
    | ok ls =>
      simp [hm] at h
      subst h
      obtain ⟨ts, h1, h2⟩ := mergeBlobs_layers _ _ _ hm
      refine ⟨ts, h1, fun hv => ?_⟩
      obtain ⟨hnd, hmem, hsem⟩ := merge_layers_features _ _ hv h2
      have hperm := sortByName_perm ls
      have hnperm : (names (sortByName ls)).Perm (names ls) := List.Perm.map _ hperm
      refine ⟨sorted_strict _ (sortByName_sorted ls) (hnperm.nodup_iff.mpr hnd), ?_, ?_⟩
      · intro n
        rw [← hmem n]
        exact hnperm.mem_iff
      · intro l hl
        exact hsem l (hperm.subset hl)

/-- the order of the output layers does not depend on the order of the sources -/
theorem merged_order_canonical (a b : List Layer) (h : a.Perm b) (hnd : (names a).Nodup) :
    names (sortByName a) = names (sortByName b) := by
  have ha := sorted_strict _ (sortByName_sorted a) ((List.Perm.map _ (sortByName_perm a)).nodup_iff.mpr hnd)
  have hndb : (names b).Nodup := (List.Perm.map _ h).nodup_iff.mp hnd
  have hb := sorted_strict _ (sortByName_sorted b) ((List.Perm.map _ (sortByName_perm b)).nodup_iff.mpr hndb)
  have hp : (names (sortByName a)).Perm (names (sortByName b)) :=
    ((List.Perm.map _ (sortByName_perm a)).trans (List.Perm.map _ h)).trans (List.Perm.map _ (sortByName_perm b)).symm
  exact List.Perm.eq_of_pairwise (fun x y _ _ hxy hyx => by
    have := bytesLt_asymm _ _ hxy; rw [hyx] at this; exact absurd this (by simp)) ha hb hp

end VtProps.C10
