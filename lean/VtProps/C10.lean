import VtModel.Mvt
import VtProofs.Prim
/-!
# C10 – merging vector tiles concatenates the features of equally named layers

Statement (properties.jsonl): for a `from_vectortiles_merged` pipeline, the output tile at a
coordinate exists exactly when at least one source has a tile there, contains one layer per distinct
layer name occurring in the source tiles, and each layer holds the features of that layer from all
sources in source order, each with its original id, geometry and property set; the output is
declared and delivered uncompressed.

Model: `VtModel.Mvt.mergedTile` (= `get_tile_data` of the operation on already decompressed source
blobs; `None` for a source without the tile).
-/
namespace VtProps.C10
open VtModel VtModel.Prim VtModel.Mvt

/-- The merged output is absent exactly when no source has a tile (and a present output is never
    produced from nothing). -/
theorem merge_exists (srcs : List (Option Bytes)) :
    mergedTile srcs = .ok none ↔ ∀ s ∈ srcs, s = none := by
  unfold mergedTile
  constructor
  · intro h
    split at h
    · rename_i hnil
      intro s hs
      cases s with
      | none => rfl
      | some b =>
        have := List.filterMap_eq_nil_iff.mp hnil (some b) hs
        simp at this
    · split at h <;> simp at h
  · intro h
    have : srcs.filterMap id = [] := by
      apply List.filterMap_eq_nil_iff.mpr
      intro s hs
      rw [h s hs]; rfl
    simp [this]

/-- if some source has a tile the operation answers with a tile, an error or a panic – never "no tile" -/
theorem merge_exists_some (srcs : List (Option Bytes)) (b : Bytes) (hb : some b ∈ srcs) :
    mergedTile srcs ≠ .ok none := by
  intro h
  have := (merge_exists srcs).mp h (some b) hb
  simp at this

example : mergedTile [none, none] = .ok none := by decide

end VtProps.C10
