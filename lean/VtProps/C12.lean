import VtProofs.Crash
/-!
# C12 — an interrupted write never leaves a file that opens as a valid, wrong container

Theorems about `VtModel.Crash`: for the operation sequences of both writers, for ALL blobs they
append (every tile set, metadata, compression), and for EVERY crash state `(i, k)` (operations
`0..i-1` complete, `k` bytes of operation `i` on disk):

* versatiles (`versatiles_crash_safe`): the open fails, or the bytes on disk are exactly the bytes
  of the completed file;
* pmtiles (`pmtiles_crash_safe`): the open fails, or the file agrees with the completed file on the
  first 99 header bytes (all ranges, counts, both compressions) and on everything behind the
  header – only header bytes 99..127 (tile type, zoom range, bounds, centre) may still be zero.
  `pmtiles_lookup_frame`: every lookup function that depends only on those parts returns the same
  as on the completed file.  That the real lookup (`get_tile_data`) has this frame property is
  left to the correspondence (all tiles are compared for all cuts): full statement
  `open s = err ∨ ∀ c, lookup s c = tiles c` needs the container round-trip theorem (C01).

Assumptions (tested by the harness on the real crates for the real blobs): brotli rejects the
empty input and every strict prefix of the block index stream.
-/
namespace VtProps.C12
open VtModel.Crash
open VtModel.Fmt (Bytes beDec beEnc leDec leEnc)

/-! ### crash states from an arbitrary writer state -/

def crashFrom (w : W) (ops : List Op) (i k : Nat) : Bytes :=
  match ops[i]? with
  | none => (ops.foldl W.apply w).file
  | some op => (((ops.take i).foldl W.apply w).applyCut op k).file

theorem crash_eq (ops : List Op) (i k : Nat) : crash ops i k = crashFrom W.empty ops i k := rfl

theorem crashFrom_cons (w : W) (op : Op) (ops : List Op) (i k : Nat) :
    crashFrom w (op :: ops) (i + 1) k = crashFrom (w.apply op) ops i k := by
  simp [crashFrom]

theorem crashFrom_append_lt (w : W) (xs ys : List Op) (i k : Nat) (h : i < xs.length) :
    crashFrom w (xs ++ ys) i k = crashFrom w xs i k := by
  unfold crashFrom
  rw [List.getElem?_append_left h]
  have h2 : xs[i]? = some xs[i] := List.getElem?_eq_getElem h
  rw [h2]
  simp only
  rw [List.take_append_of_le_length (Nat.le_of_lt h)]

theorem crashFrom_append_ge (w : W) (xs ys : List Op) (i k : Nat) (h : xs.length ≤ i) :
    crashFrom w (xs ++ ys) i k = crashFrom (xs.foldl W.apply w) ys (i - xs.length) k := by
  unfold crashFrom
  rw [List.getElem?_append_right h]
  cases ys[i - xs.length]? with
  | none => simp [List.foldl_append]
  | some op =>
    simp only
    rw [List.take_append, List.take_of_length_le h, List.foldl_append]

/-! ### pmtiles -/

/-- the header region is still all zeros (or not there yet) -/
def HeadZero (f : Bytes) : Prop := ∀ i, i < 127 → f[i]?.getD 0 = 0

def SafeOp : Op → Prop
  | .append _ => True
  | .setPosition p => 127 ≤ p
  | .writeStart _ => False
  | .truncate => False

structure J (w : W) : Prop where
  hz : HeadZero w.file
  pos : 127 ≤ w.pos

theorem applyCut_safe {w : W} (h : J w) {op : Op} (hs : SafeOp op) (k : Nat) : J (w.applyCut op k) := by
  cases op with
  | append b =>
    simp only [W.applyCut]
    split
    · exact h
    · refine ⟨fun i hi => ?_, by simp; have := h.pos; omega⟩
      simp only []
      rw [getElem?_writeAt_lt _ _ _ _ (by have := h.pos; omega)]
      exact h.hz i hi
  | writeStart b => exact absurd hs (by simp [SafeOp])
  | truncate => exact absurd hs (by simp [SafeOp])
  | setPosition p =>
    simp only [W.applyCut]
    split
    · exact h
    · exact ⟨h.hz, hs⟩

theorem foldl_safe {w : W} (h : J w) (ops : List Op) (hs : ∀ op ∈ ops, SafeOp op) : J (ops.foldl W.apply w) := by
  induction ops generalizing w with
  | nil => exact h
  | cons op ops ih =>
    exact ih (applyCut_safe h (hs op (by simp)) _) (fun o ho => hs o (by simp [ho]))

theorem crashFrom_safe {w : W} (h : J w) (ops : List Op) (hs : ∀ op ∈ ops, SafeOp op) (i k : Nat) :
    HeadZero (crashFrom w ops i k) := by
  unfold crashFrom
  cases hg : ops[i]? with
  | none => exact (foldl_safe h ops hs).hz
  | some op =>
    have hm : op ∈ ops := List.mem_of_getElem? hg
    exact (applyCut_safe (foldl_safe h (ops.take i) (fun o ho => hs o (List.mem_of_mem_take ho))) (hs op hm) k).hz

/-- with the tile-compression byte (offset 98) still zero the open fails:
    `PMTilesCompression::Unknown.as_value()` is an error -/
theorem openP_none_of_byte98 (dec : Dec) (file : Bytes) (h : file[98]?.getD 0 = 0) : openP dec file = none := by
  unfold openP
  cases hs : slice file 0 127 with
  | none => rfl
  | some hd =>
    have hhd : hd = file.take 127 := by
      unfold slice at hs
      split at hs
      · simpa using hs.symm
      · cases hs
    have htc : (hd.drop 98).headD 0 = 0 := by
      rw [headD_drop, hhd, List.getElem?_take_of_lt (by omega)]; exact h
    simp only [Option.bind_some, htc, compOfCodeP, Option.map_none, bind_const_none]
    split
    · rfl
    · split
      · rfl
      · split
        · rfl
        · cases compOfCodeP ((hd.drop 97).headD 0).toNat <;> simp

theorem openP_none_of_headZero (dec : Dec) (file : Bytes) (h : HeadZero file) : openP dec file = none :=
  openP_none_of_byte98 dec file (h 98 (by omega))

/-- core of C12 for pmtiles (reader-independent form: byte 98, the tile compression, is still zero
    or absent, or the lookup-relevant part is complete): the writer first moves away from the header region
    (`set_position p0`, `p0 ≥ 127`), then only appends / repositions behind the header, and writes
    the 127-byte header last.  Every crash state fails to open or has the completed file's
    lookup-relevant part. -/
theorem pmtiles_crash_core (p0 : Nat) (hp0 : 127 ≤ p0) (body : List Op)
    (hbody : ∀ op ∈ body, SafeOp op) (hdr : Bytes) (hlen : hdr.length = 127) (i k : Nat) :
    let ops := Op.setPosition p0 :: (body ++ [Op.writeStart hdr])
    (crash ops i k)[98]?.getD 0 = 0 ∨ coreP (crash ops i k) = coreP (run ops).file := by
  intro ops
  have hrun : (run ops).file = crashFrom W.empty ops (ops.length) 0 := by
    simp [crashFrom, run]
  cases i with
  | zero =>
    left
    simp [ops, crash, W.applyCut, W.empty, run]
    split <;> simp
  | succ i =>
    have hw0 : J (W.empty.apply (.setPosition p0)) := by
      refine ⟨fun j _ => ?_, ?_⟩ <;> simp [W.apply, W.applyCut, Op.size, W.empty]
      exact hp0
    rw [crash_eq, crashFrom_cons]
    by_cases hi : i < body.length
    · left
      rw [crashFrom_append_lt _ _ _ _ _ hi]
      exact crashFrom_safe hw0 body hbody i k 98 (by omega)
    · have hi' : body.length ≤ i := Nat.le_of_not_lt hi
      rw [crashFrom_append_ge _ _ _ _ _ hi']
      have hJ := foldl_safe hw0 body hbody
      generalize hF : body.foldl W.apply (W.empty.apply (.setPosition p0)) = wF at hJ
      have hfinal : (run ops).file = hdr ++ wF.file.drop 127 := by
        simp only [ops, run, List.foldl_cons, List.foldl_append, List.foldl_nil]
        rw [show W.empty.apply (.setPosition p0) = W.empty.apply (.setPosition p0) from rfl, hF]
        simp only [W.apply, W.applyCut, Op.size, List.take_length]
        split
        · rename_i he; simp at he; rw [he] at hlen; simp at hlen
        · simp [writeAt_zero, hlen]
      cases hd : i - body.length with
      | succ d =>
        right
        simp only [crashFrom]
        simp only [List.getElem?_cons_succ, List.getElem?_nil, List.foldl_cons, List.foldl_nil]
        rw [hfinal]
        simp only [W.apply, W.applyCut, Op.size, List.take_length]
        split
        · rename_i he; simp at he; rw [he] at hlen; simp at hlen
        · simp [writeAt_zero, hlen]
      | zero =>
        simp only [crashFrom, List.getElem?_cons_zero, List.take_zero, List.foldl_nil, W.applyCut]
        split
        · left; exact hJ.hz 98 (by omega)
        · rename_i hne
          simp only [writeAt_zero]
          have hkl : (hdr.take k).length = min k 127 := by simp [hlen]
          by_cases hk : k ≤ 98
          · left
            rw [List.getElem?_append_right (by rw [hkl]; omega), List.getElem?_drop]
            have : (hdr.take k).length + (98 - (hdr.take k).length) = 98 := by rw [hkl]; omega
            rw [this]
            exact hJ.hz 98 (by omega)
          · right
            rw [hfinal]
            have hk' : 99 ≤ k := by omega
            simp only [coreP]
            congr 1
            · rw [List.take_append_of_le_length (by rw [hkl]; omega),
                  List.take_append_of_le_length (by omega), List.take_take]
              congr 1; omega
            · rw [List.drop_append, List.drop_append, hkl, hlen]
              have e1 : (hdr.take k).drop 127 = [] := by
                apply List.drop_eq_nil_of_le; rw [hkl]; omega
              have e2 : hdr.drop 127 = [] := by apply List.drop_eq_nil_of_le; omega
              rw [e1, e2, List.drop_drop]
              simp only [List.nil_append, Nat.sub_self, List.drop_zero]
              congr 1; omega

/-- **C12, pmtiles** (general form): the writer first moves away from the header region
    (`set_position p0`, `p0 ≥ 127`), then only appends / repositions behind the header, and writes
    the 127-byte header last.  Every crash state fails to open or has the completed file's
    lookup-relevant part. -/
theorem pmtiles_crash_safe_general (dec : Dec) (p0 : Nat) (hp0 : 127 ≤ p0) (body : List Op)
    (hbody : ∀ op ∈ body, SafeOp op) (hdr : Bytes) (hlen : hdr.length = 127) (i k : Nat) :
    let ops := Op.setPosition p0 :: (body ++ [Op.writeStart hdr])
    openP dec (crash ops i k) = none ∨ coreP (crash ops i k) = coreP (run ops).file := by
  intro ops
  rcases pmtiles_crash_core p0 hp0 body hbody hdr hlen i k with h | h
  · exact Or.inl (openP_none_of_byte98 dec _ h)
  · exact Or.inr h

/-- the operation sequence of the real `PMTilesWriter` has the general form -/
theorem opsP_shape (metaC : Bytes) (tiles : List Bytes) (rootC leavesC hdr : Bytes) :
    opsP metaC tiles rootC leavesC hdr =
      Op.setPosition 16384 ::
        (([Op.append metaC] ++ tiles.map Op.append ++
          [.setPosition 127, .append rootC, .setPosition (16384 + metaC.length + tiles.flatten.length),
           .append leavesC]) ++ [Op.writeStart hdr]) := by
  simp [opsP]

/-- **C12, pmtiles**: for every metadata, every list of tile blobs, every root / leaf directory
    and every 127-byte header, every crash state of `PMTilesWriter::write_to_writer` fails to
    open or agrees with the completed file on everything a lookup depends on. -/
theorem pmtiles_crash_safe (dec : Dec) (metaC : Bytes) (tiles : List Bytes) (rootC leavesC hdr : Bytes)
    (hlen : hdr.length = 127) (i k : Nat) :
    let ops := opsP metaC tiles rootC leavesC hdr
    openP dec (crash ops i k) = none ∨ coreP (crash ops i k) = coreP (run ops).file := by
  intro ops
  have := pmtiles_crash_safe_general dec 16384 (by omega)
    ([Op.append metaC] ++ tiles.map Op.append ++
      [.setPosition 127, .append rootC, .setPosition (16384 + metaC.length + tiles.flatten.length),
       .append leavesC]) ?_ hdr hlen i k
  · simpa only [ops, opsP_shape] using this
  · intro op hop
    simp only [List.mem_append, List.mem_cons, List.mem_map, List.mem_nil_iff, or_false] at hop
    rcases hop with (rfl | ⟨b, _, rfl⟩) | rfl | rfl | rfl | rfl <;> simp [SafeOp]
    omega

/-- every lookup that depends only on the first 99 header bytes and on the bytes behind the header
    gives, on a crash state that opens, what it gives on the completed file -/
theorem pmtiles_lookup_frame {α : Type} (look : Bytes → α)
    (hframe : ∀ f g, coreP f = coreP g → look f = look g)
    (dec : Dec) (metaC : Bytes) (tiles : List Bytes) (rootC leavesC hdr : Bytes)
    (hlen : hdr.length = 127) (i k : Nat) :
    let ops := opsP metaC tiles rootC leavesC hdr
    openP dec (crash ops i k) = none ∨ look (crash ops i k) = look (run ops).file := by
  intro ops
  rcases pmtiles_crash_safe dec metaC tiles rootC leavesC hdr hlen i k with h | h
  · exact Or.inl h
  · exact Or.inr (hframe _ _ h)


/-! ### versatiles -/

/-- writer invariant while only appending from the start: the position is the end of the file -/
def AtEnd (w : W) : Prop := w.pos = w.file.length

theorem applyCut_append_atEnd {w : W} (h : AtEnd w) (b : Bytes) (k : Nat) :
    AtEnd (w.applyCut (.append b) k) ∧ (w.applyCut (.append b) k).file = w.file ++ b.take k := by
  simp only [W.applyCut]
  split
  · rename_i he
    have : b.take k = [] := by simpa using he
    exact ⟨h, by rw [this]; simp⟩
  · unfold AtEnd at h
    rw [h, writeAt_end]
    exact ⟨by simp [AtEnd], rfl⟩

theorem foldl_appends {w : W} (h : AtEnd w) (bs : List Bytes) :
    AtEnd ((bs.map Op.append).foldl W.apply w) ∧
    ((bs.map Op.append).foldl W.apply w).file = w.file ++ bs.flatten := by
  induction bs generalizing w with
  | nil => exact ⟨h, by simp⟩
  | cons b bs ih =>
    obtain ⟨h1, h2⟩ := applyCut_append_atEnd h b (Op.append b).size
    simp only [List.map_cons, List.foldl_cons, List.flatten_cons]
    obtain ⟨h3, h4⟩ := ih (w := w.apply (.append b)) h1
    refine ⟨h3, ?_⟩
    rw [h4]
    show (w.applyCut (.append b) (Op.append b).size).file ++ _ = _
    rw [h2]
    simp [Op.size]

/-- a crash inside a run of appends leaves a prefix of the completed concatenation -/
theorem crashFrom_appends_prefix (bs : List Bytes) (i k : Nat) :
    crashFrom W.empty (bs.map Op.append) i k <+: bs.flatten := by
  unfold crashFrom
  have h0 : AtEnd W.empty := rfl
  cases hg : (bs.map Op.append)[i]? with
  | none =>
    simp only
    rw [(foldl_appends h0 bs).2]
    simp [W.empty]
  | some op =>
    simp only
    rw [List.getElem?_map] at hg
    cases hb : bs[i]? with
    | none => rw [hb] at hg; cases hg
    | some b =>
      rw [hb] at hg
      simp only [Option.map_some, Option.some.injEq] at hg
      subst hg
      rw [← List.map_take]
      obtain ⟨h1, h2⟩ := foldl_appends h0 (bs.take i)
      rw [(applyCut_append_atEnd h1 b k).2, h2]
      simp only [W.empty, List.nil_append]
      have hi : i < bs.length := by
        rcases Nat.lt_or_ge i bs.length with h | h
        · exact h
        · rw [List.getElem?_eq_none h] at hb; cases hb
      have hsplit : bs = bs.take i ++ b :: bs.drop (i + 1) := by
        have hb' : bs[i] = b := by
          have := List.getElem?_eq_getElem hi
          rw [this] at hb; exact Option.some.inj hb
        rw [← hb']
        exact (List.take_append_drop i bs).symm.trans (by rw [List.drop_eq_getElem_cons hi])
      conv => rhs; rw [hsplit]
      rw [List.flatten_append, List.flatten_cons]
      refine (List.prefix_append_right_inj _).mpr ?_
      exact List.IsPrefix.trans (List.take_prefix k b) (List.prefix_append _ _)

theorem drop_take_mid (x y z : Bytes) (n m : Nat) (hx : x.length = n) (hy : y.length = m) :
    ((x ++ y ++ z).drop n).take m = y := by
  subst hx; subst hy
  simp [List.append_assoc]

/-- the four range fields of a 66-byte header -/
theorem header_fields (pre a b c d : Bytes) (hp : pre.length = 34) (ha : a.length = 8) (hb : b.length = 8)
    (hc : c.length = 8) (hd : d.length = 8) :
    let h := pre ++ a ++ b ++ c ++ d
    (h.drop 34).take 8 = a ∧ (h.drop 42).take 8 = b ∧ (h.drop 50).take 8 = c ∧ (h.drop 58).take 8 = d := by
  intro h
  refine ⟨?_, ?_, ?_, ?_⟩
  · have e : h = pre ++ a ++ (b ++ c ++ d) := by simp [h, List.append_assoc]
    rw [e]; exact drop_take_mid _ _ _ _ _ hp ha
  · have e : h = (pre ++ a) ++ b ++ (c ++ d) := by simp [h, List.append_assoc]
    rw [e]; exact drop_take_mid _ _ _ _ _ (by simp [hp, ha]) hb
  · have e : h = (pre ++ a ++ b) ++ c ++ d := by simp [h, List.append_assoc]
    rw [e]; exact drop_take_mid _ _ _ _ _ (by simp [hp, ha, hb]) hc
  · have e : h = (pre ++ a ++ b ++ c) ++ d ++ [] := by simp [h, List.append_assoc]
    rw [e]; exact drop_take_mid _ _ _ _ _ (by simp [hp, ha, hb, hc]) hd

/-- if the block-index step fails, the open fails (whatever the earlier steps do) -/
theorem openV_none_of_index (dec : Dec) (file : Bytes)
    (h : ∀ hd, slice file 0 66 = some hd →
      indexStepV dec file (beDec ((hd.drop 50).take 8)) (beDec ((hd.drop 58).take 8)) = none) :
    openV dec file = none := by
  unfold openV
  cases hs : slice file 0 66 with
  | none => rfl
  | some hd =>
    simp only [Option.bind_some, h hd hs, Option.map_none, bind_const_none]
    split
    · rfl
    · split
      · rfl
      · cases compOfCodeV ((hd.drop 15).headD 0).toNat <;> simp

theorem slice_zero_66 {file hd : Bytes} (h : slice file 0 66 = some hd) : hd = file.take 66 ∧ 66 ≤ file.length := by
  unfold slice at h
  split at h
  · rename_i hl
    exact ⟨by simpa using h.symm, by omega⟩
  · cases h

/-- a zero-length block index is rejected (`dec_nil`) -/
theorem indexStep_len_zero (dec : Dec) (hnil : dec .brotli [] = none) (file : Bytes) (off : Nat) :
    indexStepV dec file off 0 = none := by
  unfold indexStepV slice
  split
  · simp [hnil]
  · rfl

/-- the completed file of the versatiles operation sequence -/
theorem run_opsV (pre metaC : Bytes) (mid : List Bytes) (idxC : Bytes) (hpre : pre.length = 34) :
    (run (opsV pre metaC mid idxC)).file =
      headerV pre 66 metaC.length (66 + metaC.length + mid.flatten.length) idxC.length ++
        (metaC ++ mid.flatten ++ idxC) := by
  let hdr0 := headerV pre 0 0 0 0
  let hdrF := headerV pre 66 metaC.length (66 + metaC.length + mid.flatten.length) idxC.length
  let bs : List Bytes := hdr0 :: metaC :: (mid ++ [idxC])
  have hops : opsV pre metaC mid idxC = bs.map Op.append ++ [Op.writeStart hdrF] := by
    simp [opsV, bs, hdr0, hdrF]
  have hflat : bs.flatten = hdr0 ++ (metaC ++ mid.flatten ++ idxC) := by
    simp [bs, List.append_assoc]
  have h0len : hdr0.length = 66 := by simp [hdr0, headerV, beEnc_length, hpre]
  have hFlen : hdrF.length = 66 := by simp [hdrF, headerV, beEnc_length, hpre]
  have hA := (foldl_appends (w := W.empty) rfl bs).2
  rw [hflat] at hA
  simp only [W.empty, List.nil_append] at hA
  generalize hwA : (bs.map Op.append).foldl W.apply { file := [], pos := 0 } = wA at hA
  simp only [run, hops, List.foldl_append, List.foldl_cons, List.foldl_nil, W.empty, hwA]
  simp only [W.apply, W.applyCut, Op.size, List.take_length]
  split
  · rename_i he; simp at he; rw [he] at hFlen; simp at hFlen
  · rw [writeAt_zero, hA]
    simp [hFlen, h0len, -List.length_flatten]
    rfl

/-- the block-index step of the open fails (whatever the header says otherwise) -/
def IndexFails (dec : Dec) (s : Bytes) : Prop :=
  ∀ hd, slice s 0 66 = some hd →
    indexStepV dec s (beDec ((hd.drop 50).take 8)) (beDec ((hd.drop 58).take 8)) = none

/-- core of C12 for versatiles (reader-independent form): for every 34-byte header prefix, every metadata blob, every sequence of
    appended tile / tile-index blobs and every block index stream `idxC`, if brotli rejects the
    empty input and every strict prefix of `idxC`, then every crash state of
    `VersaTilesWriter::write_to_writer` fails to open or is byte-identical to the completed file. -/
theorem versatiles_crash_index (dec : Dec) (pre metaC : Bytes) (mid : List Bytes) (idxC : Bytes)
    (hpre : pre.length = 34)
    (hoff : 66 + metaC.length + mid.flatten.length < 256 ^ 8) (hlen : idxC.length < 256 ^ 8)
    (hnil : dec .brotli [] = none)
    (hprefix : ∀ p, p <+: idxC → p ≠ idxC → dec .brotli p = none)
    (i k : Nat) :
    let ops := opsV pre metaC mid idxC
    IndexFails dec (crash ops i k) ∨ crash ops i k = (run ops).file := by
  intro ops
  -- the appended blobs and the two headers
  let hdr0 := headerV pre 0 0 0 0
  let boff := 66 + metaC.length + mid.flatten.length
  let hdrF := headerV pre 66 metaC.length boff idxC.length
  let bs : List Bytes := hdr0 :: metaC :: (mid ++ [idxC])
  let rest := metaC ++ mid.flatten ++ idxC
  have hops : ops = bs.map Op.append ++ [Op.writeStart hdrF] := by
    simp [ops, opsV, bs, hdr0, hdrF, boff]
  have hflat : bs.flatten = hdr0 ++ rest := by
    simp [bs, rest, List.append_assoc]
  have h0len : hdr0.length = 66 := by simp [hdr0, headerV, beEnc_length, hpre]
  have hFlen : hdrF.length = 66 := by simp [hdrF, headerV, beEnc_length, hpre]
  have hrest : rest.drop (boff - 66) = idxC := by
    have : boff - 66 = (metaC ++ mid.flatten).length := by simp [boff]; omega
    rw [this]; simp [rest]
  -- state after all appends
  have hA := (foldl_appends (w := W.empty) rfl bs).2
  rw [hflat] at hA
  simp only [W.empty, List.nil_append] at hA
  generalize hwA : (bs.map Op.append).foldl W.apply { file := [], pos := 0 } = wA at hA
  have hfinal : (run ops).file = hdrF ++ rest := by
    simp only [run, hops, List.foldl_append, List.foldl_cons, List.foldl_nil, W.empty, hwA]
    simp only [W.apply, W.applyCut, Op.size, List.take_length]
    split
    · rename_i he; simp at he; rw [he] at hFlen; simp at hFlen
    · rw [writeAt_zero, hA]
      simp [hFlen, h0len]
  -- a state whose first 66 bytes are the provisional header does not open
  have hprov : ∀ s : Bytes, s <+: hdr0 ++ rest → IndexFails dec s := by
    intro s hs
    intro hd hhd
    obtain ⟨e, hl⟩ := slice_zero_66 hhd
    have hd0 : hd = hdr0 := by
      obtain ⟨t, ht⟩ := hs
      have h1 : (s ++ t).take 66 = s.take 66 := List.take_append_of_le_length hl
      have h2 : (hdr0 ++ rest).take 66 = hdr0 := by
        rw [List.take_append_of_le_length (by omega), List.take_of_length_le (by omega)]
      rw [e, ← h1, ht, h2]
    have hf := header_fields pre (beEnc 8 0) (beEnc 8 0) (beEnc 8 0) (beEnc 8 0) hpre
      (beEnc_length _ _) (beEnc_length _ _) (beEnc_length _ _) (beEnc_length _ _)
    rw [hd0]
    show indexStepV dec s (beDec (((headerV pre 0 0 0 0).drop 50).take 8)) (beDec (((headerV pre 0 0 0 0).drop 58).take 8)) = none
    unfold headerV
    rw [hf.2.2.2, beEnc_zero, beDec_zeros]
    exact indexStep_len_zero dec hnil s _
  rw [crash_eq, hops]
  simp only [W.empty]
  by_cases hi : i < (bs.map Op.append).length
  · left
    rw [crashFrom_append_lt _ _ _ _ _ hi]
    have := crashFrom_appends_prefix bs i k
    rw [hflat] at this
    exact hprov _ this
  · have hi' : (bs.map Op.append).length ≤ i := Nat.le_of_not_lt hi
    rw [crashFrom_append_ge _ _ _ _ _ hi', hwA]
    have hfinal' : (run (bs.map Op.append ++ [Op.writeStart hdrF])).file = hdrF ++ rest := by
      rw [← hops]; exact hfinal
    rw [hfinal']
    cases hd : i - (bs.map Op.append).length with
    | succ d =>
      right
      simp only [crashFrom, List.getElem?_cons_succ, List.getElem?_nil, List.foldl_cons, List.foldl_nil]
      simp only [W.apply, W.applyCut, Op.size, List.take_length]
      split
      · rename_i he; simp at he; rw [he] at hFlen; simp at hFlen
      · rw [writeAt_zero, hA]
        simp [hFlen, h0len]
    | zero =>
      simp only [crashFrom, List.getElem?_cons_zero, List.take_zero, List.foldl_nil, W.applyCut]
      rw [hA]
      split
      · left; exact hprov _ (by rw [hA]; exact List.prefix_refl _)
      · simp only [writeAt_zero]
        -- s = hdrF.take k ++ (hdr0 ++ rest).drop (min k 66)
        by_cases hk66 : 66 ≤ k
        · right
          rw [List.take_of_length_le (by omega), hFlen, List.drop_append, h0len,
              List.drop_eq_nil_of_le (by omega)]
          simp
        · have hk : k < 66 := Nat.lt_of_not_le hk66
          have hkl : (hdrF.take k).length = k := by simp [hFlen]; omega
          have hs : hdrF.take k ++ (hdr0 ++ rest).drop (hdrF.take k).length
              = (hdrF.take k ++ hdr0.drop k) ++ rest := by
            rw [hkl, List.drop_append, h0len]
            have : k - 66 = 0 := by omega
            rw [this, List.drop_zero, List.append_assoc]
          rw [hs]
          -- torn header H = hdrF.take k ++ hdr0.drop k, 66 bytes
          generalize hH : hdrF.take k ++ hdr0.drop k = H
          have hHlen : H.length = 66 := by rw [← hH]; simp [hkl, h0len]; omega
          have hslice : ∀ hd, slice (H ++ rest) 0 66 = some hd → hd = H := by
            intro hd hhd
            rw [(slice_zero_66 hhd).1, List.take_append_of_le_length (by omega),
                List.take_of_length_le (by omega)]
          by_cases hk58 : k ≤ 58
          · -- the block-index length field is still zero
            left
            intro hd hhd
            rw [hslice hd hhd]
            have hz : (H.drop 58).take 8 = zeros 8 := by
              rw [← hH, List.drop_append, hkl, List.drop_eq_nil_of_le (by rw [hkl]; omega), List.nil_append,
                  List.drop_drop]
              have : k + (58 - k) = 58 := by omega
              rw [this]
              have hf := header_fields pre (beEnc 8 0) (beEnc 8 0) (beEnc 8 0) (beEnc 8 0) hpre
                (beEnc_length _ _) (beEnc_length _ _) (beEnc_length _ _) (beEnc_length _ _)
              show ((headerV pre 0 0 0 0).drop 58).take 8 = zeros 8
              unfold headerV
              rw [hf.2.2.2, beEnc_zero]
            rw [hz, beDec_zeros]
            exact indexStep_len_zero dec hnil _ _
          · -- inside the length field of the block index: a big-endian prefix
            have hk58' : 58 < k := Nat.lt_of_not_le hk58
            let A := beEnc 8 66
            let B := beEnc 8 metaC.length
            let C := beEnc 8 boff
            let D := beEnc 8 idxC.length
            let D' := D.take (k - 58) ++ zeros (D.length - (k - 58))
            have hDl : D.length = 8 := beEnc_length _ _
            have hD'l : D'.length = 8 := by simp [D', hDl]; omega
            have hHeq : H = pre ++ A ++ B ++ C ++ D' := by
              have e1 : hdrF = (pre ++ A ++ B ++ C) ++ D := rfl
              have e0 : hdr0 = (pre ++ beEnc 8 0 ++ beEnc 8 0 ++ beEnc 8 0) ++ beEnc 8 0 := rfl
              have l1 : (pre ++ A ++ B ++ C).length = 58 := by simp [A, B, C, beEnc_length, hpre]
              have l0 : (pre ++ beEnc 8 0 ++ beEnc 8 0 ++ beEnc 8 0).length = 58 := by simp [beEnc_length, hpre]
              have t1 : hdrF.take k = (pre ++ A ++ B ++ C) ++ D.take (k - 58) := by
                rw [e1, List.take_append, l1, List.take_of_length_le (by rw [l1]; omega)]
              have t0 : hdr0.drop k = zeros (D.length - (k - 58)) := by
                rw [e0, List.drop_append, l0, List.drop_eq_nil_of_le (by rw [l0]; omega), List.nil_append,
                    beEnc_zero, hDl]
                simp only [zeros, List.drop_replicate]
              rw [← hH, t1, t0, List.append_assoc]
            have hf := header_fields pre A B C D' hpre (beEnc_length _ _) (beEnc_length _ _) (beEnc_length _ _) hD'l
            obtain ⟨hle, heq⟩ := torn_be D (k - 58)
            have hDv : beDec D = idxC.length := beDec_beEnc 8 _ hlen
            have hCv : beDec C = boff := beDec_beEnc 8 _ hoff
            by_cases hv : beDec D' = idxC.length
            · right
              have : D' = D := heq (by rw [hv, hDv])
              rw [hHeq, this]
              rfl
            · left
              intro hd hhd
              rw [hslice hd hhd, hHeq, hf.2.2.1, hf.2.2.2, hCv]
              have hvlt : beDec D' < idxC.length := by
                have : beDec D' ≤ idxC.length := by rw [← hDv]; exact hle
                omega
              unfold indexStepV slice
              have hlen_total : (pre ++ A ++ B ++ C ++ D' ++ rest).length = boff + idxC.length := by
                simp [A, B, C, hD'l, beEnc_length, hpre, rest, boff]; omega
              rw [if_pos (by rw [hlen_total]; omega)]
              simp only [Option.bind_some]
              have hdrop : (pre ++ A ++ B ++ C ++ D' ++ rest).drop boff = idxC := by
                rw [List.drop_append]
                have l66 : (pre ++ A ++ B ++ C ++ D').length = 66 := by simp [A, B, C, hD'l, beEnc_length, hpre]
                rw [List.drop_eq_nil_of_le (by rw [l66]; simp [boff]; omega), l66, List.nil_append]
                exact hrest
              rw [hdrop]
              apply hprefix
              · exact List.take_prefix _ _
              · intro he
                have := congrArg List.length he
                simp at this
                omega

/-- **C12, versatiles**: for every 34-byte header prefix, every metadata blob, every sequence of
    appended tile / tile-index blobs and every block index stream `idxC`, if brotli rejects the
    empty input and every strict prefix of `idxC`, then every crash state of
    `VersaTilesWriter::write_to_writer` fails to open or is byte-identical to the completed file. -/
theorem versatiles_crash_safe (dec : Dec) (pre metaC : Bytes) (mid : List Bytes) (idxC : Bytes)
    (hpre : pre.length = 34)
    (hoff : 66 + metaC.length + mid.flatten.length < 256 ^ 8) (hlen : idxC.length < 256 ^ 8)
    (hnil : dec .brotli [] = none)
    (hprefix : ∀ p, p <+: idxC → p ≠ idxC → dec .brotli p = none)
    (i k : Nat) :
    let ops := opsV pre metaC mid idxC
    openV dec (crash ops i k) = none ∨ crash ops i k = (run ops).file := by
  intro ops
  rcases versatiles_crash_index dec pre metaC mid idxC hpre hoff hlen hnil hprefix i k with h | h
  · exact Or.inl (openV_none_of_index dec _ h)
  · exact Or.inr h

/-! ### writing over an existing file

`DataWriterFile::from_path` uses `File::create`, which empties an existing file before the first
operation: the run is `truncate :: ops` on the old bytes.  Until the truncation has happened the
old file is untouched (`s = old`); afterwards everything is as on a fresh path – for EVERY `old`.
Without the truncation the old header survives (`no_truncate_header_survives`,
`no_truncate_unsafe`). -/

theorem crashOn_eq (old : Bytes) (ops : List Op) (i k : Nat) :
    crashOn old ops i k = crashFrom { file := old, pos := 0 } ops i k := rfl

theorem crashOn_truncate (old : Bytes) (ops : List Op) (i k : Nat) :
    crashOn old (.truncate :: ops) (i + 1) k = crash ops i k := by
  rw [crashOn_eq, crashFrom_cons, crash_eq]
  rfl

theorem runOn_truncate (old : Bytes) (ops : List Op) : runOn old (.truncate :: ops) = run ops := rfl

theorem crashOn_truncate_zero (old : Bytes) (ops : List Op) (k : Nat) :
    crashOn old (.truncate :: ops) 0 k = old ∨ crashOn old (.truncate :: ops) 0 k = [] := by
  simp only [crashOn, List.getElem?_cons_zero, List.take_zero, List.foldl_nil, W.applyCut]
  split
  · exact Or.inl rfl
  · exact Or.inr rfl

/-- **C12, versatiles, over any existing file**: every crash state is the untouched old file
    (the writer has not been created yet), or fails to open, or is the completed new file. -/
theorem versatiles_overwrite_safe (dec : Dec) (old pre metaC : Bytes) (mid : List Bytes) (idxC : Bytes)
    (hpre : pre.length = 34)
    (hoff : 66 + metaC.length + mid.flatten.length < 256 ^ 8) (hlen : idxC.length < 256 ^ 8)
    (hnil : dec .brotli [] = none)
    (hprefix : ∀ p, p <+: idxC → p ≠ idxC → dec .brotli p = none)
    (i k : Nat) :
    let ops := Op.truncate :: opsV pre metaC mid idxC
    crashOn old ops i k = old ∨ openV dec (crashOn old ops i k) = none ∨
      crashOn old ops i k = (runOn old ops).file := by
  intro ops
  cases i with
  | zero =>
    rcases crashOn_truncate_zero old (opsV pre metaC mid idxC) k with h | h
    · exact Or.inl h
    · right; left
      show openV dec (crashOn old (Op.truncate :: opsV pre metaC mid idxC) 0 k) = none
      rw [h]; simp [openV, slice]
  | succ i =>
    right
    show openV dec (crashOn old (Op.truncate :: opsV pre metaC mid idxC) (i + 1) k) = none ∨
      crashOn old (Op.truncate :: opsV pre metaC mid idxC) (i + 1) k = (runOn old (Op.truncate :: opsV pre metaC mid idxC)).file
    rw [crashOn_truncate, runOn_truncate]
    exact versatiles_crash_safe dec pre metaC mid idxC hpre hoff hlen hnil hprefix i k

/-- **C12, pmtiles, over any existing file** -/
theorem pmtiles_overwrite_safe (dec : Dec) (old metaC : Bytes) (tiles : List Bytes) (rootC leavesC hdr : Bytes)
    (hlen : hdr.length = 127) (i k : Nat) :
    let ops := Op.truncate :: opsP metaC tiles rootC leavesC hdr
    crashOn old ops i k = old ∨ openP dec (crashOn old ops i k) = none ∨
      coreP (crashOn old ops i k) = coreP (runOn old ops).file := by
  intro ops
  cases i with
  | zero =>
    rcases crashOn_truncate_zero old (opsP metaC tiles rootC leavesC hdr) k with h | h
    · exact Or.inl h
    · right; left
      show openP dec (crashOn old (Op.truncate :: opsP metaC tiles rootC leavesC hdr) 0 k) = none
      rw [h]; simp [openP, slice]
  | succ i =>
    right
    show openP dec (crashOn old (Op.truncate :: opsP metaC tiles rootC leavesC hdr) (i + 1) k) = none ∨
      coreP (crashOn old (Op.truncate :: opsP metaC tiles rootC leavesC hdr) (i + 1) k)
        = coreP (runOn old (Op.truncate :: opsP metaC tiles rootC leavesC hdr)).file
    rw [crashOn_truncate, runOn_truncate]
    exact pmtiles_crash_safe dec metaC tiles rootC leavesC hdr hlen i k

/-! #### without the truncation -/

theorem getElem?_writeAt_lt' (f b : Bytes) (pos i : Nat) (h : i < pos) (hi : i < f.length) :
    (writeAt f pos b)[i]? = f[i]? := by
  unfold writeAt
  simp only []
  rw [List.append_assoc, List.getElem?_append_left (by simp; omega)]
  rw [List.getElem?_take_of_lt h, List.getElem?_append_left hi]

/-- the first 127 bytes are those of `old` and the position is behind them -/
structure Keeps (old : Bytes) (w : W) : Prop where
  hd : ∀ i, i < 127 → w.file[i]? = old[i]?
  len : 127 ≤ w.file.length
  pos : 127 ≤ w.pos

theorem applyCut_keeps {old : Bytes} {w : W} (h : Keeps old w) {op : Op} (hs : SafeOp op) (k : Nat) :
    Keeps old (w.applyCut op k) := by
  cases op with
  | append b =>
    simp only [W.applyCut]
    split
    · exact h
    · refine ⟨fun i hi => ?_, ?_, by simp; have := h.pos; omega⟩
      · simp only []
        rw [getElem?_writeAt_lt' _ _ _ _ (by have := h.pos; omega) (by have := h.len; omega)]
        exact h.hd i hi
      · simp only [writeAt, List.length_append, List.length_take, List.length_drop, zeros_length]
        have := h.len; have := h.pos; omega
  | writeStart b => exact absurd hs (by simp [SafeOp])
  | truncate => exact absurd hs (by simp [SafeOp])
  | setPosition p =>
    simp only [W.applyCut]
    split
    · exact h
    · exact ⟨h.hd, h.len, hs⟩

theorem foldl_keeps {old : Bytes} {w : W} (h : Keeps old w) (ops : List Op) (hs : ∀ op ∈ ops, SafeOp op) :
    Keeps old (ops.foldl W.apply w) := by
  induction ops generalizing w with
  | nil => exact h
  | cons op ops ih =>
    exact ih (applyCut_keeps h (hs op (by simp)) _) (fun o ho => hs o (by simp [ho]))

/-- **without truncation the old header survives**: if the path holds at least a header and the
    writer is NOT preceded by a truncation, then in every crash state before the final header
    write (after the initial `set_position`) the 127 header bytes are still the OLD header –
    whatever has meanwhile been written behind it. -/
theorem no_truncate_header_survives (old : Bytes) (hold : 127 ≤ old.length) (p0 : Nat) (hp0 : 127 ≤ p0)
    (body : List Op) (hbody : ∀ op ∈ body, SafeOp op) (hdr : Bytes) (i k : Nat) (hi : i < body.length) :
    ∀ j, j < 127 →
      (crashOn old (Op.setPosition p0 :: (body ++ [Op.writeStart hdr])) (i + 1) k)[j]? = old[j]? := by
  have hw0 : Keeps old (W.apply { file := old, pos := 0 } (.setPosition p0)) := by
    refine ⟨fun j _ => ?_, ?_, ?_⟩ <;> simp [W.apply, W.applyCut, Op.size]
    · exact hold
    · exact hp0
  rw [crashOn_eq, crashFrom_cons, crashFrom_append_lt _ _ _ _ _ hi]
  unfold crashFrom
  have hg : body[i]? = some body[i] := List.getElem?_eq_getElem hi
  rw [hg]
  exact (applyCut_keeps (foldl_keeps hw0 (body.take i) (fun o ho => hbody o (List.mem_of_mem_take ho)))
    (hbody _ (List.getElem_mem hi)) k).hd

/-- a tiny complete "pmtiles" file (uncompressed internals): root directory = byte 127 -/
def exOldP : Bytes :=
  magicP ++ [3] ++ leEnc 8 127 ++ leEnc 8 1 ++ leEnc 8 128 ++ leEnc 8 1 ++ leEnc 8 129 ++ leEnc 8 0 ++
  leEnc 8 129 ++ leEnc 8 1 ++ zeros 24 ++ [1, 1, 1, 1] ++ zeros 27 ++ [5, 6, 7]

set_option maxRecDepth 100000 in
/-- **counterexample without truncation**: the old file is complete and opens; a new run that is
    not preceded by a truncation writes a new root directory byte behind the header and stops
    before its header write: the file still opens – with the OLD header – although it is neither
    the old file nor (in its lookup-relevant part) the completed new one. -/
theorem no_truncate_unsafe :
    let dec := tableDec []
    let ops := [Op.setPosition 127, .append [9], .writeStart (zeros 127)]
    let s := crashOn exOldP ops 2 0
    openP dec exOldP ≠ none ∧ openP dec s ≠ none ∧ s ≠ exOldP ∧ coreP s ≠ coreP (runOn exOldP ops).file ∧
    (openP dec s).map (·.root) = some [9] := by
  decide

/-! ### the driver's incremental evaluation is the definition -/

theorem prefixStates_getElem? (w : W) (ops : List Op) (i : Nat) (h : i ≤ ops.length) :
    (prefixStates w ops)[i]? = some ((ops.take i).foldl W.apply w) := by
  induction ops generalizing w i with
  | nil =>
    have : i = 0 := by simpa using h
    subst this; rfl
  | cons op ops ih =>
    cases i with
    | zero => rfl
    | succ i =>
      simp only [prefixStates, List.getElem?_cons_succ, List.take_succ_cons, List.foldl_cons]
      exact ih (w.apply op) i (by simpa using h)

/-- what `vtdriver` evaluates (`crashWith` on the prefix states) is `crashOn` -/
theorem crashWith_eq (old : Bytes) (ops : List Op) (i k : Nat) :
    crashWith (prefixStates { file := old, pos := 0 } ops) ops i k = crashOn old ops i k := by
  unfold crashWith crashOn runOn
  cases hg : ops[i]? with
  | none =>
    simp only
    rw [prefixStates_getElem? _ _ _ (Nat.le_refl _), List.take_length]
    rfl
  | some op =>
    have hi : i < ops.length := by
      rcases Nat.lt_or_ge i ops.length with h | h
      · exact h
      · rw [List.getElem?_eq_none h] at hg; cases hg
    rw [prefixStates_getElem? _ _ _ (Nat.le_of_lt hi)]

/-! ### write faults (an operation of the `DataWriterTrait` returns an error)

The unchanged writers propagate the error (`?`) or panic (`unwrap`): the run stops at the failed
operation.  What is left behind is then the crash state `(n, 0)`, so the crash theorems apply: a
writer that FAILS LOUDLY is safe.  A writer that skips the failed tile and carries on to the index
and the header (seeded regression C12-9) produces the completed file of a SMALLER tile set – it opens
and lacks the tile. -/

theorem applyCut_zero (w : W) (op : Op) : w.applyCut op 0 = w := by
  cases op <;> simp [W.applyCut]

/-- the file a stop-at-the-failed-operation writer leaves behind is a crash state -/
theorem stop_at_fault_is_crash (ops : List Op) (n : Nat) : (run (ops.take n)).file = crash ops n 0 := by
  unfold crash
  cases hg : ops[n]? with
  | none =>
    have : ops.length ≤ n := by
      rcases Nat.lt_or_ge n ops.length with h | h
      · rw [List.getElem?_eq_getElem h] at hg; cases hg
      · exact h
    rw [List.take_of_length_le this]
  | some op => simp only [applyCut_zero]

/-- **write_fails_loudly (versatiles)**: if operation `n` fails and the writer stops there, the file
    left behind does not open – or nothing was missing any more (`n` beyond the last operation). -/
theorem write_fails_loudly (dec : Dec) (pre metaC : Bytes) (mid : List Bytes) (idxC : Bytes)
    (hpre : pre.length = 34)
    (hoff : 66 + metaC.length + mid.flatten.length < 256 ^ 8) (hlen : idxC.length < 256 ^ 8)
    (hnil : dec .brotli [] = none)
    (hprefix : ∀ p, p <+: idxC → p ≠ idxC → dec .brotli p = none) (n : Nat) :
    let ops := opsV pre metaC mid idxC
    openV dec (run (ops.take n)).file = none ∨ (run (ops.take n)).file = (run ops).file := by
  intro ops
  rw [stop_at_fault_is_crash]
  exact versatiles_crash_safe dec pre metaC mid idxC hpre hoff hlen hnil hprefix n 0

/-- **write_fails_loudly (pmtiles)** -/
theorem write_fails_loudly_pmtiles (dec : Dec) (metaC : Bytes) (tiles : List Bytes) (rootC leavesC hdr : Bytes)
    (hlen : hdr.length = 127) (n : Nat) :
    let ops := opsP metaC tiles rootC leavesC hdr
    openP dec (run (ops.take n)).file = none ∨ coreP (run (ops.take n)).file = coreP (run ops).file := by
  intro ops
  rw [stop_at_fault_is_crash]
  exact pmtiles_crash_safe dec metaC tiles rootC leavesC hdr hlen n 0

/-! ### non-vacuity -/

/-- a decompressor that accepts exactly one stream satisfies both laws -/
theorem tableDec_laws (x : Bytes) (hx : x ≠ []) :
    tableDec [x] .brotli [] = none ∧ ∀ p, p <+: x → p ≠ x → tableDec [x] .brotli p = none := by
  refine ⟨?_, fun p _ hp => ?_⟩
  · simp [tableDec]; exact fun h => hx h
  · simp [tableDec, hp]

def exPre : Bytes := magicV ++ [0x20, 0, 0, 3] ++ zeros 16

example : exPre.length = 34 := by decide
-- the completed file of a small run opens, a state one byte before the end of the header rewrite does not
set_option maxRecDepth 100000 in
example : (openV (tableDec [[7, 7, 7]]) (run (opsV exPre [1, 2] [[9], [8, 8]] [7, 7, 7])).file).isSome = true := by
  decide
set_option maxRecDepth 100000 in
example : openV (tableDec [[7, 7, 7]]) (crash (opsV exPre [1, 2] [[9], [8, 8]] [7, 7, 7]) 5 65) = none := by
  decide
set_option maxRecDepth 100000 in
example : crash (opsV exPre [1, 2] [[9], [8, 8]] [7, 7, 7]) 5 66 = (run (opsV exPre [1, 2] [[9], [8, 8]] [7, 7, 7])).file := by
  decide

set_option maxRecDepth 100000 in
/-- **skip-and-continue is unsafe**: the writer skips the failed append of the second blob and still
    writes index and header – the result opens, and it is not the completed file of the full set -/
theorem skip_on_fault_unsafe :
    (openV (tableDec [[7, 7, 7]]) (run (opsV exPre [1, 2] [[9]] [7, 7, 7])).file).isSome = true ∧
    (run (opsV exPre [1, 2] [[9]] [7, 7, 7])).file ≠ (run (opsV exPre [1, 2] [[9], [8, 8]] [7, 7, 7])).file := by
  decide

example : (zeros 127).length = 127 := by simp

end VtProps.C12
