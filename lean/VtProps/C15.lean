import VtProofs.PyramidInclude
/-!
# C15 — tile bounding boxes and pyramids behave as the sets of tiles they denote

Property theorems about `VtModel.BBox` / `VtModel.Pyramid` (models of `TileBBox`,
`TileBBoxPyramid`, `TransformCoord`).  `mem b x y` is the denotation `(x,y) ∈ ⟦b⟧`; every
statement holds for **all** boxes: valid ones and every encoding of the empty box
(`new_empty = (2^z,2^z,0,0)`, `set_empty = (1,1,0,0)`, arbitrary `min > max` left by an
intersection), at every level.  Proofs are in `VtProofs/BBox*.lean`, `VtProofs/PyramidSet.lean`;
the real-number geo theorems are in `VtProps/C15Geo.lean`.
-/
namespace VtProps.C15
open VtModel VtModel.BBox

/-- emptiness ↔ the denoted set is empty -/
theorem isEmpty_iff (b : BBox) : b.isEmpty = true ↔ ∀ x y, ¬ mem b x y := BBox.isEmpty_iff b

/-- containment is membership in the denoted set -/
theorem contains_iff (b : BBox) (x y z : Nat) :
    (b.contains2 x y = true ↔ mem b x y) ∧ (b.contains3 x y z = true ↔ z = b.level ∧ mem b x y) :=
  ⟨contains2_iff b x y, contains3_iff b x y z⟩

/-- intersection = set intersection; defined exactly for boxes of one level -/
theorem intersect_is_set_intersection (a b : BBox) :
    ((∃ c, a.intersectBBox b = .ok c) ↔ a.level = b.level) ∧
    ∀ c, a.intersectBBox b = .ok c → ∀ x y, mem c x y ↔ (mem a x y ∧ mem b x y) :=
  ⟨intersect_ok_iff a b, fun _ h x y => mem_intersect h x y⟩

/-- overlap ↔ the sets meet -/
theorem overlaps_iff_common_tile (a b : BBox) (r : Bool) (h : a.overlapsBBox b = .ok r) :
    r = true ↔ ∃ x y, mem a x y ∧ mem b x y := overlaps_iff h

/-- `include_bbox` is the bounding union: contains both boxes and is contained in every box that does -/
theorem include_is_bounding_union (a b c : BBox) (ha : InRange a) (hb : InRange b) (h : a.includeBBox b = .ok c) :
    (∀ x y, (mem a x y ∨ mem b x y) → mem c x y) ∧
    (∀ d : BBox, (∀ x y, (mem a x y ∨ mem b x y) → mem d x y) → ∀ x y, mem c x y → mem d x y) :=
  ⟨include_contains ha hb h, fun d hd x y => include_least ha hb h d hd x y⟩

/-- `include_coord` is the bounding box of the old set and the new coordinate -/
theorem include_coord_is_bounding_box (b : BBox) (hb : InRange b) (px py : Nat) (hp : px ≤ b.maxv ∧ py ≤ b.maxv) (x y : Nat) :
    mem (b.includeCoord px py) x y ↔
      (if b.isEmpty then x = px ∧ y = py
       else min b.xmin px ≤ x ∧ x ≤ max b.xmax px ∧ min b.ymin py ≤ y ∧ y ≤ max b.ymax py) :=
  includeCoord_mem hb hp x y

/-- row-major enumeration: exactly the members, strictly increasing in `(y, x)`, no duplicates,
    as many as `count_tiles` says -/
theorem enumeration (b : BBox) :
    (∀ x y, (x, y) ∈ b.iterCoords ↔ mem b x y) ∧
    b.iterCoords.Pairwise rowMajorLt ∧ b.iterCoords.Nodup ∧
    b.countTiles = b.iterCoords.length :=
  ⟨mem_iterCoords b, iterCoords_sorted b, iterCoords_nodup b, countTiles_eq_length b⟩

/-- index of a coordinate = its position in the enumeration; error exactly outside; never a panic
    (holds for boxes of any size, in particular with ≥ 2^32 tiles — repaired defect F12) -/
theorem index_of_coord (b : BBox) (x y : Nat) :
    (mem b x y → ∃ i, b.tileIndex x y = .ok i ∧ b.iterCoords[i]? = some (x, y) ∧ i < b.countTiles) ∧
    (¬ mem b x y → b.tileIndex x y = .err) := tileIndex_spec b x y

/-- coordinate of an index = the `i`-th enumerated coordinate; error exactly for `i ≥ count` -/
theorem coord_of_index (b : BBox) (hx : b.xmax < U32) (hy : b.ymax < U32) (i : Nat) :
    (i < b.countTiles → ∃ c, b.coordByIndex i = .ok c ∧ b.iterCoords[i]? = some c) ∧
    (¬ i < b.countTiles → b.coordByIndex i = .err) := coordByIndex_spec b hx hy i

/-- the two conversions are mutually inverse -/
theorem index_coord_inverse (b : BBox) (hx : b.xmax < U32) (hy : b.ymax < U32) :
    (∀ x y, mem b x y → ∃ i, b.tileIndex x y = .ok i ∧ b.coordByIndex i = .ok (x, y)) ∧
    (∀ i, i < b.countTiles → ∃ c, b.coordByIndex i = .ok c ∧ b.tileIndex c.1 c.2 = .ok i) := by
  constructor
  · intro x y hm
    obtain ⟨i, h1, h2, h3⟩ := (tileIndex_spec b x y).1 hm
    obtain ⟨c, h4, h5⟩ := (coordByIndex_spec b hx hy i).1 h3
    rw [h2] at h5; cases h5
    exact ⟨i, h1, h4⟩
  · intro i hi
    obtain ⟨c, h4, h5⟩ := (coordByIndex_spec b hx hy i).1 hi
    have hmem : mem b c.1 c.2 := (mem_iterCoords b c.1 c.2).mp (List.mem_of_getElem? h5)
    obtain ⟨j, h1, h2, h3⟩ := (tileIndex_spec b c.1 c.2).1 hmem
    refine ⟨c, h4, ?_⟩
    -- positions in a duplicate-free list are unique
    have hn := iterCoords_nodup b
    have hi' : i < b.iterCoords.length := by rw [← countTiles_eq_length]; exact hi
    have hj' : j < b.iterCoords.length := by rw [← countTiles_eq_length]; exact h3
    have e1 : b.iterCoords[i] = c := by
      have := List.getElem?_eq_getElem hi'; rw [this] at h5; exact Option.some.inj h5
    have e2 : b.iterCoords[j] = c := by
      have := List.getElem?_eq_getElem hj'; rw [this] at h2; exact Option.some.inj h2
    have : i = j := (List.getElem_inj hn).mp (by rw [e1, e2])
    rw [h1, this]

/-- splitting into an aligned grid is a partition (also: no `u32` overflow, no failed `unwrap`) -/
theorem grid_is_partition (b : BBox) (hl : b.level ≤ 31) (hr : InRange b) (size : Nat) (hs : 1 ≤ size) (hs2 : size < U32) :
    ∃ cells, b.iterBBoxGrid size = .ok cells ∧
      (∀ c ∈ cells, c.isEmpty = false) ∧
      (∀ c ∈ cells, ∃ mx my, ∀ x y, mem c x y ↔ (x / size = mx ∧ y / size = my ∧ mem b x y)) ∧
      (∀ x y, mem b x y → ∃ c ∈ cells, mem c x y) ∧
      cells.Pairwise (fun c d => ∀ x y, ¬ (mem c x y ∧ mem d x y)) := grid_partition b hl hr size hs hs2

/-- every encoding of the empty box has an empty grid -/
theorem grid_of_empty_is_empty (b : BBox) (hl : b.level ≤ 31) (hr : InRange b) (he : b.isEmpty = true) (size : Nat)
    (hs : 1 ≤ size) (hs2 : size < U32) : b.iterBBoxGrid size = .ok [] := grid_of_empty b hl hr he size hs hs2

/-- x/y swap: image of the set, involution -/
theorem swap_xy (b : BBox) : (∀ x y, mem b.swapXY x y ↔ mem b y x) ∧ b.swapXY.swapXY = b :=
  ⟨mem_swapXY b, swapXY_involutive b⟩

/-- y flip: image of the set under `y ↦ 2^z − 1 − y`, involution, no panic on in-range boxes -/
theorem flip_y (b : BBox) (hr : InRange b) :
    (∃ c, b.flipY = .ok c ∧ c.level = b.level ∧ InRange c ∧ ∀ x y, mem c x y ↔ (y ≤ b.maxv ∧ mem b x (b.maxv - y))) ∧
    (∃ c, b.flipY = .ok c ∧ c.flipY = .ok b) :=
  ⟨flipY_spec b hr, flipY_involutive b hr⟩

theorem coord_flip_involutive (x y z : Nat) (hy : y ≤ 2 ^ z - 1) :
    ∃ c, coordFlipY x y z = .ok c ∧ coordFlipY c.1 c.2.1 c.2.2 = .ok (x, y, z) := coordFlipY_involutive x y z hy

/-! ### pyramids: per-level application -/
open VtModel.Pyramid in
theorem pyramid_intersect (p q : Pyramid) (hp : WF p) (hq : WF q) :
    ∃ r, Pyramid.intersect p q = .ok r ∧ WF r ∧ ∀ x y z, memP r x y z ↔ (memP p x y z ∧ memP q x y z) :=
  intersect_spec hp hq

open VtModel.Pyramid in
theorem pyramid_contains (p : Pyramid) (hp : WF p) (x y z : Nat) :
    Pyramid.containsCoord p x y z = true ↔ memP p x y z := containsCoord_iff hp x y z

open VtModel.Pyramid in
theorem pyramid_zoom_limits (p : Pyramid) (zlim x y z : Nat) :
    (memP (Pyramid.setZoomMin p zlim) x y z ↔ (zlim ≤ z ∧ memP p x y z)) ∧
    (memP (Pyramid.setZoomMax p zlim) x y z ↔ (z ≤ zlim ∧ memP p x y z)) :=
  ⟨setZoomMin_mem p zlim x y z, setZoomMax_mem p zlim x y z⟩

open VtModel.Pyramid in
theorem pyramid_empty_and_count (p : Pyramid) :
    (Pyramid.isEmpty p = true ↔ ∀ x y z, ¬ memP p x y z) ∧
    Pyramid.countTiles p = (p.map (fun b => b.iterCoords.length)).sum :=
  ⟨Pyramid.isEmpty_iff p, countTiles_eq p⟩

open VtModel.Pyramid in
theorem pyramid_include_coord (p : Pyramid) (hp : WF p) (x y z : Nat) (hz : z < 32) :
    ∃ r, Pyramid.includeCoord p x y z = .ok r ∧ r.length = p.length ∧
      (∀ z', z' ≠ z → r[z']? = p[z']?) ∧
      (∃ b, p[z]? = some b ∧ r[z]? = some (b.includeCoord x y)) := includeCoord_spec hp x y z hz

open VtModel.Pyramid in
theorem pyramid_equality_ignores_empty_encoding (p q : Pyramid) (hlen : p.length = q.length) :
    Pyramid.beq p q = true ↔ ∀ z (h1 : z < p.length) (h2 : z < q.length),
      ((p[z]'h1).isEmpty = true ∧ (q[z]'h2).isEmpty = true) ∨
      ((p[z]'h1).isEmpty = false ∧ p[z]'h1 = q[z]'h2) := beq_iff p q hlen


/-! ### borders, scaling, further pyramid operations -/

/-- `add_border`: the box grown by the borders and clamped to the level; panic-free when the sums
    fit `u32`; empty boxes (any encoding) stay as they are -/
theorem add_border (b : BBox) (hr : InRange b) (bx0 by0 bx1 by1 : Nat) :
    (b.isEmpty = true → b.addBorder bx0 by0 bx1 by1 = .ok b) ∧
    (b.isEmpty = false → b.xmax + bx1 < U32 → b.ymax + by1 < U32 →
      ∃ c, b.addBorder bx0 by0 bx1 by1 = .ok c ∧ c.level = b.level ∧ InRange c ∧
        ∀ x y, mem c x y ↔ (b.xmin - bx0 ≤ x ∧ x ≤ min (b.xmax + bx1) b.maxv ∧
                              b.ymin - by0 ≤ y ∧ y ≤ min (b.ymax + by1) b.maxv)) :=
  ⟨fun he => addBorder_empty b he _ _ _ _, fun hne h1 h2 => addBorder_spec b hr hne _ _ _ _ h1 h2⟩

/-- `scale_down` maps every member into the scaled box; scale 0 is the documented panic -/
theorem scale_down (b : BBox) :
    (∀ s, 1 ≤ s → ∀ c, b.scaleDown s = .ok c → ∀ x y, mem b x y → mem c (x / s) (y / s)) ∧
    b.scaleDown 0 = .panic :=
  ⟨fun s hs _ h x y hm => scaleDown_mem b s hs h x y hm, scaleDown_zero_panics b⟩

open VtModel.Pyramid in
theorem pyramid_overlaps (p : Pyramid) (hp : WF p) (b : BBox) :
    Pyramid.overlapsBBox p b = true ↔ ∃ x y, memP p x y b.level ∧ mem b x y := overlapsBBox_iff hp b

open VtModel.Pyramid in
theorem pyramid_include_bbox (p : Pyramid) (hp : WF p) (b : BBox) (hz : b.level < 32) :
    ∃ r a c, Pyramid.includeBBox p b = .ok r ∧ p[b.level]? = some a ∧ a.includeBBox b = .ok c ∧
      r[b.level]? = some c ∧ r.length = p.length ∧ ∀ z', z' ≠ b.level → r[z']? = p[z']? :=
  includeBBox_spec hp b hz

open VtModel.Pyramid in
theorem pyramid_swap (p : Pyramid) (x y z : Nat) : memP (Pyramid.swapXY p) x y z ↔ memP p y x z :=
  swapXY_mem p x y z

open VtModel.Pyramid in
theorem pyramid_zoom_min (p : Pyramid) :
    (Pyramid.zoomMin p = none ↔ Pyramid.isEmpty p = true) ∧
    (∀ z, Pyramid.zoomMin p = some z → ∃ b ∈ p, b.level = z ∧ b.isEmpty = false) :=
  ⟨zoomMin_none_iff p, fun z h => zoomMin_spec p z h⟩

open VtModel.Pyramid in
/-- `include_bbox_pyramid` is the per-level bounding union; panic-free on well-formed pyramids -/
theorem pyramid_include_pyramid (p q : Pyramid) (hp : WF p) (hq : WF q) :
    ∃ r, Pyramid.includePyramid p q = .ok r ∧ WF r ∧
      ∀ z (_hz : z < 32), ∃ a b, p[z]? = some a ∧ q[z]? = some b ∧
        (b.isEmpty = true → r[z]? = some a) ∧
        (b.isEmpty = false → ∃ c, a.includeBBox b = .ok c ∧ r[z]? = some c) :=
  includePyramid_spec hp hq

/-! ### non-vacuity: the hypotheses are met by concrete, non-trivial boxes -/

example : InRange ⟨4, 3, 3, 9, 12⟩ ∧ (4 : Nat) ≤ 31 ∧ (⟨4, 3, 3, 9, 12⟩ : BBox).isEmpty = false := by
  unfold InRange; decide
example : InRange ⟨5, 32, 32, 0, 0⟩ ∧ (⟨5, 32, 32, 0, 0⟩ : BBox).isEmpty = true := by unfold InRange; decide   -- new_empty
example : InRange ⟨5, 1, 1, 0, 0⟩ ∧ (⟨5, 1, 1, 0, 0⟩ : BBox).isEmpty = true := by unfold InRange; decide       -- set_empty
example : (⟨3, 1, 1, 5, 5⟩ : BBox).intersectBBox ⟨3, 4, 0, 7, 2⟩ = .ok ⟨3, 4, 1, 5, 2⟩ := by decide
example : (⟨4, 3, 3, 9, 12⟩ : BBox).iterBBoxGrid 4 = .ok
    [⟨4,3,3,3,3⟩, ⟨4,4,3,7,3⟩, ⟨4,8,3,9,3⟩, ⟨4,3,4,3,7⟩, ⟨4,4,4,7,7⟩, ⟨4,8,4,9,7⟩,
     ⟨4,3,8,3,11⟩, ⟨4,4,8,7,11⟩, ⟨4,8,8,9,11⟩, ⟨4,3,12,3,12⟩, ⟨4,4,12,7,12⟩, ⟨4,8,12,9,12⟩] := by decide
example : Pyramid.WF Pyramid.newEmpty := Pyramid.wf_newEmpty

end VtProps.C15
