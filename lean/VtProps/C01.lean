import VtProofs.Versatiles
import VtProofs.PMTiles
import VtProofs.PMFind
import VtProofs.Hilbert
/-!
# C01 — container round trip is lossless for every tile set and every format

Theorems about the model writers and readers.  Helper lemmas live in `VtProofs/`.
-/
namespace VtProps.C01
open VtModel VtModel.Fmt

/-! ## byte codecs: `decode (encode x) = x` -/

theorem varint_roundtrip (v : Nat) (r : Bytes) (h : v < U64) : readVarint (varintEnc v ++ r) = .ok (v, r) :=
  VtProofs.Fmt.readVarint_enc v r h

theorem versatiles_header_roundtrip (h : Versatiles.Header) (ok : VtProofs.Versatiles.HeaderOk h) :
    Versatiles.decHeader (Versatiles.encHeader h) = .ok h :=
  VtProofs.Versatiles.decHeader_encHeader h ok

theorem versatiles_block_roundtrip (b : Versatiles.BlockDef) (ok : VtProofs.Versatiles.BlockOk b) (e : Bytes)
    (he : Versatiles.encBlockDef b = .ok e) : Versatiles.decBlockDef e = .ok b := by
  have := VtProofs.Versatiles.decBlockDef_enc b ok e [] he
  simpa using this

theorem versatiles_block_index_roundtrip (l : List Versatiles.BlockDef) (hok : ∀ b ∈ l, VtProofs.Versatiles.BlockOk b)
    (e : Bytes) (he : Versatiles.encBlockIndex l = .ok e) : Versatiles.decBlockIndex e = .ok l :=
  VtProofs.Versatiles.decBlockIndex_enc l hok e he

theorem versatiles_tile_index_roundtrip (l : List Range) (h : ∀ r ∈ l, r.off < 256 ^ 8 ∧ r.len < 256 ^ 4) :
    Versatiles.decTileIndex (Versatiles.encTileIndex l) = .ok l :=
  VtProofs.Versatiles.decTileIndex_enc l h

theorem pmtiles_header_roundtrip (h : PMTiles.Header) (ok : VtProofs.PMTiles.HeaderOk h) :
    PMTiles.decHeader (PMTiles.encHeader h) = .ok h :=
  VtProofs.PMTiles.decHeader_encHeader h ok

/-- `deserialize (serialize es) = es` under the conditions the writer establishes (serialisation
    succeeds: ids sorted, offsets without `u64` overflow; fields within their Rust types) -/
theorem pmtiles_directory_roundtrip (es : List PMTiles.Entry) (hok : ∀ e ∈ es, VtProofs.PMTiles.EntryOk e)
    (hn : es.length ≤ 10000000000) (b : Bytes) (h : PMTiles.encDir es = .ok b) : PMTiles.decDir b = .ok es :=
  VtProofs.PMTiles.decDir_encDir es hok hn b h

end VtProps.C01
