import VtProofs.Versatiles
import VtProofs.PMTiles
import VtProofs.PMFind
import VtProofs.Hilbert
import VtProofs.VersatilesWrite
import VtProofs.MBTiles
import VtProofs.TarDir
import VtProofs.TarRead
import VtProofs.PMTilesWrite
import VtProofs.Capstone
import VtProofs.Getters
/-!
# C01 — container round trip is lossless for every tile set and every format

Theorems about the model writers and readers.  Helper lemmas live in `VtProofs/`.
-/
namespace VtProps.C01
open VtModel VtModel.Fmt

/-! ## byte codecs: `decode (encode x) = x` -/

theorem varint_roundtrip (v : Nat) (r : Bytes) (h : v < U64) : readVarint (varintEnc v ++ r) = .ok (v, r) :=
  VtProofs.Fmt.readVarint_enc v r h

theorem versatiles_header_roundtrip (h : Versatiles.Header) (ok : VtProofs.Versatiles.HeaderOk h) :
    Versatiles.decHeader (Versatiles.encHeader h) = .ok h :=
  VtProofs.Versatiles.decHeader_encHeader h ok

theorem versatiles_block_roundtrip (b : Versatiles.BlockDef) (ok : VtProofs.Versatiles.BlockOk b) (e : Bytes)
    (he : Versatiles.encBlockDef b = .ok e) : Versatiles.decBlockDef e = .ok b := by
  have := VtProofs.Versatiles.decBlockDef_enc b ok e [] he
  simpa using this

theorem versatiles_block_index_roundtrip (l : List Versatiles.BlockDef) (hok : ∀ b ∈ l, VtProofs.Versatiles.BlockOk b)
    (e : Bytes) (he : Versatiles.encBlockIndex l = .ok e) : Versatiles.decBlockIndex e = .ok l :=
  VtProofs.Versatiles.decBlockIndex_enc l hok e he

theorem versatiles_tile_index_roundtrip (l : List Range) (h : ∀ r ∈ l, r.off < 256 ^ 8 ∧ r.len < 256 ^ 4) :
    Versatiles.decTileIndex (Versatiles.encTileIndex l) = .ok l :=
  VtProofs.Versatiles.decTileIndex_enc l h

theorem pmtiles_header_roundtrip (h : PMTiles.Header) (ok : VtProofs.PMTiles.HeaderOk h) :
    PMTiles.decHeader (PMTiles.encHeader h) = .ok h :=
  VtProofs.PMTiles.decHeader_encHeader h ok

/-- `deserialize (serialize es) = es` under the conditions the writer establishes (serialisation
    succeeds: ids sorted, offsets without `u64` overflow; fields within their Rust types) -/
theorem pmtiles_directory_roundtrip (es : List PMTiles.Entry) (hok : ∀ e ∈ es, VtProofs.PMTiles.EntryOk e)
    (hn : es.length ≤ 10000000000) (b : Bytes) (h : PMTiles.encDir es = .ok b) : PMTiles.decDir b = .ok es :=
  VtProofs.PMTiles.decDir_encDir es hok hn b h

/-! ## versatiles: the container round trip -/

open VtProofs.VersatilesWrite in
/-- **C01 (versatiles), full strength** — for EVERY source (pyramid of valid level boxes with increasing
    zoom; per grid cell a stream that enumerates the source's tiles of the cell once each, in any
    order; payloads below 4 GiB, duplicates and sizes around the 1000-byte de-duplication threshold
    included) and every compressor `enc` with decompressor `K` (`K.brotli (enc b) = some b`, empty input
    rejected): if the writer returns a file (below 2^64 bytes, compressed tile indexes below 4 GiB),
    then the reader opens it, declares the source's format and compression, and for every coordinate
    returns the source's payload if it is non-empty and `None` otherwise — no lost tile, no extra tile,
    no wrong payload, no error, no panic.
    Proof: the 256-grid partitions every level box (each tile in exactly one block, different cells
    have different block coordinates), offsets are relative to the block start, de-duplicated index
    entries point at equal bytes (`VtProofs.VersatilesBlock.putAt_inv`), the block index is written
    last and found through the rewritten header; so the file satisfies the relational layout
    description `ValidVersatiles`, and the reader is complete for it (C16). -/
theorem versatiles_roundtrip (K : Inflate) (enc : Bytes → Bytes) (s : Versatiles.Source)
    (tiles : Nat × Nat × Nat → Option Bytes) (gs : GoodSource s tiles)
    (hK : ∀ b, K.brotli (enc b) = some b) (hnil : K.brotli [] = none)
    (hmeta : s.metaB.length > 0 → ∃ raw, K.run s.comp s.metaB = .ok raw)
    (file : Bytes) (defs : List Versatiles.BlockDef) (hw : Versatiles.write enc s = .ok (file, defs))
    (hsize : file.length < U64) (hidx32 : ∀ d ∈ defs, d.index.len < 2 ^ 32) :
    ∃ r, Versatiles.openReader K file = .ok r ∧ r.header.fmt = s.fmt ∧ r.header.comp = s.comp ∧
      ∀ x y z, z ≤ 31 → Versatiles.getTile r x y z = .ok (nonEmpty (tiles (x, y, z))) :=
  VtProofs.VersatilesRead.versatiles_complete
    (write_valid K enc s tiles gs hK hnil hmeta file defs hw hsize hidx32)

/-- the written file follows the published layout (so that ANY conforming decoder recovers the map) -/
theorem versatiles_writer_follows_layout (K : Inflate) (enc : Bytes → Bytes) (s : Versatiles.Source)
    (tiles : Nat × Nat × Nat → Option Bytes) (gs : VtProofs.VersatilesWrite.GoodSource s tiles)
    (hK : ∀ b, K.brotli (enc b) = some b) (hnil : K.brotli [] = none)
    (hmeta : s.metaB.length > 0 → ∃ raw, K.run s.comp s.metaB = .ok raw)
    (file : Bytes) (defs : List Versatiles.BlockDef) (hw : Versatiles.write enc s = .ok (file, defs))
    (hsize : file.length < U64) (hidx32 : ∀ d ∈ defs, d.index.len < 2 ^ 32) :
    VtProofs.VersatilesRead.ValidVersatiles K file s.fmt s.comp (fun p => VtProofs.VersatilesWrite.nonEmpty (tiles p)) :=
  VtProofs.VersatilesWrite.write_valid K enc s tiles gs hK hnil hmeta file defs hw hsize hidx32

/-- de-duplication keeps index entries pointing at equal bytes: one step of the block writer -/
theorem versatiles_dedup_step {M n : Nat} {done : List (Nat × Bytes)} {s : Versatiles.BlockState}
    (inv : VtProofs.VersatilesBlock.Inv M n done s) (i : Nat) (payload : Bytes) (hi : i < n)
    (hM : payload.length < M) (hnew : ∀ d ∈ done, d.1 ≠ i) :
    VtProofs.VersatilesBlock.Inv M n ((i, payload) :: done) (Versatiles.putAt i s payload) :=
  VtProofs.VersatilesBlock.putAt_inv inv i payload hi hM hnew

/-! ## PMTiles: the container round trip -/

open VtProofs.PMTilesWrite in
/-- **C01 (PMTiles), full strength** — for every source (valid level boxes with increasing zoom, per
    grid cell a stream enumerating the cell's tiles once each, at most 10^10 tiles) and every
    compressor `enc` with decompressor `K` (`K.gzip (enc b) = some b`, empty input rejected): if the
    writer returns a file below 2^64 bytes, the reader opens it (header, metadata, root directory,
    coverage walk), declares the tile type / compression the header can express, and every lookup of
    a valid coordinate returns the source's payload if it is non-empty and `None` otherwise.
    Proof: Hilbert ids are injective, so the sorted entries have strictly increasing ids; a root-only
    directory is a well-formed tree of height 0, the root/leaf split (`build_roots_leaves`, any leaf
    size ≥ 1 that the `f32` growth loop may choose) a well-formed tree of height 1 whose leaves
    partition the entries; the positional writes produce header | root | padding | metadata | tile
    data | leaves; hence the file satisfies `ValidPMTiles` and the reader is complete for it (C16). -/
theorem pmtiles_roundtrip (K : Inflate) (enc : Bytes → Bytes) (s : PMTiles.Source)
    (tiles : Nat × Nat × Nat → Option Bytes) (gs : GoodStream s.levels s.stream tiles)
    (hK : ∀ b, K.gzip (enc b) = some b) (hnil : K.gzip [] = none)
    (hmeta : ∃ raw, K.run .gzip s.metaB = .ok raw) (hcz : s.cz < 256)
    (hgeo : VtProofs.VersatilesWrite.i32ok s.minlon ∧ VtProofs.VersatilesWrite.i32ok s.minlat ∧
      VtProofs.VersatilesWrite.i32ok s.maxlon ∧ VtProofs.VersatilesWrite.i32ok s.maxlat ∧
      VtProofs.VersatilesWrite.i32ok s.clon ∧ VtProofs.VersatilesWrite.i32ok s.clat)
    (hcount : ((s.levels.flatMap PMTiles.grid256).flatMap s.stream).length ≤ 10000000000)
    (file : Bytes) (hw : PMTiles.write enc s = .ok file) (hsize : file.length < U64) :
    ∃ r, PMTiles.openReader K file = .ok r ∧
      PMTiles.fmtOfType r.header.ttype = PMTiles.fmtOfType (PMTiles.typeCode s.fmt) ∧
      PMTiles.compOfCode r.header.tcomp = .ok s.comp ∧
      ∀ x y z, z ≤ 31 → x < 2 ^ z → y < 2 ^ z →
        PMTiles.getTile r x y z = .ok (VtProofs.VersatilesWrite.nonEmpty (tiles (x, y, z))) :=
  VtProofs.PMTilesRead.pmtiles_complete
    (write_valid_full K enc s tiles gs hK hnil hmeta hcz hgeo hcount file hw hsize)

/-- **root-directory budget**: `as_directory` is called with `16384 − 127`, so the root directory written at
    offset 127 ends at or before 16384 … -/
theorem pmtiles_root_within_budget (enc : Bytes → Bytes) (es : List PMTiles.Entry) (root leaves : Bytes)
    (h : PMTiles.asDirectory enc (16384 - 127) es = .ok (root, leaves)) : 127 + root.length ≤ 16384 :=
  VtProofs.PMTilesWrite.root_within_budget enc es root leaves h

/-- … and a root directory within that budget leaves the metadata (written at 16384), the tile data and
    the leaf directories intact after all positional writes of the writer -/
theorem pmtiles_root_does_not_reach_metadata (hdr root mta data leaves : Bytes) (hh : hdr.length = 127)
    (hr : root.length ≤ 16384 - 127) :
    let file := PMTiles.writeAt (PMTiles.writeAt (PMTiles.writeAt (PMTiles.writeAt (PMTiles.writeAt [] 16384 mta)
      (16384 + mta.length) data) 127 root) (16384 + mta.length + data.length) leaves) 0 hdr
    slice file ⟨127, root.length⟩ = root ∧ slice file ⟨16384, mta.length⟩ = mta ∧
    slice file ⟨16384 + mta.length, data.length⟩ = data ∧
    slice file ⟨16384 + mta.length + data.length, leaves.length⟩ = leaves :=
  VtProofs.PMTilesWrite.root_does_not_reach_metadata hdr root mta data leaves hh hr

/-- formats the PMTiles header can express are declared unchanged -/
theorem pmtiles_format_preserved (f : TileFormat) (h : f = .pbf ∨ f = .png ∨ f = .jpg ∨ f = .webp ∨ f = .avif ∨ f = .bin) :
    PMTiles.fmtOfType (PMTiles.typeCode f) = f := by
  rcases h with h | h | h | h | h | h <;> subst h <;> rfl

/-! ## mbtiles -/

/-- `flip ∘ flip = id` on valid rows -/
theorem mbtiles_flip_flip (z y : Nat) (h : y < 2 ^ z) : 2 ^ z - 1 - (2 ^ z - 1 - y) = y :=
  VtProofs.MBTiles.flip_flip z y h

/-- **C01 (mbtiles)**: reading any valid coordinate from the rows the writer inserted returns the source tile -/
theorem mbtiles_roundtrip (tiles : List VtProofs.MBTiles.Tile) (hv : ∀ t ∈ tiles, t.1.2.1 < 2 ^ t.1.2.2)
    (fmt : TileFormat) (comp : TComp) (cov : List BBox) (x y z : Nat) (hy : y < 2 ^ z) (hz : z ≤ 31) :
    MBTiles.getTile ⟨MBTiles.writeRows tiles, fmt, comp, cov⟩ x y z = .ok (VtProofs.MBTiles.lookup tiles (x, y, z)) :=
  VtProofs.MBTiles.roundtrip tiles hv fmt comp cov x y z hy hz

/-! ## tar / directory names -/

/-- `parseName (formatName z x y f c) = (z, x, y, f, c)` for every coordinate (`z ≤ 31`, `x, y < 2^32`),
    all 10 formats × 3 compressions: decimal printing/parsing, extension tables, path splitting -/
theorem names_roundtrip (z x y : Nat) (f : TileFormat) (c : TComp)
    (hz : z ≤ 31) (hx : x < 4294967296) (hy : y < 4294967296) :
    TarDir.parseName (TarDir.formatName z x y f c) = some (z, x, y, f, c) :=
  VtProofs.TarDir.parseName_formatName z x y f c hz hx hy

/-- the same with the `./` prefix -/
theorem names_roundtrip_dot (z x y : Nat) (f : TileFormat) (c : TComp)
    (hz : z ≤ 31) (hx : x < 4294967296) (hy : y < 4294967296) :
    TarDir.parseName ('.' :: '/' :: TarDir.formatName z x y f c) = some (z, x, y, f, c) :=
  VtProofs.TarDir.parseName_dot_formatName z x y f c hz hx hy

/-- decimal numbers: `parse (print n) = n` below the limit of the integer type -/
theorem decimal_roundtrip (limit n : Nat) (h : n < limit) :
    TarDir.parseUnsigned limit (TarDir.natToDec n) = some n :=
  VtProofs.TarDir.parseUnsigned_natToDec limit n h

/-! ## non-vacuity: a concrete source, a toy codec, the real model functions -/

def toyEnc (b : Bytes) : Bytes := 0 :: b
def toyK : Inflate := ⟨some, fun b => match b with | 0 :: r => some r | _ => none⟩

/-- four tiles on both sides of the 256 grid at zoom 9, a duplicate payload and an empty payload -/
def demoSource : Versatiles.Source := ⟨.png, .none, 0, 0, 0, 0, [], [⟨9, 255, 255, 256, 256⟩],
  fun c => ([((255, 255, 9), [1, 2, 3]), ((256, 255, 9), [1, 2, 3]), ((255, 256, 9), []), ((256, 256, 9), [9])]
    : List Versatiles.Tile).filter (fun t => c.contains2 t.1.1 t.1.2.1)⟩

set_option maxRecDepth 20000 in
example : (match Versatiles.write toyEnc demoSource with
    | .ok (f, _) => match Versatiles.openReader toyK f with
      | .ok r => [Versatiles.getTile r 255 255 9, Versatiles.getTile r 256 255 9, Versatiles.getTile r 255 256 9,
                  Versatiles.getTile r 256 256 9, Versatiles.getTile r 257 256 9]
      | _ => []
    | _ => []) = [.ok (some [1, 2, 3]), .ok (some [1, 2, 3]), .ok none, .ok (some [9]), .ok none] := by
  decide

/-- **C01 (tar)**: opening the archive the tar writer produces (metadata member `tiles.json[.gz|.br]`
    first, then one member `z/x/y.<fmt>[.<comp>]` per streamed tile) returns the declared format and
    compression, every source tile's payload (also empty ones) and `None` for every other coordinate —
    for every source that streams valid coordinates once each, has at least one tile and metadata
    that inflates -/
theorem tar_roundtrip (K : Inflate) (s : TarDir.WSource) (ok : VtProofs.TarRead.WOk K s) :
    ∃ r, TarDir.openTar K (TarDir.writeFiles s) = .ok r ∧ r.fmt = s.fmt ∧ r.comp = s.comp ∧
      (∀ t ∈ s.levels.flatMap s.stream, TarDir.getTile r t.1.1 t.1.2.1 t.1.2.2 = .ok (some t.2)) ∧
      (∀ x y z, (∀ t ∈ s.levels.flatMap s.stream, t.1 ≠ (x, y, z)) → TarDir.getTile r x y z = .ok none) :=
  VtProofs.TarRead.tar_roundtrip K s ok

/-- **C01 (directory)**: the same for the directory writer and reader -/
theorem directory_roundtrip (K : Inflate) (s : TarDir.WSource) (ok : VtProofs.TarRead.WOk K s) :
    ∃ r, TarDir.openDir K (TarDir.writeFiles s) = .ok r ∧ r.fmt = s.fmt ∧ r.comp = s.comp ∧
      (∀ t ∈ s.levels.flatMap s.stream, TarDir.getTile r t.1.1 t.1.2.1 t.1.2.2 = .ok (some t.2)) ∧
      (∀ x y z, (∀ t ∈ s.levels.flatMap s.stream, t.1 ≠ (x, y, z)) → TarDir.getTile r x y z = .ok none) :=
  VtProofs.TarRead.dir_roundtrip K s ok

/-! ## `getters.rs`: the glue every CLI path goes through -/

/-- local file names `<stem>.versatiles|pmtiles|mbtiles|tar|vpl` (no `?`, not a URL) reach the matching reader -/
theorem getters_reader_table (stem : List Char) (hq : '?' ∉ stem) (hurl : ∀ e : List Char, Getters.isUrl (stem ++ e) = false) :
    Getters.getReader (stem ++ ".versatiles".toList) .file = .versatiles ∧
    Getters.getReader (stem ++ ".pmtiles".toList) .file = .pmtiles ∧
    Getters.getReader (stem ++ ".mbtiles".toList) .file = .mbtiles ∧
    Getters.getReader (stem ++ ".tar".toList) .file = .tar ∧
    Getters.getReader (stem ++ ".vpl".toList) .file = .pipeline :=
  VtProofs.Getters.reader_table stem hq hurl

/-- a missing path is an error, an existing directory is read / written as a directory whatever its name -/
theorem getters_missing_and_dir (name : List Char) (hu : Getters.isUrl name = false) :
    Getters.getReader name .nothing = .err ∧ Getters.getReader name .dir = .directory ∧ Getters.writeTo name .dir = .directory :=
  ⟨(VtProofs.Getters.reader_missing_and_dir name hu).1, (VtProofs.Getters.reader_missing_and_dir name hu).2, rfl⟩

/-! ## capstone: C01 ∘ C02 ∘ C03 ∘ C15 -/

/-- the writers' model grid is exactly `TileBBox::iter_bbox_grid(256)` (the C15 model, incl. its overflow
    and emptiness branches) on every valid non-empty level box -/
theorem grid256_is_iter_bbox_grid (b : BBox) (ok : VtProofs.VersatilesGrid.BoxOk b) :
    b.iterBBoxGrid 256 = .ok (Versatiles.grid256 b) :=
  VtProofs.Capstone.grid256_is_iterBBoxGrid b ok

open VtProofs.Capstone in
/-- **end to end (versatiles)**: the assumptions of `versatiles_roundtrip` are discharged from the
    other properties — `Good src` is C02's notion (for every box the bbox stream is exactly what the
    lookups deliver, each tile once; proved for the default stream, every pipeline and the container
    readers in `VtProps.C02`), `Covers src` is C03's statement, the grid is C15's `iter_bbox_grid`.
    Converting such a source to a `.versatiles` file and opening it gives, for every valid coordinate,
    the source's tile (non-empty payloads; empty ones read back as `None`). -/
theorem convert_roundtrip_versatiles (K : Inflate) (enc : Bytes → Bytes) (s : Src Bytes)
    (hg : Good s) (hc : Covers s) (hs : SmallPayloads s)
    (fmt : TileFormat) (comp : TComp) (b0 b1 b2 b3 : Int) (metaB : Bytes)
    (hb : VtProofs.VersatilesWrite.i32ok b0 ∧ VtProofs.VersatilesWrite.i32ok b1 ∧
      VtProofs.VersatilesWrite.i32ok b2 ∧ VtProofs.VersatilesWrite.i32ok b3)
    (hK : ∀ b, K.brotli (enc b) = some b) (hnil : K.brotli [] = none)
    (hmeta : metaB.length > 0 → ∃ raw, K.run comp metaB = .ok raw)
    (file : Bytes) (defs : List Versatiles.BlockDef)
    (hw : Versatiles.write enc (vsource s fmt comp b0 b1 b2 b3 metaB) = .ok (file, defs))
    (hsize : file.length < U64) (hidx32 : ∀ d ∈ defs, d.index.len < 2 ^ 32) :
    ∃ r, Versatiles.openReader K file = .ok r ∧ r.header.fmt = fmt ∧ r.header.comp = comp ∧
      ∀ (c : Coord) (o : Option Bytes), Coord.Valid c → s.lookup c = .ok o →
        Versatiles.getTile r c.1 c.2.1 c.2.2 = .ok (VtProofs.VersatilesWrite.nonEmpty o) :=
  VtProofs.Capstone.convert_roundtrip_versatiles K enc s hg hc hs fmt comp b0 b1 b2 b3 metaB hb hK hnil hmeta
    file defs hw hsize hidx32

open VtProofs.Capstone in
/-- **end to end (PMTiles)** -/
theorem convert_roundtrip_pmtiles (K : Inflate) (enc : Bytes → Bytes) (s : Src Bytes)
    (hg : Good s) (hc : Covers s) (hs : SmallPayloads s)
    (fmt : TileFormat) (comp : TComp) (g : Int × Int × Int × Int × Nat × Int × Int) (metaB : Bytes)
    (hcz : g.2.2.2.2.1 < 256)
    (hgeo : VtProofs.VersatilesWrite.i32ok g.1 ∧ VtProofs.VersatilesWrite.i32ok g.2.1 ∧
      VtProofs.VersatilesWrite.i32ok g.2.2.1 ∧ VtProofs.VersatilesWrite.i32ok g.2.2.2.1 ∧
      VtProofs.VersatilesWrite.i32ok g.2.2.2.2.2.1 ∧ VtProofs.VersatilesWrite.i32ok g.2.2.2.2.2.2)
    (hK : ∀ b, K.gzip (enc b) = some b) (hnil : K.gzip [] = none)
    (hmeta : ∃ raw, K.run .gzip metaB = .ok raw)
    (hcount : (((levelsOf s).flatMap PMTiles.grid256).flatMap (streamOf s)).length ≤ 10000000000)
    (file : Bytes) (hw : PMTiles.write enc (psource s fmt comp g metaB) = .ok file) (hsize : file.length < U64) :
    ∃ r, PMTiles.openReader K file = .ok r ∧
      PMTiles.fmtOfType r.header.ttype = PMTiles.fmtOfType (PMTiles.typeCode fmt) ∧
      PMTiles.compOfCode r.header.tcomp = .ok comp ∧
      ∀ (c : Coord) (o : Option Bytes), Coord.Valid c → s.lookup c = .ok o →
        PMTiles.getTile r c.1 c.2.1 c.2.2 = .ok (VtProofs.VersatilesWrite.nonEmpty o) :=
  VtProofs.Capstone.convert_roundtrip_pmtiles K enc s hg hc hs fmt comp g metaB hcz hgeo hK hnil hmeta hcount file hw hsize

open VtProofs.Capstone in
/-- **end to end (tar)**: a `Good` source (C02) with at least one tile, written by the tar writer and
    opened again, answers every streamed tile with its payload and every other coordinate with `None` -/
theorem convert_roundtrip_tar (K : Inflate) (s : Src Bytes) (hg : Good s) (fmt : TileFormat) (comp : TComp) (metaB : Bytes)
    (hmeta : ∃ raw, K.run comp metaB = .ok raw) (hne : (levelsOf s).flatMap (streamOf s) ≠ []) :
    ∃ r, TarDir.openTar K (TarDir.writeFiles (wsource s fmt comp metaB)) = .ok r ∧ r.fmt = fmt ∧ r.comp = comp ∧
      (∀ t ∈ (levelsOf s).flatMap (streamOf s), TarDir.getTile r t.1.1 t.1.2.1 t.1.2.2 = .ok (some t.2)) ∧
      (∀ x y z, (∀ t ∈ (levelsOf s).flatMap (streamOf s), t.1 ≠ (x, y, z)) → TarDir.getTile r x y z = .ok none) :=
  VtProofs.Capstone.convert_roundtrip_tar K s hg fmt comp metaB hmeta hne

open VtProofs.Capstone in
/-- **end to end (directory)** -/
theorem convert_roundtrip_directory (K : Inflate) (s : Src Bytes) (hg : Good s) (fmt : TileFormat) (comp : TComp)
    (metaB : Bytes) (hmeta : ∃ raw, K.run comp metaB = .ok raw) (hne : (levelsOf s).flatMap (streamOf s) ≠ []) :
    ∃ r, TarDir.openDir K (TarDir.writeFiles (wsource s fmt comp metaB)) = .ok r ∧ r.fmt = fmt ∧ r.comp = comp ∧
      (∀ t ∈ (levelsOf s).flatMap (streamOf s), TarDir.getTile r t.1.1 t.1.2.1 t.1.2.2 = .ok (some t.2)) ∧
      (∀ x y z, (∀ t ∈ (levelsOf s).flatMap (streamOf s), t.1 ≠ (x, y, z)) → TarDir.getTile r x y z = .ok none) :=
  VtProofs.Capstone.convert_roundtrip_dir K s hg fmt comp metaB hmeta hne

/-- the assumptions are met by every source that serves the trait's default bbox stream from a total,
    never failing lookup (e.g. the harness' `MemSource`, the tar / directory / PMTiles readers) -/
theorem default_source_is_good (lookup : Coord → Outcome (Option Bytes)) (cover : Pyramid) (hc : cover.WF)
    (h : ∀ c, Coord.Valid c → ∃ o, lookup c = .ok o) : Good (Src.ofLookup lookup cover) :=
  ⟨hc, h, fun b hb => ⟨expected (Src.ofLookup lookup cover) b,
    defaultStream_eq lookup cover b hb (fun c hv e => by obtain ⟨o, ho⟩ := h c hv; rw [ho] at e; cases e),
    expected_keys_nodup _ b, List.Perm.refl _⟩⟩

/-! ### the hypotheses of the round-trip theorems are satisfiable -/

section nonvacuity
open VtProofs.PMTilesWrite VtProofs.VersatilesGrid VtProofs.VersatilesWrite
def lv0 : BBox := ⟨0, 0, 0, 0, 0⟩
def demoTiles : Nat × Nat × Nat → Option Bytes := fun p => if p = (0, 0, 0) then some [1] else none
def demoStream : BBox → List PMTiles.Tile := fun c => if c = lv0 then [((0, 0, 0), [1])] else []

theorem grid_lv0 : PMTiles.grid256 lv0 = [lv0] := by decide
theorem grid_lv0' : Versatiles.grid256 lv0 = [lv0] := by decide

example : GoodStream [lv0] demoStream demoTiles := by
  refine ⟨?_, ?_, ?_, ?_, ?_, ?_⟩
  · intro L hL; simp at hL; subst hL; exact ⟨by decide, by decide, by decide, by decide, by decide⟩
  · simp
  · intro L hL c hc
    simp at hL; subst hL
    rw [grid_lv0] at hc; simp at hc; subst hc
    refine ⟨?_, ?_, ?_⟩
    · intro t ht; simp [demoStream] at ht; subst ht; exact ⟨by decide, rfl⟩
    · simp [demoStream]
    · intro t ht; simp [demoStream] at ht; subst ht; decide
  · intro L hL c hc t ht
    simp at hL; subst hL
    rw [grid_lv0] at hc; simp at hc; subst hc
    simp [demoStream] at ht; subst ht; rfl
  · intro L hL c hc x y b hcon htl
    simp at hL; subst hL
    rw [grid_lv0] at hc; simp at hc; subst hc
    rw [contains2_iff] at hcon
    simp only [lv0] at hcon
    have hx : x = 0 := by omega
    have hy : y = 0 := by omega
    subst hx hy
    simp [demoTiles, lv0] at htl
    subst htl
    simp [demoStream, lv0]
  · intro x y z b h
    simp only [demoTiles] at h
    split at h
    · rename_i hp
      injection hp with h1 h2
      injection h2 with h2 h3
      subst h1 h2 h3
      exact ⟨lv0, by simp, rfl, by decide⟩
    · cases h
end nonvacuity

end VtProps.C01
