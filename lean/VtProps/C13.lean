import VtProofs.FileOffset
import VtProps.C13Memo
import VtProps.C13Idx
import VtProps.C20
/-!
# C13 — concurrent reads from one opened container return what sequential reads return

Theorems about `VtModel.FileOffset` (descriptors, open-file-descriptions, shared offsets,
interleavings of per-call syscall programs) for **every** number of concurrent calls, **every**
file content and **every** schedule.

* `noninterference` / `concurrent_eq_sequential` (C): if every call's program is `isolated`
  (a decidable syntactic predicate: `lseek`/`read` only on descriptions the call created itself,
  the reader's descriptor is never closed) then in every interleaving every call returns exactly
  what it returns when it runs alone.
* `pread_correct` (A): the repaired `read_range` (`[pread shared off n]`) returns
  `file[off, off+n)` in every interleaving with any isolated programs of any other calls.
* `dup_seek_read_race` (B): for `try_clone + seek + read_exact` (the code before commit c8a06a9f)
  there is a schedule of two calls in which call 0 returns the bytes call 1 asked for.
* `cache_sections_sequential`: the index caches (`get_or_set` under the async mutex, so the
  critical sections are serialised in SOME order) return the loaded value in every order.

Partial by nature (what no theorem here can show): that the Linux kernel and the tokio/OS
schedulers behave like the model.  The harness ties the model to both: syscall programs are
extracted from the running implementation with `strace`, the kernel model is compared with the
real kernel by executing model schedules with real syscalls, and stress runs sample real races.
-/
namespace VtProps.C13
open VtModel.FileOffset

/-- state invariant: the descriptor table respects the classes and all remaining programs are isolated -/
structure Inv (σ : State) : Prop where
  k : KInv σ.k
  iso : ∀ c, isolated (σ.prog c) = true

theorem step_inv {σ : State} (h : Inv σ) (c : Nat) : Inv (step c σ) := by
  unfold step
  cases hp : σ.prog c with
  | nil => simpa [hp] using h
  | cons s rest =>
    have hi := h.iso c
    rw [hp] at hi
    simp only [isolated, List.all_cons, Bool.and_eq_true] at hi
    refine ⟨sys_kinv h.k c (σ.loc c) s hi.1, fun x => ?_⟩
    show isolated (if x = c then rest else σ.prog x) = true
    split
    · exact hi.2
    · exact h.iso x

theorem exec_inv {σ : State} (h : Inv σ) (sched : List Nat) : Inv (exec σ sched) := by
  induction sched generalizing σ with
  | nil => exact h
  | cons x xs ih => exact ih (step_inv h x)

/-- everything call `c` has observed and can still observe is the same in both states -/
structure Sim (c : Nat) (σ σ' : State) : Prop where
  prog : σ.prog c = σ'.prog c
  loc : σ.loc c = σ'.loc c
  agree : Agree c σ.k σ'.k

theorem Sim.trans {c : Nat} {a b d : State} (x : Sim c a b) (y : Sim c b d) : Sim c a d :=
  ⟨x.prog.trans y.prog, x.loc.trans y.loc, x.agree.trans y.agree⟩

theorem step_other {σ : State} (h : Inv σ) {c c' : Nat} (hne : c' ≠ c) : Sim c (step c' σ) σ := by
  unfold step
  cases hp : σ.prog c' with
  | nil => exact ⟨rfl, rfl, Agree.rfl' c σ.k⟩
  | cons s rest =>
    have hi := h.iso c'
    rw [hp] at hi
    simp only [isolated, List.all_cons, Bool.and_eq_true] at hi
    refine ⟨?_, ?_, sys_other h.k hne (σ.loc c') s hi.1⟩
    · show (if c = c' then rest else σ.prog c) = σ.prog c
      rw [if_neg (fun e => hne e.symm)]
    · show (if c = c' then _ else σ.loc c) = σ.loc c
      rw [if_neg (fun e => hne e.symm)]

theorem step_same {σ σ' : State} (h : Inv σ) {c : Nat} (s : Sim c σ σ') : Sim c (step c σ) (step c σ') := by
  unfold step
  rw [← s.prog, ← s.loc]
  cases hp : σ.prog c with
  | nil => exact ⟨by rw [hp]; exact s.prog ▸ hp ▸ rfl, s.loc, s.agree⟩
  | cons x rest =>
    have hi := h.iso c
    rw [hp] at hi
    simp only [isolated, List.all_cons, Bool.and_eq_true] at hi
    obtain ⟨h1, h2⟩ := sys_same h.k s.agree (σ.loc c) x hi.1
    refine ⟨?_, ?_, h2⟩
    · show (if c = c then rest else σ.prog c) = (if c = c then rest else σ'.prog c)
      simp
    · show (if c = c then _ else σ.loc c) = (if c = c then _ else σ'.loc c)
      simp [h1]

/-- deleting the steps of all other calls from a schedule does not change anything call `c` sees -/
theorem exec_sim {σ σ' : State} (h : Inv σ) {c : Nat} (s : Sim c σ σ') (sched : List Nat) :
    Sim c (exec σ sched) (exec σ' (sched.filter (· = c))) := by
  induction sched generalizing σ σ' with
  | nil => exact s
  | cons x xs ih =>
    by_cases hx : x = c
    · subst hx
      have : (x :: xs).filter (· = x) = x :: xs.filter (· = x) := by simp
      rw [this]
      exact ih (step_inv h x) (step_same h s)
    · have : (x :: xs).filter (· = c) = xs.filter (· = c) := by simp [hx]
      rw [this]
      exact ih (step_inv h x) ((step_other h hx).trans s)

theorem isolated_getD {progs : List (List Sys)} (h : ∀ p ∈ progs, isolated p = true) (c : Nat) :
    isolated (progs.getD c []) = true := by
  rw [List.getD_eq_getElem?_getD]
  cases hg : progs[c]? with
  | none => rfl
  | some p => exact h p (List.mem_of_getElem? hg)

theorem inv_init (file : Bytes) {progs : List (List Sys)} (h : ∀ p ∈ progs, isolated p = true) :
    Inv (init file progs) :=
  ⟨kinv_kernel0 file, isolated_getD h⟩

/-- **C13 (C, soundness of `isolated`)**: for any number of concurrent calls whose programs are all
    isolated, any file and ANY schedule, the outputs (and the remaining program) of every call `c`
    are those of the schedule with all other calls' steps removed. -/
theorem noninterference (file : Bytes) (progs : List (List Sys)) (h : ∀ p ∈ progs, isolated p = true)
    (sched : List Nat) (c : Nat) :
    (exec (init file progs) sched).loc c = (exec (init file progs) (sched.filter (· = c))).loc c ∧
    (exec (init file progs) sched).prog c = (exec (init file progs) (sched.filter (· = c))).prog c := by
  have s := exec_sim (inv_init file h) (c := c) ⟨rfl, rfl, Agree.rfl' c _⟩ sched
  exact ⟨s.loc, s.prog⟩

/-! ### a call that has been scheduled often enough has its sequential result -/

theorem filter_eq_replicate (sched : List Nat) (c : Nat) :
    sched.filter (· = c) = List.replicate (sched.count c) c := by
  induction sched with
  | nil => rfl
  | cons x xs ih =>
    by_cases hx : x = c
    · subst hx; simp [ih, List.replicate_succ]
    · simp [hx, ih]

theorem step_loc {σ : State} {c : Nat} {s : Sys} {rest : List Sys} (h : σ.prog c = s :: rest) :
    (step c σ).loc c = (sys c σ.k (σ.loc c) s).2 := by
  unfold step
  rw [h]
  simp

theorem exec_append (σ : State) (a b : List Nat) : exec σ (a ++ b) = exec (exec σ a) b := by
  simp [exec, List.foldl_append]

theorem exec_done {σ : State} {c : Nat} (h : σ.prog c = []) (m : Nat) : exec σ (List.replicate m c) = σ := by
  induction m with
  | zero => rfl
  | succ m ih =>
    rw [List.replicate_succ]
    show exec (step c σ) _ = σ
    have : step c σ = σ := by simp [step, h]
    rw [this]; exact ih

theorem exec_own_program (σ : State) (c : Nat) :
    (exec σ (List.replicate (σ.prog c).length c)).prog c = [] := by
  generalize hn : (σ.prog c).length = n
  induction n generalizing σ with
  | zero =>
    have : σ.prog c = [] := List.eq_nil_of_length_eq_zero hn
    simpa [exec] using this
  | succ n ih =>
    rw [List.replicate_succ]
    show (exec (step c σ) _).prog c = []
    apply ih
    cases hp : σ.prog c with
    | nil => simp [hp] at hn
    | cons s rest =>
      simp only [hp, List.length_cons, Nat.add_right_cancel_iff] at hn
      simp [step, hp, hn]

theorem exec_replicate_enough (σ : State) (c : Nat) {m : Nat} (hm : (σ.prog c).length ≤ m) :
    exec σ (List.replicate m c) = exec σ (List.replicate (σ.prog c).length c) := by
  obtain ⟨d, rfl⟩ := Nat.exists_eq_add_of_le hm
  rw [← List.replicate_append_replicate, exec_append, exec_done (exec_own_program σ c)]

/-- **C13 (main theorem)**: all programs isolated ⇒ in EVERY interleaving, every call that has
    performed all its syscalls has returned exactly what it returns when it runs alone. -/
theorem concurrent_eq_sequential (file : Bytes) (progs : List (List Sys))
    (h : ∀ p ∈ progs, isolated p = true) (sched : List Nat) (c : Nat)
    (hdone : (progs.getD c []).length ≤ sched.count c) :
    ((exec (init file progs) sched).loc c).out = sequentialOut file progs c := by
  rw [(noninterference file progs h sched c).1, filter_eq_replicate, sequentialOut]
  have := exec_replicate_enough (init file progs) c (m := sched.count c) hdone
  rw [this]
  rfl

/-- **C13 (A)**: the positional read returns `file[off, off+n)` in every interleaving with any
    number of other calls running any isolated programs. -/
theorem pread_correct (file : Bytes) (progs : List (List Sys)) (h : ∀ p ∈ progs, isolated p = true)
    (sched : List Nat) (c off n : Nat) (hp : progs.getD c [] = progPread off n) (hc : c ∈ sched) :
    ((exec (init file progs) sched).loc c).out = [some ((file.drop off).take n)] := by
  have hdone : (progs.getD c []).length ≤ sched.count c := by
    rw [hp]; exact List.count_pos_iff.mpr hc
  rw [concurrent_eq_sequential file progs h sched c hdone, sequentialOut, hp]
  have hpc : (init file progs).prog c = [.pread .shared off n] := hp
  show ((step c (init file progs)).loc c).out = _
  rw [step_loc hpc]
  simp [sys, resolve, init, kernel0, local0]

/-- all calls use the positional read: instance of (A) for the repaired `DataReaderFile` -/
theorem all_pread_correct (file : Bytes) (reqs : List (Nat × Nat)) (sched : List Nat) (c : Nat)
    (hc : c < reqs.length) (hs : c ∈ sched) :
    ((exec (init file (reqs.map fun r => progPread r.1 r.2)) sched).loc c).out
      = [some ((file.drop reqs[c].1).take reqs[c].2)] := by
  apply pread_correct
  · intro p hp
    simp only [List.mem_map] at hp
    obtain ⟨r, _, rfl⟩ := hp
    rfl
  · simp [List.getD_eq_getElem?_getD, hc]
  · exact hs

theorem readExactResult_single {b : Bytes} (hb : b ≠ []) : readExactResult [some b] = some b := by
  cases b with
  | nil => exact absurd rfl hb
  | cons x xs => simp [readExactResult]

/-- **C13 (A')**: `read_range(off, n)` of the repaired `DataReaderFile` (program `progReadRange`:
    range check, then the `read_exact_at` loop) for a range inside the file returns exactly the `n` bytes
    `file[off, off+n)` in every interleaving with any isolated programs of any other calls. -/
theorem readRange_correct (file : Bytes) (progs : List (List Sys)) (h : ∀ p ∈ progs, isolated p = true)
    (sched : List Nat) (c off n : Nat) (hn : 0 < n) (hin : off + n ≤ file.length)
    (hp : progs.getD c [] = progReadRange file.length off n) (hc : c ∈ sched) :
    readExactResult ((exec (init file progs) sched).loc c).out = some ((file.drop off).take n) ∧
    ((file.drop off).take n).length = n := by
  have hp' : progs.getD c [] = progPread off n := by
    rw [hp, progReadRange, if_neg (by omega)]; rfl
  have hlen : ((file.drop off).take n).length = n := by
    simp only [List.length_take, List.length_drop]; omega
  rw [pread_correct file progs h sched c off n hp' hc]
  refine ⟨readExactResult_single ?_, hlen⟩
  intro he; rw [he] at hlen; simp at hlen; omega

/-- the same with the range check of `read_range` in front -/
theorem readRange_result_correct (file : Bytes) (progs : List (List Sys)) (h : ∀ p ∈ progs, isolated p = true)
    (sched : List Nat) (c off n : Nat) (hn : 0 < n) (hin : off + n ≤ file.length)
    (hp : progs.getD c [] = progReadRange file.length off n) (hc : c ∈ sched) :
    readRangeResult file.length off n ((exec (init file progs) sched).loc c).out
      = some ((file.drop off).take n) := by
  rw [readRangeResult, if_pos hin]
  exact (readRange_correct file progs h sched c off n hn hin hp hc).1

/-- every program `read_range` can issue is isolated -/
theorem progReadRange_isolated (len off n : Nat) : isolated (progReadRange len off n) = true := by
  unfold progReadRange
  split <;> rfl

/-! ### (B) the code before the repair -/

theorem dupSeekRead_not_isolated (off n : Nat) : isolated (progDupSeekRead off n) = false := rfl

/-- alone, `try_clone + seek + read_exact` returns the right bytes … -/
theorem dupSeekRead_sequential (file : Bytes) (a b n : Nat) :
    sequentialOut file [progDupSeekRead a n, progDupSeekRead b n] 0 = [some ((file.drop a).take n)] := by
  simp [sequentialOut, progDupSeekRead, exec, step, init, sys, resolve, kernel0, local0,
    Kernel.setFd, Kernel.setOff, List.replicate]

/-- **C13 (B)**: … but for every file and every pair of requests there is an interleaving of two
    calls in which call 0 returns the bytes at call 1's offset (and call 1 the bytes after them). -/
theorem dup_seek_read_race (file : Bytes) (a b n : Nat) :
    let σ := exec (init file [progDupSeekRead a n, progDupSeekRead b n]) raceSchedule
    (σ.loc 0).out = [some ((file.drop b).take n)] ∧
    (σ.loc 1).out = [some ((file.drop (b + ((file.drop b).take n).length)).take n)] ∧
    σ.prog 0 = [] ∧ σ.prog 1 = [] := by
  simp [raceSchedule, progDupSeekRead, exec, step, init, sys, resolve, kernel0, local0,
    Kernel.setFd, Kernel.setOff]

/-- concrete instance: the concurrent result differs from the sequential one -/
theorem race_instance :
    let file := patFile 16
    let progs := [progDupSeekRead 0 4, progDupSeekRead 8 4]
    ((exec (init file progs) raceSchedule).loc 0).out ≠ sequentialOut file progs 0 := by
  decide

/-! ### concurrent reads commute -/

/-- **reads commute**: with isolated programs (the positional reads of `DataReaderFile`), what a call
    has returned so far depends only on HOW MANY of its own steps it has performed – not on the order
    in which its steps and the other calls' steps were interleaved.  Any two interleavings that give
    call `c` the same number of steps (in particular any two permutations of one multiset of steps)
    leave `c` in the same state. -/
theorem reads_commute (file : Bytes) (progs : List (List Sys)) (h : ∀ p ∈ progs, isolated p = true)
    (s1 s2 : List Nat) (c : Nat) (hc : s1.count c = s2.count c) :
    (exec (init file progs) s1).loc c = (exec (init file progs) s2).loc c := by
  rw [(noninterference file progs h s1 c).1, (noninterference file progs h s2 c).1,
      filter_eq_replicate, filter_eq_replicate, hc]

/-- in particular every two complete interleavings return the same bytes to every call -/
theorem schedule_independent (file : Bytes) (progs : List (List Sys)) (h : ∀ p ∈ progs, isolated p = true)
    (s1 s2 : List Nat) (c : Nat) (h1 : (progs.getD c []).length ≤ s1.count c)
    (h2 : (progs.getD c []).length ≤ s2.count c) :
    ((exec (init file progs) s1).loc c).out = ((exec (init file progs) s2).loc c).out := by
  rw [concurrent_eq_sequential file progs h s1 c h1, concurrent_eq_sequential file progs h s2 c h2]

/-- a second handle that all (large) reads share, used with `seek` then `read` as two separately
    locked steps (class of seeded regression C13-7): not isolated, and for every file and every two
    requests there is an interleaving in which call 0 reads from call 1's position -/
def progSeekReadShared (off n : Nat) : List Sys := [.lseek .shared off, .read .shared n]

theorem seekReadShared_not_isolated (off n : Nat) : isolated (progSeekReadShared off n) = false := rfl

theorem seek_read_shared_race (file : Bytes) (a b n : Nat) :
    let σ := exec (init file [progSeekReadShared a n, progSeekReadShared b n]) [0, 1, 0, 1]
    (σ.loc 0).out = [some ((file.drop b).take n)] ∧
    (σ.loc 1).out = [some ((file.drop (b + ((file.drop b).take n).length)).take n)] := by
  simp [progSeekReadShared, exec, step, init, sys, resolve, kernel0, local0, Kernel.setFd, Kernel.setOff]

/-! ### index caches under the async mutex -/

open VtModel.Cache in
theorem gos_some_is_val {c : Cache} (hi : VtModel.Cache.Inv c) (k v : Nat) :
    ∃ w, (VtModel.Cache.step c (.gos k (some v))).2 = .val w := by
  have hp := VtProps.C20.step_no_panic hi (.gos k (some v))
  simp only [VtModel.Cache.step, getOrSet?] at hp ⊢
  cases hl : lookup c k with
  | mk c1 r =>
    rw [hl] at hp
    cases r with
    | some w => exact ⟨w, rfl⟩
    | none =>
      simp only at hp ⊢
      cases ha : add? c1 k v with
      | none => simp [ha] at hp
      | some p => exact ⟨v, rfl⟩

open VtModel.Cache in
theorem gos_run (f : Nat → Nat) {c : Cache} (hi : VtModel.Cache.Inv c)
    (ha : VtProps.C20.AllP (fun k v => v = f k) c) (keys : List Nat) :
    (run c (keys.map fun k => Op.gos k (some (f k)))).2 = keys.map fun k => Res.val (f k) := by
  induction keys generalizing c with
  | nil => simp [run]
  | cons k ks ih =>
    obtain ⟨w, hw⟩ := gos_some_is_val hi k (f k)
    have h12 := VtProps.C20.step_allP ha (op := .gos k (some (f k))) (show f k = f k from rfl)
    have h3 := (VtProps.C20.step_inv hi (.gos k (some (f k)))).1
    have hres := h12.2
    rw [hw] at hres
    have hwf : w = f k := hres
    simp only [List.map_cons, run]
    rw [ih h3 h12.1, hw, hwf]

/-- **C13, cache corollary** (uses C20's invariant and soundness theorems): the critical sections
    `get_or_set(key, load)` on an index cache are serialised by the async mutex in some order
    `keys`; whatever that order, the capacity and the evictions in between, the section for key
    `k` returns `load k` — the value a sequential reader computes.  (`load k` is the decoded index
    block read with `read_range`, which by `pread_correct` does not depend on the interleaving.) -/
theorem cache_sections_sequential (load : Nat → Nat) (cap : Nat) (hcap : 1 ≤ cap) (keys : List Nat) :
    (VtModel.Cache.run (VtModel.Cache.init cap) (keys.map fun k => VtModel.Cache.Op.gos k (some (load k)))).2
      = keys.map fun k => VtModel.Cache.Res.val (load k) :=
  gos_run load (VtModel.Cache.inv_init cap hcap) (by intro e he; simp [VtModel.Cache.init] at he) keys

/-! ### non-vacuity -/

example : isolated (progPread 5 3) = true := rfl
-- a range that ends behind the file is refused before any read; an empty range inside the file is empty
example : progReadRange 5 3 4 = [] := by decide
example : readRangeResult 5 3 4 (sequentialOut [10, 11, 12, 13, 14] [progReadRange 5 3 4] 0) = none := by decide
example : readRangeResult 5 1 3 (sequentialOut [10, 11, 12, 13, 14] [progReadRange 5 1 3] 0) = some [11, 12, 13] := by decide
example : readRangeResult 5 5 0 (sequentialOut [10, 11, 12, 13, 14] [progReadRange 5 5 0] 0) = some [] := by decide
example : readRangeResult 5 9 0 (sequentialOut [10, 11, 12, 13, 14] [progReadRange 5 9 0] 0) = none := by decide
-- a short read followed by end-of-file makes `read_exact_at` fail (file truncated after open)
example : readExactResult [some [1, 2], some []] = none := by decide
example : isolated [.openNew, .lseek (.own 0) 7, .read (.own 0) 2, .close (.own 0)] = true := rfl
example : sequentialOut [10, 11, 12, 13, 14] [progPread 1 3] 0 = [some [11, 12, 13]] := by decide
example : sequentialOut [10, 11, 12, 13, 14] [progDupSeekRead 1 3] 0 = [some [11, 12, 13]] := by decide
example :
    ((exec (init [10, 11, 12, 13, 14] [progPread 1 3, progPread 0 2]) [1, 0, 1, 0]).loc 0).out = [some [11, 12, 13]] := by
  decide

end VtProps.C13
