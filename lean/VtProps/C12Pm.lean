import VtProps.C12Full
import VtProps.C12Tar
/-!
# C12 (pmtiles) at full strength — composition with the container model (C01 / C16)

* `pmtiles_crash_agree`: every crash state of `opsP` has byte 98 (tile compression) zero/absent, or
  agrees with the completed file on header bytes 0..99, on everything behind the header and in
  length, with the tile-type byte final or still zero (`AgreeP`).
* `valid_transfer`: `ValidPMTiles` (the relational description of a valid file, C16) transfers along
  `AgreeP` – `WFDir` depends on the file only through its length, `Addr` not at all, all sections
  of a written file start behind the header.
* `run_opsP` / `pm_write_shape`: the operation sequence's completed file is `PMTiles.write`'s file.
* `pmtiles_interrupted_write_safe`: the property itself, in the shape of the versatiles theorem.
* overwrite variants for both formats (`*_overwrite_interrupted_safe`).
-/
namespace VtProps.C12
open VtModel VtModel.Fmt VtModel.Crash
open VtProofs.PMTilesRead VtProofs.PMTilesWrite

/-- the crash state agrees with the completed file on everything the reader's open and lookups use:
    header bytes 0..99, all bytes behind the header, the length; byte 99 (tile type) is the final
    one or still zero -/
def AgreeP (s final : Bytes) : Prop :=
  coreP s = coreP final ∧ s.length = final.length ∧ (s[99]?.getD 0 = 0 ∨ s[99]? = final[99]?)

theorem AgreeP.refl (s : Bytes) : AgreeP s s := ⟨rfl, rfl, Or.inr rfl⟩

theorem pmtiles_crash_core_strong (p0 : Nat) (hp0 : 127 ≤ p0) (body : List Op)
    (hbody : ∀ op ∈ body, SafeOp op) (hdr : Bytes) (hlen : hdr.length = 127)
    (hF127 : 127 ≤ (body.foldl W.apply (W.empty.apply (.setPosition p0))).file.length) (i k : Nat) :
    let ops := Op.setPosition p0 :: (body ++ [Op.writeStart hdr])
    (crash ops i k)[98]?.getD 0 = 0 ∨ AgreeP (crash ops i k) (run ops).file := by
  intro ops
  cases i with
  | zero =>
    left
    simp [ops, crash, W.applyCut, W.empty, run]
    split <;> simp
  | succ i =>
    have hw0 : J (W.empty.apply (.setPosition p0)) := by
      refine ⟨fun j _ => ?_, ?_⟩ <;> simp [W.apply, W.applyCut, Op.size, W.empty]
      exact hp0
    rw [crash_eq, crashFrom_cons]
    by_cases hi : i < body.length
    · left
      rw [crashFrom_append_lt _ _ _ _ _ hi]
      exact crashFrom_safe hw0 body hbody i k 98 (by omega)
    · have hi' : body.length ≤ i := Nat.le_of_not_lt hi
      rw [crashFrom_append_ge _ _ _ _ _ hi']
      have hJ := foldl_safe hw0 body hbody
      generalize hF : body.foldl W.apply (W.empty.apply (.setPosition p0)) = wF at hJ hF127
      have hfinal : (run ops).file = hdr ++ wF.file.drop 127 := by
        simp only [ops, run, List.foldl_cons, List.foldl_append, List.foldl_nil]
        rw [show W.empty.apply (.setPosition p0) = W.empty.apply (.setPosition p0) from rfl, hF]
        simp only [W.apply, W.applyCut, Op.size, List.take_length]
        split
        · rename_i he; simp at he; rw [he] at hlen; simp at hlen
        · simp [writeAt_zero, hlen]
      cases hd : i - body.length with
      | succ d =>
        right
        have hs : crashFrom wF [Op.writeStart hdr] (d + 1) k = hdr ++ wF.file.drop 127 := by
          simp only [crashFrom, List.getElem?_cons_succ, List.getElem?_nil, List.foldl_cons, List.foldl_nil]
          simp only [W.apply, W.applyCut, Op.size, List.take_length]
          split
          · rename_i he; simp at he; rw [he] at hlen; simp at hlen
          · simp [writeAt_zero, hlen]
        rw [hs, hfinal]
        exact AgreeP.refl _
      | zero =>
        simp only [crashFrom, List.getElem?_cons_zero, List.take_zero, List.foldl_nil, W.applyCut]
        split
        · left; exact hJ.hz 98 (by omega)
        · rename_i hne
          simp only [writeAt_zero]
          have hkl : (hdr.take k).length = min k 127 := by simp [hlen]
          by_cases hk : k ≤ 98
          · left
            rw [List.getElem?_append_right (by rw [hkl]; omega), List.getElem?_drop]
            have : (hdr.take k).length + (98 - (hdr.take k).length) = 98 := by rw [hkl]; omega
            rw [this]
            exact hJ.hz 98 (by omega)
          · right
            rw [hfinal]
            have hk' : 99 ≤ k := by omega
            refine ⟨?_, ?_, ?_⟩
            · simp only [coreP]
              congr 1
              · rw [List.take_append_of_le_length (by rw [hkl]; omega),
                    List.take_append_of_le_length (by omega), List.take_take]
                congr 1; omega
              · rw [List.drop_append, List.drop_append, hkl, hlen]
                have e1 : (hdr.take k).drop 127 = [] := by
                  apply List.drop_eq_nil_of_le; rw [hkl]; omega
                have e2 : hdr.drop 127 = [] := by apply List.drop_eq_nil_of_le; omega
                rw [e1, e2, List.drop_drop]
                simp only [List.nil_append, Nat.sub_self, List.drop_zero]
                congr 1; omega
            · simp only [List.length_append, List.length_drop, hkl, hlen]; omega
            · by_cases hk99 : k = 99
              · left
                subst hk99
                rw [List.getElem?_append_right (by rw [hkl]; omega), List.getElem?_drop]
                have : (hdr.take 99).length + (99 - (hdr.take 99).length) = 99 := by rw [hkl]; omega
                rw [this]
                exact hJ.hz 99 (by omega)
              · right
                rw [List.getElem?_append_left (by rw [hkl]; omega), List.getElem?_append_left (by omega),
                    List.getElem?_take_of_lt (by omega)]



theorem cw_eq (f : Bytes) (p : Nat) (b : Bytes) : Crash.writeAt f p b = PMTiles.writeAt f p b := by
  unfold Crash.writeAt PMTiles.writeAt
  by_cases h : f.length < p
  · simp [h, zeros]
  · have : p - f.length = 0 := by omega
    simp [h, this, zeros]

theorem length_cwriteAt (f : Bytes) (p : Nat) (b : Bytes) :
    (Crash.writeAt f p b).length = max f.length (p + b.length) := by
  unfold Crash.writeAt
  simp only [List.length_append, List.length_take, List.length_drop, zeros_length]
  omega

theorem cwriteAt_nil (f : Bytes) (p : Nat) (h : p ≤ f.length) : Crash.writeAt f p [] = f := by
  unfold Crash.writeAt
  have : p - f.length = 0 := by omega
  simp [this, zeros]

theorem apply_setPosition (w : W) (p : Nat) : w.apply (.setPosition p) = { w with pos := p } := by
  simp [W.apply, W.applyCut, Op.size]

theorem apply_append (w : W) (b : Bytes) (h : w.pos ≤ w.file.length) :
    (w.apply (.append b)).file = Crash.writeAt w.file w.pos b ∧ (b ≠ [] → (w.apply (.append b)).pos = w.pos + b.length) := by
  simp only [W.apply, W.applyCut, Op.size, List.take_length]
  split
  · rename_i he
    have : b = [] := by simpa using he
    subst this
    exact ⟨(cwriteAt_nil _ _ h).symm, fun h => absurd rfl h⟩
  · exact ⟨rfl, fun _ => rfl⟩

theorem apply_writeStart (w : W) (b : Bytes) (hb : b ≠ []) :
    (w.apply (.writeStart b)).file = Crash.writeAt w.file 0 b := by
  simp only [W.apply, W.applyCut, Op.size, List.take_length]
  split
  · rename_i he; exact absurd (by simpa using he) hb
  · rfl

theorem apply_append_setPosition (w : W) (b : Bytes) (q : Nat) (h : w.pos ≤ w.file.length) :
    (w.apply (.append b)).apply (.setPosition q) = { file := Crash.writeAt w.file w.pos b, pos := q } := by
  rw [apply_setPosition, (apply_append w b h).1]

/-- the completed file of the pmtiles operation sequence, as nested positional writes -/
theorem run_opsP (metaC : Bytes) (tiles : List Bytes) (rootC leavesC hdr : Bytes)
    (hm : metaC ≠ []) (hh : hdr ≠ []) :
    (run (opsP metaC tiles rootC leavesC hdr)).file =
      Crash.writeAt (Crash.writeAt (Crash.writeAt
        (Crash.writeAt [] 16384 metaC ++ tiles.flatten) 127 rootC)
        (16384 + metaC.length + tiles.flatten.length) leavesC) 0 hdr := by
  unfold opsP run
  simp only [List.cons_append, List.nil_append, List.foldl_cons, List.foldl_append, List.foldl_nil]
  have e1 : W.empty.apply (.setPosition 16384) = { file := [], pos := 16384 } := by
    simp [W.apply, W.applyCut, Op.size, W.empty]
  have e2 : W.apply { file := [], pos := 16384 } (.append metaC)
      = { file := Crash.writeAt [] 16384 metaC, pos := 16384 + metaC.length } := by
    simp only [W.apply, W.applyCut, Op.size, List.take_length]
    split
    · rename_i he; exact absurd (by simpa using he) hm
    · rfl
  rw [e1, e2]
  have h2e : AtEnd { file := Crash.writeAt [] 16384 metaC, pos := 16384 + metaC.length } := by
    unfold AtEnd; simp only; rw [length_cwriteAt]; simp <;> omega
  obtain ⟨h3e, h3f⟩ := foldl_appends h2e tiles
  generalize (tiles.map Op.append).foldl W.apply { file := Crash.writeAt [] 16384 metaC, pos := 16384 + metaC.length } = w3 at h3e h3f
  simp only at h3f
  have h3len : w3.file.length = 16384 + metaC.length + tiles.flatten.length := by
    rw [h3f, List.length_append, length_cwriteAt]; simp <;> omega
  have e4 : w3.apply (.setPosition 127) = { file := w3.file, pos := 127 } := apply_setPosition _ _
  rw [e4, apply_append_setPosition _ _ _ (by simp only; omega)]
  simp only
  rw [apply_writeStart _ _ hh]
  rw [(apply_append _ _ (by simp only; rw [length_cwriteAt]; omega)).1]
  simp only
  rw [h3f]

theorem applyCut_length_ge (w : W) {op : Op} (hs : SafeOp op) (k : Nat) :
    w.file.length ≤ (w.applyCut op k).file.length := by
  cases op with
  | append b =>
    simp only [W.applyCut]
    split
    · exact Nat.le_refl _
    · simp only [length_cwriteAt]; omega
  | writeStart b => exact absurd hs (by simp [SafeOp])
  | truncate => exact absurd hs (by simp [SafeOp])
  | setPosition p =>
    simp only [W.applyCut]
    split <;> exact Nat.le_refl _

theorem foldl_length_ge (w : W) (ops : List Op) (hs : ∀ op ∈ ops, SafeOp op) :
    w.file.length ≤ (ops.foldl W.apply w).file.length := by
  induction ops generalizing w with
  | nil => exact Nat.le_refl _
  | cons op ops ih =>
    exact Nat.le_trans (applyCut_length_ge w (hs op (by simp)) _) (ih _ (fun o ho => hs o (by simp [ho])))

/-- the body of the pmtiles operation sequence (between the first `set_position` and the header) -/
def bodyP (metaC : Bytes) (tiles : List Bytes) (rootC leavesC : Bytes) : List Op :=
  [Op.append metaC] ++ tiles.map Op.append ++
    [.setPosition 127, .append rootC, .setPosition (16384 + metaC.length + tiles.flatten.length), .append leavesC]

theorem bodyP_safe (metaC : Bytes) (tiles : List Bytes) (rootC leavesC : Bytes) :
    ∀ op ∈ bodyP metaC tiles rootC leavesC, SafeOp op := by
  intro op hop
  simp only [bodyP, List.mem_append, List.mem_cons, List.mem_map, List.mem_nil_iff, or_false] at hop
  rcases hop with (rfl | ⟨b, _, rfl⟩) | rfl | rfl | rfl | rfl <;> simp [SafeOp]
  omega

theorem bodyP_length (metaC : Bytes) (tiles : List Bytes) (rootC leavesC : Bytes) (hm : metaC ≠ []) :
    127 ≤ ((bodyP metaC tiles rootC leavesC).foldl W.apply (W.empty.apply (.setPosition 16384))).file.length := by
  have e1 : W.empty.apply (.setPosition 16384) = { file := [], pos := 16384 } := by
    simp [W.apply, W.applyCut, Op.size, W.empty]
  have e2 : W.apply { file := [], pos := 16384 } (.append metaC)
      = { file := Crash.writeAt [] 16384 metaC, pos := 16384 + metaC.length } := by
    simp only [W.apply, W.applyCut, Op.size, List.take_length]
    split
    · rename_i he; exact absurd (by simpa using he) hm
    · rfl
  rw [e1]
  unfold bodyP
  rw [List.append_assoc, List.singleton_append, List.foldl_cons, e2]
  refine Nat.le_trans ?_ (foldl_length_ge _ _ ?_)
  · simp only [length_cwriteAt]; omega
  · intro op hop
    apply bodyP_safe metaC tiles rootC leavesC op
    unfold bodyP
    rw [List.singleton_append]
    rcases List.mem_append.1 hop with h | h
    · exact List.mem_append.2 (Or.inl (List.mem_cons_of_mem _ h))
    · exact List.mem_append.2 (Or.inr h)

/-- strong crash core for the real operation sequence -/
theorem pmtiles_crash_agree (metaC : Bytes) (tiles : List Bytes) (rootC leavesC hdr : Bytes)
    (hm : metaC ≠ []) (hlen : hdr.length = 127) (i k : Nat) :
    let ops := opsP metaC tiles rootC leavesC hdr
    (crash ops i k)[98]?.getD 0 = 0 ∨ AgreeP (crash ops i k) (run ops).file := by
  intro ops
  have := pmtiles_crash_core_strong 16384 (by omega) (bodyP metaC tiles rootC leavesC)
    (bodyP_safe metaC tiles rootC leavesC) hdr hlen (bodyP_length metaC tiles rootC leavesC hm) i k
  have hshape : opsP metaC tiles rootC leavesC hdr =
      Op.setPosition 16384 :: (bodyP metaC tiles rootC leavesC ++ [Op.writeStart hdr]) := by
    simp [opsP, bodyP]
  simpa only [ops, hshape] using this



/-- the header a 127-byte string decodes to -/
def pmHdr (bs : Bytes) : PMTiles.Header :=
  { root := { off := leDec (List.take 8 (List.drop 8 bs)), len := leDec (List.take 8 (List.drop 16 bs)) },
    metaR := { off := leDec (List.take 8 (List.drop 24 bs)), len := leDec (List.take 8 (List.drop 32 bs)) },
    leaf := { off := leDec (List.take 8 (List.drop 40 bs)), len := leDec (List.take 8 (List.drop 48 bs)) },
    data := { off := leDec (List.take 8 (List.drop 56 bs)), len := leDec (List.take 8 (List.drop 64 bs)) },
    addressed := leDec (List.take 8 (List.drop 72 bs)), entries := leDec (List.take 8 (List.drop 80 bs)),
    contents := leDec (List.take 8 (List.drop 88 bs)), clustered := leDec (List.take 1 (List.drop 96 bs)) == 1,
    icomp := leDec (List.take 1 (List.drop 97 bs)), tcomp := leDec (List.take 1 (List.drop 98 bs)),
    ttype := leDec (List.take 1 (List.drop 99 bs)), minz := leDec (List.take 1 (List.drop 100 bs)),
    maxz := leDec (List.take 1 (List.drop 101 bs)), minlon := natToI32 (leDec (List.take 4 (List.drop 102 bs))),
    minlat := natToI32 (leDec (List.take 4 (List.drop 106 bs))),
    maxlon := natToI32 (leDec (List.take 4 (List.drop 110 bs))),
    maxlat := natToI32 (leDec (List.take 4 (List.drop 114 bs))), cz := leDec (List.take 1 (List.drop 118 bs)),
    clon := natToI32 (leDec (List.take 4 (List.drop 119 bs))),
    clat := natToI32 (leDec (List.take 4 (List.drop 123 bs))) }

def pmValid (bs : Bytes) : Prop :=
  List.take 7 bs = PMTiles.magic ∧ leDec (List.take 1 (List.drop 7 bs)) = 3 ∧
  leDec (List.take 1 (List.drop 97 bs)) ≤ 4 ∧ leDec (List.take 1 (List.drop 98 bs)) ≤ 4 ∧
  leDec (List.take 1 (List.drop 99 bs)) ≤ 5

/-- `HeaderV3::deserialize` on 127 bytes, in closed form -/
theorem pm_decHeader_iff {bs : Bytes} (hbl : bs.length = 127) (hd : PMTiles.Header) :
    PMTiles.decHeader bs = .ok hd ↔ pmValid bs ∧ hd = pmHdr bs := by
  constructor
  · intro h
    simp [PMTiles.decHeader, ensure, Fmt.takeN, readLE, readI32LE, hbl, List.length_drop, List.drop_eq_nil_iff] at h
    split at h
    · split at h
      · split at h
        · split at h
          · split at h
            · rename_i a b c d e
              cases h
              exact ⟨⟨a, b, c, d, e⟩, rfl⟩
            · simp at h
          · simp at h
        · simp at h
      · simp at h
    · simp at h
  · rintro ⟨⟨a, b, c, d, e⟩, rfl⟩
    simp [PMTiles.decHeader, ensure, Fmt.takeN, readLE, readI32LE, hbl, List.length_drop, List.drop_eq_nil_iff,
      a, b, c, d, e, pmHdr]

/-! ### agreement lemmas -/

theorem take_drop_of_take (l : Bytes) (m a n : Nat) (h : a + n ≤ m) :
    ((l.take m).drop a).take n = (l.drop a).take n := by
  rw [List.drop_take, List.take_take]
  congr 1; omega

theorem take_drop_agree {s f : Bytes} {m : Nat} (h : s.take m = f.take m) (a n : Nat) (ha : a + n ≤ m) :
    (s.drop a).take n = (f.drop a).take n := by
  rw [← take_drop_of_take s m a n ha, ← take_drop_of_take f m a n ha, h]

theorem take_agree {s f : Bytes} {m : Nat} (h : s.take m = f.take m) (n : Nat) (hn : n ≤ m) :
    s.take n = f.take n := by
  have := take_drop_agree h 0 n (by omega)
  simpa using this

theorem readRange_agree {s f : Bytes} (hlen : s.length = f.length) (h127 : s.drop 127 = f.drop 127)
    (r : Range) (hr : 127 ≤ r.off) : readRange s r = readRange f r := by
  unfold readRange
  rw [hlen]
  have : s.drop r.off = f.drop r.off := by
    have e : r.off = 127 + (r.off - 127) := by omega
    rw [e, ← List.drop_drop, ← List.drop_drop, h127]
  rw [this]

theorem slice_agree {s f : Bytes} (h127 : s.drop 127 = f.drop 127) (r : Range) (hr : 127 ≤ r.off) :
    Fmt.slice s r = Fmt.slice f r := by
  unfold Fmt.slice
  have : s.drop r.off = f.drop r.off := by
    have e : r.off = 127 + (r.off - 127) := by omega
    rw [e, ← List.drop_drop, ← List.drop_drop, h127]
  rw [this]

theorem wfdir_congr (K : Inflate) (ic : TComp) (leaves f s : Bytes) (dataOff : Nat) (hlen : s.length = f.length) :
    ∀ (d lo hi : Nat) (raw : Bytes),
      WFDir ⟨K, ic, leaves, f, dataOff⟩ d lo hi raw → WFDir ⟨K, ic, leaves, s, dataOff⟩ d lo hi raw := by
  intro d
  induction d with
  | zero =>
    intro lo hi raw h
    obtain ⟨es, h1, h2, h3⟩ := h
    refine ⟨es, h1, h2, fun k hk => ?_⟩
    obtain ⟨a, b, c, e⟩ := h3 k hk
    refine ⟨a, b, fun hr => ?_, e⟩
    obtain ⟨c1, c2⟩ := c hr
    exact ⟨c1, fun hl => by have := c2 hl; simp only at this ⊢; omega⟩
  | succ d ih =>
    intro lo hi raw h
    obtain ⟨es, h1, h2, h3⟩ := h
    refine ⟨es, h1, h2, fun k hk => ?_⟩
    obtain ⟨a, b, c, e⟩ := h3 k hk
    refine ⟨a, b, fun hr => ?_, fun hr hl => ?_⟩
    · obtain ⟨c1, c2⟩ := c hr
      exact ⟨c1, fun hl => by have := c2 hl; simp only at this ⊢; omega⟩
    · obtain ⟨raw', l1, l2⟩ := e hr hl
      exact ⟨raw', l1, ih _ _ _ l2⟩

theorem addr_congr (K : Inflate) (ic : TComp) (leaves f s : Bytes) (dataOff : Nat) :
    ∀ (d : Nat) (raw : Bytes) (i : Nat) (t : PMTiles.Entry),
      Addr ⟨K, ic, leaves, f, dataOff⟩ d raw i t ↔ Addr ⟨K, ic, leaves, s, dataOff⟩ d raw i t := by
  intro d
  induction d with
  | zero => intro raw i t; exact Iff.rfl
  | succ d ih =>
    intro raw i t
    constructor
    · rintro ⟨es, h1, h2⟩
      refine ⟨es, h1, ?_⟩
      rcases h2 with h2 | ⟨e, he, a, b, raw', l1, l2⟩
      · exact Or.inl h2
      · exact Or.inr ⟨e, he, a, b, raw', l1, (ih _ _ _).1 l2⟩
    · rintro ⟨es, h1, h2⟩
      refine ⟨es, h1, ?_⟩
      rcases h2 with h2 | ⟨e, he, a, b, raw', l1, l2⟩
      · exact Or.inl h2
      · exact Or.inr ⟨e, he, a, b, raw', l1, (ih _ _ _).2 l2⟩

theorem leDec_take1 (l : Bytes) (a : Nat) : leDec ((l.drop a).take 1) = (l[a]?.getD 0).toNat := by
  have h0 : (l.drop a)[0]? = l[a]? := by rw [List.getElem?_drop]; simp
  cases hd : l.drop a with
  | nil =>
    rw [hd] at h0
    have : l[a]? = none := by rw [← h0]; rfl
    simp [leDec, this]
  | cons x xs =>
    rw [hd] at h0
    have : l[a]? = some x := by rw [← h0]; rfl
    simp [leDec, this]

/-- **`ValidPMTiles` transfers along the agreement** of a crash state with the completed file
    (header bytes 0..99, everything behind the header, the length; tile type final or zero), when
    all sections of the completed file start behind the header. -/
theorem valid_transfer {K : Inflate} {f s : Bytes} {fmt : TileFormat} {comp : TComp}
    {m : Nat × Nat × Nat → Option Bytes} (v : ValidPMTiles K f fmt comp m) (ag : AgreeP s f)
    (hoff : 127 ≤ (pmHdr (f.take 127)).root.off ∧ 127 ≤ (pmHdr (f.take 127)).metaR.off ∧
            127 ≤ (pmHdr (f.take 127)).leaf.off ∧ 127 ≤ (pmHdr (f.take 127)).data.off) :
    ∃ fmt', ValidPMTiles K s fmt' comp m := by
  obtain ⟨hcore, hlen, h99b⟩ := ag
  have h99 : s.take 99 = f.take 99 := (Prod.mk.inj hcore).1
  have h127 : s.drop 127 = f.drop 127 := (Prod.mk.inj hcore).2
  obtain ⟨h, ic, root, leaves, d, ⟨hb, hh1, hh2⟩, hic, ⟨mb, mraw, hm1, hm2⟩, ⟨rc, hr1, hr2⟩, hlv, htc, hfmt, hd, hwf, hmap⟩ := v.ex
  -- the header bytes of the completed file
  have hfl : 127 ≤ f.length ∧ hb = f.take 127 := by
    unfold readRange at hh1
    split at hh1
    · cases hh1
    · split at hh1
      · cases hh1
      · rename_i _ hle
        exact ⟨by simp at hle; omega, by simpa using (Outcome.ok.inj hh1).symm⟩
  obtain ⟨hf127, hhb⟩ := hfl
  have hbl : hb.length = 127 := by rw [hhb]; simp; omega
  obtain ⟨⟨va, vb, vc, vd, ve⟩, hh⟩ := (pm_decHeader_iff hbl h).1 hh2
  rw [hhb] at va vb vc vd ve hh
  rw [← hh] at hoff
  -- the header bytes of the crash state
  have hsl : (s.take 127).length = 127 := by simp; omega
  have hsU : s.length < U64 := by rw [hlen]; exact v.size
  have hrs : readRange s ⟨0, 127⟩ = .ok (s.take 127) := by
    unfold readRange
    have h1 : ¬ (0 + 127 ≥ U64) := by unfold U64; omega
    have h2 : ¬ (0 + 127 > s.length) := by omega
    simp [h1, h2]
  have fld : ∀ a n, a + n ≤ 99 →
      List.take n (List.drop a (s.take 127)) = List.take n (List.drop a (f.take 127)) := by
    intro a n han
    rw [take_drop_of_take s 127 a n (by omega), take_drop_of_take f 127 a n (by omega)]
    exact take_drop_agree h99 a n han
  have hvalid : pmValid (s.take 127) := by
    refine ⟨?_, ?_, ?_, ?_, ?_⟩
    · have := fld 0 7 (by omega); simp only [List.drop_zero] at this; rw [this]; exact va
    · rw [fld 7 1 (by omega)]; exact vb
    · rw [fld 97 1 (by omega)]; exact vc
    · rw [fld 98 1 (by omega)]; exact vd
    · rw [take_drop_of_take s 127 99 1 (by omega), leDec_take1]
      rcases h99b with h0 | he
      · rw [h0]; simp
      · rw [he, ← leDec_take1, ← take_drop_of_take f 127 99 1 (by omega)]; exact ve
  have hdec : PMTiles.decHeader (s.take 127) = .ok (pmHdr (s.take 127)) :=
    (pm_decHeader_iff hsl _).2 ⟨hvalid, rfl⟩
  -- the fields the reader uses are those of the completed file
  have eroot : (pmHdr (s.take 127)).root = h.root := by rw [hh]; simp only [pmHdr]; rw [fld 8 8 (by omega), fld 16 8 (by omega)]
  have emeta : (pmHdr (s.take 127)).metaR = h.metaR := by rw [hh]; simp only [pmHdr]; rw [fld 24 8 (by omega), fld 32 8 (by omega)]
  have eleaf : (pmHdr (s.take 127)).leaf = h.leaf := by rw [hh]; simp only [pmHdr]; rw [fld 40 8 (by omega), fld 48 8 (by omega)]
  have edoff : (pmHdr (s.take 127)).data.off = h.data.off := by rw [hh]; simp only [pmHdr]; rw [fld 56 8 (by omega)]
  have eic : (pmHdr (s.take 127)).icomp = h.icomp := by rw [hh]; simp only [pmHdr]; rw [fld 97 1 (by omega)]
  have etc : (pmHdr (s.take 127)).tcomp = h.tcomp := by rw [hh]; simp only [pmHdr]; rw [fld 98 1 (by omega)]
  refine ⟨PMTiles.fmtOfType (pmHdr (s.take 127)).ttype, hsU, pmHdr (s.take 127), ic, root, leaves, d,
    ⟨s.take 127, hrs, hdec⟩, by rw [eic]; exact hic, ⟨mb, mraw, ?_, hm2⟩, ⟨rc, ?_, hr2⟩, ?_, by rw [etc]; exact htc, rfl, hd, ?_, ?_⟩
  · rw [emeta, readRange_agree hlen h127 _ hoff.2.1]; exact hm1
  · rw [eroot, readRange_agree hlen h127 _ hoff.1]; exact hr1
  · rw [eleaf, readRange_agree hlen h127 _ hoff.2.2.1]; exact hlv
  · rw [edoff]; exact wfdir_congr K ic leaves f s h.data.off hlen d 0 _ root hwf
  · intro x y z blob hz hx hy
    rw [edoff, hmap x y z blob hz hx hy]
    constructor
    · rintro ⟨t, ht, hl, hbq⟩
      exact ⟨t, (addr_congr K ic leaves f s h.data.off d root _ t).1 ht, hl,
        by rw [hbq]; exact (slice_agree h127 _ (by simp only; omega)).symm⟩
    · rintro ⟨t, ht, hl, hbq⟩
      exact ⟨t, (addr_congr K ic leaves f s h.data.off d root _ t).2 ht, hl,
        by rw [hbq]; exact slice_agree h127 _ (by simp only; omega)⟩



/-- shape of the file the pmtiles writer model produces -/
theorem pm_write_shape {enc : Bytes → Bytes} {s : PMTiles.Source} {file : Bytes}
    (hw : PMTiles.write enc s = .ok file) :
    ∃ (n : Nat) (data root leaves : Bytes),
      file = PMTiles.writeAt (PMTiles.writeAt (PMTiles.writeAt (PMTiles.writeAt (PMTiles.writeAt [] 16384 s.metaB)
          (16384 + s.metaB.length) data) 127 root) (16384 + s.metaB.length + data.length) leaves) 0
        (PMTiles.encHeader (PMTiles.mkHeader s root.length leaves.length data.length n)) := by
  unfold PMTiles.write at hw
  simp only at hw
  -- peel the guards and matches of the writer model; only one branch returns `.ok`
  repeat' (first
    | (split at hw)
    | (cases hw; done))
  all_goals first
    | (cases hw; done)
    | (simp only [Outcome.ok.injEq] at hw; exact ⟨_, _, _, _, hw.symm⟩)

theorem drop_leEnc_nil (k v n : Nat) (h : k ≤ n) : (leEnc k v).drop n = [] :=
  List.drop_eq_nil_of_le (by simp; exact h)

/-- the four section offsets survive `serialize` / `deserialize` -/
theorem pmHdr_enc_offsets (h : PMTiles.Header) (b1 : h.root.off < 256 ^ 8) (b2 : h.metaR.off < 256 ^ 8)
    (b3 : h.leaf.off < 256 ^ 8) (b4 : h.data.off < 256 ^ 8) :
    (pmHdr (PMTiles.encHeader h)).root.off = h.root.off ∧ (pmHdr (PMTiles.encHeader h)).metaR.off = h.metaR.off ∧
    (pmHdr (PMTiles.encHeader h)).leaf.off = h.leaf.off ∧ (pmHdr (PMTiles.encHeader h)).data.off = h.data.off := by
  refine ⟨?_, ?_, ?_, ?_⟩ <;>
    simp [pmHdr, PMTiles.encHeader, PMTiles.magic, List.drop_append,
      VtProofs.Fmt.leDec_leEnc, b1, b2, b3, b4, drop_leEnc_nil]

/-- **C12 (pmtiles), full statement.**  For every source the writer model accepts (hypotheses of
    `VtProps.C01.pmtiles_roundtrip`) and ANY split `tl` of the written tile data into appended blobs
    (the real writer appends every tile separately): the operation sequence `opsP` produces the
    writer model's file, and in EVERY crash state (operation prefix + byte cut) the reader model
    either does not open the file, or opens it and returns for every valid coordinate exactly the
    source's tile. -/
theorem pmtiles_interrupted_write_safe (K : Inflate) (enc : Bytes → Bytes) (s : PMTiles.Source)
    (tiles : Nat × Nat × Nat → Option Bytes) (gs : GoodStream s.levels s.stream tiles)
    (hK : ∀ b, K.gzip (enc b) = some b) (hnil : K.gzip [] = none)
    (hmeta : ∃ raw, K.run .gzip s.metaB = .ok raw) (hcz : s.cz < 256)
    (hgeo : VtProofs.VersatilesWrite.i32ok s.minlon ∧ VtProofs.VersatilesWrite.i32ok s.minlat ∧
      VtProofs.VersatilesWrite.i32ok s.maxlon ∧ VtProofs.VersatilesWrite.i32ok s.maxlat ∧
      VtProofs.VersatilesWrite.i32ok s.clon ∧ VtProofs.VersatilesWrite.i32ok s.clat)
    (hcount : ((s.levels.flatMap PMTiles.grid256).flatMap s.stream).length ≤ 10000000000)
    (file : Bytes) (hw : PMTiles.write enc s = .ok file) (hsize : file.length < U64) :
    ∃ (data root leaves hdr : Bytes), hdr.length = 127 ∧ ∀ tl : List Bytes, tl.flatten = data →
      (run (opsP s.metaB tl root leaves hdr)).file = file ∧
      ∀ i k,
        (∀ r, PMTiles.openReader K (crash (opsP s.metaB tl root leaves hdr) i k) ≠ .ok r) ∨
        (∃ r, PMTiles.openReader K (crash (opsP s.metaB tl root leaves hdr) i k) = .ok r ∧
          ∀ x y z, z ≤ 31 → x < 2 ^ z → y < 2 ^ z →
            PMTiles.getTile r x y z = .ok (VtProofs.VersatilesWrite.nonEmpty (tiles (x, y, z)))) := by
  obtain ⟨n, data, root, leaves, hfile⟩ := pm_write_shape hw
  let H := PMTiles.mkHeader s root.length leaves.length data.length n
  have hlen : (PMTiles.encHeader H).length = 127 := VtProofs.PMTiles.length_encHeader H
  refine ⟨data, root, leaves, PMTiles.encHeader H, hlen, fun tl htl => ?_⟩
  have hm : s.metaB ≠ [] := by
    intro he
    obtain ⟨raw, hr⟩ := hmeta
    rw [he] at hr
    simp [Inflate.run, hnil] at hr
  have hh : PMTiles.encHeader H ≠ [] := by
    intro he; rw [he] at hlen; simp at hlen
  -- the nested positional writes
  let f1 := PMTiles.writeAt [] 16384 s.metaB
  have hl1 : f1.length = 16384 + s.metaB.length := by
    show (PMTiles.writeAt [] 16384 s.metaB).length = _
    rw [VtProofs.PMTilesWrite.writeAt_nil, List.length_append, List.length_replicate]
  let f4 := PMTiles.writeAt (PMTiles.writeAt (PMTiles.writeAt f1 (16384 + s.metaB.length) data) 127 root)
    (16384 + s.metaB.length + data.length) leaves
  have hfile' : file = PMTiles.writeAt f4 0 (PMTiles.encHeader H) := hfile
  have hf4len : 16384 + s.metaB.length + data.length ≤ f4.length :=
    Nat.le_trans (Nat.le_add_right _ _)
      (VtProofs.PMTilesWrite.length_writeAt (PMTiles.writeAt (PMTiles.writeAt f1 (16384 + s.metaB.length) data) 127 root)
        (16384 + s.metaB.length + data.length) leaves).2
  have hflen : f4.length ≤ file.length := by
    rw [hfile']; exact (VtProofs.PMTilesWrite.length_writeAt f4 0 _).1
  have hrun : (run (opsP s.metaB tl root leaves (PMTiles.encHeader H))).file = file := by
    rw [run_opsP _ _ _ _ _ hm hh, htl, cw_eq, cw_eq, cw_eq, cw_eq, hfile']
    have : PMTiles.writeAt f1 (16384 + s.metaB.length) data = f1 ++ data := by
      rw [← hl1]; exact VtProofs.PMTilesWrite.writeAt_end f1 data
    simp only [f4, this]
    rfl
  -- the sections of the completed file start behind the header
  have htake : file.take 127 = PMTiles.encHeader H := by
    rw [hfile']
    unfold PMTiles.writeAt
    simp only [Nat.not_lt_zero, if_false, List.take_zero, List.nil_append, Nat.zero_add]
    rw [List.take_append_of_le_length (by omega), List.take_of_length_le (by omega)]
  have hU : U64 = 256 ^ 8 := by decide
  have hoffs := pmHdr_enc_offsets H (by show (127 : Nat) < 256 ^ 8; decide) (by show (16384 : Nat) < 256 ^ 8; decide)
    (by show 16384 + s.metaB.length + data.length < 256 ^ 8; rw [← hU]; omega)
    (by show 16384 + s.metaB.length < 256 ^ 8; rw [← hU]; omega)
  have hoff : 127 ≤ (pmHdr (file.take 127)).root.off ∧ 127 ≤ (pmHdr (file.take 127)).metaR.off ∧
      127 ≤ (pmHdr (file.take 127)).leaf.off ∧ 127 ≤ (pmHdr (file.take 127)).data.off := by
    rw [htake, hoffs.1, hoffs.2.1, hoffs.2.2.1, hoffs.2.2.2]
    refine ⟨?_, ?_, ?_, ?_⟩
    · show 127 ≤ (127 : Nat); omega
    · show 127 ≤ (16384 : Nat); omega
    · show 127 ≤ 16384 + s.metaB.length + data.length; omega
    · show 127 ≤ 16384 + s.metaB.length; omega
  have v := write_valid_full K enc s tiles gs hK hnil hmeta hcz hgeo hcount file hw hsize
  refine ⟨hrun, fun i k => ?_⟩
  rcases pmtiles_crash_agree s.metaB tl root leaves (PMTiles.encHeader H) hm hlen i k with h | h
  · exact Or.inl (pm_not_open_of_byte98 h)
  · right
    rw [hrun] at h
    obtain ⟨fmt', v'⟩ := valid_transfer v h hoff
    obtain ⟨r, hr, _, _, hall⟩ := pmtiles_complete v'
    exact ⟨r, hr, hall⟩


/-! ### writing over an existing file (`File::create` = truncation first) -/

open VtProofs.VersatilesWrite in
/-- **C12 (versatiles), over any existing file `old`**: as `versatiles_interrupted_write_safe`, with
    the truncation of `File::create` as the first operation – a crash state is the untouched old file
    (the writer has not been created yet), or is not opened, or opens with every tile of the NEW source. -/
theorem versatiles_overwrite_interrupted_safe (K : Inflate) (enc : Bytes → Bytes) (s : Versatiles.Source)
    (tiles : Nat × Nat × Nat → Option Bytes) (gs : GoodSource s tiles)
    (hK : ∀ b, K.brotli (enc b) = some b) (hnil : K.brotli [] = none)
    (hprefix : ∀ b p, p <+: enc b → p ≠ enc b → K.brotli p = none)
    (hmeta : s.metaB.length > 0 → ∃ raw, K.run s.comp s.metaB = .ok raw)
    (file : Bytes) (defs : List Versatiles.BlockDef) (hw : Versatiles.write enc s = .ok (file, defs))
    (hsize : file.length < U64) (hidx32 : ∀ d ∈ defs, d.index.len < 2 ^ 32) (old : Bytes) :
    ∃ (pre body idxC : Bytes), pre.length = 34 ∧ ∀ mid : List Bytes, mid.flatten = body →
      (runOn old (Op.truncate :: opsV pre s.metaB mid idxC)).file = file ∧
      ∀ i k,
        crashOn old (Op.truncate :: opsV pre s.metaB mid idxC) i k = old ∨
        (∀ r, Versatiles.openReader K (crashOn old (Op.truncate :: opsV pre s.metaB mid idxC) i k) ≠ .ok r) ∨
        (∃ r, Versatiles.openReader K (crashOn old (Op.truncate :: opsV pre s.metaB mid idxC) i k) = .ok r ∧
          ∀ x y z, z ≤ 31 → Versatiles.getTile r x y z = .ok (nonEmpty (tiles (x, y, z)))) := by
  obtain ⟨pre, body, idxC, hpre, hall⟩ :=
    versatiles_interrupted_write_safe K enc s tiles gs hK hnil hprefix hmeta file defs hw hsize hidx32
  refine ⟨pre, body, idxC, hpre, fun mid hmid => ?_⟩
  obtain ⟨hrun, hcr⟩ := hall mid hmid
  refine ⟨by rw [runOn_truncate]; exact hrun, fun i k => ?_⟩
  cases i with
  | zero =>
    rcases crashOn_truncate_zero old (opsV pre s.metaB mid idxC) k with h | h
    · exact Or.inl h
    · right; left
      rw [h]
      exact not_open_of_indexFails (fun hd hhd => by simp [Crash.slice] at hhd)
  | succ i =>
    right
    rw [crashOn_truncate]
    exact hcr i k

/-- **C12 (pmtiles), over any existing file `old`** -/
theorem pmtiles_overwrite_interrupted_safe (K : Inflate) (enc : Bytes → Bytes) (s : PMTiles.Source)
    (tiles : Nat × Nat × Nat → Option Bytes) (gs : GoodStream s.levels s.stream tiles)
    (hK : ∀ b, K.gzip (enc b) = some b) (hnil : K.gzip [] = none)
    (hmeta : ∃ raw, K.run .gzip s.metaB = .ok raw) (hcz : s.cz < 256)
    (hgeo : VtProofs.VersatilesWrite.i32ok s.minlon ∧ VtProofs.VersatilesWrite.i32ok s.minlat ∧
      VtProofs.VersatilesWrite.i32ok s.maxlon ∧ VtProofs.VersatilesWrite.i32ok s.maxlat ∧
      VtProofs.VersatilesWrite.i32ok s.clon ∧ VtProofs.VersatilesWrite.i32ok s.clat)
    (hcount : ((s.levels.flatMap PMTiles.grid256).flatMap s.stream).length ≤ 10000000000)
    (file : Bytes) (hw : PMTiles.write enc s = .ok file) (hsize : file.length < U64) (old : Bytes) :
    ∃ (data root leaves hdr : Bytes), hdr.length = 127 ∧ ∀ tl : List Bytes, tl.flatten = data →
      (runOn old (Op.truncate :: opsP s.metaB tl root leaves hdr)).file = file ∧
      ∀ i k,
        crashOn old (Op.truncate :: opsP s.metaB tl root leaves hdr) i k = old ∨
        (∀ r, PMTiles.openReader K (crashOn old (Op.truncate :: opsP s.metaB tl root leaves hdr) i k) ≠ .ok r) ∨
        (∃ r, PMTiles.openReader K (crashOn old (Op.truncate :: opsP s.metaB tl root leaves hdr) i k) = .ok r ∧
          ∀ x y z, z ≤ 31 → x < 2 ^ z → y < 2 ^ z →
            PMTiles.getTile r x y z = .ok (VtProofs.VersatilesWrite.nonEmpty (tiles (x, y, z)))) := by
  obtain ⟨data, root, leaves, hdr, hlen, hall⟩ :=
    pmtiles_interrupted_write_safe K enc s tiles gs hK hnil hmeta hcz hgeo hcount file hw hsize
  refine ⟨data, root, leaves, hdr, hlen, fun tl htl => ?_⟩
  obtain ⟨hrun, hcr⟩ := hall tl htl
  refine ⟨by rw [runOn_truncate]; exact hrun, fun i k => ?_⟩
  cases i with
  | zero =>
    rcases crashOn_truncate_zero old (opsP s.metaB tl root leaves hdr) k with h | h
    · exact Or.inl h
    · right; left
      rw [h]
      exact pm_not_open_of_byte98 (by simp)
  | succ i =>
    right
    rw [crashOn_truncate]
    exact hcr i k

/-! ### which reader outputs depend on header bytes 99..126 (seeded regression C12-5) -/

/-- everything a successful `open_reader` has computed, and from what -/
theorem pm_openReader_inv {K : Inflate} {file : Bytes} {r : PMTiles.Reader}
    (h : PMTiles.openReader K file = .ok r) :
    ∃ hb m x rc cov, readRange file ⟨0, 127⟩ = .ok hb ∧ PMTiles.decHeader hb = .ok r.header ∧
      PMTiles.compOfCode r.header.icomp = .ok r.icomp ∧
      readRange file r.header.metaR = .ok m ∧ K.run r.icomp m = .ok x ∧
      readRange file r.header.root = .ok rc ∧ K.run r.icomp rc = .ok r.root ∧
      readRange file r.header.leaf = .ok r.leaves ∧
      PMTiles.coverDir K r.icomp r.leaves 3 PMTiles.Cover.empty r.root = .ok cov ∧
      r.cover = cov.filterMap id := by
  unfold PMTiles.openReader at h
  cases h1 : readRange file ⟨0, 127⟩ with
  | err => simp [h1] at h
  | panic => simp [h1] at h
  | ok hb =>
    simp only [h1, ok_bind] at h
    cases h2 : PMTiles.decHeader hb with
    | err => simp [h2] at h
    | panic => simp [h2] at h
    | ok hd =>
      simp only [h2, ok_bind] at h
      cases h3 : PMTiles.compOfCode hd.icomp with
      | err => simp [h3] at h
      | panic => simp [h3] at h
      | ok ic =>
        simp only [h3, ok_bind] at h
        cases h4 : readRange file hd.metaR with
        | err => simp [h4] at h
        | panic => simp [h4] at h
        | ok m =>
          simp only [h4, ok_bind] at h
          cases h5 : K.run ic m with
          | err => simp [h5] at h
          | panic => simp [h5] at h
          | ok x5 =>
            simp only [h5, ok_bind] at h
            cases h6 : readRange file hd.root with
            | err => simp [h6] at h
            | panic => simp [h6] at h
            | ok rc =>
              simp only [h6, ok_bind] at h
              cases h7 : K.run ic rc with
              | err => simp [h7] at h
              | panic => simp [h7] at h
              | ok root =>
                simp only [h7, ok_bind] at h
                cases h8 : readRange file hd.leaf with
                | err => simp [h8] at h
                | panic => simp [h8] at h
                | ok leaves =>
                  simp only [h8, ok_bind] at h
                  cases h9 : PMTiles.coverDir K ic leaves 3 PMTiles.Cover.empty root with
                  | err => simp [h9] at h
                  | panic => simp [h9] at h
                  | ok cov =>
                    simp only [h9, ok_bind] at h
                    cases h10 : PMTiles.compOfCode hd.tcomp with
                    | err => simp [h10] at h
                    | panic => simp [h10] at h
                    | ok c =>
                      simp only [h10, ok_bind, pure_eq, Outcome.ok.injEq] at h
                      subst h
                      exact ⟨hb, m, x5, rc, cov, rfl, h2, h3, h4, h5, h6, h7, h8, h9, rfl⟩

theorem readRange_127 {file hb : Bytes} (h : readRange file ⟨0, 127⟩ = .ok hb) : 127 ≤ file.length ∧ hb = file.take 127 := by
  unfold readRange at h
  split at h
  · cases h
  · split at h
    · cases h
    · rename_i _ hle
      exact ⟨by simp at hle; omega, by simpa using (Outcome.ok.inj h).symm⟩

/-- **which reader outputs can depend on header bytes 99..126.**  If a crash state `s` and the
    completed file `f` are both opened and agree (`AgreeP`: header bytes 0..99, everything behind the
    header, the length) and the sections of `f` start behind the header, then the two readers have
    the same directories (root, leaves), internal and tile compression, tile-data offset AND THE SAME
    COVERAGE (`cover`, computed by walking the directories – `calc_bbox_pyramid`, reader.rs:119-158;
    that this walk yields exactly the stored tiles is C03's `runs_cover_exact`).  What may differ are
    only the header fields at bytes 99..126: tile type (→ declared format), min/max zoom, bounds,
    centre – metadata the unchanged reader does not use for coverage, streams or lookups. -/
theorem pmtiles_reader_outputs_agree {K : Inflate} {s f : Bytes} {rs rf : PMTiles.Reader}
    (hs : PMTiles.openReader K s = .ok rs) (hf : PMTiles.openReader K f = .ok rf) (ag : AgreeP s f)
    (hoff : 127 ≤ (pmHdr (f.take 127)).root.off ∧ 127 ≤ (pmHdr (f.take 127)).metaR.off ∧
            127 ≤ (pmHdr (f.take 127)).leaf.off ∧ 127 ≤ (pmHdr (f.take 127)).data.off) :
    rs.cover = rf.cover ∧ rs.root = rf.root ∧ rs.leaves = rf.leaves ∧ rs.icomp = rf.icomp ∧
    rs.header.tcomp = rf.header.tcomp ∧ rs.header.data.off = rf.header.data.off ∧
    rs.header.root = rf.header.root ∧ rs.header.leaf = rf.header.leaf := by
  obtain ⟨hcore, hlen, _⟩ := ag
  have h99 : s.take 99 = f.take 99 := (Prod.mk.inj hcore).1
  have h127 : s.drop 127 = f.drop 127 := (Prod.mk.inj hcore).2
  obtain ⟨hbs, ms, xs, rcs, covs, a1, a2, a3, a4, a5, a6, a7, a8, a9, a10⟩ := pm_openReader_inv hs
  obtain ⟨hbf, mf, xf, rcf, covf, b1, b2, b3, b4, b5, b6, b7, b8, b9, b10⟩ := pm_openReader_inv hf
  obtain ⟨ls, es⟩ := readRange_127 a1
  obtain ⟨lf, ef⟩ := readRange_127 b1
  have hsl : hbs.length = 127 := by rw [es]; simp; omega
  have hfl : hbf.length = 127 := by rw [ef]; simp; omega
  have hhs := ((pm_decHeader_iff hsl _).1 a2).2
  have hhf := ((pm_decHeader_iff hfl _).1 b2).2
  rw [es] at hhs; rw [ef] at hhf
  have fld : ∀ a n, a + n ≤ 99 →
      List.take n (List.drop a (s.take 127)) = List.take n (List.drop a (f.take 127)) := by
    intro a n han
    rw [take_drop_of_take s 127 a n (by omega), take_drop_of_take f 127 a n (by omega)]
    exact take_drop_agree h99 a n han
  have eroot : rs.header.root = rf.header.root := by
    rw [hhs, hhf]; simp only [pmHdr]; rw [fld 8 8 (by omega), fld 16 8 (by omega)]
  have eleaf : rs.header.leaf = rf.header.leaf := by
    rw [hhs, hhf]; simp only [pmHdr]; rw [fld 40 8 (by omega), fld 48 8 (by omega)]
  have edoff : rs.header.data.off = rf.header.data.off := by
    rw [hhs, hhf]; simp only [pmHdr]; rw [fld 56 8 (by omega)]
  have eic : rs.header.icomp = rf.header.icomp := by
    rw [hhs, hhf]; simp only [pmHdr]; rw [fld 97 1 (by omega)]
  have etc : rs.header.tcomp = rf.header.tcomp := by
    rw [hhs, hhf]; simp only [pmHdr]; rw [fld 98 1 (by omega)]
  rw [← hhf] at hoff
  have eicomp : rs.icomp = rf.icomp := by
    rw [eic, b3] at a3; exact (Outcome.ok.inj a3).symm
  have erc : rcs = rcf := by
    rw [eroot, readRange_agree hlen h127 _ hoff.1, b6] at a6; exact (Outcome.ok.inj a6).symm
  have eroots : rs.root = rf.root := by
    rw [eicomp, erc, b7] at a7; exact (Outcome.ok.inj a7).symm
  have eleaves : rs.leaves = rf.leaves := by
    rw [eleaf, readRange_agree hlen h127 _ hoff.2.2.1, b8] at a8; exact (Outcome.ok.inj a8).symm
  have ecov : covs = covf := by
    rw [eicomp, eleaves, eroots, b9] at a9; exact (Outcome.ok.inj a9).symm
  exact ⟨by rw [a10, b10, ecov], eroots, eleaves, eicomp, etc, edoff, eroot, eleaf⟩

/-- **the advertised coverage of a crash state that opens is that of the completed file**
    (same hypotheses and operation sequence as `pmtiles_interrupted_write_safe`): zoom range and bounds
    in header bytes 100..126 may still be zero, the coverage the reader computes from the directories is
    already final. -/
theorem pmtiles_crash_coverage (K : Inflate) (enc : Bytes → Bytes) (s : PMTiles.Source)
    (hnil : K.gzip [] = none) (hmeta : ∃ raw, K.run .gzip s.metaB = .ok raw)
    (file : Bytes) (hw : PMTiles.write enc s = .ok file) (hsize : file.length < U64) :
    ∃ (data root leaves hdr : Bytes), hdr.length = 127 ∧ ∀ tl : List Bytes, tl.flatten = data →
      (run (opsP s.metaB tl root leaves hdr)).file = file ∧
      ∀ i k rs rf, PMTiles.openReader K (crash (opsP s.metaB tl root leaves hdr) i k) = .ok rs →
        PMTiles.openReader K file = .ok rf →
        rs.cover = rf.cover ∧ rs.root = rf.root ∧ rs.leaves = rf.leaves ∧ rs.icomp = rf.icomp ∧
        rs.header.tcomp = rf.header.tcomp := by
  obtain ⟨n, data, root, leaves, hfile⟩ := pm_write_shape hw
  let H := PMTiles.mkHeader s root.length leaves.length data.length n
  have hlen : (PMTiles.encHeader H).length = 127 := VtProofs.PMTiles.length_encHeader H
  refine ⟨data, root, leaves, PMTiles.encHeader H, hlen, fun tl htl => ?_⟩
  have hm : s.metaB ≠ [] := by
    intro he
    obtain ⟨raw, hr⟩ := hmeta
    rw [he] at hr
    simp [Inflate.run, hnil] at hr
  have hh : PMTiles.encHeader H ≠ [] := by
    intro he; rw [he] at hlen; simp at hlen
  let f1 := PMTiles.writeAt [] 16384 s.metaB
  have hl1 : f1.length = 16384 + s.metaB.length := by
    show (PMTiles.writeAt [] 16384 s.metaB).length = _
    rw [VtProofs.PMTilesWrite.writeAt_nil, List.length_append, List.length_replicate]
  let f4 := PMTiles.writeAt (PMTiles.writeAt (PMTiles.writeAt f1 (16384 + s.metaB.length) data) 127 root)
    (16384 + s.metaB.length + data.length) leaves
  have hfile' : file = PMTiles.writeAt f4 0 (PMTiles.encHeader H) := hfile
  have hf4len : 16384 + s.metaB.length + data.length ≤ f4.length :=
    Nat.le_trans (Nat.le_add_right _ _)
      (VtProofs.PMTilesWrite.length_writeAt (PMTiles.writeAt (PMTiles.writeAt f1 (16384 + s.metaB.length) data) 127 root)
        (16384 + s.metaB.length + data.length) leaves).2
  have hflen : f4.length ≤ file.length := by
    rw [hfile']; exact (VtProofs.PMTilesWrite.length_writeAt f4 0 _).1
  have hrun : (run (opsP s.metaB tl root leaves (PMTiles.encHeader H))).file = file := by
    rw [run_opsP _ _ _ _ _ hm hh, htl, cw_eq, cw_eq, cw_eq, cw_eq, hfile']
    have : PMTiles.writeAt f1 (16384 + s.metaB.length) data = f1 ++ data := by
      rw [← hl1]; exact VtProofs.PMTilesWrite.writeAt_end f1 data
    simp only [f4, this]
    rfl
  have htake : file.take 127 = PMTiles.encHeader H := by
    rw [hfile']
    unfold PMTiles.writeAt
    simp only [Nat.not_lt_zero, if_false, List.take_zero, List.nil_append, Nat.zero_add]
    rw [List.take_append_of_le_length (by omega), List.take_of_length_le (by omega)]
  have hU : U64 = 256 ^ 8 := by decide
  have hoffs := pmHdr_enc_offsets H (by show (127 : Nat) < 256 ^ 8; decide) (by show (16384 : Nat) < 256 ^ 8; decide)
    (by show 16384 + s.metaB.length + data.length < 256 ^ 8; rw [← hU]; omega)
    (by show 16384 + s.metaB.length < 256 ^ 8; rw [← hU]; omega)
  have hoff : 127 ≤ (pmHdr (file.take 127)).root.off ∧ 127 ≤ (pmHdr (file.take 127)).metaR.off ∧
      127 ≤ (pmHdr (file.take 127)).leaf.off ∧ 127 ≤ (pmHdr (file.take 127)).data.off := by
    rw [htake, hoffs.1, hoffs.2.1, hoffs.2.2.1, hoffs.2.2.2]
    refine ⟨?_, ?_, ?_, ?_⟩
    · show 127 ≤ (127 : Nat); omega
    · show 127 ≤ (16384 : Nat); omega
    · show 127 ≤ 16384 + s.metaB.length + data.length; omega
    · show 127 ≤ 16384 + s.metaB.length; omega
  refine ⟨hrun, fun i k rs rf hs hf => ?_⟩
  rcases pmtiles_crash_agree s.metaB tl root leaves (PMTiles.encHeader H) hm hlen i k with h | h
  · exact absurd hs (pm_not_open_of_byte98 h rs)
  · rw [hrun] at h
    obtain ⟨c1, c2, c3, c4, c5, _⟩ := pmtiles_reader_outputs_agree hs hf h hoff
    exact ⟨c1, c2, c3, c4, c5⟩


end VtProps.C12
