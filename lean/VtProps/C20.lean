import VtProofs.CacheRecent
/-!
# C20 — the bounded cache is transparent and stays within its capacity

Property theorems about `VtModel.Cache` (the model of `LimitedCache`), for **every**
operation history, capacity ≥ 1 and key space.  Helper lemmas live in `VtProofs/`.
-/
namespace VtProps.C20
open VtModel.Cache

theorem step_inv {c : Cache} (hi : Inv c) (op : Op) : Inv (step c op).1 ∧ (step c op).1.cap = c.cap := by
  cases op with
  | add k v =>
    obtain ⟨c1, _, h, hi', hc⟩ := add_some hi k v
    simp only [step, h]; exact ⟨hi', hc⟩
  | get k =>
    have h1 := lookup_inv hi k
    have h2 := (lookup_items_keys c k).2
    simp only [step]
    cases hg : lookup c k with
    | mk c1 r1 => rw [hg] at h1 h2; cases r1 <;> exact ⟨h1, h2⟩
  | gos k l =>
    simp only [step, getOrSet?]
    have h1 := lookup_inv hi k
    have h2 := (lookup_items_keys c k).2
    cases hg : lookup c k with
    | mk c1 r1 =>
      rw [hg] at h1 h2
      cases r1 with
      | some v => exact ⟨h1, h2⟩
      | none =>
        cases l with
        | none => exact ⟨h1, h2⟩
        | some v =>
          obtain ⟨c2, _, h, hi', hc⟩ := add_some h1 k v
          simp only [h]; exact ⟨hi', by rw [hc]; exact h2⟩

/-- every reachable state satisfies the representation invariant -/
theorem run_inv {c : Cache} (hi : Inv c) (ops : List Op) : Inv (run c ops).1 ∧ (run c ops).1.cap = c.cap := by
  induction ops generalizing c with
  | nil => exact ⟨hi, rfl⟩
  | cons op ops ih =>
    simp only [run]
    obtain ⟨h1, h2⟩ := step_inv hi op
    obtain ⟨h3, h4⟩ := ih h1
    exact ⟨h3, by rw [h4, h2]⟩

/-- **C20a (capacity)**: for every history from the empty cache, the number of entries never
    exceeds the capacity and no key is held twice. -/
theorem capacity_respected (cap : Nat) (hcap : 1 ≤ cap) (ops : List Op) :
    (run (init cap) ops).1.items.length ≤ cap ∧
    ((run (init cap) ops).1.items.map (·.key)).Nodup := by
  obtain ⟨h, hc⟩ := run_inv (inv_init cap hcap) ops
  refine ⟨?_, h.nodup⟩
  have := h.len_le
  rw [hc] at this
  exact this

/-- a step under the invariant never panics (the `indices[..]` access in `cleanup` is in bounds) -/
theorem step_no_panic {c : Cache} (hi : Inv c) (op : Op) : (step c op).2 ≠ .panic := by
  cases op with
  | add k v =>
    obtain ⟨c1, _, h, _⟩ := add_some hi k v
    simp [step, h]
  | get k => simp only [step]; split <;> simp
  | gos k l =>
    simp only [step, getOrSet?]
    cases hgk : lookup c k with
    | mk c1 r1 =>
      have hg := lookup_inv hi k
      rw [hgk] at hg
      cases r1 with
      | some v => simp
      | none =>
        cases l with
        | none => simp
        | some v =>
          obtain ⟨c2, _, h, _⟩ := add_some hg k v
          simp [h]

/-- **C20a'**: no history panics. -/
theorem run_no_panic {c : Cache} (hi : Inv c) (ops : List Op) : Res.panic ∉ (run c ops).2 := by
  induction ops generalizing c with
  | nil => simp [run]
  | cons op ops ih =>
    simp only [run, List.mem_cons, not_or]
    exact ⟨fun h => step_no_panic hi op h.symm, ih (step_inv hi op).1⟩

/-! ### values are never invented -/

def opKey : Op → Nat
  | .add k _ => k
  | .get k => k
  | .gos k _ => k

/-- the operation offers only values allowed by `P` for its key -/
def OpOK (P : Nat → Nat → Prop) : Op → Prop
  | .add k v => P k v
  | .get _ => True
  | .gos k (some v) => P k v
  | .gos _ none => True

def ResOK (P : Nat → Nat → Prop) (op : Op) : Res → Prop
  | .val v => P (opKey op) v
  | _ => True

def AllP (P : Nat → Nat → Prop) (c : Cache) : Prop := ∀ e ∈ c.items, P e.key e.val

theorem lookup_allP {P} {c : Cache} (h : AllP P c) (k : Nat) :
    AllP P (lookup c k).1 ∧ ∀ v, (lookup c k).2 = some v → P k v := by
  unfold lookup
  cases hf : find? c.items k with
  | none => simp [h]
  | some e =>
    obtain ⟨hmem, hk⟩ := find?_key hf
    refine ⟨?_, ?_⟩
    · intro e' he'
      simp only [List.mem_map] at he'
      obtain ⟨x, hx, rfl⟩ := he'
      have := h x hx
      split <;> simpa using this
    · intro v hv; simp at hv; subst hv; rw [← hk]; exact h e hmem

theorem put_allP {P} {c1 : Cache} (h : AllP P c1) {k v : Nat} (hp : P k v) :
    AllP P (put c1 k v).1 ∧ P k (put c1 k v).2 := by
  unfold put
  cases hf : find? c1.items k with
  | some e =>
    obtain ⟨hmem, hk⟩ := find?_key hf
    exact ⟨h, by rw [← hk]; exact h e hmem⟩
  | none =>
    refine ⟨?_, hp⟩
    intro e he
    simp only [List.mem_cons] at he
    rcases he with rfl | he
    · exact hp
    · exact h e he

theorem prepare_allP {P} {c c1 : Cache} (h : AllP P c) (hp : prepare? c = some c1) : AllP P c1 := by
  unfold prepare? at hp
  split at hp
  · intro e' he'
    obtain ⟨e, he, hk, hv⟩ := cleanup_mem hp he'
    rw [← hk, ← hv]; exact h e he
  · cases hp; exact h

theorem step_allP {P} {c : Cache} (h : AllP P c) {op : Op} (hop : OpOK P op) :
    AllP P (step c op).1 ∧ ResOK P op (step c op).2 := by
  cases op with
  | add k v =>
    simp only [step, add?]
    cases hp : prepare? c with
    | none => exact ⟨h, trivial⟩
    | some c1 => exact put_allP (prepare_allP h hp) hop
  | get k =>
    obtain ⟨h1, h2⟩ := lookup_allP h k
    simp only [step]
    cases hg : lookup c k with
    | mk c1 r1 =>
      rw [hg] at h1 h2
      cases r1 with
      | some v => exact ⟨h1, h2 v rfl⟩
      | none => exact ⟨h1, trivial⟩
  | gos k l =>
    obtain ⟨h1, h2⟩ := lookup_allP h k
    simp only [step, getOrSet?]
    cases hg : lookup c k with
    | mk c1 r1 =>
      rw [hg] at h1 h2
      cases r1 with
      | some v => exact ⟨h1, h2 v rfl⟩
      | none =>
        cases l with
        | none => exact ⟨h1, trivial⟩
        | some v =>
          simp only [add?]
          cases hp : prepare? c1 with
          | none => exact ⟨h, trivial⟩
          | some c2 => exact ⟨(put_allP (prepare_allP h1 hp) hop).1, hop⟩

/-- **C20b (soundness of lookups)**: if every value offered for storage under key `k` satisfies
    `P k ·`, then every value any operation of the history returns for key `k` satisfies `P k ·`.
    Instances: `P k v := (k,v) was offered earlier` ("a lookup returns a value stored under exactly
    that key") and `P k v := v = f k` (transparency, used by C13). -/
theorem results_sound (P : Nat → Nat → Prop) {c : Cache} (h : AllP P c) (ops : List Op)
    (hops : ∀ op ∈ ops, OpOK P op) :
    AllP P (run c ops).1 ∧ ∀ p ∈ ops.zip (run c ops).2, ResOK P p.1 p.2 := by
  induction ops generalizing c with
  | nil => simp [run, h]
  | cons op ops ih =>
    obtain ⟨h1, h2⟩ := step_allP h (hops op (by simp))
    obtain ⟨h3, h4⟩ := ih h1 (fun o ho => hops o (by simp [ho]))
    simp only [run]
    refine ⟨h3, ?_⟩
    intro p hp
    simp only [List.zip_cons_cons, List.mem_cons] at hp
    rcases hp with rfl | hp
    · exact h2
    · exact h4 p hp

/-- **C20b, "stored under exactly that key"**: every value returned for key `k` was offered for
    storage under `k` by some operation of the history. -/
theorem returned_was_stored (cap : Nat) (ops : List Op) :
    ∀ p ∈ ops.zip (run (init cap) ops).2, ∀ v, p.2 = .val v →
      (Op.add (opKey p.1) v ∈ ops ∨ Op.gos (opKey p.1) (some v) ∈ ops) := by
  intro p hp v hv
  have := (results_sound (fun k v => Op.add k v ∈ ops ∨ Op.gos k (some v) ∈ ops) (c := init cap)
    (by intro e he; simp [init] at he) ops (by
      intro op hop
      cases op with
      | add k v => exact Or.inl hop
      | get k => trivial
      | gos k l => cases l with
        | none => trivial
        | some v => exact Or.inr hop)).2 p hp
  rw [hv] at this
  exact this

/-- **C20b, transparency corollary**: if every loader/put for key `k` supplies `f k`, every
    answer for `k` is `f k`, whatever the cache state reached. -/
theorem transparent (f : Nat → Nat) (cap : Nat) (ops : List Op)
    (hops : ∀ op ∈ ops, OpOK (fun k v => v = f k) op) :
    ∀ p ∈ ops.zip (run (init cap) ops).2, ∀ v, p.2 = .val v → v = f (opKey p.1) := by
  intro p hp v hv
  have := (results_sound (fun k v => v = f k) (c := init cap) (by intro e he; simp [init] at he) ops hops).2 p hp
  rw [hv] at this
  exact this

/-! ### get-or-compute -/

/-- **C20c**: on a hit `get_or_set` returns the stored value without consulting the loader. -/
theorem getOrSet_hit {c : Cache} {k : Nat} {e : Entry} (h : find? c.items k = some e) (l : Option Nat) :
    ∃ c', getOrSet? c k l = some (c', some e.val) := by
  simp [getOrSet?, lookup, h]

/-- **C20c**: on a miss with a failing loader the error is propagated and the cache is unchanged. -/
theorem getOrSet_miss_fail {c : Cache} {k : Nat} (h : find? c.items k = none) :
    getOrSet? c k none = some (c, none) := by
  simp [getOrSet?, lookup, h]

/-- **C20c**: on a miss with a succeeding loader the loaded value is returned and stored under `k`. -/
theorem getOrSet_miss_ok {c : Cache} (hi : Inv c) {k : Nat} (h : find? c.items k = none) (v : Nat) :
    ∃ c', getOrSet? c k (some v) = some (c', some v) ∧ ∃ e ∈ c'.items, e.key = k ∧ e.val = v := by
  obtain ⟨c1, hp, ha, _, _⟩ := add_some hi k v
  obtain ⟨_, hp', _, _, _, hsub⟩ := prepare_spec hi
  rw [hp] at hp'; cases hp'
  have hf1 : find? c1.items k = none := by
    cases hf : find? c1.items k with
    | none => rfl
    | some e' =>
      obtain ⟨hmem, hk⟩ := find?_key hf
      obtain ⟨e0, he0, hk0, _⟩ := hsub e' hmem
      exact absurd (List.mem_map.mpr ⟨e0, he0, by rw [hk0, hk]⟩) (find?_none h)
  refine ⟨(put c1 k v).1, ?_, ?_⟩
  · simp only [getOrSet?, lookup, h, ha]
  · simp only [put, hf1]
    exact ⟨_, List.mem_cons_self, rfl, rfl⟩

/-! ### recency -/

/-- **C20d (recency)**: for capacity ≥ 2, a key touched by the previous operation (`add`, a `get`
    hit, or a successful `get_or_set`) is still present after the next insertion of a different
    key, eviction or not.  (For capacity 1 this is impossible for any cache that stores the new
    entry; see `recency_fails_cap1`.) -/
theorem recent_survives {c : Cache} (hi : Inv c) (hcap : 2 ≤ c.cap) (op : Op) (v : Nat)
    (hused : (step c op).2 = .val v) (k' v' : Nat) :
    HasKey (step (step c op).1 (.add k' v')).1 (opKey op) ∧
    HasKey (step (step c op).1 (.gos k' (some v'))).1 (opKey op) := by
  obtain ⟨hi1, hc1⟩ := step_inv hi op
  have hcap1 : 2 ≤ (step c op).1.cap := by omega
  have hsafe : Safe (step c op).1 (opKey op) := by
    cases op with
    | add k w =>
      obtain ⟨c1, _, h, _⟩ := add_some hi k w
      simp only [step, h, opKey]
      exact add_safe hi h
    | get k =>
      simp only [step, opKey] at hused ⊢
      cases hg : lookup c k with
      | mk c1 r1 =>
        cases r1 with
        | none => rw [hg] at hused; simp at hused
        | some w =>
          have := lookup_hit_safe hi (k := k) (v := w) (by rw [hg])
          rw [hg] at this; simpa using this
    | gos k l =>
      simp only [step, getOrSet?, opKey] at hused ⊢
      cases hg : lookup c k with
      | mk c1 r1 =>
        have hg1 := lookup_inv hi k
        rw [hg] at hg1
        cases r1 with
        | some w =>
          have := lookup_hit_safe hi (k := k) (v := w) (by rw [hg])
          rw [hg] at this; simpa using this
        | none =>
          cases l with
          | none => rw [hg] at hused; simp at hused
          | some w =>
            obtain ⟨c2, _, h, _⟩ := add_some hg1 k w
            simp only [h]
            exact add_safe hg1 h
  generalize (step c op).1 = s at hi1 hcap1 hsafe
  generalize opKey op = k at hsafe
  constructor
  · obtain ⟨c2, _, h, _⟩ := add_some hi1 k' v'
    simp only [step, h]
    exact add_keeps_safe hi1 hcap1 hsafe h
  · simp only [step, getOrSet?]
    cases hg : lookup s k' with
    | mk c1 r1 =>
      have hk := lookup_items_keys s k'
      rw [hg] at hk
      cases r1 with
      | some w =>
        -- hit on k': nothing is inserted
        obtain ⟨⟨e, he, hek⟩, _⟩ := hsafe
        have : k ∈ c1.items.map (·.key) := by rw [hk.1]; exact List.mem_map.mpr ⟨e, he, hek⟩
        obtain ⟨e2, he2, hk2⟩ := List.mem_map.mp this
        exact ⟨e2, he2, hk2⟩
      | none =>
        -- miss: `lookup` left the cache unchanged, then `add`
        have hc1 := lookup_miss hg
        subst hc1
        obtain ⟨c2, _, h, _⟩ := add_some hi1 k' v'
        simp only [h]
        exact add_keeps_safe hi1 hcap1 hsafe h

/-- capacity 1: the recency law is false (inherent: one slot). -/
theorem recency_fails_cap1 :
    ¬ HasKey (run (init 1) [.add 0 0, .add 1 1]).1 0 := by
  have : (run (init 1) [.add 0 0, .add 1 1]).1.items = [{ key := 1, val := 1, stamp := 2 }] := by decide
  intro ⟨e, he, hk⟩
  rw [this] at he
  simp at he
  subst he; simp at hk

/-! ### non-vacuity -/

example : Inv (run (init 3) [.add 1 10, .add 2 20, .get 1, .add 3 30, .add 4 40]).1 :=
  (run_inv (inv_init 3 (by omega)) _).1

example : (run (init 3) [.add 1 10, .add 2 20, .get 1, .add 3 30, .add 4 40, .get 1, .get 2]).2
    = [.val 10, .val 20, .val 10, .val 30, .val 40, .none, .none] := by decide

example : 2 ≤ (init 2).cap ∧ (step (init 2) (.add 0 0)).2 = .val 0 := by decide

/-! ### byte budget → capacity (`with_maximum_size`) -/

/-- The capacity derived from the byte budget is the largest number of pairs that fits. -/
theorem capacityOf_spec {bytes per cap : Nat} (h : capacityOf bytes per = some cap) :
    1 ≤ cap ∧ 0 < per ∧ cap * per ≤ bytes ∧ bytes < (cap + 1) * per := by
  unfold capacityOf at h
  split at h
  · simp at h
  · rename_i hp
    split at h
    · simp at h
    · rename_i hc
      have hcap : cap = bytes / per := by simpa using h.symm
      subst hcap
      have hpp : 0 < per := Nat.pos_of_ne_zero hp
      refine ⟨by omega, hpp, Nat.div_mul_le_self bytes per, ?_⟩
      have := Nat.lt_div_mul_add (a := bytes) hpp
      rw [Nat.add_mul]; omega

/-- The constructor panics exactly when not even one pair fits (or the pair is zero-sized:
    division by zero). -/
theorem capacityOf_none_iff (bytes per : Nat) :
    capacityOf bytes per = none ↔ (per = 0 ∨ bytes < per) := by
  unfold capacityOf
  by_cases hp : per = 0
  · simp [hp]
  · have hpp : 0 < per := Nat.pos_of_ne_zero hp
    simp only [hp, if_false, false_or]
    constructor
    · intro h
      split at h
      · rename_i hc
        have : bytes / per = 0 := Nat.lt_one_iff.mp hc
        exact (Nat.div_eq_zero_iff.mp this).resolve_left hp
      · simp at h
    · intro h
      have : bytes / per = 0 := Nat.div_eq_of_lt h
      simp [this]

/-- Whatever the history, the entries held never need more bytes than the budget
    (entries × pair size ≤ budget), at every moment of the run. -/
theorem maxLen_le {c : Cache} (hi : Inv c) (ops : List Op) : maxLen c ops ≤ c.cap := by
  induction ops generalizing c with
  | nil => exact hi.len_le
  | cons op ops ih =>
    have h := step_inv hi op
    have := ih h.1
    simp only [maxLen]
    rw [h.2] at this
    exact Nat.max_le.mpr ⟨hi.len_le, this⟩

theorem budget_respected {bytes per cap : Nat} (h : capacityOf bytes per = some cap) (ops : List Op) :
    maxLen (init cap) ops * per ≤ bytes := by
  obtain ⟨h1, _, h3, _⟩ := capacityOf_spec h
  have := maxLen_le (inv_init cap h1) ops
  calc maxLen (init cap) ops * per ≤ cap * per := Nat.mul_le_mul_right per this
    _ ≤ bytes := h3

example : capacityOf 100 16 = some 6 ∧ capacityOf 15 16 = none ∧ capacityOf 16 16 = some 1 ∧ capacityOf 5 0 = none := by decide

end VtProps.C20
